(* C07 — the part of the case check that does NOT depend on the generated tables (no Gen.* import): it still
   evaluates when a translator cannot follow the source. Case type, trust configurations, and
   - code 2: the implementation's observation violates the property over the hand-written SPECIFICATION tables
     (an untrusted remote caller let in outside open_spec; a remote caller let in on a local-only endpoint;
      an update signed by an untrusted peer merged),
   - code 10: a call an untrusted remote caller was let in with did something on the peer that is not in the hand-written
     effect table of that (open) endpoint (Model/C07_Spec.v open_effects),
   - code 11: in a sequence of calls and Trust / Distrust operations on one running peer, a remote caller that is not trusted at
     the time of a call was let in on an endpoint that is not open, or one trusted at the time of the call was refused on a
     trusted_spec endpoint (a stale trust decision, either direction),
   - code 1 for the trust observations (IsTrustedPeer histories, validated broadcasts) against trust_crdt / validator.
   Model/C07_Check.v adds the comparison with the generated policy table. The runner falls back to this module
   (spec key check_fallback) when Model/C07_Check.v does not compile. *)
From Coq Require Import String.
From V Require Import Base.Common Base.Rpc Model.C07_Auth Model.C07_Spec.
Open Scope string_scope.

(* trust configuration of the called peer. Peer 0 is the called / observing peer itself. *)
Inductive tmode := MRaft | MCrdt (star : bool) (configured : list N) (h : list top).
Definition trust_of (m : tmode) (p : N) : bool :=
  match m with
  | MRaft => trust_raft p
  | MCrdt star l h => trust_crdt (mk_crdt_cfg star 0%N l) h p
  end.

(* one step of a call sequence on ONE running peer: the caller calls the endpoint (observed: true = anything but an
   authorization error), or a Trust / Distrust call is made on the called peer's consensus component *)
Inductive sstep := SCall (passed : bool) | SOp (o : top).
(* consensus/raft: Trust and Distrust do nothing; consensus/crdt: they update the trust set at once *)
Definition mode_op (m : tmode) (o : top) : tmode :=
  match m with MRaft => MRaft | MCrdt star l h => MCrdt star l (h ++ [o])%list end.
(* f holds of every call of the sequence, given the trust state AT THE TIME OF THAT CALL *)
Fixpoint seq_forall (f : tmode -> bool -> bool) (m : tmode) (steps : list sstep) : bool :=
  match steps with
  | [] => true
  | SCall p :: r => f m p && seq_forall f m r
  | SOp o :: r => seq_forall f (mode_op m o) r
  end.
(* the sequence with every observation replaced by f of the trust state at that moment *)
Fixpoint seq_annot (f : tmode -> bool) (m : tmode) (steps : list sstep) : list sstep :=
  match steps with
  | [] => []
  | SCall _ :: r => SCall (f m) :: seq_annot f m r
  | SOp o :: r => SOp o :: seq_annot f (mode_op m o) r
  end.
(* the trust state after a prefix of the sequence *)
Definition mode_after (m : tmode) (pre : list sstep) : tmode :=
  fold_left (fun m s => match s with SOp o => mode_op m o | SCall _ => m end) pre m.
Definition ops_of (pre : list sstep) : list top :=
  flat_map (fun s => match s with SOp o => [o] | SCall _ => [] end) pre.

Inductive c07case :=
(* caller (0 = the peer itself through its own client), endpoint, observed: true = anything but an authorization error *)
| CAuth (m : tmode) (caller : N) (ep : string) (passed : bool)
(* one environment, one caller, one endpoint: calls interleaved with later Trust / Distrust calls (m = the state before the first step) *)
| CAuthSeq (m : tmode) (caller : N) (ep : string) (steps : list sstep)
(* what a call by a remote caller that was let in DID on the called peer: the component calls it caused (the harness's
   recording fakes), named as in Model/C07_Spec.v *)
| CEffects (m : tmode) (caller : N) (ep : string) (effs : list string)
(* endpoints found by reflection on the service objects; the policy map the configuration carries at run time;
   isRPCPolicyValid's verdict on it *)
| CMethods (l : list string)
| CPolicy (l : list (string * ept))
| CPolicyValid (ok : bool)
(* package crdt: IsTrustedPeer(p) for p = 0..len-1 after the history *)
| CTrust (star : bool) (configured : list N) (h : list top) (obs : list bool)
(* package crdt: the same, the configuration given as the trusted_peers value written in the file (None = key absent
   or null), env = the Manager's environment pass (ApplyEnvVars, nothing set) was applied after LoadJSON *)
| CTrustJ (tp : option (list tentry)) (env : bool) (h : list top) (obs : list bool)
(* package crdt: an update signed by `signer` and handed to peer 0 (trust state star/configured/h) by `forwarder`
   (= signer when they are connected; a relay otherwise, relay_ok = the relay itself accepted and forwarded it):
   did it reach (true) the state of peer 0 *)
| CDeliver (star : bool) (configured : list N) (h : list top) (signer forwarder : N) (relay_ok : bool) (arrived : bool).

Fixpoint seqN (start : N) (n : nat) : list N :=
  match n with O => [] | S k => start :: seqN (N.succ start) k end.

Definition fail1 (id : N) (b : bool) : list (N * N * N) := if b then [] else [(id, 1%N, 0%N)].
Definition fail2 (id : N) (b : bool) : list (N * N * N) := if b then [] else [(id, 2%N, 0%N)].
Definition fail10 (id : N) (b : bool) : list (N * N * N) := if b then [] else [(id, 10%N, 0%N)].

Definition fail11 (id : N) (b : bool) : list (N * N * N) := if b then [] else [(id, 11%N, 0%N)].

(* one call of a sequence, judged with the trust state at the time of the call (remote callers only): let in -> the endpoint is
   open, or the caller is trusted NOW and the endpoint is not local-only; refused -> not (trusted NOW and a trusted_spec endpoint) *)
Definition seq_call_okb (caller : N) (ep : string) (m : tmode) (passed : bool) : bool :=
  N.eqb caller 0 ||
  (if passed then mem_str ep open_spec || (trust_of m caller && negb (mem_str ep local_only_spec))
   else negb (trust_of m caller && mem_str ep trusted_spec)).

(* an untrusted remote caller's admitted call did nothing outside the allowed effects of its endpoint *)
Definition effects_okb (m : tmode) (caller : N) (ep : string) (effs : list string) : bool :=
  N.eqb caller 0 || trust_of m caller || forallb (fun x => mem_str x (allowed_effects ep)) effs.

Definition check_case_spec (c : N * c07case) : list (N * N * N) :=
  let '(id, k) := c in
  match k with
  | CAuth m caller ep passed =>
      let local := N.eqb caller 0 in
      (* a remote caller that is let in is calling an open endpoint, or is trusted and calling an endpoint that is not local-only *)
      fail2 id (negb passed || local || mem_str ep open_spec
                || (trust_of m caller && negb (mem_str ep local_only_spec)))
  | CAuthSeq m caller ep steps => fail11 id (seq_forall (seq_call_okb caller ep) m steps)
  | CEffects m caller ep effs => fail10 id (effects_okb m caller ep effs)
  | CTrust star l h obs =>
      fail1 id (list_eqb Bool.eqb (map (trust_crdt (mk_crdt_cfg star 0%N l) h) (seqN 0 (length obs))) obs)
  | CTrustJ tp env h obs =>
      let cfg := cfg_of_json 0%N tp in
      let cfg := if env then env_pass cfg else cfg in
      (fail1 id (list_eqb Bool.eqb (map (trust_crdt cfg h) (seqN 0 (length obs))) obs) ++
       (* the property itself on the implementation's answer, before any Trust/Distrust call: a peer other than the
          observer is trusted only if it, or "*", is written in the list *)
       fail2 id (negb (match h with [] => true | _ => false end) ||
                 forallb (fun pb => negb (snd pb) || N.eqb (fst pb) 0 ||
                            match tp with None => false
                            | Some l => existsb (fun e => match e with TStar => true | TPeer q => N.eqb q (fst pb) end) l end)
                         (combine (seqN 0 (length obs)) obs)))%list
  | CDeliver star l h signer forwarder relay_ok arrived =>
      (* the validator looks at the signer, never at who handed the message over *)
      (fail1 id (Bool.eqb (relay_ok && validator (mk_crdt_cfg star 0%N l) h signer) arrived) ++
       fail2 id (negb arrived || trust_crdt (mk_crdt_cfg star 0%N l) h signer))%list
  | _ => []
  end.

Definition failing (cs : list (N * c07case)) : list (N * N * N) := flat_map check_case_spec cs.
