(* C13 — the importer for ONE file: size chunker, DagBuilderHelper, balanced and trickle layouts.
   Executable transcription, definitions only.

   go-ipfs-chunker v0.0.5 splitting.go            sizeSplitterv2.NextBytes          -> chunk
   go-unixfs v0.2.6 importer/helpers/dagbuilder.go  Done / Next / NewLeafDataNode / Add /
                                                  FSNodeOverDag.AddChild / FileSize / FillNodeLayer
                                                                                    -> done, new_leaf_data_node, db_add, add_child,
                                                                                       node_filesize, fill_loop
   go-unixfs v0.2.6 importer/balanced/builder.go  Layout, fillNodeRec                -> balanced_layout, layout_loop, fill_node_rec
   go-unixfs v0.2.6 importer/trickle/trickledag.go Layout, fillTrickleRec            -> trickle_layout, trickle_rec, depth_loop, repeat_loop

   What is abstracted. A block is its content: `Leaf data` (a raw node, or a dag-pb node whose UnixFS Data field
   is the chunk: raw-leaves on/off and the UnixFS type TFile / TRaw change the encoding, not the shape) or
   `Node links` (a dag-pb node with one link per child and, in its UnixFS part, one `blocksize` per child:
   the recorded size). The hash is abstracted: the CID of a block is any injective function of its content
   (Model/C13_ImporterSpec.v quantifies over it). The dag-pb `Tsize` of a link (cumulative encoded size) and
   the encodings themselves are not modelled. DAGService.Add never fails here: the stream below is the complete
   stream; a failing Add cuts it (adder model: add_all stops at the first error).

   Emission: `db_add` is DagBuilderHelper.Add = DAGService.Add; `d_out` lists the blocks handed to the DAG service,
   newest first. AddChild adds the CHILD at the moment it is linked; the root is added by Layout at the end. *)
From V Require Import Base.Common.
Open Scope N_scope.

Definition bytes := list N.
Definition blen (d : bytes) : N := N.of_nat (length d).

(* ---- the size splitter: io.ReadFull of `size` bytes; a short read is the last chunk; a read of nothing is io.EOF
   (no chunk: the empty file has NO chunk, and a file of exactly n*size bytes has no empty trailing chunk).
   Recursion on fuel = number of bytes (every chunk takes at least one byte when size > 0; Proofs: chunk_concat). ---- *)
Fixpoint chunk_fuel (fuel k : nat) (bs : bytes) : list bytes :=
  match bs with
  | [] => []
  | _ => match fuel with
         | O => []
         | S f => firstn k bs :: chunk_fuel f k (skipn k bs)
         end
  end.
Definition chunk (k : N) (bs : bytes) : list bytes := chunk_fuel (length bs) (N.to_nat k) bs.

(* ---- blocks ---- *)
Inductive tree := Leaf (d : bytes) | Node (ch : list (tree * N)).     (* child, recorded size (UnixFS blocksize) *)
Notation link := (tree * N)%type (only parsing).

Definition kids (t : tree) : list tree := match t with Leaf _ => [] | Node ch => map fst ch end.

(* the chunks below a block, left to right; what a sequential UnixFS reader returns *)
Fixpoint leaves (t : tree) : list bytes :=
  match t with Leaf d => [d] | Node ch => flat_map (fun l => leaves (fst l)) ch end.
Definition read_back (t : tree) : bytes := concat (leaves t).

(* the number of file bytes really below a block *)
Fixpoint tsize (t : tree) : N :=
  match t with Leaf d => blen d | Node ch => fold_right (fun l a => tsize (fst l) + a) 0 ch end.

(* every block of the DAG, children before parents, left to right *)
Fixpoint postorder (t : tree) : list tree :=
  match t with Leaf _ => [t] | Node ch => flat_map (fun l => postorder (fst l)) ch ++ [t] end.
Definition below (t : tree) : list tree :=
  match t with Leaf _ => [] | Node ch => flat_map (fun l => postorder (fst l)) ch end.

Fixpoint height (t : tree) : nat :=
  match t with Leaf _ => O | Node ch => S (fold_right (fun l a => Nat.max (height (fst l)) a) O ch) end.

(* a reader that seeks: the bytes [off, off+n) of the file, skipping every child whose RECORDED size lies before off *)
Fixpoint read_range (t : tree) (off n : N) : bytes :=
  match t with
  | Leaf d => firstn (N.to_nat n) (skipn (N.to_nat off) d)
  | Node ch =>
      (fix go (ch : list (tree * N)) (off n : N) : bytes :=
         match ch with
         | [] => []
         | (c, sz) :: r =>
             if sz <=? off then go r (off - sz) n
             else let here := N.min n (sz - off) in
                  read_range c off here ++ (if here <? n then go r 0 (n - here) else [])
         end) ch off n
  end.

(* ---- DagBuilderHelper ---- *)
Record db := mkdb { d_rest : list bytes; d_out : list tree }.
Definition done (s : db) : bool := match d_rest s with [] => true | _ => false end.
Definition db_add (t : tree) (s : db) : db := mkdb (d_rest s) (t :: d_out s).

(* NewLeafDataNode: Next() (nil at the end of the data) then NewLeafNode; returns the node and len(data) *)
Definition new_leaf_data_node (s : db) : tree * N * db :=
  match d_rest s with
  | [] => (Leaf [], 0, s)
  | c :: r => (Leaf c, blen c, mkdb r (d_out s))
  end.

(* FSNodeOverDag under construction = its links with the recorded sizes.
   AddChild: AddNodeLink, AddBlockSize(fileSize), db.Add(child) *)
Definition add_child (node : list link) (c : tree) (sz : N) (s : db) : list link * db := (node ++ [(c, sz)], db_add c s).
(* FileSize(): the UnixFS Filesize field = sum of the block sizes added (an internal node carries no data) *)
Definition node_filesize (node : list link) : N := fold_right (fun l a => snd l + a) 0 node.

Inductive ierr := IDepth | IFuel.       (* "attempt to fillNode at depth < 1" | fuel of the transcription exhausted *)

(* `for node.NumChildren() < db.Maxlinks() && !db.Done() { child := mk(); node.AddChild(child) }`
   (the loop of fillNodeRec and of FillNodeLayer). Fuel: at most maxlinks iterations (Proofs: fill_loop_spec). *)
Fixpoint fill_loop (mk : db -> ierr + (tree * N * db)) (ml : N) (fuel : nat) (node : list link) (s : db) : ierr + (list link * db) :=
  if (N.of_nat (length node) <? ml) && negb (done s) then
    match fuel with
    | O => inl IFuel
    | S f => match mk s with
             | inl e => inl e
             | inr (c, sz, s1) => let '(node', s2) := add_child node c sz s1 in fill_loop mk ml f node' s2
             end
    end
  else inr (node, s).

Definition leaf_mk (s : db) : ierr + (tree * N * db) := inr (new_leaf_data_node s).

(* ---- balanced/builder.go ---- *)
(* fillNodeRec(db, node, depth); node = nil is the empty link list. Structural recursion on depth. *)
Fixpoint fill_node_rec (ml : N) (depth : nat) (node : list link) (s : db) : ierr + (tree * N * db) :=
  match depth with
  | O => inl IDepth
  | S d =>
      let mk := match d with O => leaf_mk | S _ => fill_node_rec ml d [] end in
      match fill_loop mk ml (N.to_nat ml) node s with
      | inl e => inl e
      | inr (node', s') => inr (Node node', node_filesize node', s')
      end
  end.

(* `for depth := 1; !db.Done(); depth++ { newRoot.AddChild(root, fileSize, db); root, fileSize = fillNodeRec(db, newRoot, depth) }
    return root, db.Add(root)`.
   The error of that AddChild is dropped by the code (finding unixfs-balanced-first-leaf-error-swallowed; no error here).
   Fuel: the number of chunks (every round takes at least one chunk when maxlinks >= 2; Proofs: balanced_total). *)
Fixpoint layout_loop (ml : N) (fuel depth : nat) (root : tree) (fsz : N) (s : db) : ierr + (tree * N * db) :=
  if done s then inr (root, fsz, db_add root s)
  else match fuel with
       | O => inl IFuel
       | S f =>
           let '(node, s1) := add_child [] root fsz s in
           match fill_node_rec ml depth node s1 with
           | inl e => inl e
           | inr (root', fsz', s2) => layout_loop ml f (S depth) root' fsz' s2
           end
       end.

(* Layout: result = (root, recorded file size of the root, blocks in the order of DAGService.Add) *)
Definition balanced_layout (ml : N) (chunks : list bytes) : ierr + (tree * N * list tree) :=
  let s0 := mkdb chunks [] in
  if done s0 then
    let root := Leaf [] in inr (root, 0, rev' (d_out (db_add root s0)))          (* "No data, return just an empty node" *)
  else
    let '(root, fsz, s1) := new_leaf_data_node s0 in
    match layout_loop ml (length chunks) 1 root fsz s1 with
    | inl e => inl e
    | inr (r, sz, s) => inr (r, sz, rev' (d_out s))
    end.

(* ---- trickle/trickledag.go ---- *)
Definition depthRepeat : nat := 4.

(* `for repeatIndex := 0; repeatIndex < depthRepeat && !db.Done(); repeatIndex++ { child := fillTrickleRec(db, new, depth); node.AddChild(child) }` *)
Fixpoint repeat_loop (mk : db -> ierr + (tree * N * db)) (n : nat) (node : list link) (s : db) : ierr + (list link * db) :=
  match n with
  | O => inr (node, s)
  | S n' =>
      if done s then inr (node, s)
      else match mk s with
           | inl e => inl e
           | inr (c, sz, s1) => let '(node', s2) := add_child node c sz s1 in repeat_loop mk n' node' s2
           end
  end.

(* `for depth := 1; maxDepth == -1 || depth < maxDepth; depth++ { if db.Done() { break }; <repeat_loop> }`
   maxDepth = -1 is None. Fuel: the number of chunks left (every round takes at least one chunk when maxlinks >= 1). *)
Fixpoint depth_loop (mkd : nat -> db -> ierr + (tree * N * db)) (fuel depth : nat) (maxDepth : option nat)
                    (node : list link) (s : db) : ierr + (list link * db) :=
  if match maxDepth with None => true | Some m => Nat.ltb depth m end then
    if done s then inr (node, s)
    else match fuel with
         | O => inl IFuel
         | S f => match repeat_loop (mkd depth) depthRepeat node s with
                  | inl e => inl e
                  | inr (node', s') => depth_loop mkd f (S depth) maxDepth node' s'
                  end
         end
  else inr (node, s).

(* fillTrickleRec(db, node, maxDepth): FillNodeLayer, then the layers. Recursion on fuel (a call with maxDepth = d needs d). *)
Fixpoint trickle_rec (ml : N) (fuel : nat) (maxDepth : option nat) (node : list link) (s : db) : ierr + (tree * N * db) :=
  match fuel with
  | O => inl IFuel
  | S f =>
      match fill_loop leaf_mk ml (N.to_nat ml) node s with
      | inl e => inl e
      | inr (n1, s1) =>
          match depth_loop (fun d => trickle_rec ml f (Some d) []) (length (d_rest s1)) 1 maxDepth n1 s1 with
          | inl e => inl e
          | inr (n2, s2) => inr (Node n2, node_filesize n2, s2)
          end
      end
  end.

(* Layout: fillTrickleRec(db, newRoot, -1); db.Add(root). The empty file is an internal node without links. *)
Definition trickle_layout (ml : N) (chunks : list bytes) : ierr + (tree * N * list tree) :=
  match trickle_rec ml (S (length chunks)) None [] (mkdb chunks []) with
  | inl e => inl e
  | inr (r, sz, s) => inr (r, sz, rev' (d_out (db_add r s)))
  end.

(* ---- total forms (the layouts never fail for the maxlinks the theorems allow; Proofs: balanced_total, trickle_total) ---- *)
Definition layout_tree (r : ierr + (tree * N * list tree)) : tree := match r with inr (t, _, _) => t | inl _ => Leaf [] end.
Definition layout_size (r : ierr + (tree * N * list tree)) : N := match r with inr (_, z, _) => z | inl _ => 0 end.
Definition layout_emission (r : ierr + (tree * N * list tree)) : list tree := match r with inr (_, _, em) => em | inl _ => [] end.

(* ---- the boolean form of the properties of a DAG (used on the model and on the observed DAG) ---- *)
Definition node_fanout_okb (lo hi : N) (t : tree) : bool :=
  match t with Leaf _ => true | Node ch => (lo <=? N.of_nat (length ch)) && (N.of_nat (length ch) <=? hi) end.
Definition node_sizes_okb (t : tree) : bool :=
  match t with Leaf _ => true | Node ch => forallb (fun l => N.eqb (snd l) (tsize (fst l))) ch end.
Definition fanout_okb (lo hi : N) (t : tree) : bool := forallb (node_fanout_okb lo hi) (postorder t).
Definition sizes_okb (t : tree) : bool := forallb node_sizes_okb (postorder t).
Fixpoint uniformb (d : nat) (t : tree) : bool :=
  match d, t with
  | O, Leaf _ => true
  | S d', Node ch => forallb (fun l => uniformb d' (fst l)) ch
  | _, _ => false
  end.

(* ---- adder/ipfsadd/add.go Adder.add: `if adder.Trickle { trickle.Layout(db) } else { balanced.Layout(db) }` on the
   chunks of chunker.FromString(reader, "size-k") with Maxlinks = helpers.DefaultLinksPerBlock ---- *)
Definition importer (trickle : bool) (ml k : N) (bs : bytes) : ierr + (tree * N * list tree) :=
  if trickle then trickle_layout ml (chunk k bs) else balanced_layout ml (chunk k bs).
(* the least links-per-block for which the layout terminates (Proofs: importer_total; balanced_one_link_diverges) *)
Definition min_links (trickle : bool) : N := if trickle then 1 else 2.

(* ---- vocabulary of the statements (Props/C13.v) ---- *)
Fixpoint all_but_last {A} (P : A -> Prop) (l : list A) : Prop :=
  match l with
  | [] => True
  | x :: r => match r with [] => True | _ => P x end /\ all_but_last P r
  end.

(* a property of every block of a DAG *)
Definition all_nodes (P : tree -> Prop) (t : tree) : Prop := forall n, In n (postorder t) -> P n.

(* every link of a node records the number of file bytes below it *)
Definition sized (n : tree) : Prop :=
  match n with Leaf _ => True | Node ch => Forall (fun l => snd l = tsize (fst l)) ch end.

(* an internal node: between 1 and maxlinks children, every link records the bytes below it *)
Definition node_ok (ml : N) (n : tree) : Prop :=
  match n with
  | Leaf _ => True
  | Node ch => 1 <= N.of_nat (length ch) <= ml /\ Forall (fun l => snd l = tsize (fst l)) ch
  end.

(* every leaf at depth d *)
Fixpoint uniform (d : nat) (t : tree) : Prop :=
  match d, t with
  | O, Leaf _ => True
  | S d', Node ch => forall l, In l ch -> uniform d' (fst l)
  | _, _ => False
  end.

(* an internal node below the root is never empty; every link records the bytes below it *)
Definition tnode_ok (n : tree) : Prop :=
  match n with
  | Leaf _ => True
  | Node ch => ch <> [] /\ Forall (fun l => snd l = tsize (fst l)) ch
  end.

(* the trickle shape. A (sub-)tree made by fillTrickleRec with maxDepth md (None: the root, no limit) has as children at most
   maxlinks leaves, then sub-trees; sub-trees only after a full leaf layer; the i-th sub-tree (from 0) was made with
   maxDepth i/depthRepeat + 1, which stays below md. (fuel: nesting depth of the description; S (number of chunks) always suffices) *)
Definition is_leaf (t : tree) : Prop := match t with Leaf _ => True | Node _ => False end.
Definition depth_allowed (md : option nat) (j : nat) : Prop := match md with Some m => (j < m)%nat | None => True end.
Fixpoint tshape (fuel : nat) (ml : N) (md : option nat) (t : tree) : Prop :=
  match fuel with
  | O => False
  | S f =>
      match t with
      | Leaf _ => False
      | Node ch =>
          exists lv sub, map fst ch = lv ++ sub /\ Forall is_leaf lv /\ N.of_nat (length lv) <= ml /\
            (sub <> [] -> N.of_nat (length lv) = ml) /\
            forall i c, nth_error sub i = Some c ->
              depth_allowed md (S (i / depthRepeat)) /\ tshape f ml (Some (S (i / depthRepeat))) c
      end
  end.
