(* C17 — Raft membership changes: executable transcription (definitions only).

   What is transcribed, and from where:
   * peers_step/peers_of   hashicorp/raft configuration.go nextConfiguration (AddVoter of a present voter changes nothing,
                           RemoveServer of an absent server changes nothing), folded over the one committed log;
   * attempt_add/attempt_rm  consensus/raft/raft.go raftWrapper.AddPeer / RemovePeer AS WRITTEN: Peers() first; a present
                           peer is not added again and an absent one is not removed (no log entry, success); the single
                           remaining peer cannot be removed (error, no entry);
   * cons_add/cons_rm      consensus/raft/consensus.go Consensus.AddPeer / RmPeer: the retry loop (CommitRetries+1 attempts,
                           the next attempt only after an error);
   * report/ready          raft.go Peers (the node's LATEST configuration, i.e. of the entries it has received),
                           consensus.go WaitForSync = WaitForLeader + WaitForVoter (voter in its own latest configuration)
                           + WaitForUpdates (raft.AppliedIndex() = raft.LastIndex(); hashicorp/raft v1.1.1 advances the former
                           when an entry is queued for the FSM, S25).
   What hashicorp/raft decides (whether an appended entry commits, who receives what when) is an explicit argument:
   the outcome of each attempt and the event list; theorems quantify over them. *)
From V Require Import Base.Common Model.C01_RaftLog.
Open Scope N_scope.

(* the whole Raft log: pin/unpin commands and configuration entries, in index order *)
Inductive mentry := EOp (op : logop) | EAdd (p : N) | ERm (p : N).

Fixpoint removeN (x : N) (l : list N) : list N :=
  match l with [] => [] | y :: r => if x =? y then removeN x r else y :: removeN x r end.

Definition peers_step (s : list N) (e : mentry) : list N :=
  match e with
  | EAdd p => if memN p s then s else s ++ [p]
  | ERm p => removeN p s
  | EOp _ => s
  end.
Definition peers_of (init : list N) (lg : list mentry) : list N := fold_left peers_step lg init.

Definition ops_of (lg : list mentry) : list logop :=
  flat_map (fun e => match e with EOp op => [op] | _ => [] end) lg.
Definition is_member_entry (e : mentry) : bool := match e with EOp _ => false | _ => true end.

(* what hashicorp/raft does with a configuration change the wrapper decided to submit *)
Inductive outcome :=
| Done        (* appended, committed, future returns nil *)
| LostAfter   (* appended (and later committed), but the future returned an error (leadership lost, timeout) *)
| Failed.     (* not appended, error *)

(* raftWrapper.AddPeer: returns the log and whether an error is reported *)
Definition attempt_add (init : list N) (lg : list mentry) (p : N) (o : outcome) : list mentry * bool :=
  if memN p (peers_of init lg) then (lg, false)
  else match o with
       | Done => (lg ++ [EAdd p], false)
       | LostAfter => (lg ++ [EAdd p], true)
       | Failed => (lg, true)
       end.

(* raftWrapper.RemovePeer *)
Definition attempt_rm (init : list N) (lg : list mentry) (p : N) (o : outcome) : list mentry * bool :=
  let ps := peers_of init lg in
  if negb (memN p ps) then (lg, false)
  else if (Nat.eqb (length ps) 1) && (match ps with q :: _ => q =? p | [] => false end) then (lg, true)
  else match o with
       | Done => (lg ++ [ERm p], false)
       | LostAfter => (lg ++ [ERm p], true)
       | Failed => (lg, true)
       end.

(* Consensus.AddPeer / RmPeer at the leader: one attempt per outcome supplied, the next one only after an error *)
Fixpoint retry (att : list mentry -> outcome -> list mentry * bool) (lg : list mentry) (os : list outcome) : list mentry * bool :=
  match os with
  | [] => (lg, true)
  | o :: r =>
      let '(lg', err) := att lg o in
      if err then match r with [] => (lg', true) | _ => retry att lg' r end else (lg', false)
  end.
Definition cons_add (init : list N) (lg : list mentry) (p : N) (os : list outcome) := retry (fun l o => attempt_add init l p o) lg os.
Definition cons_rm (init : list N) (lg : list mentry) (p : N) (os : list outcome) := retry (fun l o => attempt_rm init l p o) lg os.

(* ---- members: what each one has received and applied ---- *)
Record member := mkmember {
  m_recv : nat;        (* entries of the log this member holds (its LastIndex) *)
  m_queued : nat;      (* committed entries hashicorp/raft has handed to the FSM goroutine's queue: raft.go processLogs advances
                          lastApplied - what AppliedIndex() returns - when an entry is QUEUED (buffer of 128), not when it is applied *)
  m_applied : nat;     (* entries the FSM has really applied *)
  m_st : pinset        (* its pinset *)
}.
Definition member0 : member := mkmember 0 0 0 [].

Definition entry_apply (s : pinset) (e : mentry) : pinset := match e with EOp op => apply_op s op | _ => s end.
Definition state_at (lg : list mentry) (j : nat) : pinset := replay (ops_of (firstn j lg)).

Inductive cevent :=
| CAppend (e : mentry)        (* the leader appends an entry that commits *)
| CRecv (n : nat)             (* member n receives its next entry (AppendEntries) *)
| CQueue (n : nat)            (* member n learns that its next received entry is committed and queues it for its FSM *)
| CApply (n : nat)            (* member n's FSM applies its next queued entry *)
| CInstall (n : nat) (j : nat)  (* member n is sent a snapshot of the first j entries (state and configuration) *)
| CRestart (n : nat).         (* member n restarts: its log survives, its FSM starts empty *)

Record mcluster := mkmcluster { mlog : list mentry; members : list member }.
Fixpoint mupd (n : nat) (f : member -> member) (l : list member) : list member :=
  match l, n with [], _ => [] | x :: r, O => f x :: r | x :: r, S k => x :: mupd k f r end.
Definition mget (n : nat) (cl : mcluster) : member := nth n (members cl) member0.

Definition cstep (cl : mcluster) (e : cevent) : mcluster :=
  match e with
  | CAppend x => mkmcluster (mlog cl ++ [x]) (members cl)
  | CRecv n =>
      mkmcluster (mlog cl) (mupd n (fun m => if Nat.ltb (m_recv m) (length (mlog cl)) then mkmember (S (m_recv m)) (m_queued m) (m_applied m) (m_st m) else m) (members cl))
  | CQueue n =>
      mkmcluster (mlog cl) (mupd n (fun m => if Nat.ltb (m_queued m) (m_recv m) then mkmember (m_recv m) (S (m_queued m)) (m_applied m) (m_st m) else m) (members cl))
  | CApply n =>
      mkmcluster (mlog cl) (mupd n (fun m =>
        if Nat.ltb (m_applied m) (m_queued m) then
          match nth_error (mlog cl) (m_applied m) with
          | Some x => mkmember (m_recv m) (m_queued m) (S (m_applied m)) (entry_apply (m_st m) x)
          | None => m end
        else m) (members cl))
  | CInstall n j =>
      (* the restore goes through the same queue and the installer waits for it: everything queued before is applied first *)
      if Nat.leb j (length (mlog cl)) then
        mkmcluster (mlog cl) (mupd n (fun m => mkmember (Nat.max j (m_recv m)) j j (state_at (mlog cl) j)) (members cl))
      else cl
  | CRestart n => mkmcluster (mlog cl) (mupd n (fun m => mkmember (m_recv m) 0 0 []) (members cl))
  end.
Definition crun (cl : mcluster) (es : list cevent) : mcluster := fold_left cstep es cl.
Definition cinit (k : nat) : mcluster := mkmcluster [] (repeat member0 k).

(* Peers() of a member: its latest configuration *)
Definition report (init : list N) (cl : mcluster) (m : member) : list N := peers_of init (firstn (m_recv m) (mlog cl)).
(* WaitForSync returned on member number p: voter in its own latest configuration and AppliedIndex() = LastIndex() *)
Definition ready (init : list N) (cl : mcluster) (p : N) (m : member) : bool :=
  memN p (report init cl m) && Nat.eqb (m_queued m) (m_recv m).
