(* C14 — consensus/raft/data_helper.go (listBackups, makeBackup), consensus/raft/raft.go (CleanupRaft,
   SnapshotSave, LastStateRaw) and consensus/raft/consensus.go (OfflineState) on a model of the
   directory that holds the Raft data folder and its rotated backups. Definitions only.

   A folder is (marker, newest snapshot): the marker identifies the folder (the harness drops a
   marker file into every folder it creates; 0 = no marker file), the second component is the
   payload of the newest snapshot stored in it, if any. The directory is the live data folder
   plus <name>.old.i for every index i (a total function: every pre-existing set of backups). *)
From V Require Import Base.Common.

Definition folder (S : Type) := (N * option S)%type.

Record dir (S : Type) := mk_dir { live : option (folder S); olds : nat -> option (folder S) }.
Arguments mk_dir {S}. Arguments live {S}. Arguments olds {S}.

Definition upd {F} (o : nat -> option F) (i : nat) (v : option F) : nat -> option F :=
  fun j => if Nat.eqb j i then v else o j.

(* listBackups: for i := 0; i < keep; i++ { stat name.old.i; not there -> return } : the number of
   contiguous existing backups from index `from`, at most keep *)
Fixpoint prefix {F} (o : nat -> option F) (keep from : nat) : nat :=
  match keep with
  | O => O
  | S k => match o from with Some _ => S (prefix o k (S from)) | None => O end
  end.

(* for i := top; i > 0; i-- { os.Rename(backups[i-1], backups[i]) }  (a rename moves: the source disappears) *)
Fixpoint shift {F} (o : nat -> option F) (top : nat) : nat -> option F :=
  match top with O => o | S t => shift (upd (upd o (S t) (o t)) t None) t end.

(* makeBackup after the "nothing to backup" test: remove the last when the prefix is full, else
   append a fresh name; shift; live -> old.0 *)
Definition rotate {F} (keep : nat) (f : F) (o : nat -> option F) : nat -> option F :=
  let n := prefix o keep 0 in
  let o1 := if keep <=? n then upd o (n - 1) None else o in
  let top := if keep <=? n then n - 1 else n in
  upd (shift o1 top) 0 (Some f).

Definition make_backup {S} (keep : nat) (d : dir S) : dir S :=
  match live d with
  | None => d                                        (* "nothing to backup" *)
  | Some f => mk_dir None (rotate keep f (olds d))
  end.

(* CleanupRaft: no snapshot in the data folder -> os.RemoveAll(dataFolder); else makeBackup.
   (latestSnapshot creates the folder when it is missing; it is then removed again.) *)
Definition cleanup {S} (keep : nat) (d : dir S) : dir S :=
  match live d with
  | None => d
  | Some (_, None) => mk_dir None (olds d)
  | Some (_, Some _) => make_backup keep d
  end.

(* SnapshotSave: makeDataFolder; if a snapshot exists the folder is cleaned up (rotated) first and a
   new folder is created by the snapshot store; the payload becomes the newest snapshot *)
Definition snapshot_save {S} (keep : nat) (payload : S) (d : dir S) : dir S :=
  match live d with
  | None => mk_dir (Some (0%N, Some payload)) (olds d)
  | Some (m, None) => mk_dir (Some (m, Some payload)) (olds d)
  | Some (m, Some _) => mk_dir (Some (0%N, Some payload)) (olds (cleanup keep d))
  end.

(* LastStateRaw: the newest snapshot of the live folder, if any *)
Definition last_state_raw {S} (d : dir S) : option S :=
  match live d with Some (_, Some s) => Some s | _ => None end.

(* one step of a history: the data folder is put into the given condition (None: absent), then
   CleanupRaft (true) or makeBackup (false) runs *)
Definition step (S : Type) := (option (folder S) * bool)%type.

Definition run_step {S} (keep : nat) (d : dir S) (st : step S) : dir S :=
  let d1 := mk_dir (fst st) (olds d) in
  if snd st then cleanup keep d1 else make_backup keep d1.

Definition run_steps {S} (keep : nat) (d : dir S) (sts : list (step S)) : dir S := fold_left (run_step keep) sts d.

(* the folders a history hands to the rotation: every step whose folder exists and, for CleanupRaft, holds a snapshot *)
Definition rotated_of {S} (st : step S) : list (folder S) :=
  match st with
  | (Some (m, Some s), _) => [(m, Some s)]
  | (Some (m, None), false) => [(m, None)]
  | _ => []
  end.
