(* C03 — allocate.go (allocate, obtainAllocations), allocator/util/metricsorter.go (SortNumeric),
   ascendalloc / descendalloc, and the monitor's LatestMetrics filter, as executable Gallina.
   Definitions only. *)
From V Require Import Base.Common.
Open Scope Z_scope.

(* one raw metric per peer, as the monitor holds it (C09 proves one-per-peer) *)
Record metric := mk_metric { mpeer : N; mval : option N (* None: non-numeric value *); mexp : Z; mvalid : bool }.

(* api.Metric.Discard: !Valid || Expired; Expired = now.After(expire) *)
Definition discard (now : Z) (m : metric) : bool := negb (mvalid m) || (mexp m <? now).

(* monitor.LatestMetrics: only non-discardable metrics are handed to allocate *)
Definition latest_valid (now : Z) (ms : list metric) : list metric := filter (fun m => negb (discard now m)) ms.

(* allocator/util SortNumeric: drop discardable / non-numeric, sort by value.
   sort.Sort is not stable and the input is a Go map: ties come out in any order; the model
   uses insertion sort and the statements are up to ties. *)
Definition lebm (rev : bool) (a b : N * N) : bool := if rev then (snd b <=? snd a)%N else (snd a <=? snd b)%N.
Fixpoint insert (rev : bool) (x : N * N) (l : list (N * N)) : list (N * N) :=
  match l with [] => [x] | y :: ys => if lebm rev x y then x :: l else y :: insert rev x ys end.
Definition keyed (now : Z) (ms : list metric) : list (N * N) :=
  flat_map (fun m => if discard now m then [] else match mval m with Some v => [(mpeer m, v)] | None => [] end) ms.
Definition sort_keyed (now : Z) (rev : bool) (ms : list metric) : list (N * N) := fold_right (insert rev) [] (keyed now ms).
Definition sort_numeric (now : Z) (rev : bool) (ms : list metric) : list N := map fst (sort_keyed now rev ms).

Record input := mk_input { rmin : Z; rmax : Z; current : list N; metrics : list metric;
                           blacklist : list N; priority : list N; rev : bool (* false: ascendalloc, true: descendalloc *) }.
Inductive res := Ok (l : list N) | ErrBadFactors | ErrNotEnough.

Definition is_cur (i : input) (m : metric) := negb (memN (mpeer m) (blacklist i)) && memN (mpeer m) (current i).
Definition is_prio (i : input) (m : metric) :=
  negb (memN (mpeer m) (blacklist i)) && negb (memN (mpeer m) (current i)) && memN (mpeer m) (priority i).
Definition is_cand (i : input) (m : metric) :=
  negb (memN (mpeer m) (blacklist i)) && negb (memN (mpeer m) (current i)) && negb (memN (mpeer m) (priority i)).

(* the healthy current holders, in the iteration order `ord` of the Go map (any permutation) *)
Definition valid_current (now : Z) (i : input) (ord : list N -> list N) : list N :=
  ord (map mpeer (filter (is_cur i) (latest_valid now (metrics i)))).
Definition ncur_of (now : Z) (i : input) : Z := Z.of_nat (length (filter (is_cur i) (latest_valid now (metrics i)))).
(* what the allocator returns: user-priority peers first, then the rest, each group in strategy order *)
Definition new_candidates (now : Z) (i : input) : list N :=
  let lm := latest_valid now (metrics i) in
  sort_numeric now (rev i) (filter (is_prio i) lm) ++ sort_numeric now (rev i) (filter (is_cand i) lm).

Definition allocate (now : Z) (i : input) (ord : list N -> list N) : res :=
  if (rmin i + rmax i =? 0) then ErrBadFactors
  else if (rmin i <? 0) && (rmax i <? 0) then Ok []
  else
    let lm := latest_valid now (metrics i) in
    let valid := valid_current now i ord in
    let prio := filter (is_prio i) lm in
    let cand := filter (is_cand i) lm in
    let ncur := Z.of_nat (length valid) in
    let needed := rmin i - ncur in
    let wanted := rmax i - ncur in
    if wanted <? 0 then Ok (firstn (Z.to_nat (ncur + wanted)) valid)
    else if needed <=? 0 then Ok (current i)
    else if Z.of_nat (length cand + length prio) <? needed then ErrNotEnough
    else
      let final := new_candidates now i in
      if Z.of_nat (length final) <? needed then ErrNotEnough
      else Ok (valid ++ firstn (Z.to_nat (Z.min wanted (Z.of_nat (length final)))) final).

Definition valid_factors (a b : Z) := 0 < a /\ a <= b.

(* a peer is healthy when its metric is valid and unexpired and it is not excluded *)
Definition healthy_m (now : Z) (i : input) (m : metric) : bool :=
  negb (discard now m) && negb (memN (mpeer m) (blacklist i)).
(* the healthy holders contained in l: metrics are one per peer, so this counts distinct peers *)
Definition holders (now : Z) (i : input) (l : list N) : list metric :=
  filter (fun m => healthy_m now i m && memN (mpeer m) l) (metrics i).
Definition healthy_count now i l : Z := Z.of_nat (length (holders now i l)).
(* peers that can be newly chosen: healthy, numeric, not current *)
Definition sortable (now : Z) (i : input) (m : metric) : bool :=
  healthy_m now i m && negb (memN (mpeer m) (current i)) && match mval m with Some _ => true | None => false end.
Definition reachable now i : Z :=
  Z.of_nat (length (filter (fun m => healthy_m now i m && memN (mpeer m) (current i)) (metrics i))
            + length (filter (sortable now i) (metrics i))).
