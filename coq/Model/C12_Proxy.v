(* C12 — IPFS proxy (api/ipfsproxy/ipfsproxy.go). Executable transcription, definitions only.
   The routing table is the generated Gen/ProxyRoutes.v (re-read from the source at every run).
   Abstract (inputs of the model, DESIGN 1.7): gorilla/mux cleanPath (e_redirect), net/url query parsing
   (rq_query), go-path ParsePath (e_paths), cid.Decode (e_cids), api.AddParamsFromQuery (e_addp), the
   importer (e_imp_ok, e_root), the outcome of every RPC (e_fails, e_resolved, e_npeers, e_reposize,
   e_gc_keyerr), the header-extraction state (e_fresh) and the daemon's answer (e_dstatus, e_dbody). *)
From V Require Import Base.Common Base.C11_Http Gen.ProxyRoutes.
Open Scope string_scope.
Open Scope list_scope.

Inductive pmode := Recursive | Direct.
Definition pmode_eqb (a b : pmode) : bool := match a, b with Recursive, Recursive | Direct, Direct => true | _, _ => false end.

(* RPC calls as seen by the recording services, projected onto what C12 talks about *)
Inductive call :=
| CPinPath (path : string) (mode : pmode) (update : string)     (* Cluster.PinPath  *)
| CUnpinPath (path : string) (mode : pmode) (update : string)   (* Cluster.UnpinPath *)
| CPin (cid name : string) (rmin rmax : Z) (mode : pmode)       (* Cluster.Pin (from the adder) *)
| CUnpin (cid : string)                                         (* Cluster.Unpin *)
| CPinGet (cid : string)
| CPins
| CBlockAllocate
| CBlockPut                                                     (* consecutive block puts of one add, collapsed *)
| CRepoGC
| CResolve (path : string)                                      (* IPFSConnector.Resolve *)
| CRepoStat
| CPeers                                                        (* Consensus.Peers *)
| COther (m : string).

Definition call_eqb (a b : call) : bool :=
  match a, b with
  | CPinPath p m u, CPinPath p' m' u' | CUnpinPath p m u, CUnpinPath p' m' u' => String.eqb p p' && pmode_eqb m m' && String.eqb u u'
  | CPin c n a1 a2 m, CPin c' n' b1 b2 m' => String.eqb c c' && String.eqb n n' && Z.eqb a1 b1 && Z.eqb a2 b2 && pmode_eqb m m'
  | CUnpin c, CUnpin c' | CPinGet c, CPinGet c' | CResolve c, CResolve c' | COther c, COther c' => String.eqb c c'
  | CPins, CPins | CBlockAllocate, CBlockAllocate | CBlockPut, CBlockPut | CRepoGC, CRepoGC | CRepoStat, CRepoStat | CPeers, CPeers => true
  | _, _ => false
  end.

(* calls that change the pinset, add content or collect garbage *)
Definition mutating (c : call) : bool :=
  match c with CPinPath _ _ _ | CUnpinPath _ _ _ | CPin _ _ _ _ _ | CUnpin _ | CBlockPut | CRepoGC | COther _ => true | _ => false end.

Definition rpc_name (c : call) : string :=
  match c with
  | CPinPath _ _ _ => "Cluster.PinPath" | CUnpinPath _ _ _ => "Cluster.UnpinPath" | CPin _ _ _ _ _ => "Cluster.Pin"
  | CUnpin _ => "Cluster.Unpin" | CPinGet _ => "Cluster.PinGet" | CPins => "Cluster.Pins" | CBlockAllocate => "Cluster.BlockAllocate"
  | CBlockPut => "IPFSConnector.BlockPut" | CRepoGC => "Cluster.RepoGC" | CResolve _ => "IPFSConnector.Resolve"
  | CRepoStat => "IPFSConnector.RepoStat" | CPeers => "Consensus.Peers" | COther m => m end.

Record req := mk_req {
  rq_meth : string;
  rq_path : string;             (* decoded URL path *)
  rq_uri : string;              (* request URI as sent: escaped path [? raw query] *)
  rq_query : qvals;             (* url.ParseQuery of the raw query *)
  rq_body : string;
  rq_mp : N                     (* 0: no multipart content type; 1: well-formed multipart, one file; 2: multipart content type, unreadable body *)
}.

Record addp := mk_addp { ap_name : string; ap_rmin : Z; ap_rmax : Z; ap_stream : bool }.

Record env := mk_env {
  e_redirect : bool;                              (* mux cleanPath(path) <> path *)
  e_paths : list (string * option string);        (* ParsePath outcome (canonical string) per argument string *)
  e_cids : list (string * option string);         (* cid.Decode outcome per argument string *)
  e_addp : option addp;                           (* AddParamsFromQuery outcome *)
  e_imp_ok : bool;                                (* the importer accepts the options and the content *)
  e_root : string;                                (* root CID produced by the importer *)
  e_fails : list (string * N);                    (* (Service.Method, occurrence) that fail *)
  e_fresh : bool;                                 (* no hijacked request served yet: headers not extracted *)
  e_extract : string;                             (* config.ExtractHeadersPath *)
  e_resolved : string;                            (* CID returned by IPFSConnector.Resolve *)
  e_npeers : N; e_reposize : N; e_storagemax : N; (* Consensus.Peers length, per-peer RepoStat answer *)
  e_gc_keyerr : bool;                             (* the RepoGC answer carries a per-key error *)
  e_dstatus : N; e_dbody : string                 (* the daemon's answer *)
}.

Definition dreq := (string * string * string)%type.   (* method, request URI, body *)

Record result := mk_res {
  r_calls : list (call * bool);     (* RPC issued, and whether it failed *)
  r_dreqs : list dreq;              (* requests that reached the daemon (the CORS pre-flight OPTIONS of setHeaders is not listed) *)
  r_status : N;
  r_serr : bool;                    (* X-Stream-Error trailer present *)
  r_body : option string;           (* Some b: the body is b (relay); None: produced by the proxy, not modelled *)
  r_num : N                         (* repo/stat: aggregated RepoSize *)
}.

(* ---- routing ---- *)
Inductive handler := HPin | HUnpin | HPinLs | HPinUpdate | HAdd | HRepoStat | HRepoGC | HUnknown.
Definition handler_of_name (s : string) : handler :=
  if String.eqb s "pinHandler" then HPin else if String.eqb s "unpinHandler" then HUnpin
  else if String.eqb s "pinLsHandler" then HPinLs else if String.eqb s "pinUpdateHandler" then HPinUpdate
  else if String.eqb s "addHandler" then HAdd else if String.eqb s "repoStatHandler" then HRepoStat
  else if String.eqb s "repoGCHandler" then HRepoGC else HUnknown.
Definition handler_eqb (a b : handler) : bool :=
  match a, b with HPin, HPin | HUnpin, HUnpin | HPinLs, HPinLs | HPinUpdate, HPinUpdate | HAdd, HAdd | HRepoStat, HRepoStat
  | HRepoGC, HRepoGC | HUnknown, HUnknown => true | _, _ => false end.

Inductive class := Relay | Hijack (h : handler) (slash_arg : option string).

(* a compiled route: template segments of prefix ++ template, handler, slashHandler wrapper *)
Definition croute := (list tseg * handler * bool)%type.
Definition compile_routes (prefix : string) (rs : list (string * string * string * bool)) : list croute :=
  map (fun '(_, tpl, h, sl) => (parse_template (prefix ++ tpl)%string, handler_of_name h, sl)) rs.

Fixpoint first_match (rs : list croute) (segs : list string) : class :=
  match rs with
  | [] => Relay
  | (t, h, sl) :: r =>
      match match_segs t segs with
      | Some vars => Hijack h (if sl then Some (match sget "arg" vars with Some a => a | None => "" end) else None)
      | None => first_match r segs
      end
  end.

Definition classify_with (methods : list string) (rs : list croute) (m p : string) : class :=
  if str_in m methods then first_match rs (segments p) else Relay.

Definition classify (m p : string) : class :=
  classify_with hijack_methods (compile_routes hijack_prefix hijack_routes) m p.

(* ---- handlers ---- *)
Definition fails_at (e : env) (m : string) (k : N) : bool :=
  existsb (fun f => String.eqb (fst f) m && N.eqb (snd f) k) (e_fails e).
Definition fails_any (e : env) (m : string) : bool := existsb (fun f => String.eqb (fst f) m) (e_fails e).

Definition mode_of (s : string) : pmode := if String.eqb s "direct" then Direct else Recursive.   (* api.PinModeFromString *)

Definition parse_path (e : env) (a : string) : option string := match sget a (e_paths e) with Some (Some c) => Some c | _ => None end.
Definition parse_cid (e : env) (a : string) : option string := match sget a (e_cids e) with Some (Some c) => Some c | _ => None end.

(* (calls, status, stream error, number) *)
Definition hres := (list (call * bool) * N * bool * N)%type.
Definition herr (cs : list (call * bool)) (st : N) : hres := (cs, st, false, 0%N).
Definition hok (cs : list (call * bool)) : hres := (cs, 200%N, false, 0%N).

(* pinOpHandler *)
Definition h_pinop (unpin : bool) (e : env) (q : qvals) : hres :=
  match parse_path e (qget "arg" q) with
  | None => herr [] 500
  | Some p =>
      let m := mode_of (qget "type" q) in
      let name := if unpin then "Cluster.UnpinPath" else "Cluster.PinPath" in
      let c := if unpin then CUnpinPath p m "" else CPinPath p m "" in
      if fails_at e name 0 then herr [(c, true)] 500 else hok [(c, false)]
  end.

(* pinLsHandler *)
Definition h_pinls (e : env) (q : qvals) : hres :=
  let arg := qget "arg" q in
  if String.eqb arg "" then
    if fails_at e "Cluster.Pins" 0 then herr [(CPins, true)] 500 else hok [(CPins, false)]
  else match parse_cid e arg with
       | None => herr [] 500
       | Some c => if fails_at e "Cluster.PinGet" 0 then herr [(CPinGet c, true)] 500 else hok [(CPinGet c, false)]
       end.

(* pinUpdateHandler *)
Definition h_pinupdate (e : env) (q : qvals) : hres :=
  match qall "arg" q with
  | [] | [_] => herr [] 400
  | from :: to :: _ =>
      let unpin := negb (String.eqb (qget "unpin" q) "false") in
      match parse_path e from with
      | None => herr [] 500
      | Some pf =>
        match parse_path e to with
        | None => herr [] 500
        | Some pt =>
            let c1 := CResolve pf in
            if fails_at e "IPFSConnector.Resolve" 0 then herr [(c1, true)] 500 else
            let c2 := CPinPath pt Recursive (e_resolved e) in
            if fails_at e "Cluster.PinPath" 0 then herr [(c1, false); (c2, true)] 500 else
            if unpin then
              let c3 := CUnpin (e_resolved e) in
              if fails_at e "Cluster.Unpin" 0 then herr [(c1, false); (c2, false); (c3, true)] 500
              else hok [(c1, false); (c2, false); (c3, false)]
            else hok [(c1, false); (c2, false)]
        end
      end
  end.

(* adderutils.AddMultipartHTTPHandler with the single (non-sharding) DAG service:
   an error is a 500 document when buffered, a 200 with the X-Stream-Error trailer when streaming *)
Definition add_fail (stream : bool) (cs : list (call * bool)) : hres :=
  if stream then (cs, 200%N, true, 0%N) else (cs, 500%N, false, 0%N).

(* addHandler (with the two repairs: return after rejecting only-hash; Unpin is called with a Pin) *)
Definition h_add (e : env) (mp : N) (q : qvals) : hres :=
  if N.eqb mp 0 then herr [] 500                                       (* r.MultipartReader() fails *)
  else if String.eqb (qget "only-hash" q) "true" then herr [] 500
  else match e_addp e with
  | None => herr [] 500                                                (* AddParamsFromQuery fails *)
  | Some p =>
      let st := ap_stream p in
      if negb (N.eqb mp 1) || negb (e_imp_ok e) then add_fail st []    (* the importer rejects before any block *)
      else if fails_at e "Cluster.BlockAllocate" 0 then add_fail st [(CBlockAllocate, true)]
      else if fails_any e "IPFSConnector.BlockPut" then add_fail st [(CBlockAllocate, false); (CBlockPut, true)]
      else
        let pin := CPin (e_root e) (ap_name p) (ap_rmin p) (ap_rmax p) Recursive in
        let pre := [(CBlockAllocate, false); (CBlockPut, false)] in
        if fails_at e "Cluster.Pin" 0 then add_fail st (pre ++ [(pin, true)])
        else if String.eqb (qget "pin" q) "false" then
          (* the response is complete; a failing Unpin can only be signalled through the trailer, which is declared only when streaming *)
          if fails_at e "Cluster.Unpin" 0 then (pre ++ [(pin, false); (CUnpin (e_root e), true)], 200%N, st, 0%N)
          else hok (pre ++ [(pin, false); (CUnpin (e_root e), false)])
        else hok (pre ++ [(pin, false)])
  end.

(* repoStatHandler: peers whose RepoStat fails are skipped *)
Fixpoint stat_calls (e : env) (n : nat) (k : N) : list (call * bool) :=
  match n with O => [] | S n' => (CRepoStat, fails_at e "IPFSConnector.RepoStat" k) :: stat_calls e n' (k + 1)%N end.
Definition h_repostat (e : env) : hres :=
  if fails_at e "Consensus.Peers" 0 then herr [(CPeers, true)] 500 else
  let cs := stat_calls e (N.to_nat (e_npeers e)) 0 in
  let okc := N.of_nat (List.length (filter (fun c => negb (snd c)) cs)) in
  ((CPeers, false) :: cs, 200%N, false, (okc * e_reposize e)%N).

(* repoGCHandler *)
Definition h_repogc (e : env) (q : qvals) : hres :=
  if fails_at e "Cluster.RepoGC" 0 then herr [(CRepoGC, true)] 500
  else ([(CRepoGC, false)], 200%N, e_gc_keyerr e && negb (String.eqb (qget "stream-errors" q) "true"), 0%N).

Definition handle (h : handler) (e : env) (mp : N) (q : qvals) : hres :=
  match h with
  | HPin => h_pinop false e q
  | HUnpin => h_pinop true e q
  | HPinLs => h_pinls e q
  | HPinUpdate => h_pinupdate e q
  | HAdd => h_add e mp q
  | HRepoStat => h_repostat e
  | HRepoGC => h_repogc e q
  | HUnknown => ([(COther "unknown handler", false)], 0%N, false, 0%N)
  end.

Definition run (rq : req) (e : env) : result :=
  if e_redirect e then mk_res [] [] 301 false None 0       (* mux redirects to the cleaned path before any route is tried *)
  else match classify (rq_meth rq) (rq_path rq) with
  | Relay =>
      mk_res [] [(rq_meth rq, rq_uri rq, rq_body rq)] (e_dstatus e) false
             (Some (if String.eqb (rq_meth rq) "HEAD" then "" else e_dbody e)) 0
  | Hijack h sl =>
      (* slashHandler: q.Set("arg", <path variable>) *)
      let q := match sl with Some a => qset "arg" a (rq_query rq) | None => rq_query rq end in
      let '(cs, st, se, num) := handle h e (rq_mp rq) q in
      (* setHeaders: the one-time header extraction request (POST ExtractHeadersPath) *)
      mk_res cs (if e_fresh e then [("POST", e_extract e, "")] else []) st se None num
  end.
