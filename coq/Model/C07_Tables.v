(* C07 — table obligations in executable form: for each obligation the list of OFFENDING entries of the
   generated tables (Gen/Policy.v, Gen/RPCMethods.v) against the hand-written specification
   (Model/C07_Spec.v). Empty list = obligation holds. Used by Proofs (lifted to the theorems) and by
   Diag/C07.v (printed, so that a broken obligation names the endpoint). Definitions only. *)
From Coq Require Import String.
From V Require Import Base.Common Base.Rpc Model.C07_Auth Model.C07_Spec Gen.Policy Gen.RPCMethods.
Open Scope string_scope.

Definition entry_is (t : ept) (ep : string) : bool :=
  match lookup ep policy with Some t' => ept_eqb t t' | None => false end.

(* isRPCPolicyValid: every method has an entry *)
Definition bad_policy_total : list string :=
  filter (fun m => match lookup m policy with None => true | Some _ => false end) rpc_methods.
(* no entry for something that is not a method; no key twice *)
Definition bad_policy_no_unknown : list string :=
  filter (fun k => negb (mem_str k rpc_methods)) (map fst policy).
Definition bad_policy_keys_unique : list string :=
  filter (fun k => negb (Nat.eqb (count_str k (map fst policy)) 1)) (map fst policy).
(* an Open entry outside open_spec: an untrusted peer could call it *)
Definition bad_untrusted_only_open : list string :=
  map fst (filter (fun e => ept_eqb (snd e) Open && negb (mem_str (fst e) open_spec)) policy).
(* a local-only endpoint whose entry is not Closed: some remote peer could call it *)
Definition bad_local_only_refused : list string :=
  filter (fun ep => match lookup ep policy with Some Closed | None => false | Some _ => true end) local_only_spec.
Definition bad_trusted_spec : list string := filter (fun ep => negb (entry_is Trusted ep)) trusted_spec.
Definition bad_open_spec : list string := filter (fun ep => negb (entry_is Open ep)) open_spec.
(* every method is classified by exactly one specification table, and the tables list only methods *)
Definition spec_all : list string := (open_spec ++ local_only_spec ++ trusted_spec)%list.
Definition bad_spec_partition : list string :=
  (filter (fun m => negb (Nat.eqb (count_str m spec_all) 1)) rpc_methods ++
   filter (fun s => negb (mem_str s rpc_methods)) spec_all)%list.
(* newRPCServer registers every service RPCServiceID knows *)
Definition bad_services_registered : list string :=
  filter (fun s => negb (mem_str s registered_services)) known_services.
(* the decision function in the source = the modelled one, on all 4 x 2 arguments *)
Definition authf_args : list (option ept * bool) :=
  [(None, false); (None, true); (Some Closed, false); (Some Closed, true);
   (Some Trusted, false); (Some Trusted, true); (Some Open, false); (Some Open, true)].
Definition authf_label (a : option ept * bool) : string :=
  (match fst a with None => "entry missing" | Some Closed => "RPCClosed" | Some Trusted => "RPCTrusted" | Some Open => "RPCOpen" end)
  ++ (if snd a then ", caller trusted" else ", caller not trusted").
Definition bad_authf : list string :=
  map authf_label
      (filter (fun a => negb (Bool.eqb (authf_gen (fst a) (snd a)) (authorize_entry (fst a) (snd a)))) authf_args).
