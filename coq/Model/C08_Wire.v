(* byte-level protobuf (proto3) encoding of the stored pin: varint, zigzag, length-delimited wfields *)
From Coq Require Import List NArith ZArith Bool Lia.
Import ListNotations.
Open Scope N_scope.

(* ---- base-128 varints ---- *)
Fixpoint varint_enc_f (fuel : nat) (n : N) : list N :=
  match fuel with
  | O => []
  | S f => if n <? 128 then [n] else (128 + n mod 128) :: varint_enc_f f (n / 128)
  end.
Definition varint_enc (n : N) : list N := varint_enc_f 10 n.

Fixpoint varint_dec_f (fuel : nat) (l : list N) (shift acc : N) : option (N * list N) :=
  match fuel, l with
  | S f, b :: r => if b <? 128 then Some (acc + b * 2 ^ shift, r)
                   else varint_dec_f f r (shift + 7) (acc + (b - 128) * 2 ^ shift)
  | _, _ => None
  end.
Definition varint_dec (l : list N) : option (N * list N) := varint_dec_f 10 l 0 0.

(* ---- zigzag (sint32) ---- *)
Open Scope Z_scope.
Definition zigzag (z : Z) : N := Z.to_N (if 0 <=? z then 2 * z else - 2 * z - 1).
Definition unzigzag (n : N) : Z := if N.even n then Z.of_N (n / 2) else - Z.of_N ((n + 1) / 2).

(* ---- a message as a list of (field number, value) in wire order ---- *)
Open Scope N_scope.
Inductive wfv := FVar (n : N) | FLen (b : list N).
Definition wfields := list (N * wfv).

Definition blen (b : list N) : N := N.of_nat (length b).

Definition ser_field (f : N * wfv) : list N :=
  match snd f with
  | FVar v => varint_enc (fst f * 8) ++ varint_enc v
  | FLen b => varint_enc (fst f * 8 + 2) ++ varint_enc (blen b) ++ b
  end.
Definition ser_fields (fs : wfields) : list N := flat_map ser_field fs.

Fixpoint wparse (fuel : nat) (l : list N) : option wfields :=
  match fuel with
  | O => None
  | S f =>
    match l with
    | [] => Some []
    | _ =>
      match varint_dec l with
      | None => None
      | Some (t, r) =>
        let fno := t / 8 in
        let wt := t mod 8 in
        if wt =? 0 then
          match varint_dec r with
          | Some (v, r') => option_map (cons (fno, FVar v)) (wparse f r')
          | None => None end
        else if wt =? 2 then
          match varint_dec r with
          | Some (n, r') =>
              if blen r' <? n then None
              else option_map (cons (fno, FLen (firstn (N.to_nat n) r'))) (wparse f (skipn (N.to_nat n) r'))
          | None => None end
        else None
      end
    end
  end.

Definition wfield_ok (f : N * wfv) : Prop :=
  0 < fst f /\ fst f * 8 + 2 < 2 ^ 64 /\ match snd f with FVar v => v < 2 ^ 64 | FLen b => blen b < 2 ^ 64 end.

(* ---- the stored pin (api/pb/types.proto) over that field stream ---- *)
Record wopts := mk_wopts { w_rmin : Z; w_rmax : Z; w_name : list N; w_shard : N; w_meta : list (list N * list N);
                           w_update : list N; w_expire : N; w_origins : list (list N) }.
Record wpin := mk_wpin { w_cid : list N; w_type : N; w_allocs : list (list N); w_depth : Z; w_ref : list N;
                         w_opts : option wopts }.

(* proto3: scalar wfields with their default value are not written; every element of a repeated field is *)
Definition f_var (fno n : N) : wfields := if n =? 0 then [] else [(fno, FVar n)].
Definition f_bytes (fno : N) (b : list N) : wfields := match b with [] => [] | _ => [(fno, FLen b)] end.
Definition f_rep (fno : N) (bs : list (list N)) : wfields := map (fun b => (fno, FLen b)) bs.
(* a map entry is a nested message {1: key, 2: value}, both always written *)
Definition entry_bytes (kv : list N * list N) : list N := ser_fields [(1, FLen (fst kv)); (2, FLen (snd kv))].

Definition opts_fields (o : wopts) : wfields :=
  f_var 1 (zigzag (w_rmin o)) ++ f_var 2 (zigzag (w_rmax o)) ++ f_bytes 3 (w_name o) ++ f_var 4 (w_shard o)
  ++ f_rep 6 (map entry_bytes (w_meta o)) ++ f_bytes 7 (w_update o) ++ f_var 8 (w_expire o) ++ f_rep 9 (w_origins o).
Definition pin_fields (p : wpin) : wfields :=
  f_bytes 1 (w_cid p) ++ f_var 2 (w_type p) ++ f_rep 3 (w_allocs p) ++ f_var 4 (zigzag (w_depth p)) ++ f_bytes 5 (w_ref p)
  ++ match w_opts p with None => [] | Some o => [(6, FLen (ser_fields (opts_fields o)))] end.
Definition ser_pin (p : wpin) : list N := ser_fields (pin_fields p).

(* reading: the last occurrence of a scalar field wins, repeated wfields accumulate, unknown wfields are skipped *)
Definition with_fno (k : N) (fs : wfields) : wfields := filter (fun f => fst f =? k) fs.
Definition lastv (fs : wfields) : N := match rev fs with (_, FVar n) :: _ => n | _ => 0 end.
Definition lastl (fs : wfields) : option (list N) := match rev fs with (_, FLen b) :: _ => Some b | _ => None end.
Definition payloads (fs : wfields) : list (list N) := flat_map (fun f => match snd f with FLen b => [b] | _ => [] end) fs.
Definition last_var (k : N) (fs : wfields) : N := lastv (with_fno k fs).
Definition last_len (k : N) (fs : wfields) : option (list N) := lastl (with_fno k fs).
Definition bytes_or_empty (o : option (list N)) : list N := match o with Some b => b | None => [] end.
Definition all_len (k : N) (fs : wfields) : list (list N) := payloads (with_fno k fs).

Definition wparse_all (b : list N) : option wfields := wparse (S (length b)) b.

Definition entry_of_bytes (b : list N) : option (list N * list N) :=
  match wparse_all b with
  | Some fs => Some (bytes_or_empty (last_len 1 fs), bytes_or_empty (last_len 2 fs))
  | None => None end.
Fixpoint all_some {A} (l : list (option A)) : option (list A) :=
  match l with [] => Some [] | Some a :: r => option_map (cons a) (all_some r) | None :: _ => None end.

Definition opts_of_fields (fs : wfields) : option wopts :=
  match all_some (map entry_of_bytes (all_len 6 fs)) with
  | None => None
  | Some meta =>
    Some (mk_wopts (unzigzag (last_var 1 fs mod 2 ^ 32)) (unzigzag (last_var 2 fs mod 2 ^ 32)) (bytes_or_empty (last_len 3 fs))
            (last_var 4 fs) meta (bytes_or_empty (last_len 7 fs)) (last_var 8 fs) (all_len 9 fs))
  end.
Definition pin_of_fields (fs : wfields) : option wpin :=
  match (match last_len 6 fs with
         | None => Some None
         | Some b => match wparse_all b with
                     | Some ofs => option_map Some (opts_of_fields ofs)
                     | None => None end
         end) with
  | None => None
  | Some o =>
    Some (mk_wpin (bytes_or_empty (last_len 1 fs)) (last_var 2 fs) (all_len 3 fs) (unzigzag (last_var 4 fs mod 2 ^ 32))
            (bytes_or_empty (last_len 5 fs)) o)
  end.
Definition parse_pin (b : list N) : option wpin := match wparse_all b with Some fs => pin_of_fields fs | None => None end.

(* ---- reading back what was written ---- *)
Definition bytes_ok (b : list N) : Prop := blen b < 2 ^ 64.
Definition in_i32 (z : Z) : Prop := (- 2 ^ 31 <= z < 2 ^ 31)%Z.
Definition wopts_ok (o : wopts) : Prop :=
  in_i32 (w_rmin o) /\ in_i32 (w_rmax o) /\ bytes_ok (w_name o) /\ w_shard o < 2 ^ 64 /\
  Forall (fun kv => bytes_ok (fst kv) /\ bytes_ok (snd kv) /\ bytes_ok (entry_bytes kv)) (w_meta o) /\
  bytes_ok (w_update o) /\ w_expire o < 2 ^ 64 /\ Forall bytes_ok (w_origins o).
Definition wpin_ok (p : wpin) : Prop :=
  bytes_ok (w_cid p) /\ w_type p < 2 ^ 64 /\ Forall bytes_ok (w_allocs p) /\ in_i32 (w_depth p) /\ bytes_ok (w_ref p) /\
  match w_opts p with None => True | Some o => wopts_ok o /\ bytes_ok (ser_fields (opts_fields o)) end.

