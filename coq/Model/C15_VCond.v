(* C15 — the vocabulary in which validators are written (definitions only).
   A validator is a list of clauses over the members of a section (JSON names, the values a loaded
   configuration holds) and over named oracles (outcomes of library calls the model does not follow).
   Two readings of a clause list:
     rejects_none  — the Validate() of the source: `if <clause> { return error }` for every clause
                     (Gen/ConfigValidators.v, translated from the config.go files at every run);
     accepts_all   — the model: every clause must hold (Model/C15_Valid.v, written by hand).
   `clauses_match` decides, clause by clause and by truth tables over canonical atoms, that the two say the
   same; Proofs/C15_Validators.v proves the decision sound. *)
From Coq Require Import String List ZArith Bool DecimalString.
From V Require Import Model.C15_Config.
Import ListNotations.
Open Scope string_scope.
Open Scope Z_scope.

Definition oracle := string -> bool.
Definition cfg_view := string -> val.

Definition zv (g : cfg_view) (n : string) : Z := match g n with VZ z => z | _ => 0 end.
Definition sv (g : cfg_view) (n : string) : string := match g n with VS s => s | _ => "" end.
Definition bv (g : cfg_view) (n : string) : bool := match g n with VB b => b | _ => false end.
Definition lv (g : cfg_view) (n : string) : list string := match g n with VL l => l | _ => [] end.
Definition nonempty_s (s : string) : bool := negb (String.eqb s "").
Definition is_nil_list (l : list string) : bool := match l with [] => true | _ => false end.

Inductive vterm :=
| TM (n : string)      (* integer member; durations in ns, floats in 1e-6 *)
| TK (z : Z).

Inductive vcond :=
| CBool (b : bool)
| CLe (a b : vterm)
| CLt (a b : vterm)
| CEq (a b : vterm)
| CEmptyS (n : string)   (* string or token member is "" (Go: == "", == nil for an interface or pointer token, len == 0) *)
| CNilL (n : string)     (* list member is nil or empty (the model does not tell them apart) *)
| CIsNone (n : string)   (* map member is nil *)
| CEmptyM (n : string)   (* map member is non-nil and has no entry *)
| CFlag (n : string)     (* boolean member *)
| COrc (n : string)      (* named external outcome *)
| CNot (a : vcond)
| CAnd (a b : vcond)
| COr (a b : vcond).

Definition tval (c : cfg_view) (t : vterm) : Z := match t with TM n => zv c n | TK z => z end.

Fixpoint ceval (orc : oracle) (c : cfg_view) (v : vcond) : bool :=
  match v with
  | CBool b => b
  | CLe a b => tval c a <=? tval c b
  | CLt a b => tval c a <? tval c b
  | CEq a b => tval c a =? tval c b
  | CEmptyS n => negb (nonempty_s (sv c n))
  | CNilL n => is_nil_list (lv c n)
  | CIsNone n => match c n with VNone => true | _ => false end
  | CEmptyM n => match c n with VL [] => true | _ => false end
  | CFlag n => bv c n
  | COrc n => orc n
  | CNot a => negb (ceval orc c a)
  | CAnd a b => ceval orc c a && ceval orc c b
  | COr a b => ceval orc c a || ceval orc c b
  end.

Definition rejects_none (orc : oracle) (c : cfg_view) (l : list vcond) : bool := forallb (fun v => negb (ceval orc c v)) l.
Definition accepts_all (orc : oracle) (c : cfg_view) (l : list vcond) : bool := forallb (ceval orc c) l.

(* ---- canonical atoms and propositional forms ---- *)
Inductive atom :=
| ALe (a b : vterm) | AEq (a b : vterm)
| AEmptyS (n : string) | ANilL (n : string) | AIsNone (n : string) | AEmptyM (n : string) | AFlag (n : string) | AOrc (n : string).

Inductive bform := BC (b : bool) | BA (a : atom) | BNot (f : bform) | BAnd (f g : bform) | BOr (f g : bform).

Definition canon_le (a b : vterm) : bform := match a, b with TK x, TK y => BC (x <=? y) | _, _ => BA (ALe a b) end.
Definition canon_eq (a b : vterm) : bform := match a, b with TK x, TK y => BC (x =? y) | _, _ => BA (AEq a b) end.

Fixpoint canon (v : vcond) : bform :=
  match v with
  | CBool b => BC b
  | CLe a b => canon_le a b
  | CLt a b => BNot (canon_le b a)
  | CEq a b => canon_eq a b
  | CEmptyS n => BA (AEmptyS n)
  | CNilL n => BA (ANilL n)
  | CIsNone n => BA (AIsNone n)
  | CEmptyM n => BA (AEmptyM n)
  | CFlag n => BA (AFlag n)
  | COrc n => BA (AOrc n)
  | CNot a => BNot (canon a)
  | CAnd a b => BAnd (canon a) (canon b)
  | COr a b => BOr (canon a) (canon b)
  end.

Definition atom_val (orc : oracle) (c : cfg_view) (a : atom) : bool :=
  match a with
  | ALe x y => tval c x <=? tval c y
  | AEq x y => tval c x =? tval c y
  | AEmptyS n => negb (nonempty_s (sv c n))
  | ANilL n => is_nil_list (lv c n)
  | AIsNone n => match c n with VNone => true | _ => false end
  | AEmptyM n => match c n with VL [] => true | _ => false end
  | AFlag n => bv c n
  | AOrc n => orc n
  end.

Fixpoint beval (r : atom -> bool) (f : bform) : bool :=
  match f with
  | BC b => b
  | BA a => r a
  | BNot g => negb (beval r g)
  | BAnd g h => beval r g && beval r h
  | BOr g h => beval r g || beval r h
  end.

Definition vterm_eqb (a b : vterm) : bool :=
  match a, b with TM x, TM y => String.eqb x y | TK x, TK y => Z.eqb x y | _, _ => false end.
Definition atom_eqb (a b : atom) : bool :=
  match a, b with
  | ALe x y, ALe x' y' | AEq x y, AEq x' y' => vterm_eqb x x' && vterm_eqb y y'
  | AEmptyS n, AEmptyS m | ANilL n, ANilL m | AIsNone n, AIsNone m | AEmptyM n, AEmptyM m
  | AFlag n, AFlag m | AOrc n, AOrc m => String.eqb n m
  | _, _ => false end.

Fixpoint atoms (f : bform) : list atom :=
  match f with
  | BC _ => []
  | BA a => [a]
  | BNot g => atoms g
  | BAnd g h | BOr g h => (atoms g ++ atoms h)%list
  end.

Definition upd (r : atom -> bool) (a : atom) (b : bool) : atom -> bool := fun x => if atom_eqb x a then b else r x.

(* all assignments of the listed atoms (independent truth values: more assignments than the configurations realise) *)
Fixpoint equiv_on (l : list atom) (r : atom -> bool) (f g : bform) : bool :=
  match l with
  | [] => Bool.eqb (beval r f) (beval r g)
  | a :: t => equiv_on t (upd r a true) f g && equiv_on t (upd r a false) f g
  end.

Definition bequiv (f g : bform) : bool := equiv_on (atoms f ++ atoms g) (fun _ => false) f g.

(* a source clause (rejection condition) against a model clause (acceptance condition) *)
Definition rej_matches (g m : bform) : bool := bequiv (BNot g) m.
Definition never_rejects (g : bform) : bool := bequiv g (BC false).
Definition always_holds (m : bform) : bool := bequiv m (BC true).

Definition clauses_match (gs ms : list vcond) : bool :=
  let gs' := map canon gs in let ms' := map canon ms in
  forallb (fun g => never_rejects g || existsb (rej_matches g) ms') gs'
  && forallb (fun m => always_holds m || existsb (fun g => rej_matches g m) gs') ms'.

(* ---- printing (diagnosis only) ---- *)
Definition show_Z (z : Z) : string := NilZero.string_of_int (Z.to_int z).
Definition show_term (t : vterm) : string := match t with TM n => n | TK z => show_Z z end.
Fixpoint show_cond (v : vcond) : string :=
  match v with
  | CBool true => "true" | CBool false => "false"
  | CLe a b => show_term a ++ " <= " ++ show_term b
  | CLt a b => show_term a ++ " < " ++ show_term b
  | CEq a b => show_term a ++ " == " ++ show_term b
  | CEmptyS n => n ++ " unset"
  | CNilL n => n ++ " empty"
  | CIsNone n => n ++ " null"
  | CEmptyM n => n ++ " = {}"
  | CFlag n => n
  | COrc n => "oracle " ++ n
  | CNot a => "not (" ++ show_cond a ++ ")"
  | CAnd a b => "(" ++ show_cond a ++ " and " ++ show_cond b ++ ")"
  | COr a b => "(" ++ show_cond a ++ " or " ++ show_cond b ++ ")"
  end.

Fixpoint assoc_get {A} (k : string) (l : list (string * A)) : option A :=
  match l with [] => None | (k', v) :: r => if String.eqb k k' then Some v else assoc_get k r end.

(* the offending clauses of one section: source clauses (named by their Go text) without a model clause saying the
   same, and model clauses without a source clause *)
Definition clause_diag (sec : string) (gs : list (string * vcond)) (ms : list vcond) : list string :=
  let gs' := map (fun p => (fst p, canon (snd p))) gs in
  let ms' := map (fun m => (m, canon m)) ms in
  (flat_map (fun p => if never_rejects (snd p) || existsb (fun q => rej_matches (snd p) (snd q)) ms' then []
                      else [String.concat "" [sec; ": Validate() rejects when `"; fst p; "` - no clause of the model says so"]]) gs'
   ++ flat_map (fun q => if always_holds (snd q) || existsb (fun p => rej_matches (snd p) (snd q)) gs' then []
                         else [String.concat "" [sec; ": the model requires `"; show_cond (fst q); "` - no clause of Validate() enforces it"]]) ms')%list.
