(* C02 layer A — consensus/crdt/consensus.go: LogPin / LogUnpin (enqueue or refuse) and batchWorker
   (dequeue, first-item timer reset, Add/Rm to the batch, size commit, `if !Stop() { <-C }`, age commit),
   as an event machine. Definitions only.

   The timer follows Go < 1.23 semantics (the repo module says `go 1.16`): the channel has a buffer of
   one, a fire puts a value into it (dropped if full), `Stop` reports whether the timer was still active and
   never empties the channel, `Reset` re-activates and never empties the channel.

   Nondeterminism is in the event list: when operations are submitted, when the worker runs, when the
   timer fires, and the outcome of every Add/Rm and Commit (external: the datastore). The worker is
   modelled at the granularity of its calls: `Take` is one loop iteration up to and including Add/Rm;
   when the size limit is reached the iteration continues with `SizeCommit` (operations can be submitted
   and the timer can fire in between).

   `fixed_S2` selects the code after `fix: re-arm the batch timer when the age-limit commit fails`
   (true) or the code before it (false); `fixed_S28` likewise for `fix: crdt batch worker does not commit an empty batch`. *)
From V Require Import Base.Common.
Open Scope N_scope.

Record timer := mk_timer { t_active : bool; t_chan : bool }.
Definition t_idle := mk_timer false false.
Definition t_reset (t : timer) := mk_timer true (t_chan t).                    (* batchTimer.Reset(maxAge) *)
Definition t_fire (t : timer) := if t_active t then mk_timer false true else t. (* runtime sendTime: non-blocking send *)
Definition t_recv (t : timer) := mk_timer (t_active t) false.                  (* select case <-batchTimer.C *)
(* `if !batchTimer.Stop() { <-batchTimer.C }`: the timer afterwards, and whether the receive waits forever *)
Definition t_stop_drain (t : timer) : timer * bool :=
  if t_active t then (mk_timer false (t_chan t), false)
  else if t_chan t then (t_idle, false)
  else (t, true).

Inductive wpc := PIdle | PCommit.   (* worker at the select | after Add/Rm, about to call Commit (size) *)

Record bst (A : Type) := mk_bst {
  queue : list A;                 (* batchItemCh buffer *)
  cur : N;                        (* batchCurSize *)
  tm : timer;
  pend : list A;                  (* added to the batch, not committed *)
  committed : list (list A);      (* successfully committed batches, oldest first *)
  tlog : list (A * bool);         (* every dequeued item with the outcome of its Add/Rm *)
  pc : wpc;
  blocked : bool;                 (* the worker waits on the timer channel of an inactive, drained timer *)
  accepted : list A;              (* LogPin/LogUnpin returned nil *)
  refused : list A }.             (* returned ErrMaxQueueSizeReached *)
Arguments mk_bst {A}. Arguments queue {A}. Arguments cur {A}. Arguments tm {A}. Arguments pend {A}.
Arguments committed {A}. Arguments tlog {A}. Arguments pc {A}. Arguments blocked {A}.
Arguments accepted {A}. Arguments refused {A}.

Inductive bev (A : Type) :=
| Enq (i : A)                 (* LogPin / LogUnpin with batching enabled *)
| Take (add_ok : bool)        (* case batchItem := <-css.batchItemCh, up to Add/Rm *)
| SizeCommit (ok : bool)      (* Commit after reaching MaxBatchSize, then stop-and-drain *)
| Fire                        (* the runtime timer expires *)
| OnTimer (ok : bool)         (* case <-batchTimer.C: Commit (nothing when the batch is empty, fix S28) *)
| Reject (i : A)              (* LogPin/LogUnpin refuse an operation: it cannot be serialised (fix S29), or Shutdown has begun (fix S35): an error, no effect *)
| StopCommit (ok : bool).     (* Shutdown closed the queue, the worker has taken everything (case item, ok := <-batchItemCh with !ok):
                                 it commits the open batch and returns (fix S35); before the fix it returned on ctx.Done() at once *)
Arguments Enq {A}. Arguments Take {A}. Arguments SizeCommit {A}. Arguments Fire {A}. Arguments OnTimer {A}. Arguments Reject {A}.
Arguments StopCommit {A}.

(* fixed_S28: the code after `fix: crdt batch worker does not commit an empty batch` (true) or before it (false) *)
(* fixed_S35: the code after `fix: crdt Shutdown commits the operations already accepted for batching` (true) or before it *)
Record bcfg := mk_bcfg { qcap : N; maxsize : N; fixed_S2 : bool; fixed_S28 : bool; fixed_S35 : bool }.

Definition binit {A} : bst A := mk_bst [] 0 t_idle [] [] [] PIdle false [] [].

Definition bstep {A} (c : bcfg) (s : bst A) (e : bev A) : bst A :=
  match e with
  | Enq i =>
      if N.of_nat (length (queue s)) <? qcap c
      then mk_bst (queue s ++ [i]) (cur s) (tm s) (pend s) (committed s) (tlog s) (pc s) (blocked s) (accepted s ++ [i]) (refused s)
      else mk_bst (queue s) (cur s) (tm s) (pend s) (committed s) (tlog s) (pc s) (blocked s) (accepted s) (refused s ++ [i])
  | Fire => mk_bst (queue s) (cur s) (t_fire (tm s)) (pend s) (committed s) (tlog s) (pc s) (blocked s) (accepted s) (refused s)
  | Take add_ok =>
      if blocked s then s else
      match pc s, queue s with
      | PIdle, i :: q =>
          let t1 := if cur s =? 0 then t_reset (tm s) else tm s in
          if add_ok then
            let c1 := cur s + 1 in
            mk_bst q c1 t1 (pend s ++ [i]) (committed s) (tlog s ++ [(i, true)])
                   (if c1 <? maxsize c then PIdle else PCommit) false (accepted s) (refused s)
          else mk_bst q (cur s) t1 (pend s) (committed s) (tlog s ++ [(i, false)]) PIdle false (accepted s) (refused s)
      | _, _ => s
      end
  | SizeCommit ok =>
      if blocked s then s else
      match pc s with
      | PCommit =>
          if ok then
            let '(t2, blk) := t_stop_drain (tm s) in
            mk_bst (queue s) (if blk then cur s else 0) t2 [] (committed s ++ [pend s]) (tlog s) PIdle blk (accepted s) (refused s)
          else mk_bst (queue s) (cur s) (tm s) (pend s) (committed s) (tlog s) PIdle false (accepted s) (refused s)
      | PIdle => s
      end
  | OnTimer ok =>
      if blocked s then s else
      match pc s with
      | PIdle =>
          if t_chan (tm s) then
            let t1 := t_recv (tm s) in
            if fixed_S28 c && (cur s =? 0)    (* if batchCurSize == 0 { continue }: the timer was armed by an item whose Add/Rm failed *)
            then mk_bst (queue s) (cur s) t1 (pend s) (committed s) (tlog s) PIdle false (accepted s) (refused s)
            else
            if ok then mk_bst (queue s) 0 t1 [] (committed s ++ [pend s]) (tlog s) PIdle false (accepted s) (refused s)
            else mk_bst (queue s) (cur s) (if fixed_S2 c then t_reset t1 else t1) (pend s) (committed s) (tlog s) PIdle false (accepted s) (refused s)
          else s
      | PCommit => s
      end
  | Reject i => mk_bst (queue s) (cur s) (tm s) (pend s) (committed s) (tlog s) (pc s) (blocked s) (accepted s) (refused s ++ [i])
  | StopCommit ok =>
      if blocked s then s else
      match pc s, queue s with
      | PIdle, [] =>     (* the closed queue yields !ok only when it is empty and the worker is at its select *)
          if fixed_S35 c && (0 <? cur s) && ok
          then mk_bst [] 0 (tm s) [] (committed s ++ [pend s]) (tlog s) PIdle false (accepted s) (refused s)
          else s
      | _, _ => s
      end
  end.

Definition brun {A} (c : bcfg) (es : list (bev A)) : bst A := fold_left (bstep c) es binit.

(* the items whose Add/Rm succeeded, in the order they were taken *)
Definition added {A} (l : list (A * bool)) : list A := map fst (filter snd l).
