(* C05/C06 — sequentialised small-step model of pintracker/stateless.Tracker + pintracker/optracker.
   Definitions only (no proofs): the model must still run when a proof breaks.

   Mirrors (file:function):
     optracker/operationtracker.go: TrackNewOperation -> track_new, Clean -> clean
     optracker/operation.go: ToTrackerStatus -> op_status
     stateless/stateless.go: opWorker/applyPinF -> dispatch + complete, enqueue -> enqueue, Track -> track,
       Untrack -> untrack, Status -> status, StatusAll/localStatus/ipfsStatusAll -> status_all,
       Recover/RecoverAll/recoverWithPinInfo -> recover / recover_all
     api/types.go: TrackerStatus constants -> st_bits, Match -> match_
   The IPFSConnector RPC service + daemon are the table `ipfs` (cid -> direct?) with the contract stated in
   DESIGN C16: `conn_pin` (already pinned as asked: nothing; recursive over direct upgrades; direct over recursive is
   refused), unpin always leaves the CID unpinned, a cancelled call has no effect.

   Scheduling: API calls and completions of IPFS calls are the events. Two internal steps are eager:
   an idle worker takes the next entry of its queue (dropping entries whose operation was replaced), and
   cancelling an operation whose IPFS call is in flight makes that call return at once with no daemon effect. *)
From V Require Import Base.Common.
Open Scope N_scope.

Inductive otype := OPin | OUnpin | ORemote.
Inductive phase := PError | PQueued | PInProgress | PDone.
(* pdirect: pin mode (MaxDepth 0); ptag identifies the options of the pin (harness: the pin name) *)
Record tpin := mk_pin { pcid : N; pmeta : bool; premote : bool; pdirect : bool; ptag : N }.
Record oper := mk_op { oid : N; otyp : otype; oph : phase; opin : tpin }.
Inductive ckind := KPin | KUnpin | KSync.   (* KSync: the unpin issued by Track itself for a remote pin *)
Record call := mk_call { coid : N; ccid : N; ckd : ckind }.
Inductive instr := ITrack (p : tpin) | IUntrack.

Record st := mk_st {
  table : list (N * oper);        (* optracker.operations: one operation per cid *)
  pinq : list (N * N);            (* pinCh buffer: (operation id, cid) *)
  unpinq : list (N * N);          (* unpinCh buffer *)
  calls : list call;              (* IPFS calls in flight (busy workers and blocked Track callers) *)
  ipfs : list (N * bool);         (* daemon: cid -> pinned direct? (false = recursive) *)
  pinset : list (N * tpin);       (* shared state *)
  last : list (N * instr);        (* ghost: last instruction received for the cid *)
  next : N;                       (* next operation id (pointer identity) *)
  qcap : nat;                     (* MaxPinQueueSize *)
  npin : nat }.                   (* ConcurrentPins *)

Definition otype_eqb a b := match a, b with OPin, OPin | OUnpin, OUnpin | ORemote, ORemote => true | _, _ => false end.
Definition phase_eqb a b :=
  match a, b with PError, PError | PQueued, PQueued | PInProgress, PInProgress | PDone, PDone => true | _, _ => false end.
Definition ckind_eqb a b := match a, b with KPin, KPin | KUnpin, KUnpin | KSync, KSync => true | _, _ => false end.

Definition set_table (s : st) t := mk_st t (pinq s) (unpinq s) (calls s) (ipfs s) (pinset s) (last s) (next s) (qcap s) (npin s).
Definition set_pinq (s : st) q := mk_st (table s) q (unpinq s) (calls s) (ipfs s) (pinset s) (last s) (next s) (qcap s) (npin s).
Definition set_unpinq (s : st) q := mk_st (table s) (pinq s) q (calls s) (ipfs s) (pinset s) (last s) (next s) (qcap s) (npin s).
Definition set_calls (s : st) c := mk_st (table s) (pinq s) (unpinq s) c (ipfs s) (pinset s) (last s) (next s) (qcap s) (npin s).
Definition set_ipfs (s : st) i := mk_st (table s) (pinq s) (unpinq s) (calls s) i (pinset s) (last s) (next s) (qcap s) (npin s).
Definition set_pinset (s : st) p := mk_st (table s) (pinq s) (unpinq s) (calls s) (ipfs s) p (last s) (next s) (qcap s) (npin s).
Definition set_last (s : st) l := mk_st (table s) (pinq s) (unpinq s) (calls s) (ipfs s) (pinset s) l (next s) (qcap s) (npin s).
Definition set_next (s : st) n := mk_st (table s) (pinq s) (unpinq s) (calls s) (ipfs s) (pinset s) (last s) n (qcap s) (npin s).

Definition set_phase (ph : phase) (o : oper) := mk_op (oid o) (otyp o) ph (opin o).

(* the operation i is still the one tracked for cid c (Go: pointer equality; a replaced operation is cancelled) *)
Definition current (t : list (N * oper)) (i c : N) : bool :=
  match aget c t with Some o => N.eqb (oid o) i | None => false end.

Definition busy (k : ckind) (s : st) : nat := length (filter (fun cl => ckind_eqb (ckd cl) k) (calls s)).

(* workers with `free` idle slots take entries in FIFO order; entries of replaced (cancelled) operations are
   dropped by an idle worker (applyPinF: `if op.Cancelled() return true`) and stay in the buffer otherwise *)
Fixpoint fill (t : list (N * oper)) (free : nat) (q : list (N * N)) {struct q} : list (N * N) * list (N * N) :=
  match q with
  | [] => ([], [])
  | (i, c) :: r =>
      match free with
      | O => ([], q)
      | S f => if current t i c then let '(started, rest) := fill t f r in ((i, c) :: started, rest)
               else fill t free r
      end
  end.

Fixpoint mark_inprogress (started : list (N * N)) (t : list (N * oper)) : list (N * oper) :=
  match t with
  | [] => []
  | (c, o) :: r => (c, if existsb (fun e => N.eqb (fst e) (oid o) && N.eqb (snd e) c) started then set_phase PInProgress o else o)
                   :: mark_inprogress started r
  end.

Definition dispatch (s : st) : st :=
  let '(sp, qp) := fill (table s) (npin s - busy KPin s) (pinq s) in
  let '(su, qu) := fill (table s) (1 - busy KUnpin s) (unpinq s) in
  mk_st (mark_inprogress (sp ++ su) (table s)) qp qu
        (calls s ++ map (fun e => mk_call (fst e) (snd e) KPin) sp ++ map (fun e => mk_call (fst e) (snd e) KUnpin) su)
        (ipfs s) (pinset s) (last s) (next s) (qcap s) (npin s).

(* optracker.TrackNewOperation: None = an ongoing operation of the same type exists *)
Definition live (ph : phase) := match ph with PQueued | PInProgress => true | _ => false end.
Definition track_new (s : st) (p : tpin) (typ : otype) (ph : phase) : option (st * N) :=
  let c := pcid p in
  let fresh s0 := (set_next (set_table s0 (aput c (mk_op (next s0) typ ph p) (table s0))) (next s0 + 1), next s0) in
  match aget c (table s) with
  | Some o0 =>
      if otype_eqb (otyp o0) typ && live (oph o0) then None
      else (* op.Cancel(): an in-flight call of the replaced operation returns at once *)
        Some (fresh (set_calls s (filter (fun cl => negb (N.eqb (coid cl) (oid o0) && N.eqb (ccid cl) c)) (calls s))))
  | None => Some (fresh s)
  end.

Inductive ret := ROk | RFull.

Definition set_err_phase (s : st) (c : N) : st :=
  match aget c (table s) with Some o => set_table s (aput c (set_phase PError o) (table s)) | None => s end.

(* stateless.enqueue: the send succeeds when a worker is waiting or the buffer has room *)
Definition enqueue (s : st) (p : tpin) (typ : otype) : st * ret :=
  match track_new s p typ PQueued with
  | None => (s, ROk)
  | Some (s1, i) =>
      let c := pcid p in
      match typ with
      | OPin => if (busy KPin s1 <? npin s1)%nat || (length (pinq s1) <? qcap s1)%nat
                then (dispatch (set_pinq s1 (pinq s1 ++ [(i, c)])), ROk) else (set_err_phase s1 c, RFull)
      | _ => if (busy KUnpin s1 <? 1)%nat || (length (unpinq s1) <? qcap s1)%nat
             then (dispatch (set_unpinq s1 (unpinq s1 ++ [(i, c)])), ROk) else (set_err_phase s1 c, RFull)
      end
  end.

Definition pincid (c : N) : tpin := mk_pin c false true false 0.   (* api.PinCid: recursive, no options, no allocations *)

Definition track (s : st) (p : tpin) : st * ret :=
  let c := pcid p in
  let s := set_last (set_pinset s (aput c p (pinset s))) (aput c (ITrack p) (last s)) in
  if pmeta p then (s, ROk)
  else if premote p then
    match track_new s p ORemote PInProgress with
    | None => (s, ROk)
    | Some (s1, i) => (dispatch (set_calls s1 (calls s1 ++ [mk_call i c KSync])), ROk)
    end
  else enqueue s p OPin.

Definition untrack (s : st) (c : N) : st * ret :=
  enqueue (set_last (set_pinset s (adel c (pinset s))) (aput c IUntrack (last s))) (pincid c) OUnpin.

(* connector + daemon contract (DESIGN C16) *)
Definition conn_pin (i : list (N * bool)) (c : N) (direct : bool) : list (N * bool) * bool :=
  match aget c i with
  | Some d0 => if Bool.eqb d0 direct then (i, true)
               else if direct then (i, false)            (* direct over recursive: refused by the daemon *)
               else (aput c false i, true)               (* recursive over direct: upgrade *)
  | None => (aput c direct i, true)
  end.

Definition clean (s : st) (i c : N) : st := if current (table s) i c then set_table s (adel c (table s)) else s.

(* the IPFS call in flight for cid c returns; fault = daemon / transport failure *)
Definition complete (s : st) (c : N) (fault : bool) : st :=
  match find (fun cl => N.eqb (ccid cl) c) (calls s) with
  | None => s
  | Some cl =>
      match aget c (table s) with
      | None => s
      | Some o =>
          if negb (N.eqb (oid o) (coid cl)) then s else
          let '(i', ok) := if fault then (ipfs s, false)
                           else match ckd cl with
                                | KPin => conn_pin (ipfs s) c (pdirect (opin o))
                                | _ => (adel c (ipfs s), true) end in
          let s1 := set_calls (set_ipfs s i') (filter (fun x => negb (N.eqb (coid x) (coid cl) && N.eqb (ccid x) c)) (calls s)) in
          dispatch (if ok then clean s1 (coid cl) c else set_err_phase s1 c)
      end
  end.

(* ---- status ---- *)
Inductive status := SClusterError | SPinError | SUnpinError | SPinned | SPinning | SUnpinning | SUnpinned | SRemote
                  | SPinQueued | SUnpinQueued | SSharded | SUnexpectedly.
(* api/types.go: 1 << iota, ClusterError = 2 *)
Definition st_bits (x : status) : N :=
  match x with
  | SClusterError => 2 | SPinError => 4 | SUnpinError => 8 | SPinned => 16 | SPinning => 32 | SUnpinning => 64
  | SUnpinned => 128 | SRemote => 256 | SPinQueued => 512 | SUnpinQueued => 1024 | SSharded => 2048 | SUnexpectedly => 4096
  end.
Definition all_statuses := [SClusterError; SPinError; SUnpinError; SPinned; SPinning; SUnpinning; SUnpinned; SRemote;
                            SPinQueued; SUnpinQueued; SSharded; SUnexpectedly].
(* TrackerStatus.Match *)
Definition match_ (stb f : N) : bool := N.eqb f 0 || N.eqb stb 0 || (0 <? N.land stb f).

Definition op_status (o : oper) : status :=
  match otyp o, oph o with
  | OPin, PError => SPinError | OPin, PQueued => SPinQueued | OPin, PInProgress => SPinning | OPin, PDone => SPinned
  | OUnpin, PError => SUnpinError | OUnpin, PQueued => SUnpinQueued | OUnpin, PInProgress => SUnpinning
  | OUnpin, PDone => SUnpinned
  | ORemote, _ => SRemote
  end.

(* PinLsCid with the pin's own mode as type filter *)
Definition ipfs_has (s : st) (c : N) (direct : bool) : bool :=
  match aget c (ipfs s) with Some d => Bool.eqb d direct | None => false end.

(* Tracker.Status *)
Definition status_of (s : st) (c : N) : status :=
  match aget c (table s) with
  | Some o => op_status o
  | None =>
      match aget c (pinset s) with
      | None => SUnpinned
      | Some p => if pmeta p then SSharded else if premote p then SRemote
                  else if ipfs_has s c (pdirect p) then SPinned else SPinError
      end
  end.

(* localStatus: the state entries, with the two filter short-cuts; ipfsStatusAll lists the recursive and the direct
   pins and an entry is pinned when the daemon holds it in the recorded mode *)
Definition want_state (f : N) : bool := match_ f (16 + 4096 + 2048 + 256).
Definition want_ipfs (f : N) : bool := match_ f (16 + 4096).
Definition local_entry (s : st) (f : N) (e : N * tpin) : list (N * status) :=
  let '(c, p) := e in
  if pmeta p then (if match_ f 2048 then [(c, SSharded)] else [])
  else if premote p then (if match_ f 256 then [(c, SRemote)] else [])
  else if want_ipfs f && ipfs_has s c (pdirect p) then [(c, SPinned)] else [(c, SUnexpectedly)].
Definition local_status (s : st) (f : N) : list (N * status) :=
  if want_state f then flat_map (local_entry s f) (pinset s) else [].
(* Tracker.StatusAll: operations replace state entries; final Match *)
Definition in_table (s : st) (c : N) : bool := match aget c (table s) with Some _ => true | None => false end.
Definition status_all (s : st) (f : N) : list (N * status) :=
  filter (fun e => match_ (st_bits (snd e)) f)
         (map (fun e => (fst e, op_status (snd e))) (table s)
          ++ filter (fun e => negb (in_table s (fst e))) (local_status s f)).

(* recoverWithPinInfo: the pin recorded in the shared state is re-issued; nothing when it is not there *)
Definition recover_with (s : st) (c : N) (x : status) : st * ret :=
  match x with
  | SPinError | SUnexpectedly =>
      match aget c (pinset s) with Some p => enqueue s p OPin | None => (s, ROk) end
  | SUnpinError => enqueue s (pincid c) OUnpin
  | _ => (s, ROk)
  end.
Definition recover (s : st) (c : N) : st * ret := recover_with s c (status_of s c).

(* RecoverAll: statuses listed once, then visited in the (Go map) order `ord`; stops at the first error *)
Definition order_by (ord : list N) (snap : list (N * status)) : list (N * status) :=
  flat_map (fun c => match aget c snap with Some x => [(c, x)] | None => [] end) (nodup N.eq_dec ord)
  ++ filter (fun e => negb (memN (fst e) ord)) snap.
Fixpoint recover_list (s : st) (l : list (N * status)) : st * ret :=
  match l with
  | [] => (s, ROk)
  | (c, x) :: r => match recover_with s c x with
                   | (s', ROk) => recover_list s' r
                   | (s', RFull) => (s', RFull) end
  end.
Definition recover_all (s : st) (ord : list N) : st * ret := recover_list s (order_by ord (status_all s 0)).

(* ---- events ---- *)
Inductive event :=
| ETrack (p : tpin)            (* shared state gains/overwrites the pin, then Track *)
| EUntrack (c : N)             (* shared state loses the cid, then Untrack *)
| ERecover (c : N)
| ERecoverAll (ord : list N)
| EComplete (c : N) (fault : bool)
| EDaemon (c : N) (m : option bool).   (* environment: the daemon content changes behind the tracker's back *)

Definition step_raw (s : st) (e : event) : st * ret :=
  match e with
  | ETrack p => track s p
  | EUntrack c => untrack s c
  | ERecover c => recover s c
  | ERecoverAll ord => recover_all s ord
  | EComplete c fault => (complete s c fault, ROk)
  | EDaemon c m => (set_ipfs s (match m with Some d => aput c d (ipfs s) | None => adel c (ipfs s) end), ROk)
  end.
(* a worker freed by a cancellation goes back to its queue before the next event *)
Definition step (s : st) (e : event) : st * ret := let '(s', r) := step_raw s e in (dispatch s', r).

Definition run (s : st) (evs : list event) : st := fold_left (fun s e => fst (step s e)) evs s.

(* a (re)started tracker: no operations, idle workers; arbitrary shared state and daemon content *)
Definition init (q n : nat) (ps : list (N * tpin)) (i : list (N * bool)) : st :=
  mk_st [] [] [] [] i ps [] 0 q n.

(* no queued or in-progress work and no IPFS call in flight *)
Definition quiescent (s : st) : bool :=
  match calls s with [] => true | _ => false end
  && negb (existsb (fun e => current (table s) (fst e) (snd e)) (pinq s ++ unpinq s)).

Definition is_error (x : status) : bool :=
  match x with SClusterError | SPinError | SUnpinError | SUnexpectedly => true | _ => false end.
