(* C09 — harness cases: a history of operations on the real Store / Checker / Monitor with what the
   implementation answered at every observing operation. code 1: the model's answer differs;
   code 2 (latest), 10 (alert although fresh), 11 (more than one alert between two adds), 12 (cadence),
   13 (an expiry seen by CheckPeers was not reported):
   the implementation's own answers fail the boolean form of the property, computed from the history only. *)
From V Require Import Base.Common Model.C09_Metrics.
Open Scope Z_scope.

Inductive op :=
| OAdd (m : metric)
| OTick (dt : Z)
| ORemovePeer (p : N)
| OPeerset (ps : pset)
| OSetPhi (k : key) (b : bool)
| OCheckPeers (peers : list N) (obs : list alert_t)
| OCheckAll (obs : list alert_t)
| OLatest (name : N) (obs : list N).       (* ids of the metrics returned, in the order returned *)

Inductive c09case :=
| CHist (ops : list op)
(* cadence: interval or ttl (ns), then (attempt time, Expire stamped) of successive publications *)
| CPing (interval : Z) (pubs : list (Z * Z))
| CInformer (ttl : Z) (pubs : list (Z * Z * bool))   (* bool: the publication was made to fail *)
(* the same with the instant at which the observation stopped: the peer must not have lapsed by then (a loop that
   stops publishing after an error passes every pairwise test on the attempts it did make) *)
| CPingE (interval : Z) (pubs : list (Z * Z)) (tend : Z)
| CInformerE (ttl : Z) (pubs : list (Z * Z * bool)) (tend : Z).

Record mstate := mk_ms { ms_now : Z; ms_st : store; ms_c : counters; ms_phi : list (key * bool); ms_ps : pset }.
Definition ms0 := mk_ms 0 empty_store [] [] PNone.
Definition phi_of (l : list (key * bool)) (k : key) : bool := match kget k l with Some b => b | None => false end.

(* canonical form of an alert list: sorted by (name, peer, id) — map order is not compared *)
Definition alert_code (a : alert_t) : N :=
  (fst (fst a) * 1000000 + snd (fst a) * 1000 + match snd a with Some i => i + 1 | None => 0 end)%N.
Fixpoint insertN (x : N) (l : list N) : list N :=
  match l with [] => [x] | y :: r => if (x <=? y)%N then x :: l else y :: insertN x r end.
Definition sortN (l : list N) : list N := fold_right insertN [] l.
Definition alerts_eqb (a b : list alert_t) : bool :=
  list_eqb N.eqb (sortN (map alert_code a)) (sortN (map alert_code b)).

(* model step: new state and "the model agrees with the observation" *)
Definition mstep (o : op) (s : mstate) : mstate * bool :=
  match o with
  | OAdd m => (mk_ms (ms_now s) (s_add m (ms_st s)) (ms_c s) (ms_phi s) (ms_ps s), true)
  | OTick dt => (mk_ms (ms_now s + dt) (ms_st s) (ms_c s) (ms_phi s) (ms_ps s), true)
  | ORemovePeer p => (mk_ms (ms_now s) (s_remove_peer p (ms_st s)) (ms_c s) (ms_phi s) (ms_ps s), true)
  | OPeerset ps => (mk_ms (ms_now s) (ms_st s) (ms_c s) (ms_phi s) ps, true)
  | OSetPhi k b => (mk_ms (ms_now s) (ms_st s) (ms_c s) (kput k b (ms_phi s)) (ms_ps s), true)
  | OCheckPeers peers obs =>
      let '(st, c, al) := check_peers (ms_now s) (phi_of (ms_phi s)) (names (ms_st s)) peers (ms_st s, ms_c s) in
      (mk_ms (ms_now s) st c (ms_phi s) (ms_ps s), alerts_eqb al obs)
  | OCheckAll obs =>
      let '(st, c, al) := check_all (ms_now s) (phi_of (ms_phi s)) (ms_st s, ms_c s) in
      (mk_ms (ms_now s) st c (ms_phi s) (ms_ps s), alerts_eqb al obs)
  | OLatest name obs =>
      (s, list_eqb N.eqb (map mid (latest_metrics (ms_now s) name (ms_ps s) (ms_st s))) obs)
  end.
Fixpoint mrun (ops : list op) (s : mstate) : bool :=
  match ops with [] => true | o :: r => let '(s', ok) := mstep o s in ok && mrun r s' end.

(* ---- the property on the observations, from the history alone (no store model) ---- *)
(* the history so far, newest operation first *)
Fixpoint find_add (id : N) (past : list op) : option metric :=
  match past with
  | [] => None
  | OAdd m :: r => if N.eqb (mid m) id then Some m else find_add id r
  | _ :: r => find_add id r
  end.
(* the most recent add for a key *)
Fixpoint last_add (k : key) (past : list op) : option metric :=
  match past with
  | [] => None
  | OAdd m :: r => if key_eqb (mkey m) k then Some m else last_add k r
  | _ :: r => last_add k r
  end.
(* alerts for k reported since the most recent add for k *)
Fixpoint alerts_since_add (k : key) (past : list op) : nat :=
  match past with
  | [] => 0%nat
  | OAdd m :: r => if key_eqb (mkey m) k then 0%nat else alerts_since_add k r
  | OCheckPeers _ obs :: r | OCheckAll obs :: r => (alerts_for k obs + alerts_since_add k r)%nat
  | _ :: r => alerts_since_add k r
  end.

Definition latest_okb (now : Z) (ps : pset) (past : list op) (name : N) (obs : list N) : bool :=
  let ms := map (fun id => find_add id past) obs in
  forallb (fun om => match om with
                     | Some m => N.eqb (mname m) name && mvalid m && negb (expired now m)          (* valid, unexpired *)
                                 && match last_add (mkey m) past with Some m' => N.eqb (mid m') (mid m) | None => false end  (* the most recently received *)
                                 && match ps with PSome l => memN (mpeer m) l | PNone => true | PErr => false end       (* a member *)
                     | None => false end) ms
  && nodupb (flat_map (fun om => match om with Some m => [mpeer m] | None => [] end) ms).  (* at most one per peer *)

(* an alert is for a (name, peer) that had a metric and whose most recent one is expired *)
Definition alerts_fresh_okb (now : Z) (past : list op) (obs : list alert_t) : bool :=
  forallb (fun a => match last_add (fst a) past with Some m => expired now m | None => false end) obs.
(* `past` already contains the check itself *)
Definition alerts_once_okb (past : list op) (obs : list alert_t) : bool :=
  forallb (fun a => (alerts_since_add (fst a) past <=? 1)%nat) obs.

(* an expiry seen by CheckPeers is reported: for a checked (name, peer) whose most recent metric m is expired, that was
   neither removed nor alerted for since m arrived, an alert is due now — as long as the accrual detector has no say
   (fewer than 6 metrics ever added for the key) or says "failed" *)
Fixpoint removed_since_add (k : key) (past : list op) : bool :=
  match past with
  | [] => false
  | OAdd m :: r => if key_eqb (mkey m) k then false else removed_since_add k r
  | ORemovePeer p :: r => N.eqb p (snd k) || removed_since_add k r
  | _ :: r => removed_since_add k r
  end.
Fixpoint count_adds (k : key) (past : list op) : nat :=
  match past with
  | [] => 0%nat
  | OAdd m :: r => ((if key_eqb (mkey m) k then 1 else 0) + count_adds k r)%nat
  | _ :: r => count_adds k r
  end.
Fixpoint names_added (past : list op) : list N :=
  match past with [] => [] | OAdd m :: r => mname m :: names_added r | _ :: r => names_added r end.
Definition reported_okb (now : Z) (phi : list (key * bool)) (past : list op) (peers : list N) (obs : list alert_t) : bool :=
  forallb (fun n => forallb (fun p =>
    let k := (n, p) in
    match last_add k past with
    | Some m =>
        if expired now m && negb (removed_since_add k past) && Nat.eqb (alerts_since_add k past) 0
           && ((count_adds k past <? 6)%nat || phi_of phi k)
        then (1 <=? alerts_for k obs)%nat else true
    | None => true
    end) peers) (names_added past).

(* walks the history; returns the list of failed sub-property codes *)
Fixpoint spec_walk (ops past : list op) (now : Z) (ps : pset) (phi : list (key * bool)) : list N :=
  match ops with
  | [] => []
  | o :: r =>
      let past' := o :: past in
      (match o with
       | OLatest name obs => if latest_okb now ps past name obs then [] else [2%N]
       | OCheckPeers peers obs =>
           (if alerts_fresh_okb now past obs then [] else [10%N]) ++
           (if alerts_once_okb past' obs then [] else [11%N]) ++
           (if reported_okb now phi past peers obs then [] else [13%N])
       | OCheckAll obs =>
           (if alerts_fresh_okb now past obs then [] else [10%N]) ++
           (if alerts_once_okb past' obs then [] else [11%N])
       | _ => [] end) ++
      spec_walk r past'
        (match o with OTick dt => now + dt | _ => now end)
        (match o with OPeerset p => p | _ => ps end)
        (match o with OSetPhi k b => kput k b phi | _ => phi end)
  end.

(* cadence: every publication is made strictly before the previous one expires; the stamped expiry is
   what the code asks for (2 x interval / the informer's ttl), up to the scheduling slack observed *)
Fixpoint chain_okb (pubs : list (Z * Z)) : bool :=
  match pubs with
  | (_, e) :: (((t', _) :: _) as r) => (t' <? e) && chain_okb r
  | _ => true
  end.
Definition ping_okb (I : Z) (pubs : list (Z * Z)) : bool :=
  (2 <=? length pubs)%nat && chain_okb pubs && forallb (fun p => (snd p - fst p <=? 2 * I) && (I <? snd p - fst p)) pubs.
Definition informer_okb (ttl : Z) (pubs : list (Z * Z * bool)) : bool :=
  (2 <=? length pubs)%nat && chain_okb (map fst pubs).
(* model of the schedule: next attempt = previous + left/2 (left/4 after an error), never earlier *)
Fixpoint informer_sched_okb (pubs : list (Z * Z * bool)) : bool :=
  match pubs with
  | (t, e, err) :: (((t', _, _) :: _) as r) =>
      (* the timer was armed with (e - (t + d)) / 2 for some processing delay d >= 0: t' >= t + d + (e - t - d)/k >= t + (e-t)/k *)
      (t + (e - t) / (if err then 4 else 2) - 1 <=? t') && informer_sched_okb r
  | _ => true
  end.
Fixpoint ping_sched_okb (I : Z) (pubs : list (Z * Z)) : bool :=
  match pubs with
  | (t, _) :: (((t', _) :: _) as r) => (t <? t') && ping_sched_okb I r
  | _ => true
  end.

(* at the end of the observation the expiry stamped by the last attempt has not passed *)
Definition alive_at_end (pubs : list (Z * Z)) (tend : Z) : bool :=
  match List.rev pubs with (_, e) :: _ => tend <? e | [] => false end.

Definition dedupN (l : list N) : list N := fold_right (fun x acc => if memN x acc then acc else x :: acc) [] l.

Definition check_case (c : N * c09case) : list (N * N * N) :=
  let '(id, k) := c in
  match k with
  | CHist ops =>
      (if mrun ops ms0 then [] else [(id, 1%N, 0%N)]) ++
      map (fun code => (id, code, 0%N)) (dedupN (spec_walk ops [] 0 PNone []))
  | CPing iv pubs =>
      (if ping_sched_okb iv pubs then [] else [(id, 1%N, 0%N)]) ++ (if ping_okb iv pubs then [] else [(id, 12%N, 0%N)])
  | CInformer ttl pubs =>
      (if informer_sched_okb pubs then [] else [(id, 1%N, 0%N)]) ++ (if informer_okb ttl pubs then [] else [(id, 12%N, 0%N)])
  | CPingE iv pubs tend =>
      (if ping_sched_okb iv pubs then [] else [(id, 1%N, 0%N)]) ++
      (if ping_okb iv pubs && alive_at_end pubs tend then [] else [(id, 12%N, 0%N)])
  | CInformerE ttl pubs tend =>
      (if informer_sched_okb pubs then [] else [(id, 1%N, 0%N)]) ++
      (if informer_okb ttl pubs && alive_at_end (map fst pubs) tend then [] else [(id, 12%N, 0%N)])
  end.

Definition failing (cs : list (N * c09case)) : list (N * N * N) := flat_map check_case cs.
