(* C01 — evaluation of harness cases (vm_compute).
   A case is what one script did to a rig of real Raft nodes: the table of submitted commands and the trace of
   everything the FSMs were asked to do, in the order in which it happened, with what was observed.
   code 1: the Gallina model, driven by the same schedule, predicts something else than was observed.
   code 2: the observations themselves violate the property (spec_okb), whatever the model says.
   tag: 0, or the number of the known-finding recogniser whose shape the case has. *)
From V Require Import Base.Common Model.C01_RaftLog.
Open Scope N_scope.

Inductive oevent :=
| OCommit (c : N)                 (* command c becomes the next entry of the committed log *)
| OApply (n j : N)                (* FSM.Apply of log position j returned on node n *)
| OCrash (n j : N)                (* FSM.Apply of log position j panicked on node n *)
| OSnapReq (n : N) (ok : bool)    (* FSM.Snapshot on n; ok = no error *)
| OPersist (n : N)                (* the requested snapshot was written *)
| ORestore (n src k lbl : N)      (* FSM.Restore on n of snapshot k of src, labelled with log position lbl by Raft *)
| ORestart (n : N)
| OAck (c n : N)                  (* LogPin/LogUnpin of command c returned nil; n = the member whose CommitOp returned nil (the
                                     leader of the moment: the caller itself, or the member a follower's call was redirected to) *)
| OObs (n : N) (o : option (list pin))   (* Consensus.State on n: None = error, Some = List(), sorted by cid *)
| OTrk (n : N) (cs : list tcall)  (* every PinTracker call node n's RPC server received so far *)
| OOffline (n : N) (l : list pin)    (* OfflineState of n's data *)
| ORecovered (n m0 : N) (o : option (list pin))  (* R3: n's process was killed and started again on its data; it is ready and serves o;
                                            m0 = operations acknowledged before the kill (one more may have been in flight) *)
| OReady (n m0 : N) (q : bool) (o : option (list pin))  (* C17: Consensus.State on n right after its WaitForSync returned; m0 = entries
                                         committed when the AddPeer that admitted n returned; q = raft's AppliedIndex equalled
                                         its LastIndex at that moment *)
| OStopped (n : N).               (* Consensus.Shutdown returned on n: its final snapshot (if one was written: the OSnapReq / OPersist before) is
                                     taken and Raft is stopped under shutdownLock, which commit() holds (RLock) around CommitOp *)

(* ---- equality on observables ---- *)
Definition optZN_eqb (a b : option (Z * N)) : bool :=
  match a, b with Some (x, y), Some (x', y') => (x =? x')%Z && (y =? y') | None, None => true | _, _ => false end.
Definition pin_eqb (a b : pin) : bool :=
  (p_cid a =? p_cid b) && (p_type a =? p_type b) && (p_maxdepth a =? p_maxdepth b)%Z && list_eqb N.eqb (p_allocs a) (p_allocs b)
  && (p_mode a =? p_mode b) && (p_rmin a =? p_rmin b)%Z && (p_rmax a =? p_rmax b)%Z && (p_name a =? p_name b)
  && (p_shard a =? p_shard b) && list_eqb N.eqb (p_ualloc a) (p_ualloc b) && optZN_eqb (p_exp a) (p_exp b)
  && list_eqb (fun x y => (fst x =? fst y) && (snd x =? snd y)) (p_meta a) (p_meta b)
  && optN_eqb (p_update a) (p_update b) && list_eqb N.eqb (p_origins a) (p_origins b) && optN_eqb (p_ref a) (p_ref b).
Definition pins_eqb (a b : list pin) : bool := list_eqb pin_eqb a b.
Definition tcall_eqb (x y : tcall) : bool :=
  match x, y with TCall t c ty d m a, TCall t' c' ty' d' m' a' =>
    Bool.eqb t t' && (c =? c') && (ty =? ty') && (d =? d')%Z && (m =? m') && list_eqb N.eqb a a' end.
Fixpoint remove_first (x : tcall) (l : list tcall) : option (list tcall) :=
  match l with
  | [] => None
  | y :: r => if tcall_eqb x y then Some r else match remove_first x r with Some r' => Some (y :: r') | None => None end
  end.
Fixpoint multiset_eqb (a b : list tcall) : bool :=
  match a with
  | [] => match b with [] => true | _ => false end
  | x :: r => match remove_first x b with Some b' => multiset_eqb r b' | None => false end
  end.
(* an Untrack carries only the cid; the harness prints the other fields of an Untrack as zeros *)

Definition cmd_of (cmds : list logop) (c : N) : logop := nth (N.to_nat c) cmds LJunk.

(* ---- pass 1: the model follows the observed schedule ---- *)
Definition nn := N.to_nat.

(* acknowledgement. consensus/raft/consensus.go commit: `_, finalErr = cc.consensus.CommitOp(op)` runs on the member that finds
   itself leader (a follower's LogPin/LogUnpin is an RPC to the leader's LogPin/LogUnpin and returns what that returns);
   go-libp2p-raft actor.commitOp: `applyFuture := actor.Raft.Apply(bs, ..); err = applyFuture.Error()`; hashicorp/raft answers
   the future of a LogCommand from runFSM, after `r.fsm.Apply(req.log)` has returned on THAT member (processLog hands the future
   to the FSM goroutine: "the future is only responded to by the FSM handler when the application is done"). So a nil return
   means: the entry is in the committed log and the FSM of the member that ran CommitOp has been given it.
   [acked lg a c]: command c sits in the committed sequence lg at a position below a (a = what the committer has applied). *)
Definition acked (lg : list N) (a : nat) (c : N) : bool :=
  existsb (fun j => nth j lg 0 =? c) (seq 0 (Nat.min a (length lg))).

(* the committed sequence as command numbers (the model's log holds the operations themselves) *)
Definition log_step (cmds : list logop) (lg : list N) (e : oevent) : list N :=
  match e with OCommit c => if accepts (cmd_of cmds c) then lg ++ [c] else lg | _ => lg end.

(* acknowledgement memory: per member, 1 + the highest log position acknowledged with this member as committer (a command is
   looked up at its FIRST position in the committed sequence: the weakest reading; absent = 0). Both passes carry it. *)
Definition nget (n : N) (m : list (N * nat)) : nat := match aget n m with Some x => x | None => O end.
Fixpoint first_pos (c : N) (lg : list N) : option nat :=
  match lg with
  | [] => None
  | x :: r => if x =? c then Some O else match first_pos c r with Some j => Some (S j) | None => None end
  end.
Definition ack_step (lg : list N) (ak : list (N * nat)) (e : oevent) : list (N * nat) :=
  match e with
  | OAck c n => match first_pos c lg with Some j => aput n (Nat.max (S j) (nget n ak)) ak | None => ak end
  | _ => ak
  end.
(* the label of the snapshot OfflineState reads: the highest in the store (0 when there is none) *)
Definition newlbl (labels : list nat) : nat := fold_right Nat.max O labels.

Definition model_step (cmds : list logop) (lg : list N) (ak : list (N * nat)) (cl : cluster) (e : oevent) : cluster * bool :=
  match e with
  | OCommit c => (step cl (MCommit (cmd_of cmds c)), accepts (cmd_of cmds c))   (* LogPin lets no unserialisable pin into the log *)
  | OApply n j =>
      let cl' := step cl (MApply (nn n)) in
      (cl', Nat.eqb (applied (getn (nn n) cl)) (nn j) && negb (crashed (getn (nn n) cl')) && Nat.ltb (nn j) (length (log cl)))
  | OCrash n j =>
      let cl' := step cl (MApply (nn n)) in
      (cl', Nat.eqb (applied (getn (nn n) cl)) (nn j) && crashed (getn (nn n) cl'))
  | OSnapReq n ok =>
      let cl' := step cl (MSnapReq (nn n)) in
      (cl', Bool.eqb ok (match pending (getn (nn n) cl') with Some _ => true | None => false end))
  | OPersist n =>
      (step cl (MPersist (nn n)), match pending (getn (nn n) cl) with Some _ => true | None => false end)
  | ORestore n src k lbl =>
      (step cl (MRestore (nn n) (nn src) (nn k)),
       (* in either direction: hashicorp/raft also installs a snapshot on a replica that is ahead of it *)
       match nth_error (snaps (getn (nn src) cl)) (nn k) with Some s => Nat.eqb (fst s) (nn lbl) | None => false end)
  | ORestart n => (step cl (MRestart (nn n)), true)
  | OAck c n => (cl, acked lg (applied (getn (nn n) cl)) c)          (* enabled only once the committer's FSM was given the entry *)
  | OObs n o =>
      (cl, negb (crashed (getn (nn n) cl)) &&
           match view (getn (nn n) cl), o with
           | Some s, Some l => pins_eqb (map snd s) l
           | None, None => true
           | _, _ => false
           end)
  | OTrk n cs => (cl, multiset_eqb (calls (getn (nn n) cl)) cs)
  | OOffline n l => (cl, pins_eqb (map snd (offline (getn (nn n) cl))) l)
  | ORecovered n m0 o =>
      (* a new process replays the committed entries: all acknowledged ones, and possibly those in flight *)
      let cl0 := step cl (MRestart (nn n)) in
      let cands := map (fun m => fold_left step (repeat (MApply (nn n)) m) cl0) (seq (nn m0) (S (length (log cl) - nn m0))) in
      match find (fun c => match view (getn (nn n) c), o with
                           | Some s, Some l => pins_eqb (map snd s) l
                           | None, None => true
                           | _, _ => false end) cands with
      | Some c => (c, true)
      | None => (cl0, false)
      end
  | OReady n _ _ o =>
      (cl, match view (getn (nn n) cl), o with
           | Some s, Some l => pins_eqb (map snd s) l
           | None, None => true
           | _, _ => false
           end)
  | OStopped n =>
      (* Consensus.Shutdown holds shutdownLock (write) from before its final snapshot until Raft has stopped; commit() holds the
         read side around CommitOp: nothing is acknowledged at the member between its final snapshot and its stop. The model has
         the lock: the stop is enabled only when everything acknowledged with committer n lies below the label of the snapshot n
         leaves on disk *)
      (cl, Nat.leb (nget n ak) (newlbl (map fst (snaps (getn (nn n) cl)))))
  end.
Fixpoint model_run (cmds : list logop) (lg : list N) (ak : list (N * nat)) (cl : cluster) (es : list oevent) : bool :=
  match es with
  | [] => true
  | e :: r => let '(cl', ok) := model_step cmds lg ak cl e in ok && model_run cmds (log_step cmds lg e) (ack_step lg ak e) cl' r
  end.
Definition model_eqb (k : N) (cmds : list logop) (es : list oevent) : bool := model_run cmds [] [] (init (nn k)) es.

(* ---- pass 2: the property on the observations alone ---- *)
(* what the observations say about each node: next position, positions applied so far, labels of its snapshots *)
Record snode := mksnode { s_applied : nat; s_hist : list nat; s_pending : option nat; s_labels : list nat }.
Definition snode0 := mksnode 0 [] None [].
Fixpoint supd (n : nat) (f : snode -> snode) (l : list snode) : list snode :=
  match l, n with [], _ => [] | x :: r, O => f x :: r | x :: r, S m => x :: supd m f r end.
Definition sgetn (n : nat) (l : list snode) : snode := nth n l snode0.

Definition expected_calls (ops : list logop) (hist : list nat) : list tcall :=
  flat_map (fun j => match nth_error ops j with
                     | Some (LPin p) => [track_of (store_norm p)]
                     | Some (LUnpin p) => [untrack_of p]
                     | _ => [] end) hist.
(* the tracker is told the stored cid, type, depth and allocations; the Mode field is compared for data pins, where the
   stored mode is the one derived from the depth *)
Definition proj_call (c : tcall) : tcall :=
  match c with TCall t ci ty d m a => TCall t ci ty d (if ty =? 2 then m else 0) a end.

Definition spec_step (cmds : list logop) (lg : list N) (ak : list (N * nat)) (sn : list snode) (e : oevent) : list N * list snode * bool :=
  let ops := map (cmd_of cmds) lg in
  match e with
  | OCommit c => (lg ++ [c], sn, true)
  | OApply n j =>
      (lg, supd (nn n) (fun s => mksnode (S (nn j)) (s_hist s ++ [nn j]) (s_pending s) (s_labels s)) sn,
       Nat.eqb (s_applied (sgetn (nn n) sn)) (nn j) && Nat.ltb (nn j) (length lg))     (* the next entry of the one sequence, nothing skipped *)
  | OCrash n j => (lg, sn, false)
  | OSnapReq n ok =>
      (lg, supd (nn n) (fun s => mksnode (s_applied s) (s_hist s) (if ok then Some (s_applied s) else None) (s_labels s)) sn, true)
  | OPersist n =>
      (lg, supd (nn n) (fun s => mksnode (s_applied s) (s_hist s) None
                                   (match s_pending s with Some l => s_labels s ++ [l] | None => s_labels s end)) sn, true)
  | ORestore n src k lbl =>
      (lg, supd (nn n) (fun s => mksnode (nn lbl) (s_hist s) (s_pending s)
                                         (if Nat.eqb (nn src) (nn n) then s_labels s else s_labels s ++ [nn lbl])) sn,   (* an install is written into n's store *)
       Nat.leb (nn lbl) (length lg))
  | ORestart n => (lg, supd (nn n) (fun s => mksnode 0 (s_hist s) None (s_labels s)) sn, true)
  | OAck c n =>                                                                         (* acknowledged: in the sequence and visible on the committer *)
      (lg, sn, acked lg (s_applied (sgetn (nn n) sn)) c)
  | OObs n o =>                                                                         (* some prefix, not shorter than what the node was given; *)
      (lg, sn, match o with                                                             (* caught up (applied = all) => the whole sequence *)
               | Some l => let a := s_applied (sgetn (nn n) sn) in
                           existsb (fun m => pins_eqb (map snd (replay (firstn m ops))) l) (seq a (S (length lg - a)))
               | None => false end)
  | OTrk n cs =>
      (lg, sn, multiset_eqb (map proj_call (expected_calls ops (s_hist (sgetn (nn n) sn)))) (map proj_call cs))
  | OOffline n l =>
      (lg, sn, match s_labels (sgetn (nn n) sn) with
               | [] => match l with [] => true | _ => false end
               | lbs => pins_eqb (map snd (replay (firstn (newlbl lbs) ops))) l end)
  | ORecovered n m0 o =>                                                                (* acknowledged ops survive the crash *)
      (lg, supd (nn n) (fun s => mksnode 0 (s_hist s) None (s_labels s)) sn,
       match o with
       | Some l => existsb (fun m => pins_eqb (map snd (replay (firstn m ops))) l) (seq (nn m0) (S (length lg - nn m0)))
       | None => false end)
  | OReady n m0 _ o =>                                                                  (* ready: a prefix that covers everything committed before the join returned *)
      (lg, sn, match o with
               | Some l => let a := Nat.max (s_applied (sgetn (nn n) sn)) (nn m0) in
                           existsb (fun m => pins_eqb (map snd (replay (firstn m ops))) l) (seq a (S (length lg - a)))
               | None => false end)
  | OStopped n =>                                                                       (* a clean stop has lost nothing acknowledged at the member *)
      (lg, sn, Nat.leb (nget n ak) (newlbl (s_labels (sgetn (nn n) sn))))
  end.
Fixpoint spec_run (cmds : list logop) (lg : list N) (ak : list (N * nat)) (sn : list snode) (es : list oevent) : bool :=
  match es with
  | [] => true
  | e :: r => let '(lg', sn', ok) := spec_step cmds lg ak sn e in ok && spec_run cmds lg' (ack_step lg ak e) sn' r
  end.

(* the property speaks of pin/unpin operations on well-formed pins: other entries put the case outside its premise *)
Definition pin_of (op : logop) : option pin := match op with LPin p | LUnpin p | LOther p => Some p | _ => None end.
Definition in_premise (op : logop) : bool :=
  match op with
  | LPin p => wf_pin p
  | LUnpin p => true
  | _ => false
  end.
(* "An operation acknowledged as committed ... survives a restart": what a stopped member leaves on disk for OfflineState (state
   export, upgrades) is its newest snapshot. When Shutdown has returned on n (OStopped n), every command acknowledged with committer
   n lies below the label of that snapshot (the OStopped clause of spec_step, with the acknowledgement memory `ak`). *)
Definition spec_okb (k : N) (cmds : list logop) (es : list oevent) : bool :=
  if forallb in_premise cmds then spec_run cmds [] [] (repeat snode0 (nn k)) es else true.

(* ---- known-finding recognisers: the SHAPE of the input, never the verdict ---- *)
(* S19: some submitted pin carries origins (undecodable from msgpack) *)
Definition is_S19 (cmds : list logop) : bool :=
  existsb (fun op => match pin_of op with Some p => negb (wire_ok p) | None => false end) cmds.
(* S23: a snapshot that was persisted after its replica had been given something (an entry, or another snapshot) past the
   FSM.Snapshot that labelled it is "late": Persist wrote the state it found when it ran. The shape: some replica restores a late
   snapshot (install or start-up), or OfflineState is read on a replica whose store holds a late snapshot (the recogniser does not
   know labels, hence not which snapshot of the store is the newest).
   pend: replicas between FSM.Snapshot and Persist, with "was given something since"; cnt: snapshots in the store of each replica
   (persisted by it or installed on it: (n, k) names the k-th of n's store);
   late: the late snapshots (replica, number). *)
Definition cnt_of (n : N) (cnt : list (N * N)) : N := match aget n cnt with Some x => x | None => 0 end.
Definition is_late (late : list (N * N)) (n k : N) : bool := existsb (fun x => (fst x =? n) && (snd x =? k)) late.
Definition touch (n : N) (pend : list (N * bool)) : list (N * bool) :=
  match aget n pend with Some _ => aput n true pend | None => pend end.
Definition late_step (pend : list (N * bool)) (cnt late : list (N * N)) (e : oevent)
  : list (N * bool) * list (N * N) * list (N * N) * bool :=
  match e with
  | OSnapReq n true => (aput n false pend, cnt, late, false)
  | OApply n _ => (touch n pend, cnt, late, false)
  | OPersist n =>
      let k := cnt_of n cnt in
      (adel n pend, aput n (k + 1) cnt, match aget n pend with Some true => (n, k) :: late | _ => late end, false)
  | ORestart n => (adel n pend, cnt, late, false)
  | ORestore n src k _ =>
      (touch n pend, (if Nat.eqb (nn src) (nn n) then cnt else aput n (cnt_of n cnt + 1) cnt), late, is_late late src k)
  | OOffline n _ => (pend, cnt, late, existsb (fun x => fst x =? n) late)
  | _ => (pend, cnt, late, false)
  end.
Fixpoint late_restore (pend : list (N * bool)) (cnt : list (N * N)) (late : list (N * N)) (es : list oevent) : bool :=
  match es with
  | [] => false
  | e :: r => let '(pend', cnt', late', f) := late_step pend cnt late e in if f then true else late_restore pend' cnt' late' r
  end.
Definition tag_of (cmds : list logop) (es : list oevent) : N :=
  if is_S19 cmds then 1 else if late_restore [] [] [] es then 3 else 0.

Definition case := (N * (N * list logop * list oevent))%type.
Definition check_case (c : case) : list (N * N * N) :=
  let '(id, (k, cmds, es)) := c in
  (if model_eqb k cmds es then [] else [(id, 1, 0)]) ++
  (if spec_okb k cmds es then [] else [(id, 2, tag_of cmds es)]).
Definition failing (cs : list case) : list (N * N * N) := flat_map check_case cs.
