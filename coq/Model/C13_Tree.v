(* C13 — the importer on a FILE TREE (no HAMT sharding), as the code does it. Executable transcription, definitions only.

   adder/ipfsadd/add.go   AddAllAndPin, addFileNode, addDir, addFile, addNode, outputDirs, PinRoot     -> import_tree, walk, walk_top
   adder/adder.go         FromFiles: `if a.params.Wrap { f = SliceDirectory{"": f} }`                  -> the wrap argument of import_tree
   go-mfs                 Mkdir (Add(EmptyDirNode), link, cache the sub-directory), PutNode -> Directory.AddChild (Add(node), link),
                          Directory.GetNode (sync the cached sub-directories, then Add(own node)), Directory.Flush, Root.Close
                                                                                                       -> walk (Mkdir / PutNode emissions), flush
   go-unixfs io           BasicDirectory.AddChild = RemoveChild + AddNodeLink; go-merkledag keeps the links of a dag-pb node sorted
                          by name (sort.Stable in EncodeProtobuf / GetPBNode)                          -> dir_node = DDir (sort_links ...)
   go-ipfs-files          serialfile.go: the iterator of a directory skips hidden entries (name starting with '.') unless asked;
                          the path given to the add itself is never filtered                           -> visible

   HAMT sharding: never. uio.HAMTShardingSize is 0 unless a program sets it (nothing in ipfs-cluster does), and go-mfs builds its
   directories with uio.NewDirectoryFromNode, which returns a plain BasicDirectory (not the UpgradeableDirectory that switches):
   whatever the width, a directory is ONE dag-pb node (guard hamt_off below).

   Emission order (the list of DAGService.Add calls), observed and transcribed:
     walk      entries in the order of the files.Directory iterator; a file: its blocks (Model/C13_Importer.v), then its root AGAIN
               (Directory.AddChild); a sub-directory: the EMPTY directory node (Mkdir), then its entries
     flush     Directory.GetNode: the cached sub-directories first (recursively), then the directory's own node. go-mfs walks its cache,
               a Go map: the order among sibling sub-directories is NOT determined; the transcription takes entry order, the
               theorems hold for every stream with the same blocks (Proofs), the check compares this part as a set with multiplicity
     total     walk, flush (root.Flush), root (Root.updateChildEntry), flush (mr.Close), flush (root.GetNode), flush (outputDirs: here
               sorted-name post-order), root (PinRoot).
     A single file without wrap: its blocks, its root (PutNode under the name <CID string> in the MFS root), that MFS root three times
     (Flush, updateChildEntry, Close), the file root (PinRoot); the MFS root node is not reachable from the returned root.
   Not modelled: symlinks; FlushMemFree after 262144 entries; several top-level entries in one add. *)
From V Require Import Base.Common Model.C13_Importer.
Open Scope N_scope.

Definition name := list N.
Inductive ftree := File (bs : bytes) | Dir (es : list (name * ftree)).

(* is_hidden.go: fName[0] == '.' *)
Definition hidden_name (n : name) : bool := match n with 46 :: _ => true | _ => false end.
Fixpoint visible (hid : bool) (t : ftree) : ftree :=
  match t with
  | File b => File b
  | Dir es => Dir ((fix go (es : list (name * ftree)) : list (name * ftree) :=
                      match es with
                      | [] => []
                      | (n, c) :: r => if hid || negb (hidden_name n) then (n, visible hid c) :: go r else go r
                      end) es)
  end.

(* a block of the DAG of a tree: a block of a file DAG, or a directory node with its named links *)
Inductive dnode := DFile (t : tree) | DDir (ls : list (name * dnode)).

Record iparams := mk_ip { ip_trickle : bool; ip_ml : N; ip_k : N }.
Definition file_root (p : iparams) (bs : bytes) : dnode := DFile (layout_tree (importer (ip_trickle p) (ip_ml p) (ip_k p) bs)).
Definition file_em (p : iparams) (bs : bytes) : list dnode := map DFile (layout_emission (importer (ip_trickle p) (ip_ml p) (ip_k p) bs)).

(* Go string order = lexicographic on bytes *)
Fixpoint name_leb (a b : name) : bool :=
  match a, b with
  | [], _ => true
  | _ :: _, [] => false
  | x :: a', y :: b' => if x <? y then true else if y <? x then false else name_leb a' b'
  end.
Fixpoint insert_link {A} (x : name * A) (l : list (name * A)) : list (name * A) :=
  match l with
  | [] => [x]
  | y :: r => if name_leb (fst x) (fst y) then x :: l else y :: insert_link x r
  end.
Definition sort_links {A} (l : list (name * A)) : list (name * A) := fold_right insert_link [] l.

(* the final node of a directory / the root of a file *)
Fixpoint dag_of (p : iparams) (t : ftree) : dnode :=
  match t with
  | File bs => file_root p bs
  | Dir es => DDir (sort_links (map (fun e => (fst e, dag_of p (snd e))) es))
  end.

Fixpoint walk (p : iparams) (t : ftree) : list dnode :=
  match t with
  | File bs => file_em p bs ++ [file_root p bs]
  | Dir es => DDir [] :: flat_map (fun e => walk p (snd e)) es
  end.
Definition walk_top (p : iparams) (t : ftree) : list dnode :=
  match t with
  | File bs => file_em p bs ++ [file_root p bs]
  | Dir es => flat_map (fun e => walk p (snd e)) es          (* toplevel && path == "": no Mkdir *)
  end.
Fixpoint flush (p : iparams) (t : ftree) : list dnode :=
  match t with
  | File _ => []
  | Dir es => flat_map (fun e => flush p (snd e)) es ++ [dag_of p t]
  end.

(* AddAllAndPin on the (wrapped) tree: (returned root, walk phase, flush phases) *)
Definition import_tree (p : iparams) (wrap : bool) (top mfsname : name) (t : ftree) : dnode * list dnode * list dnode :=
  let t' := if wrap then Dir [(top, t)] else t in
  let r := dag_of p t' in
  match t' with
  | File bs => let d0 := DDir [(mfsname, r)] in (r, walk_top p t', [d0; d0; d0; r])
  | Dir _ => (r, walk_top p t', flush p t' ++ [r] ++ flush p t' ++ flush p t' ++ flush p t' ++ [r])
  end.
Definition import_root (x : dnode * list dnode * list dnode) : dnode := fst (fst x).
Definition import_emission (x : dnode * list dnode * list dnode) : list dnode := snd (fst x) ++ snd x.

(* the guard under which this model applies: HAMT sharding is off (uio.HAMTShardingSize = 0: the shipped value) *)
Definition hamt_off (hamt_sharding_size : N) : bool := hamt_sharding_size =? 0.

(* ---- the daemons' store and a reader over it ---- *)
Inductive tcontent := TLeaf (d : bytes) | TLinks (ls : list (N * N)) | TDir (ls : list (name * N)).
Definition store := N -> option tcontent.

Definition name_eqb (a b : name) : bool := list_eqb N.eqb a b.
Fixpoint lookup_name {A} (n : name) (ls : list (name * A)) : option A :=
  match ls with [] => None | (m, x) :: r => if name_eqb n m then Some x else lookup_name n r end.

(* follow a path of names from a CID through directory blocks *)
Fixpoint resolve (st : store) (c : N) (path : list name) : option N :=
  match path with
  | [] => Some c
  | n :: r => match st c with
              | Some (TDir ls) => match lookup_name n ls with Some c' => resolve st c' r | None => None end
              | _ => None
              end
  end.
(* the bytes of the file DAG under a CID (fuel = depth) *)
Fixpoint read_node (st : store) (fuel : nat) (c : N) : option bytes :=
  match fuel with
  | O => None
  | S f =>
      match st c with
      | Some (TLeaf d) => Some d
      | Some (TLinks ls) =>
          fold_right (fun l acc => match read_node st f (fst l), acc with Some a, Some b => Some (a ++ b) | _, _ => None end) (Some []) ls
      | _ => None
      end
  end.
Definition read_file (st : store) (fuel : nat) (root : N) (path : list name) : option bytes :=
  match resolve st root path with Some c => read_node st fuel c | None => None end.

(* the files of a tree with their paths; names unique in every directory *)
Fixpoint files_of (t : ftree) : list (list name * bytes) :=
  match t with
  | File bs => [([], bs)]
  | Dir es => flat_map (fun e => map (fun pb => (fst e :: fst pb, snd pb)) (files_of (snd e))) es
  end.
Fixpoint names_unique (t : ftree) : bool :=
  match t with
  | File _ => true
  | Dir es => (fix nd (l : list name) : bool := match l with [] => true | x :: r => negb (existsb (name_eqb x) r) && nd r end) (map fst es)
              && forallb (fun e => names_unique (snd e)) es
  end.
