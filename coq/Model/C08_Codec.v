(* C08 — the stored (protobuf) form of a pin, at field level.
   Mirrors api/types.go: convertPinType, Pin.ProtoMarshal, Pin.ProtoUnmarshal, PinDepth.ToPinMode,
   and state/dsstate/datastore.go: serializePin / deserializePin.
   The byte encoders (google protobuf), cid.Cast, peer.IDFromBytes and multiaddr.NewMultiaddrBytes are
   trusted libraries: a byte string handed to one of those parsers is a token that says whether the
   parser accepts it and, if so, which value it denotes (parser and printer are mutually inverse on accepted bytes).
   Definitions only. *)
From V Require Import Base.Common Base.C08_Str.
Open Scope Z_scope.

Inductive result (A : Type) : Type := Ok (a : A) | Err.
Arguments Ok {A} a.
Arguments Err {A}.

(* a byte string as seen by the parser of its field: empty, accepted (with the text form of the value), rejected *)
Inductive tok := TEmpty | TOk (s : string) | TBad (s : string).

Definition cid := option string.        (* None = cid.Undef, Some text = a defined CID (its String() form) *)
Definition time := option (Z * N).      (* None = time.Time{} ; Some (unix seconds, nanoseconds) otherwise *)

Record opts := mk_opts {
  rmin : Z; rmax : Z; name : string; mode : Z; shard_size : N; user_allocs : list tok;
  expire : time; metadata : list (string * string); pin_update : cid; origins : list string }.

Record pin := mk_pin {
  popts : opts; pcid : cid; ptype : N; allocs : list tok; maxdepth : Z;
  reference : option cid (* nil pointer / pointer to a CID *) }.

(* the decoded protobuf message: every field arbitrary or absent (api/pb/types.proto) *)
Record pbopts := mk_pbopts {
  o_rmin : Z; o_rmax : Z; o_name : string; o_shard : N; o_meta : list (string * string);
  o_update : tok; o_expire : N; o_origins : list tok }.
Record pbpin := mk_pbpin {
  m_cid : tok; m_type : Z; m_allocs : list tok; m_depth : Z; m_ref : tok; m_opts : option pbopts }.

Definition zero_opts : opts := mk_opts 0 0 "" 0 0 [] None [] None [].
Definition zero_pin : pin := mk_pin zero_opts None 0 [] 0 None.
Definition zero_pbopts : pbopts := mk_pbopts 0 0 "" 0 [] TEmpty 0 [].

(* Go integer conversions *)
Definition wrap (bits : Z) (z : Z) : Z := let m := 2 ^ bits in ((z + m / 2) mod m) - m / 2.
Definition int32 (z : Z) : Z := wrap 32 z.
Definition int64 (z : Z) : Z := wrap 64 z.
Definition uint64 (z : Z) : N := Z.to_N (z mod 2 ^ 64).
Definition in_int32 (z : Z) : bool := (- 2 ^ 31 <=? z) && (z <? 2 ^ 31).
Definition in_int64 (z : Z) : bool := (- 2 ^ 63 <=? z) && (z <? 2 ^ 63).

(* time.Time: the zero value is year 1; Unix() of it is -62135596800 *)
Definition zero_sec : Z := -62135596800.
Definition mk_time (s : Z) (ns : N) : time := if (s =? zero_sec) && (ns =? 0)%N then None else Some (s, ns).
Definition is_zero (t : time) : bool := match t with None => true | Some _ => false end.
Definition equal_unix_zero (t : time) : bool := match t with Some (s, ns) => (s =? 0) && (ns =? 0)%N | None => false end.
Definition time_unix (t : time) : Z := match t with None => zero_sec | Some (s, _) => s end.

(* convertPinType: for t != 1 { if t == 0 { return 0 }; t >>= 1; i++ } *)
Fixpoint convert_loop (fuel : nat) (t : N) (i : Z) : Z :=
  match fuel with
  | O => i
  | S f => if (t =? 1)%N then i else if (t =? 0)%N then 0 else convert_loop f (N.shiftr t 1) (i + 1)
  end.
Definition convert_pin_type (t : N) : Z := convert_loop 65 t 0.

(* pin.Type = 1 << uint64(pbPin.GetType()) on a uint64: shift counts >= 64 (and negative enum values, cast to uint64) give 0 *)
Definition shl1 (v : Z) : N := if (0 <=? v) && (v <? 64) then (2 ^ Z.to_N v)%N else 0%N.

(* PinDepth.ToPinMode *)
Definition depth_to_mode (d : Z) : Z := if d =? -1 then 0 else if d =? 0 then 1 else 0.
(* PinMode.ToPinDepth *)
Definition mode_to_depth (m : Z) : Z := if m =? 0 then -1 else if m =? 1 then 0 else -1.

Definition cid_bytes (c : cid) : tok := match c with None => TEmpty | Some s => TOk s end.
Definition cast (t : tok) : option string := match t with TOk s => Some s | _ => None end.
Definition tok_ok (t : tok) : bool := match t with TOk _ => true | _ => false end.
Definition tok_str (t : tok) : string := match t with TOk s => s | TBad s => s | TEmpty => "" end.

Definition strings_utf8 (o : opts) : bool :=
  utf8_valid (name o) && forallb (fun kv => utf8_valid (fst kv) && utf8_valid (snd kv)) (metadata o).

(* Pin.ProtoMarshal up to the call of proto.Marshal, which rejects proto3 strings that are not UTF-8 *)
Definition pin_to_pb (p : pin) : result pbpin :=
  let o := popts p in
  let expire_proto : N :=
    if is_zero (expire o) || equal_unix_zero (expire o) then 0%N else uint64 (time_unix (expire o)) in
  if strings_utf8 o then
    Ok (mk_pbpin (cid_bytes (pcid p)) (convert_pin_type (ptype p)) (allocs p) (int32 (maxdepth p))
          (match reference p with None => TEmpty | Some c => cid_bytes c end)
          (Some (mk_pbopts (int32 (rmin o)) (int32 (rmax o)) (name o) (shard_size o) (metadata o)
                   (cid_bytes (pin_update o)) expire_proto (map TOk (origins o)))))
  else Err.

Definition get_opts (m : pbpin) : pbopts := match m_opts m with Some o => o | None => zero_pbopts end.

(* Pin.ProtoUnmarshal after proto.Unmarshal succeeded, decoding onto the pin value [old]
   (fields the code leaves untouched keep their old content). *)
Definition pb_unmarshal (old : pin) (m : pbpin) : result pin :=
  let o := get_opts m in
  if negb (forallb tok_ok (m_allocs m)) then Err
  else if negb (forallb tok_ok (o_origins o)) then Err
  else
    let d := m_depth m in
    Ok (mk_pin
          (mk_opts (o_rmin o) (o_rmax o) (o_name o) (depth_to_mode d) (o_shard o)
             (user_allocs (popts old))
             (if (0 <? o_expire o)%N then mk_time (int64 (Z.of_N (o_expire o))) 0 else expire (popts old))
             (o_meta o)
             (match cast (o_update o) with Some s => Some s | None => pin_update (popts old) end)
             (map tok_str (o_origins o)))
          (cast (m_cid m)) (shl1 (m_type m)) (m_allocs m) d
          (match cast (m_ref m) with Some s => Some (Some s) | None => None end)).

(* decoding into a fresh value, as deserializePin and every other caller does *)
Definition pb_to_pin (m : pbpin) : result pin := pb_unmarshal zero_pin m.

Definition pb_norm (p : pin) : result pin :=
  match pin_to_pb p with Ok m => pb_to_pin m | Err => Err end.

(* dsstate: serializePin = ProtoMarshal ; deserializePin c buf = ProtoUnmarshal, then p.Cid = c (the datastore key) *)
Definition set_cid (c : cid) (p : pin) : pin := mk_pin (popts p) c (ptype p) (allocs p) (maxdepth p) (reference p).
Definition ds_roundtrip (p : pin) : result pin :=
  match pb_norm p with Ok q => Ok (set_cid (pcid p) q) | Err => Err end.

(* ---- what the property allows to be lost ---- *)
Definition lossy_time (t : time) : time :=
  match t with None => None | Some (s, _) => if s =? 0 then None else mk_time s 0 end.
(* user allocations dropped; sub-second expiry dropped (the instant 1970-01-01T00:00:00 is "no expiry", like the zero time:
   Pin.ExpiredAt treats both alike); the mode is not stored but derived from the depth *)
Definition lossy_pb (p : pin) : pin :=
  let o := popts p in
  mk_pin (mk_opts (rmin o) (rmax o) (name o) (depth_to_mode (maxdepth p)) (shard_size o) [] (lossy_time (expire o))
            (metadata o) (pin_update o) (origins o))
         (pcid p) (ptype p) (allocs p) (maxdepth p) (reference p).

Definition mode_consistent (p : pin) : bool := mode (popts p) =? depth_to_mode (maxdepth p).

Definition single_bit (t : N) : bool := existsb (fun k => (t =? 2 ^ N.of_nat k)%N) (seq 0 64).

Definition wf_time (t : time) : bool :=
  match t with None => true
  | Some (s, ns) => in_int64 s && (ns <? 1000000000)%N && negb ((s =? zero_sec) && (ns =? 0)%N) end.

Definition wf_opts (o : opts) : bool :=
  in_int32 (rmin o) && in_int32 (rmax o) && (shard_size o <? 2 ^ 64)%N && strings_utf8 o
  && snodup (skeys (metadata o)) && wf_time (expire o).

Definition wf_pin (p : pin) : bool :=
  wf_opts (popts p) && in_int32 (maxdepth p) && single_bit (ptype p) && forallb tok_ok (allocs p)
  && match reference p with Some None => false | _ => true end.

(* a decoded value whose type enum was out of range (type 0) is re-read as BadType: see retype *)
(* what proto.Unmarshal can hand to ProtoUnmarshal: fields within their wire types, proto3 strings valid UTF-8 *)
Definition pbopts_wf (o : pbopts) : bool :=
  in_int32 (o_rmin o) && in_int32 (o_rmax o) && (o_expire o <? 2 ^ 64)%N && utf8_valid (o_name o)
  && forallb (fun kv => utf8_valid (fst kv) && utf8_valid (snd kv)) (o_meta o).
Definition pb_wf (m : pbpin) : bool :=
  in_int32 (m_type m) && in_int32 (m_depth m) && match m_opts m with Some o => pbopts_wf o | None => true end.

Definition retype (q : pin) : pin :=
  mk_pin (popts q) (pcid q) (if (ptype q =? 0)%N then 1%N else ptype q) (allocs q) (maxdepth q) (reference q).

(* Pin.ExpiredAt, for a clock reading (seconds, nanoseconds) *)
Definition time_before (a b : Z * N) : bool := (fst a <? fst b) || ((fst a =? fst b) && (snd a <? snd b)%N).
Definition expired_at (t : time) (now : Z * N) : bool :=
  if is_zero t || equal_unix_zero t then false
  else match t with Some x => time_before x now | None => false end.
