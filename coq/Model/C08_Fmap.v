(* C08 — msgpack (ugorji codec, as gorpc / dsstate / go-libp2p-raft configure it) and encoding/json forms of the API
   records, at field level: which keys a struct value is written under (struct tags, omitempty, regenerated from the
   source as Gen/C08Tags.v), how a written map is read back into a fresh value, and what the library marshalers of the
   leaf types accept. The byte formats themselves are trusted. Definitions only. *)
From V Require Import Base.Common Base.C08_Str Base.C08_Schema Model.C08_Codec Model.C08_Query Model.C08_Status.
Open Scope string_scope.
Open Scope list_scope.
Open Scope Z_scope.

Inductive codec := Msgpack | Json.

(* Go values of the record types (a nil slice / map is the empty one; embedded structs are promoted in place) *)
Inductive val :=
  | VInt (z : Z) | VUint (n : N) | VStr (s : string) | VBool (b : bool) | VBytes (s : string)
  | VTime (t : time) | VCid (c : cid) | VPeer (p : tok)
  | VAddr (a : option string)                      (* None: nil interface / empty wrapper *)
  | VList (l : list val) | VMap (m : list (string * val)) | VPtr (p : option val)
  | VRec (fs : list val).                          (* field values in declaration order *)

(* what is on the wire, as the decoder sees it *)
Inductive wire :=
  | WNil | WInt (z : Z) | WUint (n : N) | WStr (s : string) | WBool (b : bool) | WBytes (s : string)
  | WTime (t : time) | WCid (c : cid) | WPeer (p : tok) | WAddr (a : string)
  | WList (l : list wire) | WMap (m : list (string * wire))
  | WSome (w : wire).    (* a non-null value read through a pointer: the wire has no marker for it, the decoder allocates *)

Definition f_key (c : codec) (f : field) : string := match c with Msgpack => f_codec f | Json => f_json f end.
Definition f_omit (c : codec) (f : field) : bool := match c with Msgpack => f_comit f | Json => f_jomit f end.
Definition f_skip (c : codec) (f : field) : bool := match c with Msgpack => f_cskip f | Json => f_jskip f end.

Definition fields_of (sch : schema) (name : string) : option (list field) := slookup name sch.

(* omitempty: ugorji drops zero numbers, "", false, nil / empty collections, nil pointers and zero structs (time, CID);
   encoding/json never drops a struct-kind value *)
Definition is_empty (c : codec) (v : val) : bool :=
  match v with
  | VInt z => z =? 0 | VUint n => (n =? 0)%N | VStr s => String.eqb s "" | VBool b => negb b | VBytes s => String.eqb s ""
  | VTime t => match c with Msgpack => is_zero t | Json => false end
  | VCid x => match c with Msgpack => match x with None => true | _ => false end | Json => false end
  | VPeer p => match p with TEmpty => true | _ => false end
  | VAddr a => match a with None => true | _ => false end
  | VList l => match l with [] => true | _ => false end
  | VMap m => match m with [] => true | _ => false end
  | VPtr p => match p with None => true | _ => false end
  | VRec _ => false
  end.

(* the zero value a field keeps when its key is absent (decoding into a fresh value) *)
Definition zero_val (t : ty) : val :=
  match t with
  | TInt | TStatus | TMode => VInt 0 | TUint => VUint 0 | TStr => VStr "" | TBool => VBool false | TBytes => VBytes ""
  | TTime => VTime None | TCid => VCid None | TPeer => VPeer TEmpty | TMaddr | TMaddrIface => VAddr None
  | TSlice _ => VList [] | TMap _ => VMap [] | TPtr _ => VPtr None
  | TStruct _ | TOther _ => VRec []
  end.

(* time.Time.MarshalJSON refuses years outside [0, 9999] *)
Definition json_time_ok (t : time) : bool :=
  match t with None => true | Some (s, _) => (-62167219200 <=? s) && (s <? 253402300800) end.

Definition rbind {A B} (r : result A) (f : A -> result B) : result B := match r with Ok a => f a | Err => Err end.

Section WithSchema.
Variable c : codec.
Variable sch : schema.
Variable allow_iface : bool.   (* wf_val only: whether elements of a bare interface type count as well-formed (they do for the property, not for the decoders) *)

Fixpoint enc (t : ty) (v : val) {struct v} : result wire :=
  match t, v with
  | TInt, VInt z => Ok (WInt z)
  | TUint, VUint n => Ok (WUint n)
  | TStr, VStr s => Ok (WStr s)
  | TBool, VBool b => Ok (WBool b)
  | TBytes, VBytes s => Ok (WBytes s)
  | TTime, VTime x => match c with Msgpack => Ok (WTime x) | Json => if json_time_ok x then Ok (WTime x) else Err end
  | TCid, VCid x => match c, x with Json, None => Ok WNil | _, _ => Ok (WCid x) end   (* JSON null; msgpack: empty bytes *)
  | TPeer, VPeer p => Ok (WPeer p)
  | TMaddr, VAddr (Some a) => Ok (WAddr a)
  | TMaddrIface, VAddr (Some a) => Ok (WAddr a)
  | TStatus, VInt z => match c with Msgpack => Ok (WInt z) | Json => Ok (WStr (status_string st_table (Z.to_N z))) end
  | TMode, VInt z => match c with Msgpack => Ok (WInt z) | Json => Ok (WStr (mode_string z)) end
  | TSlice t', VList l =>
      rbind ((fix go (l : list val) : result (list wire) :=
                match l with
                | [] => Ok []
                | x :: r => rbind (enc t' x) (fun w => rbind (go r) (fun ws => Ok (w :: ws)))
                end) l) (fun ws => Ok (WList ws))
  | TMap t', VMap m =>
      rbind ((fix go (m : list (string * val)) : result (list (string * wire)) :=
                match m with
                | [] => Ok []
                | (k, x) :: r => rbind (enc t' x) (fun w => rbind (go r) (fun ws => Ok ((k, w) :: ws)))
                end) m) (fun ws => Ok (WMap ws))
  | TPtr t', VPtr None => Ok WNil
  | TPtr t', VPtr (Some x) => rbind (enc t' x) (fun w => match w with WNil => Ok WNil | _ => Ok (WSome w) end)
  | TStruct n, VRec vs =>
      match fields_of sch n with
      | None => Err
      | Some fs =>
          rbind ((fix go (fs : list field) (vs : list val) {struct vs} : result (list (string * wire)) :=
                    match fs, vs with
                    | [], [] => Ok []
                    | f :: fr, x :: xr =>
                        if f_skip c f then go fr xr
                        else if f_omit c f && is_empty c x then go fr xr
                        else rbind (enc (f_ty f) x) (fun w => rbind (go fr xr) (fun ws => Ok ((f_key c f, w) :: ws)))
                    | _, _ => Err
                    end) fs vs) (fun ws => Ok (WMap ws))
      end
  | _, _ => Err
  end.

(* reading a leaf back: the msgpack decoders of CIDs and peer IDs reject empty / invalid bytes, JSON null leaves a CID
   undefined, JSON peer IDs must parse; a bare multiaddr.Multiaddr interface has no decoder at all *)
Fixpoint dec (t : ty) (w : wire) {struct w} : result val :=
  match t, w with
  | TInt, WInt z => Ok (VInt z)
  | TUint, WUint n => Ok (VUint n)
  | TStr, WStr s => Ok (VStr s)
  | TBool, WBool b => Ok (VBool b)
  | TBytes, WBytes s => Ok (VBytes s)
  | TTime, WTime x => Ok (VTime x)
  | TCid, WCid x => match c, x with Msgpack, None => Err | _, _ => Ok (VCid x) end
  | TCid, WNil => match c with Json => Ok (VCid None) | Msgpack => Err end
  | TPeer, WPeer p => if tok_ok p then Ok (VPeer p) else Err
  | TMaddr, WAddr a => Ok (VAddr (Some a))
  | TMaddrIface, _ => Err
  | TStatus, WInt z => Ok (VInt z)
  | TStatus, WStr s => Ok (VInt (Z.of_N (status_from_string s)))
  | TMode, WInt z => Ok (VInt z)
  | TMode, WStr s => Ok (VInt (mode_from_string s))
  | TSlice t', WList l =>
      rbind ((fix go (l : list wire) : result (list val) :=
                match l with
                | [] => Ok []
                | x :: r => rbind (dec t' x) (fun v => rbind (go r) (fun vs => Ok (v :: vs)))
                end) l) (fun vs => Ok (VList vs))
  | TMap t', WMap m =>
      rbind ((fix go (m : list (string * wire)) : result (list (string * val)) :=
                match m with
                | [] => Ok []
                | (k, x) :: r => rbind (dec t' x) (fun v => rbind (go r) (fun vs => Ok ((k, v) :: vs)))
                end) m) (fun vs => Ok (VMap vs))
  | TPtr t', WNil => Ok (VPtr None)
  | TPtr t', WSome w' => rbind (dec t' w') (fun v => Ok (VPtr (Some v)))
  | TStruct n, WMap m =>
      match fields_of sch n with
      | None => Err
      | Some fs =>
          rbind ((fix go (fs : list field) : result (list val) :=
                    match fs with
                    | [] => Ok []
                    | f :: fr =>
                        let here :=
                          if f_skip c f then Ok (zero_val (f_ty f))
                          else (fix look (m : list (string * wire)) : result val :=
                                  match m with
                                  | [] => Ok (zero_val (f_ty f))
                                  | (k, x) :: r => if String.eqb (f_key c f) k then dec (f_ty f) x else look r
                                  end) m in
                        rbind here (fun v => rbind (go fr) (fun vs => Ok (v :: vs)))
                    end) fs) (fun vs => Ok (VRec vs))
      end
  | _, _ => Err
  end.

(* values the codec is meant to carry: typed by the schema; peer IDs valid (an empty one only where omitempty drops it);
   CIDs defined where msgpack writes them unconditionally; JSON: strings valid UTF-8, times within years 0..9999,
   status filters made of defined bits, modes 0 / 1; wrappers non-nil; and no value of a bare interface type *)
Fixpoint wf_val (t : ty) (omit : bool) (v : val) {struct v} : bool :=
  match t, v with
  | TInt, VInt _ | TUint, VUint _ | TBool, VBool _ | TBytes, VBytes _ => true
  | TStr, VStr s => match c with Msgpack => true | Json => utf8_valid s end
  | TTime, VTime x => match c with Msgpack => true | Json => json_time_ok x end
  | TCid, VCid x => match c, x with Msgpack, None => omit | _, _ => true end
  | TPeer, VPeer p => match p with TOk _ => true | TEmpty => omit | TBad _ => false end
  | TMaddr, VAddr (Some _) => true
  | TMaddrIface, VAddr (Some _) => allow_iface
  | TStatus, VInt z => match c with Msgpack => true | Json => (0 <=? z) && st_valid_mask (Z.to_N z) end
  | TMode, VInt z => match c with Msgpack => true | Json => (z =? 0) || (z =? 1) end
  | TSlice t', VList l => forallb (wf_val t' false) l
  | TMap t', VMap m => forallb (fun kv => wf_val t' false (snd kv)) m
                       && match c with Msgpack => true | Json => forallb (fun kv => utf8_valid (fst kv)) m end
  | TPtr t', VPtr None => true
  | TPtr t', VPtr (Some x) =>
      (* a pointer to something that is written as null reads back as a nil pointer *)
      match t', x with TPtr _, _ => false | TCid, VCid None => false | _, _ => wf_val t' false x end
  | TStruct n, VRec vs =>
      match fields_of sch n with
      | None => false
      | Some fs =>
          (fix go (fs : list field) (vs : list val) {struct vs} : bool :=
             match fs, vs with
             | [], [] => true
             | f :: fr, x :: xr => wf_val (f_ty f) (f_omit c f) x && go fr xr
             | _, _ => false
             end) fs vs
      end
  | _, _ => false
  end.

End WithSchema.

(* what every struct of the table must satisfy for its values to survive: no "-" field, distinct keys, no unknown type,
   no struct-typed field held by value (a value of a bare interface type is allowed in the table: wf_val excludes its values) *)
Fixpoint ty_known (t : ty) : bool :=
  match t with TOther _ => false | TSlice t' | TMap t' | TPtr t' => ty_known t' | _ => true end.
Definition field_ok (c : codec) (sch : schema) (f : field) : bool :=
  negb (f_skip c f) && ty_known (f_ty f)
  && match f_ty f with TStruct _ => false | _ => true end.
Fixpoint ty_refs_ok (sch : schema) (t : ty) : bool :=
  match t with
  | TStruct n => match fields_of sch n with Some _ => true | None => false end
  | TSlice t' | TMap t' | TPtr t' => ty_refs_ok sch t'
  | _ => true end.
Definition struct_ok (c : codec) (sch : schema) (fs : list field) : bool :=
  forallb (field_ok c sch) fs && forallb (fun f => ty_refs_ok sch (f_ty f)) fs && snodup (map (f_key c) fs).
Definition schema_ok (c : codec) (sch : schema) : bool :=
  forallb (fun e => struct_ok c sch (snd e)) sch && snodup (map fst sch).

(* the finding S19: a value that carries at least one element of a bare multiaddr.Multiaddr interface type *)
Fixpoint has_iface (sch : schema) (t : ty) (v : val) {struct v} : bool :=
  match t, v with
  | TMaddrIface, VAddr (Some _) => true
  | TSlice t', VList l => existsb (has_iface sch t') l
  | TMap t', VMap m => existsb (fun kv => has_iface sch t' (snd kv)) m
  | TPtr t', VPtr (Some x) => has_iface sch t' x
  | TStruct n, VRec vs =>
      match fields_of sch n with
      | None => false
      | Some fs =>
          (fix go (fs : list field) (vs : list val) {struct vs} : bool :=
             match fs, vs with
             | f :: fr, x :: xr => has_iface sch (f_ty f) x || go fr xr
             | _, _ => false
             end) fs vs
      end
  | _, _ => false
  end.
