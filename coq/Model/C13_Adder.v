(* C13 — adding content: BlockAdder (adder/util.go), single DAG service (adder/single/dag_service.go),
   sharding DAG service (adder/sharding/{dag_service,shard,dag}.go), the Adder loop (adder/adder.go).
   Executable transcription, definitions only.

   The importer (go-unixfs chunker + layout + MFS) is an INPUT: a finite stream of blocks
   {bcid; bsize; blinks} handed to DAGService.Add in order, and the root it returns.
   CIDs of data blocks are indices (N). CIDs of the nodes the cluster builds itself (shard nodes,
   leaf nodes, cluster-DAG node: CBOR maps "0".."n-1" -> link) are modelled symbolically by their
   ordered link list (CNode): equal content <-> equal CID (sha2-256 + canonical CBOR trusted).

   External outcomes are explicit oracles the theorems quantify over:
     e_alloc k    result of the k-th Cluster.BlockAllocate call (None = error)
     e_put j d    outcome of IPFSConnector.BlockPut to destination d in the j-th BlockAdder.Add
     e_pin k      whether the k-th Cluster.Pin call succeeds
   Destination 0 is the local peer (peer.ID ""), real peers are >= 1. *)
From V Require Import Base.Common.
From Coq Require Import MSets.MSetPositive.
Open Scope N_scope.

Inductive cid := CData (n : N) | CNode (ls : list cid).

(* bswallow: the importer ignored an error returned by DAGService.Add for this block and went on
   (its contract is to stop; go-unixfs' balanced layout does not for the first leaf of a file, see docs) *)
Record block := mkblock { bcid : N; bsize : N; blinks : list N; bswallow : bool }.

Inductive outcome := POk | PIpfs | PRpc.     (* nil | error from the daemon | gorpc server/client/authorization error *)
Definition is_err (o : outcome) : bool := match o with POk => false | _ => true end.
Definition is_rpc (o : outcome) : bool := match o with PRpc => true | _ => false end.

Inductive ptype := TData | TMeta | TClusterDAG | TShard | TBad.
Inductive pname := NBase | NShard (k : N) | NClusterDAG | NOther.
Record pin := mkpin { pcid : cid; pty : ptype; pnm : pname; pallocs : list N; pdepth : Z;
                      pref : option cid; prmin : Z; prmax : Z; pssize : N }.

Inductive err := EAllocFail | EPutFail | EPinFail | ETooBig | ENilShard | EPanic | EFuel | EImporter.
Inductive result := ROk (root : cid) | RErr (e : err).

Inductive event :=
| EAlloc (r : option (list N))
| EPut (c : cid) (dests : list N) (r : option (list N))
| EPin (p : pin) (ok : bool).

Record env := mkenv { e_rmin : Z; e_rmax : Z; e_limit : N; e_maxlinks : N; e_local : bool;
                      e_alloc : N -> option (list N); e_put : N -> N -> outcome; e_pin : N -> bool }.

(* call counters and the trace (newest first) *)
Record io := mkio { na : N; nr : N; np : N; tr : list event }.
Definition io0 : io := mkio 0 0 0 [].

(* ---- adder/util.go ---- *)

(* BlockAdder.Add: the success rule as written *)
Definition ba_add (out : N -> outcome) (dests : list N) : option (list N) :=
  let num_errs := length (filter (fun d => is_err (out d)) dests) in
  let succ := filter (fun d => negb (is_rpc (out d))) dests in
  if Nat.eqb num_errs (length dests) || Nat.eqb (length succ) 0 then None else Some succ.

Definition do_put (e : env) (c : cid) (dests : list N) (s : io) : option (list N) * io :=
  let r := ba_add (e_put e (nr s)) dests in
  (r, mkio (na s) (nr s + 1) (np s) (EPut c dests r :: tr s)).

(* BlockAdder.AddMany *)
Fixpoint put_many (e : env) (cs : list cid) (dests : list N) (s : io) : option (list N) * io :=
  match cs with
  | [] => (Some dests, s)
  | c :: r => match do_put e c dests s with
              | (Some d', s') => put_many e r d' s'
              | (None, s') => (None, s')
              end
  end.

(* adder.BlockAllocate *)
Definition do_alloc (e : env) (s : io) : option (list N) * io :=
  let r := e_alloc e (na s) in
  (r, mkio (na s + 1) (nr s) (np s) (EAlloc r :: tr s)).

(* adder.Pin: replication factor < 0 clears the allocations *)
Definition do_pin (e : env) (p : pin) (s : io) : bool * io :=
  let p' := if (prmin p <? 0)%Z
            then mkpin (pcid p) (pty p) (pnm p) [] (pdepth p) (pref p) (prmin p) (prmax p) (pssize p) else p in
  let ok := e_pin e (np s) in
  (ok, mkio (na s) (nr s) (np s + 1) (EPin p' ok :: tr s)).

(* ---- adder/single/dag_service.go ---- *)
Record single_st := mksingle { sd_dests : option (list N); sd_ba : list N; sd_io : io }.

Definition single_add (e : env) (c : N) (st : single_st) : option err * single_st :=
  match sd_dests st with
  | None =>
      match do_alloc e (sd_io st) with
      | (None, s) => (Some EAllocFail, mksingle None (sd_ba st) s)
      | (Some ds, s) =>
          let ba := if e_local e then [0] else ds in
          match do_put e (CData c) ba s with
          | (Some ba', s') => (None, mksingle (Some ds) ba' s')
          | (None, s') => (Some EPutFail, mksingle (Some ds) ba s')
          end
      end
  | Some ds =>
      match do_put e (CData c) (sd_ba st) (sd_io st) with
      | (Some ba', s') => (None, mksingle (Some ds) ba' s')
      | (None, s') => (Some EPutFail, mksingle (Some ds) (sd_ba st) s')
      end
  end.

Definition single_finalize (e : env) (root : N) (st : single_st) : result * single_st :=
  let p := mkpin (CData root) TData NBase (match sd_dests st with Some ds => ds | None => [] end) (-1)%Z None
                 (e_rmin e) (e_rmax e) (e_limit e) in
  match do_pin e p (sd_io st) with
  | (true, s) => (ROk (CData root), mksingle None (sd_ba st) s)
  | (false, s) => (RErr EPinFail, mksingle None (sd_ba st) s)
  end.

(* ---- adder/sharding/dag.go ---- *)
(* makeDAG: one node when the links fit, else leaves of maxlinks links (i = 0..len/maxlinks, so an
   empty extra leaf at exact multiples) under one indirect node; the root is the head *)
Definition make_dag (ml : N) (links : list cid) : list cid :=
  let n := N.of_nat (length links) in
  if n <=? ml then [CNode links]
  else
    let nf := N.to_nat (n / ml) in
    let leaves := map (fun i => CNode (firstn (N.to_nat ml) (skipn (i * N.to_nat ml) links))) (seq 0 (S nf)) in
    CNode leaves :: leaves.

Definition dag_root (ml : N) (links : list cid) : cid :=
  match make_dag ml links with c :: _ => c | [] => CNode [] end.

(* ---- adder/sharding/shard.go ---- *)
Record shard := mkshard { sh_allocs : list N; sh_ba : list N; sh_links : list N; sh_size : N }.

(* addedSet is a set of CIDs (cid.Set): any set implementation; keys are N.succ_pos of the block index *)
Definition key (c : N) : positive := N.succ_pos c.
Record sst := mksst { added : PositiveSet.t; cur : option shard; prev : option cid; shards : list cid; sio : io }.
Definition sst0 : sst := mksst PositiveSet.empty None None [] io0.

Definition set_io (st : sst) (s : io) : sst := mksst (added st) (cur st) (prev st) (shards st) s.
Definition set_cur (st : sst) (c : option shard) (s : io) : sst := mksst (added st) c (prev st) (shards st) s.

(* shard.Flush: the pin depth of the shard: 2 when the DAG goes through leaf nodes, `if len(nodes) > 1`
   (the repaired condition, fix-S13; as shipped it read `len(nodes) > len(sh.dagNode)+1`, see shard_depth_shipped) *)
Definition shard_depth (nodes : list cid) (links : list N) : Z :=
  if Nat.ltb 1 (length nodes) then 2%Z else 1%Z.
Definition shard_depth_shipped (nodes : list cid) (links : list N) : Z :=
  if Nat.ltb (length links + 1) (length nodes) then 2%Z else 1%Z.

(* flushCurrentShard + shard.Flush *)
Definition flush (e : env) (st : sst) : option err * sst :=
  match cur st with
  | None => (Some ENilShard, st)
  | Some sh =>
      let nodes := make_dag (e_maxlinks e) (map CData (sh_links sh)) in
      match put_many e nodes (sh_ba sh) (sio st) with
      | (None, s) => (Some EPutFail, set_io st s)
      | (Some _, s) =>
          let root := dag_root (e_maxlinks e) (map CData (sh_links sh)) in
          let p := mkpin root TShard (NShard (N.of_nat (length (shards st)))) (sh_allocs sh)
                         (shard_depth nodes (sh_links sh)) (prev st) (e_rmin e) (e_rmax e) (sh_size sh) in
          match do_pin e p s with
          | (false, s') => (Some EPinFail, set_io st s')
          | (true, s') => (None, mksst (added st) None (Some root) (shards st ++ [root]) s')
          end
      end
  end.

(* newShard *)
Definition new_shard (e : env) (s : io) : (err + shard) * io :=
  match do_alloc e s with
  | (None, s') => (inl EAllocFail, s')
  | (Some al, s') =>
      if (0 <? e_rmin e)%Z && Nat.eqb (length al) 0 then (inl EPanic, s')
      else (inr (mkshard al al [] 0), s')
  end.

(* ---- adder/sharding/dag_service.go ---- *)
(* ingestBlock, first part: "if we have no currentShard, create one" *)
Definition ensure_shard (e : env) (st : sst) : (err + shard) * sst :=
  match cur st with
  | Some sh => (inr sh, st)
  | None => match new_shard e (sio st) with
            | (inl er, s) => (inl er, set_io st s)
            | (inr sh, s) => (inr sh, set_cur st (Some sh) s)
            end
  end.

(* ingestBlock, "add the block to it if it fits and return": shard.AddLink, then the shard's BlockAdder *)
Definition add_link (e : env) (b : block) (sh : shard) (st1 : sst) : option err * sst :=
  let sh1 := mkshard (sh_allocs sh) (sh_ba sh) (sh_links sh ++ [bcid b]) (sh_size sh + bsize b) in
  match do_put e (CData (bcid b)) (sh_ba sh) (sio st1) with
  | (Some ba', s) => (None, set_cur st1 (Some (mkshard (sh_allocs sh1) ba' (sh_links sh1) (sh_size sh1))) s)
  | (None, s) => (Some EPutFail, set_cur st1 (Some sh1) s)
  end.

(* ingestBlock (recursive retry after a flush; fuel 2 always suffices, see Proofs) *)
Fixpoint ingest (fuel : nat) (e : env) (b : block) (st : sst) : option err * sst :=
  match fuel with
  | O => (Some EFuel, st)
  | S f =>
      match ensure_shard e st with
      | (inl er, st1) => (Some er, st1)
      | (inr sh, st1) =>
          if sh_size sh + bsize b <? e_limit e then add_link e b sh st1
          else if sh_size sh =? 0 then (Some ETooBig, st1)
          else match flush e st1 with
               | (Some er, st2) => (Some er, st2)
               | (None, st2) => ingest f e b st2
               end
      end
  end.

(* DAGService.Add: addedSet.Visit, then ingest *)
Definition shard_add (e : env) (b : block) (st : sst) : option err * sst :=
  if PositiveSet.mem (key (bcid b)) (added st) then (None, st)
  else ingest 2 e b (mksst (PositiveSet.add (key (bcid b)) (added st)) (cur st) (prev st) (shards st) (sio st)).

(* DAGService.Finalize *)
Definition shard_finalize (e : env) (root : N) (st : sst) : result * sst :=
  match flush e st with
  | (Some er, st1) => (RErr er, st1)
  | (None, st1) =>
      let nodes := make_dag (e_maxlinks e) (shards st1) in
      match put_many e nodes [0] (sio st1) with
      | (None, s) => (RErr EPutFail, set_io st1 s)
      | (Some _, s) =>
          let cdag := dag_root (e_maxlinks e) (shards st1) in
          let p1 := mkpin cdag TClusterDAG NClusterDAG [] 0%Z (Some (CData root)) (-1)%Z (-1)%Z (e_limit e) in
          match do_pin e p1 s with
          | (false, s1) => (RErr EPinFail, set_io st1 s1)
          | (true, s1) =>
              let p2 := mkpin (CData root) TMeta NBase [] 0%Z (Some cdag) (e_rmin e) (e_rmax e) (e_limit e) in
              match do_pin e p2 s1 with
              | (false, s2) => (RErr EPinFail, set_io st1 s2)
              | (true, s2) => (ROk (CData root), set_io st1 s2)
              end
          end
      end
  end.

(* ---- adder/adder.go: FromFiles feeds every block of the importer to the DAG service, stops at the
   first error, and finalizes with the importer's root only when every Add succeeded ---- *)
Fixpoint add_all {S} (add : block -> S -> option err * S) (bs : list block) (st : S) : option err * S :=
  match bs with
  | [] => (None, st)
  | b :: r => match add b st with
              | (None, st') => add_all add r st'
              | (Some er, st') => if bswallow b then add_all add r st' else (Some er, st')
              end
  end.

Definition shard_adds (e : env) (stream : list block) : option err * sst := add_all (shard_add e) stream sst0.
Definition single_adds (e : env) (stream : list block) : option err * single_st :=
  add_all (fun b => single_add e (bcid b)) stream (mksingle None [] io0).

Definition shard_run (e : env) (stream : list block) (root : N) : result * list event :=
  match shard_adds e stream with
  | (Some er, st) => (RErr er, rev (tr (sio st)))
  | (None, st) => let '(r, st') := shard_finalize e root st in (r, rev (tr (sio st')))
  end.

Definition single_run (e : env) (stream : list block) (root : N) : result * list event :=
  match single_adds e stream with
  | (Some er, st) => (RErr er, rev (tr (sd_io st)))
  | (None, st) => let '(r, st') := single_finalize e root st in (r, rev (tr (sd_io st')))
  end.

(* the importer gave up by itself after its last Add (an error of its own, or one it had kept for later):
   FromFiles returns that error and Finalize is never called *)
Definition shard_run_aborted (e : env) (stream : list block) : result * list event :=
  match shard_adds e stream with
  | (Some er, st) => (RErr er, rev (tr (sio st)))
  | (None, st) => (RErr EImporter, rev (tr (sio st)))
  end.
Definition single_run_aborted (e : env) (stream : list block) : result * list event :=
  match single_adds e stream with
  | (Some er, st) => (RErr er, rev (tr (sd_io st)))
  | (None, st) => (RErr EImporter, rev (tr (sd_io st)))
  end.
