(* C06 — cluster-wide status view: cluster.go globalPinInfoCid / globalPinInfoSlice (definitions only).
   Peers and cids are indices; a status is its TrackerStatus bit value (unpinned 128, remote 256, cluster_error 2).
   A GlobalPinInfo.PeerMap is an association list keyed by peer (api.GlobalPinInfo.Add overwrites the peer's entry). *)
From V Require Import Base.Common.
Open Scope N_scope.

(* outcome of the RPC sent to one destination: a PinInfo (with the Peer field it carries and its status),
   a transport / remote error, or an authorization error *)
Inductive reply := RInfo (p : N) (stb : N) | RErr | RAuth.

Definition subtract (members dests : list N) : list N := filter (fun m => negb (memN m dests)) members.
Definition put_all (ps : list N) (stb : N) (m : list (N * N)) : list (N * N) := fold_left (fun m p => aput p stb m) ps m.

(* the pin as far as this function reads it: allocations, replication factor -1 *)
Record gpin := mk_gpin { g_alloc : list N; g_every : bool }.

Definition dests_of (self : N) (follower : bool) (members : list N) (g : gpin) : list N :=
  if follower then [self] else if g_every g then members else g_alloc g.
Definition remote_of (follower : bool) (members : list N) (g : gpin) : list N :=
  if follower then [] else if g_every g then [] else subtract members (g_alloc g).

Definition add_reply (m : list (N * N)) (dr : N * reply) : list (N * N) :=
  match snd dr with
  | RInfo p stb => aput p stb m
  | RAuth => m                       (* rpc.IsAuthorizationError: skipped *)
  | RErr => aput (fst dr) 2 m        (* cluster_error for the destination *)
  end.

(* globalPinInfoCid; replies are in the order of the destination list *)
Definition global_cid (self : N) (follower : bool) (members : list N) (pin : option gpin) (replies : list reply)
  : list (N * N) :=
  match pin with
  | None => put_all (if follower then [self] else members) 128 []
  | Some g => fold_left add_reply (combine (dests_of self follower members g) replies)
                        (put_all (remote_of follower members g) 256 [])
  end.

(* globalPinInfoSlice *)
Inductive sreply := SList (l : list (N * N * N)) (* cid, Peer field, status *) | SErr | SAuth.

Definition add_info (fm : list (N * list (N * N))) (c p stb : N) : list (N * list (N * N)) :=
  aput c (aput p stb (match aget c fm with Some m => m | None => [] end)) fm.

Definition add_sreply (fm : list (N * list (N * N))) (mr : N * sreply) : list (N * list (N * N)) :=
  match snd mr with
  | SList l => fold_left (fun fm e => let '(c, p, stb) := e in add_info fm c p stb) l fm
  | _ => fm
  end.

Definition errored_of (mrs : list (N * sreply)) : list N :=
  flat_map (fun mr => match snd mr with SErr => [fst mr] | _ => [] end) mrs.

Definition global_slice (self : N) (follower : bool) (members : list N) (replies : list sreply)
  : list (N * list (N * N)) :=
  let mrs := combine (if follower then [self] else members) replies in
  let fm := fold_left add_sreply mrs [] in
  fold_left (fun fm p => fold_left (fun fm c => add_info fm c p 2) (akeys fm) fm) (errored_of mrs) fm.
