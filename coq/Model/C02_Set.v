(* C02 layer B — go-ds-crdt v0.1.21 set.go (Rmv, putTombs, putElems, setValue, Merge, InSet, Element) and the
   batch / direct write path of crdt.go (addToDelta, rmvToDelta, updateDeltaWithRemove, publishDelta,
   addDAGNode), as written; layer C — consensus.go PutHook / DeleteHook. Definitions only.

   Keys (CIDs) and block ids are indices; a value is the rank of the stored bytes in bytes.Compare order
   (0 = no value / empty). The backing store is a ds.Batching store (MapDatastore, badger, leveldb all are):
   putElems then reads the current value and priority from the store while its own writes sit in a write batch
   until the end of the delta, so every element of one delta is compared with the state *before* that delta and
   the last write of a key wins. *)
From V Require Import Base.Common.
Open Scope N_scope.

Definition key := N.
Definition bid := N.
Definition val := N.
Definition kid := (key * bid)%type.

Definition kid_eqb (a b : kid) : bool := (fst a =? fst b) && (snd a =? snd b).
Definition kmem (x : kid) (l : list kid) : bool := existsb (kid_eqb x) l.

Record delta := mk_delta { d_id : bid; d_prio : N; d_adds : list (key * val); d_rms : list kid }.
Record rep := mk_rep { elems : list kid; tombs : list kid; reg : list (key * (N * val)) (* key -> priority, value *) }.
Definition rempty := mk_rep [] [] [].

Inductive hook := HPut (k : key) (v : val) | HDel (k : key).

(* getPriority / store.Get(valueK): 0 and no bytes when the key was never written *)
Definition cur_pv (rg : list (key * (N * val))) (k : key) : N * val :=
  match aget k rg with Some pv => pv | None => (0, 0) end.

(* setValue: does this element get stored (and PutHook called)? tb, rg: tombstones and registers in the store *)
Definition stores (tb : list kid) (rg : list (key * (N * val))) (id : bid) (prio : N) (kv : key * val) : bool :=
  if kmem (fst kv, id) tb then false
  else let '(cp, cv) := cur_pv rg (fst kv) in
       if prio <? cp then false
       else if (prio =? cp) && (snd kv <=? cv) then false   (* bytes.Compare(curValue, value) >= 0 *)
       else true.

(* keys in order of first occurrence: putTombs calls DeleteHook once per key of the delta *)
Fixpoint first_keys (seen : list key) (l : list kid) : list key :=
  match l with
  | [] => []
  | (k, _) :: r => if memN k seen then first_keys seen r else k :: first_keys (k :: seen) r
  end.
Definition del_hooks (d : delta) : list hook := map HDel (first_keys [] (d_rms d)).
Definition stored_adds (r : rep) (d : delta) : list (key * val) :=
  filter (stores (tombs r) (reg r) (d_id d) (d_prio d)) (d_adds d).
Definition put_hooks (r : rep) (d : delta) : list hook :=
  map (fun kv => HPut (fst kv) (snd kv)) (stored_adds r d).

Definition put_tombs (r : rep) (d : delta) : rep := mk_rep (elems r) (tombs r ++ d_rms d) (reg r).
Definition put_elems (r : rep) (d : delta) : rep :=
  mk_rep (elems r ++ map (fun kv => (fst kv, d_id d)) (d_adds d)) (tombs r)
         (fold_left (fun rg kv => aput (fst kv) (d_prio d, snd kv) rg) (stored_adds r d) (reg r)).

(* set.Merge: putTombs then putElems *)
Definition merge (r : rep) (d : delta) : rep := put_elems (put_tombs r d) d.
Definition merge_hooks (r : rep) (d : delta) : list hook := del_hooks d ++ put_hooks (put_tombs r d) d.

(* inElemsNotTombstoned, InSet, Element *)
Definition live (r : rep) (k : key) : bool :=
  existsb (fun e => (fst e =? k) && negb (kmem e (tombs r))) (elems r).
Definition present (r : rep) (k : key) : bool :=
  match aget k (reg r) with Some _ => live r k | None => false end.
Definition value (r : rep) (k : key) : option val :=
  if present r k then option_map snd (aget k (reg r)) else None.

Definition run (ds : list delta) (r : rep) : rep := fold_left merge ds r.
Fixpoint run_hooks (ds : list delta) (r : rep) : list hook :=
  match ds with [] => [] | d :: t => merge_hooks r d ++ run_hooks t (merge r d) end.

(* set.Rmv: a tombstone for every element id of k in the store that is not yet tombstoned *)
Definition rmv_tombs (r : rep) (k : key) : list kid :=
  filter (fun e => (fst e =? k) && negb (kmem e (tombs r))) (elems r).

(* ---- write path of one replica (crdt.go), single writer ---- *)
Inductive wop := WPin (k : key) (v : val) | WUnpin (k : key).

Definition dcontent := (list (key * val) * list kid)%type.
(* batch.Put -> addToDelta -> updateDelta; batch.Delete -> rmvToDelta -> updateDeltaWithRemove *)
Definition delta_add_op (r : rep) (cd : dcontent) (o : wop) : dcontent :=
  match o with
  | WPin k v => (fst cd ++ [(k, v)], snd cd)
  | WUnpin k => (filter (fun kv => negb (fst kv =? k)) (fst cd), snd cd ++ rmv_tombs r k)
  end.

(* outcome of one publish (addDAGNode): which of its datastore write batches failed, if any *)
Inductive pres := POk | PFailTombs | PFailElems | PFailHeads.

Definition dc_eqb (a b : dcontent) : bool :=
  list_eqb (fun x y => (fst x =? fst y) && (snd x =? snd y)) (fst a) (fst b) && list_eqb kid_eqb (snd a) (snd b).

Record lrep := mk_lrep {
  l_st : rep;
  l_height : N;                       (* height of the only head; 0 = no head yet *)
  l_next : bid;                       (* next fresh block id *)
  l_lastf : list (dcontent * bid);    (* content and block id of every publish that failed since the last success, newest
                                         first: the heads did not move, and the same content over the same heads is the
                                         same block (pin A fails, unpin fails, pin A again: the block of the first attempt) *)
  l_cur : option dcontent }.          (* curDelta of the batch (nil after a successful publish) *)
Definition linit := mk_lrep rempty 0 1 [] None.

Definition pub_id (l : lrep) (dc : dcontent) : bid :=
  match find (fun x => dc_eqb dc (fst x)) (l_lastf l) with Some x => snd x | None => l_next l end.

(* can this outcome happen for this delta? putTombs / putElems return early on an empty list, heads.Replace is used
   only when there is a head to replace *)
Definition pres_possible (l : lrep) (dc : dcontent) (p : pres) : bool :=
  match p with
  | POk => true
  | PFailTombs => negb (match snd dc with [] => true | _ => false end)
  | PFailElems => negb (match fst dc with [] => true | _ => false end)
  | PFailHeads => negb (l_height l =? 0)
  end.

Definition publish (l : lrep) (dc : dcontent) (p : pres) : lrep * list hook :=
  let id := pub_id l dc in
  let d := mk_delta id (l_height l + 1) (fst dc) (snd dc) in
  let nxt := if id =? l_next l then l_next l + 1 else l_next l in
  let r := l_st l in
  match p with
  | POk => (mk_lrep (merge r d) (l_height l + 1) nxt [] (l_cur l), merge_hooks r d)
  | PFailHeads => (mk_lrep (merge r d) (l_height l) nxt ((dc, id) :: l_lastf l) (l_cur l), merge_hooks r d)
  | PFailTombs => (mk_lrep r (l_height l) nxt ((dc, id) :: l_lastf l) (l_cur l), del_hooks d)        (* hooks run before the commit *)
  | PFailElems => (mk_lrep (put_tombs r d) (l_height l) nxt ((dc, id) :: l_lastf l) (l_cur l), merge_hooks r d)
  end.

Definition pres_ok (p : pres) : bool := match p with POk => true | _ => false end.

(* dsstate.Add / Rm on the crdt datastore without batching: Put publishes; Delete publishes only when it has tombstones *)
Definition direct_op (l : lrep) (o : wop) (p : pres) : lrep * list hook * bool (* returned nil *) :=
  let dc := delta_add_op (l_st l) ([], []) o in
  match o, snd dc with
  | WUnpin _, [] => (l, [], true)
  | _, _ => let '(l', hs) := publish l dc p in (l', hs, pres_ok p)
  end.

Definition cur_dc (l : lrep) : dcontent := match l_cur l with Some dc => dc | None => ([], []) end.
Definition batch_op (l : lrep) (o : wop) : lrep :=
  mk_lrep (l_st l) (l_height l) (l_next l) (l_lastf l) (Some (delta_add_op (l_st l) (cur_dc l) o)).
(* publishDelta: curDelta is cleared only on success *)
Definition batch_commit (l : lrep) (p : pres) : lrep * list hook :=
  let '(l', hs) := publish l (cur_dc l) p in
  (mk_lrep (l_st l') (l_height l') (l_next l') (l_lastf l') (if pres_ok p then None else l_cur l), hs).

(* the pinset a replica reports: keys with a live element, with the registered value *)
Definition keys_of (r : rep) : list key := map fst (reg r).   (* aput keeps one entry per key *)
Definition pinset (r : rep) : list (key * val) :=
  flat_map (fun k => match value r k with Some v => [(k, v)] | None => [] end) (keys_of r).

(* layer C: PutHook -> PinTracker.Track(decoded pin), DeleteHook -> PinTracker.Untrack(cid) *)
Inductive tcall := Track (k : key) (v : val) | Untrack (k : key).
Definition tracker_call (h : hook) : tcall := match h with HPut k v => Track k v | HDel k => Untrack k end.

(* ---- one replica driven by its own writes only (the single-peer part of the statement) ---- *)
Inductive lev :=
| LOp (o : wop)                 (* batchWorker: batchingState.Add / Rm *)
| LCommit (p : pres)            (* batchWorker: batchingState.Commit, with its outcome *)
| LDirect (o : wop) (p : pres). (* LogPin / LogUnpin without batching, with its outcome *)

Definition lstep (l : lrep) (e : lev) : lrep :=
  match e with
  | LOp o => batch_op l o
  | LCommit p => fst (batch_commit l p)
  | LDirect o p => fst (fst (direct_op l o p))
  end.
Definition lrun (es : list lev) : lrep := fold_left lstep es linit.

(* last-writer-wins map the statement asks for: every operation handed to the batch, and every direct write that
   returned nil, in submission order *)
Definition apply_wop (m : list (key * val)) (o : wop) : list (key * val) :=
  match o with WPin k v => aput k v m | WUnpin k => adel k m end.
Definition spec_step (m : list (key * val)) (e : lev) : list (key * val) :=
  match e with
  | LOp o => apply_wop m o
  | LCommit _ => m
  | LDirect o p => if pres_ok p then apply_wop m o else m
  end.
Definition spec_map (es : list lev) : list (key * val) := fold_left spec_step es [].

(* the pinset the replica holds once the pending batch (if any) is committed *)
Definition view (l : lrep) (k : key) : option val :=
  let dc := cur_dc l in
  value (merge (l_st l) (mk_delta (pub_id l dc) (l_height l + 1) (fst dc) (snd dc))) k.

Definition no_heads_failure (es : list lev) : bool :=
  forallb (fun e => match e with LCommit PFailHeads | LDirect _ PFailHeads => false | _ => true end) es.
Definition batch_mode (es : list lev) : bool := forallb (fun e => match e with LDirect _ _ => false | _ => true end) es.
Definition direct_mode (es : list lev) : bool := forallb (fun e => match e with LDirect _ _ => true | _ => false end) es.

(* every injected failure is one that can happen at that point (see pres_possible) *)
Fixpoint outcomes_possible (l : lrep) (es : list lev) : bool :=
  match es with
  | [] => true
  | e :: r =>
      (match e with
       | LDirect o p => pres_possible l (delta_add_op (l_st l) ([], []) o) p
       | LCommit p => pres_possible l (cur_dc l) p
       | LOp _ => true
       end) && outcomes_possible (lstep l e) r
  end.

