(* C11 — boolean form of the property applied to what the implementation did, and model-vs-implementation
   comparison. Evaluated with vm_compute on the harness cases. The route table and the operation each
   route names are written out by hand here (route_spec): spec_okb does not depend on Gen/. *)
From V Require Import Base.Common Base.C11_Http Model.C11_Rest.
Open Scope string_scope.
Open Scope list_scope.

Record robs := mk_robs { ro_calls : list rcall; ro_status : N; ro_ndocs : N; ro_serr : bool }.
Record cobs := mk_cobs { co_calls : list rcall; co_err : Z; co_ret : string; co_refused : bool }.

Definition rcall_eqb (a b : rcall) : bool :=
  let '(m, args, f) := a in let '(m', args', f') := b in
  String.eqb m m' && list_eqb String.eqb args args' && Bool.eqb f f'.
Definition is_nil {A} (l : list A) : bool := match l with [] => true | _ => false end.
Definition any_failed (cs : list rcall) : bool := existsb (fun c => snd c) cs.

(* ---- route_spec: (HTTP method, path template, what the route denotes) ---- *)
Definition L := TLit.
Definition route_spec : list rroute := [
  ("GET", [L ""; L "id"], RId);
  ("GET", [L ""; L "version"], RVersion);
  ("GET", [L ""; L "peers"], RPeers);
  ("POST", [L ""; L "peers"], RPeerAdd);
  ("DELETE", [L ""; L "peers"; TVar "peer"], RPeerRemove);
  ("POST", [L ""; L "add"], RAdd);
  ("GET", [L ""; L "allocations"], RAllocations);
  ("GET", [L ""; L "allocations"; TVar "hash"], RAllocation);
  ("GET", [L ""; L "pins"], RStatusAll);
  ("POST", [L ""; L "pins"; TAlt "keyType" ["ipfs"; "ipns"; "ipld"]; TRest "path"], RPinPath);   (* before Recover since fix-S26: /pins/ipns/recover is a path *)
  ("POST", [L ""; L "pins"; TVar "hash"; L "recover"], RRecover);
  ("POST", [L ""; L "pins"; L "recover"], RRecoverAll);
  ("GET", [L ""; L "pins"; TVar "hash"], RStatus);
  ("POST", [L ""; L "pins"; TVar "hash"], RPin);
  ("DELETE", [L ""; L "pins"; TVar "hash"], RUnpin);
  ("DELETE", [L ""; L "pins"; TAlt "keyType" ["ipfs"; "ipns"; "ipld"]; TRest "path"], RUnpinPath);
  ("POST", [L ""; L "ipfs"; L "gc"], RRepoGC);
  ("GET", [L ""; L "health"; L "graph"], RGraph);
  ("GET", [L ""; L "health"; L "alerts"], RAlerts);
  ("GET", [L ""; L "monitor"; L "metrics"; TVar "name"], RMetrics);
  ("GET", [L ""; L "monitor"; L "metrics"], RMetricNames)
].

(* what a well-formed request on the route must become: refused, or these RPCs with exactly these arguments *)
Inductive expect := Refuse | Ops (cs : list (string * list string)).

Definition spec_expect (h : rhandler) (vars : list (string * string)) (q : qvals) (e : renv) : expect :=
  let loc a b := if is_local q then a else b in
  let cid_opts k := match look (var "hash" vars) (re_cids e), re_popts e with Some c, Some o => Ops (k c o) | _, _ => Refuse end in
  let path_opts k := match look ("/" ++ var "keyType" vars ++ "/" ++ trim_slash (var "path" vars))%string (re_paths e), re_popts e with
                     | Some p, Some o => Ops (k p o) | _, _ => Refuse end in
  match h with
  | RId => Ops [("Cluster.ID", [])]
  | RVersion => Ops [("Cluster.Version", [])]
  | RPeers => Ops [("Cluster.Peers", [])]
  | RPeerAdd => match re_body e with PidOk p => Ops [("Cluster.PeerAdd", [p])] | _ => Refuse end
  | RPeerRemove => match look (var "peer" vars) (re_peers e) with Some p => Ops [("Cluster.PeerRemove", [p])] | None => Refuse end
  | RAdd => if N.eqb (re_mp e) 0 then Refuse else
            match re_addp e with
            | Some (o, _) => Ops [("Cluster.BlockAllocate", []); ("IPFSConnector.BlockPut", []); ("Cluster.Pin", [re_root e; o; "-1"])]
            | None => Refuse end
  | RAllocations => if re_pfilter_ok e then Ops [("Cluster.Pins", [])] else Refuse
  | RAllocation => cid_opts (fun c _ => [("Cluster.PinGet", [c])])
  | RStatusAll => match re_tfilter e with Some f => Ops [(loc "Cluster.StatusAllLocal" "Cluster.StatusAll", [f])] | None => Refuse end
  | RRecover => cid_opts (fun c _ => [(loc "Cluster.RecoverLocal" "Cluster.Recover", [c])])
  | RRecoverAll => Ops [(loc "Cluster.RecoverAllLocal" "Cluster.RecoverAll", [])]
  | RStatus => cid_opts (fun c _ => [(loc "Cluster.StatusLocal" "Cluster.Status", [c])])
  | RPin => cid_opts (fun c o => [("Cluster.Pin", [c; o; "-1"])])
  | RUnpin => cid_opts (fun c o => [("Cluster.Unpin", [c; o; "-1"])])
  | RPinPath => path_opts (fun p o => [("Cluster.PinPath", [p; o])])
  | RUnpinPath => path_opts (fun p o => [("Cluster.UnpinPath", [p; o])])
  | RRepoGC => Ops [(loc "Cluster.RepoGCLocal" "Cluster.RepoGC", [])]
  | RGraph => Ops [("Cluster.ConnectGraph", [])]
  | RAlerts => Ops [("Cluster.Alerts", [])]
  | RMetrics => Ops [("PeerMonitor.LatestMetrics", [var "name" vars])]
  | RMetricNames => Ops [("PeerMonitor.MetricNames", [])]
  | RUnknown => Refuse
  end.

Definition ok_calls (cs : list (string * list string)) : list rcall := map (fun c => (fst c, snd c, false)) cs.
Definition is4xx (s : N) : bool := (400 <=? s)%N && (s <? 500)%N.

(* is l a prefix of the expected operations, every call but possibly the last one successful *)
Fixpoint prefix_ops (obs : list rcall) (exp : list (string * list string)) : bool :=
  match obs, exp with
  | [], _ => true
  | (m, a, f) :: r, (m', a') :: r' => String.eqb m m' && list_eqb String.eqb a a' && (if f then is_nil r else prefix_ops r r')
  | _ :: _, [] => false
  end.

Definition spec_codes_http (rq : rreq) (e : renv) (o : robs) : list N :=
  if negb (authorized e) then
    (if N.eqb (ro_status o) 401 && is_nil (ro_calls o) && (ro_ndocs o <=? 1)%N then [] else [20%N])
  else if rr_preflight rq || re_redirect e then
    (if is_nil (ro_calls o) then [] else [22%N])                 (* CORS pre-flight / non-canonical path: never a cluster call *)
  else
    let failed := any_failed (ro_calls o) in
    let st := ro_status o in
    let doc_ok := (ro_ndocs o <=? 1)%N && (if N.eqb st 200 then N.eqb (ro_ndocs o) 1 else true) in
    match resolve true route_spec (rr_meth rq) (segments (rr_path rq)) false with
    | M404 | M405 => (if is4xx st && is_nil (ro_calls o) then [] else [22%N]) ++ (if doc_ok then [] else [23%N])
    | MRedirect => if is_nil (ro_calls o) then [] else [22%N]    (* StrictSlash: 301 (router behaviour), never a cluster call *)
    | MFull h vars =>
        match spec_expect h vars (rr_query rq) e with
        | Refuse => (if is4xx st && is_nil (ro_calls o) then [] else [22%N]) ++ (if doc_ok then [] else [23%N])
        | Ops exp =>
            let stream := match h, re_addp e with RAdd, Some (_, true) => true | _, _ => false end in
            let answered_error := (400 <=? st)%N || (stream && ro_serr o) in
            (* a 4xx with nothing having failed in the cluster means "refused": then nothing may have been done *)
            (if is4xx st && negb failed && negb (is_nil (ro_calls o)) then [21%N] else [])
            ++ (if answered_error
                then (if prefix_ops (ro_calls o) exp then [] else [22%N])
                else (if list_eqb rcall_eqb (ro_calls o) (ok_calls exp) then [] else [22%N]))
            (* a well-formed request is not refused: an error answer needs a failing cluster call (or an importer failure for /add) *)
            ++ (if answered_error && negb failed && negb (match h with RAdd => negb (N.eqb (re_mp e) 1) || negb (re_imp_ok e) | _ => false end)
                then [if is4xx st then 22%N else 24%N] else [])
            ++ (if stream && negb (is4xx st) then [] else if doc_ok then [] else [23%N])
        end
    end.

(* ---- the client library ---- *)
Definition client_ops : list (string * (string * string)) := [   (* call -> (RPC, RPC when local) *)
  ("ID", ("Cluster.ID", "Cluster.ID")); ("Version", ("Cluster.Version", "Cluster.Version")); ("Peers", ("Cluster.Peers", "Cluster.Peers"));
  ("PeerAdd", ("Cluster.PeerAdd", "Cluster.PeerAdd")); ("PeerRm", ("Cluster.PeerRemove", "Cluster.PeerRemove"));
  ("Pin", ("Cluster.Pin", "Cluster.Pin")); ("Unpin", ("Cluster.Unpin", "Cluster.Unpin"));
  ("PinPath", ("Cluster.PinPath", "Cluster.PinPath")); ("UnpinPath", ("Cluster.UnpinPath", "Cluster.UnpinPath"));
  ("Allocations", ("Cluster.Pins", "Cluster.Pins")); ("Allocation", ("Cluster.PinGet", "Cluster.PinGet"));
  ("Status", ("Cluster.Status", "Cluster.StatusLocal")); ("StatusAll", ("Cluster.StatusAll", "Cluster.StatusAllLocal"));
  ("Recover", ("Cluster.Recover", "Cluster.RecoverLocal")); ("RecoverAll", ("Cluster.RecoverAll", "Cluster.RecoverAllLocal"));
  ("Alerts", ("Cluster.Alerts", "Cluster.Alerts")); ("GetConnectGraph", ("Cluster.ConnectGraph", "Cluster.ConnectGraph"));
  ("Metrics", ("PeerMonitor.LatestMetrics", "PeerMonitor.LatestMetrics")); ("MetricNames", ("PeerMonitor.MetricNames", "PeerMonitor.MetricNames"));
  ("RepoGC", ("Cluster.RepoGC", "Cluster.RepoGCLocal"))].

Definition client_expected (c : ccall) : option (list (string * list string)) :=
  (* arguments the library's own parsers reject (an unparsable IPFS path, a filter without any defined status) *)
  if (String.eqb (cc_name c) "StatusAll" && match cc_filter c with None => true | _ => false end)
     || (str_in (cc_name c) ["PinPath"; "UnpinPath"] && match cc_path c with None => true | _ => false end) then None else
  match cc_given c with
  | None => None
  | Some g =>
      if str_in (cc_name c) ["Add"; "AddMultiFile"] then Some [("Cluster.BlockAllocate", []); ("IPFSConnector.BlockPut", []); ("Cluster.Pin", g)]
      else match sget (cc_name c) client_ops with
           | Some (glob, loc) => Some [(if cc_local c then loc else glob, g)]
           | None => Some [("unknown client call", g)]
           end
  end.

Definition cauthorized (e : cenv) : bool :=
  match ce_creds e with
  | None => true
  | Some creds => match ce_basic e with None => false | Some (u, p) => existsb (fun c => String.eqb (fst c) u && String.eqb (snd c) p) creds end
  end.

Definition spec_codes_client (c : ccall) (e : cenv) (o : cobs) : list N :=
  if negb (cauthorized e) then (if (Z.eqb (co_err o) 401 || co_refused o) && is_nil (co_calls o) then [] else [20%N])
  else match client_expected c with
  | None => if is_nil (co_calls o) && negb (Z.eqb (co_err o) 0) then [] else [30%N]       (* arguments the library itself refuses *)
  | Some exp =>
      if Z.eqb (co_err o) 0 then
        (if list_eqb rcall_eqb (co_calls o) (ok_calls exp) then [] else [30%N])
        ++ (if String.eqb (co_ret o) (ce_answer e) then [] else [31%N])
      else
        (* valid arguments: an error must come from a failing cluster call, which it reports after sending exactly the right calls *)
        (if any_failed (co_calls o) && prefix_ops (co_calls o) exp then [] else [30%N])
  end.

(* ---- model = implementation ---- *)
Definition optN_ok (m : option N) (o : N) : bool := match m with Some x => N.eqb x o | None => true end.

Definition model_eqb_http (rq : rreq) (e : renv) (o : robs) : bool :=
  let r := rest_run rq e in
  list_eqb rcall_eqb (rs_calls r) (ro_calls o) && N.eqb (rs_status r) (ro_status o)
  && optN_ok (rs_ndocs r) (ro_ndocs o) && Bool.eqb (rs_serr r) (ro_serr o).

Definition model_eqb_client (c : ccall) (e : cenv) (o : cobs) : bool :=
  let r := client_run c e in
  list_eqb rcall_eqb (cr_calls r) (co_calls o)
  && Bool.eqb (cr_refused r) (co_refused o)
  && (if cr_refused r then true else Z.eqb (cr_err r) (co_err o))
  && match cr_ret r with Some s => String.eqb s (co_ret o) | None => true end.

Inductive ccase := CHttp (rq : rreq) (e : renv) (cmp : bool) (o : robs) | CClient (c : ccall) (e : cenv) (o : cobs).
Definition case := (N * ccase)%type.

Definition check_case (c : case) : list (N * N * N) :=
  let '(id, cc) := c in
  match cc with
  | CHttp rq e cmp o =>
      (if cmp && negb (model_eqb_http rq e o) then [(id, 1%N, 0%N)] else []) ++ map (fun code => (id, code, 0%N)) (spec_codes_http rq e o)
  | CClient cl e o =>
      (if model_eqb_client cl e o then [] else [(id, 1%N, 0%N)]) ++ map (fun code => (id, code, 0%N)) (spec_codes_client cl e o)
  end.

Definition failing (cs : list case) : list (N * N * N) := flat_map check_case cs.
Definition spec_okb_http rq e o := is_nil (spec_codes_http rq e o).
Definition spec_okb_client c e o := is_nil (spec_codes_client c e o).
