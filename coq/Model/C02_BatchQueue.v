(* C02 layer A, the queue in time — an observer on top of the timed machine of Model/C02_BatchTime.v that remembers WHEN
   every operation was accepted (LogPin/LogUnpin returned nil), so that the age bound can be counted from that instant and
   not from the instant the worker took the operation. Definitions only. The observer only reads the machine: it never
   changes a step.

   Ghosts: the clock at acceptance of every queued operation (parallel to `queue`), of every operation of the pending
   batch, and the clock at the last instant the worker came back to its select or entered a size commit (`wsince`).

   Worker timeliness (assumptions on the Go scheduler and on the datastore, next to `timely_st`):
     * at the select with an operation waiting, the worker takes it within `lt` (a timer-branch commit that slips in
       between is part of `lt`);
     * a size commit (from the Add/Rm that reaches MaxBatchSize until the worker is back at the select) takes at most `lc`. *)
From V Require Import Base.Common Model.C02_Batch Model.C02_BatchTime.
Open Scope N_scope.

Record qinfo := mk_qi { qtimes : list N; patimes : list N; wsince : N }.
Definition qinit : qinfo := mk_qi [] [] 0.

Definition is_pcommit (p : wpc) : bool := match p with PCommit => true | PIdle => false end.

Definition qstep {A} (c : tcfg) (sq : tbst A * qinfo) (te : cev A) : tbst A * qinfo :=
  let '(s, q) := sq in
  let s' := tstep c s te in
  let b := core s in
  let b' := core s' in
  let t := now (ti s) in
  let enq := Nat.ltb (length (queue b)) (length (queue b')) in       (* accepted: appended to batchItemCh *)
  let took := Nat.ltb (length (queue b')) (length (queue b)) in      (* the worker received from batchItemCh *)
  let a := hd t (qtimes q) in
  let q1 := if enq then qtimes q ++ [t] else if took then tl (qtimes q) else qtimes q in
  let pa := match pend b' with
            | [] => []
            | _ => if took && Nat.ltb (length (pend b)) (length (pend b')) then patimes q ++ [a] else patimes q
            end in
  let w := if took || (is_pcommit (pc b) && negb (is_pcommit (pc b'))) then t else wsince q in
  (s', mk_qi q1 pa w).

Definition qrun {A} (c : tcfg) (tes : list (cev A)) : tbst A * qinfo := fold_left (qstep c) tes (tinit, qinit).

(* the instant from which the worker is (or will be) back at its select *)
Definition wfree {A} (lc : N) (sq : tbst A * qinfo) : N :=
  if is_pcommit (pc (core (fst sq))) then wsince (snd sq) + lc else wsince (snd sq).

Definition timely_q {A} (lt lc : N) (sq : tbst A * qinfo) : bool :=
  let b := core (fst sq) in
  let n := now (ti (fst sq)) in
  (if is_pcommit (pc b) then n <=? wsince (snd sq) + lc
   else match qtimes (snd sq) with
        | [] => true
        | a0 :: _ => n <=? N.max (wsince (snd sq)) a0 + lt
        end).

(* every state of the run is timely: runtime (lf), worker reading the timer (lw), worker taking (lt), size commit (lc) *)
Fixpoint timely_all {A} (lf lw lt lc : N) (c : tcfg) (sq : tbst A * qinfo) (tes : list (cev A)) : bool :=
  timely_st lf lw (fst sq) && timely_q lt lc sq &&
  match tes with [] => true | e :: r => timely_all lf lw lt lc c (qstep c sq e) r end.

(* the longest an accepted operation waits in the queue, and the longest it stays uncommitted *)
Definition queue_wait_limit (c : tcfg) (lt lc : N) : N := qcap (tc c) * (lt + lc).
Definition accept_to_commit_limit (c : tcfg) (lf lw lt lc : N) : N := queue_wait_limit c lt lc + maxage c + lf + lw.
