(* C15 — evaluation of harness cases: model = implementation (code 1) and the boolean form of the property
   applied to what the implementation did (codes >= 10). *)
From Coq Require Import String List ZArith Bool NArith.
From V Require Import Model.C15_Config Model.C15_Valid Gen.ConfigSchemas.
Import ListNotations.
Open Scope string_scope.

Inductive mode := MLoad | MDefault | MEnv (env : json).
(* what the implementation did: refused, or accepted with: the flattened ToJSON output, members read directly from the
   Config struct, Validate() == nil, ToJSON(LoadJSON(ToJSON(cfg))) == ToJSON(cfg) member by member, a secret found in ToDisplayJSON *)
Inductive obs := ObsErr | ObsOk (saved direct : json) (valid rt leak : bool).
Definition case := (N * (string * mode * json * obs))%type.

Fixpoint find_schema (n : string) (l : list schema) : option schema :=
  match l with [] => None | sc :: r => if String.eqb n (sname sc) then Some sc else find_schema n r end.

Definition oracle_of (j : json) (n : string) : bool :=
  match jget ("=" ++ n) j with Some (VB b) => b | _ => true end.

(* null and [] are the same list *)
Definition veq (k : kind) (a b : val) : bool :=
  match k with
  | KList | KMap => (match a, b with (VNone | VL []), (VNone | VL []) => true | _, _ => val_eqb a b end)
  | _ => val_eqb a b end.

Definition saved_eq (S : schema) (skip_hidden : bool) (m o : json) : bool :=
  forallb (fun f => (skip_hidden && fhidden f) || veq (fkind f) (jval (fname f) m) (jval (fname f) o)) (sfields S).

Definition direct_eq (S : schema) (c : cfg) (d : json) : bool :=
  forallb (fun '(n, v) => val_eqb (cget S c n) v) d.

Definition model_run (S : schema) (V : validator) (m : mode) (j : json) : option cfg :=
  let orc := oracle_of j in
  if jhas "=notobject" j then None else   (* the bytes are not a JSON object: json.Unmarshal fails *)
  match m with
  | MLoad => load S V orc j
  | MDefault => if V orc (cget S (defaults S)) then Some (defaults S) else None
  | MEnv env => match load S V orc j with Some c0 => apply_env S V orc c0 env | None => None end
  end.

Definition model_eqb (S : schema) (V : validator) (m : mode) (j : json) (o : obs) : bool :=
  match model_run S V m j, o with
  | None, ObsErr => true
  | Some c, ObsOk saved direct _ _ _ =>
      saved_eq S (match m with MDefault => true | _ => false end) (save S c) saved
      && (match m with MDefault => true | _ => direct_eq S c direct end)
  | _, _ => false end.

(* ---- the property on the observation ---- *)
(* the value of member f in the observed configuration *)
Definition obs_member (f : field) (saved direct : json) : val :=
  match jget (fname f) direct with
  | Some d => d
  | None => match jget (fname f) saved with
            | Some VNone | None => (match fsave f with SOmitIfDefault d => d | _ => zero_of (fkind f) end)
            | Some s => s end
  end.

Definition dropped (S : schema) (j : json) (saved direct : json) : list field :=
  filter (fun f => is_setting f j && negb (veq (fkind f) (canon_in (jval (fname f) j)) (obs_member f saved direct))) (sfields S).

(* recognisers of known shapes (tags) *)
Definition is_merge (r : lrule) : bool := match r with LMergeNonZero => true | _ => false end.
Definition tag_of_dropped (S : schema) (j : json) (f : field) : N :=
  if String.eqb (sname S) "raft" && String.eqb (fname f) "datastore_namespace" then 1%N
  else if is_merge (fload f) && is_boolk (fkind f) && val_eqb (jval (fname f) j) (VB false) then 2%N
  else 0%N.

Definition spec_fails (S : schema) (m : mode) (j : json) (o : obs) : list (N * N) :=
  match o with
  | ObsErr => match m with MDefault => [(14%N, 0%N)] | _ => [] end
  | ObsOk saved direct valid rt leak =>
      (if valid then [] else [(match m with MDefault => 14%N | _ => 10%N end, 0%N)])
      ++ (if rt then [] else [(11%N, 0%N)])
      ++ (if leak then [] else [])
      ++ (if leak then [(12%N, 0%N)] else [])
      ++ (match m with
          | MLoad => if wf_doc S j then map (fun f => (13%N, tag_of_dropped S j f)) (dropped S j saved direct) else []
          | _ => [] end)
  end%list.

Definition check_case (c : case) : list (N * N * N) :=
  let '(id, (sn, m, j, o)) := c in
  match find_schema sn all_schemas with
  | None => [(id, 1%N, 0%N)]
  | Some sc => let S := sc in
      let V := validator_of sn in
      ((if model_eqb S V m j o then [] else [(id, 1%N, 0%N)])
       ++ map (fun '(code, tag) => (id, code, tag)) (spec_fails S m j o))%list
  end.

Definition failing (cs : list case) : list (N * N * N) := flat_map check_case cs.

(* the Manager with all sections registered: per section (present in the file, loads on its own [defaults when absent,
   then the environment]); observed: the Manager accepted, every section's saved form equals the one it saves on its own
   (in memory, in the written file, and after loading the written file again), a secret occurs in the displayable form *)
Definition mcase := (N * (list (bool * bool) * bool * bool * bool))%type.
Definition mcheck (c : mcase) : list (N * N * N) :=
  let '(id, (secs, ok, saved_eq, leak)) := c in
  ((if Bool.eqb ok (forallb snd secs) then [] else [(id, 1%N, 0%N)])
   ++ (if ok && negb saved_eq then [(id, 11%N, 0%N)] else [])
   ++ (if leak then [(id, 12%N, 0%N)] else []))%list.
Definition mfailing (cs : list mcase) : list (N * N * N) := flat_map mcheck cs.
