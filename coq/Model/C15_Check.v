(* C15 — evaluation of harness cases: model = implementation (code 1) and the boolean form of the property
   applied to what the implementation did (codes >= 10). *)
From Coq Require Import String Ascii List ZArith Bool NArith.
From V Require Import Model.C15_Config Model.C15_Valid Model.C15_Manager Gen.ConfigSchemas.
Import ListNotations.
Open Scope string_scope.

Inductive mode := MLoad | MDefault | MEnv (env : json).
(* what the implementation did: refused, or accepted with: the flattened ToJSON output, members read directly from the
   Config struct, Validate() == nil, ToJSON(LoadJSON(ToJSON(cfg))) == ToJSON(cfg) member by member, a secret found in ToDisplayJSON *)
Inductive obs := ObsErr | ObsOk (saved direct : json) (valid rt leak : bool).
Definition case := (N * (string * mode * json * obs))%type.

Fixpoint find_schema (n : string) (l : list schema) : option schema :=
  match l with [] => None | sc :: r => if String.eqb n (sname sc) then Some sc else find_schema n r end.

Definition oracle_of (j : json) (n : string) : bool :=
  match jget ("=" ++ n) j with Some (VB b) => b | _ => true end.

(* null and [] are the same list *)
Definition veq (k : kind) (a b : val) : bool :=
  match k with
  | KList | KMap => (match a, b with (VNone | VL []), (VNone | VL []) => true | _, _ => val_eqb a b end)
  | _ => val_eqb a b end.

Definition saved_eq (S : schema) (skip_hidden : bool) (m o : json) : bool :=
  forallb (fun f => (skip_hidden && fhidden f) || veq (fkind f) (jval (fname f) m) (jval (fname f) o)) (sfields S).

Definition direct_eq (S : schema) (c : cfg) (d : json) : bool :=
  forallb (fun '(n, v) => val_eqb (cget S c n) v) d.

Definition model_run (S : schema) (V : validator) (m : mode) (j : json) : option cfg :=
  let orc := oracle_of j in
  if jhas "=notobject" j then None else   (* the bytes are not a JSON object: json.Unmarshal fails *)
  match m with
  | MLoad => load S V orc j
  | MDefault => if V orc (cget S (defaults S)) then Some (defaults S) else None
  | MEnv env => match load S V orc j with Some c0 => apply_env S V orc c0 env | None => None end
  end.

Definition model_eqb (S : schema) (V : validator) (m : mode) (j : json) (o : obs) : bool :=
  match model_run S V m j, o with
  | None, ObsErr => true
  | Some c, ObsOk saved direct _ _ _ =>
      saved_eq S (match m with MDefault => true | _ => false end) (save S c) saved
      && (match m with MDefault => true | _ => direct_eq S c direct end)
  | _, _ => false end.

(* ---- the property on the observation ---- *)
(* the value of member f in the observed configuration *)
Definition obs_member (f : field) (saved direct : json) : val :=
  match jget (fname f) direct with
  | Some d => d
  | None => match jget (fname f) saved with
            | Some VNone | None => (match fsave f with SOmitIfDefault d => d | _ => zero_of (fkind f) end)
            | Some s => s end
  end.

Definition dropped (S : schema) (j : json) (saved direct : json) : list field :=
  filter (fun f => is_setting f j && negb (veq (fkind f) (canon_in (jval (fname f) j)) (obs_member f saved direct))) (sfields S).

(* recognisers of known shapes (tags) *)
Definition is_merge (r : lrule) : bool := match r with LMergeNonZero => true | _ => false end.
Definition tag_of_dropped (S : schema) (j : json) (f : field) : N :=
  if String.eqb (sname S) "raft" && String.eqb (fname f) "datastore_namespace" then 1%N
  else if is_merge (fload f) && is_boolk (fkind f) && val_eqb (jval (fname f) j) (VB false) then 2%N
  else 0%N.

Definition spec_fails (S : schema) (m : mode) (j : json) (o : obs) : list (N * N) :=
  match o with
  | ObsErr => match m with MDefault => [(14%N, 0%N)] | _ => [] end
  | ObsOk saved direct valid rt leak =>
      (if valid then [] else [(match m with MDefault => 14%N | _ => 10%N end, 0%N)])
      ++ (if rt then [] else [(11%N, 0%N)])
      ++ (if leak then [] else [])
      ++ (if leak then [(12%N, 0%N)] else [])
      ++ (match m with
          | MLoad => if wf_doc S j then map (fun f => (13%N, tag_of_dropped S j f)) (dropped S j saved direct) else []
          | _ => [] end)
  end%list.

Definition check_case (c : case) : list (N * N * N) :=
  let '(id, (sn, m, j, o)) := c in
  match find_schema sn all_schemas with
  | None => [(id, 1%N, 0%N)]
  | Some sc => let S := sc in
      let V := validator_of sn in
      ((if model_eqb S V m j o then [] else [(id, 1%N, 0%N)])
       ++ map (fun '(code, tag) => (id, code, tag)) (spec_fails S m j o))%list
  end.

Definition failing (cs : list case) : list (N * N * N) := flat_map check_case cs.

(* ------------------------------------------------------------------------------------------------
   The Manager (Model/C15_Manager.v) with any subset of the components registered.
   Input of a case: the mode (0 LoadJSON, 1 Default, 2 LoadJSONFromFile + SaveJSON); whether the bytes fit jsonConfig;
   one entry per section key that is registered or stands in the file: (key, registered, status in the file:
   0 absent / 1 null / 2 object / 3 not an object, outcome of the real component on that section on its own
   [defaults when absent or null; the cluster component stays as it was; then the environment]).
   Keys: 0 = the cluster section; 1..13 the other real components; 100.. component names nobody knows inside a section
   type the Manager knows; 200.. members of unknown top-level names.
   Observed: the Manager accepted; Manager.Validate() of the accepted configuration; the saved file, per key: (present, null, equal to what the component saves on its
   own, equal to the raw input); the saved file loads again (same registered set) into components that save the same;
   the displayable form: per key in it, for every member named like a secret at any depth: does it show the marker;
   the planted secrets found in the bytes of the displayable form. *)
Definition mentry := (N * bool * N * bool)%type.
Definition msaved := (N * (bool * bool * bool * bool))%type.
Definition mdisp := (N * list bool)%type.
Definition mcase := (N * (N * bool * list mentry * bool * bool * list msaved * bool * option (list mdisp) * list N))%type.

Definition kname (n : N) : string := String (Ascii.ascii_of_N n) EmptyString.
Definition kk (n : N) : skey :=
  if N.eqb n 0 then cluster_key else if N.ltb n 200 then ("api", kname n) else ("zz", kname n).

(* a component of which only the outcome on its own is known *)
Definition own_doc : json := [("=own", VB true)].
Definition abs_cif (ok : bool) : cif :=
  mkCif (fun _ => if ok then Some [] else None) [] (fun _ => ok) (fun _ => own_doc) (fun _ => []).
Definition e_key (e : mentry) : N := let '(k, _, _, _) := e in k.
Definition e_reg (e : mentry) : bool := let '(_, r, _, _) := e in r.
Definition e_status (e : mentry) : N := let '(_, _, s, _) := e in s.
Definition e_ok (e : mentry) : bool := let '(_, _, _, o) := e in o.
Definition mreg (es : list mentry) : list comp := map (fun e => mkComp (kk (e_key e)) (abs_cif (e_ok e))) (filter e_reg es).
Definition in_doc (k : N) : json := [("=in", VZ (Z.of_N k))].
Definition mfile (es : list mentry) : file :=
  flat_map (fun e => match e_status e with
                     | 0%N => []
                     | 1%N => [(kk (e_key e), SNull)]
                     | 3%N => [(kk (e_key e), SJunk)]
                     | _ => [(kk (e_key e), SDoc (in_doc (e_key e)))] end) es.

Definition find_saved (k : N) (l : list msaved) : bool * bool * bool * bool :=
  match find (fun x => N.eqb (fst x) k) l with Some (_, o) => o | None => (false, false, false, false) end.
Definition is_own (j : json) : bool := match j with [(n, _)] => String.eqb n "=own" | _ => false end.
(* the model's saved file and the observed one agree at key k *)
Definition saved_agree (f' : file) (obs : list msaved) (k : N) : bool :=
  let '(present, null, eq_own, eq_in) := find_saved k obs in
  match fget (kk k) f' with
  | None => negb present
  | Some SNull => present && null
  | Some SJunk => present && eq_in
  | Some (SDoc j) => present && (if is_own j then eq_own else eq_in) end.
Definition memN (x : N) (l : list N) : bool := existsb (N.eqb x) l.
Definition same_keys (a b : list N) : bool := forallb (fun x => memN x b) a && forallb (fun x => memN x a) b.

Definition mmodel_eqb (c : mcase) : bool :=
  let '(_, (mode, wf, es, ok, _, saved, _, disp, _)) := c in
  let reg := mreg es in
  let m0 := mkMgr (map (fun _ => []) reg) None in
  let r := match mode with
           | 1%N => let m := mgr_default reg m0 in if mgr_valid reg m then Some m else None
           | _ => mgr_load reg m0 (if wf then Some (mfile es) else None) end in
  (* the displayable form shows the registered components, whatever state they are in *)
  (match disp with
   | Some dl => same_keys (map e_key (filter e_reg es)) (map fst dl)
   | None => true end)
  && match r with
     | None => negb ok
     | Some m =>
         ok && match mgr_save reg m with
               | None => false
               | Some f' => forallb (saved_agree f' saved) (map e_key es ++ map fst saved) end
     end.

(* the property on the implementation's own output *)
Definition unreg_kept (saved : list msaved) (e : mentry) : bool :=
  e_reg e || N.eqb (e_status e) 0 || negb (N.ltb (e_key e) 200) ||
  (let '(present, null, _, eq_in) := find_saved (e_key e) saved in
   present && (if N.eqb (e_status e) 1 then null else eq_in)).
(* a section that stands in the file and that its registered component refuses on its own: the Manager must not accept *)
Definition section_refused_ok (e : mentry) : bool :=
  negb (e_reg e) || e_ok e || N.eqb (e_status e) 0 || N.eqb (e_status e) 1.
(* the observed displayable form as a file of the model: a member named like a secret that does not show the marker is
   rendered as such, so that the same boolean the theorem manager_display_hidesb is about is evaluated on it *)
Definition disp_file (dl : list mdisp) : file :=
  map (fun '(k, flags) => (kk k, SDoc (map (fun b : bool => ("secret", if b then hidden_marker else VS "=shown")) flags))) dl.

Definition mcheck (c : mcase) : list (N * N * N) :=
  let '(id, (mode, wf, es, ok, valid, saved, reload, disp, leaks)) := c in
  ((if mmodel_eqb c then [] else [(id, 1%N, 0%N)])
   ++ (if ok && negb valid then [(id, 10%N, 0%N)] else [])
   ++ (if ok && negb (forallb section_refused_ok es) then [(id, 17%N, 0%N)] else [])
   ++ (if ok && negb reload then [(id, 11%N, 0%N)] else [])
   ++ (match saved with   (* [] = no saved file was produced (reported by 11) *)
       | [] => []
       | _ => if ok && negb (forallb (unreg_kept saved) es) then [(id, 15%N, 0%N)] else [] end)
   ++ (match leaks with [] => [] | _ => [(id, 12%N, 0%N)] end)
   ++ (match disp with
       | Some dl => if display_hidesb (disp_file dl) then [] else [(id, 16%N, 0%N)]
       | None => [] end))%list.
Definition mfailing (cs : list mcase) : list (N * N * N) := flat_map mcheck cs.
