(* C13 — correspondence check of the importer on file trees (Model/C13_Tree.v): every node the real Adder handed to
   DAGService.Add, in order, against the model (code 1), and the content clause on the OBSERVED DAG (codes 40..42).
   Observation (harness/adder_sharding/c13_tree_test.go): `TB id isdir links dlen data bsz`; links = (name, number of the target's
   CID, recorded size: UnixFS blocksize for a file node, dag-pb Tsize for a directory link — the Tsize is not compared).
   Code 1: the walk phase is compared block by block; the flush phases are compared as sets with the same number of emissions
   (go-mfs syncs its cache of sub-directories in Go map order); the returned root is the model's root and is the last block. *)
From V Require Import Base.Common Model.C13_Importer Model.C13_ShapeCheck Model.C13_Tree.
From Coq Require Import FSets.FMapPositive.
Open Scope N_scope.

Inductive tblock := TB (id : N) (isdir : bool) (links : list (name * N * N)) (dlen : N) (data : bytes) (bsz : N).
Record tinput := mk_tinput { t_layout : N; t_ml : N; t_k : N; t_wrap : bool; t_hidden : bool; t_top : name; t_mfs : name; t_tree : ftree }.
Definition tcase := (N * (tinput * (list tblock * N) * list N))%type.

Definition tb_id (b : tblock) : N := match b with TB id _ _ _ _ _ => id end.
Definition params_of (i : tinput) : iparams := mk_ip (negb (t_layout i =? 0)) (t_ml i) (t_k i).
Definition run_import (i : tinput) : dnode * list dnode * list dnode :=
  import_tree (params_of i) (t_wrap i) (t_top i) (t_mfs i) (visible (t_hidden i) (t_tree i)).

(* ---- the observed DAG, rebuilt block by block ---- *)
Definition dnode_of_block (m : PositiveMap.t dnode) (b : tblock) : option dnode :=
  match b with
  | TB _ true links _ _ _ =>
      match map_opt (fun l => match PositiveMap.find (pkey (snd (fst l))) m with Some c => Some (fst (fst l), c) | None => None end) links with
      | Some ls => Some (DDir ls)
      | None => None
      end
  | TB _ false [] _ data _ => Some (DFile (Leaf data))
  | TB _ false links _ _ _ =>
      match map_opt (fun l => match PositiveMap.find (pkey (snd (fst l))) m with Some (DFile c) => Some (c, snd l) | _ => None end) links with
      | Some ch => Some (DFile (Node ch))
      | None => None
      end
  end.
Fixpoint trebuild (m : PositiveMap.t dnode) (bs : list tblock) (acc : list dnode) : option (list dnode * PositiveMap.t dnode) :=
  match bs with
  | [] => Some (rev' acc, m)
  | b :: r => match dnode_of_block m b with
              | Some t => trebuild (PositiveMap.add (pkey (tb_id b)) t m) r (t :: acc)
              | None => None
              end
  end.
Definition tobserved (bs : list tblock) := trebuild (PositiveMap.empty dnode) bs [].

Fixpoint dnode_eqb (a b : dnode) : bool :=
  match a, b with
  | DFile x, DFile y => shape_eqb x y
  | DDir l1, DDir l2 =>
      (fix go (l1 l2 : list (name * dnode)) : bool :=
         match l1, l2 with
         | [], [] => true
         | (n, x) :: xs, (m, y) :: ys => name_eqb n m && dnode_eqb x y && go xs ys
         | _, _ => false
         end) l1 l2
  | _, _ => false
  end.
Definition dmem (x : dnode) (l : list dnode) : bool := existsb (dnode_eqb x) l.

Definition model_eqb (i : tinput) (bs : list tblock) (root : N) : bool :=
  match tobserved bs with
  | None => false
  | Some (obs, m) =>
      let '(r, wk, fl) := run_import i in
      let n := length wk in
      list_eqb dnode_eqb wk (firstn n obs)
      && Nat.eqb (length fl) (length (skipn n obs))
      && forallb (fun x => dmem x fl) (skipn n obs) && forallb (fun x => dmem x (skipn n obs)) fl
      && match PositiveMap.find (pkey root) m with Some t => dnode_eqb r t | None => false end
      && match rev' bs with b :: _ => N.eqb (tb_id b) root | [] => false end
  end.

(* ---- the content clause on the observed blocks ---- *)
Definition tb_links (b : tblock) : list (name * N * N) := match b with TB _ _ ls _ _ _ => ls end.
Fixpoint tclosed_from (seen : PositiveMap.t unit) (bs : list tblock) : bool :=
  match bs with
  | [] => true
  | b :: r =>
      forallb (fun l => match PositiveMap.find (pkey (snd (fst l))) seen with Some _ => true | None => false end) (tb_links b)
      && tclosed_from (PositiveMap.add (pkey (tb_id b)) tt seen) r
  end.
(* 40: every link goes to a block handed to the DAG service before; the returned root was handed to it *)
Definition tclosed_okb (bs : list tblock) (root : N) : bool :=
  tclosed_from (PositiveMap.empty unit) bs && existsb (fun b => N.eqb (tb_id b) root) bs.

Definition content_of_block (b : tblock) : tcontent :=
  match b with
  | TB _ true links _ _ _ => TDir (map (fun l => (fst (fst l), snd (fst l))) links)
  | TB _ false [] _ data _ => TLeaf data
  | TB _ false links _ _ _ => TLinks (map (fun l => (snd (fst l), snd l)) links)
  end.
Definition ostore (bs : list tblock) : store :=
  let m := fold_left (fun m b => PositiveMap.add (pkey (tb_id b)) (content_of_block b) m) bs (PositiveMap.empty tcontent) in
  fun x => PositiveMap.find (pkey x) m.

(* the tree as the add sees it: hidden entries filtered, wrapped under the top name when asked *)
Definition seen_tree (i : tinput) : ftree :=
  let t := visible (t_hidden i) (t_tree i) in if t_wrap i then Dir [(t_top i, t)] else t.

(* 41: every file of the tree reads back, byte for byte, from the observed blocks by its path from the returned root *)
Definition tread_back_okb (i : tinput) (bs : list tblock) (root : N) : bool :=
  let st := ostore bs in
  forallb (fun pb => match read_file st (S (length bs)) root (fst pb) with Some d => bytes_eqb d (snd pb) | None => false end)
          (files_of (seen_tree i))
  && forallb (fun b => match b with TB _ _ _ dlen data _ => N.eqb (blen data) dlen end) bs.

(* 42: the links of every directory block are strictly sorted by name, the links of a file block carry no name *)
Fixpoint strictly_sorted (l : list name) : bool :=
  match l with
  | x :: ((y :: _) as r) => name_leb x y && negb (name_eqb x y) && strictly_sorted r
  | _ => true
  end.
Definition tdir_links_okb (bs : list tblock) : bool :=
  forallb (fun b => match b with
                    | TB _ true links _ _ _ => strictly_sorted (map (fun l => fst (fst l)) links)
                    | TB _ false links _ _ _ => forallb (fun l => match fst (fst l) with [] => true | _ => false end) links
                    end) bs.

(* flags (Go side): 45 a block that is neither a raw node, a UnixFS file node nor a basic directory (HAMT shard, symlink);
   46 blocksizes / links mismatch; 47 the add failed or the root is not in the stream; 48 watchdog *)
Definition check_tcase (c : tcase) : list (N * N * N) :=
  let '(id, (i, (bs, root), flags)) := c in
  let f (code : N) (b : bool) := if b then [] else [(id, code, 0)] in
  (if memN 47 flags || memN 48 flags then [] else
     f 1 (model_eqb i bs root) ++ f 40 (tclosed_okb bs root) ++ f 41 (tread_back_okb i bs root) ++ f 42 (tdir_links_okb bs))
  ++ map (fun k => (id, k, 0)) flags.

Definition failing (cs : list tcase) : list (N * N * N) := flat_map check_tcase cs.
