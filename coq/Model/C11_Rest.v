(* C11 — REST API (api/rest/restapi.go) and the bundled client's request construction
   (api/rest/client/methods.go). Executable transcription, definitions only.
   Tables are generated: Gen/RestRoutes.v (routes(), handler chain) and Gen/RestClient.v (client requests).
   Abstract (inputs of the model, DESIGN 1.7): http BasicAuth header parsing (re_basic), mux cleanPath
   (re_redirect), net/url query parsing (rr_query), cid.Decode (re_cids), peer.Decode (re_peers), go-path
   ParsePath (re_paths), PinOptions.FromQuery (re_popts), AddParamsFromQuery (re_addp),
   TrackerStatusFromString and the pin-type filter (re_tfilter, re_pfilter_ok), the JSON body of POST /peers
   (re_body), the multipart reader and the importer (re_mp, re_imp_ok, re_root), every RPC outcome (re_fails). *)
From V Require Import Base.Common Base.C11_Http Gen.RestRoutes Gen.RestClient.
Open Scope string_scope.
Open Scope list_scope.

(* an RPC as seen by the recording service: Service.Method, rendered arguments, failed *)
Definition rcall := (string * list string * bool)%type.

Record rreq := mk_rreq {
  rr_meth : string;
  rr_path : string;              (* decoded URL path *)
  rr_query : qvals;
  rr_preflight : bool            (* OPTIONS carrying Access-Control-Request-Method *)
}.

Inductive bodyo := BodyBad | PidBad | PidOk (p : string).

Record renv := mk_renv {
  re_creds : option (list (string * string));   (* BasicAuthCredentials; None = not configured *)
  re_basic : option (string * string);          (* r.BasicAuth() *)
  re_redirect : bool;                           (* mux cleanPath(path) <> path *)
  re_cids : list (string * option string);
  re_peers : list (string * option string);
  re_paths : list (string * option string);
  re_popts : option string;                     (* PinOptions.FromQuery: rendered options, None = error *)
  re_addp : option (string * bool);             (* AddParamsFromQuery: rendered pin options, stream-channels *)
  re_tfilter : option string;                   (* status filter value; None = rejected *)
  re_pfilter_ok : bool;                         (* pin-type filter <> BadType *)
  re_body : bodyo;
  re_mp : N;                                    (* 0: no multipart reader; 1: readable; 2: unreadable body *)
  re_imp_ok : bool;
  re_root : string;
  re_fails : list (string * N * N)              (* (Service.Method, occurrence, kind) kind 1 = state.ErrNotFound *)
}.

Record rres := mk_rres {
  rs_calls : list rcall;
  rs_status : N;
  rs_ndocs : option N;           (* number of JSON documents in the body; None: not stated (NDJSON /add stream, redirects) *)
  rs_serr : bool                 (* X-Stream-Error trailer *)
}.

(* ---- routing (gorilla/mux, StrictSlash) ---- *)
Inductive rhandler := RId | RVersion | RPeers | RPeerAdd | RPeerRemove | RAdd | RAllocations | RAllocation | RStatusAll
 | RRecover | RRecoverAll | RStatus | RPin | RPinPath | RUnpin | RUnpinPath | RRepoGC | RGraph | RAlerts | RMetrics | RMetricNames | RUnknown.

Definition rhandler_names : list (string * rhandler) := [
  ("idHandler", RId); ("versionHandler", RVersion); ("peerListHandler", RPeers); ("peerAddHandler", RPeerAdd);
  ("peerRemoveHandler", RPeerRemove); ("addHandler", RAdd); ("allocationsHandler", RAllocations); ("allocationHandler", RAllocation);
  ("statusAllHandler", RStatusAll); ("recoverHandler", RRecover); ("recoverAllHandler", RRecoverAll); ("statusHandler", RStatus);
  ("pinHandler", RPin); ("pinPathHandler", RPinPath); ("unpinHandler", RUnpin); ("unpinPathHandler", RUnpinPath);
  ("repoGCHandler", RRepoGC); ("graphHandler", RGraph); ("alertsHandler", RAlerts); ("metricsHandler", RMetrics);
  ("metricNamesHandler", RMetricNames)].
Definition rhandler_of_name (s : string) : rhandler := match sget s rhandler_names with Some h => h | None => RUnknown end.

Definition rroute := (string * list tseg * rhandler)%type.
Definition compile_rest (rs : list (string * string * string * string)) : list rroute :=
  map (fun '(_, m, pat, h) => (m, parse_template pat, rhandler_of_name h)) rs.

Fixpoint ends_empty (l : list string) : bool :=
  match l with [] => false | [x] => String.eqb x "" | _ :: r => ends_empty r end.
Fixpoint drop_last_seg (l : list string) : list string :=
  match l with [] => [] | [x] => [] | x :: r => x :: drop_last_seg r end.

Inductive pmatch := PNo | PExact (vars : list (string * string)) | PSlash.
(* templates never end with '/': with StrictSlash the route regexp also accepts one trailing '/', and a
   request path ending in '/' is answered with a redirect to the path without it *)
Definition path_match (strict : bool) (t : list tseg) (segs : list string) : pmatch :=
  let trailing := ends_empty segs && negb (Nat.eqb (List.length segs) 1) in
  match match_segs t segs with
  | Some v => if strict && trailing then PSlash else PExact v
  | None => if strict && trailing then
              match match_segs t (drop_last_seg segs) with Some _ => PSlash | None => PNo end
            else PNo
  end.

Inductive rmatch := MFull (h : rhandler) (vars : list (string * string)) | MRedirect | M405 | M404.
Fixpoint resolve (strict : bool) (rs : list rroute) (m : string) (segs : list string) (seen : bool) : rmatch :=
  match rs with
  | [] => if seen then M405 else M404
  | (rm, t, h) :: r =>
      match path_match strict t segs with
      | PNo => resolve strict r m segs seen
      | PExact v => if String.eqb m rm then MFull h v else resolve strict r m segs true
      | PSlash => if String.eqb m rm then MRedirect else resolve strict r m segs true
      end
  end.

(* ---- handlers ---- *)
Definition fail_kind (e : renv) (m : string) (k : N) : option N :=
  match find (fun f => String.eqb (fst (fst f)) m && N.eqb (snd (fst f)) k) (re_fails e) with Some f => Some (snd f) | None => None end.
Definition fail_any (e : renv) (m : string) : bool := existsb (fun f => String.eqb (fst (fst f)) m) (re_fails e).

Definition res (cs : list rcall) (st : N) (nd : N) : rres := mk_rres cs st (Some nd) false.
Definition bad400 : rres := res [] 400 1.

(* one RPC then sendResponse(autoStatus, err, resp): any404 = every error is a 404 (allocationHandler),
   nf404 = state.ErrNotFound is a 404 (unpin handlers) *)
Definition rpc1 (e : renv) (m : string) (args : list string) (st_ok nd_ok : N) (nf404 any404 : bool) : rres :=
  match fail_kind e m 0 with
  | None => res [(m, args, false)] st_ok nd_ok
  | Some k => res [(m, args, true)] (if any404 || (nf404 && N.eqb k 1) then 404 else 500) 1
  end.
Definition rpc_plain e m args := rpc1 e m args 200 1 false false.

Definition is_local (q : qvals) : bool := String.eqb (qget "local" q) "true".
Definition var (n : string) (vars : list (string * string)) : string := match sget n vars with Some v => v | None => "" end.
Definition look (k : string) (m : list (string * option string)) : option string := match sget k m with Some (Some v) => Some v | _ => None end.

Fixpoint trim_slash (s : string) : string :=       (* strings.TrimSuffix(s, "/") *)
  match s with
  | EmptyString => EmptyString
  | String a EmptyString => if Ascii.eqb a "/"%char then EmptyString else s
  | String a r => String a (trim_slash r)
  end.

(* parseCidOrError (repaired: returns after answering 400 for an invalid option) *)
Definition with_cid (e : renv) (vars : list (string * string)) (k : string -> string -> rres) : rres :=
  match look (var "hash" vars) (re_cids e) with
  | None => bad400
  | Some c => match re_popts e with None => bad400 | Some o => k c o end
  end.
(* parsePinPathOrError (repaired likewise) *)
Definition with_path (e : renv) (vars : list (string * string)) (k : string -> string -> rres) : rres :=
  let urlpath := ("/" ++ var "keyType" vars ++ "/" ++ trim_slash (var "path" vars))%string in
  match look urlpath (re_paths e) with
  | None => bad400
  | Some p => match re_popts e with None => bad400 | Some o => k p o end
  end.

(* /add through adderutils.AddMultipartHTTPHandler (single DAG service) *)
Definition add_err (stream : bool) (cs : list rcall) : rres :=
  if stream then mk_rres cs 200 None true else mk_rres cs 500 (Some 1%N) false.
Definition h_add (e : renv) : rres :=
  if N.eqb (re_mp e) 0 then bad400
  else match re_addp e with
  | None => bad400
  | Some (o, st) =>
      if negb (N.eqb (re_mp e) 1) || negb (re_imp_ok e) then add_err st []
      else match fail_kind e "Cluster.BlockAllocate" 0 with
      | Some _ => add_err st [("Cluster.BlockAllocate", [], true)]
      | None =>
        if fail_any e "IPFSConnector.BlockPut" then add_err st [("Cluster.BlockAllocate", [], false); ("IPFSConnector.BlockPut", [], true)]
        else
          let pre := [("Cluster.BlockAllocate", [], false); ("IPFSConnector.BlockPut", [], false)] in
          let pin := ("Cluster.Pin", [re_root e; o; "-1"]) in
          match fail_kind e "Cluster.Pin" 0 with
          | Some _ => add_err st (pre ++ [(pin, true)])
          | None => if st then mk_rres (pre ++ [(pin, false)]) 200 None false else mk_rres (pre ++ [(pin, false)]) 200 (Some 1%N) false
          end
      end
  end.

Definition handle (h : rhandler) (vars : list (string * string)) (q : qvals) (e : renv) : rres :=
  match h with
  | RId => rpc_plain e "Cluster.ID" []
  | RVersion => rpc_plain e "Cluster.Version" []
  | RPeers => rpc_plain e "Cluster.Peers" []
  | RPeerAdd => match re_body e with PidOk p => rpc_plain e "Cluster.PeerAdd" [p] | _ => bad400 end
  | RPeerRemove => match look (var "peer" vars) (re_peers e) with
                   | Some p => rpc1 e "Cluster.PeerRemove" [p] 204 0 false false
                   | None => bad400 end
  | RAdd => h_add e
  | RAllocations => if re_pfilter_ok e then rpc_plain e "Cluster.Pins" [] else bad400
  | RAllocation => with_cid e vars (fun c _ => rpc1 e "Cluster.PinGet" [c] 200 1 false true)
  | RStatusAll => match re_tfilter e with
                  | None => bad400
                  | Some f => rpc_plain e (if is_local q then "Cluster.StatusAllLocal" else "Cluster.StatusAll") [f] end
  | RRecover => with_cid e vars (fun c _ => rpc_plain e (if is_local q then "Cluster.RecoverLocal" else "Cluster.Recover") [c])
  | RRecoverAll => rpc_plain e (if is_local q then "Cluster.RecoverAllLocal" else "Cluster.RecoverAll") []
  | RStatus => with_cid e vars (fun c _ => rpc_plain e (if is_local q then "Cluster.StatusLocal" else "Cluster.Status") [c])
  | RPin => with_cid e vars (fun c o => rpc_plain e "Cluster.Pin" [c; o; "-1"])       (* MaxDepth forced to -1 *)
  | RUnpin => with_cid e vars (fun c o => rpc1 e "Cluster.Unpin" [c; o; "-1"] 200 1 true false)
  | RPinPath => with_path e vars (fun p o => rpc_plain e "Cluster.PinPath" [p; o])
  | RUnpinPath => with_path e vars (fun p o => rpc1 e "Cluster.UnpinPath" [p; o] 200 1 true false)
  | RRepoGC => rpc_plain e (if is_local q then "Cluster.RepoGCLocal" else "Cluster.RepoGC") []
  | RGraph => rpc_plain e "Cluster.ConnectGraph" []
  | RAlerts => rpc_plain e "Cluster.Alerts" []
  | RMetrics => rpc_plain e "PeerMonitor.LatestMetrics" [var "name" vars]
  | RMetricNames => rpc_plain e "PeerMonitor.MetricNames" []
  | RUnknown => res [("unknown handler", [], false)] 0 0
  end.

(* basicAuthHandler *)
Definition authorized (e : renv) : bool :=
  match re_creds e with
  | None => true
  | Some creds =>
      match re_basic e with
      | None => false
      | Some (u, p) => existsb (fun c => String.eqb (fst c) u && String.eqb (snd c) p) creds
      end
  end.

Definition rest_run_with (strict : bool) (routes : list rroute) (rq : rreq) (e : renv) : rres :=
  if negb (authorized e) then res [] 401 1                       (* before CORS, before the router *)
  else if rr_preflight rq then res [] 204 0                      (* rs/cors answers pre-flights itself *)
  else if re_redirect e then mk_rres [] 301 None false           (* mux cleanPath *)
  else match resolve strict routes (rr_meth rq) (segments (rr_path rq)) false with
       | M404 => res [] 404 1                                    (* notFoundHandler *)
       | M405 => res [] 405 0
       | MRedirect => mk_rres [] 301 None false
       | MFull h vars => handle h vars (rr_query rq) e
       end.

Definition rest_run (rq : rreq) (e : renv) : rres :=
  let r := rest_run_with rest_strict_slash (compile_rest rest_routes) rq e in
  (* a HEAD request is answered without a body (net/http) *)
  if String.eqb (rr_meth rq) "HEAD" then mk_rres (rs_calls r) (rs_status r) (match rs_ndocs r with Some _ => Some 0%N | None => None end) (rs_serr r) else r.

(* ---- the bundled client (methods.go): which request each call builds ----
   rr_path is the DECODED path the server routes on. Since fix-S27 the client escapes the IPFS path ((&url.URL{Path: p}).EscapedPath())
   and the metric name (url.PathEscape); net/url's unescape on the server is the inverse of both (trusted), so the printed argument
   reaches rr_path unchanged, whatever its characters. CIDs and peer IDs are alphanumeric. *)
Record ccall := mk_ccall {
  cc_name : string;
  cc_local : bool;
  cc_cid : string;                 (* ci.String() *)
  cc_peer : string;                (* peer.Pretty() *)
  cc_path : option string;         (* gopath.ParsePath(p).String(); None: the library refuses the path *)
  cc_mname : string;               (* metric name *)
  cc_filter : option string;       (* filter.String(); None: the library refuses the filter *)
  cc_given : option (list string)  (* the arguments as given, rendered like recorded RPC arguments *)
}.

Record cenv := mk_cenv {
  ce_creds : option (list (string * string));
  ce_basic : option (string * string);
  ce_rt_cid : option string;       (* what the server's parser makes of what the client printed *)
  ce_rt_peer : option string;
  ce_rt_path : option string;
  ce_rt_opts : option string;
  ce_rt_add : option (string * bool);
  ce_rt_filter : option string;
  ce_root : string;
  ce_fails : list (string * N * N);
  ce_answer : string               (* JSON of what the server side answered, as the client should return it *)
}.

(* substitute the arguments for the %s / %t verbs of the path part (before '?') of a format *)
Fixpoint subst_fmt (f : string) (args : list string) : string :=
  match f with
  | String "%"%char (String c r) =>
      if Ascii.eqb c "s"%char || Ascii.eqb c "t"%char then
        match args with a :: args' => (a ++ subst_fmt r args')%string | [] => ("%!MISSING" ++ subst_fmt r [])%string end
      else String "%"%char (String c (subst_fmt r args))
  | String a r => String a (subst_fmt r args)
  | EmptyString => EmptyString
  end.
Definition fmt_path (f : string) : string := match split_on "?"%char (fun x => x) f with p :: _ => p | [] => f end.
Fixpoint contains (needle s : string) : bool :=
  match s with
  | EmptyString => String.eqb needle ""
  | String _ r => String.prefix needle s || contains needle r
  end.

Fixpoint client_lookup (tbl : list (string * string * string)) (fuel : nat) (name : string) : option (string * string) :=
  match fuel with O => None | S fuel' =>
    match find (fun r => String.eqb (fst (fst r)) name) tbl with
    | Some (_, m, f) => if String.eqb m "->" then client_lookup tbl fuel' f else Some (m, f)
    | None => None end end.

Definition client_path_args (c : ccall) : option (list string) :=
  let n := cc_name c in
  if str_in n ["Pin"; "Unpin"; "Allocation"; "Status"; "Recover"] then Some [cc_cid c]
  else if String.eqb n "PeerRm" then Some [cc_peer c]
  else if str_in n ["PinPath"; "UnpinPath"] then match cc_path c with Some p => Some [trim_slash p] | None => None end   (* repaired: trailing '/' dropped *)
  else if String.eqb n "Metrics" then (if String.eqb (cc_mname c) "" then None else Some [cc_mname c])
  else if String.eqb n "StatusAll" then match cc_filter c with Some _ => Some [] | None => None end
  else Some [].

Definition client_request_with (tbl : list (string * string * string)) (c : ccall) : option rreq :=
  match client_lookup tbl 3 (cc_name c), client_path_args c with
  | Some (m, f), Some args =>
      Some (mk_rreq m (subst_fmt (fmt_path f) args)
                    (if contains "local=%t" f then [("local", [if cc_local c then "true" else "false"])] else []) false)
  | _, _ => None
  end.
Definition client_request (c : ccall) : option rreq := client_request_with client_requests c.

Definition renv_of (c : ccall) (e : cenv) : renv :=
  mk_renv (ce_creds e) (ce_basic e) false
    [(cc_cid c, ce_rt_cid e)] [(cc_peer c, ce_rt_peer e)]
    (match cc_path c with Some p => [(trim_slash p, ce_rt_path e)] | None => [] end)
    (ce_rt_opts e) (ce_rt_add e) (ce_rt_filter e) true
    (match ce_rt_peer e with Some p => PidOk p | None => PidBad end)
    1 true (ce_root e) (ce_fails e).

Record cres := mk_cres { cr_calls : list rcall; cr_err : Z; cr_ret : option string; cr_refused : bool }.

Definition client_run (c : ccall) (e : cenv) : cres :=
  match client_request c with
  | None => mk_cres [] (-1) None true
  | Some rq =>
      let r := rest_run rq (renv_of c e) in
      if (400 <=? rs_status r)%N then mk_cres (rs_calls r) (Z.of_N (rs_status r)) None false
      else if rs_serr r then mk_cres (rs_calls r) 500 None false          (* X-Stream-Error trailer of /add *)
      else mk_cres (rs_calls r) 0 (Some (ce_answer e)) false
  end.
