(* C16 — ipfsconn/ipfshttp/ipfshttp.go (Pin, pinProgress, pinUpdate, Unpin, PinLsCid, postCtx,
   checkResponse, pinArgs) and api/types.go (IPFSPinStatus.IsPinned, PinDepth.ToPinMode,
   PinMode.ToPinDepth, PinWithOpts) as executable Gallina, against a scripted IPFS daemon.
   Definitions only.

   TRUSTED BASE of this file: the go-ipfs contract `act` below (read from go-ipfs-pinner v0.1.1
   dspinner.Pin/Unpin/Update and go-ipfs core/commands/pin; go-ipfs-cmds v0.6.0 http emitter):
     pin/ls?arg=c&type=t     answers the entry only when c is pinned with exactly mode t,
                             otherwise an error body ("... is not pinned");
     pin/add recursive=true  makes c recursive (a direct pin is upgraded);
     pin/add recursive=false errors when c is recursive ("already pinned recursively"), else direct;
     pin/rm                  removes a recursive or direct pin; errors with the message
                             "not pinned or pinned indirectly" (ErrNotPinned) when c is not pinned;
     pin/update from to      errors unless `from` is recursive; no-op when from = to; errors when `to`
                             is already recursive; else `to` becomes recursive and `from` is removed
                             only when unpin=true;
     a request the client gives up on (cancel / timeout) and a request answered with an error have
     no effect; an error raised after the first progress object of a streamed answer is sent only
     in the X-Stream-Error trailer and the body ends cleanly (go-ipfs-cmds responseemitter). *)
From V Require Import Base.Common.
Open Scope Z_scope.

Inductive pmode := Rec | Dir.
Definition pmode_eqb (a b : pmode) : bool := match a, b with Rec, Rec | Dir, Dir => true | _, _ => false end.

(* the daemon: explicit pins only, CID index -> mode *)
Definition daemon := list (N * pmode).

(* requests as the daemon receives them (path + query), parsed by the harness *)
Inductive call :=
| CLs (c : N) (t : pmode)                                   (* pin/ls?arg=c&type=t *)
| CAdd (c : N) (recursive : bool) (maxdepth : option Z) (progress : bool)  (* pin/add?arg=c&recursive=..[&max-depth=..]&progress=.. *)
| CUpdate (from to : N) (unpin : bool)                      (* pin/update?arg=from&arg=to&unpin=.. *)
| CRm (c : N)                                               (* pin/rm?arg=c *)
| COther.                                                   (* anything else the harness could not parse into the above *)

Definition optZ_eqb (a b : option Z) : bool :=
  match a, b with Some x, Some y => Z.eqb x y | None, None => true | _, _ => false end.
Definition call_eqb (a b : call) : bool :=
  match a, b with
  | CLs c t, CLs c' t' => N.eqb c c' && pmode_eqb t t'
  | CAdd c r m p, CAdd c' r' m' p' => N.eqb c c' && Bool.eqb r r' && optZ_eqb m m' && Bool.eqb p p'
  | CUpdate f t u, CUpdate f' t' u' => N.eqb f f' && N.eqb t t' && Bool.eqb u u'
  | CRm c, CRm c' => N.eqb c c'
  | COther, COther => true
  | _, _ => false
  end.

Inductive emsg := MNotPinned (* exactly "not pinned or pinned indirectly" *) | MOther.

(* ---- the daemon's contract: effect and answer of one well-behaved request ---- *)
Inductive answer := AOk | AErr (m : emsg).

Definition act (d : daemon) (cl : call) : daemon * answer :=
  match cl with
  | CLs c t => (d, match aget c d with
                   | Some m => if pmode_eqb m t then AOk else AErr MOther
                   | None => AErr MOther end)
  | CAdd c true _ _ => (aput c Rec d, AOk)
  | CAdd c false _ _ => match aget c d with
                        | Some Rec => (d, AErr MOther)
                        | _ => (aput c Dir d, AOk) end
  | CRm c => match aget c d with
             | Some _ => (adel c d, AOk)
             | None => (d, AErr MNotPinned) end
  | CUpdate f t unpin =>
      match aget f d with
      | Some Rec =>
          if N.eqb f t then (d, AOk)
          else match aget t d with
               | Some Rec => (d, AErr MOther)
               | _ => let d1 := aput t Rec d in ((if unpin then adel f d1 else d1), AOk)
               end
      | _ => (d, AErr MOther)
      end
  | COther => (d, AErr MOther)
  end.

(* ---- scripted behaviour of the daemon / transport, one per HTTP call (swarm/connect excluded) ---- *)
Inductive behaviour :=
| BOk (k : N) (slow : bool)   (* follows the contract; pin/add streams k increasing progress objects first
                                 (slow: spaced a quarter of PinTimeout apart, in total longer than PinTimeout) *)
| BErr (m : emsg)             (* non-200 with an IPFS JSON error body carrying message m; no effect *)
| BNonJson                    (* non-200 whose body is not a JSON object; no effect *)
| BDrop (acted : bool)        (* connection dropped without (complete) response, after performing the request or not *)
| BStall                      (* nothing (more) is sent until the client gives up; no effect *)
| BProgStall (k : N)          (* pin/add: k increasing progress objects, then as BStall *)
| BHeartbeat                  (* pin/add: progress objects whose number never increases, until the client gives up *)
| BProgErr (k : N)            (* pin/add: k progress objects, then an error in the X-Stream-Error trailer, body ends cleanly *)
| BBad200.                    (* pin/ls, pin/add: 200 with a body that is not the expected JSON; no effect *)

Definition script := list behaviour.

(* what the client side of one exchange gets to see *)
Inductive reply :=
| PBody            (* 200 and the complete, well-formed answer *)
| PErr (m : emsg)  (* non-200 + JSON error body *)
| PNonJson         (* non-200, no usable error body *)
| PNet             (* transport error *)
| PStall           (* no (further) byte arrives *)
| PBad200          (* 200, body undecodable / without the expected entry *)
| PTrailer.        (* 200, progress objects, clean end of body, X-Stream-Error trailer set *)

Definition is_add (cl : call) : bool := match cl with CAdd _ _ _ _ => true | _ => false end.
Definition is_ls (cl : call) : bool := match cl with CLs _ _ => true | _ => false end.
Definition is_update (cl : call) : bool := match cl with CUpdate _ _ _ => true | _ => false end.
Definition is_rm (cl : call) : bool := match cl with CRm _ => true | _ => false end.

Definition serve (d : daemon) (cl : call) (b : behaviour) : daemon * reply :=
  match b with
  | BOk _ _ => let (d', a) := act d cl in (d', match a with AOk => PBody | AErr m => PErr m end)
  | BErr m => (d, PErr m)
  | BNonJson => (d, PNonJson)
  | BDrop acted => ((if acted then fst (act d cl) else d), PNet)
  | BStall | BProgStall _ | BHeartbeat => (d, PStall)
  | BProgErr _ => (d, if is_add cl then PTrailer else PErr MOther)   (* unary commands fail before any output: plain error body *)
  | BBad200 => (d, if is_add cl || is_ls cl then PBad200 else PNonJson)
  end.

Definition pop (s : script) : behaviour * script :=
  match s with [] => (BOk 0%N false, []) | b :: r => (b, r) end.

(* ---- api/types.go ---- *)
(* PinDepth.ToPinMode: -1 -> recursive, 0 -> direct, anything else -> recursive (with a warning) *)
Definition to_pin_mode (depth : Z) : pmode := if depth =? 0 then Dir else Rec.
(* PinMode.ToPinDepth *)
Definition to_pin_depth (m : pmode) : Z := match m with Rec => -1 | Dir => 0 end.

Inductive ipfs_status := StBug | StError | StDirect | StRecursive | StIndirect | StUnpinned.
Definition status_eqb (a b : ipfs_status) : bool :=
  match a, b with StBug, StBug | StError, StError | StDirect, StDirect | StRecursive, StRecursive
                | StIndirect, StIndirect | StUnpinned, StUnpinned => true | _, _ => false end.
Definition status_of_mode (m : pmode) : ipfs_status := match m with Rec => StRecursive | Dir => StDirect end.

(* IPFSPinStatus.IsPinned(maxDepth) *)
Definition is_pinned (st : ipfs_status) (depth : Z) : bool :=
  if depth <? 0 then status_eqb st StRecursive
  else if depth =? 0 then status_eqb st StDirect
  else status_eqb st StRecursive.

(* the mode the daemon must end up with for a pin of this depth (pinArgs + IsPinned agree on it) *)
Definition mode_of (depth : Z) : pmode := if depth =? 0 then Dir else Rec.

(* ---- the connector ---- *)
Inductive result := ROk | RErr
                  | RHang. (* the call returns only when the caller's own context ends *)
Definition result_eqb (a b : result) : bool :=
  match a, b with ROk, ROk | RErr, RErr | RHang, RHang => true | _, _ => false end.

Definition exchange := (call * reply)%type.

(* PinLsCid: (status, err?) ; postCtx + checkResponse: a JSON error body comes back non-nil with the
   error -> "we could not find the pin": Unpinned, nil.  Everything else that is not a 200 with the
   entry is (Error, err).  A stalled request ends by IPFSRequestTimeout: (Error, err). *)
Definition ls_outcome (t : pmode) (r : reply) : ipfs_status * bool :=
  match r with
  | PBody => (status_of_mode t, false)
  | PErr _ => (StUnpinned, false)
  | PNonJson | PNet | PStall | PBad200 | PTrailer => (StError, true)
  end.

Definition pin_ls_cid (c : N) (depth : Z) (d : daemon) (s : script)
  : (ipfs_status * bool) * daemon * script * list exchange :=
  let t := to_pin_mode depth in
  let cl := CLs c t in
  let d' := fst (serve d cl (fst (pop s))) in
  let r := snd (serve d cl (fst (pop s))) in
  (ls_outcome t r, d', snd (pop s), [(cl, r)]).

(* pinArgs *)
Definition add_call (c : N) (depth : Z) : call :=
  if depth <? 0 then CAdd c true None true
  else if depth =? 0 then CAdd c false None true
  else CAdd c true (Some depth) true.

(* pinProgress + the watchdog goroutine of Pin.  check_trailer = false is the code as first written
   (a clean EOF is "Pinned!"), true is the code after fix-S16 (X-Stream-Error read on EOF). *)
Definition add_outcome (check_trailer : bool) (r : reply) : result :=
  match r with
  | PBody => ROk
  | PErr _ | PNonJson | PNet | PBad200 => RErr
  | PStall => RErr                       (* no progress for PinTimeout: the watchdog cancels, ctx.Err() *)
  | PTrailer => if check_trailer then RErr else ROk
  end.

Definition pin_progress (check_trailer : bool) (c : N) (depth : Z) (d : daemon) (s : script)
  : result * daemon * list exchange :=
  let cl := add_call c depth in
  let d' := fst (serve d cl (fst (pop s))) in
  let r := snd (serve d cl (fst (pop s))) in
  (add_outcome check_trailer r, d', [(cl, r)]).

(* pinUpdate: postCtx under the caller's context only (no timeout of its own) *)
Definition update_outcome (r : reply) : result :=
  match r with
  | PBody => ROk
  | PErr _ | PNonJson | PNet | PBad200 | PTrailer => RErr
  | PStall => RHang
  end.

Definition pin_update (from to : N) (d : daemon) (s : script) : result * daemon * list exchange :=
  let cl := CUpdate from to false in
  let d' := fst (serve d cl (fst (pop s))) in
  let r := snd (serve d cl (fst (pop s))) in
  (update_outcome r, d', [(cl, r)]).

Record pinreq := mk_pin { p_cid : N; p_depth : Z (* MaxDepth *); p_mode : pmode (* PinOptions.Mode *);
                          p_origins : N (* number of origins; swarm/connect is fire-and-forget *);
                          p_update : option N (* PinOptions.PinUpdate *) }.

Definition conn_pin_gen (check_trailer : bool) (p : pinreq) (d : daemon) (s : script)
  : result * daemon * list exchange :=
  let '(st, d1, s1, x1) := pin_ls_cid (p_cid p) (p_depth p) d s in
  if snd st then (RErr, d1, x1)
  else if is_pinned (fst st) (p_depth p) then (ROk, d1, x1)
  else
    let normal d2 s2 x2 :=
      let '(r, d3, x3) := pin_progress check_trailer (p_cid p) (p_depth p) d2 s2 in (r, d3, x2 ++ x3) in
    match p_update p with
    | Some from =>
        (* fromPin := api.PinWithOpts(from, pin.PinOptions): MaxDepth = Mode.ToPinDepth(); the error is dropped *)
        let '(st2, d2, s2, x2) := pin_ls_cid from (to_pin_depth (p_mode p)) d1 s1 in
        if is_pinned (fst st2) (-1) then
          let '(r, d3, x3) := pin_update from (p_cid p) d2 s2 in (r, d3, x1 ++ x2 ++ x3)
        else normal d2 s2 (x1 ++ x2)
    | None => normal d1 s1 x1
    end.

Definition conn_pin := conn_pin_gen true.              (* the code with fix-S16 *)
Definition conn_pin_as_written := conn_pin_gen false.  (* the code at 9309c15 *)

(* Unpin: UnpinDisable; pin/rm under UnpinTimeout; the ErrNotPinned message is success *)
Definition rm_outcome (r : reply) : result :=
  match r with
  | PBody => ROk
  | PErr MNotPinned => ROk
  | PErr MOther | PNonJson | PNet | PBad200 | PTrailer => RErr
  | PStall => RErr                     (* UnpinTimeout *)
  end.

Definition conn_unpin (disabled : bool) (c : N) (d : daemon) (s : script) : result * daemon * list exchange :=
  if disabled then (RErr, d, [])
  else
    let cl := CRm c in
    let d' := fst (serve d cl (fst (pop s))) in
    let r := snd (serve d cl (fst (pop s))) in
    (rm_outcome r, d', [(cl, r)]).

Definition requests (x : list exchange) : list call := map fst x.

(* a failed exchange: the daemon or the transport did not deliver the contract's positive answer *)
Definition is_failure (e : exchange) : bool :=
  match snd e with
  | PBody => false
  | PErr MNotPinned => negb (is_rm (fst e))
  | _ => true
  end.
