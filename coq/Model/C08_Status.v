(* C08 — names of tracker statuses, pin types and pin modes. Mirrors api/types.go: TrackerStatus.String,
   TrackerStatusFromString (and the JSON methods built on them), PinType.String, PinTypeFromString.
   The constant table is regenerated from the source at every run (Gen/C08Status.v). Definitions only. *)
From V Require Import Base.Common Base.C08_Str Gen.C08Status.
Open Scope string_scope.
Open Scope N_scope.

Definition st_table : list (N * string) := tracker_status_table.

(* trackerStatusString[st] *)
Definition st_exact (st : N) : option string := option_map snd (find (fun e => fst e =? st) st_table).

(* the loop of String(): every table entry other than "undefined" all of whose bits are set; [ord] is the order in which
   Go iterates the map this time (a permutation of the table) *)
Definition st_loop_names (ord : list (N * string)) (st : N) : list string :=
  map snd (filter (fun e => negb (fst e =? 0) && (N.land st (fst e) =? fst e)) ord).

Definition status_string (ord : list (N * string)) (st : N) : string :=
  match st_exact st with
  | Some v => v
  | None => join_with "," (st_loop_names ord st)
  end.

(* stringTrackerStatus[v] (the inverted table built in init()) *)
Definition st_value (v : string) : option N := option_map fst (find (fun e => String.eqb (snd e) v) st_table).

Definition mask_of_names (vs : list string) : N :=
  fold_left (fun acc v => match st_value v with Some k => N.lor acc k | None => acc end) vs 0.

(* TrackerStatusFromString *)
Definition status_from_string (s : string) : N := mask_of_names (split_on comma (drop_char " "%char s)).

(* the bits that have a name: 2 .. 4096 *)
Definition st_defined_bits : N := 8190.
Definition st_valid_mask (m : N) : bool := (N.land m 1 =? 0) && (m <? 8192).

(* what the rest of the model relies on; checked on the regenerated table *)
Definition st_table_ok : bool :=
  forallb (fun e => negb (has_char comma (snd e)) && negb (has_char " "%char (snd e)) && negb (String.eqb (snd e) "")
                    && (N.land (fst e) st_defined_bits =? fst e)) st_table
  && snodup (map snd st_table) && nodupb (map fst st_table)
  && forallb (fun k => existsb (fun e => fst e =? 2 ^ k) st_table) (map N.of_nat (seq 1 12)).

(* PinType.String / PinTypeFromString (DataType = 2, MetaType = 4, ClusterDAGType = 8, ShardType = 16, AllType = 30, BadType = 1) *)
Definition pintype_string (t : N) : string :=
  if t =? 2 then "pin" else if t =? 4 then "meta-pin" else if t =? 8 then "clusterdag-pin" else if t =? 16 then "shard-pin"
  else if t =? 30 then "all" else "bad-type".
Definition pintype_from_string (s : string) : N :=
  if String.eqb s "pin" then 2 else if String.eqb s "meta-pin" then 4 else if String.eqb s "clusterdag-pin" then 8
  else if String.eqb s "shard-pin" then 16 else if String.eqb s "all" then 30 else if String.eqb s "" then 30 else 1.
