(* C04 — the guard chains of cluster.go (setupReplicationFactor + isReplicationFactorValid, checkPinType, setupPin,
   pin, Unpin, PinUpdate) as DATA: per function the ordered list of steps
       SGuard cond outcome   `if cond { return ... }`        (first guard that holds decides)
       SEffect cond effects  `if cond { assignments }`       (no return inside)
       SCall f / STail f     `err := f(..); if err != nil { return err }` / `return f(..)`
   over a small vocabulary of the pin, the existing pin, the configuration, the clock and named outcomes of calls the
   model abstracts. Gen/C04Guards.v holds the lists TRANSLATED from the source at every run (tools/gen/c04guards.go);
   `model_guard_table` below is the model's reading, written by hand; Props/C04.v proves them equal
   (c04_guards_source_is_model) and proves that interpreting the model's lists IS the decision of
   Model/C04_ClusterOps.v (pin_core, unpin_op, pin_update_op). Definitions only. *)
From V Require Import Base.Common Model.C03_Alloc Model.C04_ClusterOps.
From Coq Require Import String DecimalString.
Open Scope string_scope.
Open Scope Z_scope.

Inductive zfield := FRmin | FRmax | FDepth.
Inductive gz :=
| ZPin (f : zfield)          (* pin.ReplicationFactorMin / Max, pin.MaxDepth — of the pin as it is at that point *)
| ZCfg (f : zfield)          (* c.config.ReplicationFactorMin / Max *)
| ZLocal (n : string)        (* an integer local of the function *)
| ZLenAllocs                 (* len(pin.Allocations) *)
| ZLenBlacklist              (* len(blacklist) *)
| ZK (z : Z).

Inductive who := WPin | WExisting.

Inductive gcond :=
| GBool (b : bool)
| GLe (a b : gz) | GLt (a b : gz) | GEq (a b : gz)
| GFollower                  (* c.config.FollowerMode *)
| GIsNil (w : who)           (* existing == nil *)
| GTypeIs (w : who) (t : ptype)   (* X.Type == api.<T>Type *)
| GTypeSame                  (* existing.Type == pin.Type *)
| GModeRec (w : who)         (* X.Mode == api.PinModeRecursive *)
| GRefNil                    (* pin.Reference == nil *)
| GCidUndef                  (* pin.Cid == cid.Undef: CIDs of the model are always defined *)
| GUpdateUndef               (* pin.PinUpdate == cid.Undef *)
| GUpdateIsCid               (* pin.PinUpdate.Equals(pin.Cid) *)
| GExpireZero | GExpireBefore | GExpireAfter   (* pin.ExpireAt.IsZero() / .Before(time.Now()) / .After(time.Now()) *)
| GOptNameEmpty | GOptExpireZero | GOptExpireAfter   (* PinUpdate's opts: Name == "", ExpireAt.IsZero(), ExpireAt.After(time.Now()) *)
| GEverywhere                (* pin.IsPinEverywhere() *)
| GOptsEqual                 (* pin.PinOptions.Equals(&existing.PinOptions): opts_equal (C04_ClusterOps; its own theorems are in C08_Equals) *)
| GStateErr                  (* PinGet fails with something else than ErrNotFound: not in the model (the state read succeeds) *)
| GFails (call : string)     (* the named call returns an error *)
| GNot (a : gcond) | GAnd (a b : gcond) | GOr (a b : gcond).

Inductive geff :=
| ESetLocal (n : string) (t : gz)
| ESetPinZ (f : zfield) (t : gz)    (* pin.ReplicationFactorMin / Max = t *)
| EClearAllocs                      (* pin.Allocations = nil *)
| EUseExisting                      (* pin = existing *)
| ESetAllocs                        (* pin.Allocations = allocs (what allocate returned) *)
| EText (text : string).           (* an assignment no later guard of the function reads, by its source text *)

Inductive goutcome :=
| Refuse (cls : string)      (* return ..., <error of this class> *)
| Redirect (to : string)     (* the result of another operation is returned *)
| Commit (op : string)       (* return ..., c.consensus.<op>(ctx, pin) *)
| Accept.                    (* return nil (functions that only return an error) *)

Inductive gstep :=
| SGuard (c : gcond) (o : goutcome)
| SEffect (c : gcond) (e : list geff)
| SCall (f : string)
| STail (f : string).

(* ---- interpretation ---- *)
Record gctx := mk_gctx {
  x_cfg : cfg; x_now : Z; x_pin : pin; x_existing : option pin; x_bl : list N; x_locals : list (string * Z);
  x_opts : opts;                 (* PinUpdate: the options argument *)
  x_fails : string -> bool;      (* which abstracted calls fail *)
  x_alloc : list N               (* what allocate returns when it does not fail *)
}.

Definition with_pin (p : pin) (x : gctx) : gctx :=
  mk_gctx (x_cfg x) (x_now x) p (x_existing x) (x_bl x) (x_locals x) (x_opts x) (x_fails x) (x_alloc x).
Definition with_locals (l : list (string * Z)) (x : gctx) : gctx :=
  mk_gctx (x_cfg x) (x_now x) (x_pin x) (x_existing x) (x_bl x) l (x_opts x) (x_fails x) (x_alloc x).

Fixpoint lget (n : string) (l : list (string * Z)) : Z :=
  match l with [] => 0 | (k, v) :: r => if String.eqb n k then v else lget n r end.

Definition zlen {A} (l : list A) : Z := Z.of_nat (List.length l).

Definition eval_z (x : gctx) (t : gz) : Z :=
  match t with
  | ZPin FRmin => o_rmin (p_opts (x_pin x)) | ZPin FRmax => o_rmax (p_opts (x_pin x)) | ZPin FDepth => p_depth (x_pin x)
  | ZCfg FRmin => def_min (x_cfg x) | ZCfg FRmax => def_max (x_cfg x) | ZCfg FDepth => 0
  | ZLocal n => lget n (x_locals x)
  | ZLenAllocs => zlen (p_allocs (x_pin x))
  | ZLenBlacklist => zlen (x_bl x)
  | ZK z => z end.

Definition who_pin (x : gctx) (w : who) : option pin := match w with WPin => Some (x_pin x) | WExisting => x_existing x end.

Fixpoint eval_c (x : gctx) (c : gcond) : bool :=
  match c with
  | GBool b => b
  | GLe a b => eval_z x a <=? eval_z x b
  | GLt a b => eval_z x a <? eval_z x b
  | GEq a b => eval_z x a =? eval_z x b
  | GFollower => follower (x_cfg x)
  | GIsNil w => negb (is_some (who_pin x w))
  | GTypeIs w t => match who_pin x w with Some p => ptype_eqb (p_ty p) t | None => false end
  | GTypeSame => match x_existing x with Some ex => ptype_eqb (p_ty ex) (p_ty (x_pin x)) | None => false end
  | GModeRec w => match who_pin x w with Some p => (o_mode (p_opts p) =? 0)%N | None => false end
  | GRefNil => negb (is_some (p_ref (x_pin x)))
  | GCidUndef => false
  | GUpdateUndef => negb (is_some (o_update (p_opts (x_pin x))))
  | GUpdateIsCid => match o_update (p_opts (x_pin x)) with Some u => (u =? p_cid (x_pin x))%N | None => false end
  | GExpireZero => negb (is_some (o_expire (p_opts (x_pin x))))
  | GExpireBefore => expire_past (x_now x) (o_expire (p_opts (x_pin x)))
  | GExpireAfter => match o_expire (p_opts (x_pin x)) with Some t => t_after t (x_now x) | None => false end
  | GOptNameEmpty => (o_name (x_opts x) =? 0)%N
  | GOptExpireZero => negb (is_some (o_expire (x_opts x)))
  | GOptExpireAfter => match o_expire (x_opts x) with Some t => t_after t (x_now x) | None => false end
  | GEverywhere => everywhere (p_opts (x_pin x))
  | GOptsEqual => match x_existing x with Some ex => opts_equal (p_opts (x_pin x)) (p_opts ex) | None => false end
  | GStateErr => false
  | GFails f => x_fails x f
  | GNot a => negb (eval_c x a)
  | GAnd a b => eval_c x a && eval_c x b
  | GOr a b => eval_c x a || eval_c x b
  end.

Fixpoint lset (n : string) (v : Z) (l : list (string * Z)) : list (string * Z) :=
  match l with [] => [(n, v)] | (k, w) :: r => if String.eqb n k then (k, v) :: r else (k, w) :: lset n v r end.

Definition apply_eff (x : gctx) (e : geff) : gctx :=
  match e with
  | ESetLocal n t => with_locals (lset n (eval_z x t) (x_locals x)) x
  | ESetPinZ FRmin t => with_pin (set_opts (set_factors (eval_z x t) (o_rmax (p_opts (x_pin x))) (p_opts (x_pin x))) (x_pin x)) x
  | ESetPinZ FRmax t => with_pin (set_opts (set_factors (o_rmin (p_opts (x_pin x))) (eval_z x t) (p_opts (x_pin x))) (x_pin x)) x
  | ESetPinZ FDepth _ => x
  | EClearAllocs => with_pin (set_allocs [] (x_pin x)) x
  | EUseExisting => match x_existing x with Some ex => with_pin ex x | None => x end
  | ESetAllocs => with_pin (set_allocs (x_alloc x) (x_pin x)) x
  | EText _ => x
  end.

Inductive gresult := Done (o : goutcome) | FellOff.

(* callee: how a called function of the table runs on a context (locals are the callee's own) *)
Fixpoint run_steps (callee : string -> gctx -> gresult * gctx) (l : list gstep) (x : gctx) : gresult * gctx :=
  match l with
  | [] => (FellOff, x)
  | SGuard c o :: r => if eval_c x c then (Done o, x) else run_steps callee r x
  | SEffect c es :: r => run_steps callee r (if eval_c x c then fold_left apply_eff es x else x)
  | SCall f :: r =>
      let '(res, x') := callee f (with_locals [] x) in
      let x'' := with_locals (x_locals x) x' in
      match res with
      | Done Accept => run_steps callee r x''
      | other => (other, x'') end
  | STail f :: _ =>
      let '(res, x') := callee f (with_locals [] x) in (res, with_locals (x_locals x) x')
  end.

(* ---- the model's reading of the six functions ---- *)
Definition lmin := ZLocal "rplMin".
Definition lmax := ZLocal "rplMax".
Definition always := GBool true.

Definition model_setupReplicationFactor : list gstep := [
  SEffect always [ESetLocal "rplMin" (ZPin FRmin)];
  SEffect always [ESetLocal "rplMax" (ZPin FRmax)];
  SEffect (GEq lmin (ZK 0)) [ESetLocal "rplMin" (ZCfg FRmin); ESetPinZ FRmin lmin];
  SEffect (GEq lmax (ZK 0)) [ESetLocal "rplMax" (ZCfg FRmax); ESetPinZ FRmax lmax];
  SEffect GEverywhere [EClearAllocs];
  (* isReplicationFactorValid(rplMin, rplMax) *)
  SGuard (GOr (GEq lmin (ZK 0)) (GEq lmax (ZK 0))) (Refuse "EBadFactors");
  SGuard (GLt lmax lmin) (Refuse "EBadFactors");
  SGuard (GLt lmin (ZK (-1))) (Refuse "EBadFactors");
  SGuard (GLt lmax (ZK (-1))) (Refuse "EBadFactors");
  SGuard (GOr (GAnd (GEq lmin (ZK (-1))) (GNot (GEq lmax (ZK (-1))))) (GAnd (GNot (GEq lmin (ZK (-1)))) (GEq lmax (ZK (-1))))) (Refuse "EBadFactors");
  SGuard always Accept
].

Definition model_checkPinType : list gstep := [
  SGuard (GAnd (GTypeIs WPin DataT) (GNot GRefNil)) (Refuse "EPinType");
  SGuard (GAnd (GTypeIs WPin ShardT) (GNot (GEq (ZPin FDepth) (ZK 1)))) (Refuse "EPinType");
  SGuard (GAnd (GTypeIs WPin ClusterDAGT) (GNot (GEq (ZPin FDepth) (ZK 0)))) (Refuse "EPinType");
  SGuard (GAnd (GTypeIs WPin ClusterDAGT) GRefNil) (Refuse "EPinType");
  SGuard (GAnd (GTypeIs WPin MetaT) (GNot (GEq ZLenAllocs (ZK 0)))) (Refuse "EPinType");
  SGuard (GAnd (GTypeIs WPin MetaT) GRefNil) (Refuse "EPinType");
  SGuard (GNot (GOr (GOr (GOr (GTypeIs WPin DataT) (GTypeIs WPin ShardT)) (GTypeIs WPin ClusterDAGT)) (GTypeIs WPin MetaT))) (Refuse "EPinType");
  SGuard always Accept
].

Definition model_setupPin : list gstep := [
  SCall "setupReplicationFactor";
  SGuard (GAnd (GNot GExpireZero) GExpireBefore) (Refuse "EExpired");
  SGuard (GIsNil WExisting) Accept;
  SGuard (GNot GTypeSame) (Refuse "ETypeChange");
  SGuard (GAnd (GModeRec WExisting) (GNot (GModeRec WPin))) (Refuse "EDowngrade");
  STail "checkPinType"
].

Definition model_pin : list gstep := [
  SGuard GFollower (Refuse "EFollower");
  SGuard GCidUndef (Refuse "EOther");
  SGuard (GAnd (GNot GUpdateUndef) (GNot GUpdateIsCid)) (Redirect "PinUpdate");
  SEffect always [EText "existing, err := c.PinGet(ctx, pin.Cid)"];
  SGuard GStateErr (Refuse "EOther");
  SCall "setupPin";
  SGuard (GTypeIs WPin MetaT) (Commit "LogPin");
  SEffect (GAnd (GAnd (GNot (GIsNil WExisting)) GOptsEqual) (GEq ZLenBlacklist (ZK 0))) [EUseExisting];
  SGuard (GAnd (GEq ZLenAllocs (ZK 0)) (GFails "allocate")) (Refuse "EAlloc");
  SEffect (GEq ZLenAllocs (ZK 0)) [ESetAllocs];
  SGuard always (Commit "LogPin")
].

Definition model_Unpin : list gstep := [
  SGuard GFollower (Refuse "EFollower");
  SGuard (GFails "PinGet") (Refuse "ENotFound");
  SGuard (GTypeIs WPin DataT) (Commit "LogUnpin");
  SGuard (GTypeIs WPin ShardT) (Refuse "EUnpinType");
  SGuard (GAnd (GTypeIs WPin MetaT) (GFails "unpinClusterDag")) (Refuse "EMeta");
  SGuard (GTypeIs WPin MetaT) (Commit "LogUnpin");
  SGuard (GTypeIs WPin ClusterDAGT) (Refuse "EUnpinType");
  SGuard (GNot (GOr (GOr (GOr (GTypeIs WPin DataT) (GTypeIs WPin ShardT)) (GTypeIs WPin MetaT)) (GTypeIs WPin ClusterDAGT))) (Refuse "EUnpinType")
].

Definition model_PinUpdate : list gstep := [
  SGuard GFollower (Refuse "EFollower");
  SGuard (GFails "PinGet") (Refuse "ENotFound");
  SGuard (GNot (GTypeIs WExisting DataT)) (Refuse "EUpdateType");
  SEffect always [EText "existing.Cid = to"];
  SEffect always [EText "existing.PinUpdate = from"];
  SEffect (GNot GOptNameEmpty) [EText "existing.Name = opts.Name"];
  SEffect (GAnd (GNot GOptExpireZero) GOptExpireAfter) [EText "existing.ExpireAt = opts.ExpireAt"];
  SGuard always (Commit "LogPin")
].

Definition model_guard_table : list (string * list gstep) := [
  ("setupReplicationFactor", model_setupReplicationFactor); ("checkPinType", model_checkPinType);
  ("setupPin", model_setupPin); ("pin", model_pin); ("Unpin", model_Unpin); ("PinUpdate", model_PinUpdate)
].

(* running the model's lists: leaves first *)
Definition no_callee : string -> gctx -> gresult * gctx := fun _ x => (FellOff, x).
Definition run_rf := run_steps no_callee model_setupReplicationFactor.
Definition run_cpt := run_steps no_callee model_checkPinType.
Definition setup_callee (f : string) : gctx -> gresult * gctx :=
  if String.eqb f "setupReplicationFactor" then run_rf else if String.eqb f "checkPinType" then run_cpt else no_callee f.
Definition run_setup := run_steps setup_callee model_setupPin.
Definition pin_callee (f : string) : gctx -> gresult * gctx := if String.eqb f "setupPin" then run_setup else no_callee f.
Definition run_pin := run_steps pin_callee model_pin.
Definition run_unpin := run_steps no_callee model_Unpin.
Definition run_update := run_steps no_callee model_PinUpdate.

(* error classes by name *)
Definition err_of_class (s : string) : option err :=
  if String.eqb s "EFollower" then Some EFollower else if String.eqb s "ENotFound" then Some ENotFound
  else if String.eqb s "EBadFactors" then Some EBadFactors else if String.eqb s "EExpired" then Some EExpired
  else if String.eqb s "ETypeChange" then Some ETypeChange else if String.eqb s "EDowngrade" then Some EDowngrade
  else if String.eqb s "EPinType" then Some EPinType else if String.eqb s "EAlloc" then Some EAlloc
  else if String.eqb s "EUpdateType" then Some EUpdateType else if String.eqb s "EUnpinType" then Some EUnpinType
  else if String.eqb s "EMeta" then Some EMeta else if String.eqb s "EOther" then Some EOther else None.

(* ---- diagnosis: structural comparison, position by position (no proof involved) ---- *)
Definition zfield_eqb (a b : zfield) : bool := match a, b with FRmin, FRmin | FRmax, FRmax | FDepth, FDepth => true | _, _ => false end.
Definition gz_eqb (a b : gz) : bool :=
  match a, b with
  | ZPin f, ZPin g | ZCfg f, ZCfg g => zfield_eqb f g
  | ZLocal n, ZLocal m => String.eqb n m
  | ZLenAllocs, ZLenAllocs | ZLenBlacklist, ZLenBlacklist => true
  | ZK x, ZK y => Z.eqb x y
  | _, _ => false end.
Definition who_eqb (a b : who) : bool := match a, b with WPin, WPin | WExisting, WExisting => true | _, _ => false end.
Fixpoint gcond_eqb (a b : gcond) : bool :=
  match a, b with
  | GBool x, GBool y => Bool.eqb x y
  | GLe x y, GLe x' y' | GLt x y, GLt x' y' | GEq x y, GEq x' y' => gz_eqb x x' && gz_eqb y y'
  | GFollower, GFollower | GTypeSame, GTypeSame | GRefNil, GRefNil | GCidUndef, GCidUndef | GUpdateUndef, GUpdateUndef
  | GUpdateIsCid, GUpdateIsCid | GExpireZero, GExpireZero | GExpireBefore, GExpireBefore | GExpireAfter, GExpireAfter | GOptNameEmpty, GOptNameEmpty
  | GOptExpireZero, GOptExpireZero | GOptExpireAfter, GOptExpireAfter | GEverywhere, GEverywhere | GOptsEqual, GOptsEqual
  | GStateErr, GStateErr => true
  | GIsNil w, GIsNil w' | GModeRec w, GModeRec w' => who_eqb w w'
  | GTypeIs w t, GTypeIs w' t' => who_eqb w w' && ptype_eqb t t'
  | GFails f, GFails g => String.eqb f g
  | GNot x, GNot y => gcond_eqb x y
  | GAnd x y, GAnd x' y' | GOr x y, GOr x' y' => gcond_eqb x x' && gcond_eqb y y'
  | _, _ => false end.
Definition geff_eqb (a b : geff) : bool :=
  match a, b with
  | ESetLocal n t, ESetLocal m u => String.eqb n m && gz_eqb t u
  | ESetPinZ f t, ESetPinZ g u => zfield_eqb f g && gz_eqb t u
  | EClearAllocs, EClearAllocs | EUseExisting, EUseExisting | ESetAllocs, ESetAllocs => true
  | EText s, EText t => String.eqb s t
  | _, _ => false end.
Definition goutcome_eqb (a b : goutcome) : bool :=
  match a, b with
  | Refuse s, Refuse t | Redirect s, Redirect t | Commit s, Commit t => String.eqb s t
  | Accept, Accept => true
  | _, _ => false end.
Definition gstep_eqb (a b : gstep) : bool :=
  match a, b with
  | SGuard c o, SGuard c' o' => gcond_eqb c c' && goutcome_eqb o o'
  | SEffect c e, SEffect c' e' => gcond_eqb c c' && list_eqb geff_eqb e e'
  | SCall f, SCall g | STail f, STail g => String.eqb f g
  | _, _ => false end.

Definition show_zf (f : zfield) : string := match f with FRmin => "ReplicationFactorMin" | FRmax => "ReplicationFactorMax" | FDepth => "MaxDepth" end.
Definition show_gz (t : gz) : string :=
  match t with
  | ZPin f => "pin." ++ show_zf f | ZCfg f => "config." ++ show_zf f | ZLocal n => n
  | ZLenAllocs => "len(pin.Allocations)" | ZLenBlacklist => "len(blacklist)"
  | ZK z => NilZero.string_of_int (Z.to_int z) end.
Definition show_who (w : who) : string := match w with WPin => "pin" | WExisting => "existing" end.
Definition show_ty (t : ptype) : string := match t with BadT => "Bad" | DataT => "Data" | MetaT => "Meta" | ClusterDAGT => "ClusterDAG" | ShardT => "Shard" end.
Fixpoint show_gc (c : gcond) : string :=
  match c with
  | GBool true => "always" | GBool false => "never"
  | GLe a b => show_gz a ++ " <= " ++ show_gz b | GLt a b => show_gz a ++ " < " ++ show_gz b | GEq a b => show_gz a ++ " == " ++ show_gz b
  | GFollower => "follower mode" | GIsNil w => show_who w ++ " == nil" | GTypeIs w t => show_who w ++ ".Type == " ++ show_ty t
  | GTypeSame => "existing.Type == pin.Type" | GModeRec w => show_who w ++ ".Mode == recursive" | GRefNil => "pin.Reference == nil"
  | GCidUndef => "pin.Cid undefined" | GUpdateUndef => "pin.PinUpdate undefined" | GUpdateIsCid => "pin.PinUpdate == pin.Cid"
  | GExpireZero => "pin.ExpireAt zero" | GExpireBefore => "pin.ExpireAt before now" | GExpireAfter => "pin.ExpireAt after now"
  | GOptNameEmpty => "opts.Name empty" | GOptExpireZero => "opts.ExpireAt zero" | GOptExpireAfter => "opts.ExpireAt after now"
  | GEverywhere => "pin everywhere" | GOptsEqual => "options equal to the existing pin's" | GStateErr => "state read error"
  | GFails f => f ++ " fails"
  | GNot a => "not (" ++ show_gc a ++ ")" | GAnd a b => "(" ++ show_gc a ++ " and " ++ show_gc b ++ ")" | GOr a b => "(" ++ show_gc a ++ " or " ++ show_gc b ++ ")"
  end.
Definition show_out (o : goutcome) : string :=
  match o with Refuse s => "refuse " ++ s | Redirect s => "redirect to " ++ s | Commit s => "commit " ++ s | Accept => "accept" end.
Definition show_eff (e : geff) : string :=
  match e with
  | ESetLocal n t => n ++ " = " ++ show_gz t | ESetPinZ f t => "pin." ++ show_zf f ++ " = " ++ show_gz t
  | EClearAllocs => "pin.Allocations = nil" | EUseExisting => "pin = existing" | ESetAllocs => "pin.Allocations = allocs" | EText s => s end.
Definition show_step (s : gstep) : string :=
  match s with
  | SGuard c o => "when " ++ show_gc c ++ ": " ++ show_out o
  | SEffect c es => "when " ++ show_gc c ++ ": " ++ String.concat "; " (map show_eff es)
  | SCall f => "call " ++ f | STail f => "return " ++ f ++ "(..)" end.

Fixpoint steps_diag_f (fuel : nat) (fn : string) (i : nat) (names : list string) (gs ms : list gstep) : list string :=
  match fuel with O => [] | S fuel =>
  let nm := match names with n :: _ => n | [] => "?" end in
  let pos := fn ++ " step " ++ NilZero.string_of_uint (Nat.to_uint i) in
  match gs, ms with
  | [], [] => []
  | g :: gr, m :: mr =>
      List.app (if gstep_eqb g m then [] else [String.concat "" [pos; ": the source (`"; nm; "`) has `"; show_step g; "`, the model has `"; show_step m; "`"]])
               (steps_diag_f fuel fn (S i) (tl names) gr mr)
  | g :: gr, [] => (pos ++ ": the source has one more step (`" ++ nm ++ "`): `" ++ show_step g ++ "`") :: steps_diag_f fuel fn (S i) (tl names) gr []
  | [], m :: mr => (pos ++ ": the model has one more step: `" ++ show_step m ++ "`") :: steps_diag_f fuel fn (S i) [] [] mr
  end
  end.
(* common prefix and suffix are dropped first, so that one inserted or removed step is reported as such *)
Fixpoint strip_prefix (i : nat) (names : list string) (gs ms : list gstep) : nat * list string * list gstep * list gstep :=
  match gs, ms with
  | g :: gr, m :: mr => if gstep_eqb g m then strip_prefix (S i) (tl names) gr mr else (i, names, gs, ms)
  | _, _ => (i, names, gs, ms) end.
Fixpoint common_suffix_len (a b : list gstep) : nat :=
  match a, b with
  | x :: xs, y :: ys => if gstep_eqb x y then S (common_suffix_len xs ys) else 0
  | _, _ => 0 end.
Definition steps_diag (fn : string) (names : list string) (gs ms : list gstep) : list string :=
  match strip_prefix 0 names gs ms with
  | (i, names1, gs1, ms1) =>
      let k := common_suffix_len (List.rev gs1) (List.rev ms1) in
      let gs2 := firstn (List.length gs1 - k) gs1 in
      let ms2 := firstn (List.length ms1 - k) ms1 in
      steps_diag_f (List.length gs2 + List.length ms2) fn i names1 gs2 ms2
  end.
