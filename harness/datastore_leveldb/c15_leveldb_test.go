//go:build verif

package leveldb

import (
	"reflect"
	"testing"
)

func TestVerifC15Leveldb(t *testing.T) {
	vc15Main(t, &vc15Section{
		Name: "leveldb", Index: 14, EnvPrefix: "CLUSTER_LEVELDB",
		New:      func() vc15Config { return &Config{} },
		JSONType: reflect.TypeOf(jsonConfig{}),
		Hints:    map[string]string{"folder": "str"},
		Direct: func(c vc15Config) map[string]string {
			cfg := c.(*Config)
			return map[string]string{"folder": vc15VS(cfg.Folder)}
		},
		Extra: map[string][]interface{}{"folder": {"leveldb", "ldb"}},
	})
}
