//go:build verif

package crdt

import (
	"reflect"
	"testing"
)

func TestVerifC15Crdt(t *testing.T) {
	vc15Main(t, &vc15Section{
		Name: "crdt", Index: 3, EnvPrefix: "CLUSTER_CRDT",
		New:      func() vc15Config { return &Config{} },
		JSONType: reflect.TypeOf(jsonConfig{}),
		Hints: map[string]string{
			"cluster_name": "str", "trusted_peers": "peerstar", "batching.max_batch_age": "dur", "rebroadcast_interval": "dur",
			"peerset_metric": "str", "datastore_namespace": "str",
		},
		Direct: func(c vc15Config) map[string]string {
			cfg := c.(*Config)
			return map[string]string{
				"batching.max_queue_size": vc15VZ(int64(cfg.Batching.MaxQueueSize)),
				"peerset_metric":          vc15VS(cfg.PeersetMetric),
				"datastore_namespace":     vc15VS(cfg.DatastoreNamespace),
				"rebroadcast_interval":    vc15VZ(int64(cfg.RebroadcastInterval)),
			}
		},
		Extra: map[string][]interface{}{"datastore_namespace": {"/c", "/crdt"}, "peerset_metric": {"ping"}, "batching.max_queue_size": {49999, 50000, 50001}},
	})
}
