//go:build verif

package rest

import (
	"crypto/ecdsa"
	"crypto/elliptic"
	"crypto/rand"
	"crypto/tls"
	"crypto/x509"
	"crypto/x509/pkix"
	"encoding/base64"
	"encoding/pem"
	"math/big"
	"os"
	"reflect"
	"testing"
	"time"

	crypto "github.com/libp2p/go-libp2p-core/crypto"
	peer "github.com/libp2p/go-libp2p-core/peer"
)

// a self-signed pair in the working directory (the runner runs the harness in a scratch directory)
func vc15WriteTLSPair(t *testing.T) (cert, key string) {
	priv, err := ecdsa.GenerateKey(elliptic.P256(), rand.Reader)
	if err != nil {
		t.Fatal(err)
	}
	tmpl := &x509.Certificate{SerialNumber: big.NewInt(1), Subject: pkix.Name{CommonName: "verif"},
		NotBefore: time.Now().Add(-time.Hour), NotAfter: time.Now().Add(24 * time.Hour)}
	der, err := x509.CreateCertificate(rand.Reader, tmpl, tmpl, &priv.PublicKey, priv)
	if err != nil {
		t.Fatal(err)
	}
	kb, err := x509.MarshalECPrivateKey(priv)
	if err != nil {
		t.Fatal(err)
	}
	cert, key = "vc15_server.crt", "vc15_server.key"
	if err := os.WriteFile(cert, pem.EncodeToMemory(&pem.Block{Type: "CERTIFICATE", Bytes: der}), 0600); err != nil {
		t.Fatal(err)
	}
	if err := os.WriteFile(key, pem.EncodeToMemory(&pem.Block{Type: "EC PRIVATE KEY", Bytes: kb}), 0600); err != nil {
		t.Fatal(err)
	}
	return
}

func vc15Identity(t *testing.T) (id string, key string) {
	priv, pub, err := crypto.GenerateKeyPair(crypto.Ed25519, -1)
	if err != nil {
		t.Fatal(err)
	}
	pid, err := peer.IDFromPublicKey(pub)
	if err != nil {
		t.Fatal(err)
	}
	b, err := priv.Bytes()
	if err != nil {
		t.Fatal(err)
	}
	return peer.Encode(pid), base64.StdEncoding.EncodeToString(b)
}

func vc15Str(doc map[string]interface{}, k string) string {
	s, _ := doc[k].(string)
	return s
}

func TestVerifC15Restapi(t *testing.T) {
	cert, key := vc15WriteTLSPair(t)
	defer os.Remove(cert)
	defer os.Remove(key)
	id1, key1 := vc15Identity(t)
	id2, _ := vc15Identity(t)
	libp2p := []string{"/ip4/127.0.0.1/tcp/9096"}
	vc15Main(t, &vc15Section{
		Name: "restapi", Index: 4, EnvPrefix: "CLUSTER_RESTAPI",
		New:      func() vc15Config { return &Config{} },
		JSONType: reflect.TypeOf(jsonConfig{}),
		Hints: map[string]string{
			"http_listen_multiaddress": "addr", "ssl_cert_file": "file", "ssl_key_file": "file", "read_timeout": "dur",
			"read_header_timeout": "dur", "write_timeout": "dur", "idle_timeout": "dur", "libp2p_listen_multiaddress": "addr",
			"id": "peer", "private_key": "key", "http_log_file": "str", "cors_allowed_origins": "str", "cors_allowed_methods": "str",
			"cors_allowed_headers": "str", "cors_exposed_headers": "str", "cors_max_age": "dur",
		},
		Secrets: func(c vc15Config) []string {
			cfg := c.(*Config)
			var out []string
			for _, p := range cfg.BasicAuthCredentials {
				out = append(out, p)
			}
			if cfg.PrivateKey != nil {
				if b, err := cfg.PrivateKey.Bytes(); err == nil {
					out = append(out, base64.StdEncoding.EncodeToString(b))
				}
			}
			return out
		},
		// external outcomes, decided by the same library calls the configuration uses
		Oracles: func(doc map[string]interface{}) map[string]bool {
			out := map[string]bool{}
			c, k := vc15Str(doc, "ssl_cert_file"), vc15Str(doc, "ssl_key_file")
			if c+k != "" {
				_, err := tls.LoadX509KeyPair(c, k)
				out["tls_ok"] = err == nil
			}
			ids, ks := vc15Str(doc, "id"), vc15Str(doc, "private_key")
			if ids != "" && ks != "" {
				pid, err1 := peer.Decode(ids)
				kb, err2 := base64.StdEncoding.DecodeString(ks)
				if err1 == nil && err2 == nil {
					if pk, err := crypto.UnmarshalPrivateKey(kb); err == nil {
						out["id_matches_key"] = pid.MatchesPrivateKey(pk)
					}
				}
			}
			return out
		},
		Extra: map[string][]interface{}{
			"ssl_cert_file":              {cert, "missing.crt"},
			"ssl_key_file":               {key, "missing.key"},
			"id":                         {id1, id2},
			"private_key":                {key1},
			"libp2p_listen_multiaddress": {libp2p},
			"basic_auth_credentials":     {map[string]string{"admin": "s3cr3t-pa55word"}},
			"max_header_bytes":           {8192},
		},
		RawDocs: []string{
			`{"ssl_cert_file":"` + cert + `","ssl_key_file":"` + key + `"}`,
			`{"ssl_cert_file":"` + cert + `"}`,
			`{"id":"` + id1 + `","private_key":"` + key1 + `","libp2p_listen_multiaddress":["/ip4/127.0.0.1/tcp/9096"]}`,
			`{"id":"` + id2 + `","private_key":"` + key1 + `","libp2p_listen_multiaddress":["/ip4/127.0.0.1/tcp/9096"]}`,
			`{"id":"` + id1 + `","private_key":"` + key1 + `"}`,
			`{"basic_auth_credentials":{"admin":"s3cr3t-pa55word"},"id":"` + id1 + `","private_key":"` + key1 + `","libp2p_listen_multiaddress":"/ip4/127.0.0.1/tcp/9096"}`,
		},
	})
}
