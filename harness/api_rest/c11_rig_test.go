//go:build verif

package rest

// C11 rig: the real REST API (NewAPI on a loopback listener) in front of a recording Cluster /
// PeerMonitor / IPFSConnector RPC service. Never part of /repo.

import (
	"context"
	"errors"
	"fmt"
	"sort"
	"strings"
	"sync"
	"time"

	"github.com/ipfs/ipfs-cluster/api"
	"github.com/ipfs/ipfs-cluster/state"

	cid "github.com/ipfs/go-cid"
	peer "github.com/libp2p/go-libp2p-core/peer"
	rpc "github.com/libp2p/go-libp2p-gorpc"
	ma "github.com/multiformats/go-multiaddr"
)

// one recorded RPC call: Service.Method and its argument projected onto strings
type vc11Call struct {
	M      string   `json:"m"`
	Args   []string `json:"args"`
	Failed bool     `json:"failed,omitempty"`
}

type vc11Fail struct {
	M    string `json:"m"`
	K    int    `json:"k"`
	Kind int    `json:"kind"` // 0: some error; 1: state.ErrNotFound
}

type vc11Rec struct {
	mu          sync.Mutex
	calls       []vc11Call
	seen        map[string]int
	fails       []vc11Fail
	fuzzyExpire bool // the request used expire-in: ExpireAt depends on the clock, only its presence is recorded
}

func (r *vc11Rec) reset(fails []vc11Fail, fuzzy bool) {
	r.mu.Lock()
	defer r.mu.Unlock()
	r.calls = nil
	r.seen = map[string]int{}
	r.fails = fails
	r.fuzzyExpire = fuzzy
}

var vc11ErrScripted = errors.New("verif scripted failure")

func (r *vc11Rec) note(m string, args ...string) error {
	r.mu.Lock()
	defer r.mu.Unlock()
	k := r.seen[m]
	r.seen[m] = k + 1
	c := vc11Call{M: m, Args: args}
	if c.Args == nil {
		c.Args = []string{}
	}
	var err error
	for _, f := range r.fails {
		if f.M == m && (f.K == k || m == "IPFSConnector.BlockPut") {
			c.Failed = true
			err = vc11ErrScripted
			if f.Kind == 1 {
				err = state.ErrNotFound
			}
		}
	}
	if m == "IPFSConnector.BlockPut" && len(r.calls) > 0 && r.calls[len(r.calls)-1].M == m && !r.calls[len(r.calls)-1].Failed {
		if c.Failed {
			r.calls[len(r.calls)-1].Failed = true
		}
		return err
	}
	r.calls = append(r.calls, c)
	return err
}

func (r *vc11Rec) fuzzy() bool {
	r.mu.Lock()
	defer r.mu.Unlock()
	return r.fuzzyExpire
}

func (r *vc11Rec) snapshot() []vc11Call {
	r.mu.Lock()
	defer r.mu.Unlock()
	return append([]vc11Call{}, r.calls...)
}

// canonical rendering of pin options (what "the options it carried" means in the comparison)
func vc11Opts(o api.PinOptions, fuzzyExpire bool) string {
	allocs := api.PeersToStrings(o.UserAllocations)
	exp := "0"
	if !o.ExpireAt.IsZero() {
		if fuzzyExpire {
			exp = "set"
		} else {
			exp = o.ExpireAt.UTC().Format(time.RFC3339Nano)
		}
	}
	mk := []string{}
	for k, v := range o.Metadata {
		if k == "" {
			continue
		}
		mk = append(mk, fmt.Sprintf("%q=%q", k, v))
	}
	sort.Strings(mk)
	upd := ""
	if o.PinUpdate.Defined() {
		upd = o.PinUpdate.String()
	}
	orig := []string{}
	for _, a := range o.Origins {
		if a == nil {
			orig = append(orig, "<nil>")
		} else {
			orig = append(orig, a.String())
		}
	}
	mode := "recursive"
	if o.Mode == api.PinModeDirect {
		mode = "direct"
	}
	return fmt.Sprintf("rmin=%d;rmax=%d;name=%q;mode=%s;shard=%d;allocs=%s;expire=%s;meta=%s;update=%s;origins=%s",
		o.ReplicationFactorMin, o.ReplicationFactorMax, o.Name, mode, o.ShardSize, strings.Join(allocs, ","), exp, strings.Join(mk, ","), upd, strings.Join(orig, ","))
}

var (
	vc11Cid1, _  = cid.Decode("QmP63DkAFEnDYNjDYBpyNDfttu1fvUw99x1brscPzpqmmq")
	vc11Cid2, _  = cid.Decode("bafyreiay3jpjk74dkckv2r74eyvf3lfnxujefay2rtuluintasq2zlapv4")
	vc11Cid3, _  = cid.Decode("QmP63DkAFEnDYNjDYBpyNDfttu1fvUw99x1brscPzpqmmb")
	vc11Peer1, _ = peer.Decode("QmXZrtE5jQwXNqCJMfHUTQkvhQ4ZAnqMnmzFMJfLewuabc")
	vc11Peer2, _ = peer.Decode("QmUZ13osndQ5uL4tPWHXe3iBgBgq9gfewcBMSCAuMBsDJ6")
	vc11TS       = time.Date(2021, 3, 4, 5, 6, 7, 0, time.UTC)
)

type vc11Cluster struct{ rec *vc11Rec }
type vc11Monitor struct{ rec *vc11Rec }
type vc11IPFS struct{ rec *vc11Rec }

func vc11ID(p peer.ID, name string) *api.ID {
	return &api.ID{ID: p, Peername: name, Version: "0.0.verif", Commit: "c0ffee", ClusterPeers: []peer.ID{vc11Peer1, vc11Peer2},
		Addresses: []api.Multiaddr{}, ClusterPeersAddresses: []api.Multiaddr{}, IPFS: &api.IPFSID{ID: vc11Peer2, Addresses: []api.Multiaddr{}}}
}

func vc11PinAnswer(c cid.Cid, name string) *api.Pin {
	p := api.PinCid(c)
	p.Name = name
	p.ReplicationFactorMin = 2
	p.ReplicationFactorMax = 3
	p.Allocations = []peer.ID{vc11Peer1}
	p.Metadata = map[string]string{"k": "v"}
	return p
}

func vc11GPI(c cid.Cid) *api.GlobalPinInfo {
	return &api.GlobalPinInfo{Cid: c, Name: "gpi", PeerMap: map[string]*api.PinInfoShort{
		peer.Encode(vc11Peer1): {PeerName: "p1", Status: api.TrackerStatusPinned, TS: vc11TS},
		peer.Encode(vc11Peer2): {PeerName: "p2", Status: api.TrackerStatusPinError, TS: vc11TS, Error: "boom"},
	}}
}

func vc11PI(c cid.Cid) *api.PinInfo {
	return &api.PinInfo{Cid: c, Name: "pi", Peer: vc11Peer1, PinInfoShort: api.PinInfoShort{PeerName: "p1", Status: api.TrackerStatusPinning, TS: vc11TS}}
}

func (s *vc11Cluster) ID(ctx context.Context, in struct{}, out *api.ID) error {
	if err := s.rec.note("Cluster.ID"); err != nil {
		return err
	}
	*out = *vc11ID(vc11Peer1, "verif1")
	return nil
}

func (s *vc11Cluster) Version(ctx context.Context, in struct{}, out *api.Version) error {
	if err := s.rec.note("Cluster.Version"); err != nil {
		return err
	}
	*out = api.Version{Version: "0.0.verif"}
	return nil
}

func (s *vc11Cluster) Peers(ctx context.Context, in struct{}, out *[]*api.ID) error {
	if err := s.rec.note("Cluster.Peers"); err != nil {
		return err
	}
	*out = []*api.ID{vc11ID(vc11Peer1, "verif1"), vc11ID(vc11Peer2, "verif2")}
	return nil
}

func (s *vc11Cluster) PeerAdd(ctx context.Context, in peer.ID, out *api.ID) error {
	if err := s.rec.note("Cluster.PeerAdd", peer.Encode(in)); err != nil {
		return err
	}
	*out = *vc11ID(in, "added")
	return nil
}

func (s *vc11Cluster) PeerRemove(ctx context.Context, in peer.ID, out *struct{}) error {
	return s.rec.note("Cluster.PeerRemove", peer.Encode(in))
}

func (s *vc11Cluster) ConnectGraph(ctx context.Context, in struct{}, out *api.ConnectGraph) error {
	if err := s.rec.note("Cluster.ConnectGraph"); err != nil {
		return err
	}
	*out = api.ConnectGraph{ClusterID: vc11Peer1, IDtoPeername: map[string]string{peer.Encode(vc11Peer1): "verif1"},
		IPFSLinks: map[string][]peer.ID{peer.Encode(vc11Peer2): {vc11Peer1}}, ClusterLinks: map[string][]peer.ID{peer.Encode(vc11Peer1): {vc11Peer2}},
		ClusterTrustLinks: map[string]bool{peer.Encode(vc11Peer1): true}, ClustertoIPFS: map[string]peer.ID{peer.Encode(vc11Peer1): vc11Peer2}}
	return nil
}

func (s *vc11Cluster) Alerts(ctx context.Context, in struct{}, out *[]api.Alert) error {
	if err := s.rec.note("Cluster.Alerts"); err != nil {
		return err
	}
	*out = []api.Alert{{Metric: api.Metric{Name: "ping", Peer: vc11Peer2, Value: "1", Expire: 17, Valid: true, ReceivedAt: 5}, TriggeredAt: vc11TS}}
	return nil
}

func (s *vc11Cluster) Pins(ctx context.Context, in struct{}, out *[]*api.Pin) error {
	if err := s.rec.note("Cluster.Pins"); err != nil {
		return err
	}
	*out = vc11AllPins()
	return nil
}

func vc11AllPins() []*api.Pin {
	a := vc11PinAnswer(vc11Cid1, "data")
	b := vc11PinAnswer(vc11Cid2, "meta")
	b.Type = api.MetaType
	c := vc11PinAnswer(vc11Cid3, "shard")
	c.Type = api.ShardType
	c.MaxDepth = 1
	d := vc11PinAnswer(vc11Cid3, "cdag")
	d.Type = api.ClusterDAGType
	d.MaxDepth = 0
	return []*api.Pin{a, b, c, d}
}

func (s *vc11Cluster) PinGet(ctx context.Context, in cid.Cid, out *api.Pin) error {
	if err := s.rec.note("Cluster.PinGet", in.String()); err != nil {
		return err
	}
	*out = *vc11PinAnswer(in, "got")
	return nil
}

func (s *vc11Cluster) Pin(ctx context.Context, in *api.Pin, out *api.Pin) error {
	if err := s.rec.note("Cluster.Pin", in.Cid.String(), vc11Opts(in.PinOptions, s.rec.fuzzy()), fmt.Sprintf("%d", in.MaxDepth)); err != nil {
		return err
	}
	*out = *vc11PinAnswer(in.Cid, in.Name)
	return nil
}

func (s *vc11Cluster) Unpin(ctx context.Context, in *api.Pin, out *api.Pin) error {
	if err := s.rec.note("Cluster.Unpin", in.Cid.String(), vc11Opts(in.PinOptions, s.rec.fuzzy()), fmt.Sprintf("%d", in.MaxDepth)); err != nil {
		return err
	}
	*out = *vc11PinAnswer(in.Cid, "unpinned")
	return nil
}

func (s *vc11Cluster) PinPath(ctx context.Context, in *api.PinPath, out *api.Pin) error {
	if err := s.rec.note("Cluster.PinPath", in.Path, vc11Opts(in.PinOptions, s.rec.fuzzy())); err != nil {
		return err
	}
	*out = *vc11PinAnswer(vc11Cid1, in.Name)
	return nil
}

func (s *vc11Cluster) UnpinPath(ctx context.Context, in *api.PinPath, out *api.Pin) error {
	if err := s.rec.note("Cluster.UnpinPath", in.Path, vc11Opts(in.PinOptions, s.rec.fuzzy())); err != nil {
		return err
	}
	*out = *vc11PinAnswer(vc11Cid1, "unpinned-path")
	return nil
}

func (s *vc11Cluster) StatusAll(ctx context.Context, in api.TrackerStatus, out *[]*api.GlobalPinInfo) error {
	if err := s.rec.note("Cluster.StatusAll", fmt.Sprintf("%d", int(in))); err != nil {
		return err
	}
	*out = []*api.GlobalPinInfo{vc11GPI(vc11Cid1), vc11GPI(vc11Cid2)}
	return nil
}

func (s *vc11Cluster) StatusAllLocal(ctx context.Context, in api.TrackerStatus, out *[]*api.PinInfo) error {
	if err := s.rec.note("Cluster.StatusAllLocal", fmt.Sprintf("%d", int(in))); err != nil {
		return err
	}
	*out = []*api.PinInfo{vc11PI(vc11Cid1), vc11PI(vc11Cid2)}
	return nil
}

func (s *vc11Cluster) Status(ctx context.Context, in cid.Cid, out *api.GlobalPinInfo) error {
	if err := s.rec.note("Cluster.Status", in.String()); err != nil {
		return err
	}
	*out = *vc11GPI(in)
	return nil
}

func (s *vc11Cluster) StatusLocal(ctx context.Context, in cid.Cid, out *api.PinInfo) error {
	if err := s.rec.note("Cluster.StatusLocal", in.String()); err != nil {
		return err
	}
	*out = *vc11PI(in)
	return nil
}

func (s *vc11Cluster) RecoverAll(ctx context.Context, in struct{}, out *[]*api.GlobalPinInfo) error {
	if err := s.rec.note("Cluster.RecoverAll"); err != nil {
		return err
	}
	*out = []*api.GlobalPinInfo{vc11GPI(vc11Cid3)}
	return nil
}

func (s *vc11Cluster) RecoverAllLocal(ctx context.Context, in struct{}, out *[]*api.PinInfo) error {
	if err := s.rec.note("Cluster.RecoverAllLocal"); err != nil {
		return err
	}
	*out = []*api.PinInfo{vc11PI(vc11Cid3)}
	return nil
}

func (s *vc11Cluster) Recover(ctx context.Context, in cid.Cid, out *api.GlobalPinInfo) error {
	if err := s.rec.note("Cluster.Recover", in.String()); err != nil {
		return err
	}
	*out = *vc11GPI(in)
	return nil
}

func (s *vc11Cluster) RecoverLocal(ctx context.Context, in cid.Cid, out *api.PinInfo) error {
	if err := s.rec.note("Cluster.RecoverLocal", in.String()); err != nil {
		return err
	}
	*out = *vc11PI(in)
	return nil
}

func vc11GC() *api.RepoGC {
	return &api.RepoGC{Peer: vc11Peer1, Peername: "verif1", Keys: []api.IPFSRepoGC{{Key: vc11Cid1}, {Key: vc11Cid2, Error: "gc-key-error"}}}
}

func (s *vc11Cluster) RepoGC(ctx context.Context, in struct{}, out *api.GlobalRepoGC) error {
	if err := s.rec.note("Cluster.RepoGC"); err != nil {
		return err
	}
	*out = api.GlobalRepoGC{PeerMap: map[string]*api.RepoGC{peer.Encode(vc11Peer1): vc11GC()}}
	return nil
}

func (s *vc11Cluster) RepoGCLocal(ctx context.Context, in struct{}, out *api.RepoGC) error {
	if err := s.rec.note("Cluster.RepoGCLocal"); err != nil {
		return err
	}
	*out = *vc11GC()
	return nil
}

func (s *vc11Cluster) BlockAllocate(ctx context.Context, in *api.Pin, out *[]peer.ID) error {
	if err := s.rec.note("Cluster.BlockAllocate"); err != nil {
		return err
	}
	*out = []peer.ID{vc11Peer1}
	return nil
}

func (s *vc11Monitor) LatestMetrics(ctx context.Context, in string, out *[]*api.Metric) error {
	if err := s.rec.note("PeerMonitor.LatestMetrics", in); err != nil {
		return err
	}
	*out = []*api.Metric{{Name: in, Peer: vc11Peer1, Value: "42", Expire: 99, Valid: true, ReceivedAt: 7}}
	return nil
}

func (s *vc11Monitor) MetricNames(ctx context.Context, in struct{}, out *[]string) error {
	if err := s.rec.note("PeerMonitor.MetricNames"); err != nil {
		return err
	}
	*out = []string{"ping", "freespace"}
	return nil
}

func (s *vc11IPFS) BlockPut(ctx context.Context, in *api.NodeWithMeta, out *struct{}) error {
	return s.rec.note("IPFSConnector.BlockPut")
}

func vc11NewRPC(rec *vc11Rec) *rpc.Client {
	s := rpc.NewServer(nil, "verif")
	c := rpc.NewClientWithServer(nil, "verif", s)
	for name, svc := range map[string]interface{}{"Cluster": &vc11Cluster{rec}, "PeerMonitor": &vc11Monitor{rec}, "IPFSConnector": &vc11IPFS{rec}} {
		if err := s.RegisterName(name, svc); err != nil {
			panic(err)
		}
	}
	return c
}

// ---- the real API ----
type vc11Rig struct {
	rec   *vc11Rec
	open  *API // no credentials configured
	auth  *API // credentials configured
	creds map[string]string
}

func vc11NewAPI(creds map[string]string, c *rpc.Client) *API {
	cfg := &Config{}
	cfg.Default()
	addr, _ := ma.NewMultiaddr("/ip4/127.0.0.1/tcp/0")
	cfg.HTTPListenAddr = []ma.Multiaddr{addr}
	cfg.BasicAuthCredentials = creds
	a, err := NewAPI(context.Background(), cfg)
	if err != nil {
		panic(err)
	}
	a.SetClient(c)
	return a
}

func vc11NewRig() *vc11Rig {
	r := &vc11Rig{rec: &vc11Rec{}, creds: map[string]string{"alice": "wonderland", "bob": "builder:with:colons"}}
	r.rec.reset(nil, false)
	c := vc11NewRPC(r.rec)
	r.open = vc11NewAPI(nil, c)
	r.auth = vc11NewAPI(r.creds, c)
	return r
}

func (r *vc11Rig) close() {
	r.open.Shutdown(context.Background())
	r.auth.Shutdown(context.Background())
}

func vc11Addr(a *API) string { return a.httpListeners[0].Addr().String() }
