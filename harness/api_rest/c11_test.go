//go:build verif

package rest

// C11 correspondence harness: generated HTTP requests against the real REST API, and calls made through
// the bundled client library (api/rest/client) against the same server. What reached the recording
// Cluster / PeerMonitor RPC service, the status and the number of JSON documents in the body (and, for
// the client, what it returned) is written as Coq cases (Model/C11_Check.v) plus a JSON sidecar.

import (
	"bytes"
	"context"
	"encoding/json"
	"fmt"
	"io"
	"mime/multipart"
	"net/http"
	"net/url"
	gopathlib "path"
	"sort"
	"strings"
	"testing"
	"time"

	"github.com/ipfs/ipfs-cluster/api"
	"github.com/ipfs/ipfs-cluster/api/rest/client"

	cid "github.com/ipfs/go-cid"
	files "github.com/ipfs/go-ipfs-files"
	gopath "github.com/ipfs/go-path"
	peer "github.com/libp2p/go-libp2p-core/peer"
	ma "github.com/multiformats/go-multiaddr"
)

type vc11OptsIn struct {
	Rmin    int        `json:"rmin"`
	Rmax    int        `json:"rmax"`
	Name    string     `json:"name"`
	Direct  bool       `json:"direct"`
	Shard   uint64     `json:"shard"`
	Allocs  []string   `json:"allocs"`
	Expire  string     `json:"expire"` // RFC3339 or ""
	Meta    [][]string `json:"meta"`
	Update  string     `json:"update"`
	Origins []string   `json:"origins"`
}

type vc11Case struct {
	Kind string `json:"kind"` // "http" | "client"
	// http
	Method    string     `json:"method,omitempty"`
	Path      string     `json:"path,omitempty"`
	RawPath   string     `json:"rawpath,omitempty"`
	Query     [][]string `json:"query"`
	RawQ      *string    `json:"rawq,omitempty"`
	Auth      int        `json:"auth"`  // 0 no header; 1 alice (right); 2 bob (right); 3 wrong password; 4 unknown user; 5 undecodable Basic; 6 Bearer; 7 empty pair; 8 right user, password of the other
	Creds     bool       `json:"creds"` // talk to the API instance that has credentials configured
	Body      string     `json:"body,omitempty"`
	BodyKind  int        `json:"bodykind"` // 0 none; 1 {"peer_id": Body}; 2 raw Body; 3 multipart, one file with content Body; 4 multipart content type, garbage Body
	Preflight bool       `json:"preflight,omitempty"`
	Fails     []vc11Fail `json:"fails"`
	ImpOK     bool       `json:"imp_ok"`
	Cmp       bool       `json:"cmp"`
	// client
	Call   string     `json:"call,omitempty"`
	Cid    string     `json:"cid,omitempty"`
	Peer   string     `json:"peer,omitempty"`
	Name   string     `json:"name,omitempty"`
	Local  bool       `json:"local,omitempty"`
	Filter int        `json:"filter,omitempty"`
	Opts   vc11OptsIn `json:"opts"`
}

type vc11Obs struct {
	Calls   []vc11Call `json:"calls"`
	Status  int        `json:"status"`
	NDocs   int        `json:"ndocs"` // number of JSON documents in the body; 99 = not JSON
	SErr    bool       `json:"stream_err"`
	URI     string     `json:"uri,omitempty"`
	NetErr  string     `json:"net_err,omitempty"`
	Ret     string     `json:"ret,omitempty"`     // client: JSON of the returned value
	ErrCode int        `json:"errcode,omitempty"` // client: api.Error code (-1: a non-API error)
	ErrMsg  string     `json:"errmsg,omitempty"`
	Refused bool       `json:"refused,omitempty"` // client: the library returned an error without sending anything
}

var vc11HTTP = &http.Client{
	CheckRedirect: func(req *http.Request, via []*http.Request) error { return http.ErrUseLastResponse },
	Transport:     &http.Transport{DisableKeepAlives: true, DisableCompression: true},
	Timeout:       60 * time.Second,
}

func vc11RawQuery(c *vc11Case) string {
	if c.RawQ != nil {
		return *c.RawQ
	}
	parts := []string{}
	for _, kv := range c.Query {
		if len(kv) == 2 {
			parts = append(parts, url.QueryEscape(kv[0])+"="+url.QueryEscape(kv[1]))
		}
	}
	return strings.Join(parts, "&")
}

func vc11AuthHeader(k int) (string, bool) {
	switch k {
	case 1:
		return "", true // SetBasicAuth(alice)
	case 2:
		return "", true
	case 3, 4, 7, 8:
		return "", true
	case 5:
		return "Basic !!!notbase64", false
	case 6:
		return "Bearer alice:wonderland", false
	}
	return "", false
}

func vc11SetAuth(req *http.Request, k int) {
	switch k {
	case 1:
		req.SetBasicAuth("alice", "wonderland")
	case 2:
		req.SetBasicAuth("bob", "builder:with:colons")
	case 3:
		req.SetBasicAuth("alice", "Wonderland")
	case 4:
		req.SetBasicAuth("mallory", "wonderland")
	case 5:
		req.Header.Set("Authorization", "Basic !!!notbase64")
	case 6:
		req.Header.Set("Authorization", "Bearer alice:wonderland")
	case 7:
		req.SetBasicAuth("", "")
	case 8:
		req.SetBasicAuth("alice", "builder:with:colons")
	}
}

func vc11CountDocs(b []byte) int {
	dec := json.NewDecoder(bytes.NewReader(b))
	n := 0
	for {
		var v interface{}
		err := dec.Decode(&v)
		if err == io.EOF {
			return n
		}
		if err != nil {
			return 99
		}
		n++
	}
}

func vc11Normalise(c *vc11Case) {
	if c.Kind == "" {
		c.Kind = "http"
	}
	if c.Method == "" {
		c.Method = "GET"
	}
	if c.RawPath != "" {
		if p, err := url.PathUnescape(c.RawPath); err == nil {
			c.Path = p
		} else {
			c.RawPath = ""
		}
	}
	if !strings.HasPrefix(c.Path, "/") {
		c.Path = "/" + c.Path
	}
	q := [][]string{}
	for _, kv := range c.Query {
		if len(kv) == 2 {
			q = append(q, kv)
		}
	}
	c.Query = q
	if c.Fails == nil {
		c.Fails = []vc11Fail{}
	}
	if c.BodyKind < 0 || c.BodyKind > 4 {
		c.BodyKind = 0
	}
	if c.Auth < 0 || c.Auth > 8 {
		c.Auth = 0
	}
	if c.Kind == "client" && c.Call != "Pin" && c.Call != "PinPath" && c.Call != "Add" {
		c.Opts = vc11OptsIn{}
	}
	m := [][]string{}
	for _, kv := range c.Opts.Meta {
		if len(kv) == 2 {
			m = append(m, kv)
		}
	}
	c.Opts.Meta = m
}

func vc11FuzzyExpire(vals url.Values) bool { return vals.Get("expire-at") == "" && vals.Get("expire-in") != "" }

func vc11RunHTTP(rig *vc11Rig, c *vc11Case) vc11Obs {
	a := rig.open
	if c.Creds {
		a = rig.auth
	}
	rawq := vc11RawQuery(c)
	vals, _ := url.ParseQuery(rawq)
	rig.rec.reset(c.Fails, vc11FuzzyExpire(vals))
	u := &url.URL{Scheme: "http", Host: vc11Addr(a), Path: c.Path, RawPath: c.RawPath, RawQuery: rawq}
	var body io.Reader
	ctype := ""
	switch c.BodyKind {
	case 1:
		b, _ := json.Marshal(map[string]string{"peer_id": c.Body})
		body = bytes.NewReader(b)
		ctype = "application/json"
	case 2:
		body = strings.NewReader(c.Body)
		ctype = "application/json"
	case 3:
		var buf bytes.Buffer
		mw := multipart.NewWriter(&buf)
		mw.SetBoundary("verifboundary7d3c1a")
		fw, _ := mw.CreateFormFile("file", "vfile.txt")
		fw.Write([]byte(c.Body))
		mw.Close()
		body = &buf
		ctype = mw.FormDataContentType()
	case 4:
		body = strings.NewReader(c.Body)
		ctype = "multipart/form-data; boundary=verifboundary"
	}
	obs := vc11Obs{Calls: []vc11Call{}, URI: u.RequestURI()}
	req, err := http.NewRequest(c.Method, u.String(), body)
	if err != nil {
		obs.NetErr = err.Error()
		return obs
	}
	if ctype != "" {
		req.Header.Set("Content-Type", ctype)
	}
	vc11SetAuth(req, c.Auth)
	if c.Preflight {
		req.Header.Set("Origin", "http://verif.example")
		req.Header.Set("Access-Control-Request-Method", "POST")
	}
	res, err := vc11HTTP.Do(req)
	if err != nil {
		obs.NetErr = err.Error()
		return obs
	}
	b, _ := io.ReadAll(res.Body)
	res.Body.Close()
	obs.Status = res.StatusCode
	obs.NDocs = vc11CountDocs(b)
	obs.SErr = res.Trailer.Get("X-Stream-Error") != ""
	obs.Calls = rig.rec.snapshot()
	return obs
}

// ---------------------------------------------------------------------------------------------
// client calls
// ---------------------------------------------------------------------------------------------
func vc11MkOpts(in vc11OptsIn) api.PinOptions {
	o := api.PinOptions{ReplicationFactorMin: in.Rmin, ReplicationFactorMax: in.Rmax, Name: in.Name, ShardSize: in.Shard}
	if in.Direct {
		o.Mode = api.PinModeDirect
	}
	for _, a := range in.Allocs {
		if p, err := peer.Decode(a); err == nil {
			o.UserAllocations = append(o.UserAllocations, p)
		}
	}
	if in.Expire != "" {
		if t, err := time.Parse(time.RFC3339Nano, in.Expire); err == nil {
			o.ExpireAt = t
		}
	}
	if len(in.Meta) > 0 {
		o.Metadata = map[string]string{}
		for _, kv := range in.Meta {
			o.Metadata[kv[0]] = kv[1]
		}
	}
	if in.Update != "" {
		if c, err := cid.Decode(in.Update); err == nil {
			o.PinUpdate = c
		}
	}
	for _, s := range in.Origins {
		if a, err := ma.NewMultiaddr(s); err == nil {
			o.Origins = append(o.Origins, a)
		}
	}
	return o
}

func vc11JSON(v interface{}) string {
	b, err := json.Marshal(v)
	if err != nil {
		return "marshal-error:" + err.Error()
	}
	return string(b)
}

type vc11ClientOut struct {
	obs      vc11Obs
	expected string // JSON the client should return given what the service answered
	given    []string // the arguments given to the library, rendered like recorded RPC arguments
}

func vc11Clients(rig *vc11Rig, c *vc11Case) client.Client {
	a := rig.open
	if c.Creds {
		a = rig.auth
	}
	addr := vc11Addr(a)
	i := strings.LastIndex(addr, ":")
	maddr, _ := ma.NewMultiaddr(fmt.Sprintf("/ip4/%s/tcp/%s", addr[:i], addr[i+1:]))
	cfg := &client.Config{APIAddr: maddr, DisableKeepAlives: true, Timeout: 60 * time.Second}
	switch c.Auth {
	case 1:
		cfg.Username, cfg.Password = "alice", "wonderland"
	case 2:
		cfg.Username, cfg.Password = "bob", "builder:with:colons"
	case 3:
		cfg.Username, cfg.Password = "alice", "Wonderland"
	case 4:
		cfg.Username, cfg.Password = "mallory", "wonderland"
	case 8:
		cfg.Username, cfg.Password = "alice", "builder:with:colons"
	}
	cl, err := client.NewDefaultClient(cfg)
	if err != nil {
		panic(err)
	}
	return cl
}

func vc11RunClient(rig *vc11Rig, c *vc11Case) vc11ClientOut {
	cl := vc11Clients(rig, c)
	ctx, cancel := context.WithTimeout(context.Background(), 60*time.Second)
	defer cancel()
	opts := vc11MkOpts(c.Opts)
	rig.rec.reset(c.Fails, false)
	ci, _ := cid.Decode(c.Cid)
	pid, _ := peer.Decode(c.Peer)
	out := vc11ClientOut{obs: vc11Obs{Calls: []vc11Call{}}}
	var ret interface{}
	var err error
	var exp interface{}
	switch c.Call {
	case "ID":
		ret, err = cl.ID(ctx)
		exp = vc11ID(vc11Peer1, "verif1")
		out.given = []string{}
	case "Version":
		ret, err = cl.Version(ctx)
		exp = &api.Version{Version: "0.0.verif"}
		out.given = []string{}
	case "Peers":
		ret, err = cl.Peers(ctx)
		exp = []*api.ID{vc11ID(vc11Peer1, "verif1"), vc11ID(vc11Peer2, "verif2")}
		out.given = []string{}
	case "PeerAdd":
		ret, err = cl.PeerAdd(ctx, pid)
		exp = vc11ID(pid, "added")
		out.given = []string{peer.Encode(pid)}
	case "PeerRm":
		err = cl.PeerRm(ctx, pid)
		ret, exp = nil, nil
		out.given = []string{peer.Encode(pid)}
	case "Pin":
		ret, err = cl.Pin(ctx, ci, opts)
		exp = vc11PinAnswer(ci, opts.Name)
		out.given = []string{ci.String(), vc11Opts(opts, false), "-1"}
	case "Unpin":
		ret, err = cl.Unpin(ctx, ci)
		exp = vc11PinAnswer(ci, "unpinned")
		out.given = []string{ci.String(), vc11Opts(api.PinOptions{}, false), "-1"}
	case "PinPath":
		ret, err = cl.PinPath(ctx, c.Path, opts)
		exp = vc11PinAnswer(vc11Cid1, opts.Name)
		p, perr := gopath.ParsePath(c.Path)
		out.given = []string{strings.TrimSuffix(p.String(), "/"), vc11Opts(opts, false)} // a trailing '/' does not change which IPFS path is meant (the API strips it)
		if perr != nil {
			out.given = nil
		}
	case "UnpinPath":
		ret, err = cl.UnpinPath(ctx, c.Path)
		exp = vc11PinAnswer(vc11Cid1, "unpinned-path")
		p, perr := gopath.ParsePath(c.Path)
		out.given = []string{strings.TrimSuffix(p.String(), "/"), vc11Opts(api.PinOptions{}, false)}
		if perr != nil {
			out.given = nil
		}
	case "Allocations":
		f := api.PinType(c.Filter)
		ret, err = cl.Allocations(ctx, f)
		sel := []*api.Pin{}
		for _, p := range vc11AllPins() {
			if f&p.Type > 0 {
				sel = append(sel, p)
			}
		}
		exp = sel
		out.given = []string{}
	case "Allocation":
		ret, err = cl.Allocation(ctx, ci)
		exp = vc11PinAnswer(ci, "got")
		out.given = []string{ci.String()}
	case "Status":
		ret, err = cl.Status(ctx, ci, c.Local)
		if c.Local {
			exp = vc11PI(ci).ToGlobal()
		} else {
			exp = vc11GPI(ci)
		}
		out.given = []string{ci.String()}
	case "StatusAll":
		ret, err = cl.StatusAll(ctx, api.TrackerStatus(c.Filter), c.Local)
		if c.Local {
			exp = []*api.GlobalPinInfo{vc11PI(vc11Cid1).ToGlobal(), vc11PI(vc11Cid2).ToGlobal()}
		} else {
			exp = []*api.GlobalPinInfo{vc11GPI(vc11Cid1), vc11GPI(vc11Cid2)}
		}
		out.given = []string{fmt.Sprintf("%d", c.Filter)}
	case "Recover":
		ret, err = cl.Recover(ctx, ci, c.Local)
		if c.Local {
			exp = vc11PI(ci).ToGlobal()
		} else {
			exp = vc11GPI(ci)
		}
		out.given = []string{ci.String()}
	case "RecoverAll":
		ret, err = cl.RecoverAll(ctx, c.Local)
		if c.Local {
			exp = []*api.GlobalPinInfo{vc11PI(vc11Cid3).ToGlobal()}
		} else {
			exp = []*api.GlobalPinInfo{vc11GPI(vc11Cid3)}
		}
		out.given = []string{}
	case "Alerts":
		ret, err = cl.Alerts(ctx)
		exp = []api.Alert{{Metric: api.Metric{Name: "ping", Peer: vc11Peer2, Value: "1", Expire: 17, Valid: true, ReceivedAt: 5}, TriggeredAt: vc11TS}}
		out.given = []string{}
	case "GetConnectGraph":
		ret, err = cl.GetConnectGraph(ctx)
		var g api.ConnectGraph
		(&vc11Cluster{&vc11Rec{seen: map[string]int{}}}).ConnectGraph(ctx, struct{}{}, &g)
		exp = &g
		out.given = []string{}
	case "Metrics":
		ret, err = cl.Metrics(ctx, c.Name)
		exp = []*api.Metric{{Name: c.Name, Peer: vc11Peer1, Value: "42", Expire: 99, Valid: true, ReceivedAt: 7}}
		out.given = []string{c.Name}
	case "MetricNames":
		ret, err = cl.MetricNames(ctx)
		exp = []string{"ping", "freespace"}
		out.given = []string{}
	case "RepoGC":
		ret, err = cl.RepoGC(ctx, c.Local)
		exp = &api.GlobalRepoGC{PeerMap: map[string]*api.RepoGC{peer.Encode(vc11Peer1): vc11GC()}}
		out.given = []string{}
	case "Add":
		params := api.DefaultAddParams()
		params.PinOptions = opts
		params.Metadata = opts.Metadata
		if params.Metadata == nil {
			params.Metadata = map[string]string{}
		}
		outCh := make(chan *api.AddedOutput, 16)
		done := make(chan []*api.AddedOutput)
		go func() {
			var l []*api.AddedOutput
			for o := range outCh {
				l = append(l, o)
			}
			done <- l
		}()
		sf := files.NewMapDirectory(map[string]files.Node{"vfile.txt": files.NewBytesFile([]byte(c.Body))})
		err = cl.AddMultiFile(ctx, files.NewMultiFileReader(sf, true), params, outCh)
		l := <-done
		ret, exp = nil, nil
		o2 := opts
		o2.Mode = api.PinModeRecursive
		o2.PinUpdate = cid.Undef
		root := ""
		if len(l) > 0 {
			root = l[len(l)-1].Cid.String()
		}
		out.given = []string{root, vc11Opts(o2, false), "-1"}
	default:
		out.obs.NetErr = "unknown client call " + c.Call
		return out
	}
	out.obs.Calls = rig.rec.snapshot()
	if err != nil {
		out.obs.ErrMsg = err.Error()
		if ae, ok := err.(*api.Error); ok {
			out.obs.ErrCode = ae.Code
			if ae.Code == 0 {
				out.obs.ErrCode = -1
			}
		} else {
			out.obs.ErrCode = -1
			out.obs.Refused = len(out.obs.Calls) == 0
		}
	} else {
		out.obs.Ret = vc11JSON(ret)
	}
	out.expected = vc11JSON(exp)
	return out
}

// ---------------------------------------------------------------------------------------------
// Coq terms
// ---------------------------------------------------------------------------------------------
func vc11Printable(s string) bool {
	for i := 0; i < len(s); i++ {
		if s[i] < 0x20 || s[i] > 0x7e {
			return false
		}
	}
	return true
}

func vc11S(s string) string {
	if vc11Printable(s) {
		return cqStr(s)
	}
	xs := make([]string, len(s))
	for i := 0; i < len(s); i++ {
		xs[i] = fmt.Sprintf("%d", s[i])
	}
	return "(bs [" + strings.Join(xs, ";") + "])"
}

func vc11OptS(ok bool, s string) string {
	if !ok {
		return "None"
	}
	return "(Some " + vc11S(s) + ")"
}

func vc11CleanPath(p string) string {
	if p == "" {
		return "/"
	}
	if p[0] != '/' {
		p = "/" + p
	}
	np := gopathlib.Clean(p)
	if p[len(p)-1] == '/' && np != "/" {
		np += "/"
	}
	return np
}

func vc11CallsTerm(cs []vc11Call) string {
	xs := []string{}
	for _, c := range cs {
		as := []string{}
		for _, a := range c.Args {
			as = append(as, vc11S(a))
		}
		xs = append(xs, fmt.Sprintf("(%s, %s, %s)", cqStr(c.M), cqList(as), cqBool(c.Failed)))
	}
	return cqList(xs)
}

func vc11FailsTerm(fs []vc11Fail) string {
	xs := []string{}
	for _, f := range fs {
		xs = append(xs, fmt.Sprintf("(%s, %d, %d)", cqStr(f.M), f.K, f.Kind))
	}
	return cqList(xs)
}

func vc11QVals(vals url.Values) string {
	keys := []string{}
	for k := range vals {
		keys = append(keys, k)
	}
	sort.Strings(keys)
	qv := []string{}
	for _, k := range keys {
		vs := []string{}
		for _, v := range vals[k] {
			vs = append(vs, vc11S(v))
		}
		qv = append(qv, "("+vc11S(k)+", "+cqList(vs)+")")
	}
	return cqList(qv)
}

// parse outcomes of every string the handlers may hand to a parser for this path
func vc11ParseEnvs(p string) (cids, peers, paths string) {
	segs := strings.Split(p, "/")
	seen := map[string]bool{}
	var cs, ps []string
	for _, s := range append(segs, "") {
		if seen[s] {
			continue
		}
		seen[s] = true
		c, err := cid.Decode(s)
		str := ""
		if err == nil {
			str = c.String()
		}
		cs = append(cs, "("+vc11S(s)+", "+vc11OptS(err == nil, str)+")")
		pid, err := peer.Decode(s)
		str = ""
		if err == nil {
			str = peer.Encode(pid)
		}
		ps = append(ps, "("+vc11S(s)+", "+vc11OptS(err == nil, str)+")")
	}
	var pp []string
	if strings.HasPrefix(p, "/pins/") {
		rest := p[len("/pins"):]
		cands := []string{rest, strings.TrimSuffix(rest, "/")}
		seenp := map[string]bool{}
		for _, s := range cands {
			if seenp[s] {
				continue
			}
			seenp[s] = true
			gp, err := gopath.ParsePath(s)
			pp = append(pp, "("+vc11S(s)+", "+vc11OptS(err == nil, gp.String())+")")
		}
	}
	return cqList(cs), cqList(ps), cqList(pp)
}

func vc11BasicAuth(c *vc11Case) string {
	req, _ := http.NewRequest("GET", "http://x/", nil)
	vc11SetAuth(req, c.Auth)
	u, p, ok := req.BasicAuth()
	if !ok {
		return "None"
	}
	return fmt.Sprintf("(Some (%s, %s))", vc11S(u), vc11S(p))
}

func vc11CredsTerm(rig *vc11Rig, configured bool) string {
	if !configured {
		return "None"
	}
	keys := []string{}
	for k := range rig.creds {
		keys = append(keys, k)
	}
	sort.Strings(keys)
	xs := []string{}
	for _, k := range keys {
		xs = append(xs, fmt.Sprintf("(%s, %s)", vc11S(k), vc11S(rig.creds[k])))
	}
	return "(Some " + cqList(xs) + ")"
}

func vc11HTTPTerm(rig *vc11Rig, c *vc11Case, o *vc11Obs) string {
	rawq := vc11RawQuery(c)
	vals, _ := url.ParseQuery(rawq)
	fuzzy := vc11FuzzyExpire(vals)
	cids, peers, paths := vc11ParseEnvs(c.Path)
	// PinOptions.FromQuery (mutates its argument)
	v2, _ := url.ParseQuery(rawq)
	po := api.PinOptions{}
	popts := "None"
	if err := po.FromQuery(v2); err == nil {
		popts = "(Some " + vc11S(vc11Opts(po, fuzzy)) + ")"
	}
	v3, _ := url.ParseQuery(rawq)
	addp := "None"
	impOK := c.ImpOK
	if ap, err := api.AddParamsFromQuery(v3); err == nil {
		o2 := ap.PinOptions
		o2.Mode = api.PinModeRecursive // single.New
		addp = fmt.Sprintf("(Some (%s, %s))", vc11S(vc11Opts(o2, fuzzy)), cqBool(ap.StreamChannels))
		if ap.NoCopy {
			// the go-unixfs importer refuses nocopy for content that is not a file with a path or URL (a multipart upload never is)
			impOK = false
		}
	}
	// status filter
	fs := vals.Get("filter")
	tf := api.TrackerStatusFromString(fs)
	tfilter := fmt.Sprintf("(Some %s)", cqStr(fmt.Sprintf("%d", int(tf))))
	if tf == api.TrackerStatusUndefined && fs != "" {
		tfilter = "None"
	}
	var pf api.PinType
	for _, f := range strings.Split(fs, ",") {
		pf |= api.PinTypeFromString(f)
	}
	// POST /peers body
	bodyT := "BodyBad"
	switch c.BodyKind {
	case 1, 2:
		raw := []byte(c.Body)
		if c.BodyKind == 1 {
			raw, _ = json.Marshal(map[string]string{"peer_id": c.Body})
		}
		var pb peerAddBody
		if err := json.NewDecoder(bytes.NewReader(raw)).Decode(&pb); err == nil {
			if pid, err := peer.Decode(pb.PeerID); err == nil {
				bodyT = "(PidOk " + vc11S(peer.Encode(pid)) + ")"
			} else {
				bodyT = "PidBad"
			}
		}
	}
	mp := 0
	if c.BodyKind == 3 {
		mp = 1
	} else if c.BodyKind == 4 {
		mp = 2
	}
	root := ""
	for _, cl := range o.Calls {
		if cl.M == "Cluster.Pin" && len(cl.Args) > 0 {
			root = cl.Args[0]
		}
	}
	reqT := fmt.Sprintf("mk_rreq %s %s %s %s", vc11S(c.Method), vc11S(c.Path), vc11QVals(vals), cqBool(c.Preflight && c.Method == "OPTIONS"))
	envT := fmt.Sprintf("mk_renv %s %s %s %s %s %s %s %s %s %s %s %d %s %s %s", vc11CredsTerm(rig, c.Creds), vc11BasicAuth(c),
		cqBool(vc11CleanPath(c.Path) != c.Path), cids, peers, paths, popts, addp, tfilter, cqBool(pf != api.BadType), bodyT, mp, cqBool(impOK), vc11S(root), vc11FailsTerm(c.Fails))
	obsT := fmt.Sprintf("mk_robs %s %d %d %s", vc11CallsTerm(o.Calls), o.Status, o.NDocs, cqBool(o.SErr))
	return fmt.Sprintf("CHttp (%s)\n   (%s)\n   %s (%s)", reqT, envT, cqBool(c.Cmp), obsT)
}

func vc11ClientTerm(rig *vc11Rig, c *vc11Case, co *vc11ClientOut) string {
	opts := vc11MkOpts(c.Opts)
	// what the library prints, and what the abstract parsers make of it (print -> parse round trips)
	rtOpts := "None"
	if q, err := opts.ToQuery(); err == nil {
		if vals, err := url.ParseQuery(q); err == nil {
			po := api.PinOptions{}
			if err := po.FromQuery(vals); err == nil {
				rtOpts = "(Some " + vc11S(vc11Opts(po, false)) + ")"
			}
		}
	}
	rtAdd := "None"
	{
		params := api.DefaultAddParams()
		params.PinOptions = opts
		params.StreamChannels = true
		if q, err := params.ToQueryString(); err == nil {
			if vals, err := url.ParseQuery(q); err == nil {
				if ap, err := api.AddParamsFromQuery(vals); err == nil {
					o2 := ap.PinOptions
					o2.Mode = api.PinModeRecursive
					rtAdd = "(Some (" + vc11S(vc11Opts(o2, false)) + ", true))"
				}
			}
		}
	}
	ci, _ := cid.Decode(c.Cid)
	cidStr := ""
	if ci.Defined() {
		cidStr = ci.String()
	}
	rtCid := "None"
	if c2, err := cid.Decode(cidStr); err == nil {
		rtCid = "(Some " + vc11S(c2.String()) + ")"
	}
	pid, _ := peer.Decode(c.Peer)
	peerStr := pid.Pretty()
	rtPeer := "None"
	if p2, err := peer.Decode(peerStr); err == nil {
		rtPeer = "(Some " + vc11S(peer.Encode(p2)) + ")"
	}
	pathStr := "None"
	rtPath := "None"
	if p, err := gopath.ParsePath(c.Path); err == nil {
		pathStr = "(Some " + vc11S(p.String()) + ")"
		// the server re-parses "/" + keyType + "/" + TrimSuffix(path, "/")
		if p2, err := gopath.ParsePath(strings.TrimSuffix(p.String(), "/")); err == nil {
			rtPath = "(Some " + vc11S(p2.String()) + ")"
		}
	}
	// status filter: String() then TrackerStatusFromString
	filterStr := "None"
	rtFilter := "None"
	tf := api.TrackerStatus(c.Filter)
	if tf == api.TrackerStatusUndefined {
		filterStr = "(Some \"\")"
		rtFilter = "(Some \"0\")"
	} else if fs := tf.String(); fs != "" {
		filterStr = "(Some " + vc11S(fs) + ")"
		back := api.TrackerStatusFromString(fs)
		if back != api.TrackerStatusUndefined {
			rtFilter = fmt.Sprintf("(Some %s)", cqStr(fmt.Sprintf("%d", int(back))))
		}
	}
	given := "None"
	if co.given != nil {
		xs := []string{}
		for _, g := range co.given {
			xs = append(xs, vc11S(g))
		}
		given = "(Some " + cqList(xs) + ")"
	}
	root := ""
	for _, cl := range co.obs.Calls {
		if cl.M == "Cluster.Pin" && len(cl.Args) > 0 {
			root = cl.Args[0]
		}
	}
	callT := fmt.Sprintf("mk_ccall %s %s %s %s %s %s %s %s", cqStr(c.Call), cqBool(c.Local), vc11S(cidStr), vc11S(peerStr), pathStr, vc11S(c.Name), filterStr, given)
	envT := fmt.Sprintf("mk_cenv %s %s %s %s %s %s %s %s %s %s %s", vc11CredsTerm(rig, c.Creds), vc11BasicAuth(c), rtCid, rtPeer, rtPath, rtOpts, rtAdd, rtFilter,
		vc11S(root), vc11FailsTerm(c.Fails), vc11S(co.expected))
	o := &co.obs
	obsT := fmt.Sprintf("mk_cobs %s %s %s %s", vc11CallsTerm(o.Calls), cqZ(int64(o.ErrCode)), vc11S(o.Ret), cqBool(o.Refused))
	return fmt.Sprintf("CClient (%s)\n   (%s)\n   (%s)", callT, envT, obsT)
}

// ---------------------------------------------------------------------------------------------
// generators
// ---------------------------------------------------------------------------------------------
var (
	vc11GoodCids  = []string{"QmP63DkAFEnDYNjDYBpyNDfttu1fvUw99x1brscPzpqmmq", "bafyreiay3jpjk74dkckv2r74eyvf3lfnxujefay2rtuluintasq2zlapv4", "QmP63DkAFEnDYNjDYBpyNDfttu1fvUw99x1brscPzpqmmb", "zb2rhiKhUepkTMw7oFfBUnChAN7ABAvg2hXUwmTBtZ6yxuabc"}
	vc11BadCids   = []string{"invalidhash", "Qm", "x", "QmP63DkAFEnDYNjDYBpyNDfttu1fvUw99x1brscPzpqmm", "recover", "ipfs", "a b", "bafyreiay3jpjk74dkckv2r74eyvf3lfnxujefay2rtuluintasq2zlapv4x"}
	vc11GoodPeers = []string{"QmXZrtE5jQwXNqCJMfHUTQkvhQ4ZAnqMnmzFMJfLewuabc", "QmUZ13osndQ5uL4tPWHXe3iBgBgq9gfewcBMSCAuMBsDJ6", "12D3KooWGQmdpzHXCqLno4mMxWXKNFQHASBeF99gTm2JR8Vu5Bdc"}
	vc11BadPeers  = []string{"notapeer", "Qm", "", "QmXZrtE5jQwXNqCJMfHUTQkvhQ4ZAnqMnmzFMJfLewuab", "123"}
	vc11GoodPaths = []string{"/ipfs/QmaNJ5acV31sx8jq626qTpAWW4DXKw34aGhx53dECLvXbY", "/ipfs/QmbUNM297ZwxB8CfFAznK7H9YMesDoY6Tt5bPgt5MSCB2u/im.gif", "/ipfs/QmbUNM297ZwxB8CfFAznK7H9YMesDoY6Tt5bPgt5MSCB2u/im.gif/",
		"/ipns/QmbmSAQNnfGcBAB8M8AsSPxd1TY7cpT9hZ398kXAScn2Ka", "/ipld/QmaNJ5acV31sx8jq626qTpAWW4DXKw34aGhx53dECLvXbY", "/ipns/example.com/a/b", "/ipfs/bafyreiay3jpjk74dkckv2r74eyvf3lfnxujefay2rtuluintasq2zlapv4/x"}
	// path components that need URL escaping (S27): '%', '?', '#', ' ' inside an IPFS path or a metric name
	vc11OddPaths = []string{"/ipfs/QmaNJ5acV31sx8jq626qTpAWW4DXKw34aGhx53dECLvXbY/a b", "/ipfs/QmbUNM297ZwxB8CfFAznK7H9YMesDoY6Tt5bPgt5MSCB2u/100%25.gif", "/ipns/example.com/a?b#c",
		"/ipns/example.com/x%2Fy", "/ipfs/QmaNJ5acV31sx8jq626qTpAWW4DXKw34aGhx53dECLvXbY/%zz", "/ipns/recover", "/ipfs/QmaNJ5acV31sx8jq626qTpAWW4DXKw34aGhx53dECLvXbY/recover"}
	vc11OddNames = []string{"a%41", "a?b", "a#b", "a b", "100%", "%zz", "x%2Fy"}
	vc11BadPaths  = []string{"/ipfs/invalidhash", "/ipfs/", "/ipfs", "/ipld/x/y", "/ipfs/Qm", "/ipns/", "/ipfs//a"}
	vc11Origins   = []string{"/ip4/1.2.3.4/tcp/4001/p2p/QmXZrtE5jQwXNqCJMfHUTQkvhQ4ZAnqMnmzFMJfLewuabc", "/dns4/example.com/tcp/4001/p2p/QmUZ13osndQ5uL4tPWHXe3iBgBgq9gfewcBMSCAuMBsDJ6"}
	vc11Statuses  = []string{"cluster_error", "pin_error", "unpin_error", "error", "pinned", "pinning", "unpinning", "unpinned", "remote", "pin_queued", "unpin_queued", "queued", "sharded", "unexpectedly_unpinned"}
)

func vc11Pick(r *vRand, xs []string) string { return xs[r.intn(len(xs))] }

func vc11Cid(r *vRand, goodPct int) string {
	if r.chance(goodPct) {
		return vc11Pick(r, vc11GoodCids)
	}
	return vc11Pick(r, vc11BadCids)
}

// pin options as query pairs: each option valid or invalid
func vc11PinQuery(r *vRand, c *vc11Case, pct int) {
	add := func(k string, good, bad []string, badPct int) {
		if !r.chance(pct) {
			return
		}
		if r.chance(badPct) && len(bad) > 0 {
			c.Query = append(c.Query, []string{k, vc11Pick(r, bad)})
		} else {
			c.Query = append(c.Query, []string{k, vc11Pick(r, good)})
		}
	}
	add("name", []string{"n1", "a name", "", "n&=?"}, nil, 0)
	add("mode", []string{"recursive", "direct", ""}, []string{"weird"}, 15)
	add(vc11Pick(r, []string{"replication-min", "replication-max", "replication"}), []string{"1", "2", "-1", "0", "3"}, []string{"x", "1.5", "1e3", " 1", "99999999999999999999"}, 22)
	add("replication-max", []string{"3", "-1"}, []string{"y"}, 15)
	add("shard-size", []string{"1000000", "0", "18446744073709551615"}, []string{"-1", "x", "18446744073709551616"}, 25)
	add("user-allocations", []string{vc11GoodPeers[0], vc11GoodPeers[0] + "," + vc11GoodPeers[1]}, []string{"notapeer", vc11GoodPeers[0] + ",zzz"}, 20)
	add("expire-at", []string{"2031-01-02T03:04:05Z", "2031-01-02T03:04:05.123456789+02:00"}, []string{"tomorrow", "2031-01-02", "1700000000"}, 25)
	add("expire-in", []string{"1h", "90m", "1s"}, []string{"1ms", "x", "-1h", "999ms"}, 30)
	add("meta-k1", []string{"v1", "", "v 2"}, nil, 0)
	add(vc11Pick(r, []string{"meta-", "meta-other", "metak"}), []string{"v"}, nil, 0)
	add("pin-update", []string{vc11GoodCids[0], vc11GoodCids[1]}, []string{"invalidhash", "Qm"}, 30)
	add("origins", []string{vc11Origins[0], vc11Origins[0] + "," + vc11Origins[1]}, []string{"/ip4/1.2.3.4/tcp/4001", "notanaddr", vc11Origins[0] + ",/ip4/1.2.3.4", "/ip4/1.2.3.4/tcp/x/p2p/QmXZrtE5jQwXNqCJMfHUTQkvhQ4ZAnqMnmzFMJfLewuabc"}, 30)
}

func vc11GenFails(r *vRand, c *vc11Case, methods []string, pct int) {
	if r.chance(pct) && len(methods) > 0 {
		c.Fails = append(c.Fails, vc11Fail{M: vc11Pick(r, methods), K: r.intn(100) / 85, Kind: r.intn(2)})
	}
}

func vc11GenAuth(r *vRand, c *vc11Case) {
	c.Creds = r.chance(35)
	switch x := r.intn(100); {
	case !c.Creds && x < 80:
		c.Auth = 0
	case !c.Creds:
		c.Auth = r.rng(1, 8)
	case x < 50:
		c.Auth = r.rng(1, 2)
	default:
		c.Auth = []int{0, 0, 3, 4, 5, 6, 7, 8}[r.intn(8)]
	}
}

type vc11RouteGen struct {
	method string
	mk     func(r *vRand, c *vc11Case)
	rpcs   []string
}

func vc11Local(r *vRand, c *vc11Case) {
	if r.chance(45) {
		c.Query = append(c.Query, []string{"local", vc11Pick(r, []string{"true", "true", "false", "", "1", "True"})})
	}
}

func vc11Routes() []vc11RouteGen {
	plain := func(p string) func(r *vRand, c *vc11Case) {
		return func(r *vRand, c *vc11Case) { c.Path = p }
	}
	return []vc11RouteGen{
		{"GET", plain("/id"), []string{"Cluster.ID"}},
		{"GET", plain("/version"), []string{"Cluster.Version"}},
		{"GET", plain("/peers"), []string{"Cluster.Peers"}},
		{"POST", func(r *vRand, c *vc11Case) {
			c.Path = "/peers"
			switch x := r.intn(100); {
			case x < 55:
				c.BodyKind, c.Body = 1, vc11Pick(r, vc11GoodPeers)
			case x < 75:
				c.BodyKind, c.Body = 1, vc11Pick(r, vc11BadPeers)
			case x < 92:
				c.BodyKind, c.Body = 2, vc11Pick(r, []string{"", "{", "[]", "\"str\"", "{\"peer_id\": 5}", "{\"peer\": \"x\"}", "{\"peer_id\":\"" + vc11GoodPeers[0] + "\"} trailing", "null", "{\"peer_id\":\"" + vc11GoodPeers[1] + "\",\"x\":1}"})
			default:
				c.BodyKind = 0
			}
		}, []string{"Cluster.PeerAdd"}},
		{"DELETE", func(r *vRand, c *vc11Case) {
			if r.chance(65) {
				c.Path = "/peers/" + vc11Pick(r, vc11GoodPeers)
			} else {
				c.Path = "/peers/" + vc11Pick(r, []string{"notapeer", "Qm", "123", "QmXZrtE5jQwXNqCJMfHUTQkvhQ4ZAnqMnmzFMJfLewuab"})
			}
		}, []string{"Cluster.PeerRemove"}},
		{"POST", func(r *vRand, c *vc11Case) {
			c.Path = "/add"
			c.BodyKind = 3
			if r.chance(10) {
				c.BodyKind = 0
			} else if r.chance(6) {
				c.BodyKind = 4
			}
			n := r.rng(1, 200)
			b := make([]byte, n)
			for i := range b {
				b[i] = byte(0x20 + r.intn(0x5f))
			}
			c.Body = string(b)
			vc11PinQuery(r, c, 12)
			opt := func(k string, vs []string) {
				if r.chance(18) {
					c.Query = append(c.Query, []string{k, vc11Pick(r, vs)})
				}
			}
			opt("layout", []string{"trickle", "balanced", "", "weird"})
			if r.chance(15) {
				ch := vc11Pick(r, []string{"size-1024", "size-262144", "", "nonsense-1"})
				c.Query = append(c.Query, []string{"chunker", ch})
				if ch == "nonsense-1" {
					c.ImpOK = false
				}
			}
			opt("stream-channels", []string{"true", "false", "false", "maybe"})
			opt(vc11Pick(r, []string{"local", "hidden", "wrap-with-directory", "raw-leaves", "progress", "nocopy", "recursive"}), []string{"true", "false", "nope"})
			opt("cid-version", []string{"0", "1", "x"})
			opt("format", []string{"unixfs", "", "zip"})
		}, []string{"Cluster.BlockAllocate", "IPFSConnector.BlockPut", "Cluster.Pin"}},
		{"GET", func(r *vRand, c *vc11Case) {
			c.Path = "/allocations"
			if r.chance(70) {
				c.Query = append(c.Query, []string{"filter", vc11Pick(r, []string{"pin", "meta-pin", "clusterdag-pin", "shard-pin", "all", "", "pin,shard-pin", "garbage", "pin,garbage", "Pin", "all,"})})
			}
		}, []string{"Cluster.Pins"}},
		{"GET", func(r *vRand, c *vc11Case) { c.Path = "/allocations/" + vc11Cid(r, 65); vc11PinQuery(r, c, 6) }, []string{"Cluster.PinGet"}},
		{"GET", func(r *vRand, c *vc11Case) {
			c.Path = "/pins"
			vc11Local(r, c)
			if r.chance(70) {
				f := vc11Pick(r, vc11Statuses)
				for r.chance(35) {
					f += "," + vc11Pick(r, vc11Statuses)
				}
				if r.chance(25) {
					f = vc11Pick(r, []string{"garbage", "pinned,garbage", "", ",", " pinned ", "undefined", "Pinned", "pinned;error"})
				}
				c.Query = append(c.Query, []string{"filter", f})
			}
		}, []string{"Cluster.StatusAll", "Cluster.StatusAllLocal"}},
		{"POST", func(r *vRand, c *vc11Case) { c.Path = "/pins/" + vc11Cid(r, 65) + "/recover"; vc11Local(r, c); vc11PinQuery(r, c, 6) }, []string{"Cluster.Recover", "Cluster.RecoverLocal"}},
		{"POST", func(r *vRand, c *vc11Case) { c.Path = "/pins/recover"; vc11Local(r, c) }, []string{"Cluster.RecoverAll", "Cluster.RecoverAllLocal"}},
		{"GET", func(r *vRand, c *vc11Case) { c.Path = "/pins/" + vc11Cid(r, 65); vc11Local(r, c); vc11PinQuery(r, c, 6) }, []string{"Cluster.Status", "Cluster.StatusLocal"}},
		{"POST", func(r *vRand, c *vc11Case) { c.Path = "/pins/" + vc11Cid(r, 75); vc11PinQuery(r, c, 28) }, []string{"Cluster.Pin"}},
		{"POST", func(r *vRand, c *vc11Case) {
			if r.chance(12) {
				c.Path = "/pins" + vc11Pick(r, vc11OddPaths)
			} else if r.chance(70) {
				c.Path = "/pins" + vc11Pick(r, vc11GoodPaths)
			} else {
				c.Path = "/pins" + vc11Pick(r, vc11BadPaths)
			}
			vc11PinQuery(r, c, 28)
		}, []string{"Cluster.PinPath"}},
		{"DELETE", func(r *vRand, c *vc11Case) { c.Path = "/pins/" + vc11Cid(r, 75); vc11PinQuery(r, c, 8) }, []string{"Cluster.Unpin"}},
		{"DELETE", func(r *vRand, c *vc11Case) {
			if r.chance(70) {
				c.Path = "/pins" + vc11Pick(r, vc11GoodPaths)
			} else {
				c.Path = "/pins" + vc11Pick(r, vc11BadPaths)
			}
			vc11PinQuery(r, c, 8)
		}, []string{"Cluster.UnpinPath"}},
		{"POST", func(r *vRand, c *vc11Case) { c.Path = "/ipfs/gc"; vc11Local(r, c) }, []string{"Cluster.RepoGC", "Cluster.RepoGCLocal"}},
		{"GET", plain("/health/graph"), []string{"Cluster.ConnectGraph"}},
		{"GET", plain("/health/alerts"), []string{"Cluster.Alerts"}},
		{"GET", func(r *vRand, c *vc11Case) { c.Path = "/monitor/metrics/" + vc11Pick(r, []string{"ping", "freespace", "x", "a b", "a.b", "%41"}) }, []string{"PeerMonitor.LatestMetrics"}},
		{"GET", plain("/monitor/metrics"), []string{"PeerMonitor.MetricNames"}},
	}
}

func vc11GenHTTP(r *vRand, routes []vc11RouteGen) vc11Case {
	c := vc11Case{Kind: "http", Cmp: true, ImpOK: true, Fails: []vc11Fail{}, Query: [][]string{}}
	vc11GenAuth(r, &c)
	rt := routes[r.intn(len(routes))]
	// the heavier routes more often
	if r.chance(35) {
		rt = routes[[]int{12, 13, 14, 15, 5, 8, 11, 9}[r.intn(8)]]
	}
	c.Method = rt.method
	rt.mk(r, &c)
	vc11GenFails(r, &c, rt.rpcs, 22)
	switch x := r.intn(100); {
	case x < 8: // wrong method on a known path
		c.Method = vc11Pick(r, []string{"GET", "POST", "DELETE", "PUT", "PATCH", "HEAD", "OPTIONS", "get"})
	case x < 13: // trailing slash (StrictSlash)
		c.Path += "/"
	case x < 15:
		c.Method = "OPTIONS"
		c.Preflight = true
	}
	if r.chance(4) {
		c.Query = append(c.Query, []string{vc11Pick(r, []string{"x", "verbose", "Local"}), "true"})
	}
	return c
}

func vc11GenUnknown(r *vRand) vc11Case {
	c := vc11Case{Kind: "http", Cmp: true, ImpOK: true, Fails: []vc11Fail{}, Query: [][]string{}}
	vc11GenAuth(r, &c)
	c.Method = vc11Pick(r, []string{"GET", "POST", "DELETE", "PUT", "PATCH", "HEAD", "OPTIONS", "FOO"})
	c.Path = vc11Pick(r, []string{"/", "/ids", "/id/x", "/pin", "/pins/a/b", "/pins/" + vc11GoodCids[0] + "/recover/x", "/pins/" + vc11GoodCids[0] + "/x", "/allocations/a/b", "/peers/a/b",
		"/monitor", "/monitor/metrics/a/b", "/health", "/ipfs", "/ipfs/gc/x", "/api/v0/id", "/ID", "/Pins", "/pins/ipfs", "/pins/ipfs/", "/pins/ipxx/" + vc11GoodCids[0], "/add/x", "/version/", "//id", "/pins/../id", "/./pins",
		"/pins/" + vc11GoodCids[0] + "//recover", "/pins/%2e%2e/id", "/pins/ipns", "/pins/ipld/"})
	if r.chance(30) {
		c.RawPath = vc11Pick(r, []string{"/pins/ipfs%2F" + "QmaNJ5acV31sx8jq626qTpAWW4DXKw34aGhx53dECLvXbY", "/pins/Qm%2Frecover", "/peers%2F" + vc11GoodPeers[0], "/pins/" + vc11GoodCids[0] + "%2Frecover", "/monitor/metrics/a%2Fb", "/id%20"})
	}
	if r.chance(40) {
		vc11PinQuery(r, &c, 15)
	}
	return c
}

func vc11GenClient(r *vRand) vc11Case {
	c := vc11Case{Kind: "client", Cmp: true, ImpOK: true, Fails: []vc11Fail{}, Query: [][]string{}}
	c.Creds = r.chance(30)
	if c.Creds {
		c.Auth = []int{1, 1, 1, 2, 2, 0, 3, 4, 8}[r.intn(9)]
	} else if r.chance(10) {
		c.Auth = r.rng(1, 4)
	}
	calls := []string{"ID", "Version", "Peers", "PeerAdd", "PeerRm", "Pin", "Pin", "Pin", "Unpin", "PinPath", "PinPath", "UnpinPath", "Allocations", "Allocation", "Status", "StatusAll", "StatusAll", "StatusAll",
		"Recover", "RecoverAll", "Alerts", "GetConnectGraph", "Metrics", "MetricNames", "RepoGC", "Add"}
	c.Call = calls[r.intn(len(calls))]
	c.Cid = vc11Pick(r, vc11GoodCids)
	c.Peer = vc11Pick(r, vc11GoodPeers)
	c.Local = r.chance(45)
	c.Name = vc11Pick(r, []string{"ping", "freespace", "a.b", "x_y-z", "numpin"})
	if r.chance(25) {
		c.Name = vc11Pick(r, vc11OddNames)
	}
	if r.chance(15) {
		c.Path = vc11Pick(r, vc11OddPaths)
	} else if r.chance(80) {
		c.Path = vc11Pick(r, append(vc11GoodPaths, "QmaNJ5acV31sx8jq626qTpAWW4DXKw34aGhx53dECLvXbY", "QmbUNM297ZwxB8CfFAznK7H9YMesDoY6Tt5bPgt5MSCB2u/im.gif"))
	} else {
		c.Path = vc11Pick(r, vc11BadPaths)
	}
	switch c.Call {
	case "StatusAll":
		switch x := r.intn(100); {
		case x < 15:
			c.Filter = 0
		case x < 45:
			c.Filter = 1 << uint(r.rng(1, 12))
		case x < 90:
			c.Filter = r.intn(1<<13) &^ 1
		default:
			// only undefined bits: the library refuses (a filter is documented as an OR of defined statuses; mixed masks are outside that domain)
			c.Filter = []int{1, 1 << 13, 1 << 14, 1 | 1<<13}[r.intn(4)]
		}
	case "Allocations":
		c.Filter = []int{2, 4, 8, 16, 30, 6, 18, 10, 24, 3, 31, 12}[r.intn(12)]
	}
	o := &c.Opts
	o.Meta = [][]string{}
	o.Allocs = []string{}
	o.Origins = []string{}
	if c.Call == "Pin" || c.Call == "PinPath" || c.Call == "Add" {
		if r.chance(70) {
			o.Rmin = []int{-1, 0, 1, 2, 3}[r.intn(5)]
			o.Rmax = []int{-1, 0, 1, 2, 3, 5}[r.intn(6)]
		}
		if r.chance(50) {
			o.Name = vc11Pick(r, []string{"n1", "a name", "n&=?#%+", "\xc3\xa9t\xc3\xa9", "name/with/slash"})
		}
		o.Direct = r.chance(25)
		if r.chance(25) {
			o.Shard = []uint64{1, 1000000, 1 << 40, 18446744073709551615}[r.intn(4)]
		}
		if r.chance(30) {
			o.Allocs = append(o.Allocs, vc11GoodPeers[0])
			if r.chance(50) {
				o.Allocs = append(o.Allocs, vc11GoodPeers[2])
			}
		}
		if r.chance(30) {
			o.Expire = vc11Pick(r, []string{"2031-01-02T03:04:05Z", "2031-01-02T03:04:05.123456789+02:00", "1999-12-31T23:59:59-11:00", "2040-06-01T00:00:00.5Z"})
		}
		for r.chance(30) {
			o.Meta = append(o.Meta, []string{vc11Pick(r, []string{"k1", "k 2", "k&3", "", "K1", "meta-x"}), vc11Pick(r, []string{"v", "", "v w", "v=&?", "\xc3\xa9"})})
		}
		if r.chance(20) && c.Call != "Add" {
			o.Update = vc11Pick(r, vc11GoodCids)
		}
		if r.chance(20) {
			o.Origins = append(o.Origins, vc11Origins[0])
			if r.chance(40) {
				o.Origins = append(o.Origins, vc11Origins[1])
			}
		}
	}
	if c.Call == "Add" {
		c.Body = "verif client add " + vc11Pick(r, []string{"a", "bb", "ccc"})
		vc11GenFails(r, &c, []string{"Cluster.BlockAllocate", "IPFSConnector.BlockPut", "Cluster.Pin"}, 15)
	} else {
		ms := map[string][]string{"PeerRm": {"Cluster.PeerRemove"}, "GetConnectGraph": {"Cluster.ConnectGraph"}, "Allocations": {"Cluster.Pins"}, "Allocation": {"Cluster.PinGet"},
			"Metrics": {"PeerMonitor.LatestMetrics"}, "MetricNames": {"PeerMonitor.MetricNames"}}[c.Call]
		if ms == nil {
			ms = []string{"Cluster." + c.Call}
			if c.Local {
				ms = []string{"Cluster." + c.Call + "Local", "Cluster." + c.Call}
			}
		}
		vc11GenFails(r, &c, ms, 20)
	}
	return c
}

func vc11Gen(r *vRand, routes []vc11RouteGen) vc11Case {
	switch x := r.intn(100); {
	case x < 66:
		return vc11GenHTTP(r, routes)
	case x < 76:
		return vc11GenUnknown(r)
	default:
		return vc11GenClient(r)
	}
}

// ---------------------------------------------------------------------------------------------
func TestVerifC11(t *testing.T) {
	seed := uint64(vEnvInt("VERIF_SEED", 1))
	n := vEnvInt("VERIF_N", 300)
	out := newVOut("C11", "From V Require Import Base.Common Base.C11_Http Model.C11_Rest Model.C11_Check.\nOpen Scope N_scope.\nOpen Scope string_scope.",
		"case", "Definition R := Eval vm_compute in failing cases.\nPrint R.")
	defer out.close()
	var cases []vc11Case
	if raw := vCasesIn(); raw != nil {
		for _, b := range raw {
			var c vc11Case
			if err := json.Unmarshal(b, &c); err != nil {
				t.Fatal(err)
			}
			cases = append(cases, c)
		}
	} else {
		r := newVRand(seed)
		routes := vc11Routes()
		for i := 0; i < n; i++ {
			cases = append(cases, vc11Gen(r, routes))
		}
	}
	rig := vc11NewRig()
	defer rig.close()
	for i := range cases {
		c := &cases[i]
		vc11Normalise(c)
		var term string
		var obs vc11Obs
		func() {
			defer func() {
				if e := recover(); e != nil {
					b, _ := json.Marshal(map[string]interface{}{"signature": "panic", "detail": fmt.Sprint(e), "case": map[string]interface{}{"input": c}})
					fmt.Printf("VERIF-DIRECT-VIOLATION %s\n", b)
					obs.NetErr = "panic"
				}
			}()
			if c.Kind == "client" {
				co := vc11RunClient(rig, c)
				obs = co.obs
				if obs.NetErr == "" {
					term = vc11ClientTerm(rig, c, &co)
				}
			} else {
				obs = vc11RunHTTP(rig, c)
				if obs.NetErr == "" {
					term = vc11HTTPTerm(rig, c, &obs)
				}
			}
		}()
		if obs.NetErr != "" {
			if obs.NetErr != "panic" {
				b, _ := json.Marshal(map[string]interface{}{"signature": "no-response", "detail": obs.NetErr, "case": map[string]interface{}{"input": c}})
				fmt.Printf("VERIF-DIRECT-VIOLATION %s\n", b)
			}
			continue
		}
		if c.Kind == "client" {
			out.count("client:" + c.Call)
			if obs.ErrCode != 0 {
				out.count("client-error")
			}
		} else {
			out.count(fmt.Sprintf("status:%d", obs.Status))
			if len(obs.Calls) > 0 {
				out.count("op:" + obs.Calls[0].M)
			}
		}
		nontriv := len(c.Query) > 0 || c.RawQ != nil || (c.Kind == "client" && (c.Call == "Pin" || c.Call == "PinPath" || c.Call == "StatusAll" || c.Call == "Add"))
		out.add(term, c, obs, nontriv)
	}
}
