//go:build verif

package ipfshttp

// C16 harness: the real Connector (NewConnector, Pin, Unpin, PinLsCid) against a scripted IPFS HTTP
// daemon. Injected by `go test -overlay`; never part of /repo. Every identifier is prefixed vC16/vc16.
//
// The fake daemon implements the go-ipfs contract stated in coq/Model/C16_Connector.v (`act`) and the
// per-call behaviour script (`serve`): contract answer, IPFS error body, non-JSON error, connection drop
// (hijack), stall, progress then stall, heartbeat without progress, error after progress (X-Stream-Error
// trailer with a cleanly ended chunked body), malformed 200.

import (
	"context"
	"encoding/json"
	"fmt"
	"net/http"
	"net/http/httptest"
	"net/url"
	"strconv"
	"strings"
	"sync"
	"testing"
	"time"

	cid "github.com/ipfs/go-cid"
	"github.com/ipfs/ipfs-cluster/api"
	"github.com/ipfs/ipfs-cluster/test"
	rpc "github.com/libp2p/go-libp2p-gorpc"
	ma "github.com/multiformats/go-multiaddr"
)

const (
	vc16BOk = iota
	vc16BErr
	vc16BNonJSON
	vc16BDrop
	vc16BStall
	vc16BProgStall
	vc16BHeartbeat
	vc16BProgErr
	vc16BBad200
	vc16NB
)

const vc16NotPinnedMsg = "not pinned or pinned indirectly" // dspinner.ErrNotPinned / ipldpinner.ErrNotPinned

type vC16Step struct {
	B         int  `json:"b"`
	K         int  `json:"k"`
	Slow      bool `json:"slow"`
	Acted     bool `json:"acted"`
	NotPinned bool `json:"not_pinned"`
	Var       int  `json:"var"`
}

type vC16PinEnt struct {
	Cid  int `json:"cid"`
	Mode int `json:"mode"` // 0 recursive, 1 direct
}

type vC16Case struct {
	Op       int          `json:"op"` // 0 pin, 1 unpin, 2 pin-ls-cid
	Cid      int          `json:"cid"`
	Depth    int          `json:"depth"`
	Mode     int          `json:"mode"`
	Origins  int          `json:"origins"`
	Update   int          `json:"update"` // -1: none
	Disabled bool         `json:"disabled"`
	Daemon   []vC16PinEnt `json:"daemon"`
	Script   []vC16Step   `json:"script"`
}

var vc16Cids []cid.Cid

func vc16Universe() {
	if vc16Cids != nil {
		return
	}
	for _, s := range []string{
		"QmP63DkAFEnDYNjDYBpyNDfttu1fvUw99x1brscPzpqmmq",
		"bafk2bzaceawsyhsnrwwy5mtit2emnjfalkxsyq2p2ptd6fuliolzwwjbs42fq",
		"QmbgmXgsFjxAJ7cEaziL2NDSptHAkPwkEGMmKMpfyYeFXL",
		"zb2rhiKhUepkTMw7oFfBUnChAN7ABAvg2hXUwmTBtZ6yxuabc",
	} {
		c, err := cid.Decode(s)
		if err != nil {
			panic(err)
		}
		vc16Cids = append(vc16Cids, c)
	}
}

func vc16CidIdx(s string) int {
	c, err := cid.Decode(s)
	if err != nil {
		return -1
	}
	for i, k := range vc16Cids {
		if k.Equals(c) {
			return i
		}
	}
	return -1
}

func vc16Clamp(x, lo, hi int) int {
	if x < lo {
		return lo
	}
	if x > hi {
		return hi
	}
	return x
}

// normalise a decoded (possibly shrunk / hand-written) case
func (c *vC16Case) norm() {
	u := len(vc16Cids)
	c.Op = vc16Clamp(c.Op, 0, 2)
	c.Cid = vc16Clamp(c.Cid, 0, u-1)
	c.Depth = vc16Clamp(c.Depth, -3, 9)
	c.Mode = vc16Clamp(c.Mode, 0, 1)
	c.Origins = vc16Clamp(c.Origins, 0, 14)
	c.Update = vc16Clamp(c.Update, -1, u-1)
	if c.Op != 0 {
		c.Origins, c.Update, c.Mode = 0, -1, 0
	}
	if c.Op != 1 {
		c.Disabled = false
	}
	if c.Op == 1 {
		c.Depth = -1
	}
	seen := map[int]bool{}
	var dm []vC16PinEnt
	for _, e := range c.Daemon {
		e.Cid = vc16Clamp(e.Cid, 0, u-1)
		e.Mode = vc16Clamp(e.Mode, 0, 1)
		if !seen[e.Cid] {
			seen[e.Cid] = true
			dm = append(dm, e)
		}
	}
	c.Daemon = dm
	if len(c.Script) > 4 {
		c.Script = c.Script[:4]
	}
	for i := range c.Script {
		s := &c.Script[i]
		s.B = vc16Clamp(s.B, 0, vc16NB-1)
		s.K = vc16Clamp(s.K, 0, 8)
		s.Var = vc16Clamp(s.Var, 0, 7)
		if s.B == vc16BProgErr && s.K < 1 {
			s.K = 1 // go-ipfs-cmds uses the trailer only once something was emitted
		}
		if s.B != vc16BOk {
			s.Slow = false
		}
		if s.B != vc16BDrop {
			s.Acted = false
		}
		if s.B != vc16BErr {
			s.NotPinned = false
		}
	}
}

// ---------------------------------------------------------------------------------------------
// the scripted daemon
// ---------------------------------------------------------------------------------------------

type vc16Call struct {
	kind     int // 0 ls, 1 add, 2 update, 3 rm, 4 other
	c        int
	t        int // ls: 0 recursive 1 direct
	rec      bool
	md       *int
	prog     bool
	from, to int
	unpin    bool
}

func (k vc16Call) coq() string {
	mode := func(m int) string {
		if m == 0 {
			return "Rec"
		}
		return "Dir"
	}
	switch k.kind {
	case 0:
		return fmt.Sprintf("CLs %d %s", k.c, mode(k.t))
	case 1:
		md := "None"
		if k.md != nil {
			md = "(Some " + cqZ(int64(*k.md)) + ")"
		}
		return fmt.Sprintf("CAdd %d %s %s %s", k.c, cqBool(k.rec), md, cqBool(k.prog))
	case 2:
		return fmt.Sprintf("CUpdate %d %d %s", k.from, k.to, cqBool(k.unpin))
	case 3:
		return fmt.Sprintf("CRm %d", k.c)
	}
	return "COther"
}

func vc16ParseCall(method, cmd string, q url.Values) vc16Call {
	other := vc16Call{kind: 4}
	if method != "POST" {
		return other
	}
	args := q["arg"]
	one := func() (int, bool) {
		if len(args) != 1 {
			return 0, false
		}
		i := vc16CidIdx(args[0])
		return i, i >= 0
	}
	allowed := func(keys ...string) bool {
		for k := range q {
			ok := false
			for _, a := range keys {
				if k == a {
					ok = true
				}
			}
			if !ok {
				return false
			}
		}
		return true
	}
	boolv := func(name string, def bool) (bool, bool) {
		v, present := q[name]
		if !present {
			return def, true
		}
		if len(v) != 1 {
			return false, false
		}
		switch v[0] {
		case "true":
			return true, true
		case "false":
			return false, true
		}
		return false, false
	}
	switch cmd {
	case "pin/ls":
		c, ok := one()
		if !ok || !allowed("arg", "type") || len(q["type"]) != 1 {
			return other
		}
		switch q.Get("type") {
		case "recursive":
			return vc16Call{kind: 0, c: c, t: 0}
		case "direct":
			return vc16Call{kind: 0, c: c, t: 1}
		}
		return other
	case "pin/add":
		c, ok := one()
		if !ok || !allowed("arg", "recursive", "max-depth", "progress") {
			return other
		}
		rec, ok1 := boolv("recursive", true) // go-ipfs default
		prog, ok2 := boolv("progress", false)
		if !ok1 || !ok2 {
			return other
		}
		k := vc16Call{kind: 1, c: c, rec: rec, prog: prog}
		if v, present := q["max-depth"]; present {
			if len(v) != 1 {
				return other
			}
			i, err := strconv.Atoi(v[0])
			if err != nil {
				return other
			}
			k.md = &i
		}
		return k
	case "pin/update":
		if len(args) != 2 || !allowed("arg", "unpin") {
			return other
		}
		f, t := vc16CidIdx(args[0]), vc16CidIdx(args[1])
		unpin, ok := boolv("unpin", true) // go-ipfs default
		if f < 0 || t < 0 || !ok {
			return other
		}
		return vc16Call{kind: 2, from: f, to: t, unpin: unpin}
	case "pin/rm":
		c, ok := one()
		if !ok || !allowed("arg") {
			return other
		}
		return vc16Call{kind: 3, c: c}
	}
	return other
}

type vc16Daemon struct {
	mu         sync.Mutex
	pins       map[int]int
	script     []vC16Step
	pos        int
	calls      []vc16Call
	nconnect   int
	capHit     int
	pinTimeout time.Duration
}

// the contract (Coq: act). Caller holds mu. dry: only say whether it would succeed.
func (d *vc16Daemon) act(k vc16Call, dry bool) (bool, string) {
	switch k.kind {
	case 0:
		if m, ok := d.pins[k.c]; ok && m == k.t {
			return true, ""
		}
		return false, fmt.Sprintf("path '%s' is not pinned", vc16Cids[k.c])
	case 1:
		if k.rec {
			if !dry {
				d.pins[k.c] = 0
			}
			return true, ""
		}
		if m, ok := d.pins[k.c]; ok && m == 0 {
			return false, fmt.Sprintf("pin: %s already pinned recursively", vc16Cids[k.c])
		}
		if !dry {
			d.pins[k.c] = 1
		}
		return true, ""
	case 2:
		if m, ok := d.pins[k.from]; !ok || m != 0 {
			return false, "'from' cid was not recursively pinned already"
		}
		if k.from == k.to {
			return true, ""
		}
		if m, ok := d.pins[k.to]; ok && m == 0 {
			return false, "'to' cid was already recursively pinned"
		}
		if !dry {
			d.pins[k.to] = 0
			if k.unpin {
				delete(d.pins, k.from)
			}
		}
		return true, ""
	case 3:
		if _, ok := d.pins[k.c]; !ok {
			return false, vc16NotPinnedMsg
		}
		if !dry {
			delete(d.pins, k.c)
		}
		return true, ""
	}
	return false, "unknown command"
}

func (d *vc16Daemon) okBody(k vc16Call) string {
	switch k.kind {
	case 0:
		t := "recursive"
		if k.t == 1 {
			t = "direct"
		}
		return fmt.Sprintf(`{"Keys":{"%s":{"Type":"%s"}}}`+"\n", vc16Cids[k.c], t)
	case 1, 3:
		return fmt.Sprintf(`{"Pins":["%s"]}`+"\n", vc16Cids[k.c])
	case 2:
		return fmt.Sprintf(`{"Pins":["%s","%s"]}`+"\n", vc16Cids[k.from], vc16Cids[k.to])
	}
	return "{}\n"
}

func vc16JSONErr(w http.ResponseWriter, status int, msg string) {
	b, _ := json.Marshal(map[string]interface{}{"Message": msg, "Code": 0, "Type": "error"})
	w.Header().Set("Content-Type", "application/json")
	w.WriteHeader(status)
	w.Write(b)
	w.Write([]byte("\n"))
}

func vc16Flush(w http.ResponseWriter) {
	if f, ok := w.(http.Flusher); ok {
		f.Flush()
	}
}

func (d *vc16Daemon) streamHeaders(w http.ResponseWriter) {
	h := w.Header()
	h.Set("Content-Type", "application/json")
	h.Set("Trailer", "X-Stream-Error")
	h.Set("X-Chunked-Output", "1")
	w.WriteHeader(http.StatusOK)
}

// wait until the client gives up; returns false when the safety cap expired first
func (d *vc16Daemon) waitGone(r *http.Request) bool {
	select {
	case <-r.Context().Done():
		return true
	case <-time.After(60 * d.pinTimeout):
		d.mu.Lock()
		d.capHit++
		d.mu.Unlock()
		return false
	}
}

func (d *vc16Daemon) ServeHTTP(w http.ResponseWriter, r *http.Request) {
	cmd := strings.TrimPrefix(r.URL.Path, "/api/v0/")
	q := r.URL.Query()
	if cmd == "swarm/connect" {
		d.mu.Lock()
		d.nconnect++
		d.mu.Unlock()
		w.Header().Set("Content-Type", "application/json")
		w.Write([]byte(`{"Strings":["connect success"]}` + "\n"))
		return
	}
	k := vc16ParseCall(r.Method, cmd, q)
	d.mu.Lock()
	d.calls = append(d.calls, k)
	st := vC16Step{B: vc16BOk}
	if d.pos < len(d.script) {
		st = d.script[d.pos]
	}
	d.pos++
	d.mu.Unlock()
	d.serve(w, r, k, st)
}

func (d *vc16Daemon) serve(w http.ResponseWriter, r *http.Request, k vc16Call, st vC16Step) {
	isAdd := k.kind == 1
	switch st.B {
	case vc16BOk:
		if !isAdd {
			d.mu.Lock()
			ok, msg := d.act(k, false)
			d.mu.Unlock()
			if !ok {
				vc16JSONErr(w, 500, msg)
				return
			}
			w.Header().Set("Content-Type", "application/json")
			w.Write([]byte(d.okBody(k)))
			return
		}
		d.mu.Lock()
		ok, msg := d.act(k, true)
		d.mu.Unlock()
		if !ok {
			vc16JSONErr(w, 500, msg)
			return
		}
		d.streamHeaders(w)
		for i := 1; i <= st.K; i++ {
			fmt.Fprintf(w, `{"Progress":%d}`+"\n", i)
			vc16Flush(w)
			if st.Slow {
				select {
				case <-r.Context().Done():
					return // the client gave up: no effect
				case <-time.After(d.pinTimeout / 4):
				}
			}
		}
		select {
		case <-r.Context().Done():
			return
		default:
		}
		d.mu.Lock()
		d.act(k, false)
		d.mu.Unlock()
		w.Write([]byte(d.okBody(k)))
	case vc16BErr:
		msg := vc16NotPinnedMsg
		if !st.NotPinned {
			msg = []string{"scripted failure", "pin: context deadline exceeded", "not pinned",
				vc16NotPinnedMsg + " ", "Not pinned or pinned indirectly", "", "merkledag: not found",
				"pin: " + vc16NotPinnedMsg}[st.Var%8]
		}
		status := 500
		if st.Var >= 4 && !st.NotPinned {
			status = []int{400, 403, 404, 503}[st.Var%4]
		}
		vc16JSONErr(w, status, msg)
	case vc16BNonJSON:
		d.nonJSON(w, st.Var)
	case vc16BDrop:
		if st.Acted {
			d.mu.Lock()
			d.act(k, false)
			d.mu.Unlock()
		}
		hj, ok := w.(http.Hijacker)
		if !ok {
			panic("vc16: response writer cannot be hijacked")
		}
		conn, buf, err := hj.Hijack()
		if err != nil {
			panic(err)
		}
		switch st.Var % 5 {
		case 3, 4: // a 200 whose chunked body is cut at a message boundary: whole progress objects (3) or none (4), no final chunk
			buf.WriteString("HTTP/1.1 200 OK\r\nContent-Type: application/json\r\nTransfer-Encoding: chunked\r\nTrailer: X-Stream-Error\r\n\r\n")
			if st.Var%5 == 3 {
				for _, part := range []string{`{"Progress":1}` + "\n", `{"Progress":2}` + "\n"} {
					if !isAdd {
						part = "\n"
					}
					fmt.Fprintf(buf, "%x\r\n%s\r\n", len(part), part)
				}
			}
			buf.Flush()
		case 1: // a 200 whose chunked body is cut in the middle
			buf.WriteString("HTTP/1.1 200 OK\r\nContent-Type: application/json\r\nTransfer-Encoding: chunked\r\n\r\n")
			part := `{"Progress":1}` + "\n" + `{"Pro`
			if !isAdd {
				part = `{"Keys":{"` // cut
			}
			fmt.Fprintf(buf, "%x\r\n%s\r\n", len(part), part)
			buf.Flush()
		case 2: // cut inside the status line
			buf.WriteString("HTTP/1.1 2")
			buf.Flush()
		}
		conn.Close()
	case vc16BStall:
		if st.Var%2 == 1 {
			d.streamHeaders(w)
			vc16Flush(w)
		}
		d.waitGone(r)
	case vc16BProgStall, vc16BHeartbeat:
		if !isAdd {
			d.waitGone(r)
			return
		}
		d.streamHeaders(w)
		if st.B == vc16BProgStall {
			for i := 1; i <= st.K; i++ {
				fmt.Fprintf(w, `{"Progress":%d}`+"\n", i)
			}
			vc16Flush(w)
			d.waitGone(r)
			return
		}
		deadline := time.Now().Add(60 * d.pinTimeout)
		// the count never exceeds its first value; variants: the same object again and again (0), objects without a
		// progress number in between (1), lower numbers in between (2), a higher start then both (3): no progress in any
		hi := 1 + st.Var%4
		for n := 0; time.Now().Before(deadline); n++ {
			switch {
			case st.Var%4 == 0 || n%2 == 0:
				fmt.Fprintf(w, `{"Progress":%d}`+"\n", hi)
			case st.Var%4 == 1:
				fmt.Fprint(w, `{}`+"\n")
			case st.Var%4 == 2:
				fmt.Fprintf(w, `{"Progress":%d}`+"\n", 0)
			default:
				if n%4 == 1 {
					fmt.Fprint(w, `{"Pins":null}`+"\n")
				} else {
					fmt.Fprintf(w, `{"Progress":%d}`+"\n", hi-1)
				}
			}
			vc16Flush(w)
			select {
			case <-r.Context().Done():
				return
			case <-time.After(d.pinTimeout / 4):
			}
		}
		d.mu.Lock()
		d.capHit++
		d.mu.Unlock()
	case vc16BProgErr:
		if !isAdd {
			vc16JSONErr(w, 500, "scripted failure")
			return
		}
		d.streamHeaders(w)
		for i := 1; i <= st.K; i++ {
			fmt.Fprintf(w, `{"Progress":%d}`+"\n", i)
			vc16Flush(w)
		}
		// go-ipfs-cmds http responseEmitter.closeWithError once streaming: trailer only, body ends cleanly
		w.Header().Set("X-Stream-Error", "pin: scripted failure after progress")
	case vc16BBad200:
		switch {
		case k.kind == 0:
			w.Header().Set("Content-Type", "application/json")
			other := vc16Cids[(k.c+1)%len(vc16Cids)]
			w.Write([]byte([]string{
				"this is not json",
				`{"Keys":{}}`,
				fmt.Sprintf(`{"Keys":{"%s":{"Type":"recursive"}}}`, other),
				`{"Keys":{"notacid":{"Type":"recursive"}}}`,
			}[st.Var%4]))
		case isAdd:
			w.Header().Set("Content-Type", "text/plain")
			w.Write([]byte([]string{"this is not json", "<html><body>proxy</body></html>"}[st.Var%2]))
		default:
			d.nonJSON(w, st.Var)
		}
	}
}

func (d *vc16Daemon) nonJSON(w http.ResponseWriter, v int) {
	w.Header().Set("Content-Type", "text/plain")
	w.WriteHeader([]int{502, 500, 404, 403}[v%4])
	w.Write([]byte([]string{"Bad Gateway", "", "<html>nope</html>", `"a json string"`, `[1,2]`, "5", "404 page not found", "{"}[v%8]))
}

// ---------------------------------------------------------------------------------------------
// running one case on the real connector
// ---------------------------------------------------------------------------------------------

type vc16Obs struct {
	Class    string       `json:"class"` // ok | err | hang
	Status   int          `json:"status"`
	Err      string       `json:"err,omitempty"`
	Reqs     []string     `json:"reqs"`
	NConnect int          `json:"nconnect"`
	Table    []vC16PinEnt `json:"table"`
	Consumed int          `json:"consumed"`
	CapHit   int          `json:"cap_hit"`
	Runs     int          `json:"runs"`
	Millis   int64        `json:"ms"`
	lastKind int
}

var vc16RPC *rpc.Client

func vc16Run(c vC16Case, pinTimeout time.Duration) (o vc16Obs) {
	d := &vc16Daemon{pins: map[int]int{}, script: c.Script, pinTimeout: pinTimeout}
	for _, e := range c.Daemon {
		d.pins[e.Cid] = e.Mode
	}
	srv := httptest.NewServer(d)
	defer func() {
		srv.CloseClientConnections()
		srv.Close()
	}()
	cfg := &Config{}
	cfg.Default()
	addr, err := ma.NewMultiaddr("/ip4/127.0.0.1/tcp/" + strings.TrimPrefix(srv.URL[strings.LastIndex(srv.URL, ":"):], ":"))
	if err != nil {
		panic(err)
	}
	cfg.NodeAddr = addr
	cfg.ConnectSwarmsDelay = 0
	cfg.PinTimeout = pinTimeout
	cfg.IPFSRequestTimeout = 3 * pinTimeout
	cfg.UnpinTimeout = 3 * pinTimeout
	cfg.UnpinDisable = c.Disabled
	conn, err := NewConnector(cfg)
	if err != nil {
		panic(err)
	}
	conn.SetClient(vc16RPC)
	defer conn.Shutdown(context.Background())

	ctx, cancel := context.WithTimeout(context.Background(), 20*pinTimeout)
	defer cancel()
	pin := api.PinCid(vc16Cids[c.Cid])
	pin.MaxDepth = api.PinDepth(c.Depth)
	pin.Mode = api.PinMode(c.Mode)
	for i := 0; i < c.Origins; i++ {
		pin.Origins = append(pin.Origins, ma.StringCast(fmt.Sprintf("/ip4/10.1.2.%d/tcp/4001/p2p/12D3KooWKewdAMAU3WjYHm8qkAJc5eW6KHbHWNigWraXXtE1UCng", i+1)))
	}
	if c.Update >= 0 {
		pin.PinUpdate = vc16Cids[c.Update]
	}
	t0 := time.Now()
	var rerr error
	o.Status = int(api.IPFSPinStatusBug)
	switch c.Op {
	case 0:
		rerr = conn.Pin(ctx, pin)
	case 1:
		rerr = conn.Unpin(ctx, vc16Cids[c.Cid])
	case 2:
		var st api.IPFSPinStatus
		st, rerr = conn.PinLsCid(ctx, pin)
		o.Status = int(st)
	}
	o.Millis = time.Since(t0).Milliseconds()
	switch {
	case rerr == nil:
		o.Class = "ok"
	case ctx.Err() != nil:
		o.Class = "hang"
		o.Err = rerr.Error()
	default:
		o.Class = "err"
		o.Err = rerr.Error()
	}
	d.mu.Lock()
	defer d.mu.Unlock()
	o.lastKind = -1
	for _, k := range d.calls {
		o.Reqs = append(o.Reqs, k.coq())
		o.lastKind = k.kind
	}
	o.NConnect = d.nconnect
	o.Consumed = d.pos
	o.CapHit = d.capHit
	for i := range vc16Cids {
		if m, ok := d.pins[i]; ok {
			o.Table = append(o.Table, vC16PinEnt{i, m})
		}
	}
	return o
}

// Wall-clock is sampled: an outcome that load alone could have produced (an error although every
// consumed behaviour was well-behaved; the caller's deadline reached although the last request was
// not the time-out-less pin/update) is re-measured up to two more times before it counts.
func vc16RunStable(c vC16Case, pinTimeout time.Duration) vc16Obs {
	var o vc16Obs
	for run := 1; run <= 3; run++ {
		o = vc16Run(c, pinTimeout)
		o.Runs = run
		allOk := true
		for i := 0; i < o.Consumed && i < len(c.Script); i++ {
			if c.Script[i].B != vc16BOk {
				allOk = false
			}
		}
		suspect := (o.Class != "ok" && allOk && o.Consumed > 0) || (o.Class == "hang" && o.lastKind != 2)
		if !suspect {
			break
		}
	}
	return o
}

// ---------------------------------------------------------------------------------------------
// Coq terms
// ---------------------------------------------------------------------------------------------

func vc16Mode(m int) string {
	if m == 0 {
		return "Rec"
	}
	return "Dir"
}

func vc16CoqTable(t []vC16PinEnt) string {
	xs := make([]string, len(t))
	for i, e := range t {
		xs[i] = fmt.Sprintf("(%d, %s)", e.Cid, vc16Mode(e.Mode))
	}
	return cqList(xs)
}

func vc16CoqScript(s []vC16Step) string {
	xs := make([]string, len(s))
	for i, b := range s {
		switch b.B {
		case vc16BOk:
			xs[i] = fmt.Sprintf("BOk %d %s", b.K, cqBool(b.Slow))
		case vc16BErr:
			if b.NotPinned {
				xs[i] = "BErr MNotPinned"
			} else {
				xs[i] = "BErr MOther"
			}
		case vc16BNonJSON:
			xs[i] = "BNonJson"
		case vc16BDrop:
			xs[i] = "BDrop " + cqBool(b.Acted)
		case vc16BStall:
			xs[i] = "BStall"
		case vc16BProgStall:
			xs[i] = fmt.Sprintf("BProgStall %d", b.K)
		case vc16BHeartbeat:
			xs[i] = "BHeartbeat"
		case vc16BProgErr:
			xs[i] = fmt.Sprintf("BProgErr %d", b.K)
		case vc16BBad200:
			xs[i] = "BBad200"
		}
	}
	return cqList(xs)
}

func vc16CoqCase(c vC16Case, o vc16Obs) string {
	var op string
	switch c.Op {
	case 0:
		upd := "None"
		if c.Update >= 0 {
			upd = fmt.Sprintf("(Some %d)", c.Update)
		}
		op = fmt.Sprintf("OpPin (mk_pin %d %s %s %d %s)", c.Cid, cqZ(int64(c.Depth)), vc16Mode(c.Mode), c.Origins, upd)
	case 1:
		op = fmt.Sprintf("OpUnpin %d %s", c.Cid, cqBool(c.Disabled))
	default:
		op = fmt.Sprintf("OpLs %d %s", c.Cid, cqZ(int64(c.Depth)))
	}
	res := map[string]string{"ok": "ROk", "err": "RErr", "hang": "RHang"}[o.Class]
	st := "StBug"
	if o.Status >= 0 && o.Status <= 5 {
		st = []string{"StBug", "StError", "StDirect", "StRecursive", "StIndirect", "StUnpinned"}[o.Status]
	}
	return fmt.Sprintf("(%s, %s, %s, Obs %s %s %s %s %d)", op, vc16CoqTable(c.Daemon), vc16CoqScript(c.Script),
		res, st, vc16CoqTable(o.Table), cqList(o.Reqs), o.NConnect)
}

// ---------------------------------------------------------------------------------------------
// generators: structured mostly-valid / boundary / malformed
// ---------------------------------------------------------------------------------------------

func vc16GenStep(r *vRand, stream int) vC16Step {
	s := vC16Step{Var: r.intn(8)}
	okPct := 50
	if stream == 2 {
		okPct = 25
	}
	if r.chance(okPct) {
		s.B = vc16BOk
		s.K = r.intn(4)
		if r.chance(12) {
			s.Slow = true
			s.K = r.rng(5, 7)
		}
		return s
	}
	switch stream {
	case 2: // malformed answers
		s.B = []int{vc16BBad200, vc16BNonJSON, vc16BErr, vc16BDrop, vc16BBad200, vc16BNonJSON}[r.intn(6)]
		s.NotPinned = r.chance(30)
		s.Acted = r.chance(30)
	default:
		s.B = r.rng(1, vc16NB-1)
		s.K = r.intn(4)
		s.NotPinned = r.chance(40)
		s.Acted = r.chance(40)
		if stream == 1 { // boundary: progress counts 0/1, near-miss messages (Var), heartbeat
			s.K = r.intn(2)
			if r.chance(30) {
				s.B = []int{vc16BHeartbeat, vc16BProgStall, vc16BProgErr, vc16BErr}[r.intn(4)]
			}
		}
	}
	return s
}

func vc16Gen(r *vRand, idx int) vC16Case {
	u := len(vc16Cids)
	stream := 0
	switch x := idx % 10; {
	case x >= 7 && x <= 8:
		stream = 1
	case x == 9:
		stream = 2
	}
	c := vC16Case{Update: -1, Depth: -1}
	switch x := r.intn(100); {
	case x < 64:
		c.Op = 0
	case x < 90:
		c.Op = 1
	default:
		c.Op = 2
	}
	c.Cid = r.intn(u)
	// prior daemon state: each CID unpinned / recursive / direct
	for i := 0; i < u; i++ {
		switch r.intn(3) {
		case 1:
			c.Daemon = append(c.Daemon, vC16PinEnt{i, 0})
		case 2:
			c.Daemon = append(c.Daemon, vC16PinEnt{i, 1})
		}
	}
	// shuffle the table
	for i := len(c.Daemon) - 1; i > 0; i-- {
		j := r.intn(i + 1)
		c.Daemon[i], c.Daemon[j] = c.Daemon[j], c.Daemon[i]
	}
	switch c.Op {
	case 0, 2:
		switch x := r.intn(100); {
		case x < 50:
			c.Depth = -1
		case x < 80:
			c.Depth = 0
		case x < 92:
			c.Depth = r.rng(1, 3)
		default:
			c.Depth = -r.rng(2, 3)
		}
		if stream == 1 {
			c.Depth = r.rng(-2, 2)
		}
		if c.Depth == 0 {
			c.Mode = 1
		}
		if c.Op == 0 {
			if r.chance(8) || stream == 2 && r.chance(40) {
				c.Mode = 1 - c.Mode // Mode and MaxDepth disagree
			}
			if r.chance(35) {
				c.Origins = r.rng(1, 3)
			}
			if stream == 1 && r.chance(50) {
				c.Origins = r.rng(9, 12)
			}
			if r.chance(45) {
				c.Update = r.intn(u)
				if r.chance(80) && c.Update == c.Cid {
					c.Update = (c.Cid + 1) % u
				}
				// make the recursive source frequent: it is the interesting branch
				if r.chance(60) {
					c.setPin(c.Update, 0)
				}
			}
			// "already pinned as asked" (the short-cut) in about a fifth of the pins; unpinned target in half
			switch x := r.intn(100); {
			case x < 12:
				m := 0
				if c.Depth == 0 {
					m = 1
				}
				c.setPin(c.Cid, m)
			case x < 62:
				c.delPin(c.Cid)
			}
		}
	case 1:
		c.Disabled = r.chance(8)
	}
	n := r.rng(0, 3)
	for i := 0; i < n; i++ {
		c.Script = append(c.Script, vc16GenStep(r, stream))
	}
	// put a (mostly faulty) behaviour exactly on the decisive call: behind one or two well-behaved pin/ls
	if c.Op == 0 && r.chance(60) {
		c.Script = []vC16Step{{B: vc16BOk}}
		if c.Update >= 0 {
			c.Script = append(c.Script, vC16Step{B: vc16BOk})
		}
		st := vc16GenStep(r, stream)
		if st.B == vc16BOk && r.chance(60) {
			st = vc16GenStep(r, stream)
		}
		c.Script = append(c.Script, st)
	}
	c.norm()
	return c
}

func (c *vC16Case) delPin(i int) {
	var dm []vC16PinEnt
	for _, e := range c.Daemon {
		if e.Cid != i {
			dm = append(dm, e)
		}
	}
	c.Daemon = dm
}

func (c *vC16Case) setPin(i, mode int) {
	for k := range c.Daemon {
		if c.Daemon[k].Cid == i {
			c.Daemon[k].Mode = mode
			return
		}
	}
	c.Daemon = append(c.Daemon, vC16PinEnt{i, mode})
}

func TestVerifC16(t *testing.T) {
	vc16Universe()
	vc16RPC = test.NewMockRPCClient(t)
	seed := uint64(vEnvInt("VERIF_SEED", 1))
	n := vEnvInt("VERIF_N", 300)
	pinTimeout := time.Duration(vEnvInt("VERIF_C16_PINTIMEOUT_MS", 200)) * time.Millisecond
	workers := vEnvInt("VERIF_C16_WORKERS", 8)
	out := newVOut("C16", "From V Require Import Base.Common Model.C16_Connector Model.C16_Check.\nOpen Scope N_scope.",
		"case", "Definition R := Eval vm_compute in failing cases.\nPrint R.")
	defer out.close()
	var cases []vC16Case
	if raw := vCasesIn(); raw != nil {
		for _, b := range raw {
			c := vC16Case{Update: -1, Depth: -1}
			if err := json.Unmarshal(b, &c); err != nil {
				t.Fatal(err)
			}
			c.norm()
			cases = append(cases, c)
		}
	} else {
		r := newVRand(seed)
		for i := 0; i < n; i++ {
			cases = append(cases, vc16Gen(r, i))
		}
	}
	obs := make([]vc16Obs, len(cases))
	panics := make([]string, len(cases))
	var wg sync.WaitGroup
	next := make(chan int)
	for w := 0; w < workers; w++ {
		wg.Add(1)
		go func() {
			defer wg.Done()
			for i := range next {
				func() {
					defer func() {
						if p := recover(); p != nil {
							panics[i] = fmt.Sprint(p)
						}
					}()
					obs[i] = vc16RunStable(cases[i], pinTimeout)
				}()
			}
		}()
	}
	for i := range cases {
		next <- i
	}
	close(next)
	wg.Wait()
	opn := []string{"pin", "unpin", "ls"}
	bn := []string{"ok", "errbody", "nonjson", "drop", "stall", "progstall", "heartbeat", "progerr", "bad200"}
	for i, c := range cases {
		o := obs[i]
		if panics[i] != "" {
			b, _ := json.Marshal(map[string]interface{}{"signature": "panic-in-connector", "detail": panics[i], "case": map[string]interface{}{"input": c}})
			fmt.Printf("VERIF-DIRECT-VIOLATION %s\n", b)
			continue
		}
		out.count("op=" + opn[c.Op])
		out.count("result=" + opn[c.Op] + "/" + o.Class)
		out.count(fmt.Sprintf("requests=%d", len(o.Reqs)))
		if o.Runs > 1 {
			out.count("remeasured")
		}
		if o.CapHit > 0 {
			out.count("daemon_cap_hit")
		}
		fault := false
		for k := 0; k < o.Consumed && k < len(c.Script); k++ {
			if c.Script[k].B != vc16BOk {
				fault = true
			}
		}
		if o.Consumed > 0 {
			dec := vc16BOk
			if o.Consumed <= len(c.Script) {
				dec = c.Script[o.Consumed-1].B
			}
			last := "none"
			if o.lastKind >= 0 {
				last = []string{"ls", "add", "update", "rm", "other"}[o.lastKind]
			}
			out.count("last=" + last + "/" + bn[dec])
		}
		if c.Op == 0 && c.Update >= 0 {
			out.count("pin_with_update")
		}
		if c.Op == 0 && c.Origins > 0 {
			out.count("pin_with_origins")
		}
		changed := len(o.Table) != len(c.Daemon)
		nontriv := len(o.Reqs) >= 1 && (len(o.Reqs) >= 2 || fault || changed)
		out.add(vc16CoqCase(c, o), c, o, nontriv)
	}
}
