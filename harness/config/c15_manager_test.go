//go:build verif

package config_test

// C15 — the configuration Manager (config/config.go) with ANY SUBSET of the 14 sections registered.
// The file always carries sections for registered and for unregistered components, for component names nobody
// knows, and members under unknown top-level names; recognisable secrets are planted in all of them.
// Observed: LoadJSON (or LoadJSONFromFile / Default) accept or reject; ToJSON (or SaveJSON) section by section
// (equal to what the component saves on its own? equal to the raw input?), a reload of the saved file; ToDisplayJSON
// (which sections it shows, every secret-named member in it, every planted secret searched in its bytes).
// The Coq side (Model/C15_Check.v mcheck) runs the Manager model (Model/C15_Manager.v: mgr_load, mgr_save, mgr_display)
// on the same file with components whose outcome on their own was observed here, compares, and evaluates the boolean
// form of the property on the implementation's own output.
// The per-section behaviour itself is checked against the Coq tables by the per-package harnesses.

import (
	"bytes"
	"crypto/ed25519"
	"encoding/base64"
	"encoding/json"
	"fmt"
	mrand "math/rand"
	"os"
	"path/filepath"
	"sort"
	"strings"
	"testing"
	"time"

	ipfscluster "github.com/ipfs/ipfs-cluster"
	"github.com/ipfs/ipfs-cluster/api/ipfsproxy"
	"github.com/ipfs/ipfs-cluster/api/rest"
	"github.com/ipfs/ipfs-cluster/config"
	"github.com/ipfs/ipfs-cluster/consensus/crdt"
	"github.com/ipfs/ipfs-cluster/consensus/raft"
	"github.com/ipfs/ipfs-cluster/datastore/badger"
	"github.com/ipfs/ipfs-cluster/datastore/leveldb"
	"github.com/ipfs/ipfs-cluster/informer/disk"
	"github.com/ipfs/ipfs-cluster/informer/numpin"
	"github.com/ipfs/ipfs-cluster/ipfsconn/ipfshttp"
	"github.com/ipfs/ipfs-cluster/monitor/pubsubmon"
	"github.com/ipfs/ipfs-cluster/observations"
	"github.com/ipfs/ipfs-cluster/pintracker/stateless"

	crypto "github.com/libp2p/go-libp2p-core/crypto"
	peer "github.com/libp2p/go-libp2p-core/peer"
)

type vc15MSec struct {
	name  string // section key
	group string // key of the enclosing object in the file ("" = top level)
	typ   config.SectionType
	mk    func() config.ComponentConfig
	env   string // environment prefix
	// candidate (json key, value) settings: valid and invalid
	sets [][2]interface{}
	envs [][2]string // (variable suffix, value)
}

// planted secrets (every one is searched in the bytes of every displayable form)
var (
	vc15MSecretHex  = strings.Repeat("c15a", 16) // cluster secret, 32 bytes
	vc15MSecretOld  = strings.Repeat("ab", 32)
	vc15MClusterKey = "c15-planted-cluster-private-key"
	vc15MPassword   = "c15-planted-pa55w0rd"
	vc15MPassOld    = "mgr-s3cret-pa55"
	vc15MRestKey    string // base64 of a real libp2p key (set in init)
	vc15MRestID     string
)

func init() {
	seed := make([]byte, ed25519.SeedSize)
	mrand.New(mrand.NewSource(15)).Read(seed)
	priv, _, err := crypto.GenerateEd25519Key(bytes.NewReader(seed))
	if err != nil {
		panic(err)
	}
	b, err := crypto.MarshalPrivateKey(priv)
	if err != nil {
		panic(err)
	}
	id, err := peer.IDFromPrivateKey(priv)
	if err != nil {
		panic(err)
	}
	vc15MRestKey = base64.StdEncoding.EncodeToString(b)
	vc15MRestID = peer.Encode(id)
}

var vc15MSecs = []vc15MSec{
	{"cluster", "", config.Cluster, func() config.ComponentConfig { return &ipfscluster.Config{} }, "CLUSTER",
		[][2]interface{}{{"peername", "verif-peer"}, {"replication_factor_min", 2}, {"replication_factor_max", 3}, {"state_sync_interval", "0s"},
			{"secret", vc15MSecretOld}, {"listen_multiaddress", "bogus"}, {"mdns_interval", "0s"}, {"follower_mode", true}},
		[][2]string{{"PEERNAME", "env-peer"}, {"DIALPEERTIMEOUT", "7s"}, {"PINRECOVERINTERVAL", "-1s"}}},
	{"raft", "consensus", config.Consensus, func() config.ComponentConfig { return &raft.Config{} }, "CLUSTER_RAFT",
		[][2]interface{}{{"commit_retries", 3}, {"backups_rotate", -1}, {"datastore_namespace", "/mgr"}, {"heartbeat_timeout", "4ms"}, {"network_timeout", "3s"}},
		[][2]string{{"COMMITRETRIES", "5"}, {"DATASTORENAMESPACE", "/env"}, {"MAXAPPENDENTRIES", "2000"}}},
	{"crdt", "consensus", config.Consensus, func() config.ComponentConfig { return &crdt.Config{} }, "CLUSTER_CRDT",
		[][2]interface{}{{"cluster_name", "verif"}, {"trusted_peers", []string{"*"}}, {"trusted_peers", []string{"bogus"}}, {"rebroadcast_interval", "-1s"}, {"peerset_metric", "disk"}},
		[][2]string{{"CLUSTERNAME", "envname"}, {"BATCHING_MAXBATCHSIZE", "7"}}},
	{"restapi", "api", config.API, func() config.ComponentConfig { return &rest.Config{} }, "CLUSTER_RESTAPI",
		[][2]interface{}{{"max_header_bytes", 8192}, {"max_header_bytes", 100}, {"basic_auth_credentials", map[string]string{"admin": vc15MPassOld}}, {"idle_timeout", "1m"}, {"cors_max_age", "-1s"}},
		[][2]string{{"READTIMEOUT", "9s"}, {"MAXHEADERBYTES", "5"}}},
	{"ipfsproxy", "api", config.API, func() config.ComponentConfig { return &ipfsproxy.Config{} }, "CLUSTER_IPFSPROXY",
		[][2]interface{}{{"node_https", true}, {"max_header_bytes", 4095}, {"extract_headers_ttl", "0s"}, {"node_multiaddress", "bogus"}},
		[][2]string{{"NODEHTTPS", "true"}, {"IDLETIMEOUT", "-3s"}}},
	{"ipfshttp", "ipfs_connector", config.IPFSConn, func() config.ComponentConfig { return &ipfshttp.Config{} }, "CLUSTER_IPFSHTTP",
		[][2]interface{}{{"pin_timeout", "0s"}, {"pin_timeout", "-1s"}, {"unpin_disable", true}, {"node_multiaddress", "/ip4/127.0.0.1/tcp/5002"}, {"node_multiaddress", ""}},
		[][2]string{{"PINTIMEOUT", "30s"}, {"NODEMULTIADDRESS", "bogus"}}},
	{"stateless", "pin_tracker", config.PinTracker, func() config.ComponentConfig { return &stateless.Config{} }, "CLUSTER_STATELESS",
		[][2]interface{}{{"concurrent_pins", 3}, {"concurrent_pins", -1}, {"max_pin_queue_size", 5}},
		[][2]string{{"CONCURRENTPINS", "4"}, {"MAXPINQUEUESIZE", "-4"}}},
	{"pubsubmon", "monitor", config.Monitor, func() config.ComponentConfig { return &pubsubmon.Config{} }, "CLUSTER_PUBSUBMON",
		[][2]interface{}{{"check_interval", "1s"}, {"check_interval", "bogus"}, {"failure_threshold", 0}, {"failure_threshold", 2.5}},
		[][2]string{{"CHECKINTERVAL", "2s"}}},
	{"disk", "informer", config.Informer, func() config.ComponentConfig { return &disk.Config{} }, "CLUSTER_DISK",
		[][2]interface{}{{"metric_type", "reposize"}, {"metric_type", "bogus"}, {"metric_ttl", "1m"}},
		[][2]string{{"METRICTYPE", "reposize"}, {"METRICTTL", "0s"}}},
	{"numpin", "informer", config.Informer, func() config.ComponentConfig { return &numpin.Config{} }, "CLUSTER_NUMPIN",
		[][2]interface{}{{"metric_ttl", "3s"}, {"metric_ttl", "-3s"}},
		[][2]string{{"METRICTTL", "4s"}}},
	{"metrics", "observations", config.Observations, func() config.ComponentConfig { return &observations.MetricsConfig{} }, "CLUSTER_METRICS",
		[][2]interface{}{{"enable_stats", true}, {"reporting_interval", "-1s"}, {"prometheus_endpoint", "bogus"}},
		[][2]string{{"ENABLESTATS", "true"}}},
	{"tracing", "observations", config.Observations, func() config.ComponentConfig { return &observations.TracingConfig{} }, "CLUSTER_TRACING",
		[][2]interface{}{{"enable_tracing", true}, {"sampling_prob", -0.5}, {"service_name", "verif"}},
		[][2]string{{"SERVICENAME", "envsvc"}, {"SAMPLINGPROB", "0.9"}}},
	{"badger", "datastore", config.Datastore, func() config.ComponentConfig { return &badger.Config{} }, "CLUSTER_BADGER",
		[][2]interface{}{{"gc_discard_ratio", 0.5}, {"gc_discard_ratio", 1.5}, {"folder", "bdg"}, {"badger_options", map[string]interface{}{"sync_writes": false, "max_levels": 3}}},
		[][2]string{{"GCSLEEP", "1s"}, {"BADGEROPTIONS_SYNCWRITES", "false"}}},
	{"leveldb", "datastore", config.Datastore, func() config.ComponentConfig { return &leveldb.Config{} }, "CLUSTER_LEVELDB",
		[][2]interface{}{{"folder", "ldb"}, {"leveldb_options", map[string]interface{}{"no_sync": true, "block_size": 8}}},
		[][2]string{{"FOLDER", "envldb"}}},
}

// the groups of jsonConfig (config/config.go): anything else at top level is not kept by the Manager
var vc15MGroups = []string{"consensus", "api", "ipfs_connector", "state", "pin_tracker", "monitor", "allocator", "informer", "observations", "datastore"}

// sections for component names no Manager here knows (the first is a real component's name under another group)
var vc15MExtras = [][2]string{
	{"api", "raft"}, {"api", "grpcapi"}, {"consensus", "etcd"}, {"state", "mapstate"}, {"allocator", "balanced"},
	{"datastore", "pebble"}, {"ipfs_connector", "kubo"}, {"extras", "thing"}, {"secrets", "vault"},
}

type vc15MSet struct {
	Sec string      `json:"sec"`
	Key string      `json:"key"`
	Val interface{} `json:"val"`
}
type vc15MEnv struct {
	Sec string `json:"sec"`
	Key string `json:"key"`
	Val string `json:"val"`
}
type vc15MCase struct {
	Absent []string   `json:"absent"` // sections left out of the file
	Null   []string   `json:"null"`   // sections bound to JSON null
	Set    []vc15MSet `json:"set"`
	Env    []vc15MEnv `json:"env"`
	Unreg  []string   `json:"unreg,omitempty"` // components NOT registered in the Manager (their sections stay in the file)
	Extra  []int      `json:"extra,omitempty"` // indices into vc15MExtras: sections for unknown component names
	Junk   []string   `json:"junk,omitempty"`  // sections bound to a JSON value that is not an object
	Plant  bool       `json:"plant,omitempty"` // plant the recognisable secrets in cluster and restapi
	Libp2p bool       `json:"libp2p,omitempty"`
	Mode   string     `json:"mode,omitempty"` // "" = LoadJSON(bytes); "file" = LoadJSONFromFile + SaveJSON; "default" = Default(); "raw" = Raw is the file
	Raw    string     `json:"raw,omitempty"`
}

func vc15MNewSub(unreg map[string]bool) (*config.Manager, map[string]config.ComponentConfig) {
	m := config.NewManager()
	cs := map[string]config.ComponentConfig{}
	for _, s := range vc15MSecs {
		if unreg[s.name] {
			continue
		}
		c := s.mk()
		cs[s.name] = c
		m.RegisterComponent(s.typ, c)
	}
	return m, cs
}

func vc15MSafe(f func() error) (err error, panicked string) {
	defer func() {
		if r := recover(); r != nil {
			panicked = fmt.Sprint(r)
		}
	}()
	return f(), ""
}

func vc15MCanon(b []byte) string {
	var v interface{}
	d := json.NewDecoder(bytes.NewReader(b))
	d.UseNumber()
	if err := d.Decode(&v); err != nil {
		return "!" + err.Error()
	}
	o, _ := json.Marshal(v)
	return string(o)
}

var vc15MRawFiles = []string{
	`null`, `[]`, `5`, `{`, ``, `"x"`, `{"api": 5}`, `{"cluster": {}, "consensus": []}`, `{"api": {"restapi": 5}}`, `{"cluster": 5}`,
	`{"consensus": null}`, `{}`, `{"api": {"restapi": {"basic_auth_credentials": {"u": "c15-planted-pa55w0rd"}}}}`,
	`{"cluster": "c15-planted-cluster-private-key"}`, `{"datastore": {"badger": []}, "informer": {"disk": "x"}}`,
}

func vc15MGen(r *vRand) vc15MCase {
	c := vc15MCase{}
	for _, s := range vc15MSecs {
		if s.name != "cluster" && r.chance(15) {
			c.Absent = append(c.Absent, s.name)
			continue
		}
		if r.chance(2) {
			c.Null = append(c.Null, s.name)
		}
	}
	k := r.rng(0, 4)
	if r.chance(30) {
		k = 0
	}
	for i := 0; i < k; i++ {
		s := vc15MSecs[r.intn(len(vc15MSecs))]
		x := s.sets[r.intn(len(s.sets))]
		c.Set = append(c.Set, vc15MSet{s.name, x[0].(string), x[1]})
	}
	if r.chance(40) {
		ke := r.rng(1, 3)
		for i := 0; i < ke; i++ {
			s := vc15MSecs[r.intn(len(vc15MSecs))]
			x := s.envs[r.intn(len(s.envs))]
			c.Env = append(c.Env, vc15MEnv{s.name, x[0], x[1]})
		}
	}
	// which components this Manager knows
	if !r.chance(30) {
		p := []int{8, 25, 50}[r.intn(3)]
		for _, s := range vc15MSecs {
			q := p
			if s.name == "cluster" {
				q = 6
			}
			if s.name == "restapi" && r.chance(30) {
				q = 100
			}
			if r.chance(q) {
				c.Unreg = append(c.Unreg, s.name)
			}
		}
	}
	c.Plant = r.chance(75)
	c.Libp2p = r.chance(35)
	ne := r.rng(0, 3)
	for i := 0; i < ne; i++ {
		c.Extra = append(c.Extra, r.intn(len(vc15MExtras)))
	}
	if r.chance(4) {
		c.Junk = append(c.Junk, vc15MSecs[r.intn(len(vc15MSecs))].name)
	}
	switch x := r.intn(100); {
	case x < 14:
		c.Mode = "file"
	case x < 22:
		c.Mode = "default"
	case x < 27:
		c.Mode = "raw"
		c.Raw = vc15MRawFiles[r.intn(len(vc15MRawFiles))]
	}
	return c
}

// the file as the Manager's jsonConfig sees it (a mirror of that unexported struct)
type vc15MMirror struct {
	Cluster      *json.RawMessage            `json:"cluster"`
	Consensus    map[string]*json.RawMessage `json:"consensus"`
	API          map[string]*json.RawMessage `json:"api"`
	IPFSConn     map[string]*json.RawMessage `json:"ipfs_connector"`
	State        map[string]*json.RawMessage `json:"state"`
	PinTracker   map[string]*json.RawMessage `json:"pin_tracker"`
	Monitor      map[string]*json.RawMessage `json:"monitor"`
	Allocator    map[string]*json.RawMessage `json:"allocator"`
	Informer     map[string]*json.RawMessage `json:"informer"`
	Observations map[string]*json.RawMessage `json:"observations"`
	Datastore    map[string]*json.RawMessage `json:"datastore"`
}

func (m *vc15MMirror) group(g string) map[string]*json.RawMessage {
	switch g {
	case "consensus":
		return m.Consensus
	case "api":
		return m.API
	case "ipfs_connector":
		return m.IPFSConn
	case "state":
		return m.State
	case "pin_tracker":
		return m.PinTracker
	case "monitor":
		return m.Monitor
	case "allocator":
		return m.Allocator
	case "informer":
		return m.Informer
	case "observations":
		return m.Observations
	case "datastore":
		return m.Datastore
	}
	return nil
}

type vc15MKey struct{ group, name string }

// every (group, name) -> raw of a file; top-level members that are objects are taken as groups (known or not);
// ok=false when the bytes do not fit the Manager's jsonConfig
func vc15MSections(b []byte) (secs map[vc15MKey]*json.RawMessage, ok bool) {
	secs = map[vc15MKey]*json.RawMessage{}
	var mir vc15MMirror
	if err := json.Unmarshal(b, &mir); err != nil {
		return secs, false
	}
	var top map[string]*json.RawMessage
	if err := json.Unmarshal(b, &top); err != nil || top == nil {
		return secs, true // `null`: an empty file
	}
	known := map[string]bool{}
	for _, g := range vc15MGroups {
		known[g] = true
		for n, raw := range mir.group(g) {
			secs[vc15MKey{g, n}] = raw
		}
	}
	if raw, has := top["cluster"]; has {
		secs[vc15MKey{"", "cluster"}] = raw
	}
	for g, raw := range top {
		if known[g] || g == "cluster" || g == "source" || raw == nil {
			continue
		}
		var sub map[string]*json.RawMessage
		if json.Unmarshal(*raw, &sub) == nil {
			for n, r2 := range sub {
				secs[vc15MKey{g, n}] = r2
			}
		}
	}
	return secs, true
}

func vc15MStatus(raw *json.RawMessage, has bool) int {
	if !has {
		return 0
	}
	if raw == nil {
		return 1
	}
	t := bytes.TrimSpace(*raw)
	if len(t) > 0 && t[0] == '{' {
		return 2
	}
	return 3
}

var vc15MSecretNames = map[string]bool{"secret": true, "private_key": true, "basic_auth_credentials": true}

// every member named like a secret, at any depth: does it show the marker?
func vc15MSecretMembers(v interface{}, out *[]bool) {
	switch x := v.(type) {
	case map[string]interface{}:
		keys := make([]string, 0, len(x))
		for k := range x {
			keys = append(keys, k)
		}
		sort.Strings(keys)
		for _, k := range keys {
			if vc15MSecretNames[k] {
				s, isStr := x[k].(string)
				*out = append(*out, isStr && s == "XXX_hidden_XXX")
			} else {
				vc15MSecretMembers(x[k], out)
			}
		}
	case []interface{}:
		for _, e := range x {
			vc15MSecretMembers(e, out)
		}
	}
}

func TestVerifC15Manager(t *testing.T) {
	seed := uint64(vEnvInt("VERIF_SEED", 1))
	n := vEnvInt("VERIF_N", 150)
	// Manager.Shutdown waits for one tick of every registered section's save watcher
	config.ConfigSaveInterval = 5 * time.Millisecond
	for _, kv := range os.Environ() {
		if strings.HasPrefix(kv, "CLUSTER_") {
			os.Unsetenv(strings.SplitN(kv, "=", 2)[0])
		}
	}
	os.Setenv("VERIF_IDBASE", fmt.Sprint(vEnvInt("VERIF_IDBASE", 0)+15*10000000))
	out := newVOut("C15_manager", "From V Require Import Model.C15_Config Model.C15_Manager Model.C15_Check.\nFrom Coq Require Import String List ZArith NArith.\nImport ListNotations.\nOpen Scope N_scope.",
		"mcase", "Definition R := Eval vm_compute in mfailing cases.\nPrint R.")
	defer out.close()
	// default documents of every section
	defDocs := map[string]map[string]interface{}{}
	byName := map[string]vc15MSec{}
	idOf := map[vc15MKey]int{}
	for i, s := range vc15MSecs {
		byName[s.name] = s
		idOf[vc15MKey{s.group, s.name}] = i
		c := s.mk()
		if err := c.Default(); err != nil {
			t.Fatal(err)
		}
		b, err := c.ToJSON()
		if err != nil {
			t.Fatal(err)
		}
		var m map[string]interface{}
		json.Unmarshal(b, &m)
		defDocs[s.name] = m
	}
	knownGroup := map[string]bool{}
	for _, g := range vc15MGroups {
		knownGroup[g] = true
	}
	var cases []vc15MCase
	if in := vCasesIn(); in != nil {
		for _, b := range in {
			var c vc15MCase
			if err := json.Unmarshal(b, &c); err != nil {
				t.Fatal(err)
			}
			cases = append(cases, c)
		}
	} else {
		r := newVRand(seed + 15*7919)
		cases = append(cases, vc15MCase{})
		for i := 1; i < n; i++ {
			cases = append(cases, vc15MGen(r))
		}
	}
	nviol := map[string]int{}
	defer vCaseDone()
	for ci, c := range cases {
		vCaseStart(c)
		violation := func(sig, detail string) {
			nviol[sig]++
			if nviol[sig] > 2 { // one line per violation is enough to fail the run; keep the report short
				return
			}
			b, _ := json.Marshal(map[string]interface{}{"signature": sig, "detail": detail, "case": map[string]interface{}{"input": c}})
			fmt.Printf("VERIF-DIRECT-VIOLATION %s\n", b)
		}
		mode := c.Mode
		if mode != "file" && mode != "default" && mode != "raw" {
			mode = "load"
		}
		unreg := map[string]bool{}
		for _, a := range c.Unreg {
			if _, ok := byName[a]; ok {
				unreg[a] = true
			}
		}
		// ---- the file ----
		var raw []byte
		if mode == "raw" {
			raw = []byte(c.Raw)
		} else if mode != "default" {
			absent := map[string]bool{}
			for _, a := range c.Absent {
				if a != "cluster" {
					absent[a] = true
				}
			}
			isNull := map[string]bool{}
			for _, a := range c.Null {
				if !absent[a] {
					isNull[a] = true
				}
			}
			isJunk := map[string]bool{}
			for _, a := range c.Junk {
				isJunk[a] = true
			}
			docs := map[string]map[string]interface{}{}
			for _, s := range vc15MSecs {
				if absent[s.name] {
					continue
				}
				b, _ := json.Marshal(defDocs[s.name])
				var m map[string]interface{}
				json.Unmarshal(b, &m)
				docs[s.name] = m
			}
			if c.Plant {
				if d, ok := docs["cluster"]; ok {
					d["secret"] = vc15MSecretHex
					d["private_key"] = vc15MClusterKey
				}
				if d, ok := docs["restapi"]; ok {
					d["basic_auth_credentials"] = map[string]string{"admin": vc15MPassword}
				}
			}
			if c.Libp2p {
				if d, ok := docs["restapi"]; ok {
					d["id"] = vc15MRestID
					d["private_key"] = vc15MRestKey
					d["libp2p_listen_multiaddress"] = []string{"/ip4/127.0.0.1/tcp/0"}
				}
			}
			for _, st := range c.Set {
				if d, ok := docs[st.Sec]; ok {
					d[st.Key] = st.Val
				}
			}
			file := map[string]interface{}{}
			put := func(group, name string, v interface{}) {
				if group == "" {
					file[name] = v
					return
				}
				g, _ := file[group].(map[string]interface{})
				if g == nil {
					g = map[string]interface{}{}
					file[group] = g
				}
				g[name] = v
			}
			for _, s := range vc15MSecs {
				d, ok := docs[s.name]
				if !ok {
					continue
				}
				var v interface{} = d
				if isNull[s.name] {
					v = nil
				} else if isJunk[s.name] {
					v = 5
				}
				put(s.group, s.name, v)
			}
			for _, ei := range c.Extra {
				if ei < 0 || ei >= len(vc15MExtras) {
					continue
				}
				e := vc15MExtras[ei]
				put(e[0], e[1], map[string]interface{}{
					"secret":                 fmt.Sprintf("c15-planted-secret-%d", ei),
					"private_key":            fmt.Sprintf("c15-planted-key-%d", ei),
					"basic_auth_credentials": map[string]string{"root": fmt.Sprintf("c15-planted-cred-%d", ei)},
					"nested":                 map[string]interface{}{"private_key": fmt.Sprintf("c15-planted-nested-%d", ei)},
					"listen":                 "/ip4/127.0.0.1/tcp/1",
				})
			}
			raw, _ = json.Marshal(file)
		}
		// every planted secret that stands in the file
		var planted []string
		defSecret, _ := defDocs["cluster"]["secret"].(string) // the secret Default() drew for the default cluster document
		for _, s := range []string{vc15MSecretHex, vc15MSecretOld, vc15MClusterKey, vc15MPassword, vc15MPassOld, vc15MRestKey, defSecret} {
			if s == "" {
				continue
			}
			if bytes.Contains(raw, []byte(s)) {
				planted = append(planted, s)
			}
		}
		for ei := range vc15MExtras {
			for _, p := range []string{"secret", "key", "cred", "nested"} {
				s := fmt.Sprintf("c15-planted-%s-%d", p, ei)
				if bytes.Contains(raw, []byte(`"`+s+`"`)) {
					planted = append(planted, s)
				}
			}
		}
		// the file as a map (group, name) -> raw
		inSecs, wellFormed := map[vc15MKey]*json.RawMessage{}, true
		if mode != "default" {
			inSecs, wellFormed = vc15MSections(raw)
		}
		extraKeys := []vc15MKey{}
		for k := range inSecs {
			if _, real := idOf[k]; !real {
				extraKeys = append(extraKeys, k)
			}
		}
		sort.Slice(extraKeys, func(i, j int) bool {
			return extraKeys[i].group+"/"+extraKeys[i].name < extraKeys[j].group+"/"+extraKeys[j].name
		})
		keyID := map[vc15MKey]int{}
		for k, v := range idOf {
			keyID[k] = v
		}
		nKnown, nUnknown := 0, 0
		for _, k := range extraKeys {
			if knownGroup[k.group] {
				keyID[k] = 100 + nKnown
				nKnown++
			} else {
				keyID[k] = 200 + nUnknown
				nUnknown++
			}
		}
		nOutKnown, nOutUnknown := 0, 0
		idFor := func(k vc15MKey) int { // keys that turn up only in an output
			if id, ok := keyID[k]; ok {
				return id
			}
			var id int
			if knownGroup[k.group] {
				id = 150 + nOutKnown%40
				nOutKnown++
			} else {
				id = 240 + nOutUnknown%10
				nOutUnknown++
			}
			keyID[k] = id
			return id
		}
		// environment
		envSet := map[string]string{}
		for _, e := range c.Env {
			if s, ok := byName[e.Sec]; ok {
				envSet[s.env+"_"+e.Key] = e.Val
			}
		}
		dir := "."
		if mode == "file" {
			dir = fmt.Sprintf("c15m_%d", ci)
			os.MkdirAll(dir, 0700)
		}
		// ---- every registered section on its own ----
		type secRes struct {
			status int
			ok     bool
			saved  string
		}
		res := map[string]*secRes{}
		for _, s := range vc15MSecs {
			rawSec, has := inSecs[vc15MKey{s.group, s.name}]
			sr := &secRes{status: vc15MStatus(rawSec, has), ok: true}
			res[s.name] = sr
			if unreg[s.name] {
				continue
			}
			cfg := s.mk()
			cfg.SetBaseDir(dir)
			var err error
			var p string
			switch {
			case mode == "default":
				err = cfg.Default()
				if err == nil {
					err = cfg.Validate()
				}
			case sr.status <= 1 && s.name == "cluster":
				// no cluster section (or null): nothing is loaded, the component stays as it was; Validate decides
				err = cfg.Validate()
			case sr.status <= 1:
				// a component that is missing, or bound to null, takes its defaults
				err = cfg.Default()
				if err == nil {
					err = cfg.Validate()
				}
			default:
				err, p = vc15MSafe(func() error { return cfg.LoadJSON([]byte(*rawSec)) })
			}
			if p != "" {
				violation("config-panic", "section "+s.name+" alone: "+p)
				err = fmt.Errorf("panic")
			}
			if err == nil && len(envSet) > 0 && mode != "default" {
				for k, v := range envSet {
					os.Setenv(k, v)
				}
				err, p = vc15MSafe(cfg.ApplyEnvVars)
				for k := range envSet {
					os.Unsetenv(k)
				}
				if p != "" {
					violation("config-panic", "section "+s.name+" ApplyEnvVars: "+p)
					err = fmt.Errorf("panic")
				}
			}
			sr.ok = err == nil
			if sr.ok {
				if b, err := cfg.ToJSON(); err == nil {
					sr.saved = vc15MCanon(b)
				}
			}
		}
		// ---- the manager ----
		m, comps := vc15MNewSub(unreg)
		var err error
		var p string
		switch mode {
		case "default":
			err, p = vc15MSafe(m.Default)
			if err == nil && p == "" {
				err, p = vc15MSafe(m.Validate)
			}
		case "file":
			path := filepath.Join(dir, "service.json")
			if e := os.WriteFile(path, raw, 0600); e != nil {
				t.Fatal(e)
			}
			err, p = vc15MSafe(func() error { return m.LoadJSONFromFile(path) })
		default:
			err, p = vc15MSafe(func() error { return m.LoadJSON(raw) })
		}
		if p != "" {
			violation("manager-panic", "Manager load ("+mode+"): "+p)
			m.Shutdown()
			continue
		}
		loadOK := err == nil
		envOK := true
		if loadOK && len(envSet) > 0 && mode != "default" {
			for k, v := range envSet {
				os.Setenv(k, v)
			}
			err, p = vc15MSafe(m.ApplyEnvVars)
			for k := range envSet {
				os.Unsetenv(k)
			}
			if p != "" {
				violation("manager-panic", "Manager.ApplyEnvVars: "+p)
				m.Shutdown()
				continue
			}
			envOK = err == nil
			if envOK {
				envOK = m.Validate() == nil
			}
		}
		mgrOK := loadOK && envOK
		if mode == "default" && mgrOK {
			// Default() draws a fresh cluster secret: what each component saves is read from the Manager's own components
			for _, s := range vc15MSecs {
				if !unreg[s.name] {
					if b, err := comps[s.name].ToJSON(); err == nil {
						res[s.name].saved = vc15MCanon(b)
					}
				}
			}
		}
		reloadOK := true
		validOK := true
		diff := ""
		if mgrOK {
			// an accepted configuration passes validation
			err, p = vc15MSafe(m.Validate)
			if p != "" {
				violation("manager-panic", "Manager.Validate: "+p)
			}
			validOK = err == nil && p == ""
		}
		type savedObs struct{ present, null, eqOwn, eqIn bool }
		saved := map[int]savedObs{}
		if mgrOK {
			// the saved file
			var fb []byte
			if mode == "file" {
				err, p = vc15MSafe(func() error { return m.SaveJSON("") })
				if err == nil && p == "" {
					fb, err = os.ReadFile(filepath.Join(dir, "service.json"))
				}
			} else {
				err, p = vc15MSafe(func() error { var e error; fb, e = m.ToJSON(); return e })
			}
			if p != "" {
				violation("manager-panic", "Manager.ToJSON: "+p)
				m.Shutdown()
				continue
			}
			if err != nil {
				reloadOK = false
				diff += " ToJSON:" + err.Error()
			} else {
				outSecs, okOut := vc15MSections(fb)
				if !okOut {
					reloadOK = false
					diff += " ToJSON output is not a configuration file"
				}
				keys := map[vc15MKey]bool{}
				for k := range inSecs {
					keys[k] = true
				}
				for k := range outSecs {
					keys[k] = true
				}
				for _, s := range vc15MSecs {
					keys[vc15MKey{s.group, s.name}] = true
				}
				for k := range keys {
					o, has := outSecs[k]
					so := savedObs{present: has, null: has && o == nil}
					if has && o != nil {
						cn := vc15MCanon(*o)
						if i, real := idOf[k]; real && !unreg[vc15MSecs[i].name] {
							so.eqOwn = cn == res[vc15MSecs[i].name].saved
							if !so.eqOwn {
								diff += " file:" + k.name
							}
						}
						if in, hasIn := inSecs[k]; hasIn && in != nil {
							so.eqIn = cn == vc15MCanon(*in)
						}
					}
					saved[idFor(k)] = so
				}
				// the components still hold what they hold on their own
				for _, s := range vc15MSecs {
					if unreg[s.name] {
						continue
					}
					b, err := comps[s.name].ToJSON()
					if err != nil || vc15MCanon(b) != res[s.name].saved {
						reloadOK = false
						diff += " " + s.name
					}
				}
				// and the saved file loads again into the same thing (same registered set)
				m2, comps2 := vc15MNewSub(unreg)
				if mode == "file" {
					err, p = vc15MSafe(func() error { return m2.LoadJSONFromFile(filepath.Join(dir, "service.json")) })
				} else {
					err, p = vc15MSafe(func() error { return m2.LoadJSON(fb) })
				}
				if p != "" {
					violation("manager-panic", "Manager.LoadJSON(saved file): "+p)
					reloadOK = false
				} else if err != nil {
					reloadOK = false
					diff += " reload:" + err.Error()
				} else {
					for _, s := range vc15MSecs {
						if unreg[s.name] {
							continue
						}
						b, _ := comps2[s.name].ToJSON()
						if vc15MCanon(b) != res[s.name].saved {
							reloadOK = false
							diff += " reload:" + s.name
						}
					}
				}
				m2.Shutdown()
			}
		}
		// ---- the displayable form: always asked for, also after a refused load ----
		var db []byte
		err, p = vc15MSafe(func() error { var e error; db, e = m.ToDisplayJSON(); return e })
		dispAvail := p == "" && err == nil
		if p != "" && mgrOK {
			violation("manager-panic", "Manager.ToDisplayJSON: "+p)
		}
		if err != nil && mgrOK {
			reloadOK = false
			diff += " display:" + err.Error()
		}
		var leaks []int
		dispKeys := map[int][]bool{}
		var leakNames []string
		if dispAvail {
			secrets := append([]string{}, planted...)
			if cc, ok := comps["cluster"].(*ipfscluster.Config); ok && len(cc.Secret) > 0 {
				secrets = append(secrets, ipfscluster.EncodeProtectorKey(cc.Secret))
			}
			for i, s := range secrets {
				if bytes.Contains(db, []byte(s)) {
					leaks = append(leaks, i)
					leakNames = append(leakNames, s)
				}
			}
			dSecs, okD := vc15MSections(db)
			if !okD {
				dispAvail = false
			}
			for k, rawD := range dSecs {
				flags := []bool{}
				if rawD != nil {
					var v interface{}
					if json.Unmarshal(*rawD, &v) == nil {
						vc15MSecretMembers(v, &flags)
					}
				}
				dispKeys[idFor(k)] = flags
			}
		}
		m.Shutdown()
		if mode == "file" {
			os.RemoveAll(dir)
		}
		// ---- the Coq term ----
		var entries []string
		for i, s := range vc15MSecs {
			sr := res[s.name]
			entries = append(entries, fmt.Sprintf("(%d, %s, %d, %s)", i, cqBool(!unreg[s.name]), sr.status, cqBool(sr.ok)))
		}
		for _, k := range extraKeys {
			entries = append(entries, fmt.Sprintf("(%d, false, %d, true)", keyID[k], vc15MStatus(inSecs[k], true)))
		}
		var sids []int
		for id := range saved {
			sids = append(sids, id)
		}
		sort.Ints(sids)
		var savedT []string
		for _, id := range sids {
			so := saved[id]
			savedT = append(savedT, fmt.Sprintf("(%d, (%s, %s, %s, %s))", id, cqBool(so.present), cqBool(so.null), cqBool(so.eqOwn), cqBool(so.eqIn)))
		}
		dispT := "None"
		if dispAvail {
			var dids []int
			for id := range dispKeys {
				dids = append(dids, id)
			}
			sort.Ints(dids)
			var ds []string
			for _, id := range dids {
				var fl []string
				for _, b := range dispKeys[id] {
					fl = append(fl, cqBool(b))
				}
				ds = append(ds, fmt.Sprintf("(%d, [%s])", id, strings.Join(fl, "; ")))
			}
			dispT = fmt.Sprintf("(Some [%s])", strings.Join(ds, "; "))
		}
		modeN := map[string]int{"load": 0, "default": 1, "file": 2, "raw": 0}[mode]
		term := fmt.Sprintf("(%d, %s, [%s], %s, %s, [%s], %s, %s, %s)", modeN, cqBool(wellFormed), strings.Join(entries, "; "),
			cqBool(mgrOK), cqBool(validOK), strings.Join(savedT, "; "), cqBool(reloadOK), dispT, cqListN(leaks))
		out.count("manager:mode=" + mode)
		if mgrOK {
			out.count("manager:accepted")
		} else {
			out.count("manager:rejected")
		}
		if len(unreg) > 0 {
			out.count("manager:some-unregistered")
			if mgrOK {
				out.count("manager:some-unregistered:accepted")
			}
			if len(planted) > 0 {
				out.count("manager:some-unregistered:secrets-in-file")
			}
		}
		if len(extraKeys) > 0 {
			out.count("manager:unknown-component-sections")
		}
		secMap := map[string]string{}
		for _, s := range vc15MSecs {
			secMap[s.name] = fmt.Sprintf("registered=%v status=%d ok=%v", !unreg[s.name], res[s.name].status, res[s.name].ok)
		}
		obs := map[string]interface{}{"manager_ok": mgrOK, "valid_ok": validOK, "reload_ok": reloadOK, "diff": diff, "leaked_secrets": leakNames,
			"sections": secMap, "file": string(raw), "well_formed": wellFormed}
		if len(leakNames) > 0 || os.Getenv("VERIF_CASES_IN") != "" {
			obs["display"] = string(db)
		}
		out.add(term, c, obs, len(c.Set)+len(c.Env)+len(c.Absent)+len(c.Unreg)+len(c.Extra) > 0 || c.Raw != "")
	}
}
