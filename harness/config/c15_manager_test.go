//go:build verif

package config_test

// C15 — the configuration Manager with all 14 sections registered: a full file loads iff every section present in it
// loads on its own (absent sections take their defaults), what it saves is section by section what each section saves,
// environment variables are applied to every section, the displayable form hides the secrets. The per-section
// behaviour itself is checked against the Coq tables by the per-package harnesses; this one checks the composition.

import (
	"bytes"
	"encoding/json"
	"fmt"
	"os"
	"sort"
	"strings"
	"testing"
	"time"

	ipfscluster "github.com/ipfs/ipfs-cluster"
	"github.com/ipfs/ipfs-cluster/api/ipfsproxy"
	"github.com/ipfs/ipfs-cluster/api/rest"
	"github.com/ipfs/ipfs-cluster/config"
	"github.com/ipfs/ipfs-cluster/consensus/crdt"
	"github.com/ipfs/ipfs-cluster/consensus/raft"
	"github.com/ipfs/ipfs-cluster/datastore/badger"
	"github.com/ipfs/ipfs-cluster/datastore/leveldb"
	"github.com/ipfs/ipfs-cluster/informer/disk"
	"github.com/ipfs/ipfs-cluster/informer/numpin"
	"github.com/ipfs/ipfs-cluster/ipfsconn/ipfshttp"
	"github.com/ipfs/ipfs-cluster/monitor/pubsubmon"
	"github.com/ipfs/ipfs-cluster/observations"
	"github.com/ipfs/ipfs-cluster/pintracker/stateless"
)

type vc15MSec struct {
	name  string // section key
	group string // key of the enclosing object in the file ("" = top level)
	typ   config.SectionType
	mk    func() config.ComponentConfig
	env   string // environment prefix
	// candidate (json key, value) settings: valid and invalid
	sets [][2]interface{}
	envs [][2]string // (variable suffix, value)
}

var vc15MSecs = []vc15MSec{
	{"cluster", "", config.Cluster, func() config.ComponentConfig { return &ipfscluster.Config{} }, "CLUSTER",
		[][2]interface{}{{"peername", "verif-peer"}, {"replication_factor_min", 2}, {"replication_factor_max", 3}, {"state_sync_interval", "0s"},
			{"secret", strings.Repeat("ab", 32)}, {"listen_multiaddress", "bogus"}, {"mdns_interval", "0s"}, {"follower_mode", true}},
		[][2]string{{"PEERNAME", "env-peer"}, {"DIALPEERTIMEOUT", "7s"}, {"PINRECOVERINTERVAL", "-1s"}}},
	{"raft", "consensus", config.Consensus, func() config.ComponentConfig { return &raft.Config{} }, "CLUSTER_RAFT",
		[][2]interface{}{{"commit_retries", 3}, {"backups_rotate", -1}, {"datastore_namespace", "/mgr"}, {"heartbeat_timeout", "4ms"}, {"network_timeout", "3s"}},
		[][2]string{{"COMMITRETRIES", "5"}, {"DATASTORENAMESPACE", "/env"}, {"MAXAPPENDENTRIES", "2000"}}},
	{"crdt", "consensus", config.Consensus, func() config.ComponentConfig { return &crdt.Config{} }, "CLUSTER_CRDT",
		[][2]interface{}{{"cluster_name", "verif"}, {"trusted_peers", []string{"*"}}, {"trusted_peers", []string{"bogus"}}, {"rebroadcast_interval", "-1s"}, {"peerset_metric", "disk"}},
		[][2]string{{"CLUSTERNAME", "envname"}, {"BATCHING_MAXBATCHSIZE", "7"}}},
	{"restapi", "api", config.API, func() config.ComponentConfig { return &rest.Config{} }, "CLUSTER_RESTAPI",
		[][2]interface{}{{"max_header_bytes", 8192}, {"max_header_bytes", 100}, {"basic_auth_credentials", map[string]string{"admin": "mgr-s3cret-pa55"}}, {"idle_timeout", "1m"}, {"cors_max_age", "-1s"}},
		[][2]string{{"READTIMEOUT", "9s"}, {"MAXHEADERBYTES", "5"}}},
	{"ipfsproxy", "api", config.API, func() config.ComponentConfig { return &ipfsproxy.Config{} }, "CLUSTER_IPFSPROXY",
		[][2]interface{}{{"node_https", true}, {"max_header_bytes", 4095}, {"extract_headers_ttl", "0s"}, {"node_multiaddress", "bogus"}},
		[][2]string{{"NODEHTTPS", "true"}, {"IDLETIMEOUT", "-3s"}}},
	{"ipfshttp", "ipfs_connector", config.IPFSConn, func() config.ComponentConfig { return &ipfshttp.Config{} }, "CLUSTER_IPFSHTTP",
		[][2]interface{}{{"pin_timeout", "0s"}, {"pin_timeout", "-1s"}, {"unpin_disable", true}, {"node_multiaddress", "/ip4/127.0.0.1/tcp/5002"}, {"node_multiaddress", ""}},
		[][2]string{{"PINTIMEOUT", "30s"}, {"NODEMULTIADDRESS", "bogus"}}},
	{"stateless", "pin_tracker", config.PinTracker, func() config.ComponentConfig { return &stateless.Config{} }, "CLUSTER_STATELESS",
		[][2]interface{}{{"concurrent_pins", 3}, {"concurrent_pins", -1}, {"max_pin_queue_size", 5}},
		[][2]string{{"CONCURRENTPINS", "4"}, {"MAXPINQUEUESIZE", "-4"}}},
	{"pubsubmon", "monitor", config.Monitor, func() config.ComponentConfig { return &pubsubmon.Config{} }, "CLUSTER_PUBSUBMON",
		[][2]interface{}{{"check_interval", "1s"}, {"check_interval", "bogus"}, {"failure_threshold", 0}, {"failure_threshold", 2.5}},
		[][2]string{{"CHECKINTERVAL", "2s"}}},
	{"disk", "informer", config.Informer, func() config.ComponentConfig { return &disk.Config{} }, "CLUSTER_DISK",
		[][2]interface{}{{"metric_type", "reposize"}, {"metric_type", "bogus"}, {"metric_ttl", "1m"}},
		[][2]string{{"METRICTYPE", "reposize"}, {"METRICTTL", "0s"}}},
	{"numpin", "informer", config.Informer, func() config.ComponentConfig { return &numpin.Config{} }, "CLUSTER_NUMPIN",
		[][2]interface{}{{"metric_ttl", "3s"}, {"metric_ttl", "-3s"}},
		[][2]string{{"METRICTTL", "4s"}}},
	{"metrics", "observations", config.Observations, func() config.ComponentConfig { return &observations.MetricsConfig{} }, "CLUSTER_METRICS",
		[][2]interface{}{{"enable_stats", true}, {"reporting_interval", "-1s"}, {"prometheus_endpoint", "bogus"}},
		[][2]string{{"ENABLESTATS", "true"}}},
	{"tracing", "observations", config.Observations, func() config.ComponentConfig { return &observations.TracingConfig{} }, "CLUSTER_TRACING",
		[][2]interface{}{{"enable_tracing", true}, {"sampling_prob", -0.5}, {"service_name", "verif"}},
		[][2]string{{"SERVICENAME", "envsvc"}, {"SAMPLINGPROB", "0.9"}}},
	{"badger", "datastore", config.Datastore, func() config.ComponentConfig { return &badger.Config{} }, "CLUSTER_BADGER",
		[][2]interface{}{{"gc_discard_ratio", 0.5}, {"gc_discard_ratio", 1.5}, {"folder", "bdg"}, {"badger_options", map[string]interface{}{"sync_writes": false, "max_levels": 3}}},
		[][2]string{{"GCSLEEP", "1s"}, {"BADGEROPTIONS_SYNCWRITES", "false"}}},
	{"leveldb", "datastore", config.Datastore, func() config.ComponentConfig { return &leveldb.Config{} }, "CLUSTER_LEVELDB",
		[][2]interface{}{{"folder", "ldb"}, {"leveldb_options", map[string]interface{}{"no_sync": true, "block_size": 8}}},
		[][2]string{{"FOLDER", "envldb"}}},
}

type vc15MSet struct {
	Sec string      `json:"sec"`
	Key string      `json:"key"`
	Val interface{} `json:"val"`
}
type vc15MEnv struct {
	Sec string `json:"sec"`
	Key string `json:"key"`
	Val string `json:"val"`
}
type vc15MCase struct {
	Absent []string   `json:"absent"` // sections left out of the file
	Null   []string   `json:"null"`   // sections bound to JSON null
	Set    []vc15MSet `json:"set"`
	Env    []vc15MEnv `json:"env"`
}

func vc15MNew() (*config.Manager, map[string]config.ComponentConfig) {
	m := config.NewManager()
	cs := map[string]config.ComponentConfig{}
	for _, s := range vc15MSecs {
		c := s.mk()
		cs[s.name] = c
		m.RegisterComponent(s.typ, c)
	}
	return m, cs
}

func vc15MSafe(f func() error) (err error, panicked string) {
	defer func() {
		if r := recover(); r != nil {
			panicked = fmt.Sprint(r)
		}
	}()
	return f(), ""
}

func vc15MCanon(b []byte) string {
	var v interface{}
	d := json.NewDecoder(bytes.NewReader(b))
	d.UseNumber()
	if err := d.Decode(&v); err != nil {
		return "!" + err.Error()
	}
	o, _ := json.Marshal(v)
	return string(o)
}

func vc15MGen(r *vRand) vc15MCase {
	c := vc15MCase{}
	for _, s := range vc15MSecs {
		if s.name != "cluster" && r.chance(15) {
			c.Absent = append(c.Absent, s.name)
			continue
		}
		if r.chance(2) {
			c.Null = append(c.Null, s.name)
		}
	}
	k := r.rng(0, 4)
	if r.chance(30) {
		k = 0
	}
	for i := 0; i < k; i++ {
		s := vc15MSecs[r.intn(len(vc15MSecs))]
		x := s.sets[r.intn(len(s.sets))]
		c.Set = append(c.Set, vc15MSet{s.name, x[0].(string), x[1]})
	}
	if r.chance(40) {
		ke := r.rng(1, 3)
		for i := 0; i < ke; i++ {
			s := vc15MSecs[r.intn(len(vc15MSecs))]
			x := s.envs[r.intn(len(s.envs))]
			c.Env = append(c.Env, vc15MEnv{s.name, x[0], x[1]})
		}
	}
	return c
}

func TestVerifC15Manager(t *testing.T) {
	seed := uint64(vEnvInt("VERIF_SEED", 1))
	n := vEnvInt("VERIF_N", 150)
	// Manager.Shutdown waits for one tick of every registered section's save watcher
	config.ConfigSaveInterval = 5 * time.Millisecond
	for _, kv := range os.Environ() {
		if strings.HasPrefix(kv, "CLUSTER_") {
			os.Unsetenv(strings.SplitN(kv, "=", 2)[0])
		}
	}
	os.Setenv("VERIF_IDBASE", fmt.Sprint(vEnvInt("VERIF_IDBASE", 0)+15*10000000))
	out := newVOut("C15_manager", "From V Require Import Model.C15_Config Model.C15_Check.\nFrom Coq Require Import String List ZArith NArith.\nImport ListNotations.",
		"mcase", "Definition R := Eval vm_compute in mfailing cases.\nOpen Scope N_scope.\nPrint R.")
	defer out.close()
	// default documents of every section
	defDocs := map[string]map[string]interface{}{}
	byName := map[string]vc15MSec{}
	for _, s := range vc15MSecs {
		byName[s.name] = s
		c := s.mk()
		if err := c.Default(); err != nil {
			t.Fatal(err)
		}
		b, err := c.ToJSON()
		if err != nil {
			t.Fatal(err)
		}
		var m map[string]interface{}
		json.Unmarshal(b, &m)
		defDocs[s.name] = m
	}
	var cases []vc15MCase
	if in := vCasesIn(); in != nil {
		for _, b := range in {
			var c vc15MCase
			if err := json.Unmarshal(b, &c); err != nil {
				t.Fatal(err)
			}
			cases = append(cases, c)
		}
	} else {
		r := newVRand(seed + 15*7919)
		cases = append(cases, vc15MCase{})
		for i := 1; i < n; i++ {
			cases = append(cases, vc15MGen(r))
		}
	}
	nviol := map[string]int{}
	defer vCaseDone()
	for _, c := range cases {
		vCaseStart(c)
		violation := func(sig, detail string) {
			nviol[sig]++
			if nviol[sig] > 2 { // one line per violation is enough to fail the run; keep the report short
				return
			}
			b, _ := json.Marshal(map[string]interface{}{"signature": sig, "detail": detail, "case": map[string]interface{}{"input": c}})
			fmt.Printf("VERIF-DIRECT-VIOLATION %s\n", b)
		}
		absent := map[string]bool{}
		for _, a := range c.Absent {
			if a != "cluster" {
				absent[a] = true
			}
		}
		isNull := map[string]bool{}
		for _, a := range c.Null {
			if !absent[a] {
				isNull[a] = true
			}
		}
		// section documents
		docs := map[string]map[string]interface{}{}
		for _, s := range vc15MSecs {
			if absent[s.name] {
				continue
			}
			b, _ := json.Marshal(defDocs[s.name])
			var m map[string]interface{}
			json.Unmarshal(b, &m)
			docs[s.name] = m
		}
		for _, st := range c.Set {
			if d, ok := docs[st.Sec]; ok {
				d[st.Key] = st.Val
			}
		}
		file := map[string]interface{}{}
		for _, s := range vc15MSecs {
			d, ok := docs[s.name]
			if !ok {
				continue
			}
			var v interface{} = d
			if isNull[s.name] {
				v = nil
			}
			if s.group == "" {
				file[s.name] = v
				continue
			}
			g, _ := file[s.group].(map[string]interface{})
			if g == nil {
				g = map[string]interface{}{}
				file[s.group] = g
			}
			g[s.name] = v
		}
		raw, _ := json.Marshal(file)
		// environment
		envSet := map[string]string{}
		for _, e := range c.Env {
			if s, ok := byName[e.Sec]; ok {
				envSet[s.env+"_"+e.Key] = e.Val
			}
		}
		// expectation, section by section, from the sections on their own
		type secRes struct {
			present, ok bool
			saved       string
		}
		res := map[string]*secRes{}
		var names []string
		for _, s := range vc15MSecs {
			names = append(names, s.name)
			sr := &secRes{present: !absent[s.name] && !isNull[s.name]}
			res[s.name] = sr
			cfg := s.mk()
			var err error
			var p string
			switch {
			case isNull[s.name] && s.name == "cluster":
				// "cluster": null is treated like a missing cluster section: nothing is loaded, Validate decides
				err = cfg.Validate()
			case absent[s.name] || isNull[s.name]:
				// a component that is missing, or bound to null, takes its defaults
				err = cfg.Default()
				if err == nil {
					err = cfg.Validate()
				}
			default:
				b, _ := json.Marshal(docs[s.name])
				err, p = vc15MSafe(func() error { return cfg.LoadJSON(b) })
			}
			if p != "" {
				violation("config-panic", "section "+s.name+" alone: "+p)
				err = fmt.Errorf("panic")
			}
			if err == nil && len(envSet) > 0 {
				for k, v := range envSet {
					os.Setenv(k, v)
				}
				err, p = vc15MSafe(cfg.ApplyEnvVars)
				for k := range envSet {
					os.Unsetenv(k)
				}
				if p != "" {
					violation("config-panic", "section "+s.name+" ApplyEnvVars: "+p)
					err = fmt.Errorf("panic")
				}
			}
			sr.ok = err == nil
			if sr.ok {
				if b, err := cfg.ToJSON(); err == nil {
					sr.saved = vc15MCanon(b)
				}
			}
		}
		// the manager
		m, comps := vc15MNew()
		err, p := vc15MSafe(func() error { return m.LoadJSON(raw) })
		if p != "" {
			violation("manager-panic", "Manager.LoadJSON: "+p)
			m.Shutdown()
			continue
		}
		loadOK := err == nil
		envOK := true
		if loadOK && len(envSet) > 0 {
			for k, v := range envSet {
				os.Setenv(k, v)
			}
			err, p = vc15MSafe(m.ApplyEnvVars)
			for k := range envSet {
				os.Unsetenv(k)
			}
			if p != "" {
				violation("manager-panic", "Manager.ApplyEnvVars: "+p)
				m.Shutdown()
				continue
			}
			envOK = err == nil
			if envOK {
				envOK = m.Validate() == nil
			}
		}
		mgrOK := loadOK && envOK
		savedEq, leak := true, false
		diff := ""
		if mgrOK {
			for _, s := range vc15MSecs {
				b, err := comps[s.name].ToJSON()
				if err != nil || vc15MCanon(b) != res[s.name].saved {
					savedEq = false
					diff += " " + s.name
				}
			}
			// the saved file contains every section's saved form
			var fb []byte
			err, p = vc15MSafe(func() error { var e error; fb, e = m.ToJSON(); return e })
			if p != "" {
				violation("manager-panic", "Manager.ToJSON: "+p)
			} else if err != nil {
				savedEq = false
				diff += " ToJSON:" + err.Error()
			} else {
				var top map[string]json.RawMessage
				json.Unmarshal(fb, &top)
				for _, s := range vc15MSecs {
					var rawSec json.RawMessage
					if s.group == "" {
						rawSec = top[s.name]
					} else {
						var g map[string]json.RawMessage
						json.Unmarshal(top[s.group], &g)
						rawSec = g[s.name]
					}
					if vc15MCanon(rawSec) != res[s.name].saved {
						savedEq = false
						diff += " file:" + s.name
					}
				}
				// and loads again into the same thing
				m2, comps2 := vc15MNew()
				if err := m2.LoadJSON(fb); err != nil {
					savedEq = false
					diff += " reload:" + err.Error()
				} else {
					for _, s := range vc15MSecs {
						b, _ := comps2[s.name].ToJSON()
						if vc15MCanon(b) != res[s.name].saved {
							savedEq = false
							diff += " reload:" + s.name
						}
					}
				}
				m2.Shutdown()
			}
			db, err := m.ToDisplayJSON()
			if err != nil {
				savedEq = false
				diff += " display:" + err.Error()
			}
			for _, secret := range []string{"mgr-s3cret-pa55", strings.Repeat("ab", 32)} {
				if bytes.Contains(db, []byte(secret)) {
					leak = true
				}
			}
			if cc, ok := comps["cluster"].(*ipfscluster.Config); ok && len(cc.Secret) > 0 {
				if bytes.Contains(db, []byte(ipfscluster.EncodeProtectorKey(cc.Secret))) {
					leak = true
				}
			}
		}
		m.Shutdown()
		sort.Strings(names)
		var items []string
		for _, s := range vc15MSecs {
			items = append(items, fmt.Sprintf("(%s, %s)", cqBool(res[s.name].present), cqBool(res[s.name].ok)))
		}
		term := fmt.Sprintf("([%s], %s, %s, %s)", strings.Join(items, "; "), cqBool(mgrOK), cqBool(savedEq), cqBool(leak))
		if mgrOK {
			out.count("manager:accepted")
		} else {
			out.count("manager:rejected")
		}
		out.add(term, c, map[string]interface{}{"manager_ok": mgrOK, "saved_equal": savedEq, "diff": diff, "leak": leak, "sections": vc15MResMap(names, func(n string) [2]bool { return [2]bool{res[n].present, res[n].ok} })}, len(c.Set)+len(c.Env)+len(c.Absent) > 0)
	}
}

func vc15MResMap(names []string, f func(string) [2]bool) map[string]string {
	out := map[string]string{}
	for _, n := range names {
		x := f(n)
		out[n] = fmt.Sprintf("present=%v ok=%v", x[0], x[1])
	}
	return out
}
