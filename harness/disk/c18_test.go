//go:build verif

package disk

// C18 stress scenario for the disk informer: "shutting a component down while it is in use".

import (
	"context"
	"strconv"
	"sync/atomic"
	"time"

	"github.com/ipfs/ipfs-cluster/test"
)

// case ids of this package start here (one runner evidence table for all packages)
// directory of this package inside the repository (race signatures are made relative to the repository root)
const vC18PkgDir = "informer/disk"

const vC18IDBase = 400

var vC18Plan = []vC18Scen{{Name: "disk-shutdown", Ms: 700, Workers: 5}}

var vC18Scenarios = map[string]func(x *vC18Ctx){"disk-shutdown": vC18Informer}

// metrics are produced by several goroutines (as the cluster's metric push loops do) while another one
// shuts the informer down; a fresh informer (SetClient before any other goroutine sees it) replaces it
func vC18Informer(x *vC18Ctx) {
	x.deadline = time.Now().Add(time.Duration(x.scen.Ms) * time.Millisecond)
	ctx := context.Background()
	client := test.NewMockRPCClient(x.t)
	mk := func() *Informer {
		cfg := &Config{}
		cfg.Default()
		inf, err := NewInformer(cfg)
		if err != nil {
			panic(err)
		}
		inf.SetClient(client)
		return inf
	}
	var cur atomic.Value
	cur.Store(mk())
	x.loop("Shutdown", 0, func(r *vRand, i int) {
		time.Sleep(time.Duration(200+r.intn(800)) * time.Microsecond)
		inf := cur.Load().(*Informer)
		if err := inf.Shutdown(ctx); err != nil {
			x.stat(1, 1)
		}
		if m := inf.GetMetric(ctx); m == nil || m.Valid {
			x.stat(1, 1) // after Shutdown has returned, metrics are invalid
		}
		cur.Store(mk())
	})
	for k := 1; k < x.scen.Workers; k++ {
		x.loop("GetMetric", k, func(r *vRand, i int) {
			inf := cur.Load().(*Informer)
			m := inf.GetMetric(ctx)
			if m == nil || m.Name != inf.Name() {
				x.stat(0, 1)
				return
			}
			if m.Valid {
				if _, err := strconv.ParseUint(m.Value, 10, 64); err != nil {
					x.stat(0, 1)
				}
			}
		})
	}
	x.wait()
}
