//go:build verif

package pstoremgr

// C14 correspondence harness, package pstoremgr: the real LoadPeerstore / ImportPeersFromPeerstore /
// PeerInfos / SavePeerstoreForPeers on real libp2p hosts and real files under $VERIF_DIR/.build.

import (
	"context"
	"encoding/json"
	"fmt"
	"io/ioutil"
	"os"
	"path/filepath"
	"sort"
	"strings"
	"testing"

	"github.com/ipfs/ipfs-cluster/test"

	libp2p "github.com/libp2p/go-libp2p"
	crypto "github.com/libp2p/go-libp2p-core/crypto"
	host "github.com/libp2p/go-libp2p-core/host"
	peer "github.com/libp2p/go-libp2p-core/peer"
	peerstore "github.com/libp2p/go-libp2p-core/peerstore"
	ma "github.com/multiformats/go-multiaddr"
	madns "github.com/multiformats/go-multiaddr-dns"
)

const vc14IDBase = 200000

type vC14PsPeer struct {
	ID    string   `json:"id"`
	Addrs []string `json:"addrs"`
	Prio  int      `json:"prio"` // < 0: no priority tag
}

type vC14PsCase struct {
	Kind   string       `json:"kind"` // "file" | "save"
	Lines  []string     `json:"lines,omitempty"`
	NoNL   bool         `json:"no_final_newline,omitempty"`
	Peers  []vC14PsPeer `json:"peers,omitempty"`
	Query  []string     `json:"query"`
	Perm2  int          `json:"perm2,omitempty"` // seed of the order in which the second host is asked (0: same order)
	// save: what the file holds before the save (an earlier, usually longer, save: the file is rewritten at every shutdown)
	Prev []string `json:"prev,omitempty"`
}

// deterministic byte stream for key generation
type vc14Reader struct{ r *vRand }

func (d vc14Reader) Read(p []byte) (int, error) {
	for i := range p {
		p[i] = byte(d.r.next())
	}
	return len(p), nil
}

type vc14PsRig struct {
	root  string
	keys  [2]crypto.PrivKey
	self  [2]peer.ID
	peers []peer.ID // universe of other peers
	n     int
}

func newVC14PsRig() *vc14PsRig {
	base := os.Getenv("VERIF_DIR")
	if base == "" {
		panic("VERIF_DIR not set")
	}
	root := filepath.Join(base, ".build", "c14tmp", fmt.Sprintf("pstore-%d", os.Getpid()))
	os.RemoveAll(root)
	if err := os.MkdirAll(root, 0700); err != nil {
		panic(err)
	}
	rig := &vc14PsRig{root: root}
	kr := vc14Reader{newVRand(14)}
	for i := 0; i < 2; i++ {
		priv, _, err := crypto.GenerateEd25519Key(kr)
		if err != nil {
			panic(err)
		}
		rig.keys[i] = priv
		rig.self[i], _ = peer.IDFromPrivateKey(priv)
	}
	rig.peers = []peer.ID{test.PeerID1, test.PeerID2, test.PeerID3, test.PeerID4, test.PeerID5, test.PeerID6}
	for i := 0; i < 2; i++ {
		priv, _, _ := crypto.GenerateEd25519Key(kr)
		id, _ := peer.IDFromPrivateKey(priv)
		rig.peers = append(rig.peers, id)
	}
	return rig
}

func (rig *vc14PsRig) close() { os.RemoveAll(rig.root) }

func (rig *vc14PsRig) host(i int) host.Host {
	h, err := libp2p.New(context.Background(), libp2p.Identity(rig.keys[i]), libp2p.NoListenAddrs)
	if err != nil {
		panic(err)
	}
	return h
}

func (rig *vc14PsRig) file() string {
	rig.n++
	return filepath.Join(rig.root, fmt.Sprintf("peerstore-%d", rig.n))
}

// ---- interning: peers by first appearance, transports by string order ----
type vc14Intern struct {
	peers  map[peer.ID]int
	trs    map[string]int
	raws   map[string]int
	trList []string
}

func newVC14Intern(self ...peer.ID) *vc14Intern {
	in := &vc14Intern{peers: map[peer.ID]int{}, trs: map[string]int{}, raws: map[string]int{}}
	for _, s := range self {
		in.peer(s)
	}
	return in
}
func (in *vc14Intern) peer(p peer.ID) int {
	if i, ok := in.peers[p]; ok {
		return i
	}
	in.peers[p] = len(in.peers)
	return in.peers[p]
}
func (in *vc14Intern) noteTransport(s string) { in.trList = append(in.trList, s) }
func (in *vc14Intern) noteAddr(m ma.Multiaddr) {
	if m == nil {
		return
	}
	tr, id := peer.SplitAddr(m)
	if id != "" && tr != nil {
		in.noteTransport(tr.String())
	}
}
func (in *vc14Intern) freeze() {
	sort.Strings(in.trList)
	for _, s := range in.trList {
		if _, ok := in.trs[s]; !ok {
			in.trs[s] = len(in.trs)
		}
	}
}
func (in *vc14Intern) transport(m ma.Multiaddr) string {
	i, ok := in.trs[m.String()]
	if !ok { // not in the universe: cannot equal anything the model knows
		i = 900000 + len(in.trs)
		in.trs[m.String()] = i
	}
	return fmt.Sprintf("(%d, %s)", i, cqBool(madns.Matches(m)))
}
func (in *vc14Intern) paddr(m ma.Multiaddr) string {
	if m == nil {
		return "None"
	}
	tr, id := peer.SplitAddr(m)
	if id == "" {
		i, ok := in.raws[m.String()]
		if !ok {
			i = len(in.raws)
			in.raws[m.String()] = i
		}
		return fmt.Sprintf("Some (PRaw %d)", i)
	}
	if tr == nil {
		return fmt.Sprintf("Some (PP2p %d None)", in.peer(id))
	}
	return fmt.Sprintf("Some (PP2p %d (Some %s))", in.peer(id), in.transport(tr))
}
func (in *vc14Intern) line(s string) string {
	if len(s) == 0 {
		return "LEmpty"
	}
	p := "None"
	if s[0] == '/' {
		if m, err := ma.NewMultiaddr(s); err == nil {
			p = "(" + in.paddr(m) + ")"
		}
	}
	return fmt.Sprintf("LText %d %s", s[0], p)
}
func (in *vc14Intern) infos(l []peer.AddrInfo) string {
	xs := make([]string, len(l))
	for i, pi := range l {
		ts := make([]string, len(pi.Addrs))
		for j, a := range pi.Addrs {
			ts[j] = in.transport(a)
		}
		xs[i] = fmt.Sprintf("(%d, %s)", in.peer(pi.ID), cqList(ts))
	}
	return cqList(xs)
}
func (in *vc14Intern) peerList(l []peer.ID) string {
	xs := make([]int, len(l))
	for i, p := range l {
		xs[i] = in.peer(p)
	}
	return cqListN(xs)
}

func vc14InfosJSON(l []peer.AddrInfo) []map[string]interface{} {
	out := []map[string]interface{}{}
	for _, pi := range l {
		as := []string{}
		for _, a := range pi.Addrs {
			as = append(as, a.String())
		}
		out = append(out, map[string]interface{}{"id": peer.Encode(pi.ID), "addrs": as})
	}
	return out
}

func vc14AddrsJSON(l []ma.Multiaddr) []interface{} {
	out := []interface{}{}
	for _, a := range l {
		if a == nil {
			out = append(out, nil)
		} else {
			out = append(out, a.String())
		}
	}
	return out
}

func vc14DecodePeers(ids []string) []peer.ID {
	seen := map[peer.ID]bool{}
	out := []peer.ID{}
	for _, s := range ids {
		p, err := peer.Decode(s)
		if err != nil || seen[p] {
			continue
		}
		seen[p] = true
		out = append(out, p)
	}
	return out
}

func vc14CleanLine(s string) string {
	s = strings.ReplaceAll(s, "\n", "")
	s = strings.ReplaceAll(s, "\r", "")
	if len(s) > 4000 {
		s = s[:4000]
	}
	return s
}

func vc14ReadLines(path string) []string {
	b, err := ioutil.ReadFile(path)
	if err != nil {
		return nil
	}
	s := string(b)
	if strings.HasSuffix(s, "\n") {
		s = s[:len(s)-1]
	}
	if s == "" {
		return []string{}
	}
	return strings.Split(s, "\n")
}

var vc14DirectPrinted = map[string]int{}

func vc14Direct(sig string, detail interface{}, input interface{}) {
	vc14DirectPrinted[sig]++
	if vc14DirectPrinted[sig] > 2 {
		return
	}
	b, _ := json.Marshal(map[string]interface{}{"signature": sig, "detail": detail, "case": map[string]interface{}{"input": input}})
	fmt.Printf("VERIF-DIRECT-VIOLATION %s\n", b)
}

// load + import + PeerInfos on a fresh host; a panic is recovered and reported
func vc14LoadImport(h host.Host, path string, query []peer.ID) (loaded []ma.Multiaddr, infos []peer.AddrInfo, panicked interface{}) {
	pm := New(context.Background(), h, path)
	func() {
		defer func() {
			if r := recover(); r != nil {
				panicked = fmt.Sprint(r)
			}
		}()
		loaded = pm.LoadPeerstore()
	}()
	if panicked != nil {
		return
	}
	func() {
		defer func() {
			if r := recover(); r != nil {
				panicked = fmt.Sprint(r)
			}
		}()
		pm.ImportPeersFromPeerstore(false, peerstore.PermanentAddrTTL)
		infos = pm.PeerInfos(query)
		if infos == nil {
			infos = []peer.AddrInfo{}
		}
	}()
	return
}

func (rig *vc14PsRig) runFile(out *vOut, c vC14PsCase) {
	for i := range c.Lines {
		c.Lines[i] = vc14CleanLine(c.Lines[i])
	}
	if len(c.Lines) == 0 {
		c.NoNL = false
	}
	query := vc14DecodePeers(c.Query)
	path := rig.file()
	content := strings.Join(c.Lines, "\n")
	if !c.NoNL && len(c.Lines) > 0 {
		content += "\n"
	}
	if c.NoNL && len(c.Lines) > 0 && c.Lines[len(c.Lines)-1] == "" {
		// a final empty line without newline is not a line at all
		c.Lines = c.Lines[:len(c.Lines)-1]
	}
	if err := ioutil.WriteFile(path, []byte(content), 0600); err != nil {
		panic(err)
	}
	h := rig.host(0)
	defer h.Close()
	loaded, infos, panicked := vc14LoadImport(h, path, query)
	os.Remove(path)

	in := newVC14Intern(rig.self[0])
	nparsed, ngarbage, nskip := 0, 0, 0
	for _, l := range c.Lines {
		if len(l) > 0 && l[0] == '/' {
			if m, err := ma.NewMultiaddr(l); err == nil {
				in.noteAddr(m)
				nparsed++
			} else {
				ngarbage++
			}
		} else {
			nskip++
		}
	}
	for _, a := range loaded {
		in.noteAddr(a)
	}
	for _, pi := range infos {
		for _, a := range pi.Addrs {
			in.noteTransport(a.String())
		}
	}
	in.freeze()
	ls := make([]string, len(c.Lines))
	for i, l := range c.Lines {
		ls[i] = in.line(l)
	}
	ol := make([]string, len(loaded))
	for i, a := range loaded {
		ol[i] = in.paddr(a)
	}
	oi := "None"
	if panicked == nil {
		oi = "(Some " + in.infos(infos) + ")"
	} else {
		out.count("file.panic")
		vc14Direct("peerstore-import-panic", panicked, c)
	}
	if ngarbage > 0 {
		out.count("file.with_slash_garbage")
	}
	if nskip > 0 {
		out.count("file.with_skipped_lines")
	}
	out.count("file")
	term := fmt.Sprintf("PPsFile %d %s %s %s %s", in.peer(rig.self[0]), cqList(ls), in.peerList(query), cqList(ol), oi)
	out.add(term, c, map[string]interface{}{"loaded": vc14AddrsJSON(loaded), "infos": vc14InfosJSON(infos), "panic": panicked},
		nparsed >= 2 && (ngarbage > 0 || nskip > 0))
}

func (rig *vc14PsRig) runSave(out *vOut, c vC14PsCase) {
	query := vc14DecodePeers(c.Query)
	query2 := append([]peer.ID{}, query...)
	if c.Perm2 != 0 {
		pr := newVRand(uint64(c.Perm2))
		for i := len(query2) - 1; i > 0; i-- {
			j := pr.intn(i + 1)
			query2[i], query2[j] = query2[j], query2[i]
		}
	}
	path := rig.file()
	if len(c.Prev) > 0 {
		if err := os.WriteFile(path, []byte(strings.Join(c.Prev, "\n")+"\n"), 0644); err != nil {
			panic(err)
		}
	}
	h1 := rig.host(0)
	defer h1.Close()
	pm1 := New(context.Background(), h1, path)
	in := newVC14Intern(rig.self[0], rig.self[1])
	type pre struct {
		p    peer.ID
		trs  []ma.Multiaddr
		prio int
	}
	var pres []pre
	seen := map[peer.ID]bool{}
	for _, pp := range c.Peers {
		p, err := peer.Decode(pp.ID)
		if err != nil || seen[p] || p == rig.self[0] || p == rig.self[1] {
			continue
		}
		seen[p] = true
		e := pre{p: p, prio: pp.Prio}
		for _, s := range pp.Addrs {
			m, err := ma.NewMultiaddr(s)
			if err != nil {
				continue
			}
			if ps := m.Protocols(); len(ps) > 0 && ps[0].Code == ma.P_DNSADDR {
				continue // needs a resolver
			}
			if _, id := peer.SplitAddr(m); id != "" {
				continue // transports only
			}
			e.trs = append(e.trs, m)
			in.noteTransport(m.String())
		}
		pres = append(pres, e)
		h1.Peerstore().AddAddrs(p, e.trs, peerstore.PermanentAddrTTL)
		if e.prio >= 0 {
			pm1.SetPriority(p, e.prio)
		}
	}
	var panicked interface{}
	var obs0 []peer.AddrInfo
	func() {
		defer func() {
			if r := recover(); r != nil {
				panicked = fmt.Sprint(r)
			}
		}()
		obs0 = pm1.PeerInfos(query)
		pm1.SavePeerstoreForPeers(query)
	}()
	lines := vc14ReadLines(path)
	h2 := rig.host(1)
	defer h2.Close()
	var loaded []ma.Multiaddr
	var obs2 []peer.AddrInfo
	if panicked == nil {
		loaded, obs2, panicked = vc14LoadImport(h2, path, query2)
	}
	os.Remove(path)
	for _, a := range loaded {
		in.noteAddr(a)
	}
	for _, l := range lines {
		if m, err := ma.NewMultiaddr(l); err == nil {
			in.noteAddr(m)
		}
	}
	for _, l := range [][]peer.AddrInfo{obs0, obs2} {
		for _, pi := range l {
			for _, a := range pi.Addrs {
				in.noteTransport(a.String())
			}
		}
	}
	in.freeze()
	prs := make([]string, len(pres))
	multi, dns := false, false
	for i, e := range pres {
		ts := make([]string, len(e.trs))
		for j, a := range e.trs {
			ts[j] = in.transport(a)
			if madns.Matches(a) {
				dns = true
			}
		}
		if len(e.trs) > 1 {
			multi = true
		}
		pr := "None"
		if e.prio >= 0 {
			pr = fmt.Sprintf("(Some %d%%nat)", e.prio)
		}
		prs[i] = fmt.Sprintf("(%d, %s, %s)", in.peer(e.p), cqList(ts), pr)
	}
	ls := make([]string, len(lines))
	for i, l := range lines {
		ls[i] = in.line(l)
	}
	ol := make([]string, len(loaded))
	for i, a := range loaded {
		ol[i] = in.paddr(a)
	}
	o2 := "None"
	if panicked == nil {
		o2 = "(Some " + in.infos(obs2) + ")"
	} else {
		out.count("save.panic")
		vc14Direct("peerstore-roundtrip-panic", panicked, c)
	}
	out.count("save")
	if multi {
		out.count("save.multi_address_peer")
	}
	if dns {
		out.count("save.dns_address")
	}
	term := fmt.Sprintf("PPsSave %d %d %s %s %s %s %s %s %s", in.peer(rig.self[0]), in.peer(rig.self[1]), cqList(prs),
		in.peerList(query), in.peerList(query2), in.infos(obs0), cqList(ls), cqList(ol), o2)
	out.add(term, c, map[string]interface{}{"infos_before": vc14InfosJSON(obs0), "file": lines, "loaded": vc14AddrsJSON(loaded),
		"infos_after": vc14InfosJSON(obs2), "panic": panicked}, len(obs0) >= 2)
}

// ---------------- generators ----------------
var vc14Transports = []string{
	"/ip4/127.0.0.1/tcp/9096", "/ip4/10.0.0.7/tcp/9096", "/ip4/192.168.1.20/tcp/19096", "/ip4/10.0.0.7/tcp/80",
	"/ip6/::1/tcp/9096", "/ip6/2001:db8::2/tcp/9096", "/ip4/1.2.3.4/udp/4001/quic", "/ip4/9.9.9.9/tcp/443/ws",
	"/dns4/cluster-a.example.org/tcp/9096", "/dns6/cluster-b.example.org/tcp/9096", "/dns/cluster-c.example.org/tcp/9096",
	"/dns4/cluster-a.example.org/tcp/9097", "/dns4/localhost/tcp/1235",
}

func (rig *vc14PsRig) anyPeer(r *vRand) peer.ID { return rig.peers[r.intn(len(rig.peers))] }

func (rig *vc14PsRig) garbageLine(r *vRand, slash bool) string {
	pool := []string{"/foo", "/", "//", "/ip4", "/ip4/999.1.1.1/tcp/1", "/ip4/1.2.3.4/tcp", "/ip4/1.2.3.4/tcp/70000", "/p2p/notapeer",
		"/ip4/1.2.3.4/tcp/1 ", "/ip4/1.2.3.4/tcp/1/p2p/", "/dns4//tcp/1", "/unknownproto/1", "/ip4/1.2.3.4/tcp/1/p2p/Qm", "/ip4/1.2.3.4 /tcp/1",
		"/\x00", "/\xff\xfe", "/ip6/zz::1/tcp/1", "/tcp/x"}
	nopool := []string{"hello world", "# /ip4/1.2.3.4/tcp/1", " /ip4/1.2.3.4/tcp/1", "\t", "ip4/1.2.3.4/tcp/1", "\\ip4", "#", " ", "\x00", "\xff/foo", "QmXZrtE5jQwXNqCJMfHUTQkvhQ4ZAnqMnmzFMJfLewuabc"}
	if slash {
		if r.chance(25) {
			n := r.rng(1, 40)
			b := []byte{'/'}
			for i := 0; i < n; i++ {
				ch := byte(r.rng(1, 255))
				if ch == '\n' || ch == '\r' {
					ch = '/'
				}
				b = append(b, ch)
			}
			return string(b)
		}
		if r.chance(5) {
			return "/" + strings.Repeat("x", 3000)
		}
		return pool[r.intn(len(pool))]
	}
	if r.chance(20) {
		n := r.rng(1, 30)
		b := []byte{}
		for i := 0; i < n; i++ {
			ch := byte(r.rng(1, 255))
			if ch == '\n' || ch == '\r' || (i == 0 && ch == '/') {
				ch = '#'
			}
			b = append(b, ch)
		}
		return string(b)
	}
	return nopool[r.intn(len(nopool))]
}

func (rig *vc14PsRig) genFile(r *vRand) vC14PsCase {
	c := vC14PsCase{Kind: "file"}
	np := r.rng(1, 6)
	perm := []int{}
	for i := range rig.peers {
		perm = append(perm, i)
	}
	for i := len(perm) - 1; i > 0; i-- {
		j := r.intn(i + 1)
		perm[i], perm[j] = perm[j], perm[i]
	}
	style := r.intn(100) // < 40: clean grouped file, < 75: with noise lines, else: heavy garbage
	var lines []string
	for k := 0; k < np; k++ {
		p := rig.peers[perm[k]]
		na := r.rng(1, 3)
		for a := 0; a < na; a++ {
			t := vc14Transports[r.intn(len(vc14Transports))]
			if r.chance(8) {
				t = fmt.Sprintf("/ip4/1.2.3.4/tcp/1/p2p/%s/p2p-circuit", peer.Encode(rig.anyPeer(r)))
			}
			lines = append(lines, t+"/p2p/"+peer.Encode(p))
		}
	}
	if style >= 40 {
		// boundary lines
		extra := r.rng(1, 5)
		if style >= 75 {
			extra = r.rng(3, 10)
		}
		for e := 0; e < extra; e++ {
			var l string
			switch x := r.intn(100); {
			case x < 12:
				l = ""
			case x < 30:
				l = rig.garbageLine(r, false)
			case x < 55:
				l = rig.garbageLine(r, true)
			case x < 65:
				l = "/p2p/" + peer.Encode(rig.anyPeer(r)) // no transport
			case x < 75:
				l = vc14Transports[r.intn(len(vc14Transports))] // no /p2p part
			case x < 83:
				l = vc14Transports[r.intn(len(vc14Transports))] + "/p2p/" + peer.Encode(rig.self[0]) // ourselves
			case x < 90 && len(lines) > 0:
				l = lines[r.intn(len(lines))] // duplicate
			case x < 95:
				l = vc14Transports[r.intn(len(vc14Transports))] + "/ipfs/" + peer.Encode(rig.anyPeer(r)) // old protocol name
			default:
				l = fmt.Sprintf("/ip4/1.2.3.4/tcp/1/p2p/%s/p2p-circuit", peer.Encode(rig.anyPeer(r))) // /p2p not last
			}
			pos := r.intn(len(lines) + 1)
			lines = append(lines[:pos], append([]string{l}, lines[pos:]...)...)
		}
	}
	if r.chance(30) { // a peer's addresses not contiguous: priority is the position of its last line
		for i := len(lines) - 1; i > 0; i-- {
			j := r.intn(i + 1)
			lines[i], lines[j] = lines[j], lines[i]
		}
	}
	c.Lines = lines
	c.NoNL = r.chance(15)
	// query: all peers (shuffled), sometimes with ourselves and a duplicate-free subset
	for _, i := range perm {
		if r.chance(85) {
			c.Query = append(c.Query, peer.Encode(rig.peers[i]))
		}
	}
	if r.chance(30) {
		c.Query = append(c.Query, peer.Encode(rig.self[0]))
	}
	for i := len(c.Query) - 1; i > 0; i-- {
		j := r.intn(i + 1)
		c.Query[i], c.Query[j] = c.Query[j], c.Query[i]
	}
	return c
}

func (rig *vc14PsRig) genSave(r *vRand) vC14PsCase {
	c := vC14PsCase{Kind: "save"}
	if r.chance(40) {
		// the file of an earlier shutdown, with more (and other) peers than are saved now
		for k, m := 0, r.rng(1, 12); k < m; k++ {
			c.Prev = append(c.Prev, fmt.Sprintf("/ip4/10.9.%d.%d/tcp/%d/p2p/%s", r.intn(250), r.intn(250), 9000+r.intn(900), peer.Encode(rig.peers[r.intn(len(rig.peers))])))
		}
		if r.chance(30) {
			c.Prev = append(c.Prev, "# a comment line that is longer than anything the save writes ........................................................................")
		}
	}
	np := r.rng(1, 7)
	perm := []int{}
	for i := range rig.peers {
		perm = append(perm, i)
	}
	for i := len(perm) - 1; i > 0; i-- {
		j := r.intn(i + 1)
		perm[i], perm[j] = perm[j], perm[i]
	}
	prios := []int{}
	for i := 0; i < 12; i++ {
		prios = append(prios, i)
	}
	for i := len(prios) - 1; i > 0; i-- {
		j := r.intn(i + 1)
		prios[i], prios[j] = prios[j], prios[i]
	}
	tie := r.chance(25)
	for k := 0; k < np; k++ {
		pp := vC14PsPeer{ID: peer.Encode(rig.peers[perm[k]]), Prio: prios[k]}
		if tie {
			switch r.intn(3) {
			case 0:
				pp.Prio = -1
			case 1:
				pp.Prio = r.intn(2)
			}
		}
		if r.chance(5) {
			pp.Prio = 9999 // as left behind by a failed Bootstrap
		}
		kind := r.intn(100) // < 45 ip only, < 70 dns only, < 92 mixed, else none
		na := r.rng(1, 3)
		for a := 0; a < na && kind < 92; a++ {
			var t string
			switch {
			case kind < 45:
				t = vc14Transports[r.intn(8)]
			case kind < 70:
				t = vc14Transports[8+r.intn(5)]
			default:
				t = vc14Transports[r.intn(len(vc14Transports))]
			}
			pp.Addrs = append(pp.Addrs, t)
		}
		c.Peers = append(c.Peers, pp)
	}
	for k := 0; k < np; k++ {
		if r.chance(90) {
			c.Query = append(c.Query, c.Peers[k].ID)
		}
	}
	if r.chance(25) {
		c.Query = append(c.Query, peer.Encode(rig.self[0]))
	}
	if r.chance(15) {
		c.Query = append(c.Query, peer.Encode(rig.peers[perm[len(perm)-1]])) // unknown to host 1
	}
	for i := len(c.Query) - 1; i > 0; i-- {
		j := r.intn(i + 1)
		c.Query[i], c.Query[j] = c.Query[j], c.Query[i]
	}
	if r.chance(70) { // Peerstore().Peers() has no particular order
		c.Perm2 = r.rng(1, 1000000)
	}
	return c
}

func TestVerifC14Pstore(t *testing.T) {
	seed := uint64(vEnvInt("VERIF_SEED", 1))
	n := vEnvInt("VERIF_N", 200)
	out := newVOut("C14", "From V Require Import Base.Common Model.C14_Backup Model.C14_Peerstore Model.C14_Check.\nOpen Scope N_scope.",
		"case", "Definition R := Eval vm_compute in failing cases.\nPrint R.")
	out.idBase += vc14IDBase
	defer out.close()
	rig := newVC14PsRig()
	defer rig.close()
	var cases []vC14PsCase
	if raw := vCasesIn(); raw != nil {
		for _, b := range raw {
			var c vC14PsCase
			if err := json.Unmarshal(b, &c); err != nil {
				t.Fatal(err)
			}
			cases = append(cases, c)
		}
	} else {
		r := newVRand(seed)
		for i := 0; i < n; i++ {
			if i%5 < 3 {
				cases = append(cases, rig.genFile(r))
			} else {
				cases = append(cases, rig.genSave(r))
			}
		}
	}
	for _, c := range cases {
		if c.Kind == "save" {
			rig.runSave(out, c)
		} else {
			c.Kind = "file"
			rig.runFile(out, c)
		}
	}
}
