//go:build verif

package observations

import (
	"reflect"
	"testing"
)

func TestVerifC15Metrics(t *testing.T) {
	vc15Main(t, &vc15Section{
		Name: "metrics", Index: 11, EnvPrefix: "CLUSTER_METRICS",
		New:      func() vc15Config { return &MetricsConfig{} },
		JSONType: reflect.TypeOf(jsonMetricsConfig{}),
		Hints:    map[string]string{"prometheus_endpoint": "addr", "reporting_interval": "dur"},
	})
}

func TestVerifC15Tracing(t *testing.T) {
	vc15Main(t, &vc15Section{
		Name: "tracing", Index: 12, EnvPrefix: "CLUSTER_TRACING",
		New:      func() vc15Config { return &TracingConfig{} },
		JSONType: reflect.TypeOf(jsonTracingConfig{}),
		Hints:    map[string]string{"jaeger_agent_endpoint": "addr", "service_name": "str"},
	})
}
