//go:build verif

package badger

import (
	"reflect"
	"testing"
)

func TestVerifC15Badger(t *testing.T) {
	vc15Main(t, &vc15Section{
		Name: "badger", Index: 13, EnvPrefix: "CLUSTER_BADGER",
		New:      func() vc15Config { return &Config{} },
		JSONType: reflect.TypeOf(jsonConfig{}),
		Hints: map[string]string{"folder": "str", "gc_interval": "dur", "gc_sleep": "dur", "badger_options.dir": "str",
			"badger_options.value_dir": "str"},
		Direct: func(c vc15Config) map[string]string {
			cfg := c.(*Config)
			return map[string]string{"folder": vc15VS(cfg.Folder)}
		},
		Extra: map[string][]interface{}{"folder": {"badger", "badger2"}},
	})
}
