//go:build verif

package ipfscluster

// C06, cluster-wide view: the real (*Cluster).globalPinInfoCid / globalPinInfoSlice on a &Cluster{} whose RPC client
// reaches per-peer scripted PinTracker services over in-process libp2p hosts (reply / error / authorization error /
// unreachable peer). Injected by overlay.

import (
	"context"
	"encoding/json"
	"errors"
	"fmt"
	"sort"
	"sync"
	"testing"
	"time"

	"github.com/ipfs/ipfs-cluster/api"
	"github.com/ipfs/ipfs-cluster/datastore/inmem"
	"github.com/ipfs/ipfs-cluster/state"
	"github.com/ipfs/ipfs-cluster/state/dsstate"
	"github.com/ipfs/ipfs-cluster/test"
	"github.com/ipfs/ipfs-cluster/version"

	cid "github.com/ipfs/go-cid"
	logging "github.com/ipfs/go-log/v2"
	libp2p "github.com/libp2p/go-libp2p"
	host "github.com/libp2p/go-libp2p-core/host"
	peer "github.com/libp2p/go-libp2p-core/peer"
	peerstore "github.com/libp2p/go-libp2p-core/peerstore"
	rpc "github.com/libp2p/go-libp2p-gorpc"
)

const vC06NHosts = 5 // peers 0..4 have a host; peers 5, 6 are members without a reachable host
const vC06NPeers = 7

var vC06Cids = []cid.Cid{test.Cid1, test.Cid2, test.Cid3}

type vC06Peer struct {
	Mode   int      `json:"mode"`   // 0 reply, 1 error, 2 authorization error
	Status int      `json:"status"` // status bits of the Status reply
	Liar   int      `json:"liar"`   // -1, or the peer index written in the Peer field
	List   [][2]int `json:"list"`   // StatusAll reply: (cid, status)
}

type vC06Pin struct {
	Alloc []int `json:"alloc"`
	Every bool  `json:"every"`
}

type vC06Case struct {
	Kind     string     `json:"kind"` // cid | slice
	Follower bool       `json:"follower"`
	Members  []int      `json:"members"`
	Pin      *vC06Pin   `json:"pin"`
	Peers    []vC06Peer `json:"peers"`
}

func (c *vC06Case) norm() {
	clampP := func(xs []int) []int {
		out := []int{}
		for _, x := range xs {
			if x < 0 {
				x = -x
			}
			out = append(out, x%vC06NPeers)
		}
		return out
	}
	c.Members = clampP(c.Members)
	seen := map[int]bool{}
	ms := []int{}
	for _, m := range c.Members { // consensus.Peers() lists a peer once
		if !seen[m] {
			seen[m] = true
			ms = append(ms, m)
		}
	}
	c.Members = ms
	if c.Pin != nil {
		c.Pin.Alloc = clampP(c.Pin.Alloc)
	}
	for len(c.Peers) < vC06NPeers {
		c.Peers = append(c.Peers, vC06Peer{Liar: -1, Status: 16})
	}
	c.Peers = c.Peers[:vC06NPeers]
	for i := range c.Peers {
		p := &c.Peers[i]
		if p.Mode < 0 || p.Mode > 2 {
			p.Mode = 0
		}
		if i == 0 && p.Mode == 2 {
			p.Mode = 0 // local calls are not subject to authorization
		}
		if p.Liar >= vC06NPeers || p.Liar < -1 {
			p.Liar = -1
		}
		if p.Status <= 0 {
			p.Status = 16
		}
		l := [][2]int{}
		for _, e := range p.List {
			if e[0] < 0 {
				e[0] = 0
			}
			e[0] %= len(vC06Cids)
			if e[1] <= 0 {
				e[1] = 16
			}
			l = append(l, e)
		}
		p.List = l
	}
	if c.Kind != "slice" {
		c.Kind = "cid"
	}
}

// ---- rig -------------------------------------------------------------------------------------------------

type vC06Rig struct {
	mu    sync.Mutex
	cur   *vC06Case
	hosts []host.Host
	ids   []peer.ID
	srvs  []*rpc.Server
}

var vC06TheRig *vC06Rig

type vC06PT struct {
	idx int
	rig *vC06Rig
}

func (s *vC06PT) script() vC06Peer {
	s.rig.mu.Lock()
	defer s.rig.mu.Unlock()
	return s.rig.cur.Peers[s.idx]
}

func (s *vC06PT) info(sc vC06Peer, c cid.Cid, st int) *api.PinInfo {
	p := s.idx
	if sc.Liar >= 0 {
		p = sc.Liar
	}
	return &api.PinInfo{Cid: c, Peer: s.rig.ids[p], PinInfoShort: api.PinInfoShort{PeerName: fmt.Sprintf("p%d", s.idx), Status: api.TrackerStatus(st), TS: time.Now()}}
}

func (s *vC06PT) Status(ctx context.Context, in cid.Cid, out *api.PinInfo) error {
	sc := s.script()
	if sc.Mode == 1 {
		return errors.New("verif: tracker failure")
	}
	*out = *s.info(sc, in, sc.Status)
	return nil
}

func (s *vC06PT) StatusAll(ctx context.Context, in api.TrackerStatus, out *[]*api.PinInfo) error {
	sc := s.script()
	if sc.Mode == 1 {
		return errors.New("verif: tracker failure")
	}
	l := []*api.PinInfo{}
	for _, e := range sc.List {
		l = append(l, s.info(sc, vC06Cids[e[0]], e[1]))
	}
	*out = l
	return nil
}

func vC06GetRig(t *testing.T) *vC06Rig {
	if vC06TheRig != nil {
		return vC06TheRig
	}
	r := &vC06Rig{}
	vPeerUniverse(vC06NPeers)
	for i := 0; i < vC06NHosts; i++ {
		h, err := libp2p.New(context.Background(), libp2p.ListenAddrStrings("/ip4/127.0.0.1/tcp/0"))
		if err != nil {
			t.Fatal(err)
		}
		r.hosts = append(r.hosts, h)
		r.ids = append(r.ids, h.ID())
	}
	for i := vC06NHosts; i < vC06NPeers; i++ {
		r.ids = append(r.ids, vPeers[i]) // no host, no address
	}
	for i, h := range r.hosts {
		i := i
		srv := rpc.NewServer(h, version.RPCProtocol, rpc.WithAuthorizeFunc(func(pid peer.ID, name, method string) bool {
			r.mu.Lock()
			defer r.mu.Unlock()
			return r.cur.Peers[i].Mode != 2
		}))
		if err := srv.RegisterName("PinTracker", &vC06PT{idx: i, rig: r}); err != nil {
			t.Fatal(err)
		}
		r.srvs = append(r.srvs, srv)
		if i > 0 {
			r.hosts[0].Peerstore().AddAddrs(h.ID(), h.Addrs(), peerstore.PermanentAddrTTL)
		}
	}
	vC06TheRig = r
	return r
}

func (r *vC06Rig) idx(p string) int {
	for i, id := range r.ids {
		if peer.Encode(id) == p {
			return i
		}
	}
	return -1
}

type vC06Cons struct {
	st    *dsstate.State
	peers []peer.ID
}

func (c *vC06Cons) SetClient(*rpc.Client)                          {}
func (c *vC06Cons) Shutdown(context.Context) error                 { return nil }
func (c *vC06Cons) Ready(context.Context) <-chan struct{}          { ch := make(chan struct{}); close(ch); return ch }
func (c *vC06Cons) LogPin(context.Context, *api.Pin) error         { return nil }
func (c *vC06Cons) LogUnpin(context.Context, *api.Pin) error       { return nil }
func (c *vC06Cons) AddPeer(context.Context, peer.ID) error         { return nil }
func (c *vC06Cons) RmPeer(context.Context, peer.ID) error          { return nil }
func (c *vC06Cons) State(context.Context) (state.ReadOnly, error) { return c.st, nil }
func (c *vC06Cons) Leader(context.Context) (peer.ID, error)        { return "", errors.New("no leader") }
func (c *vC06Cons) WaitForSync(context.Context) error              { return nil }
func (c *vC06Cons) Clean(context.Context) error                    { return nil }
func (c *vC06Cons) Peers(context.Context) ([]peer.ID, error)       { return c.peers, nil }
func (c *vC06Cons) IsTrustedPeer(context.Context, peer.ID) bool    { return true }
func (c *vC06Cons) Trust(context.Context, peer.ID) error           { return nil }
func (c *vC06Cons) Distrust(context.Context, peer.ID) error        { return nil }

func vC06Gen(r *vRand) vC06Case {
	c := vC06Case{Kind: "cid", Follower: r.chance(12)}
	if r.chance(35) {
		c.Kind = "slice"
	}
	sub := func(pct int, n int) []int {
		out := []int{}
		for p := 0; p < n; p++ {
			if r.chance(pct) {
				out = append(out, p)
			}
		}
		for i := len(out) - 1; i > 0; i-- {
			j := r.intn(i + 1)
			out[i], out[j] = out[j], out[i]
		}
		return out
	}
	c.Members = sub(r.rng(40, 90), vC06NPeers)
	if r.chance(90) {
		c.Members = append([]int{0}, c.Members...)
	}
	if r.chance(85) {
		p := &vC06Pin{Alloc: sub(r.rng(20, 70), vC06NPeers), Every: r.chance(15)}
		if r.chance(6) && len(p.Alloc) > 0 {
			p.Alloc = append(p.Alloc, p.Alloc[0]) // malformed: a peer allocated twice
		}
		c.Pin = p
	}
	stats := []int{2, 4, 8, 16, 32, 64, 128, 256, 512, 1024, 2048, 4096}
	for i := 0; i < vC06NPeers; i++ {
		p := vC06Peer{Liar: -1, Status: stats[r.intn(len(stats))]}
		switch x := r.intn(100); {
		case x < 65:
		case x < 83:
			p.Mode = 1
		default:
			p.Mode = 2
		}
		if r.chance(4) {
			p.Liar = r.intn(vC06NPeers) // malformed: reply carrying another peer's identity
		}
		for k := r.intn(4); k > 0; k-- {
			p.List = append(p.List, [2]int{r.intn(len(vC06Cids)), stats[r.intn(len(stats))]})
		}
		c.Peers = append(c.Peers, p)
	}
	c.norm()
	return c
}

func vC06Reply(c *vC06Case, d int) string {
	if d >= vC06NHosts {
		return "RErr"
	}
	p := c.Peers[d]
	switch p.Mode {
	case 1:
		return "RErr"
	case 2:
		return "RAuth"
	}
	who := d
	if p.Liar >= 0 {
		who = p.Liar
	}
	return fmt.Sprintf("RInfo %d %d", who, p.Status)
}

func vC06SReply(c *vC06Case, d int) string {
	if d >= vC06NHosts {
		return "SErr"
	}
	p := c.Peers[d]
	switch p.Mode {
	case 1:
		return "SErr"
	case 2:
		return "SAuth"
	}
	who := d
	if p.Liar >= 0 {
		who = p.Liar
	}
	xs := []string{}
	for _, e := range p.List {
		xs = append(xs, fmt.Sprintf("(%d,%d,%d)", e[0], who, e[1]))
	}
	return "SList " + cqList(xs)
}

func TestVerifC06Global(t *testing.T) {
	logging.SetAllLoggers(logging.LevelFatal)
	rig := vC06GetRig(t)
	seed := uint64(vEnvInt("VERIF_SEED", 1))
	n := vEnvInt("VERIF_N", 100)
	out := newVOut("C06G", "From V Require Import Base.Common Model.C06_Global Model.C06_GlobalCheck.\nOpen Scope N_scope.",
		"case", "Definition R := Eval vm_compute in failing cases.\nPrint R.")
	defer out.close()
	out.idBase += 500000 // C06 has two harness entries: keep their case ids apart
	var cases []vC06Case
	if raw := vCasesIn(); raw != nil {
		for _, b := range raw {
			var c vC06Case
			if err := json.Unmarshal(b, &c); err != nil {
				t.Fatal(err)
			}
			c.norm()
			cases = append(cases, c)
		}
	} else {
		z := seed // mixed: the shared vRand gives shifted copies of one stream for consecutive seeds
		z = (z ^ (z >> 30)) * 0xBF58476D1CE4E5B9
		z = (z ^ (z >> 27)) * 0x94D049BB133111EB
		r := newVRand(z ^ (z >> 31) ^ 0x5851F42D4C957F2D)
		for i := 0; i < n; i++ {
			cases = append(cases, vC06Gen(r))
		}
	}
	ctx, cancel := context.WithTimeout(context.Background(), 30*time.Minute)
	defer cancel()
	for ci := range cases {
		c := &cases[ci]
		rig.mu.Lock()
		rig.cur = c
		rig.mu.Unlock()
		st, err := dsstate.New(inmem.New(), "", dsstate.DefaultHandle())
		if err != nil {
			t.Fatal(err)
		}
		if c.Pin != nil {
			opts := api.PinOptions{ReplicationFactorMin: 1, ReplicationFactorMax: 1, Name: "n"}
			if c.Pin.Every {
				opts.ReplicationFactorMin, opts.ReplicationFactorMax = -1, -1
			}
			pin := api.PinWithOpts(vC06Cids[0], opts)
			for _, a := range c.Pin.Alloc {
				pin.Allocations = append(pin.Allocations, rig.ids[a])
			}
			if err := st.Add(ctx, pin); err != nil {
				t.Fatal(err)
			}
		}
		cons := &vC06Cons{st: st}
		for _, m := range c.Members {
			cons.peers = append(cons.peers, rig.ids[m])
		}
		cl := &Cluster{ctx: ctx, id: rig.ids[0], host: rig.hosts[0], config: &Config{FollowerMode: c.Follower}, consensus: cons,
			rpcClient: rpc.NewClientWithServer(rig.hosts[0], version.RPCProtocol, rig.srvs[0])}
		members := cqListN(c.Members)
		var term string
		var obs interface{}
		func() {
			defer func() {
				if p := recover(); p != nil {
					b, _ := json.Marshal(map[string]interface{}{"signature": "global-view-panic", "detail": fmt.Sprint(p), "case": map[string]interface{}{"input": c}})
					fmt.Printf("VERIF-DIRECT-VIOLATION %s\n", b)
				}
			}()
			if c.Kind == "cid" {
				gpi, err := cl.globalPinInfoCid(ctx, "PinTracker", "Status", vC06Cids[0])
				if err != nil {
					t.Fatal(err)
				}
				pairs := [][2]int{}
				for p, info := range gpi.PeerMap {
					pairs = append(pairs, [2]int{rig.idx(p), int(info.Status)})
				}
				sort.Slice(pairs, func(i, j int) bool { return pairs[i][0] < pairs[j][0] })
				var dests []int
				pinS := "None"
				switch {
				case c.Pin == nil:
				case c.Follower:
					dests = []int{0}
				case c.Pin.Every:
					dests = c.Members
				default:
					dests = c.Pin.Alloc
				}
				if c.Pin != nil {
					pinS = fmt.Sprintf("(Some (mk_gpin %s %s))", cqListN(c.Pin.Alloc), cqBool(c.Pin.Every))
				}
				rs := []string{}
				for _, d := range dests {
					rs = append(rs, vC06Reply(c, d))
				}
				ps := []string{}
				for _, p := range pairs {
					ps = append(ps, fmt.Sprintf("(%d,%d)", p[0], p[1]))
				}
				term = fmt.Sprintf("GCid 0 %s %s %s %s %s", cqBool(c.Follower), members, pinS, cqList(rs), cqList(ps))
				obs = pairs
				out.count("cid")
			} else {
				gpis, err := cl.globalPinInfoSlice(ctx, "PinTracker", "StatusAll", api.TrackerStatusUndefined)
				if err != nil {
					t.Fatal(err)
				}
				type ent struct {
					C     int      `json:"c"`
					Peers [][2]int `json:"peers"`
				}
				ents := []ent{}
				for _, g := range gpis {
					e := ent{C: -1, Peers: [][2]int{}}
					for i, x := range vC06Cids {
						if x.Equals(g.Cid) {
							e.C = i
						}
					}
					for p, info := range g.PeerMap {
						e.Peers = append(e.Peers, [2]int{rig.idx(p), int(info.Status)})
					}
					sort.Slice(e.Peers, func(i, j int) bool { return e.Peers[i][0] < e.Peers[j][0] })
					ents = append(ents, e)
				}
				sort.Slice(ents, func(i, j int) bool { return ents[i].C < ents[j].C })
				ms := c.Members
				if c.Follower {
					ms = []int{0}
				}
				rs := []string{}
				for _, d := range ms {
					rs = append(rs, vC06SReply(c, d))
				}
				es := []string{}
				for _, e := range ents {
					ps := []string{}
					for _, p := range e.Peers {
						ps = append(ps, fmt.Sprintf("(%d,%d)", p[0], p[1]))
					}
					es = append(es, fmt.Sprintf("(%d,%s)", e.C, cqList(ps)))
				}
				term = fmt.Sprintf("GSlice 0 %s %s %s %s", cqBool(c.Follower), members, cqList(rs), cqList(es))
				obs = ents
				out.count("slice")
			}
		}()
		if term == "" {
			continue
		}
		nontrivial := len(c.Members) >= 2 && !c.Follower
		out.add("("+term+")", c, obs, nontrivial)
	}
}
