//go:build verif

package ipfscluster

// C18, "shutting a component down while it is in use": the REAL (*Cluster).Shutdown, watchPeers, ready and PeerRemove
// on a struct-literal Cluster (as the C17 cluster rig builds it), driven through generated interleavings.
//
// The schedule is made deterministic by blocking fakes, not by sleeping: the consensus fake answers Peers() from a
// scripted peerset (what the watcher sees can be frozen), and every component call Shutdown makes while it holds
// shutdownLock (consensus.RmPeer(self) of LeaveOnShutdown, consensus.Shutdown, monitor.Shutdown) is a *gate* at which
// the script can park the caller. A script is a list of steps (start a Shutdown that parks at gate g, remove the peer
// from the peerset, let the watcher look, wait until the watcher / the ready goroutine is blocked on the lock or has
// returned, start a second Shutdown, PeerRemove(self), release). At the end everything is released and every started
// call must return and Done() must be closed. If that has not happened when the watchdog expires, the goroutine dump
// decides: a goroutine of the code under test that sits in sync.(*WaitGroup).Wait / sync.(*Mutex).Lock with nothing
// left that could wake it is a deadlock (a verdict from the dump, not from the clock), reported with the script as
//   VERIF-DIRECT-VIOLATION {"signature":"deadlock:cluster.go:Shutdown~watchPeers", ...}.

import (
	"context"
	"encoding/json"
	"errors"
	"fmt"
	"regexp"
	"runtime"
	"strings"
	"sync"
	"time"

	"github.com/ipfs/ipfs-cluster/api"
	"github.com/ipfs/ipfs-cluster/pstoremgr"
	"github.com/ipfs/ipfs-cluster/state"
	"github.com/ipfs/ipfs-cluster/test"

	logging "github.com/ipfs/go-log/v2"
	host "github.com/libp2p/go-libp2p-core/host"
	peer "github.com/libp2p/go-libp2p-core/peer"
	peerstore "github.com/libp2p/go-libp2p-core/peerstore"
	rpc "github.com/libp2p/go-libp2p-gorpc"
	"github.com/libp2p/go-libp2p-peerstore/pstoremem"
)

func init() {
	vC18Plan = append(vC18Plan, vC18Scen{Name: "shutdown", Ms: 60, Workers: 1})
	vC18Scenarios["shutdown"] = vC18Shutdown
}

const vc18SdTick = 2 * time.Millisecond

// ---------------------------------------------------------------- case
type vC18SdStep struct {
	Op   string `json:"op"`             // shutdown | peerremove | remove | freeze | thaw | look | settle | release | consready
	Gate string `json:"gate,omitempty"` // shutdown / peerremove: where the call parks (rmpeer | consdown | mondown | "")
}

type vC18SdCase struct {
	Kind      string       `json:"kind"`       // "watch": the watchPeers goroutine runs; "ready": the ready() goroutine of NewCluster runs
	Leave     bool         `json:"leave"`      // Config.LeaveOnShutdown
	Ready     bool         `json:"ready"`      // watch: readyB when the script starts
	Member    bool         `json:"member"`     // the peer is in the peerset when the script starts
	ReadyMode string       `json:"ready_mode"` // ready: "timeout" (consensus never ready) | "peers-error" | "ok"
	Steps     []vC18SdStep `json:"steps"`
}

// ---------------------------------------------------------------- fakes
type vC18SdGates struct {
	mu     sync.Mutex
	armed  map[string]bool
	parked map[string]int
	rel    chan struct{}
}

func newVC18SdGates() *vC18SdGates {
	return &vC18SdGates{armed: map[string]bool{}, parked: map[string]int{}, rel: make(chan struct{})}
}

// pass is called by a fake at the point `name`; the first caller after arm(name) parks until release
func (g *vC18SdGates) pass(name string) {
	g.mu.Lock()
	if !g.armed[name] {
		g.mu.Unlock()
		return
	}
	g.armed[name] = false
	g.parked[name]++
	rel := g.rel
	g.mu.Unlock()
	<-rel
	g.mu.Lock()
	g.parked[name]--
	g.mu.Unlock()
}

func (g *vC18SdGates) arm(name string) {
	g.mu.Lock()
	g.armed[name] = true
	g.mu.Unlock()
}

func (g *vC18SdGates) anyParked() bool {
	g.mu.Lock()
	defer g.mu.Unlock()
	for _, n := range g.parked {
		if n > 0 {
			return true
		}
	}
	return false
}

func (g *vC18SdGates) isParked(name string) bool {
	g.mu.Lock()
	defer g.mu.Unlock()
	return g.parked[name] > 0
}

func (g *vC18SdGates) release() {
	g.mu.Lock()
	for k := range g.armed {
		g.armed[k] = false
	}
	close(g.rel)
	g.rel = make(chan struct{})
	g.mu.Unlock()
}

// the consensus component: a peerset with or without this peer, scripted
type vC18SdCons struct {
	Consensus // the methods the scripts never reach stay nil
	g         *vC18SdGates
	self      peer.ID
	mu        sync.Mutex
	member    bool
	frozen    bool
	stale     bool // what a frozen watcher sees
	down      bool
	peersErr  bool
	looks     int
	readyCh   chan struct{}
	cleans    int
}

var errVC18SdDown = errors.New("vc18: consensus is shutdown")

func (c *vC18SdCons) SetClient(*rpc.Client)                 {}
func (c *vC18SdCons) Ready(context.Context) <-chan struct{} { return c.readyCh }
func (c *vC18SdCons) State(context.Context) (state.ReadOnly, error) {
	return nil, errors.New("vc18: no state")
}
func (c *vC18SdCons) Peers(context.Context) ([]peer.ID, error) {
	c.mu.Lock()
	defer c.mu.Unlock()
	c.looks++
	if c.down {
		return nil, errVC18SdDown
	}
	if c.peersErr {
		return nil, errors.New("vc18: scripted Peers error")
	}
	in := c.member
	if c.frozen {
		in = c.stale
	}
	if in {
		return []peer.ID{test.PeerID2, c.self}, nil
	}
	return []peer.ID{test.PeerID2}, nil
}
func (c *vC18SdCons) RmPeer(_ context.Context, p peer.ID) error {
	c.mu.Lock()
	if c.down {
		c.mu.Unlock()
		return errVC18SdDown
	}
	if p == c.self {
		c.member = false
	}
	c.mu.Unlock()
	c.g.pass("rmpeer") // the entry is committed, the call has not returned yet
	return nil
}
func (c *vC18SdCons) Shutdown(context.Context) error {
	c.g.pass("consdown") // the component is still answering
	c.mu.Lock()
	c.down = true
	c.mu.Unlock()
	return nil
}
func (c *vC18SdCons) Clean(context.Context) error {
	c.mu.Lock()
	c.cleans++
	c.mu.Unlock()
	return nil
}

type vC18SdMonitor struct {
	vC18Monitor
	g *vC18SdGates
}

func (m *vC18SdMonitor) Shutdown(context.Context) error {
	m.g.pass("mondown") // the consensus component is down by now: Peers() errors
	return nil
}

type vC18SdIPFS struct{ IPFSConnector }

func (*vC18SdIPFS) SetClient(*rpc.Client)          {}
func (*vC18SdIPFS) Shutdown(context.Context) error { return nil }

type vC18SdTracker struct{ PinTracker }

func (*vC18SdTracker) SetClient(*rpc.Client)                              {}
func (*vC18SdTracker) Shutdown(context.Context) error                     { return nil }
func (*vC18SdTracker) RecoverAll(context.Context) ([]*api.PinInfo, error) { return nil, nil }

type vC18SdComp struct{}

func (*vC18SdComp) SetClient(*rpc.Client)          {}
func (*vC18SdComp) Shutdown(context.Context) error { return nil }

type vC18SdInformer struct{ vC18SdComp }

func (*vC18SdInformer) Name() string                          { return "vc18" }
func (*vC18SdInformer) GetMetric(context.Context) *api.Metric { return &api.Metric{Name: "vc18"} }

type vC18SdHost struct {
	host.Host
	id peer.ID
	ps peerstore.Peerstore
}

func (h *vC18SdHost) ID() peer.ID                    { return h.id }
func (h *vC18SdHost) Peerstore() peerstore.Peerstore { return h.ps }

// ---------------------------------------------------------------- one script
type vC18SdRun struct {
	c        *Cluster
	cons     *vC18SdCons
	g        *vC18SdGates
	bgDone   chan struct{} // the covered goroutine (watchPeers / ready) has returned
	calls    []chan string // one per started Shutdown / PeerRemove: "" or the panic text
	names    []string
	shutdown int
}

func vc18SdBuild(cs *vC18SdCase) *vC18SdRun {
	ctx, cancel := context.WithCancel(context.Background())
	g := newVC18SdGates()
	self := test.PeerID1
	cons := &vC18SdCons{g: g, self: self, member: cs.Member, stale: cs.Member, readyCh: make(chan struct{})}
	h := &vC18SdHost{id: self, ps: pstoremem.NewPeerstore()}
	c := &Cluster{
		ctx:    ctx,
		cancel: cancel,
		id:     self,
		config: &Config{LeaveOnShutdown: cs.Leave, PeerWatchInterval: vc18SdTick, DisableRepinning: true,
			MonitorPingInterval: time.Hour},
		host:        h,
		peerManager: pstoremgr.New(ctx, h, ""),
		consensus:   cons,
		ipfs:        &vC18SdIPFS{},
		tracker:     &vC18SdTracker{},
		monitor:     &vC18SdMonitor{vC18Monitor: vC18Monitor{alerts: make(chan *api.Alert)}, g: g},
		informers:   []Informer{&vC18SdInformer{}},
		tracer:      &vC18SdComp{},
		doneCh:      make(chan struct{}),
		readyCh:     make(chan struct{}),
		readyB:      cs.Kind == "watch" && cs.Ready,
	}
	r := &vC18SdRun{c: c, cons: cons, g: g, bgDone: make(chan struct{})}
	// ready() gives up after 40 ms, unless the script itself makes the consensus component ready at some point
	readyTimeout := 40 * time.Millisecond
	for _, st := range cs.Steps {
		if st.Op == "consready" {
			readyTimeout = 5 * time.Second
		}
	}
	switch cs.Kind {
	case "ready":
		switch cs.ReadyMode {
		case "peers-error":
			cons.peersErr = true
			close(cons.readyCh)
		case "ok":
			close(cons.readyCh)
		}
		// as NewCluster does (run() left out: the goroutines it starts are the "watch" kind's subject)
		c.wg.Add(1)
		go func() {
			defer c.wg.Done()
			defer close(r.bgDone)
			c.ready(readyTimeout)
		}()
	default:
		// as run() does
		c.wg.Add(1)
		go func() {
			defer c.wg.Done()
			defer close(r.bgDone)
			c.watchPeers()
		}()
	}
	return r
}

func (r *vC18SdRun) call(name string, f func()) {
	ch := make(chan string, 1)
	r.calls = append(r.calls, ch)
	r.names = append(r.names, name)
	go func() {
		defer func() {
			if e := recover(); e != nil {
				buf := make([]byte, 4096)
				ch <- fmt.Sprintf("%s: %v\n%s", name, e, buf[:runtime.Stack(buf, false)])
				return
			}
			ch <- ""
		}()
		f()
	}()
}

var vc18SdGoroutine = regexp.MustCompile(`(?m)^goroutine (\d+) \[([^\]]*)\]:$`)

// goroutines of the dump whose stack mentions every one of `frames`
func vc18SdFind(dump string, skip map[string]bool, frames ...string) []string {
	var out []string
	for _, blk := range strings.Split(dump, "\n\n") {
		m := vc18SdGoroutine.FindStringSubmatch(blk)
		if m == nil || skip[m[1]] {
			continue
		}
		ok := true
		for _, f := range frames {
			if !strings.Contains(blk, f) {
				ok = false
				break
			}
		}
		if ok {
			out = append(out, blk)
		}
	}
	return out
}

func vc18SdDump() string {
	buf := make([]byte, 4<<20)
	return string(buf[:runtime.Stack(buf, true)])
}

const (
	vc18SdFShutdown = ".(*Cluster).Shutdown("
	vc18SdFWatch    = ".(*Cluster).watchPeers("
	vc18SdFReady    = ".(*Cluster).ready("
	vc18SdFLock     = "sync.(*Mutex).Lock("
	vc18SdFWait     = "sync.(*WaitGroup).Wait("
)

// the covered goroutine has returned, or sits in Mutex.Lock (bounded: a scheduling aid, never a verdict)
func (r *vC18SdRun) settle(leaked map[string]bool) {
	dl := time.Now().Add(60 * time.Millisecond)
	for time.Now().Before(dl) {
		select {
		case <-r.bgDone:
			return
		default:
		}
		d := vc18SdDump()
		if len(vc18SdFind(d, leaked, vc18SdFWatch, vc18SdFLock))+len(vc18SdFind(d, leaked, vc18SdFReady, vc18SdFLock)) > 0 {
			return
		}
		time.Sleep(time.Millisecond)
	}
}

func (r *vC18SdRun) look() {
	r.cons.mu.Lock()
	n := r.cons.looks
	r.cons.mu.Unlock()
	dl := time.Now().Add(150 * time.Millisecond) // 75 ticks: a watcher that has not looked by then is blocked or gone
	for time.Now().Before(dl) {
		select {
		case <-r.bgDone:
			return
		default:
		}
		r.cons.mu.Lock()
		m := r.cons.looks
		r.cons.mu.Unlock()
		if m >= n+2 {
			return
		}
		time.Sleep(vc18SdTick / 2)
	}
}

// runs one script; returns "" or (signature, detail) of the violation
func vC18SdRunCase(cs *vC18SdCase, leaked map[string]bool, watchdog time.Duration) (sig, detail string) {
	r := vc18SdBuild(cs)
	for _, st := range cs.Steps {
		switch st.Op {
		case "shutdown", "peerremove":
			gate := st.Gate
			switch gate {
			case "rmpeer", "consdown", "mondown":
				r.g.arm(gate)
			default:
				gate = ""
			}
			if st.Op == "shutdown" {
				r.shutdown++
				r.call("Shutdown", func() { r.c.Shutdown(context.Background()) })
			} else {
				r.call("PeerRemove", func() { r.c.PeerRemove(context.Background(), r.c.id) })
			}
			ch := r.calls[len(r.calls)-1]
			// until the call is parked at its gate, or has returned, or is evidently waiting for a parked call's lock
			dl, t0 := time.Now().Add(2*time.Second), time.Now()
			for time.Now().Before(dl) {
				if gate != "" && r.g.isParked(gate) {
					break
				}
				if len(ch) > 0 {
					break
				}
				if time.Since(t0) > 30*time.Millisecond && (gate == "" || r.g.anyParked()) {
					break
				}
				time.Sleep(200 * time.Microsecond)
			}
		case "remove":
			r.cons.mu.Lock()
			r.cons.member = false
			r.cons.mu.Unlock()
		case "freeze":
			r.cons.mu.Lock()
			if !r.cons.frozen {
				r.cons.frozen, r.cons.stale = true, r.cons.member
			}
			r.cons.mu.Unlock()
		case "thaw":
			r.cons.mu.Lock()
			r.cons.frozen = false
			r.cons.mu.Unlock()
		case "consready":
			r.cons.mu.Lock()
			select {
			case <-r.cons.readyCh:
			default:
				close(r.cons.readyCh)
			}
			r.cons.mu.Unlock()
		case "look":
			r.look()
		case "settle":
			r.settle(leaked)
		case "release":
			r.g.release()
		}
	}
	// the end of every script: nothing is held back any more, the operator stops the peer if nobody has yet
	r.g.release()
	r.cons.mu.Lock()
	r.cons.frozen = false
	r.cons.mu.Unlock()
	if r.shutdown == 0 {
		// a watcher that saw the peer removed, or a ready() that gave up, stops the peer by itself: give it a moment
		// (a positive expectation only for a ready() that must give up: there the wait is long)
		wait := 20 * vc18SdTick
		if cs.Kind == "ready" && cs.ReadyMode != "ok" {
			wait = 500 * time.Millisecond
		}
		select {
		case <-r.c.Done():
		case <-time.After(wait):
			r.shutdown++
			r.call("Shutdown", func() { r.c.Shutdown(context.Background()) })
		}
	}
	// every started call must return and Done() must be closed. While that has not happened the goroutine dump is
	// consulted: the three shapes below can never move again (the goroutine inside Shutdown holds shutdownLock until it
	// returns, and it returns only after the WaitGroup's goroutines have; a covered goroutine inside Mutex.Lock, or
	// inside that very Wait, never will), so they are a verdict at once; anything else is given until the watchdog.
	t0 := time.Now()
	pending := map[int]bool{}
	for i := range r.calls {
		pending[i] = true
	}
	finished := func() bool {
		for i := range r.calls {
			if !pending[i] {
				continue
			}
			select {
			case p := <-r.calls[i]:
				delete(pending, i)
				if p != "" && sig == "" {
					sig, detail = "panic:cluster.go:"+r.names[i], p
				}
			default:
			}
		}
		if len(pending) > 0 {
			return false
		}
		select {
		case <-r.c.Done():
			return true
		default:
			return false
		}
	}
	shape := func(d string) (string, string) {
		sdWait := vc18SdFind(d, leaked, vc18SdFShutdown, vc18SdFWait)
		wLock := vc18SdFind(d, leaked, vc18SdFWatch, vc18SdFLock)
		rLock := vc18SdFind(d, leaked, vc18SdFReady, vc18SdFLock)
		rSelf := vc18SdFind(d, leaked, vc18SdFReady, vc18SdFShutdown, vc18SdFWait)
		switch {
		case len(rSelf) > 0:
			// ready() -> Shutdown() -> wg.Wait() in the goroutine the WaitGroup itself counts
			return "deadlock:cluster.go:ready~Shutdown~self", strings.Join(rSelf, "\n\n")
		case len(sdWait) > 0 && len(wLock) > 0:
			return "deadlock:cluster.go:Shutdown~watchPeers", strings.Join(append(sdWait, wLock...), "\n\n")
		case len(sdWait) > 0 && len(rLock) > 0:
			return "deadlock:cluster.go:Shutdown~ready", strings.Join(append(sdWait, rLock...), "\n\n")
		}
		return "", ""
	}
	markLeaked := func(d string) {
		for _, m := range vc18SdGoroutine.FindAllStringSubmatch(d, -1) {
			leaked[m[1]] = true // these stay around for the rest of the process
		}
	}
	for !finished() {
		el := time.Since(t0)
		if el > 50*time.Millisecond {
			d := vc18SdDump()
			if s2, d2 := shape(d); s2 != "" && !finished() {
				markLeaked(d)
				return s2, d2
			}
			if el > watchdog {
				markLeaked(d)
				var stuck []string
				for i := range pending {
					stuck = append(stuck, r.names[i])
				}
				return "deadlock:cluster.go:Shutdown~unknown", fmt.Sprintf("calls that have not returned after %v: %v\n%s", watchdog, stuck, d)
			}
			time.Sleep(20 * time.Millisecond)
			continue
		}
		time.Sleep(500 * time.Microsecond)
	}
	if sig == "" {
		// Done() is closed: Shutdown has collected the covered goroutine
		select {
		case <-r.bgDone:
		case <-time.After(2 * time.Second):
			sig, detail = "leak:cluster.go:covered-goroutine-survives-Shutdown", vc18SdDump()
		}
	}
	return sig, detail
}

// ---------------------------------------------------------------- generator
func vc18SdS(op string, gate ...string) vC18SdStep {
	s := vC18SdStep{Op: op}
	if len(gate) > 0 {
		s.Gate = gate[0]
	}
	return s
}

// the boundary stream: the watcher's look falls before / while / after Shutdown holds the lock, at each point where
// Shutdown can be while it holds it; the peer removed by somebody else, by LeaveOnShutdown, by PeerRemove(self), or not
// at all; one or two Shutdown calls; and the ready() goroutine giving up, failing, or finishing while Shutdown runs
func vC18SdBoundary() []vC18SdCase {
	var out, rdy []vC18SdCase
	for _, leave := range []bool{false, true} {
		for _, ready := range []bool{true, false} {
			for _, gate := range []string{"consdown", "mondown", "rmpeer", ""} {
				// removed by somebody else while Shutdown is parked at `gate`; the watcher looks during / after
				out = append(out, vC18SdCase{Kind: "watch", Leave: leave, Ready: ready, Member: true, Steps: []vC18SdStep{
					vc18SdS("shutdown", gate), vc18SdS("remove"), vc18SdS("look"), vc18SdS("settle"), vc18SdS("release")}})
				// removed before Shutdown starts, the watcher has not looked yet (frozen), looks while Shutdown is parked
				out = append(out, vC18SdCase{Kind: "watch", Leave: leave, Ready: ready, Member: true, Steps: []vC18SdStep{
					vc18SdS("freeze"), vc18SdS("remove"), vc18SdS("shutdown", gate), vc18SdS("thaw"), vc18SdS("look"), vc18SdS("settle"), vc18SdS("release")}})
				// two Shutdown calls, the first parked
				out = append(out, vC18SdCase{Kind: "watch", Leave: leave, Ready: ready, Member: true, Steps: []vC18SdStep{
					vc18SdS("shutdown", gate), vc18SdS("shutdown"), vc18SdS("look"), vc18SdS("release")}})
				// PeerRemove(self) while Shutdown is parked, and the other way round
				out = append(out, vC18SdCase{Kind: "watch", Leave: leave, Ready: ready, Member: true, Steps: []vC18SdStep{
					vc18SdS("shutdown", gate), vc18SdS("peerremove"), vc18SdS("look"), vc18SdS("settle"), vc18SdS("release")}})
			}
			// the watcher looks first and stops the peer itself; the operator's Shutdown comes on top
			out = append(out, vC18SdCase{Kind: "watch", Leave: leave, Ready: ready, Member: true, Steps: []vC18SdStep{
				vc18SdS("remove"), vc18SdS("look"), vc18SdS("shutdown"), vc18SdS("shutdown")}})
			out = append(out, vC18SdCase{Kind: "watch", Leave: leave, Ready: ready, Member: true, Steps: []vC18SdStep{
				vc18SdS("peerremove", "rmpeer"), vc18SdS("look"), vc18SdS("shutdown", "consdown"), vc18SdS("settle"), vc18SdS("release")}})
			// the watcher never sees anything: Shutdown of a member, of a peer that was never in the peerset
			out = append(out, vC18SdCase{Kind: "watch", Leave: leave, Ready: ready, Member: true, Steps: []vC18SdStep{vc18SdS("look"), vc18SdS("shutdown")}})
			out = append(out, vC18SdCase{Kind: "watch", Leave: leave, Ready: ready, Member: false, Steps: []vC18SdStep{vc18SdS("shutdown")}})
		}
		// ready(): consensus never becomes ready; Peers() fails; ready finishes while Shutdown holds the lock; plain
		rdy = append(rdy, vC18SdCase{Kind: "ready", Leave: leave, Member: true, ReadyMode: "timeout", Steps: []vC18SdStep{}})
		rdy = append(rdy, vC18SdCase{Kind: "ready", Leave: leave, Member: true, ReadyMode: "peers-error", Steps: []vC18SdStep{}})
		rdy = append(rdy, vC18SdCase{Kind: "ready", Leave: leave, Member: true, ReadyMode: "timeout", Steps: []vC18SdStep{
			vc18SdS("shutdown", "consdown"), vc18SdS("consready"), vc18SdS("settle"), vc18SdS("release")}})
		rdy = append(rdy, vC18SdCase{Kind: "ready", Leave: leave, Member: true, ReadyMode: "timeout", Steps: []vC18SdStep{
			vc18SdS("shutdown", "mondown"), vc18SdS("consready"), vc18SdS("settle"), vc18SdS("release")}})
		rdy = append(rdy, vC18SdCase{Kind: "ready", Leave: leave, Member: true, ReadyMode: "ok", Steps: []vC18SdStep{vc18SdS("settle"), vc18SdS("shutdown")}})
		rdy = append(rdy, vC18SdCase{Kind: "ready", Leave: leave, Member: true, ReadyMode: "timeout", Steps: []vC18SdStep{vc18SdS("shutdown")}})
	}
	return append(rdy, out...)
}

func vC18SdGen(r *vRand) vC18SdCase {
	cs := vC18SdCase{Kind: "watch", Leave: r.chance(50), Ready: r.chance(75), Member: r.chance(90)}
	if r.chance(20) {
		cs.Kind = "ready"
		cs.ReadyMode = []string{"timeout", "peers-error", "ok"}[r.intn(3)]
	}
	gates := []string{"rmpeer", "consdown", "mondown", "", ""}
	ops := []string{"shutdown", "shutdown", "peerremove", "remove", "freeze", "thaw", "look", "look", "settle", "release"}
	if cs.Kind == "ready" {
		ops = append(ops, "consready", "consready")
	}
	n := r.rng(1, 7)
	for i := 0; i < n; i++ {
		st := vC18SdStep{Op: ops[r.intn(len(ops))]}
		if st.Op == "shutdown" || st.Op == "peerremove" {
			st.Gate = gates[r.intn(len(gates))]
		}
		cs.Steps = append(cs.Steps, st)
	}
	return cs
}

func (cs *vC18SdCase) normalise() {
	if cs.Kind != "ready" {
		cs.Kind = "watch"
	}
	if len(cs.Steps) > 12 {
		cs.Steps = cs.Steps[:12]
	}
	calls := 0
	var keep []vC18SdStep
	for _, s := range cs.Steps {
		if s.Op == "shutdown" || s.Op == "peerremove" {
			calls++
			if calls > 4 {
				continue
			}
		}
		keep = append(keep, s)
	}
	cs.Steps = keep
}

func vc18SdKey(cs *vC18SdCase) string {
	k := cs.Kind
	if cs.Kind == "ready" {
		k += "/" + cs.ReadyMode
	}
	return k
}

// the scenario: all boundary scripts, then generated ones, in this (child) process; or exactly the script handed in
func vC18Shutdown(x *vC18Ctx) {
	logging.SetLogLevel("cluster", "FATAL")
	logging.SetLogLevel("pstoremgr", "FATAL")
	watchdog := time.Duration(vEnvInt("VERIF_C18_SD_WATCHDOG_MS", 8000)) * time.Millisecond
	var cases []vC18SdCase
	if len(x.scen.Script) > 0 {
		var cs vC18SdCase
		if json.Unmarshal(x.scen.Script, &cs) != nil {
			return
		}
		cases = []vC18SdCase{cs}
	} else {
		cases = vC18SdBoundary()
		r := newVRand(uint64(x.scen.Seed)*7919 + 18)
		n := x.scen.Ms // for this scenario "ms" is the number of generated scripts (the thorough plan multiplies it)
		if n <= 0 || n > 5000 {
			n = 60
		}
		for i := 0; i < n; i++ {
			cases = append(cases, vC18SdGen(r))
		}
	}
	leaked := map[string]bool{}
	seen := map[string]int{}
	for i := range cases {
		cs := &cases[i]
		cs.normalise()
		sig, detail := vC18SdRunCase(cs, leaked, watchdog)
		x.count(vc18SdKey(cs))
		for _, s := range cs.Steps {
			x.count("step/" + s.Op)
		}
		if sig != "" {
			x.count("violations")
			seen[sig]++
			if seen[sig] == 1 {
				x.direct(sig, detail, cs) // the first script of each shape is reported
			}
			if x.obs.Ops["violations"] >= 24 || seen["deadlock:cluster.go:Shutdown~unknown"] >= 2 {
				break // (every deadlocked script leaves its goroutines behind; an unclassified one costs a whole watchdog period)
			}
		}
	}
}
