//go:build verif

package ipfscluster

// C17, cluster level: the REAL (*Cluster).PeerRemove, PeerAdd, watchPeers and Shutdown.
// Rig A ("fake"): 1..4 struct-literal Cluster peers of a 5-peer universe share one recording fake of the Raft consensus
// component (real dsstate; a configuration list; scripted outcome of every RmPeer/AddPeer/LogPin; Clean = the real
// raft.CleanupRaft on a real data folder under .build; "snapshot on shutdown" = a copy of a snapshot written once by the
// real raft.SnapshotSave). Every started peer runs the real watchPeers goroutine (tick 4 ms); what a peer's watcher sees
// can be frozen and released by the script, so "configuration entries reach a peer late" is driven deterministically.
// Rig B ("raft"): see c17_cluster_raft_test.go (real NewCluster peers on the real raft.Consensus).
// Observed per operation: error flag, committed log entries in commit order, whole pinset, peerset, running peers;
// at the end per peer: c.removed, number of Clean calls, listing of the data folder and its backups.

import (
	"context"
	"encoding/json"
	"errors"
	"fmt"
	"io/ioutil"
	"os"
	"path/filepath"
	"sort"
	"strconv"
	"strings"
	"sync"
	"testing"
	"time"

	"github.com/ipfs/ipfs-cluster/allocator/ascendalloc"
	"github.com/ipfs/ipfs-cluster/allocator/descendalloc"
	"github.com/ipfs/ipfs-cluster/api"
	"github.com/ipfs/ipfs-cluster/consensus/raft"
	"github.com/ipfs/ipfs-cluster/datastore/inmem"
	"github.com/ipfs/ipfs-cluster/pstoremgr"
	"github.com/ipfs/ipfs-cluster/state"
	"github.com/ipfs/ipfs-cluster/state/dsstate"

	cid "github.com/ipfs/go-cid"
	logging "github.com/ipfs/go-log/v2"
	host "github.com/libp2p/go-libp2p-core/host"
	peer "github.com/libp2p/go-libp2p-core/peer"
	peerstore "github.com/libp2p/go-libp2p-core/peerstore"
	rpc "github.com/libp2p/go-libp2p-gorpc"
	"github.com/libp2p/go-libp2p-peerstore/pstoremem"
	ma "github.com/multiformats/go-multiaddr"
)

const vc17NPeers = 5
const vc17Window = 5 // old.0 .. old.4 are listed
const vc17Tick = 4 * time.Millisecond

type vC17PeerIn struct {
	Fol     bool  `json:"fol"`
	NoRepin bool  `json:"no_repin"`
	Leave   bool  `json:"leave"`
	Keep    int   `json:"keep"`
	Ready   bool  `json:"ready"`
	Snap    bool  `json:"snap"`
	Olds    []int `json:"olds"`
}

type vC17Op struct {
	Op     string `json:"op"` // remove add shutdown freeze thaw restart pin unpin join
	At     int    `json:"at"`
	Target int    `json:"target"`
	Out    int    `json:"out"` // 0 committed, 1 appended but error reported, 2 refused
	FailC  []int  `json:"failc"`
	IDOk   bool   `json:"id_ok"`
	Rdy    bool   `json:"rdy"`
	Cid    int    `json:"cid"`
	Rmin   int    `json:"rmin"`
	Rmax   int    `json:"rmax"`
}

type vC17Case struct {
	Kind    string         `json:"kind"` // "fake" | "raft"
	DefMin  int            `json:"def_min"`
	DefMax  int            `json:"def_max"`
	Rev     bool           `json:"rev"`
	Members []int          `json:"members"`
	Peers   []vC17PeerIn   `json:"peers"`
	Metrics []vMetricState `json:"metrics"`
	Pins    []vC04Pin      `json:"pins"`
	Ops     []vC17Op       `json:"ops"`
}

type vC17Entry struct {
	Op   int    `json:"op"`
	Kind string `json:"kind"` // pin unpin rm add
	Cid  int    `json:"cid"`
	By   int    `json:"by"`
	Peer int    `json:"peer"`
}

type vC17Folder struct {
	Marker int  `json:"marker"`
	Snap   bool `json:"snap"`
}

type vC17OpObs struct {
	Err     bool        `json:"err"`
	Entries []vC17Entry `json:"entries"`
	Pinset  []vC04Pin   `json:"pinset"`
	Peers   []int       `json:"peers"`
	Running []int       `json:"running"`
}

type vC17Final struct {
	Idx     int           `json:"idx"`
	Running bool          `json:"running"`
	Removed bool          `json:"removed"`
	Cleans  int           `json:"cleans"`
	Listing []*vC17Folder `json:"listing"`
}

type vC17Obs struct {
	Initial  []vC04Pin       `json:"initial"`
	Listing0 [][]*vC17Folder `json:"listing0"`
	Snaps    []bool          `json:"snaps"`
	Ops      []vC17OpObs     `json:"ops"`
	Finals   []vC17Final     `json:"finals"`
}

// ---------------------------------------------------------------- scratch directories
type vc17Scratch struct {
	root     string
	n        int
	template string
}

var vc17Dirs *vc17Scratch

func vc17GetScratch() *vc17Scratch {
	if vc17Dirs != nil {
		return vc17Dirs
	}
	base := os.Getenv("VERIF_DIR")
	if base == "" {
		panic("VERIF_DIR not set: refusing to create scratch directories elsewhere")
	}
	root := filepath.Join(base, ".build", "c17tmp", fmt.Sprintf("cl-%d", os.Getpid()))
	os.RemoveAll(root)
	if err := os.MkdirAll(root, 0700); err != nil {
		panic(err)
	}
	s := &vc17Scratch{root: root}
	// the template snapshot: an empty state saved by the real code
	cfg := &raft.Config{}
	cfg.Default()
	cfg.DataFolder = filepath.Join(root, "template", "raft")
	st, err := dsstate.New(inmem.New(), "", dsstate.DefaultHandle())
	if err != nil {
		panic(err)
	}
	if err := raft.SnapshotSave(cfg, st, []peer.ID{vPeers[0]}); err != nil {
		panic(err)
	}
	s.template = cfg.GetDataFolder()
	vc17Dirs = s
	return s
}

func (s *vc17Scratch) caseDir() string {
	s.n++
	d := filepath.Join(s.root, fmt.Sprintf("c%d", s.n))
	if err := os.MkdirAll(d, 0700); err != nil {
		panic(err)
	}
	return d
}

func vc17CopyTreeErr(src, dst string) error {
	return filepath.Walk(src, func(p string, info os.FileInfo, err error) error {
		if err != nil {
			return err
		}
		rel, _ := filepath.Rel(src, p)
		target := filepath.Join(dst, rel)
		if info.IsDir() {
			return os.MkdirAll(target, 0700)
		}
		b, err := ioutil.ReadFile(p)
		if err != nil {
			return err
		}
		return ioutil.WriteFile(target, b, 0600)
	})
}

// only for the harness' own goroutine: a panic in a goroutine of the code under test would take the process down
func vc17CopyTree(src, dst string) {
	if err := vc17CopyTreeErr(src, dst); err != nil {
		panic(err)
	}
}

func (s *vc17Scratch) makeFolder(path string, marker int, withSnap bool) {
	os.RemoveAll(path)
	if err := os.MkdirAll(path, 0700); err != nil {
		panic(err)
	}
	if marker != 0 {
		if err := ioutil.WriteFile(filepath.Join(path, "marker"), []byte(strconv.Itoa(marker)), 0600); err != nil {
			panic(err)
		}
	}
	if withSnap {
		vc17CopyTree(filepath.Join(s.template, "snapshots"), filepath.Join(path, "snapshots"))
	}
}

func vc17HasSnapshot(path string) bool {
	ents, err := ioutil.ReadDir(filepath.Join(path, "snapshots"))
	if err != nil {
		return false
	}
	for _, e := range ents {
		if e.IsDir() && !strings.HasSuffix(e.Name(), ".tmp") {
			if _, err := os.Stat(filepath.Join(path, "snapshots", e.Name(), "meta.json")); err == nil {
				return true
			}
		}
	}
	return false
}

func vc17Observe(path string) *vC17Folder {
	if _, err := os.Stat(path); err != nil {
		return nil
	}
	f := &vC17Folder{}
	if b, err := ioutil.ReadFile(filepath.Join(path, "marker")); err == nil {
		f.Marker, _ = strconv.Atoi(strings.TrimSpace(string(b)))
	}
	f.Snap = vc17HasSnapshot(path)
	return f
}

func vc17Listing(dataFolder string) []*vC17Folder {
	out := []*vC17Folder{vc17Observe(dataFolder)}
	for i := 0; i < vc17Window; i++ {
		out = append(out, vc17Observe(fmt.Sprintf("%s.old.%d", dataFolder, i)))
	}
	return out
}

func vc17CoqListing(l []*vC17Folder) string {
	xs := make([]string, len(l))
	for i, f := range l {
		switch {
		case f == nil:
			xs[i] = "None"
		case f.Snap:
			xs[i] = fmt.Sprintf("Some (%d, Some 0)", f.Marker)
		default:
			xs[i] = fmt.Sprintf("Some (%d, None)", f.Marker)
		}
	}
	return cqList(xs)
}

func vc17RaftCfg(base string, i, keep int) *raft.Config {
	cfg := &raft.Config{}
	cfg.Default()
	cfg.DataFolder = filepath.Join(base, fmt.Sprintf("p%d", i), "raft")
	cfg.BackupsRotate = keep
	return cfg
}

// ---------------------------------------------------------------- small fakes
type vC17Host struct {
	host.Host
	id peer.ID
	ps peerstore.Peerstore
}

func (h *vC17Host) ID() peer.ID                    { return h.id }
func (h *vC17Host) Peerstore() peerstore.Peerstore { return h.ps }
func (h *vC17Host) Addrs() []ma.Multiaddr          { return nil }

type vC17Tracker struct{}

func (t *vC17Tracker) SetClient(*rpc.Client)                                      {}
func (t *vC17Tracker) Shutdown(context.Context) error                             { return nil }
func (t *vC17Tracker) Track(context.Context, *api.Pin) error                      { return nil }
func (t *vC17Tracker) Untrack(context.Context, cid.Cid) error                     { return nil }
func (t *vC17Tracker) StatusAll(context.Context, api.TrackerStatus) []*api.PinInfo { return nil }
func (t *vC17Tracker) Status(_ context.Context, c cid.Cid) *api.PinInfo {
	return &api.PinInfo{Cid: c, PinInfoShort: api.PinInfoShort{Status: api.TrackerStatusPinned}}
}
func (t *vC17Tracker) RecoverAll(context.Context) ([]*api.PinInfo, error) { return nil, nil }
func (t *vC17Tracker) Recover(_ context.Context, c cid.Cid) (*api.PinInfo, error) {
	return t.Status(nil, c), nil
}

type vC17Tracer struct{}

func (t *vC17Tracer) SetClient(*rpc.Client)          {}
func (t *vC17Tracer) Shutdown(context.Context) error { return nil }

// the "Cluster" RPC service PeerAdd talks to (ID of the added peer)
type vC17ClusterSvc struct{ cons *vC17Cons }

func (s *vC17ClusterSvc) ID(ctx context.Context, in struct{}, out *api.ID) error {
	s.cons.mu.Lock()
	ok := s.cons.idOk
	s.cons.mu.Unlock()
	if !ok {
		return errors.New("vc17: the added peer cannot be reached")
	}
	*out = api.ID{}
	return nil
}

// ---------------------------------------------------------------- the recording consensus fake
type vC17Cons struct {
	mu      sync.Mutex
	st      *dsstate.State
	peers   []int // the configuration, in the order the entries made it
	entries []vC17Entry
	curOp   int
	failc   map[int]bool
	out     int
	idOk    bool
	frozen  [vc17NPeers]bool
	stale   [vc17NPeers][]int
	cleans  [vc17NPeers]int
	scratch *vc17Scratch
}

func (c *vC17Cons) has(p int) bool {
	for _, q := range c.peers {
		if q == p {
			return true
		}
	}
	return false
}

func (c *vC17Cons) peersCopy() []int {
	c.mu.Lock()
	defer c.mu.Unlock()
	return append([]int{}, c.peers...)
}

type vC17View struct {
	*vC17Cons
	self int
	cfg  *raft.Config
	snap bool
	down bool // guarded by vC17Cons.mu
}

var errVC17Down = errors.New("vc17: consensus is shutdown")
var errVC17Scripted = errors.New("vc17: scripted failure")

func (v *vC17View) SetClient(*rpc.Client) {}
func (v *vC17View) Ready(context.Context) <-chan struct{} {
	ch := make(chan struct{})
	close(ch)
	return ch
}
func (v *vC17View) State(context.Context) (state.ReadOnly, error) { return v.st, nil }
func (v *vC17View) Leader(context.Context) (peer.ID, error)       { return "", errors.New("no leader") }
func (v *vC17View) WaitForSync(context.Context) error             { return nil }
func (v *vC17View) IsTrustedPeer(context.Context, peer.ID) bool   { return true }
func (v *vC17View) Trust(context.Context, peer.ID) error          { return nil }
func (v *vC17View) Distrust(context.Context, peer.ID) error       { return nil }

func (v *vC17View) Peers(context.Context) ([]peer.ID, error) {
	v.mu.Lock()
	defer v.mu.Unlock()
	if v.down {
		return nil, errVC17Down
	}
	l := v.peers
	if v.frozen[v.self] {
		l = v.stale[v.self]
	}
	l = append([]int{}, l...)
	sort.Ints(l)
	return vPeerList(l), nil
}

func (v *vC17View) LogPin(ctx context.Context, p *api.Pin) error {
	v.mu.Lock()
	defer v.mu.Unlock()
	k := vc04CidIdx(p.Cid)
	if v.down {
		return errVC17Down
	}
	if v.failc[k] {
		return errVC17Scripted
	}
	if err := v.st.Add(ctx, p); err != nil {
		return err
	}
	v.entries = append(v.entries, vC17Entry{Op: v.curOp, Kind: "pin", Cid: k, By: v.self})
	return nil
}

func (v *vC17View) LogUnpin(ctx context.Context, p *api.Pin) error {
	v.mu.Lock()
	defer v.mu.Unlock()
	if v.down {
		return errVC17Down
	}
	if err := v.st.Rm(ctx, p.Cid); err != nil {
		return err
	}
	v.entries = append(v.entries, vC17Entry{Op: v.curOp, Kind: "unpin", Cid: vc04CidIdx(p.Cid), By: v.self})
	return nil
}

// RmPeer: raftWrapper.RemovePeer's own tests (absent: nothing to do; the only peer: refused), then what the script says
// hashicorp/raft does with the change
func (v *vC17View) RmPeer(ctx context.Context, pid peer.ID) error {
	v.mu.Lock()
	defer v.mu.Unlock()
	if v.down {
		return errVC17Down
	}
	p := vPeerIdx(pid)
	if !v.has(p) {
		return nil
	}
	if len(v.peers) == 1 {
		return errors.New("cannot remove ourselves from a 1-peer cluster")
	}
	if v.out == 2 {
		return errVC17Scripted
	}
	var np []int
	for _, q := range v.peers {
		if q != p {
			np = append(np, q)
		}
	}
	v.peers = np
	v.entries = append(v.entries, vC17Entry{Op: v.curOp, Kind: "rm", Peer: p})
	if v.out == 1 {
		return errVC17Scripted
	}
	return nil
}

func (v *vC17View) AddPeer(ctx context.Context, pid peer.ID) error {
	v.mu.Lock()
	defer v.mu.Unlock()
	if v.down {
		return errVC17Down
	}
	p := vPeerIdx(pid)
	if v.has(p) {
		return nil
	}
	if v.out == 2 {
		return errVC17Scripted
	}
	v.peers = append(v.peers, p)
	v.entries = append(v.entries, vC17Entry{Op: v.curOp, Kind: "add", Peer: p})
	if v.out == 1 {
		return errVC17Scripted
	}
	return nil
}

// Shutdown: raft.go Shutdown snapshots first (when that works), then the component is down
func (v *vC17View) Shutdown(context.Context) error {
	v.mu.Lock()
	defer v.mu.Unlock()
	if v.down {
		return nil
	}
	v.down = true
	df := v.cfg.GetDataFolder()
	if _, err := os.Stat(df); err == nil && v.snap && !vc17HasSnapshot(df) {
		// called from goroutines of the code under test (watchPeers -> Shutdown): never panic here
		_ = vc17CopyTreeErr(filepath.Join(v.scratch.template, "snapshots"), filepath.Join(df, "snapshots"))
	}
	return nil
}

// Clean: as consensus.go Clean: refuses while running, else the REAL raft.CleanupRaft on the real folder
func (v *vC17View) Clean(context.Context) error {
	v.mu.Lock()
	down := v.down
	if down {
		v.cleans[v.self]++
	}
	v.mu.Unlock()
	if !down {
		return errors.New("consensus component is not shutdown")
	}
	return raft.CleanupRaft(v.cfg)
}

// ---------------------------------------------------------------- the rig
type vC17Rig struct {
	c       *vC17Case
	cons    *vC17Cons
	base    string
	cfgs    []*raft.Config
	cls     []*Cluster
	views   []*vC17View
	ipfs    *vIPFS
	t0      time.Time
	probe   *Cluster
	cancels []context.CancelFunc
	gaveUp  [vc17NPeers]bool
	all     []*Cluster // every Cluster object of this script, earlier incarnations included
}

func (rg *vC17Rig) running(i int) bool {
	if rg.cls[i] == nil {
		return false
	}
	select {
	case <-rg.cls[i].Done():
		return false
	default:
		return true
	}
}

func (rg *vC17Rig) start(i int, ready bool) {
	c := rg.c
	ctx, cancel := context.WithCancel(context.Background())
	rg.cancels = append(rg.cancels, cancel)
	view := &vC17View{vC17Cons: rg.cons, self: i, cfg: rg.cfgs[i], snap: c.Peers[i].Snap}
	mon := newVMonitor()
	mon.peers = func() ([]peer.ID, error) { return vPeerList(rg.cons.peersCopy()), nil }
	mon.load("vmetric", c.Metrics)
	h := &vC17Host{id: vPeers[i], ps: pstoremem.NewPeerstore()}
	srv := rpc.NewServer(nil, "vc17")
	if err := srv.RegisterName("Cluster", &vC17ClusterSvc{rg.cons}); err != nil {
		panic(err)
	}
	cl := &Cluster{
		ctx:    ctx,
		cancel: cancel,
		id:     vPeers[i],
		config: &Config{ReplicationFactorMin: c.DefMin, ReplicationFactorMax: c.DefMax, FollowerMode: c.Peers[i].Fol,
			DisableRepinning: c.Peers[i].NoRepin, LeaveOnShutdown: c.Peers[i].Leave, PeerWatchInterval: vc17Tick,
			MonitorPingInterval: time.Hour},
		host:        h,
		peerManager: pstoremgr.New(ctx, h, ""),
		consensus:   view,
		ipfs:        rg.ipfs,
		tracker:     &vC17Tracker{},
		monitor:     mon,
		informers:   []Informer{&vInformer{"vmetric"}},
		tracer:      &vC17Tracer{},
		rpcClient:   rpc.NewClientWithServer(nil, "vc17", srv),
		doneCh:      make(chan struct{}),
		readyCh:     make(chan struct{}),
		readyB:      ready,
	}
	if c.Rev {
		cl.allocator = descendalloc.NewAllocator()
	} else {
		cl.allocator = ascendalloc.NewAllocator()
	}
	rg.cls[i] = cl
	rg.all = append(rg.all, cl)
	rg.views[i] = view
	// as run() does
	cl.wg.Add(1)
	go func() {
		defer cl.wg.Done()
		cl.watchPeers()
	}()
}

func (rg *vC17Rig) waitDone(i int, d time.Duration) bool {
	select {
	case <-rg.cls[i].Done():
		return true
	case <-time.After(d):
		return false
	}
}

// after every operation: a running peer whose own view of the peerset lacks it is given time to stop itself (positive
// expectation: long timeout); nothing is awaited for the others
func (rg *vC17Rig) settle() {
	for i := 0; i < vc17NPeers; i++ {
		if !rg.running(i) {
			continue
		}
		rg.cons.mu.Lock()
		l := rg.cons.peers
		if rg.cons.frozen[i] {
			l = rg.cons.stale[i]
		}
		in := false
		for _, q := range l {
			if q == i {
				in = true
			}
		}
		rg.cons.mu.Unlock()
		if !in && !rg.gaveUp[i] {
			// 4 ms ticks: 2 s is a margin of 500; a peer that did not stop in that time is not waited for again in this script
			if !rg.waitDone(i, 2*time.Second) {
				rg.gaveUp[i] = true
			}
		}
	}
}

func (rg *vC17Rig) runningList() []int {
	out := []int{}
	for i := 0; i < vc17NPeers; i++ {
		if rg.running(i) {
			out = append(out, i)
		}
	}
	return out
}

func vc17EntryCoq(e vC17Entry) string {
	switch e.Kind {
	case "pin":
		return fmt.Sprintf("TPin %d %d", e.Cid, e.By)
	case "unpin":
		return fmt.Sprintf("TUnpin %d %d", e.Cid, e.By)
	case "rm":
		return fmt.Sprintf("TRm %d", e.Peer)
	default:
		return fmt.Sprintf("TAdd %d", e.Peer)
	}
}

func vc17OpCoq(op vC17Op, out int) string {
	switch op.Op {
	case "remove":
		return fmt.Sprintf("XRemove %d %d %s %d", op.At, op.Target, vc04CoqListN(op.FailC), out)
	case "add":
		return fmt.Sprintf("XAdd %d %d %d %s", op.At, op.Target, out, cqBool(op.IDOk))
	case "shutdown":
		return fmt.Sprintf("XShutdown %d %d", op.At, out)
	case "freeze":
		return fmt.Sprintf("XFreeze %d", op.At)
	case "thaw":
		return fmt.Sprintf("XThaw %d", op.At)
	case "restart":
		return fmt.Sprintf("XRestart %d %s", op.At, cqBool(op.Rdy))
	case "join":
		return fmt.Sprintf("XJoin %d %d %d", op.At, op.Target, out)
	default:
		return fmt.Sprintf("XCall %d", op.At)
	}
}

func vc17Term(c *vC17Case, kind int, obs *vC17Obs, outs []int) string {
	var pis, ops, fins []string
	member := map[int]bool{}
	for _, m := range c.Members {
		member[m] = true
	}
	for i, p := range c.Peers {
		pis = append(pis, fmt.Sprintf("(%d, %s, %s, %s, %d%%nat, %s, %s, %s, %s)", i, cqBool(p.Fol), cqBool(p.NoRepin), cqBool(p.Leave), p.Keep,
			cqBool(p.Ready), cqBool(member[i]), cqBool(obs.Snaps[i]), vc17CoqListing(obs.Listing0[i])))
	}
	for k, o := range obs.Ops {
		var es []string
		for _, e := range o.Entries {
			es = append(es, vc17EntryCoq(e))
		}
		ops = append(ops, fmt.Sprintf("(%s, %s, %s,\n    %s, %s, %s)", vc17OpCoq(c.Ops[k], outs[k]), cqBool(o.Err), cqList(es), vc04CoqPins(o.Pinset),
			vc04CoqListN(o.Peers), vc04CoqListN(o.Running)))
	}
	for _, f := range obs.Finals {
		fins = append(fins, fmt.Sprintf("(%d, %s, %s, %d%%nat, %s)", f.Idx, cqBool(f.Running), cqBool(f.Removed), f.Cleans, vc17CoqListing(f.Listing)))
	}
	return fmt.Sprintf("(%d, %s, %s, %s, %s, %s,\n  [%s],\n  %s,\n  [%s],\n  [%s])", kind, cqZ(int64(c.DefMin)), cqZ(int64(c.DefMax)), cqBool(c.Rev),
		vCoqMetrics(c.Metrics), vc04CoqListN(c.Members), strings.Join(pis, ";\n   "), vc04CoqPins(obs.Initial), strings.Join(ops, ";\n   "), strings.Join(fins, ";\n   "))
}

// ---------------------------------------------------------------- running one script on rig A
func vC17RunFake(c *vC17Case) (obs *vC17Obs, term string, panicked interface{}) {
	defer func() {
		if r := recover(); r != nil {
			panicked = r
		}
	}()
	bg := context.Background()
	scratch := vc17GetScratch()
	st, err := dsstate.New(inmem.New(), "", dsstate.DefaultHandle())
	if err != nil {
		panic(err)
	}
	cons := &vC17Cons{st: st, peers: append([]int{}, c.Members...), failc: map[int]bool{}, idOk: true, scratch: scratch}
	rg := &vC17Rig{c: c, cons: cons, base: scratch.caseDir(), cls: make([]*Cluster, vc17NPeers), views: make([]*vC17View, vc17NPeers),
		ipfs: &vIPFS{resolve: map[string]int{}, links: map[int]vC04Link{}}, t0: time.Unix(time.Now().Unix(), 0)}
	defer func() {
		for _, cancel := range rg.cancels {
			cancel()
		}
		// nothing of this script may still be at work on its folders when they are removed: every watcher has returned and a
		// Shutdown it may have started has run to its end (Shutdown holds shutdownLock throughout)
		for _, cl := range rg.all {
			cl.wg.Wait()
			cl.shutdownLock.Lock()
			cl.shutdownLock.Unlock()
		}
		os.RemoveAll(rg.base)
	}()
	obs = &vC17Obs{}
	for i := 0; i < vc17NPeers; i++ {
		cfg := vc17RaftCfg(rg.base, i, c.Peers[i].Keep)
		rg.cfgs = append(rg.cfgs, cfg)
		df := cfg.GetDataFolder()
		if err := os.MkdirAll(filepath.Dir(df), 0700); err != nil {
			panic(err)
		}
		scratch.makeFolder(df, i+1, false)
		for _, k := range c.Peers[i].Olds {
			scratch.makeFolder(fmt.Sprintf("%s.old.%d", df, k), 100+10*i+k, k%2 == 0)
		}
		obs.Listing0 = append(obs.Listing0, vc17Listing(df))
		obs.Snaps = append(obs.Snaps, c.Peers[i].Snap)
	}
	for _, p := range c.Pins {
		if err := cons.st.Add(bg, p.toAPI(rg.t0)); err != nil {
			panic(err)
		}
	}
	pctx, pcancel := context.WithCancel(bg)
	rg.cancels = append(rg.cancels, pcancel)
	rg.probe = &Cluster{ctx: pctx, id: vPeers[0], consensus: &vC17View{vC17Cons: cons, self: 0}, config: &Config{}}
	initial, err := vc04Pinset(bg, rg.probe, rg.t0)
	if err != nil {
		panic(err)
	}
	obs.Initial = initial
	for _, m := range c.Members {
		rg.start(m, c.Peers[m].Ready)
	}
	outs := make([]int, len(c.Ops))
	for k, op := range c.Ops {
		outs[k] = op.Out
		cons.mu.Lock()
		cons.curOp = k
		cons.out = op.Out
		cons.idOk = op.IDOk
		cons.failc = map[int]bool{}
		for _, x := range op.FailC {
			cons.failc[x] = true
		}
		cons.mu.Unlock()
		var operr error
		cl := rg.cls[op.At]
		switch op.Op {
		case "remove":
			if cl == nil {
				operr = errVC17Down
			} else {
				operr = cl.PeerRemove(bg, vPeers[op.Target])
			}
		case "add":
			if cl == nil {
				operr = errVC17Down
			} else {
				_, operr = cl.PeerAdd(bg, vPeers[op.Target])
			}
		case "shutdown":
			if cl != nil {
				// Shutdown with LeaveOnShutdown first removes this peer from the peerset and only then stops the consensus component;
				// a tick of its own watcher in between blocks on shutdownLock while Shutdown waits for the watcher (a deadlock of the
				// product, reproduced by c17_probe_test.go, outside this property): the watcher does not get to see that window here
				cons.mu.Lock()
				was := cons.frozen[op.At]
				if c.Peers[op.At].Leave && !was {
					cons.frozen[op.At] = true
					cons.stale[op.At] = append([]int{}, cons.peers...)
				}
				cons.mu.Unlock()
				operr = cl.Shutdown(bg)
				cons.mu.Lock()
				cons.frozen[op.At] = was
				cons.mu.Unlock()
			}
		case "freeze":
			cons.mu.Lock()
			if !cons.frozen[op.At] {
				cons.frozen[op.At] = true
				cons.stale[op.At] = append([]int{}, cons.peers...)
			}
			cons.mu.Unlock()
		case "thaw":
			cons.mu.Lock()
			cons.frozen[op.At] = false
			cons.mu.Unlock()
		case "restart":
			// a restart that cannot take place (still running, or the data folder is gone: such a peer has to join again) is reported as an error
			if _, err := os.Stat(rg.cfgs[op.At].GetDataFolder()); err == nil && !rg.running(op.At) {
				rg.gaveUp[op.At] = false
				rg.start(op.At, op.Rdy)
			} else {
				operr = errors.New("vc17: restart skipped")
			}
		case "pin":
			if cl == nil {
				operr = errVC17Down
			} else {
				_, operr = cl.Pin(bg, vc04Cid(op.Cid), api.PinOptions{ReplicationFactorMin: op.Rmin, ReplicationFactorMax: op.Rmax})
			}
		case "unpin":
			if cl == nil {
				operr = errVC17Down
			} else {
				_, operr = cl.Unpin(bg, vc04Cid(op.Cid))
			}
		}
		rg.settle()
		oo := vC17OpObs{Err: operr != nil, Entries: []vC17Entry{}}
		cons.mu.Lock()
		for _, e := range cons.entries {
			if e.Op == k {
				oo.Entries = append(oo.Entries, e)
			}
		}
		oo.Peers = append([]int{}, cons.peers...)
		cons.mu.Unlock()
		ps, err := vc04Pinset(bg, rg.probe, rg.t0)
		if err != nil {
			panic(err)
		}
		oo.Pinset = ps
		if k == len(c.Ops)-1 {
			// negative expectation, once per script: nobody else stops by itself
			time.Sleep(5 * vc17Tick)
		}
		oo.Running = rg.runningList()
		obs.Ops = append(obs.Ops, oo)
	}
	for i := 0; i < vc17NPeers; i++ {
		f := vC17Final{Idx: i, Running: rg.running(i), Listing: vc17Listing(rg.cfgs[i].GetDataFolder())}
		if cl := rg.cls[i]; cl != nil {
			cl.shutdownLock.Lock()
			f.Removed = cl.removed
			cl.shutdownLock.Unlock()
		}
		cons.mu.Lock()
		f.Cleans = cons.cleans[i]
		cons.mu.Unlock()
		obs.Finals = append(obs.Finals, f)
	}
	return obs, vc17Term(c, 0, obs, outs), nil
}

// ---------------------------------------------------------------- generator
func vc17In(xs []int, x int) bool {
	for _, y := range xs {
		if y == x {
			return true
		}
	}
	return false
}

func vc17GenPins(r *vRand, c *vC17Case, likely int) {
	np := r.rng(0, 5)
	used := map[int]bool{}
	for i := 0; i < np; i++ {
		k := r.rng(1, 7)
		if used[k] {
			continue
		}
		used[k] = true
		p := vC04Pin{Cid: k, Type: 1, Depth: -1, Allocs: []int{}, Opts: vC04Opts{UAlloc: []int{}, Origins: []int{}}}
		o := &p.Opts
		if r.chance(10) {
			o.Rmin, o.Rmax = -1, -1
		} else {
			o.Rmin = r.rng(1, 3)
			o.Rmax = o.Rmin + r.intn(3)
		}
		if o.Rmin > 0 {
			want := r.rng(o.Rmin, o.Rmax)
			switch x := r.intn(100); {
			case x < 12:
				want = o.Rmin - 1 // under its minimum already
			case x < 20:
				want = o.Rmax + 1 // over its maximum
			}
			cand := append([]int{}, c.Members...)
			for i := len(cand) - 1; i > 0; i-- {
				j := r.intn(i + 1)
				cand[i], cand[j] = cand[j], cand[i]
			}
			if r.chance(65) {
				p.Allocs = append(p.Allocs, likely)
			}
			for _, q := range cand {
				if len(p.Allocs) >= want {
					break
				}
				if !vc17In(p.Allocs, q) {
					p.Allocs = append(p.Allocs, q)
				}
			}
			if r.chance(5) {
				p.Allocs = append(p.Allocs, 4) // a holder that may be no member
			}
		}
		if r.chance(40) {
			o.Name = r.rng(1, 3)
		}
		if r.chance(25) {
			o.Meta = append(o.Meta, [2]int{r.rng(1, 3), r.rng(0, 2)})
		}
		if r.chance(15) {
			o.Origins = []int{r.rng(1, 3)}
		}
		if r.chance(10) {
			o.Mode = 1
			p.Depth = 0
		}
		if x := r.intn(100); x < 5 {
			o.HasExp, o.ExpS = true, -int64(3600*r.rng(1, 3))
		} else if x < 25 {
			o.HasExp, o.ExpS = true, int64(3600*r.rng(1, 3))
		}
		if r.chance(10) {
			o.Update = r.rng(1, 7)
		}
		if r.chance(8) {
			switch r.intn(3) {
			case 0:
				p.Type, p.Depth, p.Ref, p.Allocs = 2, -1, 6, []int{}
			case 1:
				p.Type, p.Depth, p.Ref = 3, 0, 5
			default:
				p.Type, p.Depth = 4, 1
			}
		}
		p.Opts.normalise(vc17NPeers)
		c.Pins = append(c.Pins, p)
	}
}

func vC17Gen(r *vRand) vC17Case {
	c := vC17Case{Kind: "fake", Rev: r.chance(50)}
	c.DefMin = r.rng(1, 2)
	c.DefMax = c.DefMin + r.intn(2)
	n := r.rng(1, 4)
	if r.chance(60) {
		n = r.rng(3, 4)
	}
	perm := []int{0, 1, 2, 3, 4}
	for i := len(perm) - 1; i > 0; i-- {
		j := r.intn(i + 1)
		perm[i], perm[j] = perm[j], perm[i]
	}
	c.Members = append([]int{}, perm[:n]...)
	noRepinAll := r.chance(12)
	for i := 0; i < vc17NPeers; i++ {
		p := vC17PeerIn{Fol: r.chance(5), NoRepin: noRepinAll || r.chance(6), Leave: r.chance(10), Keep: r.rng(1, 3), Ready: !r.chance(7), Snap: r.chance(75), Olds: []int{}}
		for k := 0; k < 3; k++ {
			if r.chance(35) {
				p.Olds = append(p.Olds, k)
			}
		}
		c.Peers = append(c.Peers, p)
	}
	for _, p := range perm {
		st := 1
		switch x := r.intn(100); {
		case x < 78:
			st = 1
		case x < 84:
			st = 0
		case x < 91:
			st = 2
		case x < 96:
			st = 3
		default:
			st = 4
		}
		c.Metrics = append(c.Metrics, vMetricState{Peer: p, State: st, Value: r.intn(1000)*10 + p})
	}
	victim := c.Members[r.intn(n)]
	vc17GenPins(r, &c, victim)
	member := func() int { return c.Members[r.intn(n)] }
	anyPeer := func() int { return r.intn(vc17NPeers) }
	outcome := func() int {
		switch x := r.intn(100); {
		case x < 80:
			return 0
		case x < 88:
			return 1
		default:
			return 2
		}
	}
	removeOp := func(target int) vC17Op {
		op := vC17Op{Op: "remove", At: member(), Target: target, Out: outcome(), IDOk: true, FailC: []int{}}
		switch x := r.intn(100); {
		case x < 25:
			op.At = target // removes itself
		case x < 30:
			op.At = anyPeer() // possibly a peer that is not running
		}
		if r.chance(10) && len(c.Pins) > 0 {
			op.FailC = []int{c.Pins[r.intn(len(c.Pins))].Cid}
		}
		return op
	}
	nops := r.rng(1, 6)
	for len(c.Ops) < nops {
		switch x := r.intn(100); {
		case x < 45:
			t := victim
			switch y := r.intn(100); {
			case y < 25:
				t = member()
			case y < 35:
				t = anyPeer() // possibly absent
			}
			c.Ops = append(c.Ops, removeOp(t))
		case x < 55:
			c.Ops = append(c.Ops, vC17Op{Op: "add", At: member(), Target: anyPeer(), Out: outcome(), IDOk: !r.chance(15), FailC: []int{}})
		case x < 67:
			c.Ops = append(c.Ops, vC17Op{Op: "shutdown", At: anyPeer(), Out: outcome(), IDOk: true, FailC: []int{}})
		case x < 79:
			// the peer misses configuration entries for a while: replaced (one added, it removed) before it looks again
			p := member()
			c.Ops = append(c.Ops, vC17Op{Op: "freeze", At: p, IDOk: true, FailC: []int{}})
			if r.chance(70) {
				c.Ops = append(c.Ops, vC17Op{Op: "add", At: member(), Target: anyPeer(), Out: 0, IDOk: true, FailC: []int{}})
			}
			c.Ops = append(c.Ops, removeOp(p))
			if r.chance(85) {
				c.Ops = append(c.Ops, vC17Op{Op: "thaw", At: p, IDOk: true, FailC: []int{}})
			}
		case x < 84:
			c.Ops = append(c.Ops, vC17Op{Op: "restart", At: anyPeer(), Rdy: !r.chance(20), IDOk: true, FailC: []int{}})
		case x < 93:
			rmin := r.rng(1, 2)
			c.Ops = append(c.Ops, vC17Op{Op: "pin", At: member(), Cid: r.rng(1, 7), Rmin: rmin, Rmax: rmin + r.intn(2), IDOk: true, FailC: []int{}})
		default:
			c.Ops = append(c.Ops, vC17Op{Op: "unpin", At: member(), Cid: r.rng(1, 7), IDOk: true, FailC: []int{}})
		}
	}
	return c
}

func (c *vC17Case) normalise() {
	if c.Kind != "raft" {
		c.Kind = "fake"
	}
	if c.DefMin < 1 || c.DefMin > 3 {
		c.DefMin = 1
	}
	if c.DefMax < c.DefMin || c.DefMax > 5 {
		c.DefMax = c.DefMin
	}
	seen := map[int]bool{}
	var ms []int
	for _, m := range c.Members {
		if m < 0 || m >= vc17NPeers || seen[m] || len(ms) >= 4 {
			continue
		}
		seen[m] = true
		ms = append(ms, m)
	}
	if len(ms) == 0 {
		ms = []int{0}
		seen[0] = true
	}
	c.Members = ms
	for len(c.Peers) < vc17NPeers {
		c.Peers = append(c.Peers, vC17PeerIn{Keep: 1, Ready: true, Snap: true})
	}
	c.Peers = c.Peers[:vc17NPeers]
	for i := range c.Peers {
		p := &c.Peers[i]
		if p.Keep < 1 || p.Keep > 3 {
			p.Keep = 1
		}
		so := map[int]bool{}
		olds := []int{}
		for _, k := range p.Olds {
			if k >= 0 && k < 3 && !so[k] {
				so[k] = true
				olds = append(olds, k)
			}
		}
		sort.Ints(olds)
		p.Olds = olds
	}
	seenM := map[int]bool{}
	var mt []vMetricState
	for _, m := range c.Metrics {
		if m.Peer < 0 || m.Peer >= vc17NPeers || seenM[m.Peer] || m.State < 0 || m.State > 4 || m.Value < 0 {
			continue
		}
		seenM[m.Peer] = true
		mt = append(mt, m)
	}
	c.Metrics = mt
	seenC := map[int]bool{}
	var ps []vC04Pin
	for _, p := range c.Pins {
		if p.Cid < 1 || p.Cid > len(vc04Cids) || seenC[p.Cid] {
			continue
		}
		seenC[p.Cid] = true
		if p.Type < 0 || p.Type > 4 {
			p.Type = 1
		}
		if p.Ref < 0 || p.Ref > len(vc04Cids) {
			p.Ref = 0
		}
		p.Allocs = vc04Clamp(p.Allocs, 0, vc17NPeers-1)
		p.Opts.normalise(vc17NPeers)
		p.Opts.UAlloc = []int{}
		ps = append(ps, p)
	}
	c.Pins = ps
	var ops []vC17Op
	for _, op := range c.Ops {
		switch op.Op {
		case "remove", "add", "shutdown", "freeze", "thaw", "restart", "pin", "unpin", "join":
		default:
			continue
		}
		okIdx := func(x int) bool {
			return (x >= 0 && x < vc17NPeers) || (c.Kind == "raft" && x >= 100 && x <= 103) // 100..: roles (leader, followers) of the raft rig
		}
		if !okIdx(op.At) || !okIdx(op.Target) {
			continue
		}
		if c.Kind == "raft" && op.Op != "remove" && op.Op != "shutdown" && op.Op != "pin" && op.Op != "join" {
			continue
		}
		if op.Out < 0 || op.Out > 2 {
			op.Out = 0
		}
		op.FailC = vc04Clamp(op.FailC, 1, len(vc04Cids))
		if op.Cid < 1 || op.Cid > len(vc04Cids) {
			op.Cid = 1
		}
		if op.Rmin < 1 || op.Rmin > 3 {
			op.Rmin = 1
		}
		if op.Rmax < op.Rmin || op.Rmax > 5 {
			op.Rmax = op.Rmin
		}
		if c.Kind == "fake" && op.Op == "join" {
			continue
		}
		ops = append(ops, op)
	}
	if len(ops) > 12 {
		ops = ops[:12]
	}
	c.Ops = ops
}

func TestVerifC17Cluster(t *testing.T) {
	vc04Quiet()
	if lv := os.Getenv("VERIF_C17_LOG"); lv != "" {
		logging.SetLogLevel("raft", lv)
		logging.SetLogLevel("cluster", lv)
	}
	vPeerUniverse(10)
	vc04Universe()
	seed := uint64(vEnvInt("VERIF_SEED", 1))
	n := vEnvInt("VERIF_N", 100)
	out := newVOut("C17cl", "From V Require Import Base.Common Model.C03_Alloc Model.C04_ClusterOps Model.C14_Backup Model.C17_Members Model.C17_Cluster Model.C17_ClusterCheck.\nOpen Scope N_scope.",
		"case", "Definition R := Eval vm_compute in failing cases.\nPrint R.")
	out.idBase += 800000 // the raft-package harness of C17 numbers its cases from 0
	defer out.close()
	defer func() {
		if vc17Dirs != nil {
			os.RemoveAll(vc17Dirs.root)
		}
	}()
	var cases []vC17Case
	if raw := vCasesIn(); raw != nil {
		for _, b := range raw {
			var c vC17Case
			if err := json.Unmarshal(b, &c); err != nil {
				t.Fatal(err)
			}
			cases = append(cases, c)
		}
	} else {
		r := newVRand(seed*1000003 + 17)
		for i := 0; i < n; i++ {
			cases = append(cases, vC17Gen(r.fork()))
		}
		cases = append(cases, vC17RaftScripts(newVRand(seed*7919+17), vEnvInt("VERIF_C17_RAFT", -1))...)
	}
	for i := range cases {
		c := &cases[i]
		c.normalise()
		vCaseStart(c)
		var obs *vC17Obs
		var term string
		var pan interface{}
		if c.Kind == "raft" {
			obs, term, pan = vC17RunRaft(c)
		} else {
			obs, term, pan = vC17RunFake(c)
		}
		if pan != nil {
			b, _ := json.Marshal(map[string]interface{}{"signature": "panic", "detail": fmt.Sprint(pan), "case": map[string]interface{}{"input": c}})
			fmt.Printf("VERIF-DIRECT-VIOLATION %s\n", b)
			continue
		}
		if obs == nil {
			if term == "setup" {
				out.count("raft_rig_setup_failed")
			} else {
				out.count("raft_entry_not_delivered_to_removed_peer")
			}
			continue
		}
		out.count("kind_" + c.Kind)
		out.count(fmt.Sprintf("members_%d", len(c.Members)))
		removes, held, selfrm, failed, stopped, cleaned := 0, 0, 0, 0, 0, 0
		for k, op := range c.Ops {
			out.count("op_" + op.Op)
			if op.Op == "remove" {
				removes++
				if op.At == op.Target {
					selfrm++
				}
				if k < len(obs.Ops) && obs.Ops[k].Err {
					failed++
				}
				for _, e := range obs.Ops[k].Entries {
					if e.Kind == "pin" {
						held++
					}
				}
			}
		}
		for _, f := range obs.Finals {
			if f.Removed {
				stopped++
			}
			if f.Cleans > 0 {
				cleaned++
			}
		}
		if selfrm > 0 {
			out.count("self_removal")
		}
		if failed > 0 {
			out.count("remove_failed")
		}
		if held > 0 {
			out.count("remove_rehomed_some_pin")
		}
		if stopped > 0 {
			out.count("some_peer_removed_itself")
		}
		if cleaned > 0 {
			out.count("some_peer_cleaned")
		}
		nontriv := len(c.Members) >= 2 && removes >= 1 && (held > 0 || stopped > 0)
		out.add(term, c, obs, nontriv)
	}
	vCaseDone()
}
