//go:build verif

package ipfscluster

// C18 stress scenario for the cluster facade: "reading alerts while alerts arrive".

import (
	"context"
	"strconv"
	"sync/atomic"
	"time"

	"github.com/ipfs/ipfs-cluster/api"
	"github.com/ipfs/ipfs-cluster/test"

	logging "github.com/ipfs/go-log/v2"
	rpc "github.com/libp2p/go-libp2p-gorpc"
)

// case ids of this package start here (one runner evidence table for all packages)
// directory of this package inside the repository (race signatures are made relative to the repository root)
const vC18PkgDir = ""

const vC18IDBase = 0

var vC18Plan = []vC18Scen{
	{Name: "alerts", Ms: 900, Workers: 6},
	{Name: "alerts-first", Ms: 500, Workers: 4},
	{Name: "alerts-reset", Ms: 700, Workers: 4},
}

var vC18Scenarios = map[string]func(x *vC18Ctx){
	"alerts":       func(x *vC18Ctx) { vC18Alerts(x, 0, 0, 0) },
	"alerts-first": func(x *vC18Ctx) { vC18Alerts(x, 300, 0, 40) },
	"alerts-reset": func(x *vC18Ctx) { vC18Alerts(x, 0, maxAlerts-5, maxAlerts+12) },
}

// a monitor that only delivers the alerts the scenario feeds it
type vC18Monitor struct{ alerts chan *api.Alert }

func (m *vC18Monitor) SetClient(*rpc.Client)                               {}
func (m *vC18Monitor) Shutdown(context.Context) error                      { return nil }
func (m *vC18Monitor) LogMetric(context.Context, *api.Metric) error        { return nil }
func (m *vC18Monitor) PublishMetric(context.Context, *api.Metric) error    { return nil }
func (m *vC18Monitor) LatestMetrics(context.Context, string) []*api.Metric { return nil }
func (m *vC18Monitor) MetricNames(context.Context) []string                { return nil }
func (m *vC18Monitor) Alerts() <-chan *api.Alert                           { return m.alerts }

// The real alertsHandler goroutine records alerts 1,2,3,... (non-ping alerts: recorded, nothing else is
// triggered) while readers call Alerts(). Every returned list must be the reverse of a contiguous stretch
// of the alerts recorded so far: no empty entry, no duplicate, no gap. pauseUs > 0 slows the feeder down;
// restartAt > 0 starts over with a fresh cluster once that many alerts exist (so that many reads meet the
// very first alerts, or the reset above maxAlerts); prefill = alerts already recorded when a round starts.
func vC18Alerts(x *vC18Ctx, pauseUs, prefill, restartAt int) {
	logging.SetLogLevel("cluster", "FATAL")
	x.deadline = time.Now().Add(time.Duration(x.scen.Ms) * time.Millisecond)
	type inst struct {
		c      *Cluster
		mon    *vC18Monitor
		cancel func()
		done   chan struct{}
	}
	start := func() *inst {
		ctx, cancel := context.WithCancel(context.Background())
		mon := &vC18Monitor{alerts: make(chan *api.Alert, 64)}
		pre := []api.Alert{}
		for id := 1; id <= prefill; id++ {
			pre = append(pre, api.Alert{Metric: api.Metric{Name: "vc18", Peer: test.PeerID1, Value: strconv.Itoa(id), Valid: true}})
		}
		in := &inst{c: &Cluster{ctx: ctx, cancel: cancel, config: &Config{}, monitor: mon, alerts: pre}, mon: mon, cancel: cancel, done: make(chan struct{})}
		go func() { defer close(in.done); x.once("alertsHandler", in.c.alertsHandler) }()
		return in
	}
	var cur atomic.Value
	cur.Store(start())
	id := prefill
	x.loop("alert", 0, func(r *vRand, i int) {
		in := cur.Load().(*inst)
		if restartAt > 0 && id >= restartAt {
			in.cancel()
			select {
			case <-in.done:
			case <-time.After(10 * time.Second):
				x.stat(1, 1) // the handler does not stop
			}
			in = start()
			cur.Store(in)
			id = prefill
		}
		id++
		a := &api.Alert{Metric: api.Metric{Name: "vc18", Peer: test.PeerID1, Value: strconv.Itoa(id), Valid: true}, TriggeredAt: time.Now()}
		select {
		case in.mon.alerts <- a:
		case <-time.After(5 * time.Second):
			x.stat(0, 1) // the handler stopped taking alerts
		}
		if pauseUs > 0 && id > prefill+3 {
			time.Sleep(time.Duration(pauseUs) * time.Microsecond)
		}
	})
	for k := 1; k < x.scen.Workers; k++ {
		x.loop("Alerts", k, func(r *vRand, i int) {
			as := cur.Load().(*inst).c.Alerts()
			ids := make([]int, len(as))
			for i, a := range as {
				ids[i], _ = strconv.Atoi(a.Value) // an empty entry gives 0
			}
			x.view(ids)
		})
	}
	x.wait()
	cur.Load().(*inst).cancel()
}
