//go:build verif

package ipfscluster

// C07 correspondence, root package: the real newRPCServer on a &Cluster{} literal (host A), real gorpc
// clients on A itself and on two remote hosts, every endpoint found by reflection on the service objects
// x caller x trust configuration. Observation: rpc.IsAuthorizationError or anything else.

import (
	"context"
	"encoding/json"
	"fmt"
	"reflect"
	"sort"
	"strings"
	"testing"
	"time"

	"github.com/ipfs/ipfs-cluster/allocator/ascendalloc"
	"github.com/ipfs/ipfs-cluster/api"
	"github.com/ipfs/ipfs-cluster/consensus/crdt"
	"github.com/ipfs/ipfs-cluster/consensus/raft"
	"github.com/ipfs/ipfs-cluster/datastore/inmem"
	"github.com/ipfs/ipfs-cluster/pstoremgr"
	"github.com/ipfs/ipfs-cluster/test"
	"github.com/ipfs/ipfs-cluster/version"

	cid "github.com/ipfs/go-cid"
	libp2p "github.com/libp2p/go-libp2p"
	host "github.com/libp2p/go-libp2p-core/host"
	peer "github.com/libp2p/go-libp2p-core/peer"
	peerstore "github.com/libp2p/go-libp2p-core/peerstore"
	rpc "github.com/libp2p/go-libp2p-gorpc"
	dual "github.com/libp2p/go-libp2p-kad-dht/dual"
	pubsub "github.com/libp2p/go-libp2p-pubsub"
)

// peers are indices: 0 = the called peer A, 1 and 2 = the remote callers B and C, 3.. = peers that never call
const vC07NPeers = 6

type vC07Op struct {
	Trust bool `json:"trust"`
	Peer  int  `json:"peer"`
}

// one case = one RPC (Kind "auth"), or one static observation (Kind "methods" | "policy" | "valid")
type vC07Case struct {
	Kind   string   `json:"kind"`
	Mode   string   `json:"mode"` // raft | crdt
	Star   bool     `json:"star"`
	List   []int    `json:"list"`
	Hist   []vC07Op `json:"hist"`
	Caller int      `json:"caller"`
	Ep     string   `json:"ep"`
	// booleans of Config read where the RPC server / client are built or by the endpoints themselves
	Tracing  bool `json:"tracing,omitempty"`
	Follower bool `json:"follower,omitempty"`
	// Kind "effects": what the call does on the called peer. PeerArg: the peer.ID argument (Cluster.PeerAdd):
	// 0 = the called peer itself, 1 = the caller (its Cluster.ID call-back succeeds), 2 = a peer nobody can reach
	PeerArg int `json:"peerarg,omitempty"`
	// Kind "authseq": on ONE environment (fresh, Hist applied), Caller calls Ep, later Trust / Distrust calls are made on the
	// called peer's consensus component, the same caller calls the same endpoint again, ...
	Seq []vC07SeqStep `json:"seq,omitempty"`
}

// Op: "trust" | "distrust" (of Peer) | anything else = the call
type vC07SeqStep struct {
	Op   string `json:"op"`
	Peer int    `json:"peer,omitempty"`
}

func (c *vC07Case) norm() {
	clamp := func(i int) int {
		if i < 0 {
			return 0
		}
		if i >= vC07NPeers {
			return vC07NPeers - 1
		}
		return i
	}
	for i := range c.List {
		c.List[i] = clamp(c.List[i])
	}
	for i := range c.Hist {
		c.Hist[i].Peer = clamp(c.Hist[i].Peer)
	}
	for i := range c.Seq {
		c.Seq[i].Peer = clamp(c.Seq[i].Peer)
	}
	if c.Caller < 0 || c.Caller > 2 {
		c.Caller = 2
	}
	if c.Mode != "raft" {
		c.Mode = "crdt"
	}
	if c.Kind == "" {
		c.Kind = "auth"
	}
}

func (c *vC07Case) envKey() string {
	b, _ := json.Marshal([]interface{}{c.Mode, c.Star, c.List, c.Hist, c.Tracing, c.Follower})
	return string(b)
}

func (c *vC07Case) coqMode() string {
	if c.Mode == "raft" {
		return "MRaft"
	}
	return fmt.Sprintf("(MCrdt %s %s %s)", cqBool(c.Star), cqListN(c.List), vC07CoqHist(c.Hist))
}

func vC07CoqHist(h []vC07Op) string {
	xs := make([]string, len(h))
	for i, o := range h {
		if o.Trust {
			xs[i] = fmt.Sprintf("TTrust %d", o.Peer)
		} else {
			xs[i] = fmt.Sprintf("TDistrust %d", o.Peer)
		}
	}
	return cqList(xs)
}

// ---------------------------------------------------------------------------------------------------
type vC07Env struct {
	ctx     context.Context
	cancel  func()
	hostA   host.Host
	cl      *Cluster
	cons    *vC07Cons
	crdtc   *crdt.Consensus
	ids     []peer.ID // index -> peer id
	clients []*rpc.Client
}

var vC07Remote []host.Host // B, C
var vC07RemoteSrv []*rpc.Server

func vC07NewHost(t *testing.T) host.Host {
	h, err := libp2p.New(context.Background(), libp2p.ListenAddrStrings("/ip4/127.0.0.1/tcp/0"))
	if err != nil {
		t.Fatal(err)
	}
	return h
}

func vC07NewEnv(t *testing.T, c *vC07Case) *vC07Env {
	ctx, cancel := context.WithCancel(context.Background())
	e := &vC07Env{ctx: ctx, cancel: cancel}
	e.hostA = vC07NewHost(t)
	for len(vC07Remote) < 2 {
		h := vC07NewHost(t)
		// the remote callers answer the Cluster.ID call-back of the join handshake (nothing else)
		srv := rpc.NewServer(h, version.RPCProtocol)
		if err := srv.RegisterName("Cluster", &vC07Callback{id: h.ID()}); err != nil {
			t.Fatal(err)
		}
		vC07Remote = append(vC07Remote, h)
		vC07RemoteSrv = append(vC07RemoteSrv, srv)
	}
	vPeerUniverse(vC07NPeers)
	e.ids = []peer.ID{e.hostA.ID(), vC07Remote[0].ID(), vC07Remote[1].ID()}
	for i := 3; i < vC07NPeers; i++ {
		e.ids = append(e.ids, vPeers[i])
	}

	// the configuration as a peer gets it: defaults (this is where RPCPolicy comes from)
	cfg := &Config{}
	if err := cfg.Default(); err != nil {
		t.Fatal(err)
	}
	cfg.Peername = "vC07"
	cfg.Tracing = c.Tracing
	cfg.FollowerMode = c.Follower

	var trust vC07TrustSrc
	if c.Mode == "raft" {
		trust = &raft.Consensus{} // IsTrustedPeer / Trust / Distrust of the real component
	} else {
		// the real CRDT component on host A, configured through its JSON form ("*" = trust all)
		ccfg := &crdt.Config{}
		ccfg.Default()
		tp := []string{}
		for _, i := range c.List {
			tp = append(tp, peer.Encode(e.ids[i]))
		}
		if c.Star {
			tp = append(tp, "*")
		}
		raw, _ := json.Marshal(map[string]interface{}{"cluster_name": "vc07", "trusted_peers": tp})
		if err := ccfg.LoadJSON(raw); err != nil {
			t.Fatal(err)
		}
		psub, err := pubsub.NewGossipSub(ctx, e.hostA, pubsub.WithMessageSigning(true), pubsub.WithStrictSignatureVerification(true))
		if err != nil {
			t.Fatal(err)
		}
		idht, err := dual.New(ctx, e.hostA)
		if err != nil {
			t.Fatal(err)
		}
		cc, err := crdt.New(e.hostA, idht, psub, ccfg, inmem.New())
		if err != nil {
			t.Fatal(err)
		}
		e.crdtc = cc
		trust = cc
	}
	e.cons = newVC07Cons(e.hostA.ID(), trust)
	mon := &vC07Mon{newVMonitor()}
	ipfsFake := &vC07IPFS{self: e.hostA.ID()}
	e.cl = &Cluster{
		ctx:         ctx,
		cancel:      cancel,
		id:          e.hostA.ID(),
		config:      cfg,
		host:        e.hostA,
		peerManager: pstoremgr.New(ctx, e.hostA, ""),
		consensus:   e.cons,
		ipfs:        ipfsFake,
		tracker:     &vC07Tracker{self: e.hostA.ID()},
		monitor:     mon,
		allocator:   ascendalloc.NewAllocator(),
		informers:   []Informer{&vC07Informer{"vmetric", ipfsFake}},
		readyCh:     make(chan struct{}),
		doneCh:      make(chan struct{}),
	}
	// server and client exactly as NewCluster builds them (setupRPC -> newRPCServer)
	if err := e.cl.setupRPC(); err != nil {
		t.Fatal(err)
	}
	if e.crdtc != nil {
		// the component finishes its set-up (configured trusted peers -> trust cache) once it has a client
		e.crdtc.SetClient(e.cl.rpcClient)
		select {
		case <-e.crdtc.Ready(ctx):
		case <-time.After(60 * time.Second):
			t.Fatal("crdt consensus not ready")
		}
	}
	for _, o := range c.Hist {
		if o.Trust {
			e.cons.Trust(ctx, e.ids[o.Peer])
		} else {
			e.cons.Distrust(ctx, e.ids[o.Peer])
		}
	}
	e.clients = []*rpc.Client{e.cl.rpcClient}
	for _, h := range vC07Remote {
		h.Peerstore().AddAddrs(e.hostA.ID(), e.hostA.Addrs(), peerstore.PermanentAddrTTL)
		e.clients = append(e.clients, rpc.NewClient(h, version.RPCProtocol))
	}
	return e
}

func (e *vC07Env) close() {
	if e.crdtc != nil {
		e.crdtc.Shutdown(context.Background())
	}
	e.cancel()
	e.hostA.Close()
}

// the endpoints the server offers, by reflection on the registered objects (as isRPCPolicyValid does)
type vC07Endpoint struct {
	svc, method string
	arg, reply  reflect.Type
}

func vC07Endpoints(c *Cluster) map[string]vC07Endpoint {
	out := map[string]vC07Endpoint{}
	for _, o := range []interface{}{&ClusterRPCAPI{c}, &PinTrackerRPCAPI{c.tracker}, &IPFSConnectorRPCAPI{c.ipfs},
		&ConsensusRPCAPI{c.consensus}, &PeerMonitorRPCAPI{c.monitor}} {
		t := reflect.TypeOf(o)
		for i := 0; i < t.NumMethod(); i++ {
			m := t.Method(i)
			ep := vC07Endpoint{svc: RPCServiceID(o), method: m.Name}
			if m.Type.NumIn() == 4 {
				ep.arg, ep.reply = m.Type.In(2), m.Type.In(3)
			}
			out[ep.svc+"."+ep.method] = ep
		}
	}
	return out
}

// a benign, well-formed argument of the type the endpoint takes
func (e *vC07Env) arg(t reflect.Type) interface{} {
	self := e.hostA.ID()
	switch t {
	case reflect.TypeOf(struct{}{}):
		return struct{}{}
	case reflect.TypeOf(&api.Pin{}):
		p := api.PinCid(test.Cid1)
		p.ReplicationFactorMin, p.ReplicationFactorMax = -1, -1
		return p
	case reflect.TypeOf(&api.PinPath{}):
		pp := &api.PinPath{Path: "/ipfs/" + test.Cid1.String()}
		pp.ReplicationFactorMin, pp.ReplicationFactorMax = -1, -1
		return pp
	case reflect.TypeOf(cid.Cid{}):
		return test.Cid1
	case reflect.TypeOf(peer.ID("")):
		return self
	case reflect.TypeOf(api.Multiaddr{}):
		addrs, _ := peer.AddrInfoToP2pAddrs(&peer.AddrInfo{ID: self, Addrs: e.hostA.Addrs()})
		return api.NewMultiaddrWithValue(addrs[0])
	case reflect.TypeOf(api.TrackerStatus(0)):
		return api.TrackerStatusUndefined
	case reflect.TypeOf(""):
		return "ping"
	case reflect.TypeOf(&api.NodeWithMeta{}):
		return &api.NodeWithMeta{Cid: test.Cid1, Data: []byte("x")}
	}
	if t == nil {
		return struct{}{}
	}
	if t.Kind() == reflect.Ptr {
		return reflect.New(t.Elem()).Interface()
	}
	return reflect.Zero(t).Interface()
}

// returns passed (= not an authorization error) and a short class of what came back
func (e *vC07Env) call(t *testing.T, caller int, name string, ep vC07Endpoint) (bool, string) {
	return e.callArg(t, caller, name, ep, 0)
}

// the peer.ID argument of variant peerArg (see vC07Case.PeerArg)
func (e *vC07Env) peerArg(caller, peerArg int) peer.ID {
	switch peerArg {
	case 1:
		return e.ids[caller]
	case 2:
		return e.ids[vC07NPeers-1]
	}
	return e.hostA.ID()
}

func (e *vC07Env) callArg(t *testing.T, caller int, name string, ep vC07Endpoint, peerArg int) (bool, string) {
	var reply interface{} = &struct{}{}
	if ep.reply != nil && ep.reply.Kind() == reflect.Ptr {
		reply = reflect.New(ep.reply.Elem()).Interface()
	}
	ctx, cancel := context.WithTimeout(e.ctx, 60*time.Second)
	defer cancel()
	parts := strings.SplitN(name, ".", 2)
	arg := e.arg(ep.arg)
	if ep.arg == reflect.TypeOf(peer.ID("")) && peerArg != 0 {
		arg = e.peerArg(caller, peerArg)
	}
	err := e.clients[caller].CallContext(ctx, e.hostA.ID(), parts[0], parts[1], arg, reply)
	if ctx.Err() != nil {
		t.Fatalf("RPC %s from caller %d did not return", name, caller)
	}
	switch {
	case err == nil:
		return true, "ok"
	case rpc.IsAuthorizationError(err):
		return false, "authorization"
	case rpc.IsServerError(err):
		return true, "server-error"
	case rpc.IsClientError(err):
		// the stream could not be opened or was reset: not an answer of the peer at all
		t.Fatalf("RPC %s from caller %d: client error %v", name, caller, err)
	}
	return true, "method-error"
}

// one call with the recorder on: passed, class, and the component calls it caused on the called peer. A caller that is not
// trusted gets a short settling time after the answer, for effects a handler would start in the background.
func (e *vC07Env) callRecorded(t *testing.T, caller int, name string, ep vC07Endpoint, peerArg int) (bool, string, []string) {
	vC07Rec.start()
	passed, class := e.callArg(t, caller, name, ep, peerArg)
	if caller != 0 && passed && !e.cons.trust.IsTrustedPeer(e.ctx, e.ids[caller]) {
		time.Sleep(20 * time.Millisecond)
	}
	return passed, class, vC07Rec.stop()
}

func (e *vC07Env) addEffects(out *vOut, c vC07Case, name string, peerArg int, class string, effs []string) {
	one := c
	one.Kind, one.Ep, one.PeerArg = "effects", name, peerArg
	xs := make([]string, len(effs))
	for i, s := range effs {
		xs[i] = cqStr(s)
	}
	out.count(fmt.Sprintf("effects/%s/arg%d/%d", name, peerArg, len(effs)))
	out.add(fmt.Sprintf("CEffects %s %d %s %s", one.coqMode(), c.Caller, cqStr(name), cqList(xs)),
		one, map[string]interface{}{"class": class, "effects": effs}, true)
}

// ---------------------------------------------------------------------------------------------------
func vC07Grid(seed uint64, n int) []vC07Case {
	type tc struct {
		mode string
		star bool
		list []int
		hist []vC07Op
	}
	cfgs := []tc{
		{"raft", false, nil, nil},
		{"crdt", false, []int{1}, nil},  // explicit list: B trusted, C not
		{"crdt", false, []int{}, nil},   // empty list
		{"crdt", true, []int{}, nil},    // "*"
		{"crdt", false, []int{1}, []vC07Op{{true, 2}}},             // after Trust(C)
		{"crdt", false, []int{1}, []vC07Op{{true, 2}, {false, 1}}}, // after Distrust(B)
	}
	// generated configurations (n of them)
	r := newVRand(seed)
	for k := 0; k < n; k++ {
		c := tc{mode: "crdt", star: r.chance(10), list: []int{}}
		for p := 0; p < vC07NPeers; p++ {
			if r.chance(35) {
				c.list = append(c.list, p)
			}
		}
		for i, m := 0, r.rng(0, 6); i < m; i++ {
			c.hist = append(c.hist, vC07Op{Trust: r.chance(50), Peer: r.rng(0, 3)})
		}
		cfgs = append(cfgs, c)
	}
	var out []vC07Case
	out = append(out, vC07Case{Kind: "methods", Mode: "raft"}, vC07Case{Kind: "policy", Mode: "raft"}, vC07Case{Kind: "valid", Mode: "raft"})
	for i, c := range cfgs {
		// the fixed configurations under every combination of the flags, the generated ones under a random one
		flags := [][2]bool{{false, false}, {true, false}, {false, true}, {true, true}}
		if i >= 6 {
			flags = [][2]bool{{r.chance(50), r.chance(30)}}
		}
		for _, f := range flags {
			for caller := 0; caller < 3; caller++ {
				out = append(out, vC07Case{Kind: "authall", Mode: c.mode, Star: c.star, List: c.list, Hist: c.hist, Caller: caller,
					Tracing: f[0], Follower: f[1]})
			}
		}
	}
	out = append(out, vC07SeqCases(seed, n)...)
	return out
}

// call sequences with trust changes in between (kind "authseq"). Trust can change in crdt mode with an explicit list only
// (raft trusts everyone, "*" trusts everyone): mostly that; Trust->Distrust, Distrust->Trust, operations on another peer.
func vC07SeqCases(seed uint64, n int) []vC07Case {
	call, tr, dis := vC07SeqStep{Op: "call"}, "trust", "distrust"
	op := func(o string, p int) vC07SeqStep { return vC07SeqStep{Op: o, Peer: p} }
	var out []vC07Case
	add := func(mode string, star bool, list []int, caller int, ep string, seq ...vC07SeqStep) {
		out = append(out, vC07Case{Kind: "authseq", Mode: mode, Star: star, List: list, Caller: caller, Ep: ep, Seq: seq})
	}
	for _, ep := range []string{"Consensus.LogPin", "PinTracker.StatusAll", "Cluster.Peers", "IPFSConnector.BlockPut", "Cluster.ID", "Cluster.Pins"} {
		// let in while trusted, then distrusted (must be refused), then trusted again
		add("crdt", false, []int{1}, 1, ep, call, op(dis, 1), call, op(tr, 1), call)
		// refused while not trusted, then trusted (must be let in), then distrusted again
		add("crdt", false, []int{}, 2, ep, call, op(tr, 2), call, op(dis, 2), call)
	}
	// operations on somebody else change nothing for the caller
	add("crdt", false, []int{1}, 1, "PinTracker.Status", call, op(dis, 2), op(tr, 2), call)
	add("crdt", false, []int{1}, 2, "PinTracker.Status", call, op(dis, 1), op(tr, 3), call)
	// raft and "*": Distrust changes nothing
	add("raft", false, []int{}, 1, "Consensus.LogPin", call, op(dis, 1), call)
	add("crdt", true, []int{}, 2, "Consensus.LogUnpin", call, op(dis, 2), call)
	// the peer itself, distrusted: its own calls are never authorized at all
	add("crdt", false, []int{}, 0, "Cluster.Pins", call, op(dis, 0), call)

	var trusted, open, closed []string
	for k, v := range DefaultRPCPolicy {
		switch v {
		case RPCTrusted:
			trusted = append(trusted, k)
		case RPCOpen:
			open = append(open, k)
		default:
			closed = append(closed, k)
		}
	}
	sort.Strings(trusted)
	sort.Strings(open)
	sort.Strings(closed)
	pick := func(r *vRand, l []string) string {
		if len(l) == 0 {
			return "Cluster.Version"
		}
		return l[r.intn(len(l))]
	}
	r := newVRand(seed*0x9E3779B97F4A7C15 + 0xC07D)
	for k := 0; k < 5*n; k++ {
		c := vC07Case{Kind: "authseq", Mode: "crdt", List: []int{}, Caller: r.rng(1, 2)}
		switch {
		case r.chance(6):
			c.Mode = "raft"
		case r.chance(8):
			c.Star = true
		}
		for p := 1; p <= 3; p++ {
			if r.chance(45) {
				c.List = append(c.List, p)
			}
		}
		for i, m := 0, r.rng(0, 2); i < m; i++ {
			c.Hist = append(c.Hist, vC07Op{Trust: r.chance(50), Peer: r.rng(0, 3)})
		}
		switch x := r.intn(100); {
		case x < 70:
			c.Ep = pick(r, trusted)
		case x < 85:
			c.Ep = pick(r, open)
		default:
			c.Ep = pick(r, closed)
		}
		c.Tracing, c.Follower = r.chance(30), r.chance(20)
		c.Seq = []vC07SeqStep{call}
		for round, rounds := 0, r.rng(1, 3); round < rounds; round++ {
			for i, m := 0, r.rng(0, 2); i < m; i++ {
				who := c.Caller // mostly about the caller itself
				if r.chance(25) {
					who = r.rng(0, 3)
				}
				c.Seq = append(c.Seq, op([]string{tr, dis}[r.intn(2)], who))
			}
			c.Seq = append(c.Seq, call)
		}
		out = append(out, c)
	}
	return out
}

func TestVerifC07(t *testing.T) {
	seed := uint64(vEnvInt("VERIF_SEED", 1))
	n := vEnvInt("VERIF_N", 2)
	out := newVOut("C07", "From Coq Require Import String.\nFrom V Require Import Base.Common Base.Rpc Model.C07_Auth Model.C07_Check.\nOpen Scope string_scope.\nOpen Scope N_scope.",
		"(N * c07case)", "Definition R := Eval vm_compute in failing cases.\nPrint R.")
	defer out.close()
	var cases []vC07Case
	if raw := vCasesIn(); raw != nil {
		for _, b := range raw {
			var c vC07Case
			if err := json.Unmarshal(b, &c); err != nil {
				t.Fatal(err)
			}
			cases = append(cases, c)
		}
	} else {
		cases = vC07Grid(seed, n)
	}
	var env *vC07Env
	envKey := ""
	defer func() {
		if env != nil {
			env.close()
		}
	}()
	for _, c := range cases {
		c.norm()
		if c.Kind == "authseq" {
			envKey = "" // its own environment, shared with nothing before or after (the Trust / Distrust calls change it)
		}
		if env == nil || envKey == "" || envKey != c.envKey() {
			if env != nil {
				env.close()
			}
			env = vC07NewEnv(t, &c)
			envKey = c.envKey()
			if c.Kind == "authseq" {
				envKey = ""
			}
		}
		eps := vC07Endpoints(env.cl)
		names := make([]string, 0, len(eps))
		for k := range eps {
			names = append(names, k)
		}
		sort.Strings(names)
		switch c.Kind {
		case "methods":
			xs := make([]string, len(names))
			for i, s := range names {
				xs[i] = cqStr(s)
			}
			out.add("CMethods "+cqList(xs), c, names, true)
		case "policy":
			var ks []string
			for k := range env.cl.config.RPCPolicy {
				ks = append(ks, k)
			}
			sort.Strings(ks)
			xs := make([]string, len(ks))
			for i, k := range ks {
				xs[i] = fmt.Sprintf("(%s, %s)", cqStr(k), []string{"Closed", "Trusted", "Open"}[int(env.cl.config.RPCPolicy[k])%3])
			}
			out.add("CPolicy "+cqList(xs), c, len(ks), true)
		case "valid":
			ok := isRPCPolicyValid(env.cl.config.RPCPolicy) == nil && env.cl.config.Validate() == nil
			out.add("CPolicyValid "+cqBool(ok), c, ok, true)
		case "authall", "auth":
			todo := names
			if c.Kind == "auth" {
				todo = []string{c.Ep}
			}
			for _, name := range todo {
				ep, known := eps[name]
				if !known { // an endpoint name the peer does not offer (hand-made replay input): nothing to observe
					out.count("unknown-endpoint")
					continue
				}
				passed, class, effs := env.callRecorded(t, c.Caller, name, ep, 0)
				one := c
				one.Kind, one.Ep = "auth", name
				out.count(fmt.Sprintf("%s/tracing=%v/caller%d/%s", c.Mode, c.Tracing, c.Caller, class))
				out.add(fmt.Sprintf("CAuth %s %d %s %s", one.coqMode(), c.Caller, cqStr(name), cqBool(passed)),
					one, map[string]interface{}{"passed": passed, "class": class}, true)
				// what the call DID, when a remote caller that is not trusted was let in
				if c.Kind == "authall" && c.Caller != 0 && passed && !env.cons.trust.IsTrustedPeer(env.ctx, env.ids[c.Caller]) {
					env.addEffects(out, c, name, 0, class, effs)
					if ep.arg == reflect.TypeOf(peer.ID("")) {
						for _, pa := range []int{1, 2} { // the join handshake with a peer that answers the call-back, and one that does not
							p2, class2, effs2 := env.callRecorded(t, c.Caller, name, ep, pa)
							if p2 {
								env.addEffects(out, c, name, pa, class2, effs2)
							}
						}
					}
				}
			}
		case "authseq":
			ep, known := eps[c.Ep]
			if !known {
				out.count("unknown-endpoint")
				continue
			}
			// crdt Trust / Distrust store into / delete from the component's sync.Map before they return, raft's do nothing: the
			// next call sees the new state, nothing to wait for
			var steps, shape []string
			var obs []bool
			ncalls, changes := 0, false
			for _, st := range c.Seq {
				switch st.Op {
				case "trust":
					env.cons.Trust(env.ctx, env.ids[st.Peer])
					steps = append(steps, fmt.Sprintf("SOp (TTrust %d)", st.Peer))
					shape = append(shape, "T")
					changes = changes || ncalls > 0
				case "distrust":
					env.cons.Distrust(env.ctx, env.ids[st.Peer])
					steps = append(steps, fmt.Sprintf("SOp (TDistrust %d)", st.Peer))
					shape = append(shape, "D")
					changes = changes || ncalls > 0
				default:
					passed, _ := env.call(t, c.Caller, c.Ep, ep)
					obs = append(obs, passed)
					steps = append(steps, "SCall "+cqBool(passed))
					shape = append(shape, map[bool]string{true: "+", false: "-"}[passed])
					ncalls++
				}
			}
			out.count(fmt.Sprintf("authseq/%s/%s", c.Mode, strings.Join(shape, "")))
			out.add(fmt.Sprintf("CAuthSeq %s %d %s %s", c.coqMode(), c.Caller, cqStr(c.Ep), cqList(steps)),
				c, map[string]interface{}{"passed": obs}, changes && ncalls > 1)
		case "effects":
			ep, known := eps[c.Ep]
			if !known || c.Caller == 0 {
				out.count("unknown-endpoint")
				continue
			}
			if c.PeerArg < 0 || c.PeerArg > 2 {
				c.PeerArg = 0
			}
			passed, class, effs := env.callRecorded(t, c.Caller, c.Ep, ep, c.PeerArg)
			if passed {
				env.addEffects(out, c, c.Ep, c.PeerArg, class, effs)
			}
		}
	}
}
