//go:build verif

package ipfscluster

// C17 probe (not part of the check; run by hand: -test.run TestVerifC17ProbeShutdownVsWatcher): Cluster.Shutdown holds
// shutdownLock from its first line to its last and ends with c.wg.Wait(); watchPeers, once it sees that this peer is no longer
// in the peerset, blocks on the same lock before it returns. When the watcher's tick falls between the moment the peer left
// the peerset and the moment the consensus component is shut down (Peers() then errors), the two wait for each other.
// The probe makes that window wide: the fake's RmPeer(self) - called by Shutdown because of LeaveOnShutdown - returns only
// after the watcher has looked at the new peerset.

import (
	"context"
	"fmt"
	"os"
	"testing"
	"time"

	"github.com/ipfs/ipfs-cluster/datastore/inmem"
	"github.com/ipfs/ipfs-cluster/state/dsstate"

	peer "github.com/libp2p/go-libp2p-core/peer"
)

type vC17SlowView struct {
	*vC17View
	looked chan struct{}
	armed  bool
}

func (v *vC17SlowView) Peers(ctx context.Context) ([]peer.ID, error) {
	ps, err := v.vC17View.Peers(ctx)
	v.mu.Lock()
	armed := v.armed
	v.mu.Unlock()
	if armed && err == nil && !vc17In(vIdxList(ps), v.self) {
		select {
		case v.looked <- struct{}{}:
		default:
		}
	}
	return ps, err
}

func (v *vC17SlowView) RmPeer(ctx context.Context, pid peer.ID) error {
	err := v.vC17View.RmPeer(ctx, pid)
	if vPeerIdx(pid) == v.self {
		v.mu.Lock()
		v.armed = true
		v.mu.Unlock()
		select {
		case <-v.looked: // the watcher has seen the peerset without this peer
			time.Sleep(20 * time.Millisecond)
		case <-time.After(5 * time.Second):
		}
	}
	return err
}

func TestVerifC17ProbeShutdownVsWatcher(t *testing.T) {
	if os.Getenv("VERIF_C17_PROBE") == "" {
		t.Skip("probe: set VERIF_C17_PROBE=1")
	}
	vc04Quiet()
	vPeerUniverse(10)
	vc04Universe()
	scratch := vc17GetScratch()
	defer os.RemoveAll(scratch.root)
	st, err := dsstate.New(inmem.New(), "", dsstate.DefaultHandle())
	if err != nil {
		t.Fatal(err)
	}
	c := &vC17Case{Kind: "fake", DefMin: 1, DefMax: 1, Members: []int{0, 1}}
	c.normalise()
	c.Peers[0].Leave = true
	cons := &vC17Cons{st: st, peers: []int{0, 1}, failc: map[int]bool{}, idOk: true, scratch: scratch}
	rg := &vC17Rig{c: c, cons: cons, base: scratch.caseDir(), cls: make([]*Cluster, vc17NPeers), views: make([]*vC17View, vc17NPeers),
		ipfs: &vIPFS{resolve: map[string]int{}, links: map[int]vC04Link{}}, t0: time.Now()}
	for i := 0; i < vc17NPeers; i++ {
		cfg := vc17RaftCfg(rg.base, i, 1)
		rg.cfgs = append(rg.cfgs, cfg)
		os.MkdirAll(cfg.GetDataFolder(), 0700)
	}
	rg.start(0, true)
	// swap in the slow view before anything happens
	slow := &vC17SlowView{vC17View: rg.views[0], looked: make(chan struct{}, 1)}
	rg.cls[0].shutdownLock.Lock()
	rg.cls[0].consensus = slow
	rg.cls[0].shutdownLock.Unlock()
	time.Sleep(5 * vc17Tick)
	done := make(chan error, 1)
	go func() { done <- rg.cls[0].Shutdown(context.Background()) }()
	select {
	case err := <-done:
		fmt.Println("PROBE shutdown returned:", err)
	case <-time.After(8 * time.Second):
		fmt.Println("PROBE DEADLOCK: Cluster.Shutdown (LeaveOnShutdown) has not returned after 8 s; watchPeers is blocked on shutdownLock, Shutdown on wg.Wait()")
	}
}
