//go:build verif

package ipfscluster

import (
	"context"
	"encoding/json"
	"fmt"
	"testing"

	"github.com/ipfs/ipfs-cluster/allocator/ascendalloc"
	"github.com/ipfs/ipfs-cluster/allocator/descendalloc"
	"github.com/ipfs/ipfs-cluster/api"
	"github.com/ipfs/ipfs-cluster/test"
)

type vC03Case struct {
	Rmin      int            `json:"rmin"`
	Rmax      int            `json:"rmax"`
	Current   []int          `json:"current"`
	Metrics   []vMetricState `json:"metrics"`
	Blacklist []int          `json:"blacklist"`
	Priority  []int          `json:"priority"`
	Rev       bool           `json:"rev"`
	HasPin    bool           `json:"has_pin"`
}

func vC03Gen(r *vRand) vC03Case {
	np := r.rng(1, 8)
	c := vC03Case{Rev: r.chance(50), HasPin: true}
	tie := r.chance(25)
	for p := 0; p < np; p++ {
		st := 1
		switch x := r.intn(100); {
		case x < 55:
			st = 1
		case x < 67:
			st = 0
		case x < 79:
			st = 2
		case x < 90:
			st = 3
		default:
			st = 4
		}
		v := r.intn(1000)*10 + p // distinct by construction
		if tie {
			v = r.intn(3)
		}
		c.Metrics = append(c.Metrics, vMetricState{Peer: p, State: st, Value: v})
	}
	// shuffle arrival order
	for i := len(c.Metrics) - 1; i > 0; i-- {
		j := r.intn(i + 1)
		c.Metrics[i], c.Metrics[j] = c.Metrics[j], c.Metrics[i]
	}
	sub := func(pct int) []int {
		out := []int{}
		for p := 0; p < np; p++ {
			if r.chance(pct) {
				out = append(out, p)
			}
		}
		// random order
		for i := len(out) - 1; i > 0; i-- {
			j := r.intn(i + 1)
			out[i], out[j] = out[j], out[i]
		}
		return out
	}
	c.Current = sub(r.rng(0, 70))
	if r.chance(15) {
		c.Current = []int{}
		c.HasPin = r.chance(50)
	}
	c.Blacklist = sub(r.rng(0, 30))
	c.Priority = sub(r.rng(0, 50))
	// factors around the interesting counts
	switch x := r.intn(100); {
	case x < 6:
		c.Rmin, c.Rmax = -1, -1
	case x < 9:
		c.Rmin, c.Rmax = 0, 0
	default:
		c.Rmin = r.rng(1, np+1)
		c.Rmax = c.Rmin + r.intn(np+2-c.Rmin+1)
		if r.chance(30) {
			c.Rmax = c.Rmin
		}
	}
	return c
}

func vC03Run(c vC03Case) (ok bool, res []int, errs string) {
	mon := newVMonitor()
	mon.load("vmetric", c.Metrics)
	cl := &Cluster{monitor: mon, informers: []Informer{&vInformer{"vmetric"}}}
	if c.Rev {
		cl.allocator = descendalloc.NewAllocator()
	} else {
		cl.allocator = ascendalloc.NewAllocator()
	}
	var cur *api.Pin
	if c.HasPin {
		cur = api.PinCid(test.Cid1)
		cur.Allocations = vPeerList(c.Current)
	}
	out, err := cl.allocate(context.Background(), test.Cid1, cur, c.Rmin, c.Rmax, vPeerList(c.Blacklist), vPeerList(c.Priority))
	if err != nil {
		return false, nil, err.Error()
	}
	return true, vIdxList(out), ""
}

func TestVerifC03(t *testing.T) {
	vPeerUniverse(10)
	seed := uint64(vEnvInt("VERIF_SEED", 1))
	n := vEnvInt("VERIF_N", 300)
	out := newVOut("C03", "From V Require Import Base.Common Model.C03_Alloc Model.C03_Check.\nOpen Scope N_scope.",
		"case", "Definition R := Eval vm_compute in failing cases.\nPrint R.")
	defer out.close()
	var cases []vC03Case
	if raw := vCasesIn(); raw != nil {
		for _, b := range raw {
			var c vC03Case
			if err := json.Unmarshal(b, &c); err != nil {
				t.Fatal(err)
			}
			cases = append(cases, c)
		}
	} else {
		r := newVRand(seed)
		for i := 0; i < n; i++ {
			cases = append(cases, vC03Gen(r))
		}
	}
	for _, c := range cases {
		if !c.HasPin {
			c.Current = []int{}
		}
		ok, res, e := vC03Run(c)
		obs := "ObsErr"
		if ok {
			obs = "ObsOk " + cqListN(res)
			out.count("ok")
		} else {
			out.count("err")
		}
		term := fmt.Sprintf("(0%%Z, mk_input %s %s %s %s %s %s %s, %s)", cqZ(int64(c.Rmin)), cqZ(int64(c.Rmax)),
			cqListN(c.Current), vCoqMetrics(c.Metrics), cqListN(c.Blacklist), cqListN(c.Priority), cqBool(c.Rev), obs)
		nontriv := c.Rmin > 0 && c.Rmax >= c.Rmin && len(c.Metrics) > 1
		out.add(term, c, map[string]interface{}{"ok": ok, "alloc": res, "err": e}, nontriv)
	}
}
