//go:build verif

package ipfscluster

// Rig shared by the C04 and C10 harnesses: fake Consensus over the real dsstate on a MapDatastore,
// fake IPFS connector (Resolve, BlockGet), CID / origin universes, api.Pin <-> index form, Coq printers.
// Injected by overlay; never part of /repo.

import (
	"context"
	"errors"
	"fmt"
	"sort"
	"strings"
	"sync"
	"time"

	"github.com/ipfs/ipfs-cluster/api"
	"github.com/ipfs/ipfs-cluster/state"
	"github.com/ipfs/ipfs-cluster/state/dsstate"

	cid "github.com/ipfs/go-cid"
	ds "github.com/ipfs/go-datastore"
	dssync "github.com/ipfs/go-datastore/sync"
	cbor "github.com/ipfs/go-ipld-cbor"
	logging "github.com/ipfs/go-log/v2"
	peer "github.com/libp2p/go-libp2p-core/peer"
	rpc "github.com/libp2p/go-libp2p-gorpc"
	ma "github.com/multiformats/go-multiaddr"
	mh "github.com/multiformats/go-multihash"
)

func vc04Quiet() {
	logging.SetAllLoggers(logging.LevelFatal)
}

// ---- universes ----
var vc04Cids []cid.Cid // index k (1-based) -> vc04Cids[k-1]
var vc04Origins []ma.Multiaddr

func vc04Universe() {
	for len(vc04Cids) < 9 {
		h, err := mh.Sum([]byte(fmt.Sprintf("verif-cid-%d", len(vc04Cids)+1)), mh.SHA2_256, -1)
		if err != nil {
			panic(err)
		}
		vc04Cids = append(vc04Cids, cid.NewCidV1(cid.Raw, h))
	}
	for len(vc04Origins) < 4 {
		a, err := ma.NewMultiaddr(fmt.Sprintf("/ip4/10.0.0.%d/tcp/4001", len(vc04Origins)+1))
		if err != nil {
			panic(err)
		}
		vc04Origins = append(vc04Origins, a)
	}
}

func vc04Cid(k int) cid.Cid {
	if k < 1 || k > len(vc04Cids) {
		k = 1
	}
	return vc04Cids[k-1]
}
func vc04CidIdx(c cid.Cid) int {
	for i, x := range vc04Cids {
		if x.Equals(c) {
			return i + 1
		}
	}
	return 0
}
func vc04OriginIdx(a ma.Multiaddr) int {
	for i, x := range vc04Origins {
		if x.Equal(a) {
			return i + 1
		}
	}
	return 0
}
func vc04Name(k int) string {
	if k <= 0 {
		return ""
	}
	return fmt.Sprintf("n%d", k)
}
func vc04Str(prefix string, k int) string {
	if k <= 0 {
		return ""
	}
	return fmt.Sprintf("%s%d", prefix, k)
}
func vc04StrIdx(prefix, s string) int {
	if s == "" {
		return 0
	}
	var k int
	if _, err := fmt.Sscanf(s, prefix+"%d", &k); err != nil {
		return 999
	}
	return k
}

// ---- index form of options / pins (JSON input and observation) ----
type vC04Opts struct {
	Rmin    int      `json:"rmin"`
	Rmax    int      `json:"rmax"`
	Name    int      `json:"name"`
	Mode    int      `json:"mode"`
	Shard   int      `json:"shard"`
	UAlloc  []int    `json:"ualloc"`
	HasExp  bool     `json:"has_exp"`
	ExpS    int64    `json:"exp_s"` // seconds relative to the start of the history
	ExpNs   int      `json:"exp_ns"`
	Meta    [][2]int `json:"meta"` // key, value (0 = empty string); keys unique
	Update  int      `json:"update"` // 0 = unset
	Origins []int    `json:"origins"`
}

type vC04Pin struct {
	Opts   vC04Opts `json:"opts"`
	Cid    int      `json:"cid"`
	Type   int      `json:"type"` // 0 bad 1 data 2 meta 3 clusterdag 4 shard
	Allocs []int    `json:"allocs"`
	Depth  int      `json:"depth"`
	Ref    int      `json:"ref"` // 0 = nil
}

func (o *vC04Opts) normalise(npeers int) {
	if o.Name < 0 {
		o.Name = 0
	}
	if o.Mode < 0 {
		o.Mode = 0
	}
	if o.Shard < 0 {
		o.Shard = 0
	}
	o.UAlloc = vc04Clamp(o.UAlloc, 0, npeers-1)
	o.Origins = vc04Clamp(o.Origins, 1, 4)
	if o.ExpNs < 0 || o.ExpNs > 999999999 {
		o.ExpNs = 0
	}
	if o.Update < 0 || o.Update > len(vc04Cids) {
		o.Update = 0
	}
	seen := map[int]bool{}
	var m [][2]int
	for _, kv := range o.Meta {
		if kv[0] < 0 || kv[1] < 0 || seen[kv[0]] {
			continue
		}
		seen[kv[0]] = true
		m = append(m, kv)
	}
	sort.Slice(m, func(i, j int) bool { return m[i][0] < m[j][0] })
	o.Meta = m
}

func vc04Clamp(xs []int, lo, hi int) []int {
	out := []int{}
	for _, x := range xs {
		if x >= lo && x <= hi {
			out = append(out, x)
		}
	}
	return out
}

func (o vC04Opts) toAPI(t0 time.Time) api.PinOptions {
	po := api.PinOptions{
		ReplicationFactorMin: o.Rmin,
		ReplicationFactorMax: o.Rmax,
		Name:                 vc04Name(o.Name),
		Mode:                 api.PinMode(o.Mode),
		ShardSize:            uint64(o.Shard),
	}
	if len(o.UAlloc) > 0 {
		po.UserAllocations = vPeerList(o.UAlloc)
	}
	if o.HasExp {
		po.ExpireAt = t0.Add(time.Duration(o.ExpS)*time.Second + time.Duration(o.ExpNs))
	}
	if len(o.Meta) > 0 {
		po.Metadata = map[string]string{}
		for _, kv := range o.Meta {
			po.Metadata[vc04Str("k", kv[0])] = vc04Str("v", kv[1])
		}
	}
	if o.Update != 0 {
		po.PinUpdate = vc04Cid(o.Update)
	}
	for _, g := range o.Origins {
		po.Origins = append(po.Origins, vc04Origins[g-1])
	}
	return po
}

var vc04Types = []api.PinType{api.BadType, api.DataType, api.MetaType, api.ClusterDAGType, api.ShardType}

func (p vC04Pin) toAPI(t0 time.Time) *api.Pin {
	out := &api.Pin{PinOptions: p.Opts.toAPI(t0), Cid: vc04Cid(p.Cid), Type: vc04Types[p.Type], MaxDepth: api.PinDepth(p.Depth)}
	if len(p.Allocs) > 0 {
		out.Allocations = vPeerList(p.Allocs)
	}
	if p.Ref != 0 {
		r := vc04Cid(p.Ref)
		out.Reference = &r
	}
	return out
}

func vc04FromAPI(p *api.Pin, t0 time.Time) vC04Pin {
	o := vC04Opts{Rmin: p.ReplicationFactorMin, Rmax: p.ReplicationFactorMax, Name: vc04StrIdx("n", p.Name), Mode: int(p.Mode),
		Shard: int(p.ShardSize), UAlloc: vIdxList(p.UserAllocations), Origins: []int{}}
	if !p.ExpireAt.IsZero() {
		o.HasExp = true
		d := p.ExpireAt.Sub(t0)
		s := int64(d / time.Second)
		ns := int64(d % time.Second)
		if ns < 0 {
			s--
			ns += int64(time.Second)
		}
		o.ExpS, o.ExpNs = s, int(ns)
	}
	for k, v := range p.Metadata {
		o.Meta = append(o.Meta, [2]int{vc04StrIdx("k", k), vc04StrIdx("v", v)})
	}
	sort.Slice(o.Meta, func(i, j int) bool { return o.Meta[i][0] < o.Meta[j][0] })
	if p.PinUpdate != cid.Undef {
		o.Update = vc04CidIdx(p.PinUpdate)
	}
	for _, g := range p.Origins {
		o.Origins = append(o.Origins, vc04OriginIdx(g))
	}
	out := vC04Pin{Opts: o, Cid: vc04CidIdx(p.Cid), Allocs: vIdxList(p.Allocations), Depth: int(p.MaxDepth)}
	switch p.Type {
	case api.DataType:
		out.Type = 1
	case api.MetaType:
		out.Type = 2
	case api.ClusterDAGType:
		out.Type = 3
	case api.ShardType:
		out.Type = 4
	default:
		out.Type = 0
	}
	if p.Reference != nil {
		out.Ref = vc04CidIdx(*p.Reference)
	}
	return out
}

// ---- Coq printers ----
func vc04CoqOptN(k int) string {
	if k == 0 {
		return "None"
	}
	return fmt.Sprintf("(Some %d%%N)", k)
}
func vc04CoqListN(xs []int) string {
	s := make([]string, len(xs))
	for i, x := range xs {
		s[i] = fmt.Sprintf("%d%%N", x)
	}
	return "[" + strings.Join(s, "; ") + "]"
}
func (o vC04Opts) coq() string {
	exp := "None"
	if o.HasExp {
		exp = fmt.Sprintf("(Some (%s, %d%%N))", cqZ(o.ExpS), o.ExpNs)
	}
	var m []string
	for _, kv := range o.Meta {
		m = append(m, fmt.Sprintf("(%d%%N, %d%%N)", kv[0], kv[1]))
	}
	return fmt.Sprintf("(mk_opts %s %s %d%%N %d%%N %d%%N %s %s %s %s %s)", cqZ(int64(o.Rmin)), cqZ(int64(o.Rmax)), o.Name, o.Mode, o.Shard,
		vc04CoqListN(o.UAlloc), exp, cqList(m), vc04CoqOptN(o.Update), vc04CoqListN(o.Origins))
}

var vc04TypeNames = []string{"BadT", "DataT", "MetaT", "ClusterDAGT", "ShardT"}

func (p vC04Pin) coq() string {
	return fmt.Sprintf("(mk_pin %s %d%%N %s %s %s %s)", p.Opts.coq(), p.Cid, vc04TypeNames[p.Type], vc04CoqListN(p.Allocs),
		cqZ(int64(p.Depth)), vc04CoqOptN(p.Ref))
}

// ---- fake consensus over the real dsstate ----
type vCons struct {
	mu      sync.Mutex
	st      *dsstate.State
	peers   []peer.ID
	untrust map[peer.ID]bool
	logs    []string // "pin <cid idx> by <peer idx>" / "unpin ..."
	who     int
}

func newVCons() *vCons {
	st, err := dsstate.New(dssync.MutexWrap(ds.NewMapDatastore()), "", dsstate.DefaultHandle())
	if err != nil {
		panic(err)
	}
	return &vCons{st: st, untrust: map[peer.ID]bool{}}
}

// a per-cluster view of the shared consensus that tags log calls with the caller
type vConsView struct {
	*vCons
	self int
}

func (c *vConsView) LogPin(ctx context.Context, p *api.Pin) error {
	c.mu.Lock()
	c.logs = append(c.logs, fmt.Sprintf("pin %d by %d", vc04CidIdx(p.Cid), c.self))
	c.mu.Unlock()
	return c.st.Add(ctx, p)
}
func (c *vConsView) LogUnpin(ctx context.Context, p *api.Pin) error {
	c.mu.Lock()
	c.logs = append(c.logs, fmt.Sprintf("unpin %d by %d", vc04CidIdx(p.Cid), c.self))
	c.mu.Unlock()
	return c.st.Rm(ctx, p.Cid)
}
func (c *vCons) SetClient(*rpc.Client)                               {}
func (c *vCons) Shutdown(context.Context) error                      { return nil }
func (c *vCons) Ready(context.Context) <-chan struct{}               { ch := make(chan struct{}); close(ch); return ch }
func (c *vCons) AddPeer(context.Context, peer.ID) error              { return nil }
func (c *vCons) RmPeer(context.Context, peer.ID) error               { return nil }
func (c *vCons) State(context.Context) (state.ReadOnly, error)       { return c.st, nil }
func (c *vCons) Leader(context.Context) (peer.ID, error)             { return "", errors.New("no leader") }
func (c *vCons) WaitForSync(context.Context) error                   { return nil }
func (c *vCons) Clean(context.Context) error                         { return nil }
func (c *vCons) Peers(context.Context) ([]peer.ID, error)            { return c.peers, nil }
func (c *vCons) IsTrustedPeer(ctx context.Context, p peer.ID) bool   { return !c.untrust[p] }
func (c *vCons) Trust(context.Context, peer.ID) error                { return nil }
func (c *vCons) Distrust(context.Context, peer.ID) error             { return nil }
func (c *vCons) takeLogs() []string {
	c.mu.Lock()
	defer c.mu.Unlock()
	l := c.logs
	c.logs = nil
	if l == nil {
		l = []string{}
	}
	return l
}

// ---- fake IPFS connector: Resolve and BlockGet only ----
type vC04Link struct {
	Cid   int   `json:"cid"`
	Links []int `json:"links"`
	Bad   bool  `json:"bad"` // block present but undecodable
}

type vIPFS struct {
	resolve map[string]int
	links   map[int]vC04Link
}

var errVResolve = errors.New("vresolve: cannot resolve path")

func vc04Path(k int) string { return fmt.Sprintf("/ipfs/verif-path-%d", k) }

func (f *vIPFS) SetClient(*rpc.Client)                                        {}
func (f *vIPFS) Shutdown(context.Context) error                               { return nil }
func (f *vIPFS) ID(context.Context) (*api.IPFSID, error)                      { return &api.IPFSID{}, nil }
func (f *vIPFS) Pin(context.Context, *api.Pin) error                          { return nil }
func (f *vIPFS) Unpin(context.Context, cid.Cid) error                         { return nil }
func (f *vIPFS) PinLsCid(context.Context, *api.Pin) (api.IPFSPinStatus, error) { return api.IPFSPinStatusUnpinned, nil }
func (f *vIPFS) PinLs(context.Context, string) (map[string]api.IPFSPinStatus, error) {
	return map[string]api.IPFSPinStatus{}, nil
}
func (f *vIPFS) ConnectSwarms(context.Context) error                   { return nil }
func (f *vIPFS) SwarmPeers(context.Context) ([]peer.ID, error)         { return nil, nil }
func (f *vIPFS) ConfigKey(string) (interface{}, error)                 { return nil, errors.New("no config") }
func (f *vIPFS) RepoStat(context.Context) (*api.IPFSRepoStat, error)   { return &api.IPFSRepoStat{}, nil }
func (f *vIPFS) RepoGC(context.Context) (*api.RepoGC, error)           { return &api.RepoGC{}, nil }
func (f *vIPFS) BlockPut(context.Context, *api.NodeWithMeta) error     { return nil }
func (f *vIPFS) Resolve(ctx context.Context, path string) (cid.Cid, error) {
	if k, ok := f.resolve[path]; ok {
		return vc04Cid(k), nil
	}
	return cid.Undef, errVResolve
}
func (f *vIPFS) BlockGet(ctx context.Context, c cid.Cid) ([]byte, error) {
	l, ok := f.links[vc04CidIdx(c)]
	if !ok {
		return nil, errors.New("vblockget: block not found")
	}
	if l.Bad {
		return []byte("this is not cbor \xff\xff"), nil
	}
	obj := map[string]cid.Cid{}
	for i, k := range l.Links {
		obj[fmt.Sprintf("%d", i)] = vc04Cid(k)
	}
	n, err := cbor.WrapObject(obj, mh.SHA2_256, -1)
	if err != nil {
		return nil, err
	}
	return n.RawData(), nil
}

// ---- error classes (never messages) ----
func vc04ErrClass(err error, unpinCall bool) string {
	if err == nil {
		return ""
	}
	if err == errFollowerMode {
		return "EFollower"
	}
	if err == state.ErrNotFound {
		return "ENotFound"
	}
	if err == errVResolve {
		return "EResolve"
	}
	m := err.Error()
	has := func(s string) bool { return strings.Contains(m, s) }
	switch {
	case has("cluster.replication_factor"):
		return "EBadFactors"
	case has("pin.ExpireAt set before current time"):
		return "EExpired"
	case has("cannot repin CID with different tracking method"):
		return "ETypeChange"
	case has("already pinned in recursive mode"):
		return "EDowngrade"
	case has("cannot unpin a shard directly"), has("cannot unpin a Cluster DAG directly"):
		return "EUnpinType"
	case has("unrecognized pin type"):
		if unpinCall {
			return "EUnpinType"
		}
		return "EPinType"
	case has("data pins should not reference"), has("must pin shards go depth 1"), has("must pin roots directly"),
		has("clusterDAG pins should reference"), has("meta pin should not specify allocations"), has("metaPins should reference"):
		return "EPinType"
	case has("not enough peers to allocate"), has("bad replication factors"):
		return "EAlloc"
	case has("this pin type cannot be updated"):
		return "EUpdateType"
	case has("metaPin.Reference is unset"), has("could not get clusterDAG pin"), has("error reading clusterDAG block"),
		has("error parsing clusterDAG block"):
		return "EMeta"
	}
	return "EOther"
}

func vc04Pinset(ctx context.Context, cl *Cluster, t0 time.Time) ([]vC04Pin, error) {
	pins, err := cl.Pins(ctx)
	if err != nil {
		return nil, err
	}
	out := make([]vC04Pin, 0, len(pins))
	for _, p := range pins {
		out = append(out, vc04FromAPI(p, t0))
	}
	sort.Slice(out, func(i, j int) bool { return out[i].Cid < out[j].Cid })
	return out, nil
}

func vc04CoqPins(ps []vC04Pin) string {
	s := make([]string, len(ps))
	for i, p := range ps {
		s[i] = p.coq()
	}
	return cqList(s)
}
