//go:build verif

package ipfscluster

// C09 publish cadence, root package: the real pushPingMetrics / pushInformerMetrics loops of a &Cluster{}
// literal against a recording monitor (with scripted publish errors). Recorded: (time of the attempt,
// Expire stamped on the metric). The model's inequality — every attempt strictly before the previous
// expiry — is evaluated in Coq; a measurement that fails it is repeated up to three times (load tolerance).

import (
	"context"
	"encoding/json"
	"errors"
	"fmt"
	"strings"
	"sync"
	"testing"
	"time"

	"github.com/ipfs/ipfs-cluster/api"

	rpc "github.com/libp2p/go-libp2p-gorpc"
)

type vC09Case struct {
	Kind  string `json:"kind"` // ping | informer
	Ms    int    `json:"ms"`   // ping interval / informer TTL
	Errs  []bool `json:"errs"` // informer: attempt k is made to fail
	DurMs int    `json:"dur_ms"`
}

type vC09Pub struct {
	t, e int64
	err  bool
}

type vC09Mon struct {
	mu    sync.Mutex
	start time.Time
	errs  []bool
	pubs  []vC09Pub
	wall  bool // attempt times on the wall clock (ping) or the monotonic one (informer)
}

func (m *vC09Mon) SetClient(*rpc.Client)                               {}
func (m *vC09Mon) Shutdown(context.Context) error                      { return nil }
func (m *vC09Mon) LogMetric(context.Context, *api.Metric) error        { return nil }
func (m *vC09Mon) LatestMetrics(context.Context, string) []*api.Metric { return nil }
func (m *vC09Mon) MetricNames(context.Context) []string                { return nil }
func (m *vC09Mon) Alerts() <-chan *api.Alert                           { return nil }
func (m *vC09Mon) PublishMetric(_ context.Context, mt *api.Metric) error {
	m.mu.Lock()
	defer m.mu.Unlock()
	k := len(m.pubs)
	fail := k < len(m.errs) && m.errs[k]
	// ping (wall): t on the wall clock, like Expire (api.Metric.Expired compares Expire with the wall clock): time.Since would use the
	// monotonic reading, and a wall clock that is being slewed then makes e-t exceed the TTL asked for by a hair.
	// informer: its schedule clause compares timer intervals, which run on the monotonic clock, so t stays monotonic there
	t := int64(time.Since(m.start))
	if m.wall {
		t = time.Now().UnixNano() - m.start.UnixNano()
	}
	m.pubs = append(m.pubs, vC09Pub{t: t, e: mt.Expire - m.start.UnixNano(), err: fail})
	if fail {
		return errors.New("scripted publish error")
	}
	return nil
}

type vC09Informer struct{ ttl time.Duration }

func (i *vC09Informer) SetClient(*rpc.Client)          {}
func (i *vC09Informer) Shutdown(context.Context) error { return nil }
func (i *vC09Informer) Name() string                   { return "vc09" }
func (i *vC09Informer) GetMetric(context.Context) *api.Metric {
	m := &api.Metric{Name: "vc09", Value: "1", Valid: true}
	m.SetTTL(i.ttl)
	return m
}

// returns the publications and the instant (ns since the start) at which the observation stopped
func vC09Measure(c vC09Case) ([]vC09Pub, int64) {
	mon := &vC09Mon{start: time.Now(), errs: c.Errs, wall: c.Kind == "ping"}
	vPeerUniverse(2)
	cl := &Cluster{id: vPeers[0], monitor: mon, config: &Config{MonitorPingInterval: time.Duration(c.Ms) * time.Millisecond}}
	ctx, cancel := context.WithTimeout(context.Background(), time.Duration(c.DurMs)*time.Millisecond)
	defer cancel()
	done := make(chan struct{})
	go func() {
		defer close(done)
		if c.Kind == "ping" {
			cl.pushPingMetrics(ctx)
		} else {
			cl.pushInformerMetrics(ctx, &vC09Informer{ttl: time.Duration(c.Ms) * time.Millisecond})
		}
	}()
	<-done
	mon.mu.Lock()
	defer mon.mu.Unlock()
	if mon.wall {
		return append([]vC09Pub{}, mon.pubs...), time.Now().UnixNano() - mon.start.UnixNano()
	}
	return append([]vC09Pub{}, mon.pubs...), int64(time.Since(mon.start))
}

func vC09ChainOK(p []vC09Pub) bool {
	if len(p) < 2 {
		return false
	}
	for i := 0; i+1 < len(p); i++ {
		if !(p[i+1].t < p[i].e) {
			return false
		}
	}
	return true
}

// the other clause of ping_okb (Model/C09_Check.v): each metric is still stamped with more than one interval and at most two
// when it reaches PublishMetric. A stall of the test process between SetTTL and PublishMetric longer than the interval makes a
// measurement miss it; such a measurement is repeated (three attempts in all, like a broken chain), a TTL the code stamps too
// short or too long fails all three.
func vC09PingTTLOK(p []vC09Pub, iv int64) bool {
	for _, x := range p {
		if !(x.e-x.t <= 2*iv && iv < x.e-x.t) {
			return false
		}
	}
	return true
}

func (c *vC09Case) norm() {
	if c.Kind != "ping" {
		c.Kind = "informer"
	}
	if c.Ms < 50 {
		c.Ms = 50
	}
	if c.Ms > 2000 {
		c.Ms = 2000
	}
	if c.DurMs < 4*c.Ms {
		c.DurMs = 4 * c.Ms
	}
	if c.DurMs > 10000 {
		c.DurMs = 10000
	}
}

func TestVerifCadenceC09(t *testing.T) {
	seed := uint64(vEnvInt("VERIF_SEED", 1))
	n := vEnvInt("VERIF_N", 5)
	out := newVOut("C09", "From V Require Import Base.Common Model.C09_Metrics Model.C09_Check.\nOpen Scope N_scope.",
		"(N * c09case)", "Definition R := Eval vm_compute in failing cases.\nPrint R.")
	out.idBase += 600000
	defer out.close()
	var cases []vC09Case
	if raw := vCasesIn(); raw != nil {
		for _, b := range raw {
			var c vC09Case
			if err := json.Unmarshal(b, &c); err != nil {
				t.Fatal(err)
			}
			cases = append(cases, c)
		}
	} else {
		r := newVRand(seed)
		cases = append(cases,
			vC09Case{Kind: "ping", Ms: 200, DurMs: 1500},
			// a publish error in the middle: the loop must go on pinging
			vC09Case{Kind: "ping", Ms: 150, Errs: []bool{false, false, true, false, true, true, false}, DurMs: 1800},
			vC09Case{Kind: "informer", Ms: 400, DurMs: 1500},
			vC09Case{Kind: "informer", Ms: 400, Errs: []bool{false, true, false, false, true, false}, DurMs: 1500},
			// an outage: many publish errors in a row (the retry delay must stay a quarter of the time left, whatever their number)
			vC09Case{Kind: "informer", Ms: 400, Errs: []bool{false, true, true, true, true, true, true, false, false}, DurMs: 2200})
		for len(cases) < n {
			c := vC09Case{Kind: "informer", Ms: r.rng(3, 8) * 100, DurMs: 1800}
			if r.chance(35) {
				c.Kind = "ping"
				c.Ms = r.rng(2, 4) * 100
				for k := 0; k < 8; k++ {
					c.Errs = append(c.Errs, r.chance(30))
				}
			} else {
				run := 0 // errors still to come in the current outage
				for k := 0; k < 14; k++ {
					if run == 0 && r.chance(30) {
						run = 1
						if r.chance(40) {
							run = r.rng(2, 6) // several publish errors in a row
						}
					}
					c.Errs = append(c.Errs, run > 0)
					if run > 0 {
						run--
						if run == 0 {
							c.Errs = append(c.Errs, false)
							k++
						}
					}
				}
				c.DurMs = 2400
			}
			cases = append(cases, c)
		}
	}
	res := make([][]vC09Pub, len(cases))
	tends := make([]int64, len(cases))
	tries := make([]int, len(cases))
	var wg sync.WaitGroup
	for i := range cases {
		cases[i].norm()
		wg.Add(1)
		go func(i int) {
			defer wg.Done()
			for a := 1; a <= 3; a++ {
				res[i], tends[i] = vC09Measure(cases[i])
				tries[i] = a
				if vC09ChainOK(res[i]) && len(res[i]) > 0 && tends[i] < res[i][len(res[i])-1].e &&
					(cases[i].Kind != "ping" || vC09PingTTLOK(res[i], int64(cases[i].Ms)*int64(time.Millisecond))) {
					return
				}
			}
		}(i)
	}
	wg.Wait()
	for i, c := range cases {
		var xs []string
		for _, p := range res[i] {
			if c.Kind == "ping" {
				xs = append(xs, fmt.Sprintf("(%s, %s)", cqZ(p.t), cqZ(p.e)))
			} else {
				xs = append(xs, fmt.Sprintf("((%s, %s), %s)", cqZ(p.t), cqZ(p.e), cqBool(p.err)))
			}
		}
		ms := int64(c.Ms) * int64(time.Millisecond)
		term := fmt.Sprintf("CPingE %s [%s] %s", cqZ(ms), strings.Join(xs, "; "), cqZ(tends[i]))
		if c.Kind != "ping" {
			term = fmt.Sprintf("CInformerE %s [%s] %s", cqZ(ms), strings.Join(xs, "; "), cqZ(tends[i]))
		}
		out.count(fmt.Sprintf("cadence/%s/attempts-%d", c.Kind, tries[i]))
		out.add(term, c, map[string]interface{}{"publications": len(res[i]), "measurements": tries[i]}, len(res[i]) >= 3)
	}
}
