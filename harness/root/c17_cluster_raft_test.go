//go:build verif

package ipfscluster

// C17, cluster level, rig B: placeholder until the real-raft rig is in place.

func vC17RaftScripts(r *vRand, n int) []vC17Case { return nil }

func vC17RunRaft(c *vC17Case) (*vC17Obs, string, interface{}) { return vC17RunFake(c) }
