//go:build verif

package ipfscluster

// C17, cluster level, rig B ("raft"): 2..4 peers made by the REAL NewCluster (ready(), run(), watchPeers, the real RPC
// server and client on in-process libp2p hosts) on the REAL raft.Consensus (hashicorp/raft over libp2p, boltdb and the
// file snapshot store in a data folder under .build). The other components are the fakes of rig A. A wrapper around the
// consensus component records, per peer, the completion of every LogPin / LogUnpin / RmPeer / AddPeer and counts Clean.
// Scripts address peers by role (leader / follower) resolved when the operation runs: removal of a follower at the leader,
// of the leader at a follower, of oneself at a follower, of the leader by itself; shutdown of a member that was not removed;
// a new peer joining. Observed as in rig A; the data folders are the ones Raft itself wrote.

import (
	"context"
	"errors"
	"fmt"
	"io/ioutil"
	"os"
	"path/filepath"
	"sort"
	"strconv"
	"sync"
	"time"

	"github.com/ipfs/ipfs-cluster/allocator/ascendalloc"
	"github.com/ipfs/ipfs-cluster/allocator/descendalloc"
	"github.com/ipfs/ipfs-cluster/api"
	"github.com/ipfs/ipfs-cluster/consensus/raft"
	"github.com/ipfs/ipfs-cluster/datastore/inmem"

	libp2p "github.com/libp2p/go-libp2p"
	crypto "github.com/libp2p/go-libp2p-core/crypto"
	host "github.com/libp2p/go-libp2p-core/host"
	peer "github.com/libp2p/go-libp2p-core/peer"
	peerstore "github.com/libp2p/go-libp2p-core/peerstore"
	dual "github.com/libp2p/go-libp2p-kad-dht/dual"
	ma "github.com/multiformats/go-multiaddr"
)

func vc17PrivKey(i int) crypto.PrivKey {
	rd := vDetReader{newVRand(uint64(7000 + i))}
	priv, pub, err := crypto.GenerateEd25519Key(rd)
	if err != nil {
		panic(err)
	}
	id, err := peer.IDFromPublicKey(pub)
	if err != nil || id != vPeers[i] {
		panic("vc17: peer universe and private keys disagree")
	}
	return priv
}

type vC17Rec struct {
	At   int
	Kind string
	Cid  int
	Peer int
	Err  bool
}

type vC17RecCons struct {
	Consensus
	rg   *vC17RaftRig
	self int
}

func (w *vC17RecCons) LogPin(ctx context.Context, p *api.Pin) error {
	err := w.Consensus.LogPin(ctx, p)
	w.rg.record(vC17Rec{At: w.self, Kind: "pin", Cid: vc04CidIdx(p.Cid), Err: err != nil})
	return err
}
func (w *vC17RecCons) LogUnpin(ctx context.Context, p *api.Pin) error {
	err := w.Consensus.LogUnpin(ctx, p)
	w.rg.record(vC17Rec{At: w.self, Kind: "unpin", Cid: vc04CidIdx(p.Cid), Err: err != nil})
	return err
}
func (w *vC17RecCons) RmPeer(ctx context.Context, pid peer.ID) error {
	err := w.Consensus.RmPeer(ctx, pid)
	w.rg.record(vC17Rec{At: w.self, Kind: "rm", Peer: vPeerIdx(pid), Err: err != nil})
	return err
}
func (w *vC17RecCons) AddPeer(ctx context.Context, pid peer.ID) error {
	err := w.Consensus.AddPeer(ctx, pid)
	w.rg.record(vC17Rec{At: w.self, Kind: "add", Peer: vPeerIdx(pid), Err: err != nil})
	return err
}
func (w *vC17RecCons) Clean(ctx context.Context) error {
	err := w.Consensus.Clean(ctx)
	if err == nil {
		w.rg.mu.Lock()
		w.rg.cleans[w.self]++
		w.rg.mu.Unlock()
	}
	return err
}

type vC17RPeer struct {
	idx  int
	h    host.Host
	cl   *Cluster
	rec  *vC17RecCons
	rcfg *raft.Config
}

type vC17RaftRig struct {
	c      *vC17Case
	base   string
	mu     sync.Mutex
	recs   []vC17Rec
	cleans [vc17NPeers]int
	peers  [vc17NPeers]*vC17RPeer
	rcfgs  [vc17NPeers]*raft.Config
	t0     time.Time
}

func (rg *vC17RaftRig) record(r vC17Rec) {
	rg.mu.Lock()
	rg.recs = append(rg.recs, r)
	rg.mu.Unlock()
}

func (rg *vC17RaftRig) running(i int) bool {
	p := rg.peers[i]
	if p == nil || p.cl == nil {
		return false
	}
	select {
	case <-p.cl.Done():
		return false
	default:
		return true
	}
}

func (rg *vC17RaftRig) runningList() []int {
	out := []int{}
	for i := 0; i < vc17NPeers; i++ {
		if rg.running(i) {
			out = append(out, i)
		}
	}
	return out
}

func (rg *vC17RaftRig) startPeer(i int, initPeers []int, staging bool) {
	c := rg.c
	bg := context.Background()
	h, err := libp2p.New(bg, libp2p.Identity(vc17PrivKey(i)), libp2p.ListenAddrStrings("/ip4/127.0.0.1/tcp/0"))
	if err != nil {
		panic(err)
	}
	for j := 0; j < vc17NPeers; j++ {
		if q := rg.peers[j]; q != nil && j != i && rg.running(j) {
			h.Peerstore().AddAddrs(q.h.ID(), q.h.Addrs(), peerstore.PermanentAddrTTL)
			q.h.Peerstore().AddAddrs(h.ID(), h.Addrs(), peerstore.PermanentAddrTTL)
		}
	}
	rcfg := rg.rcfgs[i]
	rcfg.InitPeerset = vPeerList(initPeers)
	cons, err := raft.NewConsensus(h, rcfg, inmem.New(), staging)
	if err != nil {
		h.Close()
		panic(err)
	}
	p := &vC17RPeer{idx: i, h: h, rcfg: rcfg}
	p.rec = &vC17RecCons{Consensus: cons, rg: rg, self: i}
	cfg := &Config{}
	if err := cfg.Default(); err != nil {
		panic(err)
	}
	cfg.Peername = fmt.Sprintf("vc17-%d", i)
	cfg.SetBaseDir(filepath.Join(rg.base, fmt.Sprintf("p%d", i)))
	cfg.MDNSInterval = 0
	cfg.PeerWatchInterval = 60 * time.Millisecond
	cfg.MonitorPingInterval = time.Hour
	cfg.LeaveOnShutdown = c.Peers[i].Leave
	cfg.DisableRepinning = c.Peers[i].NoRepin
	cfg.FollowerMode = c.Peers[i].Fol
	cfg.ReplicationFactorMin = c.DefMin
	cfg.ReplicationFactorMax = c.DefMax
	mon := newVMonitor()
	mon.peers = func() ([]peer.ID, error) { return cons.Peers(bg) }
	mon.load("vmetric", c.Metrics)
	var alloc PinAllocator = ascendalloc.NewAllocator()
	if c.Rev {
		alloc = descendalloc.NewAllocator()
	}
	var d *dual.DHT
	if staging {
		d, err = dual.New(bg, h)
		if err != nil {
			panic(err)
		}
	}
	cl, err := NewCluster(bg, h, d, cfg, inmem.New(), p.rec, nil, &vIPFS{resolve: map[string]int{}, links: map[int]vC04Link{}},
		&vC17Tracker{}, mon, alloc, []Informer{&vInformer{"vmetric"}}, &vC17Tracer{})
	if err != nil {
		cons.Shutdown(bg)
		h.Close()
		panic(err)
	}
	p.cl = cl
	rg.peers[i] = p
}

func vc17WaitCh(ch <-chan struct{}, d time.Duration) bool {
	select {
	case <-ch:
		return true
	case <-time.After(d):
		return false
	}
}

func vc17SameInts(a, b []int) bool {
	if len(a) != len(b) {
		return false
	}
	for i := range a {
		if a[i] != b[i] {
			return false
		}
	}
	return true
}

// the peerset as the running members report it, once they all agree (sorted indices); nil if they never do
func (rg *vC17RaftRig) agreedPeers(d time.Duration) []int {
	deadline := time.Now().Add(d)
	for {
		var ref []int
		ok := true
		if len(rg.runningList()) == 0 {
			return nil // nobody left to ask
		}
		for i := 0; i < vc17NPeers; i++ {
			if !rg.running(i) {
				continue
			}
			ps, err := rg.peers[i].rec.Consensus.Peers(context.Background())
			if err != nil {
				continue // shutting down
			}
			l := vIdxList(ps)
			sort.Ints(l)
			if !vc17In(l, i) {
				continue // a removed peer that has not stopped yet
			}
			if ref == nil {
				ref = l
			} else if !vc17SameInts(ref, l) {
				ok = false
			}
		}
		if ref != nil && ok {
			// every listed running peer has reported the same list
			return ref
		}
		if time.Now().After(deadline) {
			return ref
		}
		time.Sleep(20 * time.Millisecond)
	}
}

// the pinset once all running members serve the same one
func (rg *vC17RaftRig) agreedPinset(members []int, d time.Duration, prev []vC04Pin) []vC04Pin {
	deadline := time.Now().Add(d)
	last := prev // nobody left to ask: the pinset is what it was
	for {
		var ref []vC04Pin
		ok := true
		asked := 0
		for _, i := range members {
			if !rg.running(i) {
				continue
			}
			asked++
			ps, err := vc04Pinset(context.Background(), rg.peers[i].cl, rg.t0)
			if err != nil {
				ok = false
				continue
			}
			if ref == nil {
				ref = ps
			} else if fmt.Sprint(ref) != fmt.Sprint(ps) {
				ok = false
			}
		}
		if ref != nil {
			last = ref
		}
		if (ref != nil && ok) || asked == 0 || time.Now().After(deadline) {
			if last == nil {
				last = []vC04Pin{}
			}
			return last
		}
		time.Sleep(20 * time.Millisecond)
	}
}

func (rg *vC17RaftRig) leader(d time.Duration) int {
	deadline := time.Now().Add(d)
	for {
		for i := 0; i < vc17NPeers; i++ {
			if rg.running(i) {
				if l, err := rg.peers[i].rec.Consensus.Leader(context.Background()); err == nil && l == vPeers[i] {
					return i
				}
			}
		}
		if time.Now().After(deadline) {
			return -1
		}
		time.Sleep(20 * time.Millisecond)
	}
}

// roles: 100 = the leader, 101.. = the running members that are not the leader, in index order; 0..4 = that peer
func (rg *vC17RaftRig) resolve(role int, members []int) int {
	if role < 100 {
		return role
	}
	l := rg.leader(20 * time.Second)
	if role == 100 {
		if l < 0 {
			return members[0]
		}
		return l
	}
	var fs []int
	for _, m := range members {
		if m != l && rg.running(m) {
			fs = append(fs, m)
		}
	}
	if len(fs) == 0 {
		return members[0]
	}
	return fs[(role-101)%len(fs)]
}

func vC17RunRaft(c *vC17Case) (obs *vC17Obs, term string, panicked interface{}) {
	defer func() {
		if r := recover(); r != nil {
			panicked = r
		}
	}()
	bg := context.Background()
	scratch := vc17GetScratch()
	rg := &vC17RaftRig{c: c, base: scratch.caseDir(), t0: time.Unix(time.Now().Unix(), 0)}
	defer func() {
		for i := 0; i < vc17NPeers; i++ {
			if p := rg.peers[i]; p != nil {
				if rg.running(i) {
					p.cl.Shutdown(bg)
				}
				p.rec.Consensus.Shutdown(bg)
				p.h.Close()
			}
		}
		os.RemoveAll(rg.base)
	}()
	obs = &vC17Obs{}
	for i := 0; i < vc17NPeers; i++ {
		rcfg := vc17RaftCfg(rg.base, i, c.Peers[i].Keep)
		rcfg.WaitForLeaderTimeout = 20 * time.Second
		rcfg.NetworkTimeout = 3 * time.Second
		rcfg.CommitRetries = 1
		rcfg.CommitRetryDelay = 100 * time.Millisecond
		rcfg.RaftConfig.HeartbeatTimeout = 200 * time.Millisecond
		rcfg.RaftConfig.ElectionTimeout = 200 * time.Millisecond
		rcfg.RaftConfig.LeaderLeaseTimeout = 200 * time.Millisecond
		rcfg.RaftConfig.CommitTimeout = 10 * time.Millisecond
		rcfg.RaftConfig.SnapshotInterval = time.Hour
		rg.rcfgs[i] = rcfg
		df := rcfg.GetDataFolder()
		if err := os.MkdirAll(filepath.Dir(df), 0700); err != nil {
			panic(err)
		}
		scratch.makeFolder(df, i+1, false)
		for _, k := range c.Peers[i].Olds {
			scratch.makeFolder(fmt.Sprintf("%s.old.%d", df, k), 100+10*i+k, k%2 == 0)
		}
		obs.Listing0 = append(obs.Listing0, vc17Listing(df))
	}
	members := append([]int{}, c.Members...)
	sort.Ints(members)
	for _, m := range members {
		rg.startPeer(m, members, false)
	}
	for _, m := range members {
		if !vc17WaitCh(rg.peers[m].cl.Ready(), 40*time.Second) {
			// the rig could not be set up (no election within 40 s on a loaded machine): nothing of the property has been exercised
			return nil, "setup", nil
		}
	}
	ld := rg.leader(20 * time.Second)
	if ld < 0 {
		return nil, "setup", nil
	}
	for _, p := range c.Pins {
		if err := rg.peers[ld].rec.Consensus.LogPin(bg, p.toAPI(rg.t0)); err != nil {
			panic(err)
		}
	}
	obs.Initial = rg.agreedPinset(members, 20*time.Second, nil)
	pinsNow := obs.Initial
	peersNow := append([]int{}, members...)
	outs := make([]int, len(c.Ops))
	resolved := make([]vC17Op, len(c.Ops))
	for k, op := range c.Ops {
		outs[k] = 3
		at := rg.resolve(op.At, members)
		target := rg.resolve(op.Target, members)
		ro := op
		ro.At, ro.Target = at, target
		resolved[k] = ro
		rg.mu.Lock()
		mark := len(rg.recs)
		rg.mu.Unlock()
		var operr error
		recAt := at
		switch op.Op {
		case "remove":
			if rg.peers[at] == nil {
				operr = errVC17Down
			} else {
				operr = rg.peers[at].cl.PeerRemove(bg, vPeers[target])
			}
		case "shutdown":
			if rg.peers[at] != nil {
				operr = rg.peers[at].cl.Shutdown(bg)
			}
		case "pin":
			if rg.peers[at] == nil {
				operr = errVC17Down
			} else {
				_, operr = rg.peers[at].cl.Pin(bg, vc04Cid(op.Cid), api.PinOptions{ReplicationFactorMin: op.Rmin, ReplicationFactorMax: op.Rmax})
			}
		case "join":
			// a new peer (staging Raft) joins through `target`
			recAt = target
			if rg.peers[at] != nil || rg.peers[target] == nil {
				operr = errors.New("vc17: join skipped")
			} else {
				rg.startPeer(at, nil, true)
				via := rg.peers[target].h
				addr, err := ma.NewMultiaddr(fmt.Sprintf("%s/p2p/%s", via.Addrs()[0], via.ID().Pretty()))
				if err != nil {
					panic(err)
				}
				operr = rg.peers[at].cl.Join(bg, addr)
				if operr == nil {
					vc17WaitCh(rg.peers[at].cl.Ready(), 40*time.Second)
				}
			}
		default:
			operr = errors.New("vc17: operation not available on the raft rig")
		}
		// quiescence: the members agree on the peerset; every running peer outside it is given time to stop itself
		after := rg.agreedPeers(30 * time.Second)
		if after == nil {
			after = peersNow
		}
		for i := 0; i < vc17NPeers; i++ {
			if rg.running(i) && !vc17In(after, i) {
				if !vc17WaitCh(rg.peers[i].cl.Done(), 40*time.Second) {
					// the removed peer still reports itself a member: hashicorp/raft sends the entry to a removed server on a
					// best-effort basis only (the stated assumption of this property); such a run says nothing
					if ps, err := rg.peers[i].rec.Consensus.Peers(bg); err == nil && vc17In(vIdxList(ps), i) {
						return nil, "", nil
					}
				}
			}
		}
		oo := vC17OpObs{Err: operr != nil, Entries: []vC17Entry{}, Peers: after}
		rg.mu.Lock()
		for _, r := range rg.recs[mark:] {
			if r.At != recAt {
				continue
			}
			switch r.Kind {
			case "pin", "unpin":
				if !r.Err {
					oo.Entries = append(oo.Entries, vC17Entry{Op: k, Kind: r.Kind, Cid: r.Cid, By: at})
				}
			case "rm":
				if vc17In(peersNow, r.Peer) && !vc17In(after, r.Peer) {
					oo.Entries = append(oo.Entries, vC17Entry{Op: k, Kind: "rm", Peer: r.Peer})
				}
			case "add":
				if !vc17In(peersNow, r.Peer) && vc17In(after, r.Peer) {
					oo.Entries = append(oo.Entries, vC17Entry{Op: k, Kind: "add", Peer: r.Peer})
				}
			}
		}
		rg.mu.Unlock()
		oo.Pinset = rg.agreedPinset(after, 20*time.Second, pinsNow)
		pinsNow = oo.Pinset
		if k == len(c.Ops)-1 {
			time.Sleep(300 * time.Millisecond) // negative expectation, once per script: nobody else stops by itself
		}
		oo.Running = rg.runningList()
		obs.Ops = append(obs.Ops, oo)
		peersNow = after
	}
	if os.Getenv("VERIF_C17_TREE") != "" {
		filepath.Walk(rg.base, func(p string, info os.FileInfo, err error) error {
			if err == nil {
				fmt.Println("TREE", p, info.Size())
			}
			return nil
		})
	}
	for i := 0; i < vc17NPeers; i++ {
		f := vC17Final{Idx: i, Running: rg.running(i), Listing: vc17Listing(rg.rcfgs[i].GetDataFolder())}
		if p := rg.peers[i]; p != nil {
			p.cl.shutdownLock.Lock()
			f.Removed = p.cl.removed
			p.cl.shutdownLock.Unlock()
		}
		rg.mu.Lock()
		f.Cleans = rg.cleans[i]
		rg.mu.Unlock()
		obs.Finals = append(obs.Finals, f)
		// the outcome of the snapshot on shutdown, read off the folder the shutdown left: the data folder, or after a clean
		// the newest backup if that is this peer's folder (marker) - a folder without snapshot is deleted, not rotated
		snap := false
		if !f.Running {
			if f.Cleans > 0 {
				snap = len(f.Listing) > 1 && f.Listing[1] != nil && f.Listing[1].Marker == i+1 && f.Listing[1].Snap
			} else if f.Listing[0] != nil {
				snap = f.Listing[0].Snap
			}
		}
		obs.Snaps = append(obs.Snaps, snap)
	}
	rc := *c
	rc.Ops = resolved
	return obs, vc17Term(&rc, 1, obs, outs), nil
}

// ---------------------------------------------------------------- scripts for rig B
func vC17RaftScripts(r *vRand, n int) []vC17Case {
	if n < 0 {
		n = 3
		if os.Getenv("VERIF_TIER") == "thorough" {
			n = 16
		}
	}
	var out []vC17Case
	for s := 0; s < n; s++ {
		c := vC17Case{Kind: "raft", DefMin: 1, DefMax: 2, Rev: r.chance(50)}
		np := 3
		if r.chance(30) {
			np = r.rng(2, 4)
		}
		perm := []int{0, 1, 2, 3, 4}
		for i := len(perm) - 1; i > 0; i-- {
			j := r.intn(i + 1)
			perm[i], perm[j] = perm[j], perm[i]
		}
		c.Members = append([]int{}, perm[:np]...)
		noRepin := r.chance(20)
		for i := 0; i < vc17NPeers; i++ {
			p := vC17PeerIn{NoRepin: noRepin, Keep: r.rng(1, 3), Ready: true, Snap: true, Olds: []int{}}
			if r.chance(40) {
				p.Olds = []int{0}
			}
			c.Peers = append(c.Peers, p)
		}
		for _, m := range c.Members {
			c.Metrics = append(c.Metrics, vMetricState{Peer: m, State: 1, Value: r.intn(1000)*10 + m})
		}
		// who is removed where: 0 a follower at the leader, 1 the leader at a follower, 2 a follower by itself, 3 the leader by itself
		shape := (s + r.intn(2)*2) % 4
		at, target := 100, 101
		switch shape {
		case 1:
			at, target = 101, 100
		case 2:
			at, target = 101, 101
		case 3:
			at, target = 100, 100
		}
		// the pins cannot know who will lead: every member holds some
		k := 1
		for _, m := range c.Members {
			for j := 0; j < r.rng(1, 2) && k <= 7; j++ {
				p := vC04Pin{Cid: k, Type: 1, Depth: -1, Allocs: []int{m}, Opts: vC04Opts{Rmin: 1, Rmax: r.rng(1, 2), UAlloc: []int{}, Origins: []int{}, Name: r.rng(0, 2)}}
				if r.chance(30) && np > 2 {
					p.Opts.Rmin, p.Opts.Rmax = 2, 2
					p.Allocs = append(p.Allocs, c.Members[(vc17IndexOf(c.Members, m)+1)%np])
				}
				p.Opts.normalise(vc17NPeers)
				c.Pins = append(c.Pins, p)
				k++
			}
		}
		if r.chance(35) {
			c.Ops = append(c.Ops, vC17Op{Op: "pin", At: 101, Cid: 8, Rmin: 1, Rmax: 1, IDOk: true, FailC: []int{}})
		}
		if np < 4 && r.chance(35) {
			c.Ops = append(c.Ops, vC17Op{Op: "join", At: perm[np], Target: 100, IDOk: true, FailC: []int{}})
		}
		if np >= 2 {
			c.Ops = append(c.Ops, vC17Op{Op: "remove", At: at, Target: target, IDOk: true, FailC: []int{}})
		}
		if r.chance(25) {
			c.Ops = append(c.Ops, vC17Op{Op: "remove", At: 100, Target: perm[4], IDOk: true, FailC: []int{}}) // an absent peer
		}
		// a member that was not removed is shut down by its operator: its data stays
		c.Ops = append(c.Ops, vC17Op{Op: "shutdown", At: 101, IDOk: true, FailC: []int{}})
		out = append(out, c)
	}
	return out
}

func vc17IndexOf(xs []int, x int) int {
	for i, y := range xs {
		if y == x {
			return i
		}
	}
	return 0
}

var _ = ioutil.ReadFile
var _ = strconv.Itoa
