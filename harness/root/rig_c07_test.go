//go:build verif

package ipfscluster

// C07 rig: fakes for the components behind the five RPC services, so that every registered endpoint can
// really execute when authorization lets the call through. Injected by overlay; never part of /repo.

import (
	"context"
	"errors"
	"sync"

	"github.com/ipfs/ipfs-cluster/api"
	"github.com/ipfs/ipfs-cluster/datastore/inmem"
	"github.com/ipfs/ipfs-cluster/state"
	"github.com/ipfs/ipfs-cluster/state/dsstate"
	"github.com/ipfs/ipfs-cluster/test"

	cid "github.com/ipfs/go-cid"
	peer "github.com/libp2p/go-libp2p-core/peer"
	rpc "github.com/libp2p/go-libp2p-gorpc"
)

// the part of a consensus component that decides trust (real raft / real crdt objects are plugged in here)
type vC07TrustSrc interface {
	IsTrustedPeer(context.Context, peer.ID) bool
	Trust(context.Context, peer.ID) error
	Distrust(context.Context, peer.ID) error
}

// vC07Cons: Consensus over an in-memory dsstate; trust decisions are delegated to the real component
type vC07Cons struct {
	mu    sync.Mutex
	self  peer.ID
	st    state.State
	trust vC07TrustSrc
	asked []peer.ID // peers IsTrustedPeer was asked about
}

func newVC07Cons(self peer.ID, trust vC07TrustSrc) *vC07Cons {
	st, err := dsstate.New(inmem.New(), "", dsstate.DefaultHandle())
	if err != nil {
		panic(err)
	}
	return &vC07Cons{self: self, st: st, trust: trust}
}
func (c *vC07Cons) SetClient(*rpc.Client)          {}
func (c *vC07Cons) Shutdown(context.Context) error { return nil }
func (c *vC07Cons) Ready(context.Context) <-chan struct{} {
	ch := make(chan struct{}, 1)
	ch <- struct{}{}
	return ch
}
func (c *vC07Cons) LogPin(ctx context.Context, p *api.Pin) error {
	if p == nil || !p.Cid.Defined() {
		return errors.New("bad pin")
	}
	return c.st.Add(ctx, p)
}
func (c *vC07Cons) LogUnpin(ctx context.Context, p *api.Pin) error {
	if p == nil || !p.Cid.Defined() {
		return errors.New("bad pin")
	}
	return c.st.Rm(ctx, p.Cid)
}
func (c *vC07Cons) AddPeer(context.Context, peer.ID) error          { return nil }
func (c *vC07Cons) RmPeer(context.Context, peer.ID) error           { return nil }
func (c *vC07Cons) State(context.Context) (state.ReadOnly, error)   { return c.st, nil }
func (c *vC07Cons) Leader(context.Context) (peer.ID, error)         { return c.self, nil }
func (c *vC07Cons) WaitForSync(context.Context) error               { return nil }
func (c *vC07Cons) Clean(context.Context) error                     { return nil }
func (c *vC07Cons) Peers(context.Context) ([]peer.ID, error)        { return []peer.ID{c.self}, nil }
func (c *vC07Cons) Trust(ctx context.Context, p peer.ID) error      { return c.trust.Trust(ctx, p) }
func (c *vC07Cons) Distrust(ctx context.Context, p peer.ID) error   { return c.trust.Distrust(ctx, p) }
func (c *vC07Cons) IsTrustedPeer(ctx context.Context, p peer.ID) bool {
	c.mu.Lock()
	c.asked = append(c.asked, p)
	c.mu.Unlock()
	return c.trust.IsTrustedPeer(ctx, p)
}

// vC07IPFS: IPFSConnector that answers everything benignly and counts the calls that drive the daemon
type vC07IPFS struct {
	mu     sync.Mutex
	self   peer.ID
	drives int
}

func (f *vC07IPFS) drive() {
	f.mu.Lock()
	f.drives++
	f.mu.Unlock()
}
func (f *vC07IPFS) SetClient(*rpc.Client)          {}
func (f *vC07IPFS) Shutdown(context.Context) error { return nil }
func (f *vC07IPFS) ID(context.Context) (*api.IPFSID, error) {
	return &api.IPFSID{ID: test.PeerID1}, nil
}
func (f *vC07IPFS) Pin(context.Context, *api.Pin) error  { f.drive(); return nil }
func (f *vC07IPFS) Unpin(context.Context, cid.Cid) error { f.drive(); return nil }
func (f *vC07IPFS) PinLsCid(context.Context, *api.Pin) (api.IPFSPinStatus, error) {
	return api.IPFSPinStatusUnpinned, nil
}
func (f *vC07IPFS) PinLs(context.Context, string) (map[string]api.IPFSPinStatus, error) {
	return map[string]api.IPFSPinStatus{}, nil
}
func (f *vC07IPFS) ConnectSwarms(context.Context) error              { return nil }
func (f *vC07IPFS) SwarmPeers(context.Context) ([]peer.ID, error)    { return []peer.ID{}, nil }
func (f *vC07IPFS) ConfigKey(string) (interface{}, error)            { return "v", nil }
func (f *vC07IPFS) RepoStat(context.Context) (*api.IPFSRepoStat, error) {
	return &api.IPFSRepoStat{RepoSize: 1, StorageMax: 2}, nil
}
func (f *vC07IPFS) RepoGC(context.Context) (*api.RepoGC, error) {
	f.drive()
	return &api.RepoGC{Keys: []api.IPFSRepoGC{}}, nil
}
func (f *vC07IPFS) Resolve(context.Context, string) (cid.Cid, error) { return test.Cid1, nil }
func (f *vC07IPFS) BlockPut(context.Context, *api.NodeWithMeta) error {
	f.drive()
	return nil
}
func (f *vC07IPFS) BlockGet(context.Context, cid.Cid) ([]byte, error) { return []byte("x"), nil }

// vC07Tracker: PinTracker that reports everything as pinned
type vC07Tracker struct {
	self peer.ID
}

func (t *vC07Tracker) info(c cid.Cid) *api.PinInfo {
	return &api.PinInfo{Cid: c, Peer: t.self, PinInfoShort: api.PinInfoShort{Status: api.TrackerStatusPinned}}
}
func (t *vC07Tracker) SetClient(*rpc.Client)                    {}
func (t *vC07Tracker) Shutdown(context.Context) error           { return nil }
func (t *vC07Tracker) Track(context.Context, *api.Pin) error    { return nil }
func (t *vC07Tracker) Untrack(context.Context, cid.Cid) error   { return nil }
func (t *vC07Tracker) StatusAll(context.Context, api.TrackerStatus) []*api.PinInfo {
	return []*api.PinInfo{t.info(test.Cid1)}
}
func (t *vC07Tracker) Status(_ context.Context, c cid.Cid) *api.PinInfo { return t.info(c) }
func (t *vC07Tracker) RecoverAll(context.Context) ([]*api.PinInfo, error) {
	return []*api.PinInfo{t.info(test.Cid1)}, nil
}
func (t *vC07Tracker) Recover(_ context.Context, c cid.Cid) (*api.PinInfo, error) {
	return t.info(c), nil
}
