//go:build verif

package ipfscluster

// C07 rig: fakes for the components behind the five RPC services, so that every registered endpoint can
// really execute when authorization lets the call through. Injected by overlay; never part of /repo.

import (
	"context"
	"errors"
	"sync"

	"github.com/ipfs/ipfs-cluster/api"
	"github.com/ipfs/ipfs-cluster/datastore/inmem"
	"github.com/ipfs/ipfs-cluster/state"
	"github.com/ipfs/ipfs-cluster/state/dsstate"
	"github.com/ipfs/ipfs-cluster/test"

	cid "github.com/ipfs/go-cid"
	peer "github.com/libp2p/go-libp2p-core/peer"
	rpc "github.com/libp2p/go-libp2p-gorpc"
)

// vC07Rec records, while switched on, the component calls a handler causes on the called peer ("IPFS.RepoStat",
// "Consensus.AddPeer", "Informer.GetMetric", "Monitor.PublishMetric", "Callback.Cluster.ID" ...): what an endpoint DOES.
type vC07Recorder struct {
	mu   sync.Mutex
	on   bool
	effs []string
}

var vC07Rec = &vC07Recorder{}

func (r *vC07Recorder) add(e string) {
	r.mu.Lock()
	if r.on {
		seen := false
		for _, x := range r.effs {
			if x == e {
				seen = true
			}
		}
		if !seen {
			r.effs = append(r.effs, e)
		}
	}
	r.mu.Unlock()
}
func (r *vC07Recorder) start() {
	r.mu.Lock()
	r.on, r.effs = true, nil
	r.mu.Unlock()
}
func (r *vC07Recorder) stop() []string {
	r.mu.Lock()
	defer r.mu.Unlock()
	r.on = false
	out := append([]string{}, r.effs...)
	r.effs = nil
	return out
}

// the part of a consensus component that decides trust (real raft / real crdt objects are plugged in here)
type vC07TrustSrc interface {
	IsTrustedPeer(context.Context, peer.ID) bool
	Trust(context.Context, peer.ID) error
	Distrust(context.Context, peer.ID) error
}

// vC07Cons: Consensus over an in-memory dsstate; trust decisions are delegated to the real component
type vC07Cons struct {
	mu    sync.Mutex
	self  peer.ID
	st    state.State
	trust vC07TrustSrc
	asked []peer.ID // peers IsTrustedPeer was asked about
}

func newVC07Cons(self peer.ID, trust vC07TrustSrc) *vC07Cons {
	st, err := dsstate.New(inmem.New(), "", dsstate.DefaultHandle())
	if err != nil {
		panic(err)
	}
	return &vC07Cons{self: self, st: st, trust: trust}
}
func (c *vC07Cons) SetClient(*rpc.Client)          {}
func (c *vC07Cons) Shutdown(context.Context) error { return nil }
func (c *vC07Cons) Ready(context.Context) <-chan struct{} {
	ch := make(chan struct{}, 1)
	ch <- struct{}{}
	return ch
}
func (c *vC07Cons) LogPin(ctx context.Context, p *api.Pin) error {
	vC07Rec.add("Consensus.LogPin")
	if p == nil || !p.Cid.Defined() {
		return errors.New("bad pin")
	}
	return c.st.Add(ctx, p)
}
func (c *vC07Cons) LogUnpin(ctx context.Context, p *api.Pin) error {
	vC07Rec.add("Consensus.LogUnpin")
	if p == nil || !p.Cid.Defined() {
		return errors.New("bad pin")
	}
	return c.st.Rm(ctx, p.Cid)
}
func (c *vC07Cons) AddPeer(context.Context, peer.ID) error {
	vC07Rec.add("Consensus.AddPeer")
	return nil
}
func (c *vC07Cons) RmPeer(context.Context, peer.ID) error {
	vC07Rec.add("Consensus.RmPeer")
	return nil
}
func (c *vC07Cons) State(context.Context) (state.ReadOnly, error) {
	vC07Rec.add("Consensus.State")
	return c.st, nil
}
func (c *vC07Cons) Leader(context.Context) (peer.ID, error) {
	vC07Rec.add("Consensus.Leader")
	return c.self, nil
}
func (c *vC07Cons) WaitForSync(context.Context) error { return nil }
func (c *vC07Cons) Clean(context.Context) error       { vC07Rec.add("Consensus.Clean"); return nil }
func (c *vC07Cons) Peers(context.Context) ([]peer.ID, error) {
	vC07Rec.add("Consensus.Peers")
	return []peer.ID{c.self}, nil
}
func (c *vC07Cons) Trust(ctx context.Context, p peer.ID) error {
	vC07Rec.add("Consensus.Trust")
	return c.trust.Trust(ctx, p)
}
func (c *vC07Cons) Distrust(ctx context.Context, p peer.ID) error {
	vC07Rec.add("Consensus.Distrust")
	return c.trust.Distrust(ctx, p)
}
func (c *vC07Cons) IsTrustedPeer(ctx context.Context, p peer.ID) bool {
	c.mu.Lock()
	c.asked = append(c.asked, p)
	c.mu.Unlock()
	return c.trust.IsTrustedPeer(ctx, p)
}

// vC07IPFS: IPFSConnector that answers everything benignly and counts the calls that drive the daemon
type vC07IPFS struct {
	mu     sync.Mutex
	self   peer.ID
	drives int
}

func (f *vC07IPFS) drive() {
	f.mu.Lock()
	f.drives++
	f.mu.Unlock()
}
func (f *vC07IPFS) SetClient(*rpc.Client)          {}
func (f *vC07IPFS) Shutdown(context.Context) error { return nil }
func (f *vC07IPFS) ID(context.Context) (*api.IPFSID, error) {
	vC07Rec.add("IPFS.ID")
	return &api.IPFSID{ID: test.PeerID1}, nil
}
func (f *vC07IPFS) Pin(context.Context, *api.Pin) error {
	vC07Rec.add("IPFS.Pin")
	f.drive()
	return nil
}
func (f *vC07IPFS) Unpin(context.Context, cid.Cid) error {
	vC07Rec.add("IPFS.Unpin")
	f.drive()
	return nil
}
func (f *vC07IPFS) PinLsCid(context.Context, *api.Pin) (api.IPFSPinStatus, error) {
	vC07Rec.add("IPFS.PinLsCid")
	return api.IPFSPinStatusUnpinned, nil
}
func (f *vC07IPFS) PinLs(context.Context, string) (map[string]api.IPFSPinStatus, error) {
	vC07Rec.add("IPFS.PinLs")
	return map[string]api.IPFSPinStatus{}, nil
}
func (f *vC07IPFS) ConnectSwarms(context.Context) error {
	vC07Rec.add("IPFS.ConnectSwarms")
	return nil
}
func (f *vC07IPFS) SwarmPeers(context.Context) ([]peer.ID, error) {
	vC07Rec.add("IPFS.SwarmPeers")
	return []peer.ID{}, nil
}
func (f *vC07IPFS) ConfigKey(string) (interface{}, error) {
	vC07Rec.add("IPFS.ConfigKey")
	return "v", nil
}
func (f *vC07IPFS) RepoStat(context.Context) (*api.IPFSRepoStat, error) {
	vC07Rec.add("IPFS.RepoStat")
	return &api.IPFSRepoStat{RepoSize: 1, StorageMax: 2}, nil
}
func (f *vC07IPFS) RepoGC(context.Context) (*api.RepoGC, error) {
	vC07Rec.add("IPFS.RepoGC")
	f.drive()
	return &api.RepoGC{Keys: []api.IPFSRepoGC{}}, nil
}
func (f *vC07IPFS) Resolve(context.Context, string) (cid.Cid, error) {
	vC07Rec.add("IPFS.Resolve")
	return test.Cid1, nil
}
func (f *vC07IPFS) BlockPut(context.Context, *api.NodeWithMeta) error {
	vC07Rec.add("IPFS.BlockPut")
	f.drive()
	return nil
}
func (f *vC07IPFS) BlockGet(context.Context, cid.Cid) ([]byte, error) {
	vC07Rec.add("IPFS.BlockGet")
	return []byte("x"), nil
}

// vC07Tracker: PinTracker that reports everything as pinned
type vC07Tracker struct {
	self peer.ID
}

func (t *vC07Tracker) info(c cid.Cid) *api.PinInfo {
	return &api.PinInfo{Cid: c, Peer: t.self, PinInfoShort: api.PinInfoShort{Status: api.TrackerStatusPinned}}
}
func (t *vC07Tracker) SetClient(*rpc.Client)          {}
func (t *vC07Tracker) Shutdown(context.Context) error { return nil }
func (t *vC07Tracker) Track(context.Context, *api.Pin) error {
	vC07Rec.add("Tracker.Track")
	return nil
}
func (t *vC07Tracker) Untrack(context.Context, cid.Cid) error {
	vC07Rec.add("Tracker.Untrack")
	return nil
}
func (t *vC07Tracker) StatusAll(context.Context, api.TrackerStatus) []*api.PinInfo {
	vC07Rec.add("Tracker.StatusAll")
	return []*api.PinInfo{t.info(test.Cid1)}
}
func (t *vC07Tracker) Status(_ context.Context, c cid.Cid) *api.PinInfo {
	vC07Rec.add("Tracker.Status")
	return t.info(c)
}
func (t *vC07Tracker) RecoverAll(context.Context) ([]*api.PinInfo, error) {
	vC07Rec.add("Tracker.RecoverAll")
	return []*api.PinInfo{t.info(test.Cid1)}, nil
}
func (t *vC07Tracker) Recover(_ context.Context, c cid.Cid) (*api.PinInfo, error) {
	vC07Rec.add("Tracker.Recover")
	return t.info(c), nil
}

// vC07Mon: the shared monitor fake with its calls recorded
type vC07Mon struct{ *vMonitor }

func (m *vC07Mon) LogMetric(ctx context.Context, mt *api.Metric) error {
	vC07Rec.add("Monitor.LogMetric")
	return m.vMonitor.LogMetric(ctx, mt)
}
func (m *vC07Mon) PublishMetric(ctx context.Context, mt *api.Metric) error {
	vC07Rec.add("Monitor.PublishMetric")
	return m.vMonitor.PublishMetric(ctx, mt)
}
func (m *vC07Mon) LatestMetrics(ctx context.Context, name string) []*api.Metric {
	vC07Rec.add("Monitor.LatestMetrics")
	return m.vMonitor.LatestMetrics(ctx, name)
}
func (m *vC07Mon) MetricNames(ctx context.Context) []string {
	vC07Rec.add("Monitor.MetricNames")
	return m.vMonitor.MetricNames(ctx)
}

// vC07Informer: an informer that, like informer/disk, asks the IPFS connector for repo/stat when it is run
type vC07Informer struct {
	name string
	ipfs IPFSConnector
}

func (i *vC07Informer) SetClient(*rpc.Client)          {}
func (i *vC07Informer) Shutdown(context.Context) error { return nil }
func (i *vC07Informer) Name() string                   { return i.name }
func (i *vC07Informer) GetMetric(ctx context.Context) *api.Metric {
	vC07Rec.add("Informer.GetMetric")
	i.ipfs.RepoStat(ctx)
	return &api.Metric{Name: i.name, Valid: true}
}

// vC07Callback: the "Cluster" service of a remote caller: it only answers the Cluster.ID call-back of the join handshake
type vC07Callback struct{ id peer.ID }

func (f *vC07Callback) ID(ctx context.Context, in struct{}, out *api.ID) error {
	vC07Rec.add("Callback.Cluster.ID")
	*out = api.ID{ID: f.id, Peername: "vC07-remote"}
	return nil
}
