//go:build verif

package ipfscluster

import (
	"os"
	"reflect"
	"testing"
)

func TestVerifC15Cluster(t *testing.T) {
	host, _ := os.Hostname()
	vc15Main(t, &vc15Section{
		Name: "cluster", Index: 1, EnvPrefix: "CLUSTER",
		New:      func() vc15Config { return &Config{} },
		JSONType: reflect.TypeOf(configJSON{}),
		Hints: map[string]string{
			"id": "str", "peername": "str", "private_key": "str", "secret": "secret", "listen_multiaddress": "addr",
			"connection_manager.grace_period": "dur", "dial_peer_timeout": "dur", "state_sync_interval": "dur",
			"pin_recover_interval": "dur", "monitor_ping_interval": "dur", "peer_watch_interval": "dur", "mdns_interval": "dur",
			"peerstore_file": "str", "peer_addresses": "addr",
		},
		Canon: func(path, s string) string {
			if path == "peername" && s == host && host != "" {
				return "=hostname"
			}
			return s
		},
		Secrets: func(c vc15Config) []string {
			cfg := c.(*Config)
			return []string{EncodeProtectorKey(cfg.Secret)}
		},
		Extra: map[string][]interface{}{
			"connection_manager":            {map[string]interface{}{"high_water": 10, "low_water": 5, "grace_period": "1s"}, map[string]interface{}{"high_water": 5, "low_water": 10, "grace_period": "1s"}, map[string]interface{}{"high_water": 10, "low_water": 10}},
			"replication_factor_min":        {-1, -2, 1, 2, 3},
			"replication_factor_max":        {-1, -2, 1, 2, 3},
			"connection_manager.high_water": {99, 100, 101},
			"connection_manager.low_water":  {399, 400, 401},
		},
	})
}
