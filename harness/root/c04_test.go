//go:build verif

package ipfscluster

// C04 correspondence harness: histories of Pin / PinPath / PinUpdate / Unpin / UnpinPath / RPC Pin calls on a
// struct-literal Cluster (real pin(), setupPin, allocate, Unpin, PinUpdate; real dsstate behind a fake
// consensus; fake IPFS Resolve/BlockGet). After every call the returned value / error class and the whole
// pinset are recorded.

import (
	"context"
	"encoding/json"
	"fmt"
	"strings"
	"testing"
	"time"

	"github.com/ipfs/ipfs-cluster/allocator/ascendalloc"
	"github.com/ipfs/ipfs-cluster/allocator/descendalloc"
	"github.com/ipfs/ipfs-cluster/api"
	"github.com/ipfs/ipfs-cluster/monitor/metrics"
)

const vc04NPeers = 6

type vC04Call struct {
	Kind     string   `json:"kind"` // pin, pinpath, update, unpin, unpinpath, rpcpin
	Cid      int      `json:"cid"`
	To       int      `json:"to"`
	Path     int      `json:"path"`
	Opts     vC04Opts `json:"opts"`
	Pin      vC04Pin  `json:"pin"`
	Tbl      int      `json:"tbl"`
	Follower bool     `json:"follower"`
}

type vC04Case struct {
	DefMin  int              `json:"def_min"`
	DefMax  int              `json:"def_max"`
	Rev     bool             `json:"rev"`
	Resolve [][2]int         `json:"resolve"`
	Links   []vC04Link       `json:"links"`
	Tables  [][]vMetricState `json:"tables"`
	Calls   []vC04Call       `json:"calls"`
}

type vC04StepObs struct {
	Ok     bool      `json:"ok"`
	Err    string    `json:"err"`
	Msg    string    `json:"msg,omitempty"`
	Ret    *vC04Pin  `json:"ret,omitempty"`
	Logs   []string  `json:"logs"`
	Pinset []vC04Pin `json:"pinset"`
}

// ---- generators ----
type vc04Gen struct {
	r    *vRand
	last map[int]vC04Opts
}

func (g *vc04Gen) subset(pct int) []int {
	out := []int{}
	for p := 0; p < vc04NPeers; p++ {
		if g.r.chance(pct) {
			out = append(out, p)
		}
	}
	for i := len(out) - 1; i > 0; i-- {
		j := g.r.intn(i + 1)
		out[i], out[j] = out[j], out[i]
	}
	return out
}

func (g *vc04Gen) factors() (int, int) {
	r := g.r
	switch x := r.intn(100); {
	case x < 35:
		return 0, 0
	case x < 45:
		return -1, -1
	case x < 85:
		a := r.rng(1, 4)
		b := a + r.intn(3)
		return a, b
	case x < 88:
		return r.rng(1, 3), 0
	case x < 91:
		return 0, r.rng(1, 3)
	case x < 94:
		return 3, 2
	case x < 96:
		return -1, 2
	case x < 98:
		return 1, -1
	default:
		return -2, r.rng(-2, 2)
	}
}

func (g *vc04Gen) expiry(o *vC04Opts) {
	r := g.r
	switch x := r.intn(100); {
	case x < 55:
		o.HasExp = false
		o.ExpS, o.ExpNs = 0, 0
	case x < 90:
		o.HasExp = true
		o.ExpS = int64(3600 * r.rng(1, 3))
		o.ExpNs = 0
		if r.chance(25) {
			o.ExpNs = 500
		}
	default:
		o.HasExp = true
		o.ExpS = -int64(3600 * r.rng(1, 3))
		o.ExpNs = 0
	}
}

func (g *vc04Gen) freshOpts() vC04Opts {
	r := g.r
	o := vC04Opts{UAlloc: []int{}, Origins: []int{}}
	o.Rmin, o.Rmax = g.factors()
	if r.chance(50) {
		o.Name = r.rng(1, 3)
	}
	if r.chance(25) {
		o.Mode = 1
	} else if r.chance(3) {
		o.Mode = 2
	}
	if r.chance(10) {
		o.Shard = r.rng(1, 2)
	}
	if r.chance(25) {
		o.UAlloc = g.subset(35)
	}
	g.expiry(&o)
	nm := 0
	if r.chance(55) {
		nm = r.rng(1, 3)
	}
	for i := 0; i < nm; i++ {
		k := r.rng(1, 3)
		if r.chance(6) {
			k = 0 // the empty key
		}
		o.Meta = append(o.Meta, [2]int{k, r.rng(0, 2)})
	}
	if r.chance(40) {
		n := r.rng(1, 3)
		for i := 0; i < n; i++ {
			o.Origins = append(o.Origins, r.rng(1, 3))
		}
		if r.chance(80) { // mostly duplicate-free
			seen := map[int]bool{}
			var d []int
			for _, x := range o.Origins {
				if !seen[x] {
					seen[x] = true
					d = append(d, x)
				}
			}
			o.Origins = d
		}
	}
	if r.chance(8) {
		o.Update = r.rng(1, 4)
	}
	o.normalise(vc04NPeers)
	return o
}

// one small change of the previous options of the same CID (a key added / removed / changed, ...)
func (g *vc04Gen) mutate(o vC04Opts) vC04Opts {
	r := g.r
	o.Meta = append([][2]int{}, o.Meta...)
	o.Origins = append([]int{}, o.Origins...)
	o.UAlloc = append([]int{}, o.UAlloc...)
	switch r.intn(15) {
	case 0:
		o.Name = r.rng(0, 3)
	case 1:
		o.Mode = 1 - (o.Mode & 1)
	case 2:
		o.Rmin, o.Rmax = g.factors()
	case 3:
		g.expiry(&o)
	case 4, 5: // remove a metadata key
		if len(o.Meta) > 0 {
			i := r.intn(len(o.Meta))
			o.Meta = append(o.Meta[:i], o.Meta[i+1:]...)
		}
	case 6: // add a key
		o.Meta = append(o.Meta, [2]int{r.rng(0, 4), r.rng(0, 2)})
	case 7: // change a value
		if len(o.Meta) > 0 {
			i := r.intn(len(o.Meta))
			o.Meta[i][1] = (o.Meta[i][1] + 1) % 3
		}
	case 8, 12: // origins: add / remove / reorder / duplicate / replace
		switch r.intn(6) {
		case 4, 5:
			if len(o.Origins) > 0 {
				i := r.intn(len(o.Origins))
				o.Origins[i] = 1 + (o.Origins[i]+r.intn(2))%3
			} else {
				o.Origins = append(o.Origins, r.rng(1, 3))
			}
		case 0:
			o.Origins = append(o.Origins, r.rng(1, 3))
		case 1:
			if len(o.Origins) > 0 {
				o.Origins = o.Origins[1:]
			}
		case 2:
			if len(o.Origins) > 1 {
				o.Origins[0], o.Origins[1] = o.Origins[1], o.Origins[0]
			}
		default:
			if len(o.Origins) > 1 {
				o.Origins[1] = o.Origins[0]
			}
		}
	case 9:
		o.UAlloc = g.subset(35)
	case 10:
		o.Shard = r.rng(0, 2)
	case 11:
		o.Update = r.rng(0, 4)
	default:
		// identical
	}
	o.normalise(vc04NPeers)
	return o
}

func (g *vc04Gen) optsFor(c int) vC04Opts {
	if prev, ok := g.last[c]; ok && g.r.chance(70) {
		o := prev
		if g.r.chance(60) {
			o = g.mutate(o)
		}
		if g.r.chance(15) {
			o = g.mutate(o)
		}
		g.last[c] = o
		return o
	}
	o := g.freshOpts()
	g.last[c] = o
	return o
}

func (g *vc04Gen) table() []vMetricState {
	r := g.r
	var t []vMetricState
	for p := 0; p < vc04NPeers; p++ {
		st := 1
		switch x := r.intn(100); {
		case x < 68:
			st = 1
		case x < 76:
			st = 0
		case x < 85:
			st = 2
		case x < 93:
			st = 3
		default:
			st = 4
		}
		t = append(t, vMetricState{Peer: p, State: st, Value: r.intn(1000)*10 + p})
	}
	for i := len(t) - 1; i > 0; i-- {
		j := r.intn(i + 1)
		t[i], t[j] = t[j], t[i]
	}
	return t
}

func (g *vc04Gen) rpcPin(c int) vC04Pin {
	r := g.r
	p := vC04Pin{Opts: g.optsFor(c), Cid: c, Type: 1, Allocs: []int{}, Depth: -1}
	switch x := r.intn(100); {
	case x < 45:
		p.Type = 1
	case x < 60:
		p.Type = 2
		p.Ref = r.rng(5, 7)
	case x < 75:
		p.Type = 3
		p.Depth = 0
		p.Ref = r.rng(4, 6)
	case x < 92:
		p.Type = 4
		p.Depth = 1
		if r.chance(50) {
			p.Ref = r.rng(6, 8)
		}
	default:
		p.Type = 0
	}
	if p.Type == 1 {
		p.Depth = -1
		if p.Opts.Mode == 1 {
			p.Depth = 0
		}
	}
	if r.chance(10) { // malformed: depth / reference not matching the type
		p.Depth = r.rng(-1, 2)
		if r.chance(50) {
			p.Ref = r.rng(0, 7)
		}
	}
	if r.chance(30) {
		p.Allocs = g.subset(40)
	}
	return p
}

func vC04Gen(r *vRand) vC04Case {
	g := &vc04Gen{r: r, last: map[int]vC04Opts{}}
	c := vC04Case{Rev: r.chance(50)}
	switch x := r.intn(100); {
	case x < 25:
		c.DefMin, c.DefMax = -1, -1
	case x < 90:
		c.DefMin = r.rng(1, 3)
		c.DefMax = c.DefMin + r.intn(3)
	case x < 95:
		c.DefMin, c.DefMax = 0, 0
	default:
		c.DefMin, c.DefMax = 3, 2
	}
	// paths 1..6 resolve to some CID, the others do not
	for p := 1; p <= 6; p++ {
		if r.chance(85) {
			k := p
			if r.chance(30) {
				k = r.rng(1, 7)
			}
			c.Resolve = append(c.Resolve, [2]int{p, k})
		}
	}
	nt := r.rng(1, 3)
	for i := 0; i < nt; i++ {
		c.Tables = append(c.Tables, g.table())
	}
	// the block behind the cluster-DAG CID 6 (and sometimes others)
	if r.chance(85) {
		l := vC04Link{Cid: 6, Links: []int{7}}
		switch x := r.intn(100); {
		case x < 60:
		case x < 75:
			l.Links = []int{7, 8}
		case x < 85:
			l.Links = []int{}
		case x < 92:
			l.Links = []int{7, r.rng(1, 4)} // a link to something that is not a shard
		default:
			l.Bad = true
		}
		c.Links = append(c.Links, l)
	}
	if r.chance(15) {
		c.Links = append(c.Links, vC04Link{Cid: r.rng(4, 7), Links: []int{r.rng(1, 8)}})
	}
	follower := false
	tbl := 0
	n := r.rng(1, 12)
	sharded := r.chance(35)
	var pinned []int
	shardAt := r.intn(n + 1)
	for i := 0; i < n; i++ {
		if sharded && i == shardAt {
			// what the sharding adder sends: shard, cluster DAG, meta pin
			base := g.optsFor(5)
			base.Update = 0
			sh := vC04Pin{Opts: base, Cid: 7, Type: 4, Allocs: g.subset(40), Depth: 1}
			cd := vC04Pin{Opts: base, Cid: 6, Type: 3, Allocs: []int{}, Depth: 0, Ref: 5}
			cd.Opts.Rmin, cd.Opts.Rmax = -1, -1
			me := vC04Pin{Opts: base, Cid: 5, Type: 2, Allocs: []int{}, Depth: -1, Ref: 6}
			for _, p := range []vC04Pin{sh, cd, me} {
				c.Calls = append(c.Calls, vC04Call{Kind: "rpcpin", Pin: p, Tbl: tbl, Follower: follower})
			}
			pinned = append(pinned, 5)
		}
		if follower {
			if r.chance(45) {
				follower = false
			}
		} else if r.chance(6) {
			follower = true
		}
		if r.chance(12) {
			tbl = r.intn(nt)
		}
		k := vC04Call{Tbl: tbl, Follower: follower, Opts: vC04Opts{UAlloc: []int{}, Origins: []int{}}, Pin: vC04Pin{Allocs: []int{}, Opts: vC04Opts{UAlloc: []int{}, Origins: []int{}}}}
		cidPick := func() int {
			if r.chance(80) {
				return r.rng(1, 4)
			}
			return r.rng(5, 7)
		}
		pinnedPick := func() int {
			if len(pinned) > 0 && r.chance(75) {
				return pinned[r.intn(len(pinned))]
			}
			return cidPick()
		}
		switch x := r.intn(100); {
		case x < 38:
			k.Kind = "pin"
			k.Cid = cidPick()
			if r.chance(35) {
				k.Cid = pinnedPick()
			}
			k.Opts = g.optsFor(k.Cid)
			pinned = append(pinned, k.Cid)
		case x < 48:
			k.Kind = "pinpath"
			k.Path = r.rng(1, 7)
			k.Opts = g.optsFor(k.Path)
		case x < 60:
			k.Kind = "update"
			k.Cid = pinnedPick()
			k.To = cidPick()
			pinned = append(pinned, k.To)
			o := vC04Opts{UAlloc: []int{}, Origins: []int{}}
			if r.chance(50) {
				o.Name = r.rng(1, 3)
			}
			if r.chance(50) {
				g.expiry(&o)
			}
			if r.chance(20) { // options PinUpdate ignores
				o.Rmin, o.Rmax = g.factors()
				o.Meta = [][2]int{{1, 1}}
			}
			k.Opts = o
		case x < 76:
			k.Kind = "unpin"
			k.Cid = pinnedPick()
		case x < 82:
			k.Kind = "unpinpath"
			k.Path = r.rng(1, 7)
		default:
			k.Kind = "rpcpin"
			k.Pin = g.rpcPin(cidPick())
			pinned = append(pinned, k.Pin.Cid)
		}
		c.Calls = append(c.Calls, k)
	}
	return c
}

// ---- defensive decoding (the shrinker deletes list elements anywhere) ----
func (c *vC04Case) normalise() {
	if len(c.Tables) == 0 {
		c.Tables = [][]vMetricState{{}}
	}
	for ti := range c.Tables {
		seen := map[int]bool{}
		var t []vMetricState
		for _, m := range c.Tables[ti] {
			if m.Peer < 0 || m.Peer >= vc04NPeers || seen[m.Peer] || m.State < 0 || m.State > 4 || m.Value < 0 {
				continue
			}
			seen[m.Peer] = true
			t = append(t, m)
		}
		c.Tables[ti] = t
	}
	var rs [][2]int
	seenP := map[int]bool{}
	for _, pr := range c.Resolve {
		if pr[0] < 1 || pr[1] < 1 || pr[1] > len(vc04Cids) || seenP[pr[0]] {
			continue
		}
		seenP[pr[0]] = true
		rs = append(rs, pr)
	}
	c.Resolve = rs
	var ls []vC04Link
	seenL := map[int]bool{}
	for _, l := range c.Links {
		if l.Cid < 1 || l.Cid > len(vc04Cids) || seenL[l.Cid] {
			continue
		}
		seenL[l.Cid] = true
		l.Links = vc04Clamp(l.Links, 1, len(vc04Cids))
		ls = append(ls, l)
	}
	c.Links = ls
	var calls []vC04Call
	for _, k := range c.Calls {
		switch k.Kind {
		case "pin", "pinpath", "update", "unpin", "unpinpath", "rpcpin":
		default:
			continue
		}
		if k.Tbl < 0 || k.Tbl >= len(c.Tables) {
			k.Tbl = 0
		}
		cl := func(x int) int {
			if x < 1 || x > len(vc04Cids) {
				return 1
			}
			return x
		}
		k.Cid, k.To = cl(k.Cid), cl(k.To)
		if k.Path < 0 {
			k.Path = 0
		}
		k.Opts.normalise(vc04NPeers)
		k.Pin.Opts.normalise(vc04NPeers)
		k.Pin.Cid = cl(k.Pin.Cid)
		if k.Pin.Type < 0 || k.Pin.Type > 4 {
			k.Pin.Type = 0
		}
		if k.Pin.Ref < 0 || k.Pin.Ref > len(vc04Cids) {
			k.Pin.Ref = 0
		}
		k.Pin.Allocs = vc04Clamp(k.Pin.Allocs, 0, vc04NPeers-1)
		calls = append(calls, k)
	}
	c.Calls = calls
}

func (k vC04Call) coq() string {
	switch k.Kind {
	case "pin":
		return fmt.Sprintf("(CPin %d%%N %s)", k.Cid, k.Opts.coq())
	case "pinpath":
		return fmt.Sprintf("(CPinPath %d%%N %s)", k.Path, k.Opts.coq())
	case "update":
		return fmt.Sprintf("(CPinUpdate %d%%N %d%%N %s)", k.Cid, k.To, k.Opts.coq())
	case "unpin":
		return fmt.Sprintf("(CUnpin %d%%N)", k.Cid)
	case "unpinpath":
		return fmt.Sprintf("(CUnpinPath %d%%N)", k.Path)
	default:
		return fmt.Sprintf("(CRpcPin %s)", k.Pin.coq())
	}
}

// ---- run one history on the implementation ----
func vC04Run(c vC04Case) (obs []vC04StepObs, term string, panicked interface{}) {
	ctx := context.Background()
	t0 := time.Unix(time.Now().Unix(), 0)
	cons := newVCons()
	cons.peers = vPeers[:vc04NPeers]
	ipfs := &vIPFS{resolve: map[string]int{}, links: map[int]vC04Link{}}
	for _, pr := range c.Resolve {
		ipfs.resolve[vc04Path(pr[0])] = pr[1]
	}
	for _, l := range c.Links {
		ipfs.links[l.Cid] = l
	}
	mon := newVMonitor()
	cfg := &Config{ReplicationFactorMin: c.DefMin, ReplicationFactorMax: c.DefMax}
	cl := &Cluster{ctx: ctx, id: vPeers[0], config: cfg, consensus: &vConsView{cons, 0}, ipfs: ipfs, monitor: mon,
		informers: []Informer{&vInformer{"vmetric"}}}
	if c.Rev {
		cl.allocator = descendalloc.NewAllocator()
	} else {
		cl.allocator = ascendalloc.NewAllocator()
	}
	rpcapi := &ClusterRPCAPI{c: cl}
	curTbl := -1
	var steps []string
	for _, k := range c.Calls {
		if k.Tbl != curTbl {
			mon.store = metrics.NewStore()
			mon.load("vmetric", c.Tables[k.Tbl])
			curTbl = k.Tbl
		}
		cfg.FollowerMode = k.Follower
		var ret *api.Pin
		var err error
		func() {
			defer func() {
				if r := recover(); r != nil {
					panicked = r
				}
			}()
			switch k.Kind {
			case "pin":
				ret, err = cl.Pin(ctx, vc04Cid(k.Cid), k.Opts.toAPI(t0))
			case "pinpath":
				ret, err = cl.PinPath(ctx, vc04Path(k.Path), k.Opts.toAPI(t0))
			case "update":
				ret, err = cl.PinUpdate(ctx, vc04Cid(k.Cid), vc04Cid(k.To), k.Opts.toAPI(t0))
			case "unpin":
				ret, err = cl.Unpin(ctx, vc04Cid(k.Cid))
			case "unpinpath":
				ret, err = cl.UnpinPath(ctx, vc04Path(k.Path))
			default:
				var out api.Pin
				err = rpcapi.Pin(ctx, k.Pin.toAPI(t0), &out)
				if err == nil {
					ret = &out
				}
			}
		}()
		if panicked != nil {
			return obs, "", panicked
		}
		so := vC04StepObs{Ok: err == nil, Logs: cons.takeLogs()}
		ores := ""
		if err != nil {
			so.Err = vc04ErrClass(err, strings.HasPrefix(k.Kind, "unpin"))
			so.Msg = err.Error()
			ores = "(OErr " + so.Err + ")"
		} else {
			rp := vc04FromAPI(ret, t0)
			so.Ret = &rp
			ores = "(OOk " + rp.coq() + ")"
		}
		ps, perr := vc04Pinset(ctx, cl, t0)
		if perr != nil {
			panic(perr)
		}
		so.Pinset = ps
		obs = append(obs, so)
		steps = append(steps, fmt.Sprintf("(%d%%N, %s, %s, %s, %s)", k.Tbl, cqBool(k.Follower), k.coq(), ores, vc04CoqPins(ps)))
	}
	var rs, ls, ts []string
	for _, pr := range c.Resolve {
		rs = append(rs, fmt.Sprintf("(%d%%N, %d%%N)", pr[0], pr[1]))
	}
	for _, l := range c.Links {
		if l.Bad {
			continue // an undecodable block is an error, like an absent one
		}
		ls = append(ls, fmt.Sprintf("(%d%%N, %s)", l.Cid, vc04CoqListN(l.Links)))
	}
	for _, t := range c.Tables {
		ts = append(ts, vCoqMetrics(t))
	}
	term = fmt.Sprintf("(%s, %s, %s, %s, %s, %s,\n   %s)", cqZ(int64(c.DefMin)), cqZ(int64(c.DefMax)), cqBool(c.Rev),
		cqList(rs), cqList(ls), cqList(ts), "["+strings.Join(steps, ";\n    ")+"]")
	return obs, term, nil
}

func TestVerifC04(t *testing.T) {
	vc04Quiet()
	vPeerUniverse(10)
	vc04Universe()
	seed := uint64(vEnvInt("VERIF_SEED", 1))
	n := vEnvInt("VERIF_N", 100)
	out := newVOut("C04", "From V Require Import Base.Common Model.C03_Alloc Model.C04_ClusterOps Model.C04_Check.\nOpen Scope N_scope.",
		"case", "Definition R := Eval vm_compute in failing cases.\nPrint R.")
	defer out.close()
	var cases []vC04Case
	if raw := vCasesIn(); raw != nil {
		for _, b := range raw {
			var c vC04Case
			if err := json.Unmarshal(b, &c); err != nil {
				t.Fatal(err)
			}
			cases = append(cases, c)
		}
	} else {
		r := newVRand(seed*1000003 + 4)
		for i := 0; i < n; i++ {
			cases = append(cases, vC04Gen(r.fork()))
		}
	}
	for _, c := range cases {
		c.normalise()
		obs, term, pan := vC04Run(c)
		if pan != nil {
			b, _ := json.Marshal(map[string]interface{}{"signature": "panic", "detail": fmt.Sprint(pan), "case": map[string]interface{}{"input": c}})
			fmt.Printf("VERIF-DIRECT-VIOLATION %s\n", b)
			continue
		}
		touched := map[int]int{}
		nontriv := false
		for i, k := range c.Calls {
			out.count("call_" + k.Kind)
			if k.Follower {
				out.count("follower_call")
			}
			if obs[i].Ok {
				out.count("ok_" + k.Kind)
				if i > 0 && obs[i].Ret != nil && (k.Kind == "pin" || k.Kind == "pinpath" || k.Kind == "rpcpin") {
					for _, p := range obs[i-1].Pinset {
						if p.Cid == obs[i].Ret.Cid {
							var now *vC04Pin
							for j := range obs[i].Pinset {
								if obs[i].Pinset[j].Cid == p.Cid {
									now = &obs[i].Pinset[j]
								}
							}
							a, _ := json.Marshal(p.Opts)
							b := []byte{}
							if now != nil {
								b, _ = json.Marshal(now.Opts)
							}
							if string(a) == string(b) {
								out.count("repin_opts_kept")
							} else {
								out.count("repin_opts_changed")
							}
						}
					}
				}
				if k.Kind == "unpin" && obs[i].Ret != nil && obs[i].Ret.Type == 2 {
					out.count("ok_unpin_meta")
				}
			} else {
				out.count("err_" + obs[i].Err)
			}
			key := k.Cid
			switch k.Kind {
			case "rpcpin":
				key = k.Pin.Cid
			case "update":
				key = k.To
			case "pinpath", "unpinpath":
				key = 100 + k.Path
			}
			touched[key]++
			if touched[key] >= 2 {
				nontriv = true
			}
		}
		out.count(fmt.Sprintf("len_%02d", len(c.Calls)))
		out.add(term, c, obs, nontriv)
	}
}
