//go:build verif

package ipfscluster

// Shared rig for the root package: fake monitor on the real metrics.Store, fake informer,
// deterministic peer universe. Injected by overlay; never part of /repo.

import (
	"context"
	"fmt"
	"strconv"
	"time"

	"github.com/ipfs/ipfs-cluster/api"
	"github.com/ipfs/ipfs-cluster/monitor/metrics"

	crypto "github.com/libp2p/go-libp2p-core/crypto"
	peer "github.com/libp2p/go-libp2p-core/peer"
	rpc "github.com/libp2p/go-libp2p-gorpc"
)

type vDetReader struct{ r *vRand }

func (d vDetReader) Read(p []byte) (int, error) {
	for i := range p {
		p[i] = byte(d.r.next())
	}
	return len(p), nil
}

var vPeers []peer.ID

func vPeerUniverse(n int) []peer.ID {
	for len(vPeers) < n {
		rd := vDetReader{newVRand(uint64(7000 + len(vPeers)))}
		_, pub, err := crypto.GenerateEd25519Key(rd)
		if err != nil {
			panic(err)
		}
		id, err := peer.IDFromPublicKey(pub)
		if err != nil {
			panic(err)
		}
		vPeers = append(vPeers, id)
	}
	return vPeers[:n]
}

func vPeerIdx(p peer.ID) int {
	for i, q := range vPeers {
		if q == p {
			return i
		}
	}
	return -1
}

func vPeerList(idx []int) []peer.ID {
	out := make([]peer.ID, 0, len(idx))
	for _, i := range idx {
		out = append(out, vPeers[i])
	}
	return out
}

func vIdxList(ps []peer.ID) []int {
	out := make([]int, 0, len(ps))
	for _, p := range ps {
		out = append(out, vPeerIdx(p))
	}
	return out
}

// metric state of one peer: 0 absent, 1 valid numeric, 2 expired, 3 invalid, 4 non-numeric
type vMetricState struct {
	Peer  int `json:"peer"`
	State int `json:"state"`
	Value int `json:"value"`
}

// vMonitor: PeerMonitor over the real metrics.Store, LatestMetrics as pubsubmon does it
type vMonitor struct {
	store  *metrics.Store
	peers  func() ([]peer.ID, error)
	alerts chan *api.Alert
}

func newVMonitor() *vMonitor {
	return &vMonitor{store: metrics.NewStore(), alerts: make(chan *api.Alert, 16)}
}
func (m *vMonitor) SetClient(*rpc.Client)          {}
func (m *vMonitor) Shutdown(context.Context) error { return nil }
func (m *vMonitor) LogMetric(ctx context.Context, mt *api.Metric) error {
	m.store.Add(mt)
	return nil
}
func (m *vMonitor) PublishMetric(context.Context, *api.Metric) error { return nil }
func (m *vMonitor) LatestMetrics(ctx context.Context, name string) []*api.Metric {
	latest := m.store.LatestValid(name)
	if m.peers == nil {
		return latest
	}
	ps, err := m.peers()
	if err != nil {
		return []*api.Metric{}
	}
	return metrics.PeersetFilter(latest, ps)
}
func (m *vMonitor) MetricNames(context.Context) []string { return m.store.MetricNames() }
func (m *vMonitor) Alerts() <-chan *api.Alert            { return m.alerts }

func (m *vMonitor) load(name string, sts []vMetricState) {
	for _, s := range sts {
		if s.State == 0 {
			continue
		}
		mt := &api.Metric{Name: name, Peer: vPeers[s.Peer], Value: strconv.Itoa(s.Value), Valid: true}
		mt.SetTTL(time.Hour)
		switch s.State {
		case 2:
			mt.SetTTL(-time.Hour)
		case 3:
			mt.Valid = false
		case 4:
			mt.Value = fmt.Sprintf("x%d", s.Value)
		}
		m.store.Add(mt)
	}
}

// Coq form of a metric list at model time now=0: valid metrics expire at +3600, expired at -3600
func vCoqMetrics(sts []vMetricState) string {
	var xs []string
	for _, s := range sts {
		if s.State == 0 {
			continue
		}
		val := "(Some " + strconv.Itoa(s.Value) + "%N)"
		exp := "3600%Z"
		valid := "true"
		switch s.State {
		case 2:
			exp = "(-3600)%Z"
		case 3:
			valid = "false"
		case 4:
			val = "None"
		}
		xs = append(xs, fmt.Sprintf("mk_metric %d%%N %s %s %s", s.Peer, val, exp, valid))
	}
	return cqList(xs)
}

type vInformer struct{ name string }

func (i *vInformer) SetClient(*rpc.Client)               {}
func (i *vInformer) Shutdown(context.Context) error      { return nil }
func (i *vInformer) Name() string                        { return i.name }
func (i *vInformer) GetMetric(context.Context) *api.Metric { return &api.Metric{Name: i.name, Valid: true} }
