//go:build verif

package ipfscluster

// C18 stress scenario "statesync ∥ alerts" for the cluster facade: the public StateSync (also run by the watchPinset
// ticker), twice concurrently, while ping alerts arrive through the real alertsHandler goroutine (which re-pins what the
// failed peer holds) and Pins() is read. Both paths build a distanceChecker over the trusted peerset (Cluster.distances):
// whatever state they share while hashing peer IDs is exercised on cache misses, so the fake consensus component's trusted
// peerset GROWS all the time (peers join), and the cluster object is replaced now and then (first use after start).
// The pinset has expired pins (StateSync asks isClosest for them and unpins) and pins allocated to the peer the alerts are
// about (alertsHandler asks isClosest for them and re-pins). Verdict: the race detector (a report whose stacks lie in
// cluster.go / util.go), a crash ("concurrent map writes"), a panic, a hang; and Pins() must never be torn.

import (
	"context"
	"fmt"
	"reflect"
	"sync"
	"sync/atomic"
	"time"
	"unsafe"

	"github.com/ipfs/ipfs-cluster/allocator/ascendalloc"
	"github.com/ipfs/ipfs-cluster/api"
	"github.com/ipfs/ipfs-cluster/datastore/inmem"
	"github.com/ipfs/ipfs-cluster/state"
	"github.com/ipfs/ipfs-cluster/state/dsstate"
	"github.com/ipfs/ipfs-cluster/test"

	cid "github.com/ipfs/go-cid"
	logging "github.com/ipfs/go-log/v2"
	peer "github.com/libp2p/go-libp2p-core/peer"
	rpc "github.com/libp2p/go-libp2p-gorpc"
)

func init() {
	vC18Plan = append(vC18Plan, vC18Scen{Name: "statesync-alerts", Ms: 900, Workers: 6})
	vC18Scenarios["statesync-alerts"] = vC18StateSync
}

// the consensus component: a real dsstate over an in-memory datastore, a trusted peerset that only grows
type vC18SsCons struct {
	Consensus
	st    state.State
	mu    sync.Mutex
	peers []peer.ID
	unpin int64
	repin int64
}

func (c *vC18SsCons) SetClient(*rpc.Client)                         {}
func (c *vC18SsCons) Shutdown(context.Context) error                { return nil }
func (c *vC18SsCons) State(context.Context) (state.ReadOnly, error) { return c.st, nil }
func (c *vC18SsCons) IsTrustedPeer(context.Context, peer.ID) bool   { return true }
func (c *vC18SsCons) Peers(context.Context) ([]peer.ID, error) {
	c.mu.Lock()
	defer c.mu.Unlock()
	return append([]peer.ID{}, c.peers...), nil
}

// the pinset of the scenario stays as it is: an unpin of an expired pin and a re-pin are acknowledged, not applied
func (c *vC18SsCons) LogUnpin(context.Context, *api.Pin) error {
	atomic.AddInt64(&c.unpin, 1)
	return nil
}
func (c *vC18SsCons) LogPin(context.Context, *api.Pin) error {
	atomic.AddInt64(&c.repin, 1)
	return nil
}

func (c *vC18SsCons) join(p peer.ID) int {
	c.mu.Lock()
	defer c.mu.Unlock()
	c.peers = append(c.peers, p)
	return len(c.peers)
}

// as a constructor would: every map field of the literal that is still nil is made (whatever maps the Cluster type has)
func vc18InitMaps(c *Cluster) {
	v := reflect.ValueOf(c).Elem()
	for i := 0; i < v.NumField(); i++ {
		f := v.Field(i)
		if f.Kind() == reflect.Map && f.IsNil() {
			reflect.NewAt(f.Type(), unsafe.Pointer(f.UnsafeAddr())).Elem().Set(reflect.MakeMap(f.Type()))
		}
	}
}

func vC18StateSync(x *vC18Ctx) {
	logging.SetLogLevel("cluster", "FATAL")
	x.deadline = time.Now().Add(time.Duration(x.scen.Ms) * time.Millisecond)
	ctx := context.Background()
	failing := test.PeerID2 // the peer the ping alerts are about
	const npins = 24
	type inst struct {
		c      *Cluster
		cons   *vC18SsCons
		mon    *vC18Monitor
		cancel func()
		done   chan struct{}
	}
	serial := 0
	start := func() *inst {
		st, err := dsstate.New(inmem.New(), "", dsstate.DefaultHandle())
		if err != nil {
			panic(err)
		}
		for i := 0; i < npins; i++ {
			mh := fmt.Sprintf("vc18-statesync-%d", i)
			c, err := cid.V1Builder{Codec: cid.Raw, MhType: 0x12}.Sum([]byte(mh))
			if err != nil {
				panic(err)
			}
			p := api.PinCid(c)
			p.ReplicationFactorMin, p.ReplicationFactorMax = 1, 1
			switch i % 3 {
			case 0: // expired: StateSync wants to unpin it if this peer is the closest
				p.ExpireAt = time.Now().Add(-time.Hour)
				p.Allocations = []peer.ID{test.PeerID1}
			case 1: // held by the failing peer: the alerts handler wants to re-pin it if this peer is the closest
				p.Allocations = []peer.ID{failing}
			default:
				p.Allocations = []peer.ID{test.PeerID3}
			}
			if err := st.Add(ctx, p); err != nil {
				panic(err)
			}
		}
		cctx, cancel := context.WithCancel(ctx)
		cons := &vC18SsCons{st: st, peers: []peer.ID{test.PeerID1, failing, test.PeerID3}}
		mon := &vC18Monitor{alerts: make(chan *api.Alert, 16)}
		serial++
		in := &inst{cons: cons, mon: mon, cancel: cancel, done: make(chan struct{}),
			c: &Cluster{ctx: cctx, cancel: cancel, id: test.PeerID1, config: &Config{ReplicationFactorMin: 1, ReplicationFactorMax: 1},
				consensus: cons, monitor: mon, allocator: ascendalloc.NewAllocator(), informers: []Informer{&vC18SdInformer{}},
				alerts: []api.Alert{}}}
		vc18InitMaps(in.c)
		go func() { defer close(in.done); x.once("alertsHandler", in.c.alertsHandler) }()
		return in
	}
	var cur atomic.Value
	cur.Store(start())
	// peers join all the time; after 150 the peer is started afresh
	joined := 0
	x.loop("join", 0, func(r *vRand, i int) {
		in := cur.Load().(*inst)
		joined++
		if in.cons.join(peer.ID(fmt.Sprintf("vc18-peer-%d-%d", serial, joined))) > 150 {
			in.cancel()
			select {
			case <-in.done:
			case <-time.After(10 * time.Second):
				x.stat(1, 1) // the alerts handler does not stop
			}
			cur.Store(start())
		}
		time.Sleep(150 * time.Microsecond)
	})
	x.loop("alert", 1, func(r *vRand, i int) {
		in := cur.Load().(*inst)
		a := &api.Alert{Metric: api.Metric{Name: pingMetricName, Peer: failing, Valid: true}, TriggeredAt: time.Now()}
		select {
		case in.mon.alerts <- a:
		case <-in.done:
		case <-time.After(5 * time.Second):
			x.stat(0, 1) // the handler stopped taking alerts
		}
		time.Sleep(100 * time.Microsecond)
	})
	for k := 2; k < 4; k++ {
		x.loop("StateSync", k, func(r *vRand, i int) {
			if err := cur.Load().(*inst).c.StateSync(ctx); err != nil {
				x.stat(2, 1)
			}
		})
	}
	for k := 4; k < x.scen.Workers+2; k++ {
		x.loop("Pins", k, func(r *vRand, i int) {
			pins, err := cur.Load().(*inst).c.Pins(ctx)
			if err != nil {
				x.stat(3, 1)
				return
			}
			seen := map[cid.Cid]bool{}
			for _, p := range pins {
				if p == nil || !p.Cid.Defined() || seen[p.Cid] {
					x.stat(4, 1) // torn: empty or duplicated entry
					continue
				}
				seen[p.Cid] = true
			}
			if len(pins) != npins {
				x.stat(5, 1) // the pinset of the scenario never changes
			}
			time.Sleep(200 * time.Microsecond)
		})
	}
	x.wait()
	cur.Load().(*inst).cancel()
}
