//go:build verif

package ipfscluster

// C10 correspondence harness: 1..8 struct-literal Cluster peers sharing one fake consensus (real dsstate) and
// one metric table. A peer fails (ping alert delivered to each survivor's real alertsHandler goroutine, one after
// the other), is removed (real PeerRemove -> vacatePeer), or every peer runs the real StateSync on a pinset
// with expired pins. Observed: LogPin / LogUnpin per peer, the pinset after each peer's run, whether the alert
// was recorded, and the real distanceChecker's isClosest answers (real blake2b).

import (
	"context"
	"encoding/json"
	"fmt"
	"math/big"
	"strings"
	"testing"
	"time"

	"github.com/ipfs/ipfs-cluster/allocator/ascendalloc"
	"github.com/ipfs/ipfs-cluster/allocator/descendalloc"
	"github.com/ipfs/ipfs-cluster/api"

	peer "github.com/libp2p/go-libp2p-core/peer"
	"golang.org/x/crypto/blake2b"
)

const vc10NPeers = 8

type vC10Actor struct {
	Self     int  `json:"self"`
	Follower bool `json:"follower"`
	NoRepin  bool `json:"no_repin"`
}

type vC10Case struct {
	DefMin    int            `json:"def_min"`
	DefMax    int            `json:"def_max"`
	Rev       bool           `json:"rev"`
	Members   []int          `json:"members"`
	Untrusted []int          `json:"untrusted"`
	Metrics   []vMetricState `json:"metrics"`
	Links     []vC04Link     `json:"links"`
	Pins      []vC04Pin      `json:"pins"`
	Kind      int            `json:"kind"` // 0 ping alert, 1 other alert, 2 peer removal, 3 state sync
	F         int            `json:"f"`
	Actors    []vC10Actor    `json:"actors"`
}

type vC10StepObs struct {
	Self     int       `json:"self"`
	Recorded bool      `json:"recorded"`
	Logs     []string  `json:"logs"`
	Cids     []int     `json:"cids"`
	Pinset   []vC04Pin `json:"pinset"`
}

type vC10Obs struct {
	Initial []vC04Pin     `json:"initial"`
	Steps   []vC10StepObs `json:"steps"`
	Closest [][4]int      `json:"closest"` // self, excluded (-1 none), cid, answer
}

func vc10In(xs []int, x int) bool {
	for _, y := range xs {
		if y == x {
			return true
		}
	}
	return false
}

func vC10Gen(r *vRand) vC10Case {
	c := vC10Case{Rev: r.chance(50), Untrusted: []int{}}
	c.DefMin = r.rng(1, 2)
	c.DefMax = c.DefMin + r.intn(2)
	n := r.rng(1, vc10NPeers)
	if r.chance(70) {
		n = r.rng(3, vc10NPeers)
	}
	perm := []int{0, 1, 2, 3, 4, 5, 6, 7}
	for i := len(perm) - 1; i > 0; i-- {
		j := r.intn(i + 1)
		perm[i], perm[j] = perm[j], perm[i]
	}
	c.Members = append([]int{}, perm[:n]...)
	c.F = c.Members[r.intn(n)]
	switch x := r.intn(100); {
	case x < 55:
		c.Kind = 0
	case x < 60:
		c.Kind = 1
	case x < 80:
		c.Kind = 2
	default:
		c.Kind = 3
	}
	if r.chance(8) && n > 1 {
		c.Untrusted = []int{c.Members[r.intn(n)]}
	}
	for _, p := range c.Members {
		st := 1
		switch x := r.intn(100); {
		case x < 75:
			st = 1
		case x < 82:
			st = 0
		case x < 90:
			st = 2
		case x < 96:
			st = 3
		default:
			st = 4
		}
		if p == c.F && c.Kind < 2 && r.chance(80) {
			st = 2 // the failed peer's metric has expired
		}
		c.Metrics = append(c.Metrics, vMetricState{Peer: p, State: st, Value: r.intn(1000)*10 + p})
	}
	// pinset
	np := r.rng(1, 6)
	used := map[int]bool{}
	for i := 0; i < np; i++ {
		k := r.rng(1, 7)
		if used[k] {
			continue
		}
		used[k] = true
		p := vC04Pin{Cid: k, Type: 1, Depth: -1, Allocs: []int{}, Opts: vC04Opts{UAlloc: []int{}, Origins: []int{}}}
		o := &p.Opts
		switch x := r.intn(100); {
		case x < 12:
			o.Rmin, o.Rmax = -1, -1
		default:
			o.Rmin = r.rng(1, 3)
			o.Rmax = o.Rmin + r.intn(3)
		}
		if o.Rmin > 0 {
			want := r.rng(o.Rmin, o.Rmax)
			if r.chance(10) {
				want = r.rng(0, o.Rmax+1)
			}
			cand := append([]int{}, c.Members...)
			for i := len(cand) - 1; i > 0; i-- {
				j := r.intn(i + 1)
				cand[i], cand[j] = cand[j], cand[i]
			}
			if r.chance(65) && c.Kind < 3 { // the failed peer holds it
				p.Allocs = append(p.Allocs, c.F)
			}
			for _, q := range cand {
				if len(p.Allocs) >= want {
					break
				}
				if !vc10In(p.Allocs, q) {
					p.Allocs = append(p.Allocs, q)
				}
			}
			if r.chance(5) { // a holder that is not a member any more
				p.Allocs = append(p.Allocs, perm[7])
			}
		}
		if r.chance(50) {
			o.Name = r.rng(1, 3)
		}
		if r.chance(40) {
			for j := 0; j < r.rng(1, 2); j++ {
				o.Meta = append(o.Meta, [2]int{r.rng(1, 3), r.rng(0, 2)})
			}
		}
		if r.chance(20) {
			o.Origins = []int{r.rng(1, 3)}
		}
		if r.chance(15) {
			o.Mode = 1
			p.Depth = 0
		}
		pastPct, futPct := 6, 25
		if c.Kind == 3 {
			pastPct, futPct = 50, 25
		}
		if x := r.intn(100); x < pastPct {
			o.HasExp, o.ExpS = true, -int64(3600*r.rng(1, 3))
		} else if x < pastPct+futPct {
			o.HasExp, o.ExpS = true, int64(3600*r.rng(1, 3))
		}
		if r.chance(22) { // created by pin-update: source present or gone
			o.Update = r.rng(1, 7)
		}
		if r.chance(12) {
			switch r.intn(3) {
			case 0:
				p.Type, p.Depth, p.Ref, p.Allocs = 2, -1, 6, []int{}
			case 1:
				p.Type, p.Depth, p.Ref = 3, 0, 5
			default:
				p.Type, p.Depth = 4, 1
			}
		}
		p.Opts.normalise(vc10NPeers)
		c.Pins = append(c.Pins, p)
	}
	if r.chance(30) {
		c.Links = append(c.Links, vC04Link{Cid: 6, Links: []int{7}})
	}
	// who runs, in which order
	var cand []int
	for _, m := range c.Members {
		if c.Kind < 3 && m == c.F {
			continue
		}
		cand = append(cand, m)
	}
	for i := len(cand) - 1; i > 0; i-- {
		j := r.intn(i + 1)
		cand[i], cand[j] = cand[j], cand[i]
	}
	if c.Kind == 2 && len(cand) > 0 {
		cand = cand[:1]
	}
	globalNoRepin := r.chance(7)
	for _, m := range cand {
		if c.Kind != 2 && r.chance(4) {
			continue // this peer never gets to handle it
		}
		fol := r.chance(6)
		if vc10In(c.Untrusted, m) && r.chance(60) {
			fol = true // the usual layout: the members nobody trusts are followers
		}
		c.Actors = append(c.Actors, vC10Actor{Self: m, Follower: fol, NoRepin: globalNoRepin || r.chance(4)})
	}
	return c
}

func (c *vC10Case) normalise() {
	seen := map[int]bool{}
	var ms []int
	for _, m := range c.Members {
		if m < 0 || m >= vc10NPeers || seen[m] {
			continue
		}
		seen[m] = true
		ms = append(ms, m)
	}
	if len(ms) == 0 {
		ms = []int{0}
	}
	c.Members = ms
	if !seen[c.F] {
		c.F = ms[0]
	}
	if c.Kind < 0 || c.Kind > 3 {
		c.Kind = 0
	}
	var us []int
	for _, u := range c.Untrusted {
		if seen[u] && !vc10In(us, u) {
			us = append(us, u)
		}
	}
	if us == nil {
		us = []int{}
	}
	c.Untrusted = us
	seenM := map[int]bool{}
	var mt []vMetricState
	for _, m := range c.Metrics {
		if !seen[m.Peer] || seenM[m.Peer] || m.State < 0 || m.State > 4 || m.Value < 0 {
			continue
		}
		seenM[m.Peer] = true
		mt = append(mt, m)
	}
	c.Metrics = mt
	seenC := map[int]bool{}
	var ps []vC04Pin
	for _, p := range c.Pins {
		if p.Cid < 1 || p.Cid > len(vc04Cids) || seenC[p.Cid] {
			continue
		}
		seenC[p.Cid] = true
		if p.Type < 0 || p.Type > 4 {
			p.Type = 1
		}
		if p.Ref < 0 || p.Ref > len(vc04Cids) {
			p.Ref = 0
		}
		p.Allocs = vc04Clamp(p.Allocs, 0, vc10NPeers-1)
		p.Opts.normalise(vc10NPeers)
		p.Opts.UAlloc = []int{}
		ps = append(ps, p)
	}
	c.Pins = ps
	var ls []vC04Link
	seenL := map[int]bool{}
	for _, l := range c.Links {
		if l.Cid < 1 || l.Cid > len(vc04Cids) || seenL[l.Cid] {
			continue
		}
		seenL[l.Cid] = true
		l.Links = vc04Clamp(l.Links, 1, len(vc04Cids))
		ls = append(ls, l)
	}
	c.Links = ls
	seenA := map[int]bool{}
	var as []vC10Actor
	for _, a := range c.Actors {
		if !seen[a.Self] || seenA[a.Self] || (c.Kind < 3 && a.Self == c.F) {
			continue
		}
		seenA[a.Self] = true
		as = append(as, a)
	}
	if c.Kind == 2 && len(as) > 1 {
		as = as[:1]
	}
	c.Actors = as
}

func vc10Hash(s string) string {
	h := blake2b.Sum256([]byte(s))
	return new(big.Int).SetBytes(h[:]).String()
}

func vc10Wait(ch <-chan struct{}, what string) {
	select {
	case <-ch:
	case <-time.After(60 * time.Second):
		panic("verif: timeout waiting for " + what)
	}
}

func vC10Run(c vC10Case) (obs vC10Obs, term string, panicked interface{}) {
	defer func() {
		if r := recover(); r != nil {
			panicked = r
		}
	}()
	bg := context.Background()
	t0 := time.Unix(time.Now().Unix(), 0)
	cons := newVCons()
	cons.peers = vPeerList(c.Members)
	for _, u := range c.Untrusted {
		cons.untrust[vPeers[u]] = true
	}
	ipfs := &vIPFS{resolve: map[string]int{}, links: map[int]vC04Link{}}
	for _, l := range c.Links {
		ipfs.links[l.Cid] = l
	}
	for _, p := range c.Pins {
		if err := cons.st.Add(bg, p.toAPI(t0)); err != nil {
			panic(err)
		}
	}
	mk := func(self int, fol, norep bool) (*Cluster, *vMonitor, context.CancelFunc) {
		ctx, cancel := context.WithCancel(bg)
		mon := newVMonitor()
		mon.alerts = make(chan *api.Alert) // unbuffered: a send completes when the handler takes it
		mon.peers = func() ([]peer.ID, error) { return cons.peers, nil }
		mon.load("vmetric", c.Metrics)
		cl := &Cluster{ctx: ctx, id: vPeers[self], consensus: &vConsView{cons, self}, ipfs: ipfs, monitor: mon,
			config:    &Config{ReplicationFactorMin: c.DefMin, ReplicationFactorMax: c.DefMax, FollowerMode: fol, DisableRepinning: norep},
			informers: []Informer{&vInformer{"vmetric"}}}
		if c.Rev {
			cl.allocator = descendalloc.NewAllocator()
		} else {
			cl.allocator = ascendalloc.NewAllocator()
		}
		return cl, mon, cancel
	}
	probe, _, pcancel := mk(c.Members[0], false, false)
	defer pcancel()
	initial, err := vc04Pinset(bg, probe, t0)
	if err != nil {
		panic(err)
	}
	obs.Initial = initial
	// the real distanceChecker's answers, for every candidate peer and every pinned CID
	excl := peer.ID("")
	exclIdx := -1
	if c.Kind < 3 {
		excl, exclIdx = vPeers[c.F], c.F
	}
	var cterms []string
	for _, m := range c.Members {
		if m == exclIdx {
			continue
		}
		pc, _, cancel := mk(m, false, false)
		d, err := pc.distances(bg, excl)
		cancel()
		if err != nil {
			panic(err)
		}
		for _, p := range initial {
			b := d.isClosest(vc04Cid(p.Cid))
			bi := 0
			if b {
				bi = 1
			}
			obs.Closest = append(obs.Closest, [4]int{m, exclIdx, p.Cid, bi})
			ex := "None"
			if exclIdx >= 0 {
				ex = fmt.Sprintf("(Some %d%%N)", exclIdx)
			}
			cterms = append(cterms, fmt.Sprintf("(%d%%N, %s, %d%%N, %s)", m, ex, p.Cid, cqBool(b)))
		}
	}
	var sterms []string
	for _, a := range c.Actors {
		cl, mon, cancel := mk(a.Self, a.Follower, a.NoRepin)
		so := vC10StepObs{Self: a.Self}
		switch c.Kind {
		case 0, 1:
			name := pingMetricName
			if c.Kind == 1 {
				name = "vother"
			}
			done := make(chan struct{})
			go func() {
				defer func() {
					if r := recover(); r != nil {
						fmt.Printf("VERIF-DIRECT-VIOLATION {\"signature\":\"panic-alerts-handler\",\"detail\":%q}\n", fmt.Sprint(r))
					}
					close(done)
				}()
				cl.alertsHandler()
			}()
			sent := make(chan struct{})
			go func() {
				defer close(sent)
				select {
				case mon.alerts <- &api.Alert{Metric: api.Metric{Name: name, Peer: vPeers[c.F], Valid: false}, TriggeredAt: time.Now()}:
				case <-done:
					return
				}
				// taken only once the first alert has been dealt with (or never, if the handler returned)
				select {
				case mon.alerts <- &api.Alert{Metric: api.Metric{Name: "vsentinel", Peer: vPeers[c.F]}, TriggeredAt: time.Now()}:
				case <-done:
				}
			}()
			vc10Wait(sent, "alert delivery")
			cancel()
			vc10Wait(done, "alertsHandler exit")
			for _, al := range cl.Alerts() {
				if al.Name == name {
					so.Recorded = true
				}
			}
		case 2:
			if err := cl.PeerRemove(bg, vPeers[c.F]); err != nil {
				panic(err)
			}
		default:
			if err := cl.StateSync(bg); err != nil {
				panic(err)
			}
		}
		cancel()
		so.Logs = cons.takeLogs()
		so.Cids = []int{}
		want := "pin "
		if c.Kind == 3 {
			want = "unpin "
		}
		for _, l := range so.Logs {
			var k, by int
			if strings.HasPrefix(l, want) {
				if _, err := fmt.Sscanf(l[len(want):], "%d by %d", &k, &by); err == nil {
					so.Cids = append(so.Cids, k)
					continue
				}
			}
			so.Cids = append(so.Cids, 9999) // a log call of the wrong kind
		}
		ps, err := vc04Pinset(bg, probe, t0)
		if err != nil {
			panic(err)
		}
		so.Pinset = ps
		obs.Steps = append(obs.Steps, so)
		sterms = append(sterms, fmt.Sprintf("(%d%%N, %s, %s, %s, %s, %s)", a.Self, cqBool(a.Follower), cqBool(a.NoRepin), cqBool(so.Recorded),
			vc04CoqListN(so.Cids), vc04CoqPins(ps)))
	}
	var hp, hc, ls []string
	for _, m := range c.Members {
		hp = append(hp, fmt.Sprintf("(%d%%N, %s%%N)", m, vc10Hash(string(vPeers[m]))))
	}
	for k := 1; k <= len(vc04Cids); k++ {
		hc = append(hc, fmt.Sprintf("(%d%%N, %s%%N)", k, vc10Hash(vc04Cid(k).KeyString())))
	}
	for _, l := range c.Links {
		if !l.Bad {
			ls = append(ls, fmt.Sprintf("(%d%%N, %s)", l.Cid, vc04CoqListN(l.Links)))
		}
	}
	term = fmt.Sprintf("(%s, %s, %s,\n  %s,\n  %s,\n  %s, %s, %s, %s,\n  %s,\n  (%d%%N, %d%%N, %s),\n  %s)",
		cqZ(int64(c.DefMin)), cqZ(int64(c.DefMax)), cqBool(c.Rev), cqList(hp), cqList(hc), vc04CoqListN(c.Members), vc04CoqListN(c.Untrusted),
		vCoqMetrics(c.Metrics), cqList(ls), vc04CoqPins(initial), c.Kind, c.F, "["+strings.Join(sterms, ";\n   ")+"]", cqList(cterms))
	return obs, term, nil
}

func TestVerifC10(t *testing.T) {
	vc04Quiet()
	vPeerUniverse(10)
	vc04Universe()
	seed := uint64(vEnvInt("VERIF_SEED", 1))
	n := vEnvInt("VERIF_N", 100)
	out := newVOut("C10", "From V Require Import Base.Common Model.C03_Alloc Model.C04_ClusterOps Model.C10_Repin Model.C10_Check.\nOpen Scope N_scope.",
		"case", "Definition R := Eval vm_compute in failing cases.\nPrint R.")
	defer out.close()
	var cases []vC10Case
	if raw := vCasesIn(); raw != nil {
		for _, b := range raw {
			var c vC10Case
			if err := json.Unmarshal(b, &c); err != nil {
				t.Fatal(err)
			}
			cases = append(cases, c)
		}
	} else {
		r := newVRand(seed*1000003 + 10)
		for i := 0; i < n; i++ {
			cases = append(cases, vC10Gen(r.fork()))
		}
	}
	for _, c := range cases {
		c.normalise()
		obs, term, pan := vC10Run(c)
		if pan != nil {
			b, _ := json.Marshal(map[string]interface{}{"signature": "panic", "detail": fmt.Sprint(pan), "case": map[string]interface{}{"input": c}})
			fmt.Printf("VERIF-DIRECT-VIOLATION %s\n", b)
			continue
		}
		out.count(fmt.Sprintf("kind_%d", c.Kind))
		out.count(fmt.Sprintf("members_%d", len(c.Members)))
		holds, upd, logged := 0, 0, 0
		for _, p := range obs.Initial {
			if vc10In(p.Allocs, c.F) && c.Kind < 3 {
				holds++
				if p.Opts.Update != 0 && p.Opts.Update != p.Cid {
					upd++
				}
			}
			if p.Opts.HasExp && p.Opts.ExpS < 0 {
				out.count("expired_pin")
			}
		}
		for _, s := range obs.Steps {
			logged += len(s.Cids)
		}
		if holds > 0 {
			out.count("holds_failed")
		}
		if upd > 0 {
			out.count("update_pin_holds_failed")
		}
		if logged > 0 {
			out.count("some_log")
		}
		if len(obs.Steps) > 0 && len(obs.Initial) > 0 && fmt.Sprint(obs.Steps[len(obs.Steps)-1].Pinset) != fmt.Sprint(obs.Initial) {
			out.count("pinset_changed")
		}
		nontriv := len(c.Members) >= 2 && len(c.Actors) >= 1 && (holds > 0 || c.Kind == 3) && len(obs.Initial) > 0
		out.add(term, c, obs, nontriv)
	}
}
