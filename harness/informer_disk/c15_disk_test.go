//go:build verif

package disk

import (
	"reflect"
	"testing"
)

func TestVerifC15Disk(t *testing.T) {
	vc15Main(t, &vc15Section{
		Name: "disk", Index: 9, EnvPrefix: "CLUSTER_DISK",
		New:      func() vc15Config { return &Config{} },
		JSONType: reflect.TypeOf(jsonConfig{}),
		Hints:    map[string]string{"metric_ttl": "dur", "metric_type": "enum"},
		Extra:    map[string][]interface{}{"metric_type": {"freespace", "reposize", "Freespace", "free"}},
	})
}
