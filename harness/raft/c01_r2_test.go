//go:build verif

package raft

// Rig R2 of C01: the REAL component. NewConsensus over libp2p hosts, raft-boltdb and the file snapshot store, 1 or 3
// peers, LogPin/LogUnpin at the leader and (redirected over a real libp2p RPC) at followers, Shutdown (which
// snapshots), restart on the same data folder, a follower that is down while the leader unpins, snapshots and
// compacts (InstallSnapshot onto the state the follower restored from its own older snapshot), OfflineState.
// There is no guard FSM here: what is compared is what every peer serves after it caught up with the
// sequence of acknowledged operations. The case is written in the vocabulary of rig R1 as the schedule in which
// every peer applies every entry, so the same Coq checker evaluates it.

import (
	"sync/atomic"
	"errors"
	"context"
	"crypto/rand"
	"encoding/json"
	"fmt"
	"os"
	"sort"
	"strings"
	"sync"
	"testing"
	"time"

	"github.com/ipfs/ipfs-cluster/api"
	"github.com/ipfs/ipfs-cluster/datastore/inmem"

	ds "github.com/ipfs/go-datastore"
	query "github.com/ipfs/go-datastore/query"
	libp2p "github.com/libp2p/go-libp2p"
	crypto "github.com/libp2p/go-libp2p-core/crypto"
	host "github.com/libp2p/go-libp2p-core/host"
	peer "github.com/libp2p/go-libp2p-core/peer"
	peerstore "github.com/libp2p/go-libp2p-core/peerstore"
	rpc "github.com/libp2p/go-libp2p-gorpc"
)

type vR2Cmd struct {
	Op   string   `json:"op"`   // pin unpin down up snap obs rpcfail
	Node int      `json:"node"` // relative to the leader
	Pin  *vC01Pin `json:"pin,omitempty"`
	K    int      `json:"k,omitempty"` // rpcfail: the next K redirected Consensus calls that reach this member fail before they commit
	// down: a LogPin of this pin (on a cid no other command uses) is submitted to the member WHILE it shuts down, at the point
	// where Shutdown writes its final snapshot
	Race *vC01Pin `json:"race,omitempty"`
}

// vR2Store is the datastore handed to NewConsensus: a pass-through which can run a function the next time the pinset is
// enumerated (dsstate.Marshal, i.e. while a snapshot is being written). It serves to place a call at a chosen point of
// Shutdown; it changes nothing of what is stored or returned.
type vR2Store struct {
	ds.Datastore
	mu   sync.Mutex
	hook func()
}

func (s *vR2Store) arm(f func()) { s.mu.Lock(); s.hook = f; s.mu.Unlock() }
func (s *vR2Store) Query(q query.Query) (query.Results, error) {
	s.mu.Lock()
	h := s.hook
	s.hook = nil
	s.mu.Unlock()
	if h != nil {
		h()
	}
	return s.Datastore.Query(q)
}

type vR2Case struct {
	N    int      `json:"n"`
	Cmds []vR2Cmd `json:"cmds"`
}

type vR2ConsSvc struct{ n *vR2Node }

// fault injection at the leader's end of a redirect: the call fails without committing anything (what a leader that has
// just lost its quorum, or whose commit times out, answers)
func (s *vR2ConsSvc) injected() bool {
	if atomic.AddInt32(&s.n.failRPC, -1) >= 0 {
		atomic.AddInt32(&s.n.injectedN, 1)
		return true
	}
	atomic.StoreInt32(&s.n.failRPC, 0)
	atomic.AddInt32(&s.n.realN, 1)
	atomic.StoreInt32(&s.n.rig.handledBy, int32(s.n.idx)) // this member runs the redirected commit (nested redirects: the last one)
	return false
}

func (s *vR2ConsSvc) LogPin(ctx context.Context, in *api.Pin, out *struct{}) error {
	if s.injected() {
		return errors.New("verif: injected failure of the redirected commit")
	}
	return s.n.cc.LogPin(ctx, in)
}
func (s *vR2ConsSvc) LogUnpin(ctx context.Context, in *api.Pin, out *struct{}) error {
	if s.injected() {
		return errors.New("verif: injected failure of the redirected commit")
	}
	return s.n.cc.LogUnpin(ctx, in)
}
func (s *vR2ConsSvc) AddPeer(ctx context.Context, in peer.ID, out *struct{}) error {
	return s.n.cc.AddPeer(ctx, in)
}
func (s *vR2ConsSvc) RmPeer(ctx context.Context, in peer.ID, out *struct{}) error {
	return s.n.cc.RmPeer(ctx, in)
}

type vR2Node struct {
	idx    int
	priv   crypto.PrivKey
	id     peer.ID
	h      host.Host
	cc     *Consensus
	cfg    *Config
	folder string
	rec    *vC01Recorder
	up     bool
	// redirected Consensus calls: still to fail / failed by injection / handed to the real component
	failRPC, injectedN, realN int32
	store                     *vR2Store
	rig                       *vR2Rig
}

type vR2Rig struct {
	nodes     []*vR2Node
	tag       string
	handledBy int32 // the member that ran the last redirected commit (-1: none since it was reset)
}

func vR2NewRig(n int, tag string) (*vR2Rig, error) {
	r := &vR2Rig{tag: tag}
	for i := 0; i < n; i++ {
		priv, pub, err := crypto.GenerateEd25519Key(rand.Reader)
		if err != nil {
			return nil, err
		}
		id, err := peer.IDFromPublicKey(pub)
		if err != nil {
			return nil, err
		}
		nd := &vR2Node{idx: i, priv: priv, id: id, folder: fmt.Sprintf("vr2-%s-%d", tag, i), rec: &vC01Recorder{}, rig: r}
		os.RemoveAll(nd.folder)
		r.nodes = append(r.nodes, nd)
	}
	return r, nil
}

func (r *vR2Rig) cleanup() {
	for _, n := range r.nodes {
		if n.up {
			r.down(n)
		}
		os.RemoveAll(n.folder)
	}
}

// up starts (or restarts, on the same data folder) node n with the real NewConsensus.
func (r *vR2Rig) startNode(n *vR2Node, peers []peer.ID) error {
	h, err := libp2p.New(context.Background(), libp2p.Identity(n.priv), libp2p.ListenAddrStrings("/ip4/127.0.0.1/tcp/0"))
	if err != nil {
		return err
	}
	n.h = h
	for _, m := range r.nodes {
		if m != n && m.up {
			h.Peerstore().AddAddrs(m.id, m.h.Addrs(), peerstore.PermanentAddrTTL)
			m.h.Peerstore().AddAddrs(n.id, h.Addrs(), peerstore.PermanentAddrTTL)
		}
	}
	cfg := &Config{}
	cfg.Default()
	cfg.DataFolder = n.folder
	cfg.hostShutdown = true
	cfg.InitPeerset = peers
	cfg.WaitForLeaderTimeout = 15 * time.Second
	cfg.NetworkTimeout = 3 * time.Second
	cfg.CommitRetries = 2
	cfg.CommitRetryDelay = 100 * time.Millisecond
	cfg.RaftConfig.HeartbeatTimeout = 150 * time.Millisecond
	cfg.RaftConfig.ElectionTimeout = 150 * time.Millisecond
	cfg.RaftConfig.LeaderLeaseTimeout = 150 * time.Millisecond
	cfg.RaftConfig.CommitTimeout = 10 * time.Millisecond
	cfg.RaftConfig.SnapshotInterval = time.Hour
	cfg.RaftConfig.TrailingLogs = 1
	n.cfg = cfg
	n.store = &vR2Store{Datastore: inmem.New()}
	cc, err := NewConsensus(h, cfg, n.store, false)
	if err != nil {
		h.Close()
		return err
	}
	s := rpc.NewServer(h, "/vr2/rpc")
	if err := s.RegisterName("PinTracker", &vC01TrackerSvc{rec: n.rec}); err != nil {
		return err
	}
	if err := s.RegisterName("Consensus", &vR2ConsSvc{n: n}); err != nil {
		return err
	}
	n.cc = cc
	cc.SetClient(rpc.NewClientWithServer(h, "/vr2/rpc", s))
	n.up = true
	return nil
}

func (r *vR2Rig) waitReady(n *vR2Node, d time.Duration) bool {
	select {
	case <-n.cc.Ready(context.Background()):
		return true
	case <-time.After(d):
		return false
	}
}

func (r *vR2Rig) down(n *vR2Node) {
	if n.up {
		n.cc.Shutdown(context.Background())
		n.up = false
	}
}

func (r *vR2Rig) leader(d time.Duration) *vR2Node {
	deadline := time.Now().Add(d)
	for {
		for _, n := range r.nodes {
			if n.up {
				if l, err := n.cc.Leader(context.Background()); err == nil && l == n.id {
					if n.cc.raft.raft.VerifyLeader().Error() == nil {
						return n
					}
				}
			}
		}
		if time.Now().After(deadline) {
			return nil
		}
		time.Sleep(10 * time.Millisecond)
	}
}

// caughtUp waits until every running peer has applied the leader's last index.
func (r *vR2Rig) caughtUp(d time.Duration) bool {
	deadline := time.Now().Add(d)
	for {
		if l := r.leader(500 * time.Millisecond); l != nil {
			last := l.cc.raft.raft.LastIndex()
			ok := l.cc.raft.raft.AppliedIndex() == last
			for _, n := range r.nodes {
				if n.up && n != l && (n.cc.raft.raft.AppliedIndex() != last || n.cc.raft.raft.LastIndex() != last) {
					ok = false
				}
			}
			if ok {
				// hashicorp/raft counts an entry as applied when it is queued for the FSM: wait for the queues to drain
				for _, n := range r.nodes {
					if n.up && n.cc.raft.raft.Stats()["fsm_pending"] != "0" {
						ok = false
					}
				}
			}
			if ok {
				time.Sleep(10 * time.Millisecond) // the entry the FSM goroutine had already taken from the queue
				if l.cc.raft.raft.LastIndex() == last {
					return true
				}
			}
		}
		if time.Now().After(deadline) {
			return false
		}
		time.Sleep(10 * time.Millisecond)
	}
}

// vR2SnapID: the ID of the newest snapshot in a data folder ("" if none)
func vR2SnapID(folder string) string {
	meta, rc, err := latestSnapshot(folder)
	if err != nil || meta == nil {
		return ""
	}
	if rc != nil {
		rc.Close()
	}
	return meta.ID
}

func (r *vR2Rig) injectedSince(base int32) int32 {
	var t int32
	for _, n := range r.nodes {
		t += atomic.LoadInt32(&n.injectedN)
	}
	return t - base
}

func (r *vR2Rig) realSince(base int32) int32 {
	var t int32
	for _, n := range r.nodes {
		t += atomic.LoadInt32(&n.realN)
	}
	return t - base
}

func vR2List(cc *Consensus) ([]vC01Pin, bool) {
	st, err := cc.State(context.Background())
	if err != nil {
		return nil, false
	}
	pins, err := st.List(context.Background())
	if err != nil {
		return nil, false
	}
	out := []vC01Pin{}
	for _, p := range pins {
		out = append(out, vC01Render(p))
	}
	sort.Slice(out, func(i, j int) bool { return out[i].Cid < out[j].Cid })
	return out, true
}

func vR2Gen(r *vRand, n int) vR2Case {
	c := vR2Case{N: n}
	ncids := 3
	write := func() vR2Cmd {
		node := 0
		if n > 1 && r.chance(40) {
			node = r.intn(n)
		}
		if r.chance(62) {
			p := vC01GenPin(r, ncids, r.intn(2), false)
			if r.chance(15) {
				p.Name = vC01BadName // unserialisable: must be refused wherever it is submitted
			}
			return vR2Cmd{Op: "pin", Node: node, Pin: p}
		}
		return vR2Cmd{Op: "unpin", Node: node, Pin: &vC01Pin{Cid: r.intn(ncids), Type: 2, MaxDepth: -1, Update: -1, Ref: -1}}
	}
	for i := 0; i < 3+r.intn(3); i++ {
		c.Cmds = append(c.Cmds, write())
	}
	if n > 1 {
		// the leader fails redirected commits for a while; a write at a follower must then be reported as failed (or succeed on a retry)
		c.Cmds = append(c.Cmds, vR2Cmd{Op: "rpcfail", Node: 0, K: 1 + r.intn(5)})
		w := write()
		w.Node = 1 + r.intn(n-1)
		c.Cmds = append(c.Cmds, w, vR2Cmd{Op: "rpcfail", Node: 0, K: 0}, write())
	}
	c.Cmds = append(c.Cmds, vR2Cmd{Op: "obs"})
	if n > 1 {
		f := 1 + r.intn(n-1)
		c.Cmds = append(c.Cmds, vR2Cmd{Op: "down", Node: f})
		for i := 0; i < 2+r.intn(3); i++ {
			c.Cmds = append(c.Cmds, write())
		}
		c.Cmds = append(c.Cmds, vR2Cmd{Op: "snap", Node: 0}, write(), vR2Cmd{Op: "up"}, vR2Cmd{Op: "obs"})
		// the LEADER shuts down while a pin is submitted to it (the others keep the quorum), comes back, everybody is observed
		c.Cmds = append(c.Cmds, vR2Cmd{Op: "down", Node: 0, Race: vC01GenPin(r, ncids, 0, false)}, write(), vR2Cmd{Op: "up"}, vR2Cmd{Op: "obs"})
	} else {
		c.Cmds = append(c.Cmds, vR2Cmd{Op: "down", Node: 0, Race: vC01GenPin(r, ncids, 0, false)}, vR2Cmd{Op: "up"}, vR2Cmd{Op: "obs"}, write(), write(), vR2Cmd{Op: "snap", Node: 0}, write())
		if r.chance(50) {
			c.Cmds = append(c.Cmds, vR2Cmd{Op: "down", Node: 0, Race: vC01GenPin(r, ncids, 0, false)}, vR2Cmd{Op: "up"}, vR2Cmd{Op: "obs"})
		}
	}
	return c
}

type vR2Result struct {
	term    string
	obs     map[string]interface{}
	skipped string
	nontriv bool
}

func vR2Run(c vR2Case, tag string) (res vR2Result) {
	if c.N < 1 {
		c.N = 1
	}
	if c.N > 3 {
		c.N = 3
	}
	ctx := context.Background()
	rig, err := vR2NewRig(c.N, tag)
	if err != nil {
		res.skipped = err.Error()
		return
	}
	defer rig.cleanup()
	var ids []peer.ID
	for _, n := range rig.nodes {
		ids = append(ids, n.id)
	}
	for _, n := range rig.nodes {
		if err := rig.startNode(n, ids); err != nil {
			res.skipped = "start: " + err.Error()
			return
		}
	}
	for _, n := range rig.nodes {
		if !rig.waitReady(n, 30*time.Second) {
			res.skipped = "not ready"
			return
		}
	}
	var cmds []string           // Coq command table
	var evs []string            // Coq events
	applied := make([]int, c.N) // pseudo-schedule: how many entries each peer has been given in the trace
	nlog := 0
	refused := 0 // unserialisable pins refused, as they must be
	out_injected := 0 // ops whose every redirect attempt met the injected failure and that were reported as errors
	var obsJSON []interface{}
	restartedAny := false
	firstPhase := true
	raceN, raceAcked, raceRefused, raceRefusedInLog, raceSkipped := 0, 0, 0, 0, 0
	catchUp := func(n *vR2Node) {
		for applied[n.idx] < nlog {
			evs = append(evs, fmt.Sprintf("OApply %d %d", n.idx, applied[n.idx]))
			applied[n.idx]++
		}
	}
	observe := func() bool {
		if !rig.caughtUp(30 * time.Second) {
			res.skipped = "peers did not catch up"
			return false
		}
		for _, n := range rig.nodes {
			if !n.up {
				continue
			}
			catchUp(n)
			pins, ok := vR2List(n.cc)
			obsJSON = append(obsJSON, map[string]interface{}{"node": n.idx, "ok": ok, "pins": pins})
			if !ok {
				evs = append(evs, fmt.Sprintf("OObs %d None", n.idx))
				continue
			}
			ps := make([]string, len(pins))
			for i, p := range pins {
				ps[i] = p.coq()
			}
			evs = append(evs, fmt.Sprintf("OObs %d (Some %s)", n.idx, cqList(ps)))
		}
		return true
	}
	resolve := func(rel int) *vR2Node {
		l := rig.leader(20 * time.Second)
		base := 0
		if l != nil {
			base = l.idx
		}
		if rel < 0 {
			rel = 0
		}
		for k := 0; k < c.N; k++ { // the first running peer from there
			n := rig.nodes[(base+rel+k)%c.N]
			if n.up {
				return n
			}
		}
		return nil
	}
	for _, cmd := range c.Cmds {
		switch cmd.Op {
		case "pin", "unpin":
			if cmd.Pin == nil {
				continue
			}
			p := *cmd.Pin
			p.sanitize()
			p.Origins = nil // S19 is exercised on rig R1
			var meta [][2]int
			for _, kv := range p.Meta {
				if kv[0] != vC01BadName && kv[1] != vC01BadName {
					meta = append(meta, kv)
				}
			}
			p.Meta = meta
			if cmd.Op == "unpin" && p.Name == vC01BadName {
				p.Name = 0
			}
			n := resolve(cmd.Node)
			if n == nil {
				res.skipped = "no running peer"
				return
			}
			var err error
			inj0, real0 := rig.injectedSince(0), rig.realSince(0)
			atomic.StoreInt32(&rig.handledBy, -1)
			if cmd.Op == "pin" && p.Name == vC01BadName {
				// a pin that cannot be serialised (name not valid UTF-8) is refused by whichever member commits it (S24), so
				// at a non-leader member the refusal comes back through the redirect to the leader: LogPin must report it.
				// A nil return is an acknowledgement and is recorded as one (the op is then owed to every replica).
				if err = n.cc.LogPin(ctx, p.real()); err != nil {
					refused++
					continue
				}
				cmds = append(cmds, "LPin "+p.coq())
			} else if cmd.Op == "pin" {
				err = n.cc.LogPin(ctx, p.real())
				cmds = append(cmds, "LPin "+p.coq())
			} else {
				err = n.cc.LogUnpin(ctx, p.real())
				cmds = append(cmds, "LUnpin "+p.coq())
			}
			if err != nil && rig.injectedSince(inj0) > 0 && rig.realSince(real0) == 0 {
				// every attempt was answered by the injected failure: the op reached no log, and the caller was told so
				cmds = cmds[:len(cmds)-1]
				out_injected++
				continue
			}
			if err != nil {
				// an unacknowledged op may or may not be in the log: nothing can be said about this run
				res.skipped = "commit error (not a verdict): " + err.Error()
				return
			}
			evs = append(evs, fmt.Sprintf("OCommit %d", len(cmds)-1))
			nlog++
			// acknowledged: the member whose CommitOp returned nil (this one, or the one the last redirect reached) has applied it
			committer := n
			if h := atomic.LoadInt32(&rig.handledBy); h >= 0 && int(h) < len(rig.nodes) {
				committer = rig.nodes[h]
			}
			catchUp(committer)
			evs = append(evs, fmt.Sprintf("OAck %d %d", len(cmds)-1, committer.idx))
		case "rpcfail":
			if n := resolve(cmd.Node); n != nil && n.up {
				k := cmd.K
				if k < 0 {
					k = 0
				}
				if k > 8 {
					k = 8
				}
				atomic.StoreInt32(&n.failRPC, int32(k))
			}
		case "down":
			n := resolve(cmd.Node)
			if n == nil || !n.up {
				continue
			}
			up := 0
			for _, m := range rig.nodes {
				if m.up {
					up++
				}
			}
			if c.N > 1 && (up-1)*2 <= c.N {
				continue // keep a quorum
			}
			if firstPhase {
				// every peer has applied every entry exactly once so far: the tracker has been told each of them
				if !rig.caughtUp(30 * time.Second) {
					res.skipped = "peers did not catch up"
					return
				}
				for _, m := range rig.nodes {
					catchUp(m)
					want := 0
					for _, cm := range cmds {
						if strings.HasPrefix(cm, "LPin") || strings.HasPrefix(cm, "LUnpin") {
							want++
						}
					}
					deadline := time.Now().Add(5 * time.Second)
					for {
						m.rec.mu.Lock()
						k := len(m.rec.calls)
						m.rec.mu.Unlock()
						if k >= want || time.Now().After(deadline) {
							break
						}
						time.Sleep(5 * time.Millisecond)
					}
					time.Sleep(20 * time.Millisecond)
					m.rec.mu.Lock()
					cs := make([]string, len(m.rec.calls))
					for i, cl := range m.rec.calls {
						if cl.Track {
							cs[i] = fmt.Sprintf("TCall true %d %d %s %d %s", cl.Pin.Cid, cl.Pin.Type, cqZ(int64(cl.Pin.MaxDepth)), cl.Pin.Mode, cqListN(cl.Pin.Allocs))
						} else {
							cs[i] = fmt.Sprintf("TCall false %d 0 0%%Z 0 []", cl.Pin.Cid)
						}
					}
					m.rec.mu.Unlock()
					evs = append(evs, fmt.Sprintf("OTrk %d %s", m.idx, cqList(cs)))
				}
				firstPhase = false
			}
			// Shutdown waits for the applied index and snapshots: in the trace the peer catches up, snapshots, stops
			if rig.caughtUp(30 * time.Second) {
				catchUp(n)
			}
			before := applied[n.idx]
			sid0 := vR2SnapID(n.folder)
			// a pin submitted to the member while it shuts down: the call is started when Shutdown writes its final snapshot
			// (the datastore is enumerated) and is given a moment to get as far as it can
			var raceRes chan error
			var racePin vC01Pin
			raceFired := make(chan struct{})
			if cmd.Race != nil && raceN < 3 {
				racePin = *cmd.Race
				racePin.sanitize()
				racePin.Origins = nil
				racePin.Meta = nil
				if racePin.Name == vC01BadName {
					racePin.Name = 0
				}
				racePin.Cid = 5 + raceN // a cid no other command of an R2 script writes: present <=> the op is in the log
				raceN++
				raceRes = make(chan error, 1)
				cc, rp := n.cc, racePin.real()
				atomic.StoreInt32(&rig.handledBy, -1)
				n.store.arm(func() {
					close(raceFired)
					go func() { raceRes <- cc.LogPin(ctx, rp) }()
					select {
					case e := <-raceRes:
						raceRes <- e
					case <-time.After(300 * time.Millisecond):
					}
				})
			}
			rig.down(n)
			if vR2SnapID(n.folder) != sid0 { // Shutdown wrote a new snapshot
				evs = append(evs, fmt.Sprintf("OSnapReq %d true", n.idx), fmt.Sprintf("OPersist %d", n.idx))
			}
			raceErrored := false
			if raceRes != nil {
				n.store.arm(nil)
				fired := false
				select {
				case <-raceFired:
					fired = true
				default:
				}
				if !fired {
					raceSkipped++ // Shutdown wrote no snapshot (nothing new): no call was made
				} else {
					select {
					case e := <-raceRes:
						if e == nil {
							// acknowledged: committed and applied at the member whose CommitOp returned nil, before the stop
							raceAcked++
							cmds = append(cmds, "LPin "+racePin.coq())
							evs = append(evs, fmt.Sprintf("OCommit %d", len(cmds)-1))
							nlog++
							committer := n
							if h := atomic.LoadInt32(&rig.handledBy); h >= 0 && int(h) < len(rig.nodes) {
								committer = rig.nodes[h]
							}
							catchUp(committer)
							evs = append(evs, fmt.Sprintf("OAck %d %d", len(cmds)-1, committer.idx))
						} else {
							raceRefused++
							raceErrored = true
						}
					case <-time.After(90 * time.Second):
						res.skipped = "the LogPin submitted during Shutdown never returned"
						return
					}
				}
			}
			evs = append(evs, fmt.Sprintf("OStopped %d", n.idx))
			// OfflineState of the stopped peer = its newest snapshot
			st, err := OfflineState(n.cfg, inmem.New())
			if err != nil {
				res.skipped = "OfflineState: " + err.Error()
				return
			}
			pins, err := st.List(ctx)
			if err != nil {
				res.skipped = "OfflineState list: " + err.Error()
				return
			}
			var off []vC01Pin
			for _, p := range pins {
				off = append(off, vC01Render(p))
			}
			sort.Slice(off, func(i, j int) bool { return off[i].Cid < off[j].Cid })
			ps := make([]string, len(off))
			for i, p := range off {
				ps[i] = p.coq()
			}
			evs = append(evs, fmt.Sprintf("OOffline %d %s", n.idx, cqList(ps)))
			obsJSON = append(obsJSON, map[string]interface{}{"node": n.idx, "offline": off, "at": before})
			if raceErrored {
				// an op reported as an error may still be in the log: its cid is written by nothing else, so it is in the log iff
				// a member that has caught up holds it. With no other member running, this one is started again to find out.
				anyUp := false
				for _, m := range rig.nodes {
					if m.up {
						anyUp = true
					}
				}
				if !anyUp {
					if err := rig.startNode(n, ids); err != nil || !rig.waitReady(n, 40*time.Second) {
						res.skipped = "restart after a refused race failed"
						return
					}
					evs = append(evs, fmt.Sprintf("ORestart %d", n.idx))
					applied[n.idx] = 0
					restartedAny = true
				}
				if !rig.caughtUp(30 * time.Second) {
					res.skipped = "peers did not catch up"
					return
				}
				for _, m := range rig.nodes {
					if !m.up {
						continue
					}
					pins, ok := vR2List(m.cc)
					if !ok {
						res.skipped = "state not served"
						return
					}
					for _, q := range pins {
						if q.Cid == racePin.Cid {
							cmds = append(cmds, "LPin "+racePin.coq())
							evs = append(evs, fmt.Sprintf("OCommit %d", len(cmds)-1))
							nlog++
							raceRefusedInLog++
						}
					}
					break
				}
			}
		case "up":
			for _, n := range rig.nodes {
				if !n.up {
					if err := rig.startNode(n, ids); err != nil {
						res.skipped = "restart: " + err.Error()
						return
					}
					if !rig.waitReady(n, 40*time.Second) {
						res.skipped = "restarted peer not ready"
						return
					}
					evs = append(evs, fmt.Sprintf("ORestart %d", n.idx))
					applied[n.idx] = 0
					restartedAny = true
				}
			}
		case "snap":
			n := resolve(cmd.Node)
			if n != nil && n.up {
				if rig.caughtUp(30 * time.Second) {
					catchUp(n)
					sid0 := vR2SnapID(n.folder)
					n.cc.raft.Snapshot()
					if vR2SnapID(n.folder) != sid0 {
						evs = append(evs, fmt.Sprintf("OSnapReq %d true", n.idx), fmt.Sprintf("OPersist %d", n.idx))
					}
				}
			}
		case "obs":
			if !observe() {
				return
			}
		}
	}
	for _, n := range rig.nodes {
		if !n.up {
			if err := rig.startNode(n, ids); err != nil || !rig.waitReady(n, 40*time.Second) {
				res.skipped = "final restart failed"
				return
			}
			evs = append(evs, fmt.Sprintf("ORestart %d", n.idx))
			applied[n.idx] = 0
			restartedAny = true
		}
	}
	if !observe() {
		return
	}
	res.term = fmt.Sprintf("(%d, %s,\n   %s)", c.N, cqList(cmds), "["+strings.Join(evs, ";\n    ")+"]")
	res.obs = map[string]interface{}{"observations": obsJSON, "log_len": nlog, "unserialisable_refused": refused, "redirect_failures_reported": out_injected,
		"race_acked": raceAcked, "race_refused": raceRefused, "race_refused_but_in_log": raceRefusedInLog, "race_no_snapshot": raceSkipped}
	res.nontriv = restartedAny && nlog >= 2
	return
}

func TestVerifR2C01(t *testing.T) {
	vC01Quiet()
	seed := uint64(vEnvInt("VERIF_SEED", 1))
	n := vEnvInt("VERIF_N", 2)
	out := newVOut("C01R2", "From V Require Import Base.Common Model.C01_RaftLog Model.C01_Check.\nOpen Scope N_scope.",
		"case", "Definition R := Eval vm_compute in failing cases.\nPrint R.")
	defer out.close()
	out.idBase += 500000 // the runner merges the sidecars of both harness entries of C01 by id
	var cases []vR2Case
	if raw := vCasesIn(); raw != nil {
		for _, b := range raw {
			var c vR2Case
			if err := json.Unmarshal(b, &c); err != nil {
				t.Fatal(err)
			}
			cases = append(cases, c)
		}
	} else {
		r := newVRand(seed ^ 0x5252)
		for i := 0; i < n; i++ {
			k := 3
			if i%3 == 1 {
				k = 1
			}
			cases = append(cases, vR2Gen(r, k))
		}
	}
	for i, c := range cases {
		var res vR2Result
		for attempt := 0; attempt < 2; attempt++ { // an infrastructure hiccup (no leader in time, commit error) is retried once
			res = vR2Run(c, fmt.Sprintf("%d-%d-%d", os.Getpid(), i, attempt))
			if res.skipped == "" {
				break
			}
			fmt.Printf("VERIF-NOTE R2 case %d attempt %d skipped: %s\n", i, attempt, res.skipped)
		}
		if res.skipped != "" {
			out.count("skipped")
			continue
		}
		out.add(res.term, c, res.obs, res.nontriv)
		out.count(fmt.Sprintf("r2_nodes=%d", c.N))
		for _, k := range []string{"race_acked", "race_refused", "race_refused_but_in_log", "race_no_snapshot"} {
			if v, ok := res.obs[k].(int); ok && v > 0 {
				out.dist["r2_"+k] += v
			}
		}
	}
}
