//go:build verif

package raft

// Rig R1 of C01/C17: N real hashicorp/raft instances on in-memory stores and
// transports, each with the REAL FSM (go-libp2p-raft OpLog over a dsstate
// with the real LogOp) and a real *Consensus value whose commit()/LogPin/
// LogUnpin/State and raftWrapper.AddPeer/RemovePeer/Snapshot are the code
// under test. A guard FSM between hashicorp/raft and the real FSM records,
// under one rig-wide mutex, every Apply / Snapshot / Persist / Restore in the
// order in which they really happened (the schedule chosen by Raft is an input
// of the Coq model) and converts a panic inside FSM.Apply into a recorded
// crash of that node instead of a crash of the test binary.

import (
	"bytes"
	"context"
	"crypto/sha1"
	"encoding/hex"
	"errors"
	"fmt"
	"io"
	"io/ioutil"
	"os"
	"sort"
	"strconv"
	"sync"
	"time"

	"github.com/ipfs/ipfs-cluster/api"
	"github.com/ipfs/ipfs-cluster/datastore/inmem"
	"github.com/ipfs/ipfs-cluster/state/dsstate"
	"github.com/ipfs/ipfs-cluster/test"

	hraft "github.com/hashicorp/raft"
	cid "github.com/ipfs/go-cid"
	host "github.com/libp2p/go-libp2p-core/host"
	peer "github.com/libp2p/go-libp2p-core/peer"
	rpc "github.com/libp2p/go-libp2p-gorpc"
	libp2praft "github.com/libp2p/go-libp2p-raft"
	multiaddr "github.com/multiformats/go-multiaddr"
)

// ---------------------------------------------------------------------------
// universes: the model works with indices
// ---------------------------------------------------------------------------

var vC01Cids = func() []cid.Cid {
	l := []cid.Cid{test.Cid1, test.Cid2, test.Cid3, test.Cid4, test.Cid5, test.NotFoundCid, test.SlowCid1, test.CidResolved}
	return l
}()

var vC01Peers = []peer.ID{test.PeerID1, test.PeerID2, test.PeerID3, test.PeerID4, test.PeerID5, test.PeerID6}

var vC01Names = []string{"", "a", "name with spaces", "ünïcödé ✓", "x/y?z=1&k", "\x00\x01ctl", "nombre-largo-0123456789012345678901234567890123456789", "\xff\xfe-bad-utf8"}

const vC01BadName = 7 // index of the name that is not valid UTF-8

var vC01Addrs = func() []multiaddr.Multiaddr {
	var out []multiaddr.Multiaddr
	for _, s := range []string{"/ip4/1.2.3.4/tcp/4001", "/ip4/127.0.0.1/udp/1234", "/dns4/example.com/tcp/443/p2p/" + test.PeerID1.String(), "/ip6/::1/tcp/1"} {
		m, err := multiaddr.NewMultiaddr(s)
		if err != nil {
			panic(err)
		}
		out = append(out, m)
	}
	return out
}()

func vC01CidIdx(c cid.Cid) int {
	for i, x := range vC01Cids {
		if x.Equals(c) {
			return i
		}
	}
	if !c.Defined() {
		return 998
	}
	return 999
}
func vC01PeerIdx(p peer.ID) int {
	for i, x := range vC01Peers {
		if x == p {
			return i
		}
	}
	return 999
}
func vC01NameIdx(s string) int {
	for i, x := range vC01Names {
		if x == s {
			return i
		}
	}
	return 999
}
func vC01AddrIdx(m multiaddr.Multiaddr) int {
	if m == nil {
		return 998
	}
	for i, x := range vC01Addrs {
		if x.Equal(m) {
			return i
		}
	}
	return 999
}

// vC01Pin is the index form of an api.Pin (JSON input and observation alike).
type vC01Pin struct {
	Cid      int      `json:"cid"`
	Type     uint64   `json:"type"`
	MaxDepth int      `json:"maxdepth"`
	Allocs   []int    `json:"allocs"`
	Mode     int      `json:"mode"`
	Rmin     int      `json:"rmin"`
	Rmax     int      `json:"rmax"`
	Name     int      `json:"name"`
	Shard    uint64   `json:"shard"`
	UAllocs  []int    `json:"uallocs"`
	HasExp   bool     `json:"hasexp"`
	ExpS     int64    `json:"exps"`
	ExpNs    int      `json:"expns"`
	Meta     [][2]int `json:"meta"`   // (key name index, value name index), sorted by key
	Update   int      `json:"update"` // -1 = none
	Origins  []int    `json:"origins"`
	Ref      int      `json:"ref"` // -1 = none
}

func vC01Clamp(i, n int) int {
	if i < 0 {
		return 0
	}
	if i >= n {
		return n - 1
	}
	return i
}

func (p *vC01Pin) sanitize() {
	p.Cid = vC01Clamp(p.Cid, len(vC01Cids))
	p.Name = vC01Clamp(p.Name, len(vC01Names))
	for i := range p.Allocs {
		p.Allocs[i] = vC01Clamp(p.Allocs[i], len(vC01Peers))
	}
	for i := range p.UAllocs {
		p.UAllocs[i] = vC01Clamp(p.UAllocs[i], len(vC01Peers))
	}
	for i := range p.Origins {
		p.Origins[i] = vC01Clamp(p.Origins[i], len(vC01Addrs))
	}
	seen := map[int]bool{}
	var m [][2]int
	for _, kv := range p.Meta {
		k, v := vC01Clamp(kv[0], len(vC01Names)), vC01Clamp(kv[1], len(vC01Names))
		if !seen[k] {
			seen[k] = true
			m = append(m, [2]int{k, v})
		}
	}
	sort.Slice(m, func(i, j int) bool { return m[i][0] < m[j][0] })
	p.Meta = m
	if p.Update >= len(vC01Cids) {
		p.Update = len(vC01Cids) - 1
	}
	if p.Update < -1 {
		p.Update = -1
	}
	if p.Ref >= len(vC01Cids) {
		p.Ref = len(vC01Cids) - 1
	}
	if p.Ref < -1 {
		p.Ref = -1
	}
	if p.Mode < 0 {
		p.Mode = 0
	}
	if p.ExpNs < 0 || p.ExpNs > 999999999 {
		p.ExpNs = 0
	}
	if !p.HasExp {
		p.ExpS, p.ExpNs = 0, 0
	}
}

func (p *vC01Pin) real() *api.Pin {
	out := &api.Pin{Cid: vC01Cids[p.Cid], Type: api.PinType(p.Type), MaxDepth: api.PinDepth(p.MaxDepth)}
	out.Allocations = []peer.ID{}
	for _, a := range p.Allocs {
		out.Allocations = append(out.Allocations, vC01Peers[a])
	}
	out.Mode = api.PinMode(p.Mode)
	out.ReplicationFactorMin = p.Rmin
	out.ReplicationFactorMax = p.Rmax
	out.Name = vC01Names[p.Name]
	out.ShardSize = p.Shard
	for _, a := range p.UAllocs {
		out.UserAllocations = append(out.UserAllocations, vC01Peers[a])
	}
	if p.HasExp {
		out.ExpireAt = time.Unix(p.ExpS, int64(p.ExpNs))
	}
	if len(p.Meta) > 0 {
		out.Metadata = map[string]string{}
		for _, kv := range p.Meta {
			out.Metadata[vC01Names[kv[0]]] = vC01Names[kv[1]]
		}
	}
	if p.Update >= 0 {
		out.PinUpdate = vC01Cids[p.Update]
	}
	for _, o := range p.Origins {
		out.Origins = append(out.Origins, vC01Addrs[o])
	}
	if p.Ref >= 0 {
		c := vC01Cids[p.Ref]
		out.Reference = &c
	}
	return out
}

// vC01Render projects a real pin onto the index form (nil and empty are not distinguished).
func vC01Render(p *api.Pin) vC01Pin {
	o := vC01Pin{Cid: vC01CidIdx(p.Cid), Type: uint64(p.Type), MaxDepth: int(p.MaxDepth), Mode: int(p.Mode),
		Rmin: p.ReplicationFactorMin, Rmax: p.ReplicationFactorMax, Name: vC01NameIdx(p.Name), Shard: p.ShardSize, Update: -1, Ref: -1,
		Allocs: []int{}, UAllocs: []int{}, Origins: []int{}, Meta: [][2]int{}}
	for _, a := range p.Allocations {
		o.Allocs = append(o.Allocs, vC01PeerIdx(a))
	}
	for _, a := range p.UserAllocations {
		o.UAllocs = append(o.UAllocs, vC01PeerIdx(a))
	}
	if !p.ExpireAt.IsZero() {
		o.HasExp = true
		o.ExpS = p.ExpireAt.Unix()
		o.ExpNs = p.ExpireAt.Nanosecond()
	}
	for k, v := range p.Metadata {
		o.Meta = append(o.Meta, [2]int{vC01NameIdx(k), vC01NameIdx(v)})
	}
	sort.Slice(o.Meta, func(i, j int) bool { return o.Meta[i][0] < o.Meta[j][0] })
	if p.PinUpdate.Defined() {
		o.Update = vC01CidIdx(p.PinUpdate)
	}
	for _, a := range p.Origins {
		o.Origins = append(o.Origins, vC01AddrIdx(a))
	}
	if p.Reference != nil {
		o.Ref = vC01CidIdx(*p.Reference)
	}
	return o
}

func vC01CoqOptN(i int) string {
	if i < 0 {
		return "None"
	}
	return fmt.Sprintf("(Some %d)", i)
}

func (p vC01Pin) coq() string {
	exp := "None"
	if p.HasExp {
		exp = fmt.Sprintf("(Some (%s, %d))", cqZ(p.ExpS), p.ExpNs)
	}
	meta := make([]string, len(p.Meta))
	for i, kv := range p.Meta {
		meta[i] = fmt.Sprintf("(%d, %d)", kv[0], kv[1])
	}
	return fmt.Sprintf("(mkpin %d %d %s %s %d %s %s %d %d %s %s %s %s %s %s)", p.Cid, p.Type, cqZ(int64(p.MaxDepth)), cqListN(p.Allocs), p.Mode,
		cqZ(int64(p.Rmin)), cqZ(int64(p.Rmax)), p.Name, p.Shard, cqListN(p.UAllocs), exp, cqList(meta), vC01CoqOptN(p.Update), cqListN(p.Origins), vC01CoqOptN(p.Ref))
}

// ---------------------------------------------------------------------------
// trace
// ---------------------------------------------------------------------------

type vC01Call struct {
	Track bool    `json:"track"`
	Pin   vC01Pin `json:"pin"`
}

type vC01Ev struct {
	Kind   string     `json:"k"` // apply crash snapreq persist restore restart ack obs trk conf offline
	Node   int        `json:"n"`
	Idx    uint64     `json:"i,omitempty"`    // raft index (apply/crash), snapshot raft index (persist/restore)
	Hash   string     `json:"h,omitempty"`    // content hash (persist/restore)
	Ok     bool       `json:"ok,omitempty"`   // snapreq: FSM.Snapshot returned no error; obs: State() returned no error
	Cmd    int        `json:"c,omitempty"`    // ack: command number
	Pins   []vC01Pin  `json:"pins,omitempty"` // obs
	Calls  []vC01Call `json:"calls,omitempty"`
	Peers  []int      `json:"peers,omitempty"` // conf/obs: Peers() as node indices, sorted
	PeerOk bool       `json:"pok,omitempty"`
}

type vC01Recorder struct {
	mu    sync.Mutex
	calls []vC01Call
}

type vC01TrackerSvc struct{ rec *vC01Recorder }

func (s *vC01TrackerSvc) Track(ctx context.Context, in *api.Pin, out *struct{}) error {
	c := vC01Call{Track: true, Pin: vC01Render(in)}
	s.rec.mu.Lock()
	s.rec.calls = append(s.rec.calls, c)
	s.rec.mu.Unlock()
	return nil
}
func (s *vC01TrackerSvc) Untrack(ctx context.Context, in *api.Pin, out *struct{}) error {
	c := vC01Call{Track: false, Pin: vC01Render(in)}
	s.rec.mu.Lock()
	s.rec.calls = append(s.rec.calls, c)
	s.rec.mu.Unlock()
	return nil
}

// the "Consensus" RPC service a follower redirects to (as ConsensusRPCAPI in rpc_api.go does): forwards to the leader node
type vC01ConsSvc struct{ rig *vC01Rig }

func (s *vC01ConsSvc) target() (*vC01Node, error) {
	for _, n := range s.rig.nodes {
		if n.raft != nil && !n.down && n.raft.State() == hraft.Leader {
			return n, nil
		}
	}
	return nil, errors.New("no leader to redirect to")
}
func (s *vC01ConsSvc) LogPin(ctx context.Context, in *api.Pin, out *struct{}) error {
	n, err := s.target()
	if err != nil {
		return err
	}
	s.rig.setCommitter(n.idx)
	return n.cc.LogPin(ctx, in)
}
func (s *vC01ConsSvc) LogUnpin(ctx context.Context, in *api.Pin, out *struct{}) error {
	n, err := s.target()
	if err != nil {
		return err
	}
	s.rig.setCommitter(n.idx)
	return n.cc.LogUnpin(ctx, in)
}
func (s *vC01ConsSvc) AddPeer(ctx context.Context, in peer.ID, out *struct{}) error {
	n, err := s.target()
	if err != nil {
		return err
	}
	s.rig.setCommitter(n.idx)
	return n.cc.AddPeer(ctx, in)
}
func (s *vC01ConsSvc) RmPeer(ctx context.Context, in peer.ID, out *struct{}) error {
	n, err := s.target()
	if err != nil {
		return err
	}
	s.rig.setCommitter(n.idx)
	return n.cc.RmPeer(ctx, in)
}

type vC01Host struct {
	host.Host
	id peer.ID
}

func (h *vC01Host) ID() peer.ID { return h.id }

type vC01Node struct {
	idx      int
	id       peer.ID
	addr     hraft.ServerAddress
	logs     *hraft.InmemStore
	stable   *hraft.InmemStore
	snaps    *vC01SnapStore
	trans    *hraft.InmemTransport
	raft     *hraft.Raft
	cc       *Consensus
	guard    *vC01Guard
	rec      *vC01Recorder
	client   *rpc.Client
	isolated bool
	down     bool // raft instance shut down (removed peers, between restart steps)
	crashed  bool
	started  bool
	removed  bool // no longer in the Raft configuration (C17)
}

type vC01Rig struct {
	mu         sync.Mutex // serialises every FSM call of every node with the observers
	trace      []vC01Ev
	nodes      []*vC01Node
	logData    map[uint64][]byte
	diverged   string
	committer  int
	cmu        sync.Mutex
	trailing   uint64
	hold       map[int]chan struct{} // node -> release channel for a held Persist
	holdArmed  map[int]bool
	heartbeat  time.Duration
	restores   int
	overflow   bool
	stepObs    bool
	wflTimeout time.Duration
	gmu        sync.Mutex
	gates      map[int]chan struct{}
	maxAppend  int                                                            // > 0: hashicorp/raft MaxAppendEntries of every node (C17: 1, one entry per AppendEntries)
	wrapTrans  func(n *vC01Node, t *hraft.InmemTransport) hraft.Transport // optional: what a node's Raft reads its RPCs from (C17: the joiner's gate)
}

func (r *vC01Rig) closeGate(k int) {
	r.gmu.Lock()
	if r.gates == nil {
		r.gates = map[int]chan struct{}{}
	}
	if r.gates[k] == nil {
		r.gates[k] = make(chan struct{})
	}
	r.gmu.Unlock()
}

func (r *vC01Rig) openGate(k int) {
	r.gmu.Lock()
	if ch := r.gates[k]; ch != nil {
		close(ch)
		delete(r.gates, k)
	}
	r.gmu.Unlock()
}

func (r *vC01Rig) setCommitter(i int) { r.cmu.Lock(); r.committer = i; r.cmu.Unlock() }
func (r *vC01Rig) getCommitter() int  { r.cmu.Lock(); defer r.cmu.Unlock(); return r.committer }

func vC01NewRig(nNodes int, trailing uint64) *vC01Rig {
	r := &vC01Rig{logData: map[uint64][]byte{}, trailing: trailing, hold: map[int]chan struct{}{}, holdArmed: map[int]bool{},
		heartbeat: time.Duration(vEnvInt("VERIF_C01_HB_MS", 60)) * time.Millisecond, stepObs: true,
		wflTimeout: 560 * time.Millisecond}
	for i := 0; i < nNodes; i++ {
		r.addNode()
	}
	return r
}

// addNode creates the stores of a new node (not started).
func (r *vC01Rig) addNode() *vC01Node {
	i := len(r.nodes)
	id := vC01Peers[i]
	n := &vC01Node{idx: i, id: id, addr: hraft.ServerAddress(peer.Encode(id)),
		logs: hraft.NewInmemStore(), stable: hraft.NewInmemStore(), snaps: &vC01SnapStore{}, rec: &vC01Recorder{}}
	s := rpc.NewServer(nil, "vc01")
	n.client = rpc.NewClientWithServer(nil, "vc01", s)
	if err := s.RegisterName("PinTracker", &vC01TrackerSvc{rec: n.rec}); err != nil {
		panic(err)
	}
	if err := s.RegisterName("Consensus", &vC01ConsSvc{rig: r}); err != nil {
		panic(err)
	}
	r.nodes = append(r.nodes, n)
	return n
}

func (r *vC01Rig) raftConfig(n *vC01Node) *hraft.Config {
	c := hraft.DefaultConfig()
	c.LocalID = hraft.ServerID(peer.Encode(n.id))
	c.HeartbeatTimeout = r.heartbeat
	c.ElectionTimeout = r.heartbeat
	c.LeaderLeaseTimeout = r.heartbeat
	c.CommitTimeout = 5 * time.Millisecond
	c.SnapshotInterval = time.Hour // snapshots are taken by the script only
	c.SnapshotThreshold = 1 << 40
	c.TrailingLogs = r.trailing
	c.ShutdownOnRemove = false // as raft.Config.Default imposes
	if r.maxAppend > 0 {
		c.MaxAppendEntries = r.maxAppend
	}
	c.LogOutput = ioutil.Discard
	c.Logger = nil
	return c
}

// start creates a fresh datastore/state/FSM/Consensus for node n and a hashicorp/raft instance on n's stores.
func (r *vC01Rig) start(n *vC01Node) error {
	_, n.trans = hraft.NewInmemTransportWithTimeout(n.addr, 2*time.Second)
	for _, m := range r.nodes {
		if m != n && m.trans != nil && !m.isolated && !n.isolated {
			m.trans.Connect(n.addr, n.trans)
			n.trans.Connect(m.addr, m.trans)
		}
	}
	cfg := &Config{}
	cfg.Default()
	cfg.WaitForLeaderTimeout = r.wflTimeout
	cfg.CommitRetries = 1
	cfg.CommitRetryDelay = 20 * time.Millisecond
	cfg.RaftConfig = r.raftConfig(n)
	store := inmem.New()
	st, err := dsstate.New(store, cfg.DatastoreNamespace, dsstate.DefaultHandle())
	if err != nil {
		return err
	}
	ctx, cancel := context.WithCancel(context.Background())
	cc := &Consensus{ctx: ctx, cancel: cancel, config: cfg, host: &vC01Host{id: n.id}, rpcClient: n.client,
		rpcReady: make(chan struct{}, 1), readyCh: make(chan struct{}, 1)}
	baseOp := &LogOp{consensus: cc}
	oplog := libp2praft.NewOpLog(st, baseOp)
	cc.consensus = oplog
	g := &vC01Guard{rig: r, node: n, inner: vC01WrapFSM(oplog.FSM(), st), cc: cc}
	r.mu.Lock()
	if n.started {
		r.trace = append(r.trace, vC01Ev{Kind: "restart", Node: n.idx})
	}
	n.started = true
	if n.guard != nil {
		n.guard.dead = true
	}
	n.guard = g
	r.mu.Unlock()
	var tr hraft.Transport = n.trans
	if r.wrapTrans != nil {
		tr = r.wrapTrans(n, n.trans)
	}
	ra, err := hraft.NewRaft(cfg.RaftConfig, g, n.logs, n.stable, n.snaps, tr)
	if err != nil {
		return err
	}
	actor := libp2praft.NewActor(ra)
	oplog.SetActor(actor)
	cc.actor = actor
	cc.baseOp = baseOp
	rctx, rcancel := context.WithCancel(context.Background())
	cc.raft = &raftWrapper{ctx: rctx, cancel: rcancel, raft: ra, config: cfg, host: cc.host}
	n.raft = ra
	n.cc = cc
	n.down = false
	return nil
}

func (r *vC01Rig) stop(n *vC01Node) {
	if n.raft != nil && !n.down {
		// peers must fail fast instead of queueing on a transport nobody reads any more
		for _, m := range r.nodes {
			if m != n && m.trans != nil {
				m.trans.Disconnect(n.addr)
			}
		}
		// hashicorp/raft v1.1.1's in-memory transport can leave a follower blocked in RPC.Respond after the sender
		// timed out (unbuffered response channel), which would block Shutdown for ever: bounded wait, then abandon
		done := make(chan struct{})
		go func(ra *hraft.Raft) { ra.Shutdown().Error(); close(done) }(n.raft)
		select {
		case <-done:
		case <-time.After(3 * time.Second):
		}
		n.down = true
	}
}

func (r *vC01Rig) shutdown() {
	// release held snapshots and gates first so that nothing blocks
	for k := range r.hold {
		r.release(k)
	}
	for k := 0; k < len(r.nodes); k++ {
		r.openGate(k)
	}
	for _, n := range r.nodes {
		r.stop(n)
	}
}

// bootstrap the first k nodes as one cluster
func (r *vC01Rig) bootstrap(k int) error {
	var servers []hraft.Server
	for _, n := range r.nodes[:k] {
		servers = append(servers, hraft.Server{Suffrage: hraft.Voter, ID: hraft.ServerID(peer.Encode(n.id)), Address: n.addr})
	}
	for _, n := range r.nodes[:k] {
		if err := r.start(n); err != nil {
			return err
		}
	}
	for _, n := range r.nodes[:k] {
		if err := n.raft.BootstrapCluster(hraft.Configuration{Servers: servers}).Error(); err != nil {
			return err
		}
	}
	return nil
}

func (r *vC01Rig) isolate(n *vC01Node) {
	n.isolated = true
	if n.trans != nil {
		n.trans.DisconnectAll()
	}
	for _, m := range r.nodes {
		if m != n && m.trans != nil {
			m.trans.Disconnect(n.addr)
		}
	}
}

func (r *vC01Rig) rejoin(n *vC01Node) {
	n.isolated = false
	for _, m := range r.nodes {
		if m != n && m.trans != nil && n.trans != nil && !m.isolated {
			m.trans.Connect(n.addr, n.trans)
			n.trans.Connect(m.addr, m.trans)
		}
	}
}

// leader returns a node that is leader, not isolated and verified by a quorum, polling up to d.
func (r *vC01Rig) leader(d time.Duration) *vC01Node {
	deadline := time.Now().Add(d)
	for {
		for _, n := range r.nodes {
			if n.raft != nil && !n.down && !n.isolated && !n.crashed && n.raft.State() == hraft.Leader {
				if n.raft.VerifyLeader().Error() == nil {
					return n
				}
			}
		}
		if time.Now().After(deadline) {
			return nil
		}
		time.Sleep(3 * time.Millisecond)
	}
}

// quiesce waits until a leader exists and every live, connected member has applied the leader's last index.
func (r *vC01Rig) quiesce(d time.Duration) bool {
	deadline := time.Now().Add(d)
	for {
		l := r.leader(200 * time.Millisecond)
		if l != nil {
			last := l.raft.LastIndex()
			ok := l.raft.AppliedIndex() == last
			members := r.memberIdx(l)
			for _, n := range r.nodes {
				if n == l || n.raft == nil || n.down || n.isolated || n.crashed || !members[n.idx] {
					continue
				}
				if n.raft.AppliedIndex() != last || n.raft.LastIndex() != last {
					ok = false
				}
			}
			if ok && l.raft.LastIndex() == last && l.raft.State() == hraft.Leader {
				return true
			}
		}
		if time.Now().After(deadline) {
			return false
		}
		time.Sleep(3 * time.Millisecond)
	}
}

func (r *vC01Rig) memberIdx(l *vC01Node) map[int]bool {
	out := map[int]bool{}
	f := l.raft.GetConfiguration()
	if f.Error() != nil {
		return out
	}
	for _, s := range f.Configuration().Servers {
		for _, n := range r.nodes {
			if hraft.ServerID(peer.Encode(n.id)) == s.ID {
				out[n.idx] = true
			}
		}
	}
	return out
}

// quorumPossible: a majority of the configured voters is up and mutually connected
func (r *vC01Rig) quorumPossible() bool {
	up, total := 0, 0
	for _, n := range r.nodes {
		if !n.started || n.removed {
			continue
		}
		total++
		if !n.isolated && !n.down && !n.crashed {
			up++
		}
	}
	return up*2 > total
}

func (r *vC01Rig) anyCrashed() bool {
	r.mu.Lock()
	defer r.mu.Unlock()
	for _, n := range r.nodes {
		if n.crashed {
			return true
		}
	}
	return false
}

// observe records State() of node n (atomically with respect to every FSM call).
func (r *vC01Rig) observe(n *vC01Node) {
	if n.cc == nil || n.crashed {
		return
	}
	r.mu.Lock()
	defer r.mu.Unlock()
	if n.crashed {
		return
	}
	r.observeLocked(n, n.cc)
}

// observeLocked: the caller holds r.mu
func (r *vC01Rig) observeLocked(n *vC01Node, cc *Consensus) {
	ev := vC01Ev{Kind: "obs", Node: n.idx}
	st, err := cc.State(context.Background())
	if err == nil {
		pins, err2 := st.List(context.Background())
		if err2 == nil {
			ev.Ok = true
			for _, p := range pins {
				ev.Pins = append(ev.Pins, vC01Render(p))
			}
			sort.Slice(ev.Pins, func(i, j int) bool { return ev.Pins[i].Cid < ev.Pins[j].Cid })
		}
	}
	r.trace = append(r.trace, ev)
}

// maxIdx: the highest Raft index any FSM has been given so far
func (r *vC01Rig) maxIdx() uint64 {
	r.mu.Lock()
	defer r.mu.Unlock()
	m := uint64(0)
	for k := range r.logData {
		if k > m {
			m = k
		}
	}
	return m
}

// observeReady records State() of node n right after its WaitForSync returned; idx = maxIdx when the AddPeer returned
func (r *vC01Rig) observeReady(n *vC01Node, idx uint64) {
	r.mu.Lock()
	defer r.mu.Unlock()
	k := len(r.trace)
	r.observeLocked(n, n.cc)
	r.trace[k].Kind = "ready"
	r.trace[k].Idx = idx
	r.trace[k].PeerOk = n.raft.AppliedIndex() == n.raft.LastIndex()
}

// observeOffline records what the real OfflineState returns for node n's data: the newest complete snapshot of n's store
// is copied into a data folder of its own (hashicorp's file snapshot store, as consensus/raft opens it) and OfflineState
// is called on that folder. Atomic with respect to every FSM call. The store holds the snapshots the replica persisted
// and the ones it was sent (InstallSnapshot writes the leader's snapshot into the follower's store); the model knows both.
func (r *vC01Rig) observeOffline(n *vC01Node) string {
	r.mu.Lock()
	defer r.mu.Unlock()
	meta, data := n.snaps.newest()
	// what the trace says n's store holds: the snapshots n persisted and the ones installed on it (a restore of a snapshot that
	// is not yet in the store), the newest being the one with the highest index, the later one among equals. Between the close
	// of an installed snapshot's sink and the restore event the store is ahead of the trace: nothing is recorded then.
	type stored struct {
		idx  uint64
		hash string
	}
	var store []stored
	for i := range r.trace {
		e := &r.trace[i]
		if e.Node != n.idx {
			continue
		}
		switch e.Kind {
		case "persist":
			store = append(store, stored{e.Idx, e.Hash})
		case "restore":
			have := false
			for _, x := range store {
				if x.idx == e.Idx && x.hash == e.Hash {
					have = true
				}
			}
			if !have {
				store = append(store, stored{e.Idx, e.Hash})
			}
		}
	}
	var last *stored
	for i := range store {
		if last == nil || store[i].idx >= last.idx {
			last = &store[i]
		}
	}
	if (meta == nil) != (last == nil) {
		return "store_ahead"
	}
	if meta != nil && (meta.Index != last.idx || vC01Hash(data) != last.hash) {
		return "store_ahead"
	}
	dir, err := ioutil.TempDir("", "vc01-offline")
	if err != nil {
		return "tempdir: " + err.Error()
	}
	defer os.RemoveAll(dir)
	if meta != nil {
		fs, err := hraft.NewFileSnapshotStore(dir, RaftMaxSnapshots, ioutil.Discard)
		if err != nil {
			return "file store: " + err.Error()
		}
		sink, err := fs.Create(meta.Version, meta.Index, meta.Term, meta.Configuration, meta.ConfigurationIndex, n.trans)
		if err != nil {
			return "file store create: " + err.Error()
		}
		if _, err := sink.Write(data); err != nil {
			sink.Cancel()
			return "file store write: " + err.Error()
		}
		if err := sink.Close(); err != nil {
			return "file store close: " + err.Error()
		}
	}
	cfg := &Config{}
	cfg.Default()
	cfg.DataFolder = dir
	st, err := OfflineState(cfg, inmem.New())
	if err != nil {
		r.trace = append(r.trace, vC01Ev{Kind: "offline", Node: n.idx, Ok: false, Hash: err.Error()})
		return "error"
	}
	pins, err := st.List(context.Background())
	if err != nil {
		r.trace = append(r.trace, vC01Ev{Kind: "offline", Node: n.idx, Ok: false, Hash: err.Error()})
		return "error"
	}
	ev := vC01Ev{Kind: "offline", Node: n.idx, Ok: true}
	for _, p := range pins {
		ev.Pins = append(ev.Pins, vC01Render(p))
	}
	sort.Slice(ev.Pins, func(i, j int) bool { return ev.Pins[i].Cid < ev.Pins[j].Cid })
	r.trace = append(r.trace, ev)
	return "ok"
}

// reinstall sends the leader's newest snapshot to follower f once more, as an InstallSnapshot RPC with the leader's
// identity and term (the request sendLatestSnapshot of hashicorp/raft builds), through a transport of its own. A leader of
// hashicorp/raft v1.1.1 was observed to do this by itself to a reconnected follower that had already applied entries past the
// snapshot (three times in a row; schedule-dependent, about once in several thousand scripts): the follower does not
// compare the snapshot with what it holds, FSM.Restore runs, the replica goes back to the prefix the snapshot is labelled
// with, and it applies the entries after it again when the next entry commits. Everything on the follower's side is the real code.
//
// hashicorp/raft itself does not survive every backward install: the follower sets lastApplied to the snapshot's index and, with
// the next commit, reads the entries after it from its log store (processLogs) and PANICS ("log not found") when its own
// compaction has already removed one of them - after a snapshot of its own past the installed one. That would kill the test
// binary, so the snapshot is re-sent only when every entry after it is still in the follower's log store, and will be after the
// compaction that follows the follower's pending snapshot (fHeld).
func (r *vC01Rig) reinstall(l, f *vC01Node, fHeld bool) string {
	if l == nil || f == nil || l == f || f.trans == nil || f.down || f.isolated || f.crashed || l.raft == nil {
		return "skipped"
	}
	meta, data := l.snaps.newest()
	if meta == nil {
		return "nosnapshot"
	}
	first, _ := f.logs.FirstIndex()
	last, _ := f.logs.LastIndex()
	if last > meta.Index && first > meta.Index+1 {
		return "unsafe_log_compacted"
	}
	if fHeld && last > r.trailing && last-r.trailing > meta.Index {
		return "unsafe_pending_compaction"
	}
	term, err := strconv.ParseUint(l.raft.Stats()["term"], 10, 64)
	if err != nil {
		return "skipped"
	}
	// hashicorp/raft's encodeConfiguration is msgpack of the Configuration struct (go-msgpack, a fork of the ugorji codec the
	// repository already uses; importing go-msgpack directly would make the go command add it to the repository's go.mod)
	cbytes := vC01Encode(meta.Configuration)
	_, ht := hraft.NewInmemTransportWithTimeout(hraft.ServerAddress("vc01-resend"), 2*time.Second)
	ht.Connect(f.addr, f.trans)
	defer ht.DisconnectAll()
	req := hraft.InstallSnapshotRequest{
		RPCHeader:          hraft.RPCHeader{ProtocolVersion: r.raftConfig(l).ProtocolVersion},
		SnapshotVersion:    meta.Version,
		Term:               term,
		Leader:             []byte(l.addr),
		LastLogIndex:       meta.Index,
		LastLogTerm:        meta.Term,
		Size:               int64(len(data)),
		Configuration:      cbytes,
		ConfigurationIndex: meta.ConfigurationIndex,
	}
	var resp hraft.InstallSnapshotResponse
	if err := ht.InstallSnapshot(hraft.ServerID(peer.Encode(f.id)), f.addr, &req, &resp, bytes.NewReader(data)); err != nil {
		return "rpcerror"
	}
	if !resp.Success {
		return "rejected"
	}
	return "ok"
}

func (r *vC01Rig) observeAll() {
	for _, n := range r.nodes {
		if n.started {
			r.observe(n)
		}
	}
}

// recordCalls waits (one long, shared deadline) until every node's recorder holds at least want[node] calls, then a
// short settle time, and records them all. The wanted counts are a waiting aid, not a verdict.
func (r *vC01Rig) recordCalls(want []int) {
	deadline := time.Now().Add(2500 * time.Millisecond)
	for {
		ok := true
		for _, n := range r.nodes {
			n.rec.mu.Lock()
			c := len(n.rec.calls)
			n.rec.mu.Unlock()
			if n.idx < len(want) && c < want[n.idx] {
				ok = false
			}
		}
		if ok || time.Now().After(deadline) {
			break
		}
		time.Sleep(2 * time.Millisecond)
	}
	time.Sleep(20 * time.Millisecond)
	for _, n := range r.nodes {
		n.rec.mu.Lock()
		calls := append([]vC01Call{}, n.rec.calls...)
		n.rec.mu.Unlock()
		r.mu.Lock()
		r.trace = append(r.trace, vC01Ev{Kind: "trk", Node: n.idx, Calls: calls})
		r.mu.Unlock()
	}
}

// ---------------------------------------------------------------------------
// snapshot store: in memory, with the two properties of the file store used in production (hashicorp's FileSnapshotStore)
// that matter here: a snapshot becomes visible only when it is COMPLETE (hashicorp's InmemSnapshotStore makes it visible at
// Create, before Persist has written it, so a concurrent InstallSnapshot can ship an empty snapshot labelled with the new
// index), and the NEWEST snapshot is the one with the highest (term, index) - snapMetaSlice.Less of file_snapshot.go -, not
// the one that was closed last: a snapshot of this replica that is persisted after a snapshot with a higher index was
// installed stays behind it. Older snapshots stay readable by ID (the file store retains RaftMaxSnapshots = 5).
// ---------------------------------------------------------------------------

type vC01SnapStore struct {
	mu     sync.Mutex
	latest *vC01SnapSink
	all    map[string]*vC01SnapSink
	opened *vC01SnapSink // the snapshot handed out by the last Open: the one FSM.Restore is about to be given
	n      int
}

type vC01SnapSink struct {
	store *vC01SnapStore
	meta  hraft.SnapshotMeta
	buf   bytes.Buffer
	done  bool
}

func (s *vC01SnapStore) Create(version hraft.SnapshotVersion, index, term uint64, configuration hraft.Configuration,
	configurationIndex uint64, trans hraft.Transport) (hraft.SnapshotSink, error) {
	if version != 1 {
		return nil, fmt.Errorf("unsupported snapshot version %d", version)
	}
	s.mu.Lock()
	defer s.mu.Unlock()
	s.n++
	return &vC01SnapSink{store: s, meta: hraft.SnapshotMeta{Version: version, ID: fmt.Sprintf("%d-%d-%d", term, index, s.n),
		Index: index, Term: term, Configuration: configuration, ConfigurationIndex: configurationIndex}}, nil
}

func (s *vC01SnapStore) List() ([]*hraft.SnapshotMeta, error) {
	s.mu.Lock()
	defer s.mu.Unlock()
	if s.latest == nil {
		return []*hraft.SnapshotMeta{}, nil
	}
	m := s.latest.meta
	return []*hraft.SnapshotMeta{&m}, nil
}

func (s *vC01SnapStore) Open(id string) (*hraft.SnapshotMeta, io.ReadCloser, error) {
	s.mu.Lock()
	defer s.mu.Unlock()
	k := s.all[id]
	if k == nil {
		return nil, nil, fmt.Errorf("snapshot %s not found", id)
	}
	s.opened = k
	m := k.meta
	return &m, ioutil.NopCloser(bytes.NewReader(append([]byte{}, k.buf.Bytes()...))), nil
}

// openedIndex: the Raft index of the snapshot handed out by the last Open (0 if none)
func (s *vC01SnapStore) openedIndex() uint64 {
	s.mu.Lock()
	defer s.mu.Unlock()
	if s.opened == nil {
		return 0
	}
	return s.opened.meta.Index
}

// newest: metadata and bytes of the newest complete snapshot (nil if none)
func (s *vC01SnapStore) newest() (*hraft.SnapshotMeta, []byte) {
	s.mu.Lock()
	defer s.mu.Unlock()
	if s.latest == nil {
		return nil, nil
	}
	m := s.latest.meta
	return &m, append([]byte{}, s.latest.buf.Bytes()...)
}

func (k *vC01SnapSink) Write(p []byte) (int, error) { return k.buf.Write(p) }
func (k *vC01SnapSink) Close() error {
	k.store.mu.Lock()
	defer k.store.mu.Unlock()
	if !k.done {
		k.done = true
		k.meta.Size = int64(k.buf.Len())
		if k.store.all == nil {
			k.store.all = map[string]*vC01SnapSink{}
		}
		k.store.all[k.meta.ID] = k
		if l := k.store.latest; l == nil || k.meta.Term > l.meta.Term || (k.meta.Term == l.meta.Term && k.meta.Index >= l.meta.Index) {
			k.store.latest = k
		}
	}
	return nil
}
func (k *vC01SnapSink) ID() string    { return k.meta.ID }
func (k *vC01SnapSink) Cancel() error { k.done = true; return nil }

// ---------------------------------------------------------------------------
// guard FSM
// ---------------------------------------------------------------------------

type vC01Guard struct {
	rig   *vC01Rig
	node  *vC01Node
	inner hraft.FSM
	cc    *Consensus
	dead  bool
}

func (g *vC01Guard) Apply(l *hraft.Log) (ret interface{}) {
	// a closed gate models a slow FSM: the entry stays in hashicorp/raft's FSM queue (the rig mutex is not held)
	g.rig.gmu.Lock()
	gate := g.rig.gates[g.node.idx]
	g.rig.gmu.Unlock()
	if gate != nil {
		select {
		case <-gate:
		case <-time.After(20 * time.Second):
		}
	}
	g.rig.mu.Lock()
	defer g.rig.mu.Unlock()
	if g.dead || g.node.crashed {
		return nil
	}
	data := append([]byte{}, l.Data...)
	if old, ok := g.rig.logData[l.Index]; ok {
		if !bytes.Equal(old, data) && g.rig.diverged == "" {
			g.rig.diverged = fmt.Sprintf("index %d differs between nodes", l.Index)
		}
	} else {
		g.rig.logData[l.Index] = data
	}
	defer func() {
		if p := recover(); p != nil {
			g.node.crashed = true
			g.rig.trace = append(g.rig.trace, vC01Ev{Kind: "crash", Node: g.node.idx, Idx: l.Index, Hash: fmt.Sprint(p)})
			ret = nil
		}
	}()
	ret = g.inner.Apply(l)
	g.rig.trace = append(g.rig.trace, vC01Ev{Kind: "apply", Node: g.node.idx, Idx: l.Index})
	if g.rig.stepObs {
		g.rig.observeLocked(g.node, g.cc) // "at all times": the pinset after every single step
	}
	return ret
}

func (g *vC01Guard) Snapshot() (hraft.FSMSnapshot, error) {
	g.rig.mu.Lock()
	defer g.rig.mu.Unlock()
	if g.dead || g.node.crashed {
		return nil, errors.New("node is down")
	}
	s, err := g.inner.Snapshot()
	g.rig.trace = append(g.rig.trace, vC01Ev{Kind: "snapreq", Node: g.node.idx, Ok: err == nil})
	if err != nil {
		return nil, err
	}
	var held chan struct{}
	if g.rig.holdArmed[g.node.idx] {
		held = make(chan struct{})
		g.rig.hold[g.node.idx] = held
		g.rig.holdArmed[g.node.idx] = false
	}
	return &vC01Snap{g: g, inner: s, held: held}, nil
}

type vC01HashSink struct {
	hraft.SnapshotSink
	buf bytes.Buffer
}

func (s *vC01HashSink) Write(p []byte) (int, error) {
	s.buf.Write(p)
	return s.SnapshotSink.Write(p)
}

type vC01Snap struct {
	g     *vC01Guard
	inner hraft.FSMSnapshot
	held  chan struct{}
}

func vC01Hash(b []byte) string { h := sha1.Sum(b); return hex.EncodeToString(h[:8]) }

func (s *vC01Snap) Persist(sink hraft.SnapshotSink) error {
	if s.held != nil {
		select {
		case <-s.held:
		case <-time.After(20 * time.Second):
		}
	}
	s.g.rig.mu.Lock()
	defer s.g.rig.mu.Unlock()
	if s.g.dead {
		return errors.New("process was restarted")
	}
	hs := &vC01HashSink{SnapshotSink: sink}
	err := s.inner.Persist(hs)
	if err == nil {
		idx := uint64(0)
		if ks, ok := sink.(*vC01SnapSink); ok {
			idx = ks.meta.Index
		}
		s.g.rig.trace = append(s.g.rig.trace, vC01Ev{Kind: "persist", Node: s.g.node.idx, Idx: idx, Hash: vC01Hash(hs.buf.Bytes())})
	}
	return err
}
func (s *vC01Snap) Release() { s.inner.Release() }

// arm makes the next FSM.Snapshot of node k return a snapshot whose Persist blocks until release(k).
func (r *vC01Rig) arm(k int) { r.mu.Lock(); r.holdArmed[k] = true; r.mu.Unlock() }
func (r *vC01Rig) release(k int) {
	r.mu.Lock()
	ch := r.hold[k]
	delete(r.hold, k)
	r.holdArmed[k] = false
	r.mu.Unlock()
	if ch != nil {
		close(ch)
	}
}

func (g *vC01Guard) Restore(rc io.ReadCloser) error {
	g.rig.mu.Lock()
	defer g.rig.mu.Unlock()
	b, err := ioutil.ReadAll(rc)
	rc.Close()
	if err != nil {
		return err
	}
	idx := g.node.snaps.openedIndex() // hashicorp/raft opens the snapshot by ID right before it hands it to FSM.Restore
	err = g.inner.Restore(ioutil.NopCloser(bytes.NewReader(b)))
	g.rig.restores++
	if g.rig.restores > 60 {
		// hashicorp/raft re-sending the same snapshot in a tight loop (seen with TrailingLogs=0 on the in-memory
		// stores): not the code under test; the case is dropped
		g.rig.overflow = true
		return err
	}
	g.rig.trace = append(g.rig.trace, vC01Ev{Kind: "restore", Node: g.node.idx, Idx: idx, Hash: vC01Hash(b), Ok: err == nil})
	if g.rig.stepObs && err == nil {
		g.rig.observeLocked(g.node, g.cc)
	}
	return err
}
