//go:build verif

package raft

// Selected by tools/propspec/C01.py when consensus/raft defines the restore-clearing FSM wrapper (fix of S1):
// the rig hands hashicorp/raft the same wrapped FSM NewConsensus hands to newRaftWrapper.

import (
	"github.com/ipfs/ipfs-cluster/state/dsstate"

	hraft "github.com/hashicorp/raft"
	libp2praft "github.com/libp2p/go-libp2p-raft"
)

const vC01FSMVariant = "restoreFSM"

func vC01WrapFSM(f *libp2praft.FSM, st *dsstate.State) hraft.FSM {
	return &restoreFSM{FSM: f, state: st}
}
