//go:build verif

package raft

// C14 correspondence harness, package raft: the real makeBackup / CleanupRaft (and, in the snapshot
// cases, SnapshotSave / LastStateRaw / OfflineState) on real directories.

import (
	"encoding/json"
	"fmt"
	"runtime"
	"strings"
	"testing"
)

type vC14BkStep struct {
	Live   int  `json:"live"`   // 0: data folder absent, 1: present without snapshot, 2: present with a snapshot
	Backup bool `json:"backup"` // false: CleanupRaft, true: makeBackup directly
}

type vC14RaftCase struct {
	Kind  string       `json:"kind"` // "backup" | "snap"
	Keep  int          `json:"keep"`
	Olds  []int        `json:"olds"` // indices of pre-existing <name>.old.i
	Steps []vC14BkStep `json:"steps"`
	Snap  *vC14SnapIn  `json:"snap,omitempty"`
}

func vc14Clamp(x, lo, hi int) int {
	if x < lo {
		return lo
	}
	if x > hi {
		return hi
	}
	return x
}

func vc14NormBk(c *vC14RaftCase) {
	c.Keep = vc14Clamp(c.Keep, 1, 6)
	seen := map[int]bool{}
	olds := []int{}
	for _, i := range c.Olds {
		if i >= 0 && i < vc14Window-1 && !seen[i] {
			seen[i] = true
			olds = append(olds, i)
		}
	}
	c.Olds = olds
	for i := range c.Steps {
		c.Steps[i].Live = vc14Clamp(c.Steps[i].Live, 0, 2)
	}
	if len(c.Steps) > 12 {
		c.Steps = c.Steps[:12]
	}
}

// run one backup history on the implementation
func vc14RunBackup(rig *vc14Rig, c vC14RaftCase) (olds0 []*vc14Folder, obs [][]*vc14Folder, errs []string) {
	base := rig.caseDir()
	cfg := vc14Cfg(base, c.Keep)
	df := cfg.GetDataFolder()
	for _, i := range c.Olds {
		rig.makeFolder(fmt.Sprintf("%s.old.%d", df, i), 100+i, i%2 == 0)
	}
	olds0 = vc14Listing(df, nil)[1:]
	for k, st := range c.Steps {
		switch st.Live {
		case 1:
			rig.makeFolder(df, k+1, false)
		case 2:
			rig.makeFolder(df, k+1, true)
		}
		var err error
		if st.Backup {
			err = newDataBackupHelper(df, c.Keep).makeBackup()
		} else {
			err = CleanupRaft(cfg)
		}
		if err != nil {
			errs = append(errs, err.Error())
		}
		obs = append(obs, vc14Listing(df, nil))
	}
	return
}

func vc14CoqBackup(c vC14RaftCase, olds0 []*vc14Folder, obs [][]*vc14Folder) string {
	sts := make([]string, len(c.Steps))
	for k, st := range c.Steps {
		f := "None"
		switch st.Live {
		case 1:
			f = fmt.Sprintf("Some (%d, None)", k+1)
		case 2:
			f = fmt.Sprintf("Some (%d, Some 0)", k+1)
		}
		sts[k] = fmt.Sprintf("(%s, %s)", f, cqBool(!st.Backup))
	}
	ls := make([]string, len(obs))
	for i, l := range obs {
		ls[i] = vc14CoqListing(l)
	}
	return fmt.Sprintf("PBackup %d%%nat %s %s %s", c.Keep, vc14CoqListing(olds0), cqList(sts), cqList(ls))
}

// the exhaustive box: every keep in 1..4 x every subset of old.0..old.5 x the given step patterns
func vc14BackupBox(patterns [][]vC14BkStep) []vC14RaftCase {
	var out []vC14RaftCase
	for keep := 1; keep <= 4; keep++ {
		for mask := 0; mask < 64; mask++ {
			olds := []int{}
			for i := 0; i < 6; i++ {
				if mask&(1<<uint(i)) != 0 {
					olds = append(olds, i)
				}
			}
			for _, p := range patterns {
				out = append(out, vC14RaftCase{Kind: "backup", Keep: keep, Olds: olds, Steps: append([]vC14BkStep{}, p...)})
			}
		}
	}
	return out
}

func vc14GenBackup(r *vRand) vC14RaftCase {
	c := vC14RaftCase{Kind: "backup", Keep: r.rng(1, 4)}
	if r.chance(10) {
		c.Keep = r.rng(5, 6)
	}
	for i := 0; i < 6; i++ {
		if r.chance(45) {
			c.Olds = append(c.Olds, i)
		}
	}
	n := r.rng(1, 6)
	for k := 0; k < n; k++ {
		st := vC14BkStep{Live: 2}
		switch x := r.intn(100); {
		case x < 15:
			st.Live = 0
		case x < 40:
			st.Live = 1
		}
		st.Backup = r.chance(25)
		c.Steps = append(c.Steps, st)
	}
	return c
}

func TestVerifC14Raft(t *testing.T) {
	seed := uint64(vEnvInt("VERIF_SEED", 1))
	n := vEnvInt("VERIF_N", 200)
	thorough := strings.HasPrefix(strings.ToLower(vc14EnvStr("VERIF_TIER", "quick")), "t")
	out := newVOut("C14", "From V Require Import Base.Common Model.C14_Backup Model.C14_Check.\nOpen Scope N_scope.",
		"case", "Definition R := Eval vm_compute in failing cases.\nPrint R.")
	defer out.close()
	rig := newVC14Rig("raft")
	defer rig.close()

	var cases []vC14RaftCase
	if raw := vCasesIn(); raw != nil {
		for _, b := range raw {
			var c vC14RaftCase
			if err := json.Unmarshal(b, &c); err != nil {
				t.Fatal(err)
			}
			cases = append(cases, c)
		}
	} else {
		// exhaustive box: all-snapshot histories of 6 cleans (every shorter history is a prefix of it and is
		// observed after each step); in the thorough tier every snapshot / no-snapshot pattern of length 6
		var patterns [][]vC14BkStep
		if thorough {
			for m := 0; m < 64; m++ {
				p := []vC14BkStep{}
				for k := 0; k < 6; k++ {
					live := 2
					if m&(1<<uint(k)) != 0 {
						live = 1
					}
					p = append(p, vC14BkStep{Live: live})
				}
				patterns = append(patterns, p)
			}
		} else {
			p := []vC14BkStep{}
			for k := 0; k < 6; k++ {
				p = append(p, vC14BkStep{Live: 2})
			}
			patterns = append(patterns, p)
		}
		cases = append(cases, vc14BackupBox(patterns)...)
		r := newVRand(seed)
		for i := 0; i < n; i++ {
			cases = append(cases, vc14GenBackup(r))
		}
		cases = append(cases, vc14GenSnapCases(r, n, thorough)...)
	}
	for i, c := range cases {
		if i%200 == 199 {
			runtime.GC() // latestSnapshot leaves its reader open; let finalizers close the descriptors
		}
		switch c.Kind {
		case "snap":
			vc14DoSnapCase(t, rig, out, c)
		default:
			c.Kind = "backup"
			vc14NormBk(&c)
			olds0, obs, errs := vc14RunBackup(rig, c)
			rot := 0
			for _, st := range c.Steps {
				if st.Live == 2 || (st.Live == 1 && st.Backup) {
					rot++
				}
			}
			out.count(fmt.Sprintf("backup.keep%d", c.Keep))
			out.count(fmt.Sprintf("backup.rotations%d", rot))
			if len(errs) > 0 {
				out.count("backup.error")
			}
			out.add(vc14CoqBackup(c, olds0, obs), c, map[string]interface{}{"olds0": olds0, "after": obs, "errors": errs},
				rot >= 2 || (rot >= 1 && len(c.Olds) > 0))
		}
	}
}
