//go:build verif

package raft

// C17 correspondence harness: rig R1 of C01 (real hashicorp/raft nodes in memory, real FSM, real *Consensus) with
// membership changes through the real Consensus.AddPeer / RmPeer -> raftWrapper.AddPeer / RemovePeer, issued at the
// leader and at followers (redirect), interleaved with pin/unpin, snapshots and restarts; joiners start with no
// configuration (as a staging peer does), are admitted, run the real Consensus.WaitForSync and are observed the
// moment it returns; removed peers are stopped (the job of Cluster.watchPeers/Shutdown, not exercised here).

import (
	"context"
	"encoding/json"
	"fmt"
	"sort"
	"sync"
	"testing"
	"time"

	hraft "github.com/hashicorp/raft"
)

type vC17Cmd struct {
	Op   string   `json:"op"`             // pin unpin add rm sync obs restart snap
	Node int      `json:"node"`           // pin/unpin/add/rm: issuing member relative to the leader; restart/snap: relative target
	Peer int      `json:"peer"`           // add/rm: absolute node slot
	Slow bool     `json:"slow,omitempty"` // add: the joiner's FSM is held back (entries stay queued) while it waits for sync
	Lag  int      `json:"lag,omitempty"`  // add: the joiner RECEIVES only a prefix of the log while it waits for sync: 1 nothing, 2 one entry, 3 half of what precedes its own add entry, 4 all but its own add entry
	Pin  *vC01Pin `json:"pin,omitempty"`  // pin unpin
	Kind string   `json:"kind,omitempty"` // stale: "rm" (a peer is added while a follower is down; RmPeer of it at that follower, restarted on its stale configuration) or "add" (a peer is removed meanwhile; AddPeer of it there)
}

type vC17Case struct {
	N0    int       `json:"n0"` // initial members: slots 0..n0-1
	Trail int       `json:"trail"`
	Cmds  []vC17Cmd `json:"cmds"`
}

const vC17Slots = 6

func vC17Gen(r *vRand) vC17Case {
	c := vC17Case{N0: 1 + r.intn(3), Trail: []int{1, 2, 64}[r.intn(3)]}
	member := map[int]bool{}
	for i := 0; i < c.N0; i++ {
		member[i] = true
	}
	count := func() int {
		k := 0
		for _, v := range member {
			if v {
				k++
			}
		}
		return k
	}
	pick := func(want bool) int {
		var cand []int
		for i := 0; i < vC17Slots; i++ {
			if member[i] == want {
				cand = append(cand, i)
			}
		}
		if len(cand) == 0 {
			return r.intn(vC17Slots)
		}
		return cand[r.intn(len(cand))]
	}
	ncids := 2 + r.intn(2)
	n := 6 + r.intn(12)
	for i := 0; i < n; i++ {
		at := 0
		if r.chance(40) {
			at = r.intn(3)
		}
		x := r.intn(100)
		switch {
		case x < 38:
			c.Cmds = append(c.Cmds, vC17Cmd{Op: "pin", Node: at, Pin: vC01GenPin(r, ncids, 0, false)})
		case x < 52:
			c.Cmds = append(c.Cmds, vC17Cmd{Op: "unpin", Node: at, Pin: &vC01Pin{Cid: r.intn(ncids), Type: 2, MaxDepth: -1, Update: -1, Ref: -1}})
		case x < 68:
			p := pick(r.chance(25)) // mostly a peer that is not a member; sometimes a present one (no-op)
			ac := vC17Cmd{Op: "add", Node: at, Peer: p, Slow: r.chance(15)}
			if !ac.Slow && r.chance(15) {
				ac.Lag = 1 + r.intn(4)
			}
			c.Cmds = append(c.Cmds, ac)
			member[p] = true
		case x < 82:
			p := pick(!r.chance(25)) // mostly a member; sometimes an absent peer (no-op)
			c.Cmds = append(c.Cmds, vC17Cmd{Op: "rm", Node: at, Peer: p})
			if !(count() == 1 && member[p]) {
				member[p] = false
			}
		case x < 88:
			c.Cmds = append(c.Cmds, vC17Cmd{Op: "snap", Node: r.intn(3)})
		case x < 93:
			c.Cmds = append(c.Cmds, vC17Cmd{Op: "restart", Node: r.intn(3)})
		default:
			c.Cmds = append(c.Cmds, vC17Cmd{Op: "sync"})
		}
	}
	return c
}

// vC17GateTrans: what a joiner's Raft reads its RPCs from. Entry-carrying AppendEntries (the leader sends one entry per RPC: MaxAppendEntries = 1)
// and InstallSnapshot pass only up to a scripted log index; the rest is held, in order, until the limit is raised. Heartbeats and votes
// always pass. Every RPC handed to Raft gets a buffered response channel, so the joiner never blocks on a sender that has timed out.
type vC17GateTrans struct {
	*hraft.InmemTransport
	out   chan hraft.RPC
	mu    sync.Mutex
	limit uint64 // entries with an index above it are held
	held  []hraft.RPC
	kick  chan struct{}
	stop  chan struct{}
}

const vC17GateOpen = ^uint64(0)

func vC17NewGate(t *hraft.InmemTransport, limit uint64) *vC17GateTrans {
	g := &vC17GateTrans{InmemTransport: t, out: make(chan hraft.RPC), limit: limit, kick: make(chan struct{}, 1), stop: make(chan struct{})}
	go g.pump()
	return g
}

func (g *vC17GateTrans) Consumer() <-chan hraft.RPC { return g.out }

func (g *vC17GateTrans) passes(rpc hraft.RPC) bool {
	switch c := rpc.Command.(type) {
	case *hraft.AppendEntriesRequest:
		for _, e := range c.Entries {
			if e.Index > g.limit {
				return false
			}
		}
		return true
	case *hraft.InstallSnapshotRequest:
		return g.limit == vC17GateOpen
	}
	return true
}

func (g *vC17GateTrans) forward(rpc hraft.RPC) {
	sub := make(chan hraft.RPCResponse, 1)
	orig := rpc.RespChan
	rpc.RespChan = sub
	select {
	case g.out <- rpc:
	case <-g.stop:
		return
	}
	go func() {
		select {
		case r := <-sub:
			select {
			case orig <- r:
			case <-time.After(3 * time.Second): // the sender gave up
			}
		case <-g.stop:
		}
	}()
}

func (g *vC17GateTrans) pump() {
	in := g.InmemTransport.Consumer()
	for {
		select {
		case rpc := <-in:
			g.mu.Lock()
			if !g.passes(rpc) {
				g.held = append(g.held, rpc)
				g.mu.Unlock()
				continue
			}
			g.mu.Unlock()
			g.forward(rpc)
		case <-g.kick:
			for {
				g.mu.Lock()
				if len(g.held) == 0 || !g.passes(g.held[0]) {
					g.mu.Unlock()
					break
				}
				rpc := g.held[0]
				g.held = g.held[1:]
				g.mu.Unlock()
				g.forward(rpc)
			}
		case <-g.stop:
			return
		}
	}
}

func (g *vC17GateTrans) setLimit(l uint64) {
	g.mu.Lock()
	g.limit = l
	g.mu.Unlock()
	select {
	case g.kick <- struct{}{}:
	default:
	}
}

// only when the rig is torn down: a gate that stops pumping cuts its node off
func (g *vC17GateTrans) close() { close(g.stop) }

// the lagging-joiner shape: a cluster of two or three with several pins committed; a new peer is admitted at the leader or at a
// follower while it has received nothing / one entry / half / all but its own add entry of the log; then everybody catches up
func vC17GenLag(r *vRand, lag int) vC17Case {
	c := vC17Case{N0: 2 + r.intn(2), Trail: 64}
	ncids := 3
	for i := 0; i < 3+r.intn(4); i++ {
		if i > 1 && r.chance(25) {
			c.Cmds = append(c.Cmds, vC17Cmd{Op: "unpin", Node: r.intn(2), Pin: &vC01Pin{Cid: r.intn(ncids), Type: 2, MaxDepth: -1, Update: -1, Ref: -1}})
		} else {
			c.Cmds = append(c.Cmds, vC17Cmd{Op: "pin", Node: r.intn(2), Pin: vC01GenPin(r, ncids, 0, false)})
		}
	}
	c.Cmds = append(c.Cmds, vC17Cmd{Op: "add", Node: r.intn(2), Peer: c.N0, Lag: lag})
	c.Cmds = append(c.Cmds, vC17Cmd{Op: "sync"})
	c.Cmds = append(c.Cmds, vC17Cmd{Op: "pin", Node: r.intn(3), Pin: vC01GenPin(r, ncids, 0, false)})
	if r.chance(50) {
		c.Cmds = append(c.Cmds, vC17Cmd{Op: "add", Node: r.intn(3), Peer: c.N0 + 1, Lag: 1 + r.intn(4)})
	}
	c.Cmds = append(c.Cmds, vC17Cmd{Op: "sync"})
	return c
}

// the stale-member shape: a follower is stopped (its stores kept), the membership changes without it, it is started again and -
// before it has received anything new: its own Peers() is the old peerset - the opposite change is asked of it
func vC17GenStale(r *vRand, kind string) vC17Case {
	c := vC17Case{N0: 3, Trail: 64}
	ncids := 3
	for i := 0; i < 1+r.intn(3); i++ {
		c.Cmds = append(c.Cmds, vC17Cmd{Op: "pin", Node: r.intn(3), Pin: vC01GenPin(r, ncids, 0, false)})
	}
	if kind == "add" || r.chance(30) {
		c.Cmds = append(c.Cmds, vC17Cmd{Op: "add", Node: r.intn(3), Peer: 3}) // four members: one can be removed while another is down
	}
	c.Cmds = append(c.Cmds, vC17Cmd{Op: "stale", Node: r.intn(3), Peer: r.intn(3), Kind: kind})
	c.Cmds = append(c.Cmds, vC17Cmd{Op: "sync"})
	c.Cmds = append(c.Cmds, vC17Cmd{Op: "pin", Node: r.intn(3), Pin: vC01GenPin(r, ncids, 0, false)})
	if r.chance(40) {
		c.Cmds = append(c.Cmds, vC17Cmd{Op: "stale", Node: r.intn(3), Peer: r.intn(3), Kind: []string{"rm", "add"}[r.intn(2)]})
	}
	c.Cmds = append(c.Cmds, vC17Cmd{Op: "sync"})
	return c
}

type vC17X struct {
	Kind   string `json:"k"` // add rm peers
	Peer   int    `json:"p"`
	Err    bool   `json:"err"`
	Landed bool   `json:"landed"`
	Node   int    `json:"n"`
	Peers  []int  `json:"peers"`
	Self   bool   `json:"self"` // ready: the joiner listed itself in its own Peers() when WaitForSync returned
}

type vC17Result struct {
	input   vC17Case
	term    string
	obs     map[string]interface{}
	nontriv bool
	direct  []string
	skipped string
	stats   map[string]int
}

// live members of the rig: started, raft running, not removed
func (r *vC01Rig) liveMembers() []*vC01Node {
	var out []*vC01Node
	for _, n := range r.nodes {
		if n.started && !n.down && !n.removed && !n.crashed {
			out = append(out, n)
		}
	}
	return out
}

func vC17Peers(rig *vC01Rig, n *vC01Node) ([]int, bool) {
	ps, err := n.cc.Peers(context.Background())
	if err != nil {
		return nil, false
	}
	out := []int{}
	for _, p := range ps {
		out = append(out, vC01PeerIdx(p))
	}
	sort.Ints(out)
	return out, true
}

func vC17Has(xs []int, x int) bool {
	for _, y := range xs {
		if y == x {
			return true
		}
	}
	return false
}

func vC17Run(c vC17Case) (res vC17Result) {
	res.input = c
	res.stats = map[string]int{}
	if c.N0 < 1 {
		c.N0 = 1
	}
	if c.N0 > 3 {
		c.N0 = 3
	}
	if c.Trail < 1 {
		c.Trail = 1
	}
	ctx := context.Background()
	rig := vC01NewRig(vC17Slots, uint64(c.Trail))
	rig.wflTimeout = 2500 * time.Millisecond
	for _, cmd := range c.Cmds {
		if cmd.Op == "add" && cmd.Lag > 0 {
			rig.maxAppend = 1 // one entry per AppendEntries: what the joiner's gate lets through is counted in entries
		}
	}
	var gates []*vC17GateTrans
	defer func() {
		for _, g := range gates {
			g.close()
		}
	}()
	if err := rig.bootstrap(c.N0); err != nil {
		res.skipped = "bootstrap: " + err.Error()
		return
	}
	defer rig.shutdown()
	if rig.leader(15*time.Second) == nil {
		res.skipped = "no leader after bootstrap"
		return
	}
	var subs []vC01Submitted
	var xs []vC17X
	resolve := func(rel int) *vC01Node {
		l := rig.leader(5 * time.Second)
		live := rig.liveMembers()
		if len(live) == 0 {
			return nil
		}
		base := 0
		for i, n := range live {
			if l != nil && n == l {
				base = i
			}
		}
		if rel < 0 {
			rel = 0
		}
		return live[(base+rel)%len(live)]
	}
	peersAfter := func() ([]int, bool) {
		// the configuration every live member agrees on once things are quiet
		if !rig.quiesce(10 * time.Second) {
			return nil, false
		}
		l := rig.leader(5 * time.Second)
		if l == nil {
			return nil, false
		}
		return vC17Peers(rig, l)
	}
	for _, cmd := range c.Cmds {
		if rig.anyCrashed() || res.skipped != "" {
			break
		}
		rig.mu.Lock()
		ovf := rig.overflow
		rig.mu.Unlock()
		if ovf {
			break
		}
		switch cmd.Op {
		case "pin", "unpin":
			if cmd.Pin == nil {
				continue
			}
			p := *cmd.Pin
			p.sanitize()
			p.Origins = nil
			n := resolve(cmd.Node)
			if n == nil {
				continue
			}
			var op *LogOp
			if cmd.Op == "pin" {
				op = &LogOp{Cid: p.real(), Type: LogOpPin}
			} else {
				op = &LogOp{Cid: p.real(), Type: LogOpUnpin}
			}
			b := vC01Encode(op)
			subs = append(subs, vC01Submitted{kind: cmd.Op, pin: &p, bytes: b, gen: vC01Generic(b)})
			ci := len(subs) - 1
			for cj := range subs {
				if string(subs[cj].bytes) == string(b) {
					ci = cj
					break
				}
			}
			rig.setCommitter(n.idx)
			var err error
			if cmd.Op == "pin" {
				err = n.cc.LogPin(ctx, p.real())
			} else {
				err = n.cc.LogUnpin(ctx, p.real())
			}
			if err == nil {
				rig.mu.Lock()
				rig.trace = append(rig.trace, vC01Ev{Kind: "ack", Node: rig.getCommitter(), Cmd: ci})
				rig.mu.Unlock()
				res.stats["acked"]++
			} else {
				res.stats["commit_err"]++
			}
		case "add":
			k := vC01Clamp(cmd.Peer, vC17Slots)
			j := rig.nodes[k]
			at := resolve(cmd.Node)
			if at == nil {
				continue
			}
			before, okb := peersAfter()
			if !okb {
				continue
			}
			was := vC17Has(before, k)
			if !was && j.started {
				// the identity of a removed peer is not reused: the joiner is a new peer
				k = -1
				for i, m := range rig.nodes {
					if !m.started {
						k = i
						break
					}
				}
				if k < 0 {
					continue
				}
				j = rig.nodes[k]
			}
			var gate *vC17GateTrans
			if !was {
				// a joiner: a running peer with no configuration of its own (as a staging peer)
				if cmd.Slow {
					rig.closeGate(k)
				} else if cmd.Lag >= 1 && cmd.Lag <= 4 && len(before) >= 2 {
					// a lagging joiner: replication to it is still under way while it waits for sync. The add commits without it
					// (two or more members already); it receives nothing until the script says how much
					rig.wrapTrans = func(n *vC01Node, t *hraft.InmemTransport) hraft.Transport {
						if n != j {
							return t
						}
						gate = vC17NewGate(t, 0)
						gates = append(gates, gate)
						return gate
					}
				}
				err := rig.start(j)
				rig.wrapTrans = nil
				if err != nil {
					res.skipped = "start joiner: " + err.Error()
					return
				}
			}
			err := at.cc.AddPeer(ctx, j.id)
			idxAtReturn := rig.maxIdx()
			var after []int
			oka := false
			if gate != nil {
				// the members cannot all be caught up: the joiner is held back. The configuration is the leader's
				if l := rig.leader(10 * time.Second); l != nil {
					after, oka = vC17Peers(rig, l)
				}
			} else {
				after, oka = peersAfter()
			}
			if !oka {
				if gate != nil {
					gate.setLimit(vC17GateOpen)
				}
				rig.openGate(k)
				res.skipped = "no leader after AddPeer"
				return
			}
			landed := vC17Has(after, k)
			xs = append(xs, vC17X{Kind: "add", Peer: k, Err: err != nil, Landed: landed})
			res.stats["add"]++
			if err != nil {
				res.stats["add_err"]++
			}
			if was {
				res.stats["add_present"]++
			}
			if !was && !landed {
				rig.openGate(k)
				if gate != nil {
					gate.setLimit(vC17GateOpen)
				}
				rig.stop(j)
				j.removed = true
			}
			selfListed := func() bool {
				ps, ok := vC17Peers(rig, j)
				return ok && vC17Has(ps, k)
			}
			if gate != nil && (!landed || err != nil) {
				gate.setLimit(vC17GateOpen)
				gate = nil
			}
			if !was && landed && err == nil {
				// the joiner waits to be in sync, as Cluster.Join / the consensus bootstrap do
				done := make(chan error, 1)
				go func() { done <- j.cc.WaitForSync(ctx) }()
				var werr error
				if gate != nil {
					res.stats["lag_join"]++
					// the joiner's add entry is the last entry of the leader's log (nothing else was submitted meanwhile)
					own := uint64(0)
					if l := rig.leader(10 * time.Second); l != nil {
						own = l.raft.LastIndex()
					}
					lim := uint64(0)
					switch cmd.Lag {
					case 2:
						lim = 1
					case 3:
						lim = (own - 1) / 2
					case 4:
						lim = own - 1
					}
					if own == 0 {
						lim = 0
					} else if lim >= own {
						lim = own - 1
					}
					gate.setLimit(lim)
					for dl := time.Now().Add(5 * time.Second); j.raft.LastIndex() < lim && time.Now().Before(dl); {
						time.Sleep(3 * time.Millisecond)
					}
					res.stats[fmt.Sprintf("lag_join_received_%d_of_%d", j.raft.LastIndex(), own)]++
					// it has not received its own add entry: WaitForSync must keep waiting (short, bounded wait)
					select {
					case werr = <-done:
						if werr == nil {
							rig.observeReady(j, idxAtReturn) // ready on a prefix of the log: recorded as observed
							xs = append(xs, vC17X{Kind: "ready", Node: k, Self: selfListed()})
							res.stats["ready_while_lagging"]++
						}
						gate.setLimit(vC17GateOpen)
					case <-time.After(1500 * time.Millisecond):
						gate.setLimit(vC17GateOpen)
						werr = <-done
						if werr == nil {
							rig.observeReady(j, idxAtReturn)
							xs = append(xs, vC17X{Kind: "ready", Node: k, Self: selfListed()})
						}
					}
				} else if cmd.Slow {
					res.stats["slow_join"]++
					// the joiner's FSM has applied nothing yet: WaitForSync is expected to keep waiting (short, bounded wait)
					select {
					case werr = <-done:
						if werr == nil {
							rig.observeReady(j, idxAtReturn) // ready while its FSM is behind: recorded as observed
							xs = append(xs, vC17X{Kind: "ready", Node: k, Self: selfListed()})
							res.stats["ready_while_held"]++
						}
						rig.openGate(k)
					case <-time.After(1500 * time.Millisecond):
						rig.openGate(k)
						werr = <-done
						if werr == nil {
							rig.observeReady(j, idxAtReturn)
							xs = append(xs, vC17X{Kind: "ready", Node: k, Self: selfListed()})
						}
					}
				} else {
					werr = <-done
					if werr == nil {
						rig.observeReady(j, idxAtReturn)
						xs = append(xs, vC17X{Kind: "ready", Node: k, Self: selfListed()})
					}
				}
				if werr != nil {
					res.stats["waitforsync_err"]++
				} else {
					res.stats["ready"]++
				}
			}
			rig.openGate(k)
			if gate != nil {
				gate.setLimit(vC17GateOpen)
			}
		case "rm":
			k := vC01Clamp(cmd.Peer, vC17Slots)
			j := rig.nodes[k]
			at := resolve(cmd.Node)
			if at == nil {
				continue
			}
			before, okb := peersAfter()
			if !okb {
				continue
			}
			was := vC17Has(before, k)
			err := at.cc.RmPeer(ctx, j.id)
			after, oka := peersAfter()
			if !oka {
				res.skipped = "no leader after RmPeer"
				return
			}
			landed := !vC17Has(after, k)
			if was && landed {
				// Cluster.watchPeers: a peer that sees itself removed shuts down
				rig.stop(j)
				j.removed = true
			}
			xs = append(xs, vC17X{Kind: "rm", Peer: k, Err: err != nil, Landed: landed})
			res.stats["rm"]++
			if err != nil {
				res.stats["rm_err"]++
			}
			if !was {
				res.stats["rm_absent"]++
			}
			if was && len(before) == 1 {
				res.stats["rm_last"]++
			}
		case "stale":
			if !rig.quiesce(10 * time.Second) {
				continue
			}
			ld := rig.leader(5 * time.Second)
			var fol []*vC01Node
			for _, n := range rig.liveMembers() {
				if n != ld {
					fol = append(fol, n)
				}
			}
			before, okb := peersAfter()
			need := 2 // followers: the cluster keeps its quorum with one of them down
			if cmd.Kind == "add" {
				need = 3 // and with another one removed meanwhile
			}
			if ld == nil || !okb || len(fol) < need || len(before) != len(fol)+1 {
				continue
			}
			nd := cmd.Node
			if nd < 0 {
				nd = 0
			}
			b := fol[nd%len(fol)]
			res.stats["stale_"+cmd.Kind]++
			rig.stop(b) // its stores are kept: it will come back with the configuration it has now
			var x *vC01Node
			if cmd.Kind == "add" {
				// a member is removed while b is down
				var cand []*vC01Node
				for _, n := range fol {
					if n != b {
						cand = append(cand, n)
					}
				}
				pi := cmd.Peer
				if pi < 0 {
					pi = 0
				}
				x = cand[pi%len(cand)]
				err := ld.cc.RmPeer(ctx, x.id)
				after, oka := peersAfter()
				if !oka {
					res.skipped = "no leader after RmPeer (stale)"
					return
				}
				landed := !vC17Has(after, x.idx)
				xs = append(xs, vC17X{Kind: "rm", Peer: x.idx, Err: err != nil, Landed: landed})
				res.stats["rm"]++
				if landed {
					rig.stop(x)
					x.removed = true
				} else {
					x = nil
				}
			} else {
				// a new peer is admitted while b is down
				for _, m := range rig.nodes {
					if !m.started {
						x = m
						break
					}
				}
				if x != nil {
					if err := rig.start(x); err != nil {
						res.skipped = "start joiner (stale): " + err.Error()
						return
					}
					err := ld.cc.AddPeer(ctx, x.id)
					idxAtReturn := rig.maxIdx()
					after, oka := peersAfter()
					if !oka {
						res.skipped = "no leader after AddPeer (stale)"
						return
					}
					landed := vC17Has(after, x.idx)
					xs = append(xs, vC17X{Kind: "add", Peer: x.idx, Err: err != nil, Landed: landed})
					res.stats["add"]++
					if landed && err == nil {
						if werr := x.cc.WaitForSync(ctx); werr == nil {
							rig.observeReady(x, idxAtReturn)
							ps, ok := vC17Peers(rig, x)
							xs = append(xs, vC17X{Kind: "ready", Node: x.idx, Self: ok && vC17Has(ps, x.idx)})
							res.stats["ready"]++
						}
					}
					if !landed {
						rig.stop(x)
						x.removed = true
						x = nil
					}
				}
			}
			// b comes back behind a gate: heartbeats reach it (it knows the leader), no entry does: its Peers() is the old peerset
			var gate *vC17GateTrans
			if x != nil {
				lim, _ := b.logs.LastIndex()
				rig.wrapTrans = func(n *vC01Node, t *hraft.InmemTransport) hraft.Transport {
					if n != b {
						return t
					}
					gate = vC17NewGate(t, lim)
					gates = append(gates, gate)
					return gate
				}
			}
			err := rig.start(b)
			rig.wrapTrans = nil
			if err != nil {
				res.skipped = "restart (stale): " + err.Error()
				return
			}
			if x == nil || gate == nil {
				continue
			}
			for dl := time.Now().Add(3 * time.Second); b.raft.Leader() == "" && time.Now().Before(dl); {
				time.Sleep(3 * time.Millisecond)
			}
			if view, ok := vC17Peers(rig, b); ok && vC17Has(view, x.idx) == (cmd.Kind == "add") {
				res.stats["stale_view_confirmed"]++ // b still lists the removed peer / does not list the added one
			}
			done := make(chan error, 1)
			go func() {
				if cmd.Kind == "add" {
					done <- b.cc.AddPeer(ctx, x.id)
				} else {
					done <- b.cc.RmPeer(ctx, x.id)
				}
			}()
			var cerr error
			select {
			case cerr = <-done:
			case <-time.After(1500 * time.Millisecond):
				// the change may need b itself for its quorum: it is let through
				gate.setLimit(vC17GateOpen)
				cerr = <-done
			}
			gate.setLimit(vC17GateOpen)
			after, oka := peersAfter()
			if !oka {
				res.skipped = "no leader after the call at the stale member"
				return
			}
			if cmd.Kind == "add" {
				xs = append(xs, vC17X{Kind: "add", Peer: x.idx, Err: cerr != nil, Landed: vC17Has(after, x.idx)})
				res.stats["add"]++
			} else {
				landed := !vC17Has(after, x.idx)
				xs = append(xs, vC17X{Kind: "rm", Peer: x.idx, Err: cerr != nil, Landed: landed})
				res.stats["rm"]++
				if landed {
					rig.stop(x)
					x.removed = true
				}
			}
			if cerr != nil {
				res.stats["stale_call_err"]++
			}
			for _, n := range rig.liveMembers() {
				if ps, ok := vC17Peers(rig, n); ok {
					xs = append(xs, vC17X{Kind: "peers", Node: n.idx, Peers: ps})
				}
			}
		case "snap":
			if n := resolve(cmd.Node); n != nil {
				n.cc.raft.Snapshot()
			}
		case "restart":
			if n := resolve(cmd.Node); n != nil {
				rig.stop(n)
				if err := rig.start(n); err != nil {
					res.skipped = "restart: " + err.Error()
					return
				}
			}
		case "sync", "obs":
			if rig.quiesce(10 * time.Second) {
				res.stats["sync_ok"]++
				for _, n := range rig.liveMembers() {
					if ps, ok := vC17Peers(rig, n); ok {
						xs = append(xs, vC17X{Kind: "peers", Node: n.idx, Peers: ps})
					}
				}
			}
			rig.observeAll()
		}
	}
	if res.skipped != "" {
		return
	}
	if !rig.anyCrashed() {
		if rig.quiesce(15 * time.Second) {
			res.stats["final_sync_ok"]++
			for _, n := range rig.liveMembers() {
				if ps, ok := vC17Peers(rig, n); ok {
					xs = append(xs, vC17X{Kind: "peers", Node: n.idx, Peers: ps})
				}
			}
		} else {
			res.stats["final_sync_timeout"]++
		}
	}
	r1 := vC01Result{stats: res.stats}
	cmdsT, evsT, ok := vC01Finalize(rig, subs, vC17Slots, &r1)
	res.direct = r1.direct
	if !ok {
		res.skipped = r1.skipped
		return
	}
	var xt []string
	for _, x := range xs {
		switch x.Kind {
		case "add":
			xt = append(xt, fmt.Sprintf("XAdd %d %s %s", x.Peer, cqBool(x.Err), cqBool(x.Landed)))
		case "rm":
			xt = append(xt, fmt.Sprintf("XRm %d %s %s", x.Peer, cqBool(x.Err), cqBool(x.Landed)))
		case "ready":
			xt = append(xt, fmt.Sprintf("XReady %d %s", x.Node, cqBool(x.Self)))
		default:
			xt = append(xt, fmt.Sprintf("XPeers %d %s", x.Node, cqListN(x.Peers)))
		}
	}
	init := []int{}
	for i := 0; i < c.N0; i++ {
		init = append(init, i)
	}
	res.term = fmt.Sprintf("(%d, %s,\n   %s,\n   %s, %s)", vC17Slots, cmdsT, evsT, cqListN(init), cqList(xt))
	res.obs = map[string]interface{}{"membership": xs, "c01": r1.obs}
	res.nontriv = res.stats["add"]+res.stats["rm"] >= 2 && res.stats["acked"] >= 1
	return
}

func TestVerifC17(t *testing.T) {
	vC01Quiet()
	waitForUpdatesInterval = 10 * time.Millisecond // the polling period of WaitForVoter/WaitForUpdates (a package variable)
	seed := uint64(vEnvInt("VERIF_SEED", 1))
	n := vEnvInt("VERIF_N", 20)
	out := newVOut("C17", "From V Require Import Base.Common Model.C01_RaftLog Model.C01_Check Model.C17_Members Model.C17_Check.\nOpen Scope N_scope.",
		"C17_Check.case", "Definition R := Eval vm_compute in C17_Check.failing cases.\nPrint R.")
	defer out.close()
	var cases []vC17Case
	if raw := vCasesIn(); raw != nil {
		for _, b := range raw {
			// corpus files of the cluster-level harness (TestVerifC17Cluster_*.json) match this test's corpus pattern too:
			// their inputs carry a "peers" list and are not for this rig
			var probe struct {
				Peers []json.RawMessage `json:"peers"`
			}
			if json.Unmarshal(b, &probe) == nil && len(probe.Peers) > 0 {
				continue
			}
			var c vC17Case
			if err := json.Unmarshal(b, &c); err != nil {
				t.Fatal(err)
			}
			cases = append(cases, c)
		}
	} else {
		r := newVRand(seed ^ 0x1717)
		period := 8
		if n > 200 {
			period = 24 // each lagging join costs its 1.5 s of bounded waiting
		}
		for i := 0; i < n; i++ {
			if i%period == period/2-1 {
				cases = append(cases, vC17GenStale(r, []string{"rm", "add"}[(i/period)%2])) // boundary stream: the stale member
			} else if i%period == period-1 {
				cases = append(cases, vC17GenLag(r, 1+(i/period)%4)) // boundary stream: the lagging joiner, every amount of lag in turn
			} else {
				cases = append(cases, vC17Gen(r))
			}
		}
	}
	results := make([]vC17Result, len(cases))
	par := vEnvInt("VERIF_C01_PAR", 4)
	sem := make(chan struct{}, par)
	var wg sync.WaitGroup
	for i := range cases {
		wg.Add(1)
		sem <- struct{}{}
		go func(i int) {
			defer wg.Done()
			defer func() { <-sem }()
			defer func() {
				if p := recover(); p != nil {
					results[i].input = cases[i]
					results[i].direct = append(results[i].direct, fmt.Sprintf("harness panic: %v", p))
				}
			}()
			results[i] = vC17Run(cases[i])
		}(i)
	}
	wg.Wait()
	for _, res := range results {
		for _, d := range res.direct {
			b, _ := json.Marshal(map[string]interface{}{"signature": "c17-direct", "detail": d, "case": map[string]interface{}{"input": res.input}})
			fmt.Printf("VERIF-DIRECT-VIOLATION %s\n", b)
		}
		if res.skipped != "" || res.term == "" {
			out.count("skipped")
			fmt.Printf("VERIF-NOTE skipped case: %s\n", res.skipped)
			continue
		}
		out.add(res.term, res.input, res.obs, res.nontriv)
		out.count(fmt.Sprintf("n0=%d", res.input.N0))
		for k, v := range res.stats {
			if v > 0 {
				out.dist["sum_"+k] += v
				out.count("cases_with_" + k)
			}
		}
		if res.nontriv {
			out.count("nontrivial")
		}
	}
}
