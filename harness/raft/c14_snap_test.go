//go:build verif

package raft

import "testing"

type vC14SnapIn struct{}

func vc14GenSnapCases(r *vRand, n int, thorough bool) []vC14RaftCase { return nil }

func vc14DoSnapCase(t *testing.T, rig *vc14Rig, out *vOut, c vC14RaftCase) {}
