//go:build verif

package raft

// C14, package raft, snapshot cases: histories of the real SnapshotSave / CleanupRaft on one directory; after each
// operation every folder is read back offline (OfflineState with the data folder pointed at it), and the live folder
// through OfflineState and LastStateRaw; optionally a real Consensus peer is started on the saved snapshot.

import (
	"context"
	"encoding/json"
	"fmt"
	"os"
	"strings"
	"testing"
	"time"

	"github.com/ipfs/ipfs-cluster/datastore/inmem"
	"github.com/ipfs/ipfs-cluster/state"
	"github.com/ipfs/ipfs-cluster/state/dsstate"
	"github.com/ipfs/ipfs-cluster/test"

	hraft "github.com/hashicorp/raft"
	libp2p "github.com/libp2p/go-libp2p"
	p2praft "github.com/libp2p/go-libp2p-raft"
	host "github.com/libp2p/go-libp2p-core/host"
	peer "github.com/libp2p/go-libp2p-core/peer"
)

type vC14SnapOp struct {
	Op  string `json:"op"`  // "save" | "clean" | "bare"
	Set int    `json:"set"` // pinset index for save
}

type vC14SnapIn struct {
	Sets  [][]dsstate.VC14PinSpec `json:"sets"`
	Ops   []vC14SnapOp            `json:"ops"`
	Start bool                    `json:"start,omitempty"` // start a real peer on the final data folder
}

// pinset interner: id 0 is the empty pinset
type vc14Sets struct {
	pins  *dsstate.VC14Interner
	ids   map[string]int
	table [][]dsstate.VC14Entry
}

func newVC14Sets() *vc14Sets {
	s := &vc14Sets{pins: dsstate.NewVC14Interner(), ids: map[string]int{}}
	s.id([]dsstate.VC14Entry{})
	return s
}

func (s *vc14Sets) id(es []dsstate.VC14Entry) int {
	k := dsstate.VC14CoqEntries(es)
	if i, ok := s.ids[k]; ok {
		return i
	}
	s.ids[k] = len(s.table)
	s.table = append(s.table, es)
	return s.ids[k]
}

func (s *vc14Sets) coqTable() string {
	xs := make([]string, len(s.table))
	for i, es := range s.table {
		xs[i] = fmt.Sprintf("(%d, %s)", i, dsstate.VC14CoqEntries(es))
	}
	return cqList(xs)
}

func vc14StateOf(specs []dsstate.VC14PinSpec) state.State {
	st, err := dsstate.New(inmem.New(), "", dsstate.DefaultHandle())
	if err != nil {
		panic(err)
	}
	for _, sp := range specs {
		if err := st.Add(context.Background(), dsstate.VC14MakePin(sp)); err != nil {
			panic(err)
		}
	}
	return st
}

// read a data folder offline with the implementation's own reader
func vc14ReadOffline(folder string, sets *vc14Sets) ([]dsstate.VC14Entry, error) {
	cfg := vc14Cfg(folder+".cfgbase", 1)
	cfg.DataFolder = folder
	st, err := OfflineState(cfg, inmem.New())
	if err != nil {
		return nil, err
	}
	return dsstate.VC14Entries(st, sets.pins)
}

func vc14ReadRaw(cfg *Config, sets *vc14Sets) ([]dsstate.VC14Entry, error) {
	r, ok, err := LastStateRaw(cfg)
	if err != nil {
		return nil, err
	}
	if !ok {
		return []dsstate.VC14Entry{}, nil
	}
	st, err := dsstate.New(inmem.New(), "", dsstate.DefaultHandle())
	if err != nil {
		return nil, err
	}
	if err := st.Unmarshal(r); err != nil {
		return nil, err
	}
	return dsstate.VC14Entries(st, sets.pins)
}

func vc14GenSnapCases(r *vRand, n int, thorough bool) []vC14RaftCase {
	var out []vC14RaftCase
	m := n / 3
	if m < 20 {
		m = 20
	}
	for i := 0; i < m; i++ {
		c := vC14RaftCase{Kind: "snap", Keep: r.rng(1, 4), Snap: &vC14SnapIn{}}
		for j := 0; j < 6; j++ {
			if r.chance(25) {
				c.Olds = append(c.Olds, j)
			}
		}
		ns := r.rng(1, 3)
		for s := 0; s < ns; s++ {
			c.Snap.Sets = append(c.Snap.Sets, dsstate.VC14GenPinset(r.intn, 5, 30))
		}
		nops := r.rng(1, 5)
		for k := 0; k < nops; k++ {
			op := vC14SnapOp{Op: "save", Set: r.intn(ns)}
			switch x := r.intn(100); {
			case x < 25:
				op.Op = "clean"
			case x < 35:
				op.Op = "bare"
			case x < 50:
				op.Op = "more"
			}
			c.Snap.Ops = append(c.Snap.Ops, op)
		}
		out = append(out, c)
	}
	// a real peer started on a saved snapshot (costs seconds: a few per run)
	nstart := 2
	if thorough {
		nstart = 10
	}
	for i := 0; i < nstart; i++ {
		c := vC14RaftCase{Kind: "snap", Keep: 2, Snap: &vC14SnapIn{Start: true}}
		c.Snap.Sets = [][]dsstate.VC14PinSpec{dsstate.VC14GenPinset(r.intn, 6, 50), dsstate.VC14GenPinset(r.intn, 6, 0)}
		c.Snap.Ops = []vC14SnapOp{{Op: "save", Set: 0}}
		if i%2 == 1 {
			c.Snap.Ops = []vC14SnapOp{{Op: "save", Set: 1}, {Op: "save", Set: 0}}
		}
		out = append(out, c)
	}
	return out
}

// write one more (newer) snapshot into the data folder without cleaning it, as a running peer's raft does
func vc14ExtraSnapshot(df string, st state.State, index uint64, pids []peer.ID) error {
	if err := makeDataFolder(df); err != nil {
		return err
	}
	store, err := hraft.NewFileSnapshotStoreWithLogger(df, RaftMaxSnapshots, nil)
	if err != nil {
		return err
	}
	_, tr := hraft.NewInmemTransport("")
	sink, err := store.Create(1, index, 1, makeServerConf(pids), 1, tr)
	if err != nil {
		return err
	}
	if err := p2praft.EncodeSnapshot(st, sink); err != nil {
		sink.Cancel()
		return err
	}
	return sink.Close()
}

// start a real Consensus peer on the data folder and list its state
func vc14StartPeer(t *testing.T, cfg *Config, h host.Host, sets *vc14Sets) (es []dsstate.VC14Entry, errs string) {
	defer func() {
		if r := recover(); r != nil {
			errs = fmt.Sprint("panic: ", r)
		}
	}()
	cfg.hostShutdown = true
	cfg.WaitForLeaderTimeout = 120 * time.Second // a loaded machine must not turn into an alarm
	cc, err := NewConsensus(h, cfg, inmem.New(), false)
	if err != nil {
		return nil, "NewConsensus: " + err.Error()
	}
	cc.SetClient(test.NewMockRPCClientWithHost(t, h))
	ctx := context.Background()
	select {
	case <-cc.Ready(ctx):
	case <-time.After(150 * time.Second):
		cc.Shutdown(ctx)
		return nil, "peer not ready after 150s"
	}
	st, err := cc.State(ctx)
	if err != nil {
		cc.Shutdown(ctx)
		return nil, "State: " + err.Error()
	}
	es, err = dsstate.VC14Entries(st, sets.pins)
	if err != nil {
		errs = "List: " + err.Error()
	}
	cc.Shutdown(ctx)
	return es, errs
}

func newVC14RealHost() host.Host {
	h, err := libp2p.New(context.Background(), libp2p.ListenAddrStrings("/ip4/127.0.0.1/tcp/0"))
	if err != nil {
		panic(err)
	}
	return h
}

func vc14DoSnapCase(t *testing.T, rig *vc14Rig, out *vOut, c vC14RaftCase) {
	vc14NormBk(&c)
	if c.Snap == nil {
		c.Snap = &vC14SnapIn{}
	}
	in := c.Snap
	if len(in.Ops) > 10 {
		in.Ops = in.Ops[:10]
	}
	sets := newVC14Sets()
	base := rig.caseDir()
	cfg := vc14Cfg(base, c.Keep)
	df := cfg.GetDataFolder()
	pids := []peer.ID{test.PeerID1}
	var realHost host.Host
	if in.Start {
		realHost = newVC14RealHost()
		pids = []peer.ID{realHost.ID()}
	}
	for _, i := range c.Olds {
		rig.makeFolder(fmt.Sprintf("%s.old.%d", df, i), 100+i, i%2 == 0)
	}
	resolve := func(path string) int {
		es, err := vc14ReadOffline(path, sets)
		os.RemoveAll(path + ".cfgbase")
		if err != nil {
			return 888888
		}
		return sets.id(es)
	}
	olds0 := vc14Listing(df, resolve)[1:]
	states := make([]state.State, len(in.Sets))
	setIDs := make([]int, len(in.Sets))
	for i, specs := range in.Sets {
		states[i] = vc14StateOf(specs)
		es, err := dsstate.VC14Entries(states[i], sets.pins)
		if err != nil {
			panic(err)
		}
		setIDs[i] = sets.id(es)
	}
	var ops, obs []string
	var obsJSON []interface{}
	nsave, nrot := 0, 0
	var errs []string
	for k, op := range in.Ops {
		switch op.Op {
		case "save":
			if len(in.Sets) == 0 {
				continue
			}
			i := op.Set % len(in.Sets)
			if i < 0 {
				i = 0
			}
			if vc14HasSnapshot(df) {
				nrot++
			}
			if err := SnapshotSave(cfg, states[i], pids); err != nil {
				errs = append(errs, err.Error())
			}
			ops = append(ops, fmt.Sprintf("OSave %d", setIDs[i]))
			nsave++
		case "more":
			if len(in.Sets) == 0 {
				continue
			}
			i := op.Set % len(in.Sets)
			if i < 0 {
				i = 0
			}
			if err := vc14ExtraSnapshot(df, states[i], uint64(100+k), pids); err != nil {
				errs = append(errs, "more: "+err.Error())
			}
			ops = append(ops, fmt.Sprintf("OMore %d", setIDs[i]))
			nsave++
		case "bare":
			rig.makeFolder(df, 50+k, false)
			ops = append(ops, fmt.Sprintf("OBare %d", 50+k))
		default:
			if vc14HasSnapshot(df) {
				nrot++
			}
			if err := CleanupRaft(cfg); err != nil {
				errs = append(errs, err.Error())
			}
			ops = append(ops, "OClean")
		}
		off, err := OfflineState(cfg, inmem.New())
		var offEs []dsstate.VC14Entry
		if err != nil {
			errs = append(errs, "offline: "+err.Error())
		} else {
			offEs, _ = dsstate.VC14Entries(off, sets.pins)
		}
		rawEs, err := vc14ReadRaw(cfg, sets)
		if err != nil {
			errs = append(errs, "raw: "+err.Error())
		}
		l := vc14Listing(df, resolve)
		// LastStateRaw / OfflineState create the data folder when it is missing (snapshot store init): not part of the observation
		obs = append(obs, fmt.Sprintf("(%s, %s, %s)", vc14CoqListing(l), dsstate.VC14CoqEntries(offEs), dsstate.VC14CoqEntries(rawEs)))
		obsJSON = append(obsJSON, map[string]interface{}{"listing": l, "offline": offEs, "raw": rawEs})
	}
	if in.Start && realHost != nil {
		if vc14HasSnapshot(df) {
			es, e := vc14StartPeer(t, cfg, realHost, sets)
			out.count("snap.started_peer")
			if e != "" {
				errs = append(errs, "start: "+e)
				vc14DirectRaft("snapshot-peer-start-failed", e, c)
			}
			rawEs, err := vc14ReadRaw(cfg, sets)
			if err != nil {
				errs = append(errs, "raw: "+err.Error())
			}
			l := vc14Listing(df, resolve)
			ops = append(ops, "OStart")
			obs = append(obs, fmt.Sprintf("(%s, %s, %s)", vc14CoqListing(l), dsstate.VC14CoqEntries(es), dsstate.VC14CoqEntries(rawEs)))
			obsJSON = append(obsJSON, map[string]interface{}{"listing": l, "peer_state": es, "raw": rawEs})
		} else {
			realHost.Close()
		}
	}
	out.count("snap")
	out.count(fmt.Sprintf("snap.saves%d", nsave))
	if nrot > 0 {
		out.count("snap.with_rotation")
	}
	if len(errs) > 0 {
		out.count("snap.error")
	}
	term := fmt.Sprintf("PSnap %d%%nat %s %s %s %s", c.Keep, sets.coqTable(), vc14CoqListing(olds0), cqList(ops), cqList(obs))
	out.add(term, c, map[string]interface{}{"steps": obsJSON, "errors": errs, "table": sets.table}, nsave >= 1 && len(sets.table) > 1)
}

var vc14DirectRaftN = map[string]int{}

func vc14DirectRaft(sig string, detail interface{}, input interface{}) {
	vc14DirectRaftN[sig]++
	if vc14DirectRaftN[sig] > 2 {
		return
	}
	b, _ := json.Marshal(map[string]interface{}{"signature": sig, "detail": detail, "case": map[string]interface{}{"input": input}})
	fmt.Printf("VERIF-DIRECT-VIOLATION %s\n", b)
}

var _ = strings.TrimSpace
