//go:build verif

package raft

// Selected by tools/propspec/C01.py when consensus/raft does NOT define the restore-clearing FSM wrapper
// (the tree as pinned): the FSM handed to hashicorp/raft is go-libp2p-raft's FSM itself, as NewConsensus does.

import (
	"github.com/ipfs/ipfs-cluster/state/dsstate"

	hraft "github.com/hashicorp/raft"
	libp2praft "github.com/libp2p/go-libp2p-raft"
)

const vC01FSMVariant = "as-is"

func vC01WrapFSM(f *libp2praft.FSM, st *dsstate.State) hraft.FSM { return f }
