//go:build verif

package raft

// C14 rig for package raft: scratch directories under $VERIF_DIR/.build (never /tmp, never /repo),
// folders identified by a marker file, a template snapshot written once by the real SnapshotSave,
// directory listings.

import (
	"context"
	"fmt"
	"io/ioutil"
	"os"
	"path/filepath"
	"strconv"
	"strings"

	"github.com/ipfs/ipfs-cluster/datastore/inmem"
	"github.com/ipfs/ipfs-cluster/state/dsstate"
	"github.com/ipfs/ipfs-cluster/test"

	peer "github.com/libp2p/go-libp2p-core/peer"
)

const vc14Window = 8 // old.0 .. old.7 are listed

type vc14Rig struct {
	root     string // scratch root of this test process
	n        int
	template string // folder holding one real snapshot (written by SnapshotSave)
}

func vc14ScratchRoot(name string) string {
	base := os.Getenv("VERIF_DIR")
	if base == "" {
		panic("VERIF_DIR not set: refusing to create scratch directories elsewhere")
	}
	root := filepath.Join(base, ".build", "c14tmp", fmt.Sprintf("%s-%d", name, os.Getpid()))
	os.RemoveAll(root)
	if err := os.MkdirAll(root, 0700); err != nil {
		panic(err)
	}
	return root
}

func vc14Cfg(base string, keep int) *Config {
	cfg := &Config{}
	cfg.Default()
	cfg.BaseDir = base
	cfg.DataFolder = filepath.Join(base, "raftdata")
	cfg.BackupsRotate = keep
	return cfg
}

func newVC14Rig(name string) *vc14Rig {
	r := &vc14Rig{root: vc14ScratchRoot(name)}
	// template snapshot: an empty state saved by the real code
	tb := filepath.Join(r.root, "template")
	cfg := vc14Cfg(tb, 1)
	st, err := dsstate.New(inmem.New(), "", dsstate.DefaultHandle())
	if err != nil {
		panic(err)
	}
	if err := SnapshotSave(cfg, st, []peer.ID{test.PeerID1}); err != nil {
		panic(err)
	}
	r.template = cfg.GetDataFolder()
	return r
}

func (r *vc14Rig) close() { os.RemoveAll(r.root) }

func (r *vc14Rig) caseDir() string {
	r.n++
	d := filepath.Join(r.root, fmt.Sprintf("c%d", r.n))
	if err := os.MkdirAll(d, 0700); err != nil {
		panic(err)
	}
	return d
}

func vc14CopyTree(src, dst string) {
	err := filepath.Walk(src, func(p string, info os.FileInfo, err error) error {
		if err != nil {
			return err
		}
		rel, _ := filepath.Rel(src, p)
		target := filepath.Join(dst, rel)
		if info.IsDir() {
			return os.MkdirAll(target, 0700)
		}
		b, err := ioutil.ReadFile(p)
		if err != nil {
			return err
		}
		return ioutil.WriteFile(target, b, 0600)
	})
	if err != nil {
		panic(err)
	}
}

// makeFolder creates a folder with the given marker (0: no marker file) and, if withSnap, a copy of the template snapshot
func (r *vc14Rig) makeFolder(path string, marker int, withSnap bool) {
	os.RemoveAll(path)
	if err := os.MkdirAll(path, 0700); err != nil {
		panic(err)
	}
	if marker != 0 {
		if err := ioutil.WriteFile(filepath.Join(path, "marker"), []byte(strconv.Itoa(marker)), 0600); err != nil {
			panic(err)
		}
	}
	if withSnap {
		vc14CopyTree(filepath.Join(r.template, "snapshots"), filepath.Join(path, "snapshots"))
	}
}

// vc14Folder is what is observed of a folder: nil if absent
type vc14Folder struct {
	Marker int  `json:"marker"`
	Snap   *int `json:"snap"` // id of the newest snapshot's payload, nil: no snapshot
}

func vc14HasSnapshot(path string) bool {
	ents, err := ioutil.ReadDir(filepath.Join(path, "snapshots"))
	if err != nil {
		return false
	}
	for _, e := range ents {
		if e.IsDir() && !strings.HasSuffix(e.Name(), ".tmp") {
			if _, err := os.Stat(filepath.Join(path, "snapshots", e.Name(), "meta.json")); err == nil {
				return true
			}
		}
	}
	return false
}

// observe one folder; snapID resolves the payload of the newest snapshot to a small id (nil: always 0)
func vc14Observe(path string, snapID func(path string) int) *vc14Folder {
	if _, err := os.Stat(path); err != nil {
		return nil
	}
	f := &vc14Folder{}
	if b, err := ioutil.ReadFile(filepath.Join(path, "marker")); err == nil {
		f.Marker, _ = strconv.Atoi(strings.TrimSpace(string(b)))
	}
	if vc14HasSnapshot(path) {
		id := 0
		if snapID != nil {
			id = snapID(path)
		}
		f.Snap = &id
	}
	return f
}

// listing: live, old.0 .. old.(W-1)
func vc14Listing(dataFolder string, snapID func(path string) int) []*vc14Folder {
	out := []*vc14Folder{vc14Observe(dataFolder, snapID)}
	for i := 0; i < vc14Window; i++ {
		out = append(out, vc14Observe(fmt.Sprintf("%s.old.%d", dataFolder, i), snapID))
	}
	return out
}

func vc14CoqFolder(f *vc14Folder) string {
	if f == nil {
		return "None"
	}
	s := "None"
	if f.Snap != nil {
		s = "Some " + strconv.Itoa(*f.Snap)
	}
	return fmt.Sprintf("Some (%d, %s)", f.Marker, s)
}

func vc14CoqListing(l []*vc14Folder) string {
	xs := make([]string, len(l))
	for i, f := range l {
		xs[i] = vc14CoqFolder(f)
	}
	return cqList(xs)
}

var _ = context.Background

func vc14EnvStr(name, def string) string {
	if v := os.Getenv(name); v != "" {
		return v
	}
	return def
}
