//go:build verif

package raft

// C08, Raft log boundary: the loop of go-libp2p-raft's FSM over ONE long-lived *LogOp, on the real code.
//
//	for every committed entry:  decodeOp(entry, fsm.op) ; fsm.op.ApplyTo(fsm.state)
//
// A case is a sequence of 2..6 entries LogOp{Cid: pin, Type: pin/unpin}. Each entry is encoded with the library's own
// encoder (libp2praft.EncodeSnapshot is the exported face of the `encode` function encodeOp uses), decoded INTO the one
// shared op with the library's own decoder (libp2praft.DecodeSnapshot = `decode`, default msgpack handle with
// ErrorIfNoField), and applied with the real LogOp.ApplyTo on a real dsstate over a map datastore, with a Consensus
// whose rpcClient is a recording PinTracker. What is observed per entry: the pin handed to the tracker (rendered inside
// the RPC handler, before the next entry is decoded) and the pin read back from the state. The same byte sequence is
// also pushed through the real FSM.Apply on a second state; both states must end up equal.
// Kind "onto": pin B decoded on top of pin A with no ApplyTo in between (the decoder's behaviour on a used value).

import (
	"bytes"
	"context"
	"encoding/hex"
	"encoding/json"
	"fmt"
	"sort"
	"strconv"
	"strings"
	"testing"
	"time"

	"github.com/ipfs/ipfs-cluster/api"
	"github.com/ipfs/ipfs-cluster/datastore/inmem"
	"github.com/ipfs/ipfs-cluster/state/dsstate"

	hraft "github.com/hashicorp/raft"
	cid "github.com/ipfs/go-cid"
	logging "github.com/ipfs/go-log/v2"
	peer "github.com/libp2p/go-libp2p-core/peer"
	protocol "github.com/libp2p/go-libp2p-core/protocol"
	rpc "github.com/libp2p/go-libp2p-gorpc"
	libp2praft "github.com/libp2p/go-libp2p-raft"
	multiaddr "github.com/multiformats/go-multiaddr"
	mh "github.com/multiformats/go-multihash"
	codec "github.com/ugorji/go/codec"
)

// ---------------------------------------------------------------- universes
var (
	vC08LCids  []cid.Cid
	vC08LPeers []peer.ID
	vC08LAddrs []multiaddr.Multiaddr
)

var vC08LNames = map[string]string{}
var vC08LNameDefs []string

func vC08LIntern(s string) {
	if _, ok := vC08LNames[s]; ok || len(s) < 8 {
		return
	}
	n := "u" + strconv.Itoa(len(vC08LNames))
	vC08LNameDefs = append(vC08LNameDefs, "Definition "+n+" := "+vC08LStr(s)+".")
	vC08LNames[s] = n
}

func vC08LInit() {
	if len(vC08LCids) > 0 {
		return
	}
	sum := func(s string, code uint64) mh.Multihash {
		h, err := mh.Sum([]byte(s), code, -1)
		if err != nil {
			panic(err)
		}
		return h
	}
	vC08LCids = []cid.Cid{
		cid.NewCidV0(sum("l0", mh.SHA2_256)),
		cid.NewCidV0(sum("l1", mh.SHA2_256)),
		cid.NewCidV1(cid.Raw, sum("l2", mh.SHA2_256)),
		cid.NewCidV1(cid.DagProtobuf, sum("l3", mh.SHA2_256)),
		cid.NewCidV1(cid.DagCBOR, sum("l4", mh.SHA2_512)),
		cid.NewCidV1(cid.Raw, sum("l5-identity", mh.IDENTITY)),
		cid.NewCidV0(sum("l6", mh.SHA2_256)),
		cid.NewCidV1(cid.DagProtobuf, sum("l7", mh.SHA3_256)),
	}
	for i := 0; i < 3; i++ {
		vC08LPeers = append(vC08LPeers, peer.ID(sum("lpeer"+strconv.Itoa(i), mh.SHA2_256)))
	}
	for i := 0; i < 3; i++ {
		key := append([]byte{0x08, 0x01, 0x12, 0x20}, []byte(sum("lkey"+strconv.Itoa(i), mh.SHA2_256))[2:]...)
		h, err := mh.Sum(key, mh.IDENTITY, -1)
		if err != nil {
			panic(err)
		}
		vC08LPeers = append(vC08LPeers, peer.ID(h))
	}
	for _, s := range []string{"/ip4/10.1.2.3/tcp/4001/p2p/" + peer.Encode(vC08LPeers[0]), "/dns4/cluster.example.org/tcp/443/p2p/" + peer.Encode(vC08LPeers[3]), "/ip4/127.0.0.1/tcp/4001"} {
		m, err := multiaddr.NewMultiaddr(s)
		if err != nil {
			panic(err)
		}
		vC08LAddrs = append(vC08LAddrs, m)
	}
	for _, c := range vC08LCids {
		vC08LIntern(c.String())
	}
	for _, p := range vC08LPeers {
		vC08LIntern(peer.Encode(p))
	}
	for _, a := range vC08LAddrs {
		vC08LIntern(a.String())
	}
}

func vC08LClamp(i, n int) int {
	if n <= 0 {
		return 0
	}
	if i < 0 {
		i = -i
	}
	return i % n
}

// ---------------------------------------------------------------- Coq printing (terms of Model/C08_Codec.v)
func vC08LHeader() string {
	return "From V Require Import Base.Common Base.C08_Str Model.C08_Codec Model.C08_Query Model.C08_Status Base.C08_Schema Model.C08_Fmap Model.C08_Equals Model.C08_Wire Model.C08_Reuse Model.C08_Check.\nOpen Scope string_scope.\nOpen Scope N_scope.\n" +
		strings.Join(vC08LNameDefs, "\n")
}

func vC08LStr(s string) string {
	if n, ok := vC08LNames[s]; ok {
		return n
	}
	plain := true
	for i := 0; i < len(s); i++ {
		if s[i] < 0x20 || s[i] > 0x7e {
			plain = false
			break
		}
	}
	if plain {
		return "\"" + strings.ReplaceAll(s, "\"", "\"\"") + "\""
	}
	bs := make([]string, len(s))
	for i := 0; i < len(s); i++ {
		bs[i] = strconv.Itoa(int(s[i]))
	}
	return "(sb [" + strings.Join(bs, ";") + "])"
}

func vC08LZ(i int64) string { return "(" + strconv.FormatInt(i, 10) + ")%Z" }

func vC08LTokPeer(b []byte) string {
	if len(b) == 0 {
		return "TEmpty"
	}
	if p, err := peer.IDFromBytes(b); err == nil {
		return "(TOk " + vC08LStr(peer.Encode(p)) + ")"
	}
	return "(TBad " + vC08LStr(hex.EncodeToString(b)) + ")"
}

func vC08LCid(c cid.Cid) string {
	if !c.Defined() {
		return "None"
	}
	return "(Some " + vC08LStr(c.String()) + ")"
}

func vC08LTime(t time.Time) string {
	if t.IsZero() {
		return "None"
	}
	return fmt.Sprintf("(Some (%s, %d))", vC08LZ(t.Unix()), t.Nanosecond())
}

func vC08LPeerList(ps []peer.ID) string {
	out := make([]string, len(ps))
	for i, p := range ps {
		out[i] = vC08LTokPeer([]byte(p))
	}
	return cqList(out)
}

func vC08LPinTerm(p *api.Pin) string {
	o := &p.PinOptions
	keys := make([]string, 0, len(o.Metadata))
	for k := range o.Metadata {
		keys = append(keys, k)
	}
	sort.Strings(keys)
	meta := make([]string, len(keys))
	for i, k := range keys {
		meta[i] = "(" + vC08LStr(k) + ", " + vC08LStr(o.Metadata[k]) + ")"
	}
	origs := make([]string, len(o.Origins))
	for i, a := range o.Origins {
		if a == nil {
			origs[i] = "\"<nil>\""
		} else {
			origs[i] = vC08LStr(a.String())
		}
	}
	ref := "None"
	if p.Reference != nil {
		ref = "(Some " + vC08LCid(*p.Reference) + ")"
	}
	opts := fmt.Sprintf("(mk_opts %s %s %s %s %d %s %s %s %s %s)", vC08LZ(int64(o.ReplicationFactorMin)), vC08LZ(int64(o.ReplicationFactorMax)),
		vC08LStr(o.Name), vC08LZ(int64(o.Mode)), o.ShardSize, vC08LPeerList(o.UserAllocations), vC08LTime(o.ExpireAt),
		cqList(meta), vC08LCid(o.PinUpdate), cqList(origs))
	return fmt.Sprintf("(mk_pin %s %s %d %s %s %s)", opts, vC08LCid(p.Cid), uint64(p.Type), vC08LPeerList(p.Allocations), vC08LZ(int64(p.MaxDepth)), ref)
}

// ---------------------------------------------------------------- JSON input
type vC08LPinIn struct {
	Rmin   int64      `json:"rmin"`
	Rmax   int64      `json:"rmax"`
	Name   []byte     `json:"name"`
	Mode   int        `json:"mode"`
	Shard  uint64     `json:"shard"`
	UA     []int      `json:"ua"`
	Exp    []int64    `json:"exp"`    // [] = zero time, [sec, nsec]
	Meta   [][][]byte `json:"meta"`   // list of [key, value]
	Update int        `json:"update"` // cid index, -1 = undefined
	Orig   []int      `json:"orig"`
	Cid    int        `json:"cid"` // -1 = undefined
	Type   uint64     `json:"type"`
	Allocs []int      `json:"allocs"`
	Depth  int64      `json:"depth"`
	Ref    []int      `json:"ref"` // [] = nil pointer, [i]
}

type vC08LEntry struct {
	T   int        `json:"t"` // LogOpType: 1 pin, 2 unpin, anything else is ignored by ApplyTo
	Pin vC08LPinIn `json:"pin"`
}

type vC08LCase struct {
	Kind string       `json:"kind"` // "logop" | "onto"
	Seq  []vC08LEntry `json:"seq"`
}

func vC08LCidOf(i int) cid.Cid {
	if i < 0 {
		return cid.Undef
	}
	return vC08LCids[vC08LClamp(i, len(vC08LCids))]
}

func (in *vC08LPinIn) build() *api.Pin {
	p := &api.Pin{
		PinOptions: api.PinOptions{
			ReplicationFactorMin: int(in.Rmin),
			ReplicationFactorMax: int(in.Rmax),
			Name:                 string(in.Name),
			Mode:                 api.PinMode(in.Mode),
			ShardSize:            in.Shard,
			PinUpdate:            vC08LCidOf(in.Update),
		},
		Cid:      vC08LCidOf(in.Cid),
		Type:     api.PinType(in.Type),
		MaxDepth: api.PinDepth(in.Depth),
	}
	if len(in.Exp) >= 2 {
		ns := in.Exp[1]
		if ns < 0 {
			ns = -ns
		}
		p.ExpireAt = time.Unix(in.Exp[0], ns%1000000000)
	}
	for _, i := range in.UA {
		p.UserAllocations = append(p.UserAllocations, vC08LPeers[vC08LClamp(i, len(vC08LPeers))])
	}
	for _, i := range in.Allocs {
		p.Allocations = append(p.Allocations, vC08LPeers[vC08LClamp(i, len(vC08LPeers))])
	}
	if len(in.Meta) > 0 {
		p.Metadata = map[string]string{}
		for _, kv := range in.Meta {
			if len(kv) >= 2 {
				p.Metadata[string(kv[0])] = string(kv[1])
			}
		}
	}
	for _, i := range in.Orig {
		p.Origins = append(p.Origins, vC08LAddrs[vC08LClamp(i, len(vC08LAddrs))])
	}
	if len(in.Ref) > 0 {
		c := vC08LCidOf(in.Ref[0])
		p.Reference = &c
	}
	return p
}

// ---------------------------------------------------------------- generator
var vC08LStrings = []string{"a", "name", "with space", "k=v&x", "ünï", "日本", "\"q\"", "first entry", "x/y?z#w", "tab\there"}
var vC08LKeys = []string{"a", "b", "owner", "tier", "", "ü", "key with space"}

// one pin; rich: (almost) every optional field set; otherwise (almost) every optional field left empty
func vC08LGenPin(r *vRand, rich bool, wild bool) vC08LPinIn {
	set := func() bool {
		if rich {
			return r.chance(88)
		}
		return r.chance(12)
	}
	p := vC08LPinIn{Cid: r.intn(len(vC08LCids)), Update: -1, UA: []int{}, Exp: []int64{}, Orig: []int{}, Allocs: []int{}, Ref: []int{}}
	if set() {
		p.Rmin = int64(r.rng(1, 4))
		if r.chance(15) {
			p.Rmin = -1
		}
	}
	if set() {
		p.Rmax = int64(r.rng(1, 6))
		if r.chance(15) {
			p.Rmax = -1
		}
	}
	if set() {
		p.Name = []byte(vC08LStrings[r.intn(len(vC08LStrings))])
	}
	if set() {
		p.Shard = []uint64{1024, 1, 1 << 30, 1<<64 - 1}[r.intn(4)]
	}
	if set() {
		for i, n := 0, r.rng(1, 3); i < n; i++ {
			p.UA = append(p.UA, r.intn(len(vC08LPeers)))
		}
	}
	if set() {
		switch r.intn(4) {
		case 0:
			p.Exp = []int64{1600000000 + int64(r.intn(400000000)), 0}
		case 1:
			p.Exp = []int64{1600000000 + int64(r.intn(400000000)), int64(r.rng(1, 999999999))}
		case 2:
			p.Exp = []int64{[]int64{1, -1, 86400, 253402300799, 4102444800}[r.intn(5)], 0}
		default:
			p.Exp = []int64{0, int64(r.intn(2))} // the epoch second: stored as "no expiry"
		}
	}
	if set() {
		used := map[int]bool{}
		for i, n := 0, r.rng(1, 3); i < n; i++ {
			k := r.intn(len(vC08LKeys))
			if used[k] {
				continue
			}
			used[k] = true
			v := ""
			if r.chance(85) {
				v = vC08LStrings[r.intn(len(vC08LStrings))]
			}
			p.Meta = append(p.Meta, [][]byte{[]byte(vC08LKeys[k]), []byte(v)})
		}
	}
	if set() {
		p.Update = r.intn(len(vC08LCids))
	}
	if set() {
		for i, n := 0, r.rng(1, 3); i < n; i++ {
			p.Allocs = append(p.Allocs, r.intn(len(vC08LPeers)))
		}
	}
	// pin types with the depths and references the code base gives them; a direct pin has MaxDepth 0 (empty on the wire)
	switch x := r.intn(100); {
	case x < 50:
		p.Type = uint64(api.DataType)
		if rich && r.chance(75) {
			p.Mode, p.Depth = int(api.PinModeRecursive), -1
		} else {
			p.Mode, p.Depth = int(api.PinModeDirect), 0
		}
	case x < 62:
		p.Type, p.Depth, p.Ref = uint64(api.MetaType), 0, []int{r.intn(len(vC08LCids))}
	case x < 74:
		p.Type, p.Depth, p.Ref = uint64(api.ClusterDAGType), 0, []int{r.intn(len(vC08LCids))}
	case x < 92:
		p.Type, p.Depth = uint64(api.ShardType), int64(r.rng(1, 2))
		if set() {
			p.Ref = []int{r.intn(len(vC08LCids))}
		}
	default:
		p.Type, p.Depth = uint64(api.DataType), int64(r.rng(1, 3))
		if set() {
			p.Ref = []int{r.intn(len(vC08LCids))}
		}
	}
	if wild {
		switch r.intn(5) {
		case 0:
			p.Orig = []int{r.intn(len(vC08LAddrs))} // S19: the entry does not decode
		case 1:
			p.Name = []byte("bad\xffutf8") // cannot be stored
		case 2:
			p.Cid = -1 // an undefined CID does not decode
		case 3:
			p.Type = []uint64{0, 3, 1 << 40}[r.intn(3)]
		default:
			p.Rmin, p.Rmax = 1<<31+5, -(1 << 40)
		}
	}
	return p
}

func vC08LGen(r *vRand) vC08LCase {
	if r.chance(30) {
		a := vC08LGenPin(r, r.chance(80), false)
		b := vC08LGenPin(r, r.chance(35), r.chance(6))
		return vC08LCase{Kind: "onto", Seq: []vC08LEntry{{T: 1, Pin: a}, {T: 2, Pin: b}}}
	}
	n := r.rng(2, 6)
	c := vC08LCase{Kind: "logop"}
	for i := 0; i < n; i++ {
		// earlier entries tend to be rich, later ones plain: the later pin has EMPTY fields where the earlier one had values
		rich := r.chance(85 - 18*i)
		if i == 0 {
			rich = r.chance(90)
		}
		e := vC08LEntry{T: LogOpPin, Pin: vC08LGenPin(r, rich, r.chance(3))}
		switch x := r.intn(100); {
		case x < 22:
			e.T = LogOpUnpin
		case x < 25:
			e.T = []int{0, 3, 7}[r.intn(3)]
		}
		c.Seq = append(c.Seq, e)
	}
	return c
}

// ---------------------------------------------------------------- the rig: recording PinTracker behind a real rpc client
type vC08LRec struct{ ch chan string }

type vC08LTrackerSvc struct{ rec *vC08LRec }

func (s *vC08LTrackerSvc) Track(ctx context.Context, in *api.Pin, out *struct{}) error {
	s.rec.ch <- "T" + vC08LPinTerm(in)
	return nil
}

func (s *vC08LTrackerSvc) Untrack(ctx context.Context, in *api.Pin, out *struct{}) error {
	s.rec.ch <- "U" + vC08LPinTerm(in)
	return nil
}

type vC08LRig struct {
	st  *dsstate.State
	op  *LogOp
	rec *vC08LRec
}

func vC08LNewRig(name string) *vC08LRig {
	st, err := dsstate.New(inmem.New(), "/vc08l", dsstate.DefaultHandle())
	if err != nil {
		panic(err)
	}
	rec := &vC08LRec{ch: make(chan string, 64)}
	s := rpc.NewServer(nil, protocol.ID("/vc08l/"+name))
	client := rpc.NewClientWithServer(nil, protocol.ID("/vc08l/"+name), s)
	if err := s.RegisterName("PinTracker", &vC08LTrackerSvc{rec: rec}); err != nil {
		panic(err)
	}
	ctx, cancel := context.WithCancel(context.Background())
	cc := &Consensus{ctx: ctx, cancel: cancel, rpcClient: client}
	return &vC08LRig{st: st, op: &LogOp{consensus: cc}, rec: rec}
}

func (r *vC08LRig) waitCall(want byte) (string, bool) {
	select {
	case s := <-r.rec.ch:
		if len(s) > 0 && s[0] == want {
			return s[1:], true
		}
		return s, false
	case <-time.After(20 * time.Second):
		return "", false
	}
}

var vC08LSeenSig = map[string]bool{}

// one line per signature (the first input that shows it)
func vC08LDirect(sig string, detail string, c vC08LCase) {
	if vC08LSeenSig[sig] {
		return
	}
	vC08LSeenSig[sig] = true
	b, _ := json.Marshal(map[string]interface{}{"signature": sig, "detail": detail, "case": map[string]interface{}{"input": c}})
	fmt.Printf("VERIF-DIRECT-VIOLATION %s\n", b)
}

// the state as a sorted list of rendered pins
func vC08LDump(st *dsstate.State) []string {
	pins, err := st.List(context.Background())
	if err != nil {
		return []string{"list-error: " + err.Error()}
	}
	out := make([]string, len(pins))
	for i, p := range pins {
		out[i] = vC08LPinTerm(p)
	}
	sort.Strings(out)
	return out
}

func vC08LRunSeq(out *vOut, c vC08LCase) {
	ctx := context.Background()
	rig := vC08LNewRig("a")
	var entries, obs []string
	var wires [][]byte
	decoded, shrunk := 0, false
	var prev *api.Pin
	for _, e := range c.Seq {
		pin := e.Pin.build()
		entries = append(entries, fmt.Sprintf("(%s, %s)", vC08LZ(int64(e.T)), vC08LPinTerm(pin)))
		// what Consensus.op builds and commit() hands to the library
		sub := &LogOp{Cid: pin, Type: LogOpType(e.T)}
		var buf bytes.Buffer
		if err := libp2praft.EncodeSnapshot(sub, &buf); err != nil {
			obs = append(obs, "SEncErr")
			continue
		}
		bs := buf.Bytes()
		// the wire carries only the keys the model describes (no span context)
		var top map[string]interface{}
		hg := &codec.MsgpackHandle{}
		hg.RawToString = true
		if err := codec.NewDecoderBytes(bs, hg).Decode(&top); err == nil {
			for k := range top {
				if k != "c" && k != "p" && k != "t" {
					vC08LDirect("logop-wire-key", "unexpected key "+k+" in the encoded LogOp", c)
				}
			}
		}
		if err := libp2praft.DecodeSnapshot(rig.op, bytes.NewReader(bs)); err != nil {
			obs = append(obs, "SDecErr")
			break
		}
		wires = append(wires, bs)
		decoded++
		if rig.op.Cid == nil {
			obs = append(obs, "SNoPin")
			continue
		}
		if prev != nil && vC08LShrinks(prev, pin) {
			shrunk = true
		}
		prev = pin
		ty := rig.op.Type
		if _, err := rig.op.ApplyTo(rig.st); err != nil {
			obs = append(obs, "SAddErr")
			continue
		}
		switch ty {
		case LogOpPin:
			tr, ok := rig.waitCall('T')
			if !ok {
				vC08LDirect("logop-tracker-call", "no Track call after a LogOpPin entry: "+tr, c)
				obs = append(obs, "SNoPin")
				continue
			}
			got, err := rig.st.Get(ctx, pin.Cid)
			if err != nil {
				obs = append(obs, "(SPinnedLost "+tr+")")
				continue
			}
			obs = append(obs, "(SPinned "+tr+" "+vC08LPinTerm(got)+")")
		case LogOpUnpin:
			tr, ok := rig.waitCall('U')
			if !ok {
				vC08LDirect("logop-tracker-call", "no Untrack call after a LogOpUnpin entry: "+tr, c)
				obs = append(obs, "SNoPin")
				continue
			}
			if has, err := rig.st.Has(ctx, pin.Cid); err != nil || has {
				vC08LDirect("logop-unpin-left-entry", "the CID of an applied LogOpUnpin entry is still in the state", c)
			}
			obs = append(obs, "(SUnpinned "+tr+")")
		default:
			obs = append(obs, "SIgnored")
		}
	}
	// the same entries through the real FSM.Apply (up to the first one that does not decode)
	rig2 := vC08LNewRig("b")
	fsm := libp2praft.NewOpLog(rig2.st, rig2.op).FSM()
	for _, bs := range wires {
		res := fsm.Apply(&hraft.Log{Data: bs})
		if res != nil && (rig2.op.Type == LogOpPin || rig2.op.Type == LogOpUnpin) {
			want := byte('T')
			if rig2.op.Type == LogOpUnpin {
				want = 'U'
			}
			rig2.waitCall(want)
		}
	}
	d1, d2 := vC08LDump(rig.st), vC08LDump(rig2.st)
	if strings.Join(d1, "\n") != strings.Join(d2, "\n") {
		vC08LDirect("logop-fsm-loop-differs", "decode-into-the-shared-op + ApplyTo leaves another state than go-libp2p-raft's FSM.Apply on the same entries", c)
	}
	rig.op.consensus.cancel()
	rig2.op.consensus.cancel()
	out.count(fmt.Sprintf("logop:len%d", len(c.Seq)))
	if shrunk {
		out.count("logop:later-entry-empties-a-field")
	}
	if len(obs) > 0 && obs[len(obs)-1] == "SDecErr" {
		out.count("logop:ends-undecodable")
	}
	out.add(fmt.Sprintf("CLogOp %s %s", cqList(entries), cqList(obs)), c, obs, decoded >= 2 && shrunk)
}

// b leaves empty a field that a has set (the situation in which a reused value shows through)
func vC08LShrinks(a, b *api.Pin) bool {
	ao, bo := &a.PinOptions, &b.PinOptions
	return (ao.Name != "" && bo.Name == "") || (len(ao.Metadata) > 0 && len(bo.Metadata) == 0) || (!ao.ExpireAt.IsZero() && bo.ExpireAt.IsZero()) ||
		(a.Reference != nil && b.Reference == nil) || (ao.ReplicationFactorMin != 0 && bo.ReplicationFactorMin == 0) ||
		(ao.ReplicationFactorMax != 0 && bo.ReplicationFactorMax == 0) || (a.MaxDepth != 0 && b.MaxDepth == 0) ||
		(ao.ShardSize != 0 && bo.ShardSize == 0) || (ao.PinUpdate.Defined() && !bo.PinUpdate.Defined()) ||
		(len(a.Allocations) > 0 && len(b.Allocations) == 0) || (len(ao.UserAllocations) > 0 && len(bo.UserAllocations) == 0) ||
		(ao.Mode != 0 && bo.Mode == 0)
}

func vC08LRunOnto(out *vOut, c vC08LCase) {
	if len(c.Seq) < 2 {
		return
	}
	a, b := c.Seq[0].Pin.build(), c.Seq[1].Pin.build()
	obs := "None"
	var wa, wb bytes.Buffer
	op := &LogOp{}
	if libp2praft.EncodeSnapshot(&LogOp{Cid: a, Type: LogOpPin}, &wa) == nil && libp2praft.EncodeSnapshot(&LogOp{Cid: b, Type: LogOpUnpin}, &wb) == nil &&
		libp2praft.DecodeSnapshot(op, bytes.NewReader(wa.Bytes())) == nil {
		if err := libp2praft.DecodeSnapshot(op, bytes.NewReader(wb.Bytes())); err != nil {
			obs = "(Some Err)"
		} else if op.Cid != nil && op.Type == LogOpUnpin {
			obs = "(Some (Ok " + vC08LPinTerm(op.Cid) + "))"
		}
	}
	out.count("onto:" + obs[:strings.IndexAny(obs+" ", " ")])
	out.add(fmt.Sprintf("CLogOnto %s %s %s", vC08LPinTerm(a), vC08LPinTerm(b), obs), c, obs, vC08LShrinks(a, b))
}

func vC08LRun(out *vOut, c vC08LCase) {
	defer func() {
		if e := recover(); e != nil {
			vC08LDirect("panic-logop", fmt.Sprint(e), c)
		}
	}()
	switch c.Kind {
	case "logop":
		if len(c.Seq) > 0 {
			vC08LRunSeq(out, c)
		}
	case "onto":
		vC08LRunOnto(out, c)
	}
}

func TestVerifC08LogOp(t *testing.T) {
	vC08LInit()
	logging.SetAllLoggers(logging.LevelFatal) // entries refused by state.Add are logged at error level by the code
	seed := uint64(vEnvInt("VERIF_SEED", 1))
	n := vEnvInt("VERIF_N", 100)
	out := newVOut("C08L", vC08LHeader(), "case", "Definition R := Eval vm_compute in failing cases.\nPrint R.")
	out.idBase += 600000 // the runner merges the sidecars of both harness entries of C08 by id
	defer out.close()
	var cases []vC08LCase
	if raw := vCasesIn(); raw != nil {
		for _, b := range raw {
			var c vC08LCase
			if err := json.Unmarshal(b, &c); err != nil {
				continue // an input of the other C08 harness
			}
			cases = append(cases, c)
		}
	} else {
		r := newVRand(seed*7919 + 13)
		for i := 0; i < n; i++ {
			cases = append(cases, vC08LGen(r))
		}
	}
	for _, c := range cases {
		vCaseStart(c)
		vC08LRun(out, c)
	}
	vCaseDone()
}
