//go:build verif

package raft

// C08, Raft log boundary: the loop of go-libp2p-raft's FSM over ONE long-lived *LogOp, on the real code.
//
//	for every committed entry:  decodeOp(entry, fsm.op) ; fsm.op.ApplyTo(fsm.state)
//
// A case is a sequence of 2..6 entries LogOp{Cid: pin, Type: pin/unpin}. Each entry is encoded with the library's own
// encoder (libp2praft.EncodeSnapshot is the exported face of the `encode` function encodeOp uses), decoded INTO the one
// shared op with the library's own decoder (libp2praft.DecodeSnapshot = `decode`, default msgpack handle with
// ErrorIfNoField), and applied with the real LogOp.ApplyTo on a real dsstate over a map datastore, with a Consensus
// whose rpcClient is a recording PinTracker. What is observed per entry: the pin handed to the tracker (rendered inside
// the RPC handler, before the next entry is decoded) and the pin read back from the state. The same byte sequence is
// also pushed through the real FSM.Apply on a second state; both states must end up equal.
// Kind "onto": pin B decoded on top of pin A with no ApplyTo in between (the decoder's behaviour on a used value).

import (
	"bytes"
	"context"
	"encoding/json"
	"fmt"
	"sort"
	"strings"
	"testing"
	"time"

	"github.com/ipfs/ipfs-cluster/api"
	"github.com/ipfs/ipfs-cluster/datastore/inmem"
	"github.com/ipfs/ipfs-cluster/state/dsstate"

	hraft "github.com/hashicorp/raft"
	logging "github.com/ipfs/go-log/v2"
	protocol "github.com/libp2p/go-libp2p-core/protocol"
	rpc "github.com/libp2p/go-libp2p-gorpc"
	libp2praft "github.com/libp2p/go-libp2p-raft"
	codec "github.com/ugorji/go/codec"
)

type vC08LEntry struct {
	T   int        `json:"t"` // LogOpType: 1 pin, 2 unpin, anything else is ignored by ApplyTo
	Pin vC08LPinIn `json:"pin"`
}

type vC08LCase struct {
	Kind string       `json:"kind"` // "logop" | "onto"
	Seq  []vC08LEntry `json:"seq"`
}

func vC08LGen(r *vRand) vC08LCase {
	if r.chance(30) {
		a := vC08LGenPin(r, r.chance(80), false)
		b := vC08LGenPin(r, r.chance(35), r.chance(6))
		return vC08LCase{Kind: "onto", Seq: []vC08LEntry{{T: 1, Pin: a}, {T: 2, Pin: b}}}
	}
	n := r.rng(2, 6)
	c := vC08LCase{Kind: "logop"}
	for i := 0; i < n; i++ {
		// earlier entries tend to be rich, later ones plain: the later pin has EMPTY fields where the earlier one had values
		rich := r.chance(85 - 18*i)
		if i == 0 {
			rich = r.chance(90)
		}
		e := vC08LEntry{T: LogOpPin, Pin: vC08LGenPin(r, rich, r.chance(3))}
		switch x := r.intn(100); {
		case x < 22:
			e.T = LogOpUnpin
		case x < 25:
			e.T = []int{0, 3, 7}[r.intn(3)]
		}
		c.Seq = append(c.Seq, e)
	}
	return c
}

// ---------------------------------------------------------------- the rig: recording PinTracker behind a real rpc client
type vC08LRec struct{ ch chan string }

type vC08LTrackerSvc struct{ rec *vC08LRec }

func (s *vC08LTrackerSvc) Track(ctx context.Context, in *api.Pin, out *struct{}) error {
	s.rec.ch <- "T" + vC08LPinTerm(in)
	return nil
}

func (s *vC08LTrackerSvc) Untrack(ctx context.Context, in *api.Pin, out *struct{}) error {
	s.rec.ch <- "U" + vC08LPinTerm(in)
	return nil
}

type vC08LRig struct {
	st  *dsstate.State
	op  *LogOp
	rec *vC08LRec
}

func vC08LNewRig(name string) *vC08LRig {
	st, err := dsstate.New(inmem.New(), "/vc08l", dsstate.DefaultHandle())
	if err != nil {
		panic(err)
	}
	rec := &vC08LRec{ch: make(chan string, 64)}
	s := rpc.NewServer(nil, protocol.ID("/vc08l/"+name))
	client := rpc.NewClientWithServer(nil, protocol.ID("/vc08l/"+name), s)
	if err := s.RegisterName("PinTracker", &vC08LTrackerSvc{rec: rec}); err != nil {
		panic(err)
	}
	ctx, cancel := context.WithCancel(context.Background())
	cc := &Consensus{ctx: ctx, cancel: cancel, rpcClient: client}
	return &vC08LRig{st: st, op: &LogOp{consensus: cc}, rec: rec}
}

func (r *vC08LRig) waitCall(want byte) (string, bool) {
	select {
	case s := <-r.rec.ch:
		if len(s) > 0 && s[0] == want {
			return s[1:], true
		}
		return s, false
	case <-time.After(20 * time.Second):
		return "", false
	}
}

var vC08LSeenSig = map[string]bool{}

// one line per signature (the first input that shows it)
func vC08LDirect(sig string, detail string, c vC08LCase) {
	if vC08LSeenSig[sig] {
		return
	}
	vC08LSeenSig[sig] = true
	b, _ := json.Marshal(map[string]interface{}{"signature": sig, "detail": detail, "case": map[string]interface{}{"input": c}})
	fmt.Printf("VERIF-DIRECT-VIOLATION %s\n", b)
}

// the state as a sorted list of rendered pins
func vC08LDump(st *dsstate.State) []string {
	pins, err := st.List(context.Background())
	if err != nil {
		return []string{"list-error: " + err.Error()}
	}
	out := make([]string, len(pins))
	for i, p := range pins {
		out[i] = vC08LPinTerm(p)
	}
	sort.Strings(out)
	return out
}

func vC08LRunSeq(out *vOut, c vC08LCase) {
	ctx := context.Background()
	rig := vC08LNewRig("a")
	var entries, obs []string
	var wires [][]byte
	decoded, shrunk := 0, false
	var prev *api.Pin
	for _, e := range c.Seq {
		pin := e.Pin.build()
		entries = append(entries, fmt.Sprintf("(%s, %s)", vC08LZ(int64(e.T)), vC08LPinTerm(pin)))
		// what Consensus.op builds and commit() hands to the library
		sub := &LogOp{Cid: pin, Type: LogOpType(e.T)}
		var buf bytes.Buffer
		if err := libp2praft.EncodeSnapshot(sub, &buf); err != nil {
			obs = append(obs, "SEncErr")
			continue
		}
		bs := buf.Bytes()
		// the wire carries only the keys the model describes (no span context)
		var top map[string]interface{}
		hg := &codec.MsgpackHandle{}
		hg.RawToString = true
		if err := codec.NewDecoderBytes(bs, hg).Decode(&top); err == nil {
			for k := range top {
				if k != "c" && k != "p" && k != "t" {
					vC08LDirect("logop-wire-key", "unexpected key "+k+" in the encoded LogOp", c)
				}
			}
		}
		if err := libp2praft.DecodeSnapshot(rig.op, bytes.NewReader(bs)); err != nil {
			obs = append(obs, "SDecErr")
			break
		}
		wires = append(wires, bs)
		decoded++
		if rig.op.Cid == nil {
			obs = append(obs, "SNoPin")
			continue
		}
		if prev != nil && vC08LShrinks(prev, pin) {
			shrunk = true
		}
		prev = pin
		ty := rig.op.Type
		if _, err := rig.op.ApplyTo(rig.st); err != nil {
			obs = append(obs, "SAddErr")
			continue
		}
		switch ty {
		case LogOpPin:
			tr, ok := rig.waitCall('T')
			if !ok {
				vC08LDirect("logop-tracker-call", "no Track call after a LogOpPin entry: "+tr, c)
				obs = append(obs, "SNoPin")
				continue
			}
			got, err := rig.st.Get(ctx, pin.Cid)
			if err != nil {
				obs = append(obs, "(SPinnedLost "+tr+")")
				continue
			}
			obs = append(obs, "(SPinned "+tr+" "+vC08LPinTerm(got)+")")
		case LogOpUnpin:
			tr, ok := rig.waitCall('U')
			if !ok {
				vC08LDirect("logop-tracker-call", "no Untrack call after a LogOpUnpin entry: "+tr, c)
				obs = append(obs, "SNoPin")
				continue
			}
			if has, err := rig.st.Has(ctx, pin.Cid); err != nil || has {
				vC08LDirect("logop-unpin-left-entry", "the CID of an applied LogOpUnpin entry is still in the state", c)
			}
			obs = append(obs, "(SUnpinned "+tr+")")
		default:
			obs = append(obs, "SIgnored")
		}
	}
	// the same entries through the real FSM.Apply (up to the first one that does not decode)
	rig2 := vC08LNewRig("b")
	fsm := libp2praft.NewOpLog(rig2.st, rig2.op).FSM()
	for _, bs := range wires {
		res := fsm.Apply(&hraft.Log{Data: bs})
		if res != nil && (rig2.op.Type == LogOpPin || rig2.op.Type == LogOpUnpin) {
			want := byte('T')
			if rig2.op.Type == LogOpUnpin {
				want = 'U'
			}
			rig2.waitCall(want)
		}
	}
	d1, d2 := vC08LDump(rig.st), vC08LDump(rig2.st)
	if strings.Join(d1, "\n") != strings.Join(d2, "\n") {
		vC08LDirect("logop-fsm-loop-differs", "decode-into-the-shared-op + ApplyTo leaves another state than go-libp2p-raft's FSM.Apply on the same entries", c)
	}
	rig.op.consensus.cancel()
	rig2.op.consensus.cancel()
	out.count(fmt.Sprintf("logop:len%d", len(c.Seq)))
	if shrunk {
		out.count("logop:later-entry-empties-a-field")
	}
	if len(obs) > 0 && obs[len(obs)-1] == "SDecErr" {
		out.count("logop:ends-undecodable")
	}
	out.add(fmt.Sprintf("CLogOp %s %s", cqList(entries), cqList(obs)), c, obs, decoded >= 2 && shrunk)
}

func vC08LRunOnto(out *vOut, c vC08LCase) {
	if len(c.Seq) < 2 {
		return
	}
	a, b := c.Seq[0].Pin.build(), c.Seq[1].Pin.build()
	obs := "None"
	var wa, wb bytes.Buffer
	op := &LogOp{}
	if libp2praft.EncodeSnapshot(&LogOp{Cid: a, Type: LogOpPin}, &wa) == nil && libp2praft.EncodeSnapshot(&LogOp{Cid: b, Type: LogOpUnpin}, &wb) == nil &&
		libp2praft.DecodeSnapshot(op, bytes.NewReader(wa.Bytes())) == nil {
		if err := libp2praft.DecodeSnapshot(op, bytes.NewReader(wb.Bytes())); err != nil {
			obs = "(Some Err)"
		} else if op.Cid != nil && op.Type == LogOpUnpin {
			obs = "(Some (Ok " + vC08LPinTerm(op.Cid) + "))"
		}
	}
	out.count("onto:" + obs[:strings.IndexAny(obs+" ", " ")])
	out.add(fmt.Sprintf("CLogOnto %s %s %s", vC08LPinTerm(a), vC08LPinTerm(b), obs), c, obs, vC08LShrinks(a, b))
}

func vC08LRun(out *vOut, c vC08LCase) {
	defer func() {
		if e := recover(); e != nil {
			vC08LDirect("panic-logop", fmt.Sprint(e), c)
		}
	}()
	switch c.Kind {
	case "logop":
		if len(c.Seq) > 0 {
			vC08LRunSeq(out, c)
		}
	case "onto":
		vC08LRunOnto(out, c)
	}
}

func TestVerifC08LogOp(t *testing.T) {
	vC08LInit()
	logging.SetAllLoggers(logging.LevelFatal) // entries refused by state.Add are logged at error level by the code
	seed := uint64(vEnvInt("VERIF_SEED", 1))
	n := vEnvInt("VERIF_N", 100)
	out := newVOut("C08L", vC08LHeader(), "case", "Definition R := Eval vm_compute in failing cases.\nPrint R.")
	out.idBase += 600000 // the runner merges the sidecars of both harness entries of C08 by id
	defer out.close()
	var cases []vC08LCase
	if raw := vCasesIn(); raw != nil {
		for _, b := range raw {
			var c vC08LCase
			if err := json.Unmarshal(b, &c); err != nil {
				continue // an input of the other C08 harness
			}
			cases = append(cases, c)
		}
	} else {
		r := newVRand(seed*7919 + 13)
		for i := 0; i < n; i++ {
			cases = append(cases, vC08LGen(r))
		}
	}
	for _, c := range cases {
		vCaseStart(c)
		vC08LRun(out, c)
	}
	vCaseDone()
}
