//go:build verif

package raft

// C01 correspondence harness, rig R1 (see c01_rig_test.go). One case = one script run against a fresh rig:
// the script's commands, the commands that reached the committed log, and the trace of FSM events and observations.

import (
	"bytes"
	"context"
	"encoding/json"
	"fmt"
	"reflect"
	"sort"
	"strings"
	"sync"
	"testing"
	"time"

	hraft "github.com/hashicorp/raft"
	logging "github.com/ipfs/go-log/v2"
	codec "github.com/ugorji/go/codec"
)

type vC01Cmd struct {
	Op   string   `json:"op"`            // pin unpin other junk map disc conn snap hold release restart obs sync offline reinstall
	Node int      `json:"node"`          // relative to the current leader: 0 = leader, 1, 2 = the others in index order
	Pin  *vC01Pin `json:"pin,omitempty"` // pin unpin other
	T    int      `json:"t,omitempty"`   // LogOpType of "other" (3..9)
	Raw  int      `json:"raw,omitempty"` // junk/map: which byte string
}

type vC01Case struct {
	N     int       `json:"n"`
	Trail int       `json:"trail"`
	Cmds  []vC01Cmd `json:"cmds"`
}

// ---------------------------------------------------------------------------
// generators
// ---------------------------------------------------------------------------

func vC01Subset(r *vRand, n, max int) []int {
	k := r.intn(max + 1)
	perm := make([]int, n)
	for i := range perm {
		perm[i] = i
	}
	for i := n - 1; i > 0; i-- {
		j := r.intn(i + 1)
		perm[i], perm[j] = perm[j], perm[i]
	}
	if k > n {
		k = n
	}
	return append([]int{}, perm[:k]...)
}

// stream: 0 = well-formed, 1 = boundary values, 2 = malformed
func vC01GenPin(r *vRand, ncids int, stream int, origins bool) *vC01Pin {
	p := &vC01Pin{Cid: r.intn(ncids), Update: -1, Ref: -1}
	switch r.intn(10) {
	case 0, 1, 2, 3, 4:
		p.Type = 2
		if r.chance(30) {
			p.Mode, p.MaxDepth = 1, 0
		} else {
			p.Mode, p.MaxDepth = 0, -1
		}
	case 5:
		p.Type, p.MaxDepth = 4, 0
		p.Ref = r.intn(len(vC01Cids))
	case 6, 7:
		p.Type, p.MaxDepth = 8, 0
		p.Ref = r.intn(len(vC01Cids))
	default:
		p.Type, p.MaxDepth = 16, 1+r.intn(2)
		if r.chance(60) {
			p.Ref = r.intn(len(vC01Cids))
		}
	}
	p.Allocs = vC01Subset(r, len(vC01Peers), 3)
	switch r.intn(4) {
	case 0:
		p.Rmin, p.Rmax = -1, -1
	case 1:
		p.Rmin, p.Rmax = 0, 0
	default:
		p.Rmin = 1 + r.intn(3)
		p.Rmax = p.Rmin + r.intn(3)
	}
	p.Name = r.intn(vC01BadName)
	if r.chance(20) {
		p.Shard = uint64(r.intn(1 << 20))
	}
	if r.chance(25) {
		p.UAllocs = vC01Subset(r, len(vC01Peers), 2)
	}
	switch r.intn(8) {
	case 0, 1:
		p.HasExp, p.ExpS = true, int64(1700000000+r.intn(1000000))
	case 2:
		p.HasExp, p.ExpS, p.ExpNs = true, int64(1700000000+r.intn(1000)), 1+r.intn(999999998)
	case 3:
		p.HasExp, p.ExpS = true, int64(1+r.intn(100))
	}
	nm := r.intn(4)
	if r.chance(50) {
		nm = 0
	}
	for i := 0; i < nm; i++ {
		p.Meta = append(p.Meta, [2]int{r.intn(vC01BadName), r.intn(vC01BadName)})
	}
	if r.chance(15) {
		p.Update = r.intn(len(vC01Cids))
	}
	if origins && r.chance(60) {
		p.Origins = vC01Subset(r, len(vC01Addrs), 2)
		if len(p.Origins) == 0 {
			p.Origins = []int{r.intn(len(vC01Addrs))}
		}
	}
	if stream == 1 {
		// off-by-one around every cast and comparison of ProtoMarshal/ProtoUnmarshal
		edges := []int{2147483647, -2147483648, 2147483648, -2147483649, 4294967295, 4294967296, -1, 0, 1}
		switch r.intn(6) {
		case 0:
			p.Rmin = edges[r.intn(len(edges))]
		case 1:
			p.Rmax = edges[r.intn(len(edges))]
		case 2:
			p.MaxDepth = append(edges, -2, 2, 8589934592)[r.intn(len(edges)+3)]
		case 3:
			p.Type = []uint64{0, 1, 3, 6, 24, 32, 1 << 40, 1<<63 + 5}[r.intn(8)]
		case 4:
			p.Mode = []int{0, 1, 2, 3}[r.intn(4)]
		default:
			p.HasExp = true
			p.ExpS = []int64{0, 0, -1, 1, -1700000000, 1 << 33}[r.intn(6)]
			p.ExpNs = []int{0, 1, 500, 999999999}[r.intn(4)]
		}
	}
	if stream == 2 {
		if r.chance(50) {
			p.Name = vC01BadName
		} else {
			p.Meta = append(p.Meta, [2]int{r.intn(vC01BadName), vC01BadName})
		}
	}
	p.sanitize()
	return p
}

func vC01Gen(r *vRand) vC01Case {
	c := vC01Case{N: []int{1, 2, 3, 3, 3}[r.intn(5)], Trail: []int{1, 1, 2, 4}[r.intn(4)]}
	ncids := 2 + r.intn(3)
	kind := r.intn(100)
	// per-case flavour: 0 plain, 1 boundary pins, 2 malformed entries, 3 origins (S19)
	flavour := 0
	switch {
	case kind < 62:
		flavour = 0
	case kind < 80:
		flavour = 1
	case kind < 92:
		flavour = 2
	default:
		flavour = 3
	}
	pin := func() *vC01Pin {
		switch flavour {
		case 1:
			if r.chance(50) {
				return vC01GenPin(r, ncids, 1, false)
			}
		case 2:
			if r.chance(15) {
				return vC01GenPin(r, ncids, 2, false)
			}
		case 3:
			if r.chance(25) {
				return vC01GenPin(r, ncids, 0, true)
			}
		}
		return vC01GenPin(r, ncids, 0, false)
	}
	write := func() vC01Cmd {
		node := 0
		if r.chance(30) {
			node = r.intn(c.N)
		}
		x := r.intn(100)
		switch {
		case x < 60:
			return vC01Cmd{Op: "pin", Node: node, Pin: pin()}
		case x < 95 || flavour != 2:
			p := pin()
			if r.chance(70) { // the usual unpin carries a bare pin
				p = &vC01Pin{Cid: p.Cid, Type: 2, MaxDepth: -1, Update: -1, Ref: -1}
			}
			return vC01Cmd{Op: "unpin", Node: node, Pin: p}
		case x < 97:
			return vC01Cmd{Op: "other", Node: node, Pin: pin(), T: 3 + r.intn(5)}
		case x < 99:
			return vC01Cmd{Op: "map", Raw: r.intn(3)}
		default:
			return vC01Cmd{Op: "junk", Raw: r.intn(3)}
		}
	}
	if r.chance(7) {
		// persist-race shape: a snapshot is requested, entries rewriting two cids twice are applied, only then the
		// snapshot is written; the node restarts from it and replays
		c.Cmds = append(c.Cmds, vC01Cmd{Op: "pin", Node: 0, Pin: vC01GenPin(r, ncids, 0, false)})
		c.Cmds = append(c.Cmds, vC01Cmd{Op: "hold", Node: 0})
		for i := 0; i < 4+r.intn(3); i++ {
			p := vC01GenPin(r, 2, 0, false)
			p.Cid = i % 2
			c.Cmds = append(c.Cmds, vC01Cmd{Op: "pin", Node: 0, Pin: p})
		}
		c.Cmds = append(c.Cmds, vC01Cmd{Op: "release"})
		if r.chance(60) {
			// ... and OfflineState is read on the replica whose newest snapshot was written late (S23, shape of the recogniser's
			// OOffline clause): with or without the restart that restores it
			c.Cmds = append(c.Cmds, vC01Cmd{Op: "offline", Node: 0})
			if r.chance(50) {
				return c
			}
		}
		c.Cmds = append(c.Cmds, vC01Cmd{Op: "restart", Node: 0}, vC01Cmd{Op: "sync"})
		if r.chance(30) {
			c.Cmds = append(c.Cmds, vC01Cmd{Op: "offline", Node: 0})
		}
		return c
	}
	if r.chance(6) {
		// backward-install shape: the leader snapshots, more entries are applied everywhere, and the leader's snapshot is
		// delivered (again) to a follower that is ahead of it; the follower goes back to that prefix and applies the rest
		// again with the next commit
		c.N = 2 + r.intn(2)
		f := 1 + r.intn(c.N-1)
		for i := 0; i < 1+r.intn(3); i++ {
			c.Cmds = append(c.Cmds, write())
		}
		c.Cmds = append(c.Cmds, vC01Cmd{Op: "sync"}, vC01Cmd{Op: "snap", Node: 0})
		for i := 0; i < 1+r.intn(3); i++ {
			c.Cmds = append(c.Cmds, write())
		}
		c.Cmds = append(c.Cmds, vC01Cmd{Op: "sync"})
		if r.chance(35) {
			// ... while the follower holds a requested-but-not-persisted snapshot of its own: that snapshot, labelled with
			// the follower's position, is then written with the OLDER state (S23) and is the newest of its store
			c.Trail = 4 // the compaction that follows the follower's own snapshot keeps the entries it has to apply again
			c.Cmds = append(c.Cmds, vC01Cmd{Op: "hold", Node: f}, vC01Cmd{Op: "reinstall", Node: f}, vC01Cmd{Op: "release"},
				vC01Cmd{Op: "offline", Node: -1}, vC01Cmd{Op: "restart", Node: -1})
		} else {
			c.Cmds = append(c.Cmds, vC01Cmd{Op: "reinstall", Node: f}, vC01Cmd{Op: "obs"})
			if r.chance(30) {
				c.Cmds = append(c.Cmds, vC01Cmd{Op: "reinstall", Node: f})
			}
		}
		for i := 0; i < 1+r.intn(2); i++ {
			c.Cmds = append(c.Cmds, write())
		}
		c.Cmds = append(c.Cmds, vC01Cmd{Op: "sync"})
		return c
	}
	if r.chance(6) {
		// install-during-snapshot shape: a follower has a snapshot requested (FSM.Snapshot done, Persist held back), is
		// isolated, misses entries that the leader compacts away, and is sent the leader's snapshot while its own is still
		// pending; its own snapshot is written afterwards (it then contains the installed state under the old label); the
		// follower restarts on its stores and OfflineState is read
		c.N = 3
		c.Trail = 1 // the leader compacts all but one entry: the follower cannot be served from the log
		f := 1 + r.intn(2)
		for i := 0; i < 1+r.intn(3); i++ {
			p := vC01GenPin(r, 2, 0, false)
			c.Cmds = append(c.Cmds, vC01Cmd{Op: "pin", Node: 0, Pin: p})
		}
		c.Cmds = append(c.Cmds, vC01Cmd{Op: "sync"}, vC01Cmd{Op: "hold", Node: f}, vC01Cmd{Op: "disc", Node: f})
		for i := 0; i < 3+r.intn(3); i++ {
			p := vC01GenPin(r, 2, 0, false)
			p.Cid = i % 2
			if i%3 == 2 {
				c.Cmds = append(c.Cmds, vC01Cmd{Op: "unpin", Node: 0, Pin: &vC01Pin{Cid: p.Cid, Type: 2, MaxDepth: -1, Update: -1, Ref: -1}})
			} else {
				c.Cmds = append(c.Cmds, vC01Cmd{Op: "pin", Node: 0, Pin: p})
			}
		}
		c.Cmds = append(c.Cmds, vC01Cmd{Op: "snap", Node: 0}, vC01Cmd{Op: "conn", Node: -1}, vC01Cmd{Op: "sync"}, vC01Cmd{Op: "release"})
		// the follower is addressed relative to the leader of the moment: observe / restart every member instead
		c.Cmds = append(c.Cmds, vC01Cmd{Op: "offline", Node: -1})
		if r.chance(70) {
			c.Cmds = append(c.Cmds, vC01Cmd{Op: "restart", Node: -1}, vC01Cmd{Op: "sync"}, vC01Cmd{Op: "offline", Node: -1})
		}
		return c
	}
	n := 5 + r.intn(14)
	if c.N == 3 && r.chance(45) {
		// snapshot-install shape: a follower misses entries that the leader compacts away
		f := 1 + r.intn(2)
		for i := 0; i < 1+r.intn(4); i++ {
			c.Cmds = append(c.Cmds, write())
		}
		if r.chance(50) {
			c.Cmds = append(c.Cmds, vC01Cmd{Op: "sync"})
		}
		c.Cmds = append(c.Cmds, vC01Cmd{Op: "disc", Node: f})
		for i := 0; i < 1+r.intn(5); i++ {
			c.Cmds = append(c.Cmds, write())
		}
		c.Cmds = append(c.Cmds, vC01Cmd{Op: "snap", Node: 0})
		if r.chance(40) {
			c.Cmds = append(c.Cmds, write())
		}
		// the isolated node has turned candidate: find it by absolute index is impossible, conn takes every isolated node back
		c.Cmds = append(c.Cmds, vC01Cmd{Op: "conn", Node: -1})
		c.Cmds = append(c.Cmds, vC01Cmd{Op: "sync"})
		n = r.intn(6)
	}
	held := false
	for i := 0; i < n; i++ {
		x := r.intn(100)
		switch {
		case x < 52:
			c.Cmds = append(c.Cmds, write())
		case x < 58 && c.N > 1:
			c.Cmds = append(c.Cmds, vC01Cmd{Op: "disc", Node: r.intn(c.N)})
		case x < 65 && c.N > 1:
			c.Cmds = append(c.Cmds, vC01Cmd{Op: "conn", Node: -1})
		case x < 75:
			c.Cmds = append(c.Cmds, vC01Cmd{Op: "snap", Node: r.intn(c.N)})
		case x < 79:
			if !held {
				c.Cmds = append(c.Cmds, vC01Cmd{Op: "hold", Node: r.intn(c.N)})
				held = true
			} else {
				c.Cmds = append(c.Cmds, vC01Cmd{Op: "release"})
				held = false
			}
		case x < 86:
			c.Cmds = append(c.Cmds, vC01Cmd{Op: "restart", Node: r.intn(c.N)})
		case x < 91:
			c.Cmds = append(c.Cmds, vC01Cmd{Op: "obs"})
		case x < 94:
			c.Cmds = append(c.Cmds, vC01Cmd{Op: "offline", Node: r.intn(c.N)})
		default:
			c.Cmds = append(c.Cmds, vC01Cmd{Op: "sync"})
		}
	}
	return c
}

var vC01RawJunk = [][]byte{{0xc1}, {0x01}, {0x93, 0x01, 0x02, 0x03}}
var vC01RawMap = [][]byte{{0x81, 0xa2, 'z', 'z', 0x01}, {0x80}, {0x82, 0xa1, 'q', 0xc0, 0xa1, 'w', 0x02}}

// ---------------------------------------------------------------------------
// running one case
// ---------------------------------------------------------------------------

type vC01Submitted struct {
	kind  string // pin unpin other junk map
	pin   *vC01Pin
	bytes []byte
	gen   interface{}
}

type vC01Result struct {
	input   vC01Case
	term    string
	obs     map[string]interface{}
	nontriv bool
	direct  []string
	skipped string
	stats   map[string]int
}

func vC01Encode(v interface{}) []byte {
	var buf bytes.Buffer
	if err := codec.NewEncoder(&buf, &codec.MsgpackHandle{}).Encode(v); err != nil {
		panic(err)
	}
	return buf.Bytes()
}

func vC01Generic(b []byte) interface{} {
	var v interface{}
	h := &codec.MsgpackHandle{}
	h.RawToString = true
	if err := codec.NewDecoderBytes(b, h).Decode(&v); err != nil {
		return nil
	}
	return v
}

func vC01RunCase(c vC01Case) (res vC01Result) {
	res.input = c
	res.stats = map[string]int{}
	if c.N < 1 {
		c.N = 1
	}
	if c.N > 3 {
		c.N = 3
	}
	if c.Trail < 0 {
		c.Trail = 0
	}
	ctx := context.Background()
	rig := vC01NewRig(c.N, uint64(c.Trail))
	if err := rig.bootstrap(c.N); err != nil {
		res.skipped = "bootstrap: " + err.Error()
		return
	}
	defer rig.shutdown()
	if rig.leader(15*time.Second) == nil {
		res.skipped = "no leader after bootstrap"
		return
	}
	var subs []vC01Submitted
	var holdWG sync.WaitGroup
	heldNode := -1
	resolve := func(rel int) *vC01Node {
		var l *vC01Node
		if rig.quorumPossible() {
			l = rig.leader(3 * time.Second)
		}
		base := 0
		if l != nil {
			base = l.idx
		}
		if rel < 0 {
			rel = 0
		}
		return rig.nodes[(base+rel)%c.N]
	}
	for _, cmd := range c.Cmds {
		if rig.anyCrashed() {
			break
		}
		rig.mu.Lock()
		ovf := rig.overflow
		rig.mu.Unlock()
		if ovf {
			break
		}
		t0 := time.Now()
		func() {
			defer func() { res.stats["ms_"+cmd.Op] += int(time.Since(t0) / time.Millisecond) }()
			switch cmd.Op {
			case "pin", "unpin", "other":
				if cmd.Pin == nil {
					return
				}
				p := *cmd.Pin
				p.sanitize()
				n := resolve(cmd.Node)
				if cmd.Op == "other" {
					n = resolve(0) // a redirect would turn it into a pin
				}
				rp := p.real()
				var op *LogOp
				switch cmd.Op {
				case "pin":
					op = &LogOp{Cid: rp, Type: LogOpPin}
				case "unpin":
					op = &LogOp{Cid: rp, Type: LogOpUnpin}
				default:
					t := cmd.T
					if t < 3 || t > 9 {
						t = 3
					}
					op = &LogOp{Cid: rp, Type: LogOpType(t)}
				}
				b := vC01Encode(op)
				subs = append(subs, vC01Submitted{kind: cmd.Op, pin: &p, bytes: b, gen: vC01Generic(b)})
				ci := len(subs) - 1
				for cj := range subs { // identical commands are one command (the first of them)
					if bytes.Equal(subs[cj].bytes, b) || reflect.DeepEqual(subs[cj].gen, subs[ci].gen) {
						ci = cj
						break
					}
				}
				rig.setCommitter(n.idx)
				var err error
				switch cmd.Op {
				case "pin":
					err = n.cc.LogPin(ctx, p.real())
				case "unpin":
					err = n.cc.LogUnpin(ctx, p.real())
				default:
					// an op of an unknown type has no API: it is handed to the Raft layer of the current leader as the bytes
					// the commit path would write. (Consensus.commit would redirect it to the leader as a LogPin call when
					// this member has just lost the leadership, and an entry nobody submitted would appear in the log.)
					l := rig.leader(3 * time.Second)
					if l == nil || !rig.quorumPossible() {
						return
					}
					rig.setCommitter(l.idx)
					err = l.raft.Apply(b, time.Second).Error()
				}
				if err == nil {
					rig.mu.Lock()
					rig.trace = append(rig.trace, vC01Ev{Kind: "ack", Node: rig.getCommitter(), Cmd: ci})
					rig.mu.Unlock()
					res.stats["acked"]++
				} else {
					res.stats["commit_err"]++
				}
			case "junk", "map":
				if !rig.quorumPossible() {
					return
				}
				l := rig.leader(3 * time.Second)
				if l == nil {
					return
				}
				tab := vC01RawJunk
				if cmd.Op == "map" {
					tab = vC01RawMap
				}
				b := tab[vC01Clamp(cmd.Raw, len(tab))]
				subs = append(subs, vC01Submitted{kind: cmd.Op, bytes: b})
				l.raft.Apply(b, time.Second).Error()
			case "disc":
				rig.isolate(resolve(cmd.Node))
			case "conn":
				for _, n := range rig.nodes {
					if n.isolated {
						rig.rejoin(n)
					}
				}
			case "snap":
				n := resolve(cmd.Node)
				if n.cc != nil && !n.down && heldNode != n.idx { // a request behind a held snapshot would wait for it
					n.cc.raft.Snapshot()
				}
			case "hold":
				if heldNode >= 0 {
					return
				}
				n := resolve(cmd.Node)
				if n.cc == nil || n.down {
					return
				}
				heldNode = n.idx
				rig.arm(n.idx)
				holdWG.Add(1)
				snapDone := make(chan struct{})
				go func(rw *raftWrapper) { defer holdWG.Done(); defer close(snapDone); rw.Snapshot() }(n.cc.raft)
				// wait until FSM.Snapshot has run (or the request failed)
				for i := 0; i < 300; i++ {
					rig.mu.Lock()
					_, got := rig.hold[n.idx]
					armed := rig.holdArmed[n.idx]
					rig.mu.Unlock()
					if got || !armed {
						break
					}
					select {
					case <-snapDone:
						i = 300
					default:
					}
					time.Sleep(2 * time.Millisecond)
				}
			case "release":
				if heldNode >= 0 {
					rig.release(heldNode)
					holdWG.Wait()
					heldNode = -1
				}
			case "restart":
				targets := []*vC01Node{}
				if cmd.Node < 0 { // every member, one after the other (the others keep the quorum)
					targets = append(targets, rig.nodes...)
				} else {
					targets = append(targets, resolve(cmd.Node))
				}
				for _, n := range targets {
					if heldNode == n.idx {
						rig.release(heldNode)
						holdWG.Wait()
						heldNode = -1
					}
					rig.stop(n)
					if err := rig.start(n); err != nil {
						res.skipped = "restart: " + err.Error()
						return
					}
					if len(targets) > 1 {
						rig.quiesce(10 * time.Second)
					}
				}
			case "reinstall":
				if !rig.quorumPossible() {
					return
				}
				l := rig.leader(3 * time.Second)
				if l == nil {
					return
				}
				f := rig.nodes[(l.idx+vC01Clamp(cmd.Node, c.N))%c.N]
				res.stats["reinstall_"+rig.reinstall(l, f, heldNode == f.idx)]++
			case "offline":
				// OfflineState of a member's data (of every member when Node < 0). A snapshot of the member that is being
				// written right now (requested, not held) would make the store and the trace disagree for a moment: the
				// script runs its snapshots synchronously, so there is none.
				targets := []*vC01Node{}
				if cmd.Node < 0 {
					targets = append(targets, rig.nodes...)
				} else {
					targets = append(targets, resolve(cmd.Node))
				}
				for _, n := range targets {
					if !n.started {
						continue
					}
					switch st := rig.observeOffline(n); st {
					case "ok":
						res.stats["offline_obs"]++
					case "store_ahead":
						res.stats["offline_store_ahead_of_trace"]++
					case "error":
						res.stats["offline_err"]++
					default:
						res.stats["offline_rig_"+st]++
					}
				}
			case "obs":
				rig.observeAll()
			case "sync":
				if !rig.quorumPossible() {
					res.stats["sync_noquorum"]++
				} else if rig.quiesce(10 * time.Second) {
					res.stats["sync_ok"]++
				} else {
					res.stats["sync_timeout"]++
				}
				rig.observeAll()
			}
		}()
		if res.skipped != "" {
			return
		}
	}
	if heldNode >= 0 {
		rig.release(heldNode)
		holdWG.Wait()
	}
	// final phase: everybody reconnects and catches up
	if !rig.anyCrashed() {
		for _, n := range rig.nodes {
			if n.isolated {
				rig.rejoin(n)
			}
		}
		if rig.quiesce(15 * time.Second) {
			res.stats["final_sync_ok"]++
		} else {
			res.stats["final_sync_timeout"]++
		}
	}
	cmdsT, evsT, ok := vC01Finalize(rig, subs, c.N, &res)
	if !ok {
		return
	}
	res.term = fmt.Sprintf("(%d, %s,\n   %s)", c.N, cmdsT, evsT)
	return
}

// vC01Finalize observes every node once more, collects the tracker calls and turns the trace into Coq terms
// (the command table and the event list).
func vC01Finalize(rig *vC01Rig, subs []vC01Submitted, nNodes int, res *vC01Result) (string, string, bool) {
	rig.observeAll()
	rig.mu.Lock()
	trace0 := append([]vC01Ev{}, rig.trace...)
	logData0 := map[uint64][]byte{}
	for k, v := range rig.logData {
		logData0[k] = v
	}
	rig.mu.Unlock()
	// tracker calls: wait for as many as pin/unpin entries were applied (a waiting aid, not a verdict)
	want := make([]int, nNodes)
	for _, e := range trace0 {
		if e.Kind == "apply" {
			g := vC01Generic(logData0[e.Idx])
			for _, sb := range subs {
				if bytes.Equal(sb.bytes, logData0[e.Idx]) || (sb.gen != nil && g != nil && reflect.DeepEqual(sb.gen, g)) {
					if (sb.kind == "pin" || sb.kind == "unpin") && len(sb.pin.Origins) == 0 {
						want[e.Node]++
					}
					break
				}
			}
		}
	}
	rig.recordCalls(want)
	rig.mu.Lock()
	trace := append([]vC01Ev{}, rig.trace...)
	logData := map[uint64][]byte{}
	for k, v := range rig.logData {
		logData[k] = v
	}
	diverged := rig.diverged
	rig.mu.Unlock()
	rig.mu.Lock()
	overflow := rig.overflow
	rig.mu.Unlock()
	if overflow {
		res.skipped = "raft-install-loop"
		return "", "", false
	}
	if diverged != "" {
		res.direct = append(res.direct, "log-diverged: "+diverged)
	}

	// ---- positions of the committed log and the command behind each ----
	var idxs []uint64
	for k := range logData {
		idxs = append(idxs, k)
	}
	sort.Slice(idxs, func(i, j int) bool { return idxs[i] < idxs[j] })
	pos := map[uint64]int{}
	logCmd := make([]int, len(idxs))
	for i, k := range idxs {
		pos[k] = i
		logCmd[i] = -1
		g := vC01Generic(logData[k])
		for ci, s := range subs {
			if bytes.Equal(s.bytes, logData[k]) || (s.gen != nil && g != nil && reflect.DeepEqual(s.gen, g)) {
				logCmd[i] = ci
				break
			}
		}
		if logCmd[i] < 0 {
			res.direct = append(res.direct, fmt.Sprintf("log entry at index %d was submitted by nobody", k))
			logCmd[i] = 0
		}
	}
	label := func(snapIdx uint64) int { // number of log positions covered by a snapshot at this raft index
		n := 0
		for _, k := range idxs {
			if k <= snapIdx {
				n++
			}
		}
		return n
	}

	// ---- Coq terms ----
	var cmds []string
	for _, s := range subs {
		switch s.kind {
		case "pin":
			cmds = append(cmds, "LPin "+s.pin.coq())
		case "unpin":
			cmds = append(cmds, "LUnpin "+s.pin.coq())
		case "other":
			cmds = append(cmds, "LOther "+s.pin.coq())
		case "junk":
			cmds = append(cmds, "LJunk")
		default:
			if len(s.bytes) == 1 && s.bytes[0] == 0x80 { // the empty map decodes as a LogOp that sets no field
				cmds = append(cmds, "LMapEmpty")
			} else {
				cmds = append(cmds, "LMap")
			}
		}
	}
	type persisted struct {
		node int
		k    int
		idx  uint64
		hash string
	}
	var pers []persisted
	perNode := map[int]int{}
	committed := map[int]bool{}
	var evs []string
	commitUpTo := func(p int) {
		// positions are first applied in increasing order; emit any missing commit before p's first use
		for q := 0; q <= p; q++ {
			if !committed[q] {
				committed[q] = true
				evs = append(evs, fmt.Sprintf("OCommit %d", logCmd[q]))
			}
		}
	}
	restores, restarts, installs := 0, 0, 0
	live := map[int]bool{}
	given := map[int]int{} // position of each replica in the trace: entries its FSM has been given
	for _, e := range trace {
		switch e.Kind {
		case "apply":
			commitUpTo(pos[e.Idx])
			evs = append(evs, fmt.Sprintf("OApply %d %d", e.Node, pos[e.Idx]))
			live[e.Node] = true
			given[e.Node] = pos[e.Idx] + 1
		case "crash":
			commitUpTo(pos[e.Idx])
			evs = append(evs, fmt.Sprintf("OCrash %d %d", e.Node, pos[e.Idx]))
			res.stats["crash"]++
		case "snapreq":
			evs = append(evs, fmt.Sprintf("OSnapReq %d %s", e.Node, cqBool(e.Ok)))
		case "persist":
			pers = append(pers, persisted{e.Node, perNode[e.Node], e.Idx, e.Hash})
			perNode[e.Node]++
			evs = append(evs, fmt.Sprintf("OPersist %d", e.Node))
			res.stats["persist"]++
		case "restore":
			found := false
			// the snapshot is looked up in the replica's own store first (a start-up restore; a copy it was sent before), then in
			// the stores of the others (an install: the snapshot is also written into this replica's store, as its next entry)
			cands := []persisted{}
			for _, p := range pers {
				if p.node == e.Node {
					cands = append(cands, p)
				}
			}
			for _, p := range pers {
				if p.node != e.Node {
					cands = append(cands, p)
				}
			}
			for _, p := range cands {
				if p.idx == e.Idx && p.hash == e.Hash {
					lb := label(e.Idx)
					if p.node != e.Node {
						pers = append(pers, persisted{e.Node, perNode[e.Node], e.Idx, e.Hash})
						perNode[e.Node]++
					}
					if lb > 0 {
						commitUpTo(lb - 1)
					}
					evs = append(evs, fmt.Sprintf("ORestore %d %d %d %d", e.Node, p.node, p.k, lb))
					if lb < given[e.Node] {
						res.stats["installs_backward"]++ // onto a replica that is ahead of the snapshot
					}
					given[e.Node] = lb
					found = true
					break
				}
			}
			if !found || !e.Ok {
				res.direct = append(res.direct, fmt.Sprintf("restore on node %d of a snapshot (index %d) nobody persisted, or failed restore (ok=%v)", e.Node, e.Idx, e.Ok))
			}
			restores++
			if live[e.Node] {
				installs++
			}
		case "restart":
			evs = append(evs, fmt.Sprintf("ORestart %d", e.Node))
			restarts++
			live[e.Node] = false
			given[e.Node] = 0
		case "ack":
			evs = append(evs, fmt.Sprintf("OAck %d %d", e.Cmd, e.Node))
		case "obs":
			if !e.Ok {
				evs = append(evs, fmt.Sprintf("OObs %d None", e.Node))
				res.stats["obs_err"]++
			} else {
				ps := make([]string, len(e.Pins))
				for i, p := range e.Pins {
					ps[i] = p.coq()
				}
				evs = append(evs, fmt.Sprintf("OObs %d (Some %s)", e.Node, cqList(ps)))
			}
		case "offline":
			if !e.Ok {
				res.direct = append(res.direct, fmt.Sprintf("OfflineState of node %d failed on a complete snapshot: %s", e.Node, e.Hash))
				break
			}
			ps := make([]string, len(e.Pins))
			for i, p := range e.Pins {
				ps[i] = p.coq()
			}
			evs = append(evs, fmt.Sprintf("OOffline %d %s", e.Node, cqList(ps)))
		case "ready":
			ps := make([]string, len(e.Pins))
			for i, p := range e.Pins {
				ps[i] = p.coq()
			}
			o := "None"
			if e.Ok {
				o = fmt.Sprintf("(Some %s)", cqList(ps))
			}
			m0 := label(e.Idx)
			if m0 > 0 {
				commitUpTo(m0 - 1)
			}
			evs = append(evs, fmt.Sprintf("OReady %d %d %s %s", e.Node, m0, cqBool(e.PeerOk), o))
		case "trk":
			cs := make([]string, len(e.Calls))
			for i, cl := range e.Calls {
				if cl.Track {
					cs[i] = fmt.Sprintf("TCall true %d %d %s %d %s", cl.Pin.Cid, cl.Pin.Type, cqZ(int64(cl.Pin.MaxDepth)), cl.Pin.Mode, cqListN(cl.Pin.Allocs))
				} else {
					cs[i] = fmt.Sprintf("TCall false %d 0 0%%Z 0 []", cl.Pin.Cid)
				}
			}
			evs = append(evs, fmt.Sprintf("OTrk %d %s", e.Node, cqList(cs)))
		}
	}
	// non-trivial: two ops on one cid reached the log and some replica restored a snapshot or restarted
	perCid := map[int]int{}
	two := false
	for _, ci := range logCmd {
		if s := subs[ci]; s.pin != nil {
			perCid[s.pin.Cid]++
			if perCid[s.pin.Cid] >= 2 {
				two = true
			}
		}
	}
	res.nontriv = two && (restores+restarts) > 0
	res.stats["restores"] = restores
	res.stats["installs_onto_live"] = installs
	res.stats["restarts"] = restarts
	res.stats["log_len"] = len(idxs)
	res.obs = map[string]interface{}{"trace": trace, "log": logCmd, "stats": res.stats}
	return cqList(cmds), "[" + strings.Join(evs, ";\n    ") + "]", true
}

func vC01Quiet() {
	logging.SetAllLoggers(logging.LevelFatal)
}

func TestVerifC01(t *testing.T) {
	vC01Quiet()
	_ = hraft.Leader
	seed := uint64(vEnvInt("VERIF_SEED", 1))
	n := vEnvInt("VERIF_N", 40)
	out := newVOut("C01", "From V Require Import Base.Common Model.C01_RaftLog Model.C01_Check.\nOpen Scope N_scope.",
		"case", "Definition R := Eval vm_compute in failing cases.\nPrint R.")
	defer out.close()
	var cases []vC01Case
	if raw := vCasesIn(); raw != nil {
		for _, b := range raw {
			var c vC01Case
			if err := json.Unmarshal(b, &c); err != nil {
				t.Fatal(err)
			}
			cases = append(cases, c)
		}
	} else {
		r := newVRand(seed)
		for i := 0; i < n; i++ {
			cases = append(cases, vC01Gen(r))
		}
	}
	results := make([]vC01Result, len(cases))
	par := vEnvInt("VERIF_C01_PAR", 4)
	sem := make(chan struct{}, par)
	var wg sync.WaitGroup
	for i := range cases {
		wg.Add(1)
		sem <- struct{}{}
		go func(i int) {
			defer wg.Done()
			defer func() { <-sem }()
			defer func() {
				if p := recover(); p != nil {
					results[i].input = cases[i]
					results[i].direct = append(results[i].direct, fmt.Sprintf("harness panic: %v", p))
				}
			}()
			results[i] = vC01RunCase(cases[i])
		}(i)
	}
	wg.Wait()
	for _, res := range results {
		for _, d := range res.direct {
			b, _ := json.Marshal(map[string]interface{}{"signature": "c01-direct", "detail": d, "case": map[string]interface{}{"input": res.input}})
			fmt.Printf("VERIF-DIRECT-VIOLATION %s\n", b)
		}
		if res.skipped != "" || res.term == "" {
			out.count("skipped")
			fmt.Printf("VERIF-NOTE skipped case: %s\n", res.skipped)
			continue
		}
		out.add(res.term, res.input, res.obs, res.nontriv)
		out.count(fmt.Sprintf("nodes=%d", res.input.N))
		for k, v := range res.stats {
			if v > 0 {
				out.dist["sum_"+k] += v
				out.count("cases_with_" + k)
			}
		}
		if res.nontriv {
			out.count("nontrivial")
		}
	}
}
