//go:build verif

package raft

// Rig R3 of C01 (thorough tier): kill -9. The test binary re-executes itself as a child that runs a 1-peer real
// Consensus (libp2p host, raft-boltdb, file snapshots) on a data folder and prints "ACK <i>" after each
// acknowledged LogPin/LogUnpin of a deterministic op sequence. The parent kills the child (SIGKILL) after a chosen
// number of acknowledgements plus a random delay, starts a second child on the same folder which waits until it
// is ready and prints its pinset, and checks: the pinset is the replay of a prefix of the sequence that contains
// every acknowledged op (an op in flight when the process died may or may not be in).

import (
	"bufio"
	"context"
	"encoding/hex"
	"encoding/json"
	"fmt"
	"os"
	"os/exec"
	"strings"
	"testing"
	"time"

	"github.com/ipfs/ipfs-cluster/datastore/inmem"

	libp2p "github.com/libp2p/go-libp2p"
	crypto "github.com/libp2p/go-libp2p-core/crypto"
	rpc "github.com/libp2p/go-libp2p-gorpc"
)

type vR3Case struct {
	Seed   int `json:"seed"`   // op sequence
	NOps   int `json:"nops"`   // ops the child tries to submit
	KillAt int `json:"killat"` // acknowledgements after which the child is killed
	Delay  int `json:"delay"`  // extra microseconds before the kill
	Snap   int `json:"snap"`   // the child snapshots after this many acknowledgements (0 = never)
}

func vR3Ops(seed, n int) []vC17Cmd {
	r := newVRand(uint64(seed)*7919 + 13)
	var out []vC17Cmd
	for i := 0; i < n; i++ {
		if r.chance(65) {
			out = append(out, vC17Cmd{Op: "pin", Pin: vC01GenPin(r, 3, 0, false)})
		} else {
			out = append(out, vC17Cmd{Op: "unpin", Pin: &vC01Pin{Cid: r.intn(3), Type: 2, MaxDepth: -1, Update: -1, Ref: -1}})
		}
	}
	return out
}

func vR3Consensus(folder, keyHex string) (*Consensus, error) {
	kb, err := hex.DecodeString(keyHex)
	if err != nil {
		return nil, err
	}
	priv, err := crypto.UnmarshalPrivateKey(kb)
	if err != nil {
		return nil, err
	}
	h, err := libp2p.New(context.Background(), libp2p.Identity(priv), libp2p.ListenAddrStrings("/ip4/127.0.0.1/tcp/0"))
	if err != nil {
		return nil, err
	}
	cfg := &Config{}
	cfg.Default()
	cfg.DataFolder = folder
	cfg.hostShutdown = true
	cfg.RaftConfig.HeartbeatTimeout = 100 * time.Millisecond
	cfg.RaftConfig.ElectionTimeout = 100 * time.Millisecond
	cfg.RaftConfig.LeaderLeaseTimeout = 100 * time.Millisecond
	cfg.RaftConfig.CommitTimeout = 5 * time.Millisecond
	cfg.RaftConfig.SnapshotInterval = time.Hour
	cfg.RaftConfig.TrailingLogs = 1
	cc, err := NewConsensus(h, cfg, inmem.New(), false)
	if err != nil {
		return nil, err
	}
	s := rpc.NewServer(h, "/vr3/rpc")
	if err := s.RegisterName("PinTracker", &vC01TrackerSvc{rec: &vC01Recorder{}}); err != nil {
		return nil, err
	}
	cc.SetClient(rpc.NewClientWithServer(h, "/vr3/rpc", s))
	select {
	case <-cc.Ready(context.Background()):
	case <-time.After(60 * time.Second):
		return nil, fmt.Errorf("not ready")
	}
	return cc, nil
}

// TestVerifR3Child is the child process; it does nothing unless VERIF_R3_MODE is set.
func TestVerifR3Child(t *testing.T) {
	mode := os.Getenv("VERIF_R3_MODE")
	if mode == "" {
		return
	}
	vC01Quiet()
	folder := os.Getenv("VERIF_R3_FOLDER")
	cc, err := vR3Consensus(folder, os.Getenv("VERIF_R3_KEY"))
	if err != nil {
		fmt.Printf("R3ERR %v\n", err)
		os.Exit(3)
	}
	ctx := context.Background()
	w := bufio.NewWriter(os.Stdout)
	if mode == "recover" {
		pins, ok := vR2List(cc)
		b, _ := json.Marshal(map[string]interface{}{"ok": ok, "pins": pins})
		fmt.Fprintf(w, "R3STATE %s\n", b)
		w.Flush()
		cc.Shutdown(ctx)
		os.Exit(0)
	}
	ops := vR3Ops(vEnvInt("VERIF_R3_SEED", 1), vEnvInt("VERIF_R3_NOPS", 10))
	snapAt := vEnvInt("VERIF_R3_SNAP", 0)
	fmt.Fprintf(w, "R3READY\n")
	w.Flush()
	for i, op := range ops {
		var err error
		if op.Op == "pin" {
			err = cc.LogPin(ctx, op.Pin.real())
		} else {
			err = cc.LogUnpin(ctx, op.Pin.real())
		}
		if err != nil {
			fmt.Fprintf(w, "R3OPERR %d %v\n", i, err)
			w.Flush()
			break
		}
		fmt.Fprintf(w, "ACK %d\n", i)
		w.Flush()
		if snapAt > 0 && i+1 == snapAt {
			cc.raft.Snapshot()
		}
	}
	fmt.Fprintf(w, "R3DONE\n")
	w.Flush()
	time.Sleep(30 * time.Second) // wait to be killed
	os.Exit(0)
}

func vR3Run(c vR3Case, tag string) (term string, obs map[string]interface{}, skipped string) {
	if c.NOps < 1 {
		c.NOps = 1
	}
	if c.NOps > 40 {
		c.NOps = 40
	}
	if c.KillAt < 0 {
		c.KillAt = 0
	}
	folder := "vr3-" + tag
	os.RemoveAll(folder)
	defer os.RemoveAll(folder)
	priv, _, err := crypto.GenerateEd25519Key(strings.NewReader(fmt.Sprintf("%064d", c.Seed+1)))
	if err != nil {
		return "", nil, err.Error()
	}
	kb, err := crypto.MarshalPrivateKey(priv)
	if err != nil {
		return "", nil, err.Error()
	}
	env := append(os.Environ(), "VERIF_R3_FOLDER="+folder, "VERIF_R3_KEY="+hex.EncodeToString(kb),
		fmt.Sprintf("VERIF_R3_SEED=%d", c.Seed), fmt.Sprintf("VERIF_R3_NOPS=%d", c.NOps), fmt.Sprintf("VERIF_R3_SNAP=%d", c.Snap))
	child := exec.Command(os.Args[0], "-test.run", "^TestVerifR3Child$", "-test.count=1")
	child.Env = append(env, "VERIF_R3_MODE=run")
	stdout, err := child.StdoutPipe()
	if err != nil {
		return "", nil, err.Error()
	}
	if err := child.Start(); err != nil {
		return "", nil, err.Error()
	}
	acked := 0
	killed := make(chan struct{})
	go func() {
		sc := bufio.NewScanner(stdout)
		for sc.Scan() {
			l := sc.Text()
			if strings.HasPrefix(l, "ACK ") {
				acked++
				if acked >= c.KillAt {
					break
				}
			}
			if strings.HasPrefix(l, "R3DONE") || strings.HasPrefix(l, "R3ERR") || strings.HasPrefix(l, "R3OPERR") {
				break
			}
			if strings.HasPrefix(l, "R3READY") && c.KillAt == 0 {
				break
			}
		}
		time.Sleep(time.Duration(c.Delay) * time.Microsecond)
		child.Process.Kill() // SIGKILL
		close(killed)
		for sc.Scan() { // acknowledgements printed before the kill took effect still count
			if strings.HasPrefix(sc.Text(), "ACK ") {
				acked++
			}
		}
	}()
	select {
	case <-killed:
	case <-time.After(120 * time.Second):
		child.Process.Kill()
		return "", nil, "child timeout"
	}
	child.Wait()
	rec := exec.Command(os.Args[0], "-test.run", "^TestVerifR3Child$", "-test.count=1")
	rec.Env = append(env, "VERIF_R3_MODE=recover")
	outb, err := rec.Output()
	if err != nil {
		return "", nil, "recover child: " + err.Error() + " " + string(outb)
	}
	var st struct {
		Ok   bool      `json:"ok"`
		Pins []vC01Pin `json:"pins"`
	}
	found := false
	for _, l := range strings.Split(string(outb), "\n") {
		if strings.HasPrefix(l, "R3STATE ") {
			if err := json.Unmarshal([]byte(strings.TrimPrefix(l, "R3STATE ")), &st); err != nil {
				return "", nil, err.Error()
			}
			found = true
		}
	}
	if !found {
		return "", nil, "no state from the recovering child: " + string(outb)
	}
	// the case: every op the child may have submitted is a command; acknowledged ones are committed before the
	// restart; the observation after the restart must be the replay of a prefix that covers them
	ops := vR3Ops(c.Seed, c.NOps)
	var cmds, evs []string
	for i, op := range ops {
		p := *op.Pin
		p.sanitize()
		if op.Op == "pin" {
			cmds = append(cmds, "LPin "+p.coq())
		} else {
			cmds = append(cmds, "LUnpin "+p.coq())
		}
		if i < acked+1 { // at most one op was in flight
			evs = append(evs, fmt.Sprintf("OCommit %d", i))
		}
	}
	ps := make([]string, len(st.Pins))
	for i, p := range st.Pins {
		ps[i] = p.coq()
	}
	o := "None"
	if st.Ok {
		o = fmt.Sprintf("(Some %s)", cqList(ps))
	}
	evs = append(evs, fmt.Sprintf("ORecovered 0 %d %s", acked, o))
	term = fmt.Sprintf("(1, %s,\n   %s)", cqList(cmds), "["+strings.Join(evs, ";\n    ")+"]")
	obs = map[string]interface{}{"acked": acked, "state": st.Pins, "state_ok": st.Ok}
	return term, obs, ""
}

func TestVerifR3C01(t *testing.T) {
	vC01Quiet()
	seed := uint64(vEnvInt("VERIF_SEED", 1))
	n := vEnvInt("VERIF_N", 4)
	out := newVOut("C01R3", "From V Require Import Base.Common Model.C01_RaftLog Model.C01_Check.\nOpen Scope N_scope.",
		"case", "Definition R := Eval vm_compute in failing cases.\nPrint R.")
	defer out.close()
	out.idBase += 700000
	var cases []vR3Case
	if raw := vCasesIn(); raw != nil {
		for _, b := range raw {
			var c vR3Case
			if err := json.Unmarshal(b, &c); err != nil {
				t.Fatal(err)
			}
			cases = append(cases, c)
		}
	} else {
		r := newVRand(seed ^ 0x3333)
		for i := 0; i < n; i++ {
			nops := 10 + r.intn(30)
			c := vR3Case{Seed: 1 + r.intn(1000), NOps: nops, KillAt: r.intn(nops + 1), Delay: r.intn(600)}
			if r.chance(50) {
				c.Snap = 1 + r.intn(nops)
			}
			cases = append(cases, c)
		}
	}
	for i, c := range cases {
		term, obs, skipped := vR3Run(c, fmt.Sprintf("%d-%d", os.Getpid(), i))
		if skipped != "" {
			fmt.Printf("VERIF-NOTE R3 case %d skipped: %s\n", i, skipped)
			out.count("skipped")
			continue
		}
		out.add(term, c, obs, obs["acked"].(int) >= 2)
		out.count("r3")
	}
}
