//go:build verif

package sharding

// C13 part (ii): real file trees x chunkers x layouts x raw-leaves x CID versions x hash functions x
// wrap / hidden through the real Adder (FromFiles / FromMultipart) and the real DAG services.
// DIFFERENTIAL TESTING (partial): the delivered blocks are rebuilt into a DAG service, closure is checked,
// every file is read back byte for byte, and the root is compared between the sharded and the unsharded
// add and with an independent use of go-unixfs' importer (helpers + balanced/trickle + io.Directory, no MFS).
// The stream of blocks the importer handed to the DAG service is recorded and, with the recorded RPC
// trace, evaluated against the Coq model exactly like the synthetic cases.

import (
	"bytes"
	"context"
	"encoding/json"
	"fmt"
	"io"
	"mime/multipart"
	"os"
	"path/filepath"
	"sort"
	"strings"
	"testing"

	"github.com/ipfs/ipfs-cluster/adder"
	"github.com/ipfs/ipfs-cluster/api"
	"github.com/ipfs/ipfs-cluster/test"

	blocks "github.com/ipfs/go-block-format"
	cid "github.com/ipfs/go-cid"
	chunker "github.com/ipfs/go-ipfs-chunker"
	files "github.com/ipfs/go-ipfs-files"
	ipld "github.com/ipfs/go-ipld-format"
	merkledag "github.com/ipfs/go-merkledag"
	balanced "github.com/ipfs/go-unixfs/importer/balanced"
	ihelper "github.com/ipfs/go-unixfs/importer/helpers"
	trickle "github.com/ipfs/go-unixfs/importer/trickle"
	uio "github.com/ipfs/go-unixfs/io"
	multihash "github.com/multiformats/go-multihash"
)

type vC13FEntry struct {
	Path string `json:"path"` // relative, '/' separated
	Size int    `json:"size"`
	Seed int    `json:"seed"` // 0 = all zero bytes (every chunk identical)
	Dir  bool   `json:"dir,omitempty"`
}

type vC13FCase struct {
	Kind      string       `json:"kind"`
	Entries   []vC13FEntry `json:"entries"`
	TopFile   bool         `json:"top_file"` // add the first file alone instead of the directory
	Chunker   string       `json:"chunker"`
	Layout    string       `json:"layout"`
	RawLeaves bool         `json:"raw_leaves"`
	CidV      int          `json:"cid_version"`
	Hash      string       `json:"hash"`
	Wrap      bool         `json:"wrap"`
	Hidden    bool         `json:"hidden"`
	Multipart bool         `json:"multipart"`
	Shard     bool         `json:"shard"`
	Local     bool         `json:"local"`
	Rmin      int          `json:"rmin"`
	Rmax      int          `json:"rmax"`
	Limit     int          `json:"limit"`     // 0: derived from limit_pct
	LimitPct  int          `json:"limit_pct"` // limit = largest block + 1 + pct% of the total size of the distinct blocks
	Allocs    [][]int      `json:"allocs"`
	PutF      []vC13Fault  `json:"putf"`
	PinF      []int        `json:"pinf"`
}

func (c *vC13FCase) faulty() bool {
	if len(c.PutF) > 0 || len(c.PinF) > 0 {
		return true
	}
	for _, a := range c.Allocs {
		if len(a) == 0 {
			return true
		}
		for _, x := range a {
			if x < 0 {
				return true
			}
		}
	}
	return len(c.Allocs) == 0
}

func vC13FileData(seed, size int) []byte {
	if seed == 0 {
		return make([]byte, size)
	}
	b := make([]byte, size)
	x := uint64(seed)*0x9E3779B97F4A7C15 + 0x5851F42D4C957F2D
	for k := range b {
		x ^= x << 13
		x ^= x >> 7
		x ^= x << 17
		b[k] = byte(x >> 11)
	}
	return b
}

func vC13CleanPath(p string) (string, bool) {
	p = strings.Trim(filepath.ToSlash(filepath.Clean("/"+p)), "/")
	if p == "" || p == "." {
		return "", false
	}
	for _, seg := range strings.Split(p, "/") {
		if seg == "" || seg == "." || seg == ".." || len(seg) > 60 {
			return "", false
		}
	}
	return p, true
}

// expected content: path -> bytes (files) and the set of directories, after the hidden filter
type vC13Tree struct {
	files map[string][]byte
	dirs  map[string]bool
}

func vC13Hidden(p string) bool {
	for _, seg := range strings.Split(p, "/") {
		if strings.HasPrefix(seg, ".") {
			return true
		}
	}
	return false
}

// writes the tree below base/tree and returns the expectation (relative to the added root)
func vC13WriteTree(base string, c *vC13FCase) (*vC13Tree, string, error) {
	root := filepath.Join(base, "tree")
	if err := os.MkdirAll(root, 0o755); err != nil {
		return nil, "", err
	}
	exp := &vC13Tree{files: map[string][]byte{}, dirs: map[string]bool{}}
	taken := map[string]bool{}
	for _, en := range c.Entries {
		p, ok := vC13CleanPath(en.Path)
		if !ok || taken[p] {
			continue
		}
		// a path cannot be both a file and a directory
		clash := false
		for q := range taken {
			if strings.HasPrefix(q, p+"/") || strings.HasPrefix(p, q+"/") && !exp.dirs[q] {
				clash = true
			}
		}
		if clash {
			continue
		}
		full := filepath.Join(root, filepath.FromSlash(p))
		size := en.Size
		if size < 0 {
			size = 0
		}
		if size > 1<<20 {
			size = 1 << 20
		}
		if en.Dir {
			if err := os.MkdirAll(full, 0o755); err != nil {
				return nil, "", err
			}
		} else {
			if err := os.MkdirAll(filepath.Dir(full), 0o755); err != nil {
				return nil, "", err
			}
			data := vC13FileData(en.Seed, size)
			if err := os.WriteFile(full, data, 0o644); err != nil {
				return nil, "", err
			}
			if c.Hidden || !vC13Hidden(p) {
				exp.files[p] = data
			}
		}
		taken[p] = true
		// every ancestor is a directory
		segs := strings.Split(p, "/")
		upto := len(segs) - 1
		if en.Dir {
			upto = len(segs)
		}
		for k := 1; k <= upto; k++ {
			d := strings.Join(segs[:k], "/")
			taken[d] = true
			if c.Hidden || !vC13Hidden(d) {
				exp.dirs[d] = true
			}
		}
	}
	return exp, root, nil
}

// ---- recording wrapper around the real DAG service ----
type vC13Rec struct {
	inner     adder.ClusterDAGService
	nodes     []ipld.Node
	errs      []error
	finalized bool
}

func (w *vC13Rec) Add(ctx context.Context, n ipld.Node) error {
	err := w.inner.Add(ctx, n)
	w.nodes = append(w.nodes, n)
	w.errs = append(w.errs, err)
	return err
}
func (w *vC13Rec) AddMany(ctx context.Context, ns []ipld.Node) error {
	for _, n := range ns {
		if err := w.Add(ctx, n); err != nil {
			return err
		}
	}
	return nil
}
func (w *vC13Rec) Get(ctx context.Context, c cid.Cid) (ipld.Node, error) { return w.inner.Get(ctx, c) }
func (w *vC13Rec) GetMany(ctx context.Context, cs []cid.Cid) <-chan *ipld.NodeOption {
	return w.inner.GetMany(ctx, cs)
}
func (w *vC13Rec) Remove(ctx context.Context, c cid.Cid) error        { return w.inner.Remove(ctx, c) }
func (w *vC13Rec) RemoveMany(ctx context.Context, cs []cid.Cid) error { return w.inner.RemoveMany(ctx, cs) }
func (w *vC13Rec) Finalize(ctx context.Context, root cid.Cid) (cid.Cid, error) {
	w.finalized = true
	return w.inner.Finalize(ctx, root)
}

func vC13Prefix(c *vC13FCase) (*cid.Prefix, error) {
	prefix, err := merkledag.PrefixForCidVersion(c.CidV)
	if err != nil {
		return nil, err
	}
	code, ok := multihash.Names[strings.ToLower(c.Hash)]
	if !ok {
		return nil, fmt.Errorf("unknown hash")
	}
	prefix.MhType = code
	prefix.MhLength = -1
	return &prefix, nil
}

// ---- reference: go-unixfs' importer used directly (no MFS, no cluster code) ----
func vC13RefFile(ds ipld.DAGService, c *vC13FCase, prefix *cid.Prefix, data []byte) (ipld.Node, error) {
	spl, err := chunker.FromString(bytes.NewReader(data), c.Chunker)
	if err != nil {
		return nil, err
	}
	params := ihelper.DagBuilderParams{Dagserv: ds, RawLeaves: c.RawLeaves, Maxlinks: ihelper.DefaultLinksPerBlock, CidBuilder: prefix}
	db, err := params.New(spl)
	if err != nil {
		return nil, err
	}
	if c.Layout == "trickle" {
		return trickle.Layout(db)
	}
	return balanced.Layout(db)
}

func vC13RefDir(ds ipld.DAGService, c *vC13FCase, prefix *cid.Prefix, exp *vC13Tree, dir string) (ipld.Node, error) {
	d := uio.NewDirectory(ds)
	d.SetCidBuilder(prefix)
	ctx := context.Background()
	for _, name := range exp.children(dir) {
		p := name
		if dir != "" {
			p = dir + "/" + name
		}
		var nd ipld.Node
		var err error
		if exp.dirs[p] {
			nd, err = vC13RefDir(ds, c, prefix, exp, p)
		} else {
			nd, err = vC13RefFile(ds, c, prefix, exp.files[p])
		}
		if err != nil {
			return nil, err
		}
		if err = d.AddChild(ctx, name, nd); err != nil {
			return nil, err
		}
	}
	nd, err := d.GetNode()
	if err != nil {
		return nil, err
	}
	return nd, ds.Add(ctx, nd)
}

func (t *vC13Tree) children(dir string) []string {
	set := map[string]bool{}
	add := func(p string) {
		if dir == "" {
			if !strings.Contains(p, "/") {
				set[p] = true
			}
			return
		}
		if strings.HasPrefix(p, dir+"/") {
			rest := p[len(dir)+1:]
			if !strings.Contains(rest, "/") {
				set[rest] = true
			}
		}
	}
	for p := range t.files {
		add(p)
	}
	for p := range t.dirs {
		add(p)
	}
	out := make([]string, 0, len(set))
	for n := range set {
		out = append(out, n)
	}
	sort.Strings(out)
	return out
}

// the expected tree as seen from the returned root: the name the content was added under, wrapping
type vC13Expect struct {
	tree    *vC13Tree
	topName string // "tree" or the file name
	topFile string // path (inside tree) of the single file, when TopFile
}

func vC13RefRoot(c *vC13FCase, ex *vC13Expect, ds *test.MockDAGService) (root cid.Cid, err error) {
	defer func() {
		if x := recover(); x != nil {
			root, err = cid.Undef, fmt.Errorf("reference importer panicked: %v", x)
		}
	}()
	prefix, err := vC13Prefix(c)
	if err != nil {
		return cid.Undef, err
	}
	var top ipld.Node
	if ex.topFile != "" {
		top, err = vC13RefFile(ds, c, prefix, ex.tree.files[ex.topFile])
	} else {
		top, err = vC13RefDir(ds, c, prefix, ex.tree, "")
	}
	if err != nil {
		return cid.Undef, err
	}
	if !c.Wrap {
		return top.Cid(), nil
	}
	d := uio.NewDirectory(ds)
	d.SetCidBuilder(prefix)
	if err := d.AddChild(context.Background(), ex.topName, top); err != nil {
		return cid.Undef, err
	}
	nd, err := d.GetNode()
	if err != nil {
		return cid.Undef, err
	}
	return nd.Cid(), nil
}

// ---- checks on the delivered blocks ----
func vC13Rebuild(r *vC13Rig) (*test.MockDAGService, bool) {
	ds := test.NewMockDAGService()
	ok := true
	for k, data := range r.delivered {
		c, err := cid.Cast([]byte(k))
		if err != nil {
			ok = false
			continue
		}
		c2, err := c.Prefix().Sum(data)
		if err != nil || !c2.Equals(c) {
			ok = false // the data does not hash to the CID it was put under
			continue
		}
		blk, err := blocks.NewBlockWithCid(data, c)
		if err != nil {
			ok = false
			continue
		}
		nd, err := ipld.Decode(blk)
		if err != nil {
			ok = false
			continue
		}
		ds.Nodes[c] = nd
	}
	return ds, ok
}

func vC13Closed(ds *test.MockDAGService, root cid.Cid) bool {
	seen := map[cid.Cid]bool{}
	stack := []cid.Cid{root}
	for len(stack) > 0 {
		c := stack[len(stack)-1]
		stack = stack[:len(stack)-1]
		if seen[c] {
			continue
		}
		seen[c] = true
		nd, ok := ds.Nodes[c]
		if !ok {
			return false
		}
		for _, l := range nd.Links() {
			stack = append(stack, l.Cid)
		}
	}
	return true
}

func vC13ReadFile(ds ipld.DAGService, nd ipld.Node) ([]byte, error) {
	dr, err := uio.NewDagReader(context.Background(), nd, ds)
	if err != nil {
		return nil, err
	}
	return io.ReadAll(dr)
}

func vC13CheckDir(ds ipld.DAGService, nd ipld.Node, t *vC13Tree, dir string) bool {
	d, err := uio.NewDirectoryFromNode(ds, nd)
	if err != nil {
		return false
	}
	ctx := context.Background()
	links, err := d.Links(ctx)
	if err != nil {
		return false
	}
	want := t.children(dir)
	got := []string{}
	for _, l := range links {
		got = append(got, l.Name)
	}
	sort.Strings(got)
	if strings.Join(got, "\x00") != strings.Join(want, "\x00") {
		return false
	}
	for _, name := range want {
		p := name
		if dir != "" {
			p = dir + "/" + name
		}
		ch, err := d.Find(ctx, name)
		if err != nil {
			return false
		}
		if t.dirs[p] {
			if !vC13CheckDir(ds, ch, t, p) {
				return false
			}
			continue
		}
		data, err := vC13ReadFile(ds, ch)
		if err != nil || !bytes.Equal(data, t.files[p]) {
			return false
		}
	}
	return true
}

func vC13ReadBack(ds ipld.DAGService, root cid.Cid, c *vC13FCase, ex *vC13Expect) bool {
	ctx := context.Background()
	nd, err := ds.Get(ctx, root)
	if err != nil {
		return false
	}
	if c.Wrap {
		d, err := uio.NewDirectoryFromNode(ds, nd)
		if err != nil {
			return false
		}
		links, err := d.Links(ctx)
		if err != nil || len(links) != 1 || links[0].Name != ex.topName {
			return false
		}
		if nd, err = d.Find(ctx, ex.topName); err != nil {
			return false
		}
	}
	if ex.topFile != "" {
		data, err := vC13ReadFile(ds, nd)
		return err == nil && bytes.Equal(data, ex.tree.files[ex.topFile])
	}
	return vC13CheckDir(ds, nd, ex.tree, "")
}

// ---- one run of the real Adder ----
type vC13FRun struct {
	rig    *vC13Rig
	rec    *vC13Rec
	root   cid.Cid
	err    error
	panic_ bool
	cs     *vC13Case
}

func vC13RunFiles(c *vC13FCase, shard bool, treeRoot string, ex *vC13Expect) *vC13FRun {
	cs := &vC13Case{Kind: c.Kind, Shard: shard, Local: c.Local && !shard, Rmin: c.Rmin, Rmax: c.Rmax, Limit: c.Limit,
		Allocs: c.Allocs, PutF: c.PutF, PinF: c.PinF}
	vC13Normalize(cs)
	r := vC13NewRig(cs)
	run := &vC13FRun{rig: r, cs: cs}
	func() {
		defer func() {
			if x := recover(); x != nil {
				run.panic_ = true
			}
		}()
		p := api.DefaultAddParams()
		p.PinOptions = r.opts
		p.Shard = shard
		p.Local = cs.Local
		p.Wrap = c.Wrap
		p.Hidden = c.Hidden
		p.Layout = c.Layout
		p.Chunker = c.Chunker
		p.RawLeaves = c.RawLeaves
		p.CidVersion = c.CidV
		p.HashFun = c.Hash
		run.rec = &vC13Rec{inner: r.newService()}
		ad := adder.New(run.rec, p, nil)
		path := treeRoot
		if ex.topFile != "" {
			path = filepath.Join(treeRoot, filepath.FromSlash(ex.topFile))
		}
		st, err := os.Stat(path)
		if err != nil {
			run.err = err
			return
		}
		sf, err := files.NewSerialFile(path, c.Hidden, st)
		if err != nil {
			run.err = err
			return
		}
		defer sf.Close()
		dir := files.NewMapDirectory(map[string]files.Node{ex.topName: sf})
		ctx := context.Background()
		if c.Multipart {
			mfr := files.NewMultiFileReader(dir, true)
			run.root, run.err = ad.FromMultipart(ctx, multipart.NewReader(mfr, mfr.Boundary()))
		} else {
			run.root, run.err = ad.FromFiles(ctx, dir)
		}
	}()
	return run
}

func vC13FErrClass(err error) int {
	switch s := err.Error(); {
	case strings.Contains(s, vC13ErrAlloc.Error()):
		return 1
	case strings.Contains(s, adder.ErrBlockAdder.Error()):
		return 2
	case strings.Contains(s, vC13ErrPin.Error()):
		return 3
	}
	return 4
}

// stream recorded by the wrapper -> model input
func (run *vC13FRun) stream() ([]vC13Block, map[string]int) {
	uni := map[string]int{}
	var out []vC13Block
	if run.rec == nil {
		return out, uni
	}
	n := len(run.rec.nodes)
	for i, nd := range run.rec.nodes {
		k := nd.Cid().KeyString()
		ix, ok := uni[k]
		if !ok {
			ix = len(uni) + 1
			uni[k] = ix
		}
		sw := run.rec.errs[i] != nil && (i < n-1 || run.rec.finalized)
		out = append(out, vC13Block{node: nd, idx: ix, swallow: sw})
	}
	return out, uni
}

func vC13FGen(r *vRand, i int) vC13FCase {
	c := vC13FCase{Kind: "tree", Hash: "sha2-256", Rmin: 1, Rmax: 2}
	chunkers := []string{"size-32", "size-64", "size-100", "size-257", "size-1024", "size-4096", "rabin-32-64-128", "rabin-64-128-256", "buzhash", "size-262144"}
	c.Chunker = chunkers[r.intn(len(chunkers))]
	csize := 64
	fmt.Sscanf(c.Chunker, "size-%d", &csize)
	if csize > 4096 {
		csize = 4096
	}
	c.Layout = []string{"", "balanced", "trickle"}[r.intn(3)]
	c.RawLeaves = r.chance(50)
	c.CidV = r.intn(2)
	if c.CidV == 1 && r.chance(40) {
		c.Hash = []string{"sha2-512", "blake2b-256", "sha3-256", "blake2s-256"}[r.intn(4)]
	}
	c.Wrap = r.chance(35)
	c.Hidden = r.chance(40)
	c.Multipart = r.chance(50)
	vC13GenFactorsF(r, &c)
	// sizes around the chunk boundaries and the links-per-node boundary
	size := func() int {
		switch x := r.intn(100); {
		case x < 12:
			return 0
		case x < 40:
			return csize*r.rng(1, 3) + r.rng(-1, 1)
		case x < 55:
			return r.rng(1, csize)
		case x < 90:
			return r.rng(csize, 12*csize)
		default:
			return csize*ihelper.DefaultLinksPerBlock + r.rng(-1, 1)*csize + r.rng(-1, 1)
		}
	}
	names := []string{"a", "b.txt", "c", ".hid", "d", "e.bin", "f", ".cfg"}
	dirs := []string{"", "", "sub/", "sub/deep/", ".git/", "x/y/z/", "sub/"}
	switch r.intn(10) {
	case 0, 1: // a single file
		c.Kind = "file"
		c.TopFile = true
		c.Entries = []vC13FEntry{{Path: "single.dat", Size: size(), Seed: r.rng(0, 3)}}
	case 2: // many small files
		c.Kind = "many-small"
		for k := r.rng(20, 60); k > 0; k-- {
			c.Entries = append(c.Entries, vC13FEntry{Path: fmt.Sprintf("%sf%d", dirs[r.intn(len(dirs))], k), Size: r.rng(0, 40), Seed: r.rng(0, 6)})
		}
	default:
		for k := r.rng(1, 9); k > 0; k-- {
			en := vC13FEntry{Path: dirs[r.intn(len(dirs))] + names[r.intn(len(names))], Size: size(), Seed: r.rng(0, 5)}
			if r.chance(8) {
				en = vC13FEntry{Path: "empty" + fmt.Sprint(k), Dir: true}
			}
			c.Entries = append(c.Entries, en)
		}
	}
	// shard limit: around the total size, the largest block, or generous
	total := 0
	for _, en := range c.Entries {
		total += en.Size
	}
	switch x := r.intn(100); {
	case x < 70:
		c.LimitPct = []int{0, 1, 5, 10, 20, 35, 50, 75, 100, 150}[r.intn(10)] // from "one big block per shard" to one shard
	case x < 80:
		c.Limit = r.rng(9000, 30000)
	case x < 90:
		c.Limit = 1 << 26
	default:
		c.Limit = r.rng(40, 2*csize+200) // often smaller than a block: the sharded add must fail cleanly
	}
	c.Allocs = [][]int{vC13Sub(r, 1, 5, r.rng(1, 3)), vC13Sub(r, 1, 5, r.rng(1, 3)), vC13Sub(r, 1, 5, r.rng(1, 2))}
	c.Local = r.chance(10)
	if r.chance(30) {
		// faults at any block
		c.Kind += "+faults"
		nblocks := total/csize + 2*len(c.Entries) + 2
		for k := r.rng(1, 2); k > 0; k-- {
			rd := r.intn(nblocks + 2)
			if r.chance(35) {
				rd = r.intn(3) // the first blocks
			}
			if r.chance(50) {
				for d := 0; d <= 5; d++ {
					c.PutF = append(c.PutF, vC13Fault{Round: rd, Dest: d, Kind: r.rng(1, 3)})
				}
			} else {
				c.PutF = append(c.PutF, vC13Fault{Round: rd, Dest: r.rng(0, 5), Kind: r.rng(1, 3)})
			}
		}
		if r.chance(20) {
			c.PinF = []int{r.intn(3)}
		}
		if r.chance(20) {
			c.Allocs[r.intn(len(c.Allocs))] = []int{-1}
		}
	}
	if r.chance(4) {
		c.Kind = "bad-params"
		switch r.intn(3) {
		case 0:
			c.Chunker = "size-0"
		case 1:
			c.Chunker = "rabin-8-16-32" // min below 16
		default:
			c.Hash = "no-such-hash"
		}
	}
	return c
}

func vC13GenFactorsF(r *vRand, c *vC13FCase) {
	switch x := r.intn(100); {
	case x < 10:
		c.Rmin, c.Rmax = -1, -1
	case x < 15:
		c.Rmin, c.Rmax = 0, 0
	default:
		c.Rmin = r.rng(1, 2)
		c.Rmax = c.Rmin + r.intn(2)
	}
}

func TestVerifC13Files(t *testing.T) {
	out := newVOut("C13_files", vC13Header, "case", vC13Footer)
	out.idBase += 400000
	defer out.close()
	var cases []vC13FCase
	gen := true
	if raw := vCasesIn(); raw != nil {
		gen = false
		for _, b := range raw {
			var c vC13FCase
			if err := json.Unmarshal(b, &c); err != nil {
				t.Fatal(err)
			}
			cases = append(cases, c)
		}
	} else {
		r := newVRand(uint64(vEnvInt("VERIF_SEED", 1)) + 424242)
		n := vEnvInt("VERIF_N", 60)
		for i := 0; i < n; i++ {
			cases = append(cases, vC13FGen(r.fork(), i))
		}
	}
	for ci, c := range cases {
		c := c
		if c.CidV == 0 && strings.ToLower(c.Hash) != "sha2-256" {
			if _, known := multihash.Names[strings.ToLower(c.Hash)]; known {
				c.CidV = 1
			}
		}
		base, err := os.MkdirTemp(".", "vc13tree")
		if err != nil {
			t.Fatal(err)
		}
		tree, treeRoot, err := vC13WriteTree(base, &c)
		if err != nil {
			t.Fatal(err)
		}
		ex := &vC13Expect{tree: tree, topName: "tree"}
		if c.TopFile {
			names := make([]string, 0)
			for p := range tree.files {
				names = append(names, p)
			}
			sort.Strings(names)
			if len(names) > 0 && !strings.Contains(names[0], "/") {
				ex.topFile = names[0]
				ex.topName = names[0]
			}
		}
		refDS := test.NewMockDAGService()
		refRoot, refErr := vC13RefRoot(&c, ex, refDS)
		if c.Limit <= 0 {
			maxBlock, total := 0, 0
			for _, nd := range refDS.Nodes {
				n := len(nd.RawData())
				total += n
				if n > maxBlock {
					maxBlock = n
				}
			}
			pct := c.LimitPct
			if pct < 0 {
				pct = 0
			}
			if pct > 1000 {
				pct = 1000
			}
			c.Limit = maxBlock + 1 + total*pct/100
			if refErr != nil {
				c.Limit = 10000
			}
		}
		faulty := c.faulty()
		// generated cases: both variants; replayed cases: the variant asked (the other one only to compare roots)
		variants := []bool{false, true}
		if !gen {
			variants = []bool{c.Shard}
		}
		runs := map[bool]*vC13FRun{}
		for _, sh := range []bool{false, true} {
			need := false
			for _, v := range variants {
				if v == sh {
					need = true
				}
			}
			if need || !faulty {
				runs[sh] = vC13RunFiles(&c, sh, treeRoot, ex)
			}
		}
		for _, sh := range variants {
			run := runs[sh]
			cc := c
			cc.Shard = sh
			stream, uni := run.stream()
			run.cs.Abort = run.err != nil && !run.panic_ && !run.rec.finalized &&
				(len(run.rec.errs) == 0 || run.rec.errs[len(run.rec.errs)-1] == nil)
			o := run.rig.obsTerms(uni, run.root, run.err, run.panic_)
			if run.err != nil && !run.panic_ {
				o.class = vC13FErrClass(run.err)
				o.resTerm = fmt.Sprintf("OErr %d", o.class)
			}
			rootIdx := vC13MetaBase - 1
			rc := refRoot
			if o.ok {
				rc = run.root
			}
			if rc.Defined() {
				if ix, ok := uni[rc.KeyString()]; ok {
					rootIdx = ix
				}
			}
			var flags []int
			swallowed := false
			for _, b := range stream {
				if b.swallow {
					swallowed = true
				}
			}
			if o.ok {
				ds, hashOK := vC13Rebuild(run.rig)
				if !hashOK || !vC13Closed(ds, run.root) {
					flags = append(flags, 20)
				} else if !vC13ReadBack(ds, run.root, &cc, ex) {
					flags = append(flags, 21)
				}
				if other := runs[!sh]; !faulty && other != nil && other.err == nil && !other.panic_ && !other.root.Equals(run.root) {
					flags = append(flags, 22)
				}
				if refErr == nil && !refRoot.Equals(run.root) {
					flags = append(flags, 23)
				}
			}
			for _, d := range run.rig.direct {
				b, _ := json.Marshal(map[string]interface{}{"signature": "c13-rig", "detail": d, "case": map[string]interface{}{"input": cc}})
				fmt.Printf("VERIF-DIRECT-VIOLATION %s\n", b)
			}
			key := "files:single"
			if sh {
				key = "files:shard"
			}
			out.count("files:kind:" + c.Kind)
			out.count(fmt.Sprintf("%s:result:%d", key, o.class))
			out.count("files:chunker:" + strings.SplitN(c.Chunker, "-", 2)[0])
			out.count("files:layout:" + c.Layout)
			if swallowed {
				out.count("files:importer-swallowed-error")
			}
			if run.cs.Abort {
				out.count("files:importer-abort")
			}
			if sh && o.ok {
				ns := o.nShards
				if ns > 4 {
					ns = 4
				}
				out.count(fmt.Sprintf("files:shardpins:%d", ns))
			}
			nontriv := len(uni) >= 2 && (o.nPins > 0 || o.class == 2)
			out.add(vC13CaseTerm(run.cs, stream, uni, rootIdx, o, flags), cc,
				map[string]interface{}{"ok": o.ok, "class": o.class, "err": o.errMsg, "blocks": len(stream), "distinct": len(uni),
					"puts": o.nPuts, "pins": o.nPins, "shards": o.nShards, "flags": flags, "swallowed": swallowed, "abort": run.cs.Abort}, nontriv)
		}
		os.RemoveAll(base)
		_ = ci
	}
}
