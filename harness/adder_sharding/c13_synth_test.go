//go:build verif

package sharding

// C13 part (i): synthetic importer streams through the real sharding / single DAG services and the
// real BlockAdder, compared exactly with the Coq model (Model/C13_Adder.v).

import (
	"encoding/json"
	"fmt"
	"os"
	"testing"
)

func vC13Sub(r *vRand, lo, hi, kmax int) []int {
	// up to kmax distinct values of lo..hi, random order, at least one
	var out []int
	for len(out) < kmax {
		x := r.rng(lo, hi)
		dup := false
		for _, y := range out {
			if y == x {
				dup = true
			}
		}
		if !dup {
			out = append(out, x)
		} else if r.chance(50) {
			break
		}
	}
	return out
}

func vC13GenFactors(r *vRand, c *vC13Case) {
	switch x := r.intn(100); {
	case x < 14:
		c.Rmin, c.Rmax = -1, -1
	case x < 22:
		c.Rmin, c.Rmax = 0, 0
	case x < 30:
		c.Rmin, c.Rmax = 2, 3
	default:
		c.Rmin = r.rng(1, 2)
		c.Rmax = c.Rmin + r.intn(2)
	}
}

func vC13GenAllocs(r *vRand, c *vC13Case) {
	m := r.rng(1, 4)
	for k := 0; k < m; k++ {
		c.Allocs = append(c.Allocs, vC13Sub(r, 1, 5, r.rng(1, 3)))
	}
}

func vC13GenFaults(r *vRand, c *vC13Case, rounds int, pct int) {
	if !r.chance(pct) {
		return
	}
	nf := r.rng(1, 3)
	for k := 0; k < nf; k++ {
		c.PutF = append(c.PutF, vC13Fault{Round: r.intn(rounds + 4), Dest: r.rng(0, 5), Kind: r.rng(1, 3)})
	}
	if r.chance(30) {
		// the same round fails on every destination
		rd := r.intn(rounds + 2)
		kind := r.rng(1, 3)
		for d := 0; d <= 5; d++ {
			k := kind
			if r.chance(25) {
				k = r.rng(1, 3)
			}
			c.PutF = append(c.PutF, vC13Fault{Round: rd, Dest: d, Kind: k})
		}
	}
}

func vC13GenItems(r *vRand, c *vC13Case, n, maxSize int, dupPct, linkPct int) {
	next := 1
	for k := 0; k < n; k++ {
		if len(c.Items) > 0 && r.chance(dupPct) {
			c.Items = append(c.Items, c.Items[r.intn(len(c.Items))])
			continue
		}
		it := vC13Item{ID: next, Size: r.rng(1, maxSize)}
		next++
		if r.chance(20) {
			it.Size = r.rng(0, 8)
		}
		if len(c.Items) > 0 && r.chance(linkPct) {
			for l := r.rng(1, 3); l > 0; l-- {
				it.Links = append(it.Links, c.Items[r.intn(len(c.Items))].ID)
			}
		}
		c.Items = append(c.Items, it)
	}
}

func vC13GenStructured(r *vRand, shard bool) vC13Case {
	c := vC13Case{Kind: "structured", Shard: shard, Limit: r.rng(150, 3000), Root: -1}
	vC13GenFactors(r, &c)
	vC13GenAllocs(r, &c)
	n := r.rng(1, 30)
	div := r.rng(2, 12)
	vC13GenItems(r, &c, n, c.Limit/div+1, 12, 15)
	vC13GenFaults(r, &c, n, 35)
	if r.chance(10) {
		c.PinF = append(c.PinF, r.intn(5))
	}
	if r.chance(6) {
		c.Allocs[r.intn(len(c.Allocs))] = []int{-1}
	}
	if r.chance(15) {
		c.Root = r.intn(n)
	}
	if !shard {
		c.Local = r.chance(25)
	}
	return c
}

// sizes that land exactly on / one below / one above every comparison of ingestBlock
func vC13GenBoundary(r *vRand, shard bool) vC13Case {
	c := vC13Case{Kind: "boundary", Shard: shard, Limit: r.rng(12, 300), Root: -1}
	vC13GenFactors(r, &c)
	vC13GenAllocs(r, &c)
	L := c.Limit
	id := 1
	add := func(size int) {
		c.Items = append(c.Items, vC13Item{ID: id, Size: size})
		id++
	}
	for rep := r.rng(1, 3); rep > 0; rep-- {
		switch r.intn(6) {
		case 0: // two blocks whose sum is limit-1, limit, limit+1
			s := r.rng(1, L-2)
			add(s)
			add(L - s - 1 + r.rng(-1, 1))
		case 1: // one block of limit-1, limit, limit+1
			add(L - 1 + r.rng(-1, 1))
		case 2: // empty blocks keep the shard at size 0
			add(0)
			if r.chance(50) {
				add(L + r.rng(-1, 1))
			}
		case 3: // many blocks filling shards exactly
			s := r.rng(1, 5)
			for k := r.rng(2, 12); k > 0; k-- {
				add(s)
			}
			add(L - 1)
		case 4:
			add(r.rng(1, L-1))
			add(r.rng(1, L-1))
			add(r.rng(1, L-1))
		default:
			add(1)
			add(L - 2)
			add(1)
		}
	}
	if r.chance(10) {
		c.Limit = r.intn(3) // 0, 1, 2
	}
	if r.chance(25) && len(c.Items) > 1 {
		c.Items = append(c.Items, c.Items[r.intn(len(c.Items))])
	}
	vC13GenFaults(r, &c, len(c.Items)+3, 20)
	if r.chance(8) {
		c.PinF = append(c.PinF, r.intn(4))
	}
	if !shard {
		c.Local = r.chance(25)
	}
	return c
}

func vC13GenMalformed(r *vRand, shard bool) vC13Case {
	c := vC13GenStructured(r, shard)
	c.Kind = "malformed"
	switch r.intn(7) {
	case 0:
		c.Items = nil
	case 1:
		c.Allocs = nil
	case 2:
		c.Allocs = [][]int{{}}
	case 3:
		c.Allocs = append([][]int{{}}, c.Allocs...)
	case 4: // every put fails somewhere from some round on
		rd := r.intn(4)
		for d := 0; d <= 5; d++ {
			c.PutF = append(c.PutF, vC13Fault{Round: rd, Dest: d, Kind: r.rng(1, 3)})
		}
	case 5:
		c.Root = 10000
		for i := range c.Items {
			c.Items[i].Links = append(c.Items[i].Links, 777)
		}
	default:
		c.PinF = []int{0, 1, 2, 3}
	}
	return c
}

// dense faults on several destinations: the BlockAdder success rule
func vC13GenBlockAdder(r *vRand, shard bool) vC13Case {
	c := vC13Case{Kind: "blockadder", Shard: shard, Limit: 100000, Root: -1}
	vC13GenFactors(r, &c)
	c.Allocs = [][]int{vC13Sub(r, 1, 6, r.rng(1, 5))}
	if shard && r.chance(50) {
		c.Allocs = append(c.Allocs, vC13Sub(r, 1, 6, r.rng(1, 4)))
		c.Limit = r.rng(40, 200)
	}
	n := r.rng(1, 14)
	vC13GenItems(r, &c, n, 30, 20, 10)
	pct := r.rng(5, 45)
	rpcOnly := r.chance(30)
	for rd := 0; rd < n+6; rd++ {
		for d := 0; d <= 6; d++ {
			if r.chance(pct) {
				k := r.rng(1, 3)
				if rpcOnly {
					k = 2
				}
				c.PutF = append(c.PutF, vC13Fault{Round: rd, Dest: d, Kind: k})
			}
		}
	}
	if !shard {
		c.Local = r.chance(15)
	}
	return c
}

// enough small nodes to cross MaxLinks (slow: few of them)
func vC13GenBig(r *vRand, k int) vC13Case {
	ns := []int{MaxLinks + 1, MaxLinks, 2 * MaxLinks, 2*MaxLinks + 1, MaxLinks - 1, 2*MaxLinks - 1, MaxLinks + 2}
	n := ns[k%len(ns)]
	c := vC13Case{Kind: "big", Shard: true, Limit: 1 << 30, Root: -1, Rmin: 1, Rmax: 2}
	c.Allocs = [][]int{{1, 2}, {3}}
	c.Items = []vC13Item{{ID: 1, Size: r.rng(4, 6), N: n}}
	if k >= len(ns) {
		// a second, small shard after the big one
		c.Limit = n*c.Items[0].Size + 1
		c.Items = append(c.Items, vC13Item{ID: 100000, Size: 5, N: r.rng(1, 3)})
		if r.chance(50) {
			c.PutF = append(c.PutF, vC13Fault{Round: n + r.intn(3), Dest: r.rng(1, 2), Kind: r.rng(1, 3)})
		}
	}
	return c
}

func vC13Gen(r *vRand, i int, shard bool, tier string) vC13Case {
	if shard {
		nbig := 2
		if tier == "thorough" {
			nbig = 12
		}
		if i < nbig {
			return vC13GenBig(r, i)
		}
	}
	switch x := r.intn(100); {
	case x < 45:
		return vC13GenStructured(r, shard)
	case x < 70:
		return vC13GenBoundary(r, shard)
	case x < 88:
		return vC13GenBlockAdder(r, shard)
	default:
		return vC13GenMalformed(r, shard)
	}
}

func vC13Cases(t *testing.T, shard bool) []vC13Case {
	var cases []vC13Case
	if raw := vCasesIn(); raw != nil {
		for _, b := range raw {
			var c vC13Case
			if err := json.Unmarshal(b, &c); err != nil {
				t.Fatal(err)
			}
			c.Shard = shard
			cases = append(cases, c)
		}
		return cases
	}
	seed := uint64(vEnvInt("VERIF_SEED", 1))
	if !shard {
		seed += 7777
	}
	n := vEnvInt("VERIF_N", 200)
	tier := os.Getenv("VERIF_TIER")
	r := newVRand(seed)
	for i := 0; i < n; i++ {
		cases = append(cases, vC13Gen(r.fork(), i, shard, tier))
	}
	return cases
}

func vC13RunSynthTest(t *testing.T, shard bool, prefix string, idOff int) {
	out := newVOut(prefix, vC13Header, "case", vC13Footer)
	out.idBase += idOff
	defer out.close()
	for _, c := range vC13Cases(t, shard) {
		c := c
		vC13Normalize(&c)
		o, stream, uni, rootIdx := vC13RunSynth(&c)
		for _, d := range o.direct {
			b, _ := json.Marshal(map[string]interface{}{"signature": "c13-rig", "detail": d, "case": map[string]interface{}{"input": c}})
			fmt.Printf("VERIF-DIRECT-VIOLATION %s\n", b)
		}
		key := "single"
		if shard {
			key = "shard"
		}
		out.count(key + ":kind:" + c.Kind)
		out.count(fmt.Sprintf("%s:result:%d", key, o.class))
		if shard {
			ns := o.nShards
			if ns > 4 {
				ns = 4
			}
			out.count(fmt.Sprintf("shard:shardpins:%d", ns))
			if o.maxNode > 0 && len(o.tbl) > 0 && o.nShards > 0 && o.nPuts > len(stream)+o.nShards+1 {
				out.count("shard:indirect-dag")
			}
		}
		if len(c.PutF) > 0 {
			out.count(key + ":with-put-faults")
		}
		nontriv := len(uni) >= 2 && (o.nPins > 0 || o.class == 2)
		out.add(vC13CaseTerm(&c, stream, uni, rootIdx, o, nil), c,
			map[string]interface{}{"ok": o.ok, "class": o.class, "err": o.errMsg, "puts": o.nPuts, "pins": o.nPins, "shards": o.nShards}, nontriv)
	}
}

func TestVerifC13Shard(t *testing.T)  { vC13RunSynthTest(t, true, "C13_shard", 0) }
func TestVerifC13Single(t *testing.T) { vC13RunSynthTest(t, false, "C13_single", 200000) }
