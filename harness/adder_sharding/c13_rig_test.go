//go:build verif

package sharding

// C13 rig: the real DAG services (sharding, single) and the real BlockAdder behind recording
// Cluster.BlockAllocate / Cluster.Pin / IPFSConnector.BlockPut services whose outcomes are scripted
// by the case (allocation results, put faults per (round, destination), pin faults).
//
// The gorpc client is local (host == nil), so every destination reaches the same server. The
// destination of each call and the identity of the MultiCall it belongs to are recovered through a
// server stats handler: gorpc hands the *rpc.Call (exported Dest, Args) to HandleRPC(InPayload), and
// every call of one BlockAdder.Add shares one *api.NodeWithMeta argument pointer.

import (
	"context"
	"errors"
	"fmt"
	"reflect"
	"sort"
	"strconv"
	"strings"
	"sync"
	"time"

	"github.com/ipfs/ipfs-cluster/adder"
	"github.com/ipfs/ipfs-cluster/adder/single"
	"github.com/ipfs/ipfs-cluster/api"
	"github.com/ipfs/ipfs-cluster/test"

	cid "github.com/ipfs/go-cid"
	ipld "github.com/ipfs/go-ipld-format"
	logging "github.com/ipfs/go-log/v2"
	merkledag "github.com/ipfs/go-merkledag"
	peer "github.com/libp2p/go-libp2p-core/peer"
	rpc "github.com/libp2p/go-libp2p-gorpc"
	rpcstats "github.com/libp2p/go-libp2p-gorpc/stats"
)

const vC13MetaBase = 1000000

var vC13Peers = []peer.ID{"", test.PeerID1, test.PeerID2, test.PeerID3, test.PeerID4, test.PeerID5, test.PeerID6}

func vC13PeerIdx(p peer.ID) int {
	for i, q := range vC13Peers {
		if p == q {
			return i
		}
	}
	return 99
}

func vC13PeerList(xs []int) []peer.ID {
	out := make([]peer.ID, 0, len(xs))
	for _, x := range xs {
		if x >= 0 && x < len(vC13Peers) {
			out = append(out, vC13Peers[x])
		}
	}
	return out
}

// ---- case description (JSON, sufficient to re-run) ----
type vC13Item struct {
	ID    int   `json:"id"`
	Size  int   `json:"size"`
	N     int   `json:"n,omitempty"`     // run of n fresh nodes id, id+1, ... (no links)
	Links []int `json:"links,omitempty"` // ids of earlier items (a dag-pb node is built)
}

type vC13Fault struct {
	Round int `json:"round"`
	Dest  int `json:"dest"`
	Kind  int `json:"kind"` // 1 = error from the daemon, 2 = gorpc server error, 3 = gorpc client error
}

type vC13Case struct {
	Kind   string      `json:"kind"` // generator stream (distribution only)
	Shard  bool        `json:"shard"`
	Local  bool        `json:"local"`
	Rmin   int         `json:"rmin"`
	Rmax   int         `json:"rmax"`
	Limit  int         `json:"limit"`
	Allocs [][]int     `json:"allocs"` // k-th BlockAllocate answers allocs[k mod len]; an entry containing -1 is an error
	PutF   []vC13Fault `json:"putf"`
	PinF   []int       `json:"pinf"`
	Items  []vC13Item  `json:"items"`
	Root   int         `json:"root"` // index into the expanded stream; out of range = last block
	Abort  bool        `json:"-"`    // observed: the importer gave up after a successful last Add (real-tree runs only)
}

var (
	vC13ErrIpfs  = errors.New("vc13: daemon refused the block")
	vC13ErrAlloc = errors.New("vc13: allocation failed")
	vC13ErrPin   = errors.New("vc13: pin failed")
)

type vC13Ev struct {
	kind  int // 0 alloc, 1 put, 2 pin
	c     cid.Cid
	dests []int
	pin   *api.Pin
}

type vC13CallInfo struct{ call *rpc.Call }
type vC13CtxKey struct{}

type vC13Rig struct {
	mu      sync.Mutex
	cs      *vC13Case
	opts    api.PinOptions
	events  []*vC13Ev
	rounds  map[*api.NodeWithMeta]int
	roundEv []*vC13Ev
	nAlloc  int
	nPin    int
	// blocks that reached a daemon (outcome nil), with the put data
	delivered map[string][]byte
	metaIdx   map[string]int
	metaOrder []string
	metaData  map[string][]byte
	srvErr    error
	cliErr    error
	client    *rpc.Client
	direct    []string
}

// stats handler: carries the *rpc.Call to the service through the context
func (r *vC13Rig) TagRPC(ctx context.Context, _ *rpcstats.RPCTagInfo) context.Context {
	return context.WithValue(ctx, vC13CtxKey{}, &vC13CallInfo{})
}

func (r *vC13Rig) HandleRPC(ctx context.Context, s rpcstats.RPCStats) {
	if ip, ok := s.(*rpcstats.InPayload); ok {
		if ci, ok2 := ctx.Value(vC13CtxKey{}).(*vC13CallInfo); ok2 {
			if c, ok3 := ip.Payload.(*rpc.Call); ok3 {
				ci.call = c
			}
		}
	}
}

type vC13Cluster struct{ r *vC13Rig }
type vC13IPFS struct{ r *vC13Rig }

func (s *vC13Cluster) BlockAllocate(ctx context.Context, in *api.Pin, out *[]peer.ID) error {
	r := s.r
	r.mu.Lock()
	defer r.mu.Unlock()
	k := r.nAlloc
	r.nAlloc++
	r.events = append(r.events, &vC13Ev{kind: 0})
	if in.Cid.Defined() || !reflect.DeepEqual(vC13Norm(in.PinOptions), vC13Norm(r.opts)) {
		r.direct = append(r.direct, "BlockAllocate called with unexpected pin/options")
	}
	if len(r.cs.Allocs) == 0 {
		return vC13ErrAlloc
	}
	a := r.cs.Allocs[k%len(r.cs.Allocs)]
	for _, x := range a {
		if x < 0 {
			return vC13ErrAlloc
		}
	}
	*out = vC13PeerList(a) // never nil
	return nil
}

func (s *vC13Cluster) Pin(ctx context.Context, in *api.Pin, out *api.Pin) error {
	r := s.r
	r.mu.Lock()
	defer r.mu.Unlock()
	k := r.nPin
	r.nPin++
	cp := *in
	r.events = append(r.events, &vC13Ev{kind: 2, c: in.Cid, pin: &cp})
	for _, f := range r.cs.PinF {
		if f == k {
			return vC13ErrPin
		}
	}
	*out = *in
	return nil
}

func (s *vC13IPFS) BlockPut(ctx context.Context, in *api.NodeWithMeta, out *struct{}) error {
	r := s.r
	ci, _ := ctx.Value(vC13CtxKey{}).(*vC13CallInfo)
	r.mu.Lock()
	defer r.mu.Unlock()
	if ci == nil || ci.call == nil {
		r.direct = append(r.direct, "BlockPut without call information")
		return nil
	}
	ptr, _ := ci.call.Args.(*api.NodeWithMeta)
	d := vC13PeerIdx(ci.call.Dest)
	rd, ok := r.rounds[ptr]
	if !ok {
		rd = len(r.roundEv)
		r.rounds[ptr] = rd // the pointer stays referenced, so its address is never reused
		ev := &vC13Ev{kind: 1, c: in.Cid}
		r.roundEv = append(r.roundEv, ev)
		r.events = append(r.events, ev)
	}
	ev := r.roundEv[rd]
	ev.dests = append(ev.dests, d)
	if !ev.c.Equals(in.Cid) {
		r.direct = append(r.direct, "one MultiCall carried two different CIDs")
	}
	kind := 0
	for _, f := range r.cs.PutF {
		if f.Round == rd && f.Dest == d {
			kind = f.Kind
			break
		}
	}
	r.noteData(in)
	switch kind {
	case 0:
		key := in.Cid.KeyString()
		if _, seen := r.delivered[key]; !seen {
			r.delivered[key] = r.metaData[key]
		}
		return nil
	case 1:
		return vC13ErrIpfs
	case 3:
		return r.cliErr
	default:
		return r.srvErr
	}
}

// the data of a node is remembered even when its put failed, only to decode the CBOR nodes of the trace
func (r *vC13Rig) noteData(in *api.NodeWithMeta) {
	key := in.Cid.KeyString()
	if _, seen := r.metaData[key]; !seen {
		r.metaData[key] = append([]byte{}, in.Data...)
	}
}

func vC13Norm(o api.PinOptions) api.PinOptions {
	o.Mode = 0
	if len(o.UserAllocations) == 0 {
		o.UserAllocations = nil
	}
	if len(o.Metadata) == 0 {
		o.Metadata = nil
	}
	if len(o.Origins) == 0 {
		o.Origins = nil
	}
	return o
}

func vC13RPCErrors() (srv, cli error) {
	s := rpc.NewServer(nil, "vc13e")
	c := rpc.NewClientWithServer(nil, "vc13e", s)
	srv = c.Call("", "NoSuchService", "X", &struct{}{}, &struct{}{})
	c2 := rpc.NewClient(nil, "vc13e")
	cli = c2.Call("", "NoSuchService", "X", &struct{}{}, &struct{}{})
	if !rpc.IsRPCError(srv) || !rpc.IsRPCError(cli) {
		panic("vc13: cannot obtain gorpc error values")
	}
	return
}

var vC13SrvErr, vC13CliErr error
var vC13Once sync.Once

func vC13NewRig(cs *vC13Case) *vC13Rig {
	vC13Once.Do(func() {
		logging.SetAllLoggers(logging.LevelFatal)
		vC13SrvErr, vC13CliErr = vC13RPCErrors()
	})
	r := &vC13Rig{cs: cs, rounds: map[*api.NodeWithMeta]int{}, delivered: map[string][]byte{},
		metaIdx: map[string]int{}, metaData: map[string][]byte{}, srvErr: vC13SrvErr, cliErr: vC13CliErr}
	r.opts = api.PinOptions{
		ReplicationFactorMin: cs.Rmin,
		ReplicationFactorMax: cs.Rmax,
		Name:                 "vbase",
		Mode:                 api.PinModeDirect, // the services must force recursive
		ShardSize:            uint64(cs.Limit),
		UserAllocations:      []peer.ID{test.PeerID6},
		ExpireAt:             time.Unix(1900000000, 0).UTC(),
		Metadata:             map[string]string{"k1": "v1", "k2": ""},
	}
	srv := rpc.NewServer(nil, "vc13", rpc.WithServerStatsHandler(r))
	if err := srv.RegisterName("Cluster", &vC13Cluster{r}); err != nil {
		panic(err)
	}
	if err := srv.RegisterName("IPFSConnector", &vC13IPFS{r}); err != nil {
		panic(err)
	}
	r.client = rpc.NewClientWithServer(nil, "vc13", srv)
	return r
}

// ---- synthetic importer stream ----
type vC13Block struct {
	node    ipld.Node
	idx     int  // canonical number of the CID (first appearance, from 1)
	swallow bool // the importer went on after DAGService.Add returned an error for this block
}

func vC13Data(id, size int) []byte {
	b := make([]byte, size)
	x := uint64(id)*0x9E3779B97F4A7C15 + 0x5851F42D4C957F2D
	for k := 0; k < size; k++ {
		if k < 4 {
			b[k] = byte(id >> (8 * uint(k)))
		} else {
			x ^= x << 13
			x ^= x >> 7
			x ^= x << 17
			b[k] = byte(x)
		}
	}
	return b
}

// expands the items into nodes; returns the stream, the universe (cid key -> idx) and the root
func vC13Stream(cs *vC13Case) ([]vC13Block, map[string]int, cid.Cid, int) {
	uni := map[string]int{}
	byID := map[int]ipld.Node{}
	var out []vC13Block
	push := func(id int, nd ipld.Node) {
		byID[id] = nd
		k := nd.Cid().KeyString()
		ix, ok := uni[k]
		if !ok {
			ix = len(uni) + 1
			uni[k] = ix
		}
		out = append(out, vC13Block{node: nd, idx: ix})
	}
	for _, it := range cs.Items {
		size := it.Size
		if size < 0 {
			size = 0
		}
		if size > 1<<20 {
			size = 1 << 20
		}
		n := it.N
		if n < 1 {
			n = 1
		}
		if n > 40000 {
			n = 40000
		}
		if n > 1 || len(it.Links) == 0 {
			for k := 0; k < n; k++ {
				push(it.ID+k, merkledag.NewRawNode(vC13Data(it.ID+k, size)))
			}
			continue
		}
		pn := merkledag.NodeWithData(vC13Data(it.ID, size))
		for li, l := range it.Links {
			if ch, ok := byID[l]; ok {
				_ = pn.AddRawLink(strconv.Itoa(li), &ipld.Link{Cid: ch.Cid(), Size: 1})
			}
		}
		push(it.ID, pn)
	}
	if len(out) == 0 {
		nd := merkledag.NewRawNode([]byte("vc13-absent-root"))
		uni[nd.Cid().KeyString()] = 1 // numbered, although it is not part of the (empty) stream
		return out, uni, nd.Cid(), 1
	}
	ri := cs.Root
	if ri < 0 || ri >= len(out) {
		ri = len(out) - 1
	}
	return out, uni, out[ri].node.Cid(), out[ri].idx
}

// ---- running one case ----
type vC13Obs struct {
	resTerm string
	ok      bool
	class   int
	errMsg  string
	evTerms []string
	putIdx  [][2]int // (position in evTerms, cid index) of every OPut
	putDs   []string
	tbl     []string
	nPuts   int
	nPins   int
	nShards int
	maxNode int
	direct  []string
}

func (r *vC13Rig) idx(uni map[string]int, c cid.Cid) int {
	k := c.KeyString()
	if ix, ok := uni[k]; ok {
		return ix
	}
	if ix, ok := r.metaIdx[k]; ok {
		return ix
	}
	ix := vC13MetaBase + len(r.metaOrder)
	r.metaIdx[k] = ix
	r.metaOrder = append(r.metaOrder, k)
	return ix
}

func vC13ErrClass(err error) int {
	switch {
	case err == vC13ErrAlloc:
		return 1
	case err == adder.ErrBlockAdder:
		return 2
	case err == vC13ErrPin:
		return 3
	default:
		return 4
	}
}

func vC13PinName(n string) string {
	switch {
	case n == "vbase":
		return "NBase"
	case n == "vbase-clusterDAG":
		return "NClusterDAG"
	case strings.HasPrefix(n, "vbase-shard-"):
		if k, err := strconv.Atoi(n[len("vbase-shard-"):]); err == nil && k >= 0 {
			return fmt.Sprintf("(NShard %d)", k)
		}
	}
	return "NOther"
}

func vC13PinType(t api.PinType) string {
	switch t {
	case api.DataType:
		return "TData"
	case api.MetaType:
		return "TMeta"
	case api.ClusterDAGType:
		return "TClusterDAG"
	case api.ShardType:
		return "TShard"
	}
	return "TBad"
}

// obsTerms turns the recorded events into Gallina (after the run)
func (r *vC13Rig) obsTerms(uni map[string]int, root cid.Cid, err error, panicked bool) *vC13Obs {
	o := &vC13Obs{}
	for _, ev := range r.events {
		switch ev.kind {
		case 0:
			o.evTerms = append(o.evTerms, "OAlloc")
		case 1:
			o.nPuts++
			ds := append([]int{}, ev.dests...)
			sort.Ints(ds)
			o.evTerms = append(o.evTerms, fmt.Sprintf("OPut %d %s", r.idx(uni, ev.c), cqListN(ds)))
			o.putIdx = append(o.putIdx, [2]int{len(o.evTerms) - 1, r.idx(uni, ev.c)})
			o.putDs = append(o.putDs, cqListN(ds))
		case 2:
			o.nPins++
			p := ev.pin
			if p.Type == api.ShardType {
				o.nShards++
			}
			ref := "None"
			if p.Reference != nil && p.Reference.Defined() {
				ref = fmt.Sprintf("(Some %d)", r.idx(uni, *p.Reference))
			}
			al := []int{}
			for _, a := range p.Allocations {
				al = append(al, vC13PeerIdx(a))
			}
			want := vC13Norm(r.opts)
			got := vC13Norm(p.PinOptions)
			kept := p.Mode == api.PinModeRecursive && reflect.DeepEqual(got.UserAllocations, want.UserAllocations) &&
				got.ExpireAt.Equal(want.ExpireAt) && reflect.DeepEqual(got.Metadata, want.Metadata) &&
				got.PinUpdate.Equals(want.PinUpdate) && len(got.Origins) == 0
			o.evTerms = append(o.evTerms, fmt.Sprintf("OPin %d %s %s %s %s %s %s %s %d %s", r.idx(uni, p.Cid), vC13PinType(p.Type),
				vC13PinName(p.Name), cqListN(al), cqZ(int64(p.MaxDepth)), ref, cqZ(int64(p.ReplicationFactorMin)),
				cqZ(int64(p.ReplicationFactorMax)), p.ShardSize, cqBool(kept)))
		}
	}
	switch {
	case panicked:
		o.class = 5
		o.resTerm = "OErr 5"
	case err != nil:
		o.class = vC13ErrClass(err)
		o.errMsg = err.Error()
		o.resTerm = fmt.Sprintf("OErr %d", o.class)
	default:
		o.ok = true
		o.resTerm = fmt.Sprintf("OOk %d", r.idx(uni, root))
	}
	// link table of every non-stream CID that was put (decoded as the CBOR nodes the adder builds);
	// decoding can introduce new CIDs, so iterate until closed
	for i := 0; i < len(r.metaOrder); i++ {
		k := r.metaOrder[i]
		data, ok := r.metaData[k]
		if !ok {
			continue
		}
		nd, derr := CborDataToNode(data, "cbor")
		if derr != nil || nd.Cid().KeyString() != k {
			continue
		}
		n := len(nd.Links())
		if n > o.maxNode {
			o.maxNode = n
		}
		ls := make([]int, 0, n)
		bad := false
		for j := 0; j < n; j++ {
			l, _, lerr := nd.ResolveLink([]string{strconv.Itoa(j)})
			if lerr != nil {
				bad = true
				break
			}
			ls = append(ls, r.idx(uni, l.Cid))
		}
		if bad {
			continue
		}
		o.tbl = append(o.tbl, fmt.Sprintf("(%d, %s)", vC13MetaBase+i, vC13RangeList(ls)))
	}
	o.direct = r.direct
	return o
}

func (r *vC13Rig) newService() adder.ClusterDAGService {
	if r.cs.Shard {
		return New(r.client, r.opts, nil)
	}
	return single.New(r.client, r.opts, r.cs.Local)
}

// vC13RunSynth drives the real DAG service with the synthetic stream exactly as Adder.FromFiles does:
// Add every node in order, stop at the first error, Finalize with the root otherwise.
func vC13RunSynth(cs *vC13Case) (o *vC13Obs, stream []vC13Block, uni map[string]int, rootIdx int) {
	r := vC13NewRig(cs)
	stream, uni, root, rootIdx := vC13Stream(cs)
	var err error
	var got cid.Cid
	panicked := false
	func() {
		defer func() {
			if x := recover(); x != nil {
				panicked = true
			}
		}()
		ctx := context.Background()
		dgs := r.newService()
		for _, b := range stream {
			if err = dgs.Add(ctx, b.node); err != nil {
				return
			}
		}
		got, err = dgs.Finalize(ctx, root)
	}()
	o = r.obsTerms(uni, got, err, panicked)
	return o, stream, uni, rootIdx
}

func vC13InputTerm(cs *vC13Case, stream []vC13Block, uni map[string]int, rootIdx int) string {
	als := make([]string, len(cs.Allocs))
	for i, a := range cs.Allocs {
		bad := false
		for _, x := range a {
			if x < 0 {
				bad = true
			}
		}
		if bad {
			als[i] = "None"
		} else {
			als[i] = "(Some " + cqListN(vC13Clamp(a)) + ")"
		}
	}
	fs := make([]string, len(cs.PutF))
	for i, f := range cs.PutF {
		k := "PRpc"
		if f.Kind == 1 {
			k = "PIpfs"
		} else if f.Kind == 0 {
			k = "POk"
		}
		fs[i] = fmt.Sprintf("(%d, %d, %s)", vC13Nat(f.Round), vC13Nat(f.Dest), k)
	}
	pf := []int{}
	for _, p := range cs.PinF {
		if p >= 0 {
			pf = append(pf, p)
		}
	}
	type sblk struct {
		idx, size int
		links     []int
		sw        bool
	}
	bl := make([]sblk, len(stream))
	for i, b := range stream {
		var ls []int
		for _, l := range b.node.Links() {
			if ix, ok := uni[l.Cid.KeyString()]; ok {
				ls = append(ls, ix)
			} else {
				ls = append(ls, vC13MetaBase-1) // a link that leaves the stream
			}
		}
		bl[i] = sblk{b.idx, len(b.node.RawData()), ls, b.swallow}
	}
	var parts []string
	var lit []string
	flush := func() {
		if len(lit) > 0 {
			parts = append(parts, cqList(lit))
			lit = nil
		}
	}
	for i := 0; i < len(bl); {
		j := i
		for j+1 < len(bl) && len(bl[j+1].links) == 0 && len(bl[i].links) == 0 && !bl[i].sw && !bl[j+1].sw &&
			bl[j+1].idx == bl[j].idx+1 && bl[j+1].size == bl[i].size {
			j++
		}
		if j-i+1 >= 8 {
			flush()
			parts = append(parts, fmt.Sprintf("bseg %d %d %d", bl[i].idx, j-i+1, bl[i].size))
			i = j + 1
			continue
		}
		mk := "mkb"
		if bl[i].sw {
			mk = "mkbs"
		}
		lit = append(lit, fmt.Sprintf("%s %d %d %s", mk, bl[i].idx, bl[i].size, cqListN(bl[i].links)))
		i++
	}
	flush()
	streamTerm := "[]"
	if len(parts) > 0 {
		streamTerm = "(" + strings.Join(parts, " ++ ") + ")"
	}
	return fmt.Sprintf("mk_input %s %s %s %d %d %s %s %s %s %s %d %s", cqBool(cs.Shard), cqZ(int64(cs.Rmin)), cqZ(int64(cs.Rmax)),
		vC13Nat(cs.Limit), MaxLinks, cqBool(cs.Local), cqList(als), cqList(fs), cqListN(pf), streamTerm, rootIdx, cqBool(cs.Abort))
}

func vC13Nat(x int) int {
	if x < 0 {
		return 0
	}
	return x
}

func vC13Clamp(a []int) []int {
	out := []int{}
	for _, x := range a {
		if x >= 0 && x < len(vC13Peers) {
			out = append(out, x)
		}
	}
	return out
}

func vC13Normalize(cs *vC13Case) {
	if cs.Limit < 0 {
		cs.Limit = 0
	}
	for i := range cs.Allocs {
		bad := false
		for _, x := range cs.Allocs[i] {
			if x < 0 {
				bad = true
			}
		}
		if bad {
			cs.Allocs[i] = []int{-1}
		} else {
			cs.Allocs[i] = vC13Clamp(cs.Allocs[i])
		}
	}
	for i := range cs.PutF {
		cs.PutF[i].Round = vC13Nat(cs.PutF[i].Round)
		cs.PutF[i].Dest = vC13Nat(cs.PutF[i].Dest)
		if cs.PutF[i].Kind < 0 || cs.PutF[i].Kind > 3 {
			cs.PutF[i].Kind = 2
		}
	}
}

const vC13Header = "From V Require Import Base.Common Model.C13_Adder Model.C13_Check.\nOpen Scope N_scope."
const vC13Footer = "Definition R := Eval vm_compute in failing cases.\nPrint R."

// vC13RangeList prints a list of numbers, runs of >= 8 consecutive values as `nrange a n`
func vC13RangeList(xs []int) string {
	var parts []string
	var lit []int
	flush := func() {
		if len(lit) > 0 {
			parts = append(parts, cqListN(lit))
			lit = nil
		}
	}
	for i := 0; i < len(xs); {
		j := i
		for j+1 < len(xs) && xs[j+1] == xs[j]+1 {
			j++
		}
		if j-i+1 >= 8 {
			flush()
			parts = append(parts, fmt.Sprintf("nrange %d %d", xs[i], j-i+1))
			i = j + 1
			continue
		}
		lit = append(lit, xs[i])
		i++
	}
	flush()
	if len(parts) == 0 {
		return "[]"
	}
	return "(" + strings.Join(parts, " ++ ") + ")"
}

// vC13EventList prints the observed events, runs of >= 8 puts of consecutive CIDs to the same destinations as `oputs c n ds`
func vC13EventList(o *vC13Obs) string {
	isPut := map[int]int{}
	for k, pi := range o.putIdx {
		isPut[pi[0]] = k
	}
	var parts []string
	var lit []string
	flush := func() {
		if len(lit) > 0 {
			parts = append(parts, cqList(lit))
			lit = nil
		}
	}
	for i := 0; i < len(o.evTerms); {
		k, ok := isPut[i]
		if ok {
			j := i
			kj := k
			for {
				k2, ok2 := isPut[j+1]
				if !ok2 || o.putIdx[k2][1] != o.putIdx[kj][1]+1 || o.putDs[k2] != o.putDs[k] {
					break
				}
				j, kj = j+1, k2
			}
			if j-i+1 >= 8 {
				flush()
				parts = append(parts, fmt.Sprintf("oputs %d %d %s", o.putIdx[k][1], j-i+1, o.putDs[k]))
				i = j + 1
				continue
			}
		}
		lit = append(lit, o.evTerms[i])
		i++
	}
	flush()
	if len(parts) == 0 {
		return "[]"
	}
	return "(" + strings.Join(parts, " ++ ") + ")"
}

func vC13CaseTerm(cs *vC13Case, stream []vC13Block, uni map[string]int, rootIdx int, o *vC13Obs, flags []int) string {
	return fmt.Sprintf("(%s, (%s, %s, %s), %s)", vC13InputTerm(cs, stream, uni, rootIdx), o.resTerm, vC13EventList(o), cqList(o.tbl), cqListN(flags))
}
