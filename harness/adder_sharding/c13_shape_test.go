//go:build verif

package sharding

// C13 part (iii): the SHAPE of the DAG the real importer builds for ONE file, against the Coq model of the size
// chunker and of the balanced / trickle layouts (coq/Model/C13_Importer.v).
//
// A single file of a generated size goes through the real Adder (adder.New(...).FromFiles -> ipfsadd -> go-unixfs
// balanced.Layout / trickle.Layout -> DAGService.Add of the real single DAG service behind the recording rig).
// The links-per-block of the importer is the package variable helpers.DefaultLinksPerBlock, which ipfsadd reads at every
// add: the harness lowers it to 2..5 to reach depth 3-4 with a few hundred bytes, and also uses the shipped 174.
// Recorded, in the order of DAGService.Add, up to the first occurrence of the returned root: for every block the number of
// its CID (first appearance), its links (number of the target's CID, UnixFS blocksize recorded at that position), the length
// of the chunk it carries and (small files) the chunk. Coq compares this with the model's emission (code 1) and applies
// the boolean content clause to the observed DAG (codes 30..33).
// Not compared (abstracted): the encoding of a leaf (raw node / dag-pb + UnixFS TFile / TRaw), the CID version and hash,
// the dag-pb Tsize of a link. Decoding is done by go-merkledag and go-unixfs (trusted here).

import (
	"encoding/json"
	"fmt"
	"os"
	"strings"
	"testing"
	"time"

	cid "github.com/ipfs/go-cid"
	ipld "github.com/ipfs/go-ipld-format"
	merkledag "github.com/ipfs/go-merkledag"
	unixfs "github.com/ipfs/go-unixfs"
	ihelper "github.com/ipfs/go-unixfs/importer/helpers"
)

type vC13SCase struct {
	Kind      string `json:"kind"`
	Layout    string `json:"layout"` // "balanced" | "trickle"
	MaxLinks  int    `json:"maxlinks"`
	Chunk     int    `json:"chunk"`
	Size      int    `json:"size"`
	Seed      int    `json:"seed"` // 0: all zero bytes (identical chunks, shared sub-DAGs)
	RawLeaves bool   `json:"raw_leaves"`
	CidV      int    `json:"cid_version"`
	Shard     bool   `json:"shard"` // the sharding DAG service instead of the single one (same importer stream)
	Multipart bool   `json:"multipart,omitempty"` // Adder.FromMultipart instead of FromFiles
}

const vC13SMaxSize = 600000
const vC13SDataMax = 1024 // chunks are recorded (and compared byte for byte in Coq) up to this file size
const vC13SWatchdog = 30 * time.Second // the largest case takes well under a second

func vC13SNormalize(c *vC13SCase) {
	if c.Layout != "trickle" {
		c.Layout = "balanced"
	}
	if c.MaxLinks < 2 {
		c.MaxLinks = 2 // balanced.Layout does not terminate with fewer than 2 links per block (Props: balanced_one_link_diverges)
	}
	if c.MaxLinks > 400 {
		c.MaxLinks = 400
	}
	if c.Chunk < 1 {
		c.Chunk = 1
	}
	if c.Chunk > 4096 {
		c.Chunk = 4096
	}
	if c.Size < 0 {
		c.Size = 0
	}
	if c.Size > vC13SMaxSize {
		c.Size = vC13SMaxSize
	}
	if c.Seed < 0 {
		c.Seed = -c.Seed
	}
	if c.CidV != 1 {
		c.CidV = 0
	}
}

type vC13SBlock struct {
	id    int
	links [][2]int // target id, recorded size
	dlen  int
	data  []byte
}

// the blocks handed to DAGService.Add up to the first occurrence of root
func vC13ShapeOf(nodes []ipld.Node, root cid.Cid, withData bool) (blocks []vC13SBlock, rootID int, rsize int, flags []int) {
	uni := map[string]int{}
	flag := func(k int) {
		for _, x := range flags {
			if x == k {
				return
			}
		}
		flags = append(flags, k)
	}
	found := false
	for _, nd := range nodes {
		k := nd.Cid().KeyString()
		id, ok := uni[k]
		if !ok {
			id = len(uni) + 1
			uni[k] = id
		}
		b := vC13SBlock{id: id}
		var fsize uint64
		switch n := nd.(type) {
		case *merkledag.RawNode:
			d := n.RawData()
			b.dlen = len(d)
			b.data = d
			fsize = uint64(len(d))
		case *merkledag.ProtoNode:
			fsn, err := unixfs.FSNodeFromBytes(n.Data())
			if err != nil {
				flag(35)
				break
			}
			d := fsn.Data()
			b.dlen = len(d)
			b.data = d
			fsize = fsn.FileSize()
			sizes := fsn.BlockSizes()
			links := n.Links()
			if len(sizes) != len(links) {
				flag(34)
			}
			for i, l := range links {
				tid, ok := uni[l.Cid.KeyString()]
				if !ok {
					tid = 900000 + i // a link to a block never handed to the DAG service: code 30 in Coq
				}
				sz := 0
				if i < len(sizes) {
					sz = int(sizes[i])
				}
				b.links = append(b.links, [2]int{tid, sz})
			}
		default:
			flag(35)
		}
		if !withData {
			b.data = nil
		}
		blocks = append(blocks, b)
		if nd.Cid().Equals(root) {
			found = true
			rootID = id
			rsize = int(fsize)
			break
		}
	}
	if !found {
		flag(35)
	}
	return
}

func vC13SBytes(d []byte) string {
	s := make([]string, len(d))
	for i, x := range d {
		s[i] = fmt.Sprint(int(x))
	}
	return "[" + strings.Join(s, "; ") + "]"
}

// links: runs of >= 4 links with the same recorded size and consecutive (step 1) or equal (step 0) targets as `lseg a n step sz`
func vC13SLinks(ls [][2]int) string {
	if len(ls) == 0 {
		return "[]"
	}
	var parts []string
	var lit []string
	flush := func() {
		if len(lit) > 0 {
			parts = append(parts, "["+strings.Join(lit, "; ")+"]")
			lit = nil
		}
	}
	for i := 0; i < len(ls); {
		best, bestStep := 1, 0
		for _, step := range []int{0, 1} {
			j := i + 1
			for j < len(ls) && ls[j][1] == ls[i][1] && ls[j][0] == ls[i][0]+step*(j-i) {
				j++
			}
			if j-i > best {
				best, bestStep = j-i, step
			}
		}
		if best >= 4 {
			flush()
			parts = append(parts, fmt.Sprintf("lseg %d %d %d %d", ls[i][0], best, bestStep, ls[i][1]))
			i += best
			continue
		}
		lit = append(lit, fmt.Sprintf("(%d, %d)", ls[i][0], ls[i][1]))
		i++
	}
	flush()
	return "(" + strings.Join(parts, " ++ ") + ")"
}

// blocks: runs of >= 4 leaves without recorded data, same length, consecutive or equal ids as `oleaves a n step dlen`
func vC13SBlocks(bs []vC13SBlock, withData bool) string {
	if len(bs) == 0 {
		return "[]"
	}
	var parts []string
	var lit []string
	flush := func() {
		if len(lit) > 0 {
			parts = append(parts, "["+strings.Join(lit, "; ")+"]")
			lit = nil
		}
	}
	plain := func(b vC13SBlock) bool { return len(b.links) == 0 && !withData }
	for i := 0; i < len(bs); {
		if plain(bs[i]) {
			best, bestStep := 1, 0
			for _, step := range []int{0, 1} {
				j := i + 1
				for j < len(bs) && plain(bs[j]) && bs[j].dlen == bs[i].dlen && bs[j].id == bs[i].id+step*(j-i) {
					j++
				}
				if j-i > best {
					best, bestStep = j-i, step
				}
			}
			if best >= 4 {
				flush()
				parts = append(parts, fmt.Sprintf("oleaves %d %d %d %d", bs[i].id, best, bestStep, bs[i].dlen))
				i += best
				continue
			}
		}
		data := "None"
		if withData {
			data = "(Some " + vC13SBytes(bs[i].data) + ")"
		}
		lit = append(lit, fmt.Sprintf("OB %d %s %d %s", bs[i].id, vC13SLinks(bs[i].links), bs[i].dlen, data))
		i++
	}
	flush()
	return "(" + strings.Join(parts, " ++ ") + ")"
}

// capacity (in chunks) of a trickle sub-tree made with maxDepth d, and of a balanced tree of depth d
func vC13SPow(ml, d int) int {
	x := 1
	for ; d > 0; d-- {
		x *= ml
		if x > 1<<24 {
			return 1 << 24
		}
	}
	return x
}
func vC13STrickleCap(ml, d int) int {
	// cap(1) = ml; cap(d) = ml + depthRepeat * (cap(1) + ... + cap(d-1))
	caps := []int{}
	for j := 1; j <= d; j++ {
		s := ml
		for _, c := range caps {
			s += 4 * c
		}
		if s > 1<<24 {
			s = 1 << 24
		}
		caps = append(caps, s)
	}
	return caps[d-1]
}

func vC13SGen(r *vRand, i int) vC13SCase {
	c := vC13SCase{Kind: "boundary", Layout: []string{"balanced", "trickle"}[r.intn(2)]}
	switch x := r.intn(100); {
	case x < 22:
		c.MaxLinks = 2
	case x < 44:
		c.MaxLinks = 3
	case x < 54:
		c.MaxLinks = 4
	case x < 62:
		c.MaxLinks = 5
	default:
		c.MaxLinks = ihelper.DefaultLinksPerBlock // 174, also when another test changed it: restored after every case
	}
	if c.MaxLinks > 5 {
		c.Chunk = []int{16, 16, 16, 64, 100}[r.intn(5)]
	} else {
		c.Chunk = []int{1, 2, 3, 4, 7, 16, 16, 64}[r.intn(8)]
	}
	c.Seed = r.rng(0, 3) // 0 = zeros in one case out of four
	c.RawLeaves = r.chance(50)
	c.CidV = r.intn(2)
	c.Shard = r.chance(15)
	c.Multipart = r.chance(25)
	k, ml := c.Chunk, c.MaxLinks
	// thresholds in chunks: a full node, a full tree of depth 2, 3, 4 (balanced); a full leaf layer, 1, 2, 3 full layers (trickle)
	var thr []int
	for d := 1; d <= 4; d++ {
		t := vC13SPow(ml, d)
		if c.Layout == "trickle" {
			t = vC13STrickleCap(ml, d) // the root with its leaf layer and d-1 full layers holds as much as a sub-tree of maxDepth d
		}
		if t*k <= vC13SMaxSize-2*k-2 {
			thr = append(thr, t)
		}
	}
	switch x := r.intn(100); {
	case x < 18: // around the chunk size
		c.Kind = "chunk-boundary"
		c.Size = []int{0, 1, k - 1, k, k + 1, 2*k - 1, 2 * k, 2*k + 1, 3 * k}[r.intn(9)]
	case x < 70 && len(thr) > 0: // around a full node / tree / layer
		t := thr[r.intn(len(thr))]
		if ml > 5 && t > ml && !r.chance(12) {
			t = ml // the big trees of the shipped 174 links are expensive to evaluate: a few per run
		}
		c.Kind = "links-boundary"
		c.Size = t*k + []int{-k - 1, -k, -k + 1, -1, 0, 1, k - 1, k, k + 1}[r.intn(9)]
	case x < 82 && len(thr) > 0: // a multiple of a full sub-tree
		t := thr[r.intn(len(thr))]
		if ml > 5 {
			t = ml
		}
		c.Kind = "multiple"
		c.Size = t*k*r.rng(1, ml) + r.rng(-1, 1)
	default:
		c.Kind = "random"
		hi := 40 * k * ml
		if ml <= 5 {
			hi = vC13SPow(ml, 4) * k * 2
		}
		if hi > 60000 {
			hi = 60000
		}
		c.Size = r.rng(0, hi)
	}
	return c
}

const vC13SHeader = "From V Require Import Base.Common Model.C13_Importer Model.C13_ShapeCheck.\nOpen Scope N_scope."
const vC13SFooter = "Definition R := Eval vm_compute in failing cases.\nPrint R."

func TestVerifC13Shape(t *testing.T) {
	out := newVOut("C13_shape", vC13SHeader, "scase", vC13SFooter)
	out.idBase += 600000
	defer out.close()
	var cases []vC13SCase
	if raw := vCasesIn(); raw != nil {
		for _, b := range raw {
			var c vC13SCase
			if err := json.Unmarshal(b, &c); err != nil {
				t.Fatal(err)
			}
			cases = append(cases, c)
		}
	} else {
		r := newVRand(uint64(vEnvInt("VERIF_SEED", 1)) + 131313)
		n := vEnvInt("VERIF_N", 120)
		for i := 0; i < n; i++ {
			cases = append(cases, vC13SGen(r.fork(), i))
		}
	}
	shipped := ihelper.DefaultLinksPerBlock
	for _, c := range cases {
		c := c
		vC13SNormalize(&c)
		base, err := os.MkdirTemp(".", "vc13shape")
		if err != nil {
			t.Fatal(err)
		}
		fc := vC13FCase{Kind: "shape", Entries: []vC13FEntry{{Path: "single.dat", Size: c.Size, Seed: c.Seed}}, TopFile: true,
			Chunker: fmt.Sprintf("size-%d", c.Chunk), Layout: c.Layout, RawLeaves: c.RawLeaves, CidV: c.CidV, Hash: "sha2-256",
			Multipart: c.Multipart, Rmin: 1, Rmax: 1, Limit: 1 << 28, Allocs: [][]int{{1}}}
		tree, treeRoot, err := vC13WriteTree(base, &fc)
		if err != nil {
			t.Fatal(err)
		}
		ex := &vC13Expect{tree: tree, topName: "single.dat", topFile: "single.dat"}
		data := tree.files["single.dat"]
		ihelper.DefaultLinksPerBlock = c.MaxLinks
		// watchdog: a layout that does not terminate (balanced.Layout with fewer than 2 links per block stacks one-link nodes for
		// ever) must not hang the run: the case is reported (code 36) and the test ends, which ends the runaway goroutine
		ch := make(chan *vC13FRun, 1)
		go func() { ch <- vC13RunFiles(&fc, c.Shard, treeRoot, ex) }()
		var run *vC13FRun
		hung := false
		select {
		case run = <-ch:
		case <-time.After(vC13SWatchdog):
			hung = true
			run = &vC13FRun{rig: &vC13Rig{}}
		}
		if !hung {
			ihelper.DefaultLinksPerBlock = shipped
			os.RemoveAll(base)
		}

		withData := len(data) <= vC13SDataMax
		var blocks []vC13SBlock
		var flags []int
		rootID, rsize := 0, 0
		if hung {
			flags = append(flags, 36)
		} else if run.err != nil || run.panic_ || run.rec == nil {
			flags = append(flags, 35)
		} else {
			blocks, rootID, rsize, flags = vC13ShapeOf(run.rec.nodes, run.root, withData)
		}
		for _, d := range run.rig.direct {
			b, _ := json.Marshal(map[string]interface{}{"signature": "c13-rig", "detail": d, "case": map[string]interface{}{"input": c}})
			fmt.Printf("VERIF-DIRECT-VIOLATION %s\n", b)
		}
		lay := 0
		if c.Layout == "trickle" {
			lay = 1
		}
		bytesTerm := "None"
		if withData {
			bytesTerm = "(Some " + vC13SBytes(data) + ")"
		} else if c.Seed != 0 {
			// the file content is not shipped to Coq: only lengths are compared there (the model runs on zeros of the same size)
			out.count("shape:lengths-only")
		}
		term := fmt.Sprintf("(mk_sinput %d %d %d %d %s, (%s, %d, %d), %s)", lay, c.MaxLinks, c.Chunk, len(data), bytesTerm,
			vC13SBlocks(blocks, withData), rootID, rsize, cqListN(flags))
		nleaves, ninner, depth := 0, 0, 0
		for _, b := range blocks {
			if len(b.links) == 0 {
				nleaves++
			} else {
				ninner++
			}
		}
		for x := nleaves; x > 1; x = (x + c.MaxLinks - 1) / c.MaxLinks {
			depth++
		}
		out.count("shape:layout:" + c.Layout)
		out.count("shape:kind:" + c.Kind)
		out.count(fmt.Sprintf("shape:maxlinks:%d", c.MaxLinks))
		if c.Layout == "balanced" {
			out.count(fmt.Sprintf("shape:balanced-depth:%d", depth))
		}
		if c.Shard {
			out.count("shape:sharded")
		}
		if c.Multipart {
			out.count("shape:multipart")
		}
		out.add(term, c, map[string]interface{}{"blocks": len(blocks), "leaves": nleaves, "inner": ninner, "root": rootID, "rsize": rsize,
			"flags": flags, "err": fmt.Sprint(run.err)}, ninner >= 1)
		if hung {
			out.count("shape:watchdog")
			break
		}
	}
}
