//go:build verif

package sharding

// C13 part (iv): FILE TREES (no HAMT) through the real Adder, against the Coq model of the importer on a tree
// (coq/Model/C13_Tree.v): adder/ipfsadd/add.go (addFileNode / addDir / addFile / addNode / AddAllAndPin / outputDirs / PinRoot),
// go-mfs (Mkdir, PutNode -> Directory.AddChild, Directory.GetNode / sync / Flush, Root.Close), go-unixfs io.BasicDirectory,
// go-merkledag (links of a dag-pb node are kept sorted by name), go-ipfs-files serialfile (hidden entries are skipped).
//
// Recorded: EVERY node handed to DAGService.Add, in order: number of its CID (first appearance), whether it is a UnixFS
// directory, its links (name, number of the target's CID, recorded size = UnixFS blocksize for file nodes, dag-pb Tsize for
// directory links), the chunk it carries, the length of its encoding. Coq compares with the model (code 1: the walk phase
// exactly; the flush passes as a set with the same number of emissions, because go-mfs walks its cache of sub-directories in Go
// map order) and applies the content clause to the observed DAG (codes 40..44).
// Abstracted: encodings (dag-pb, UnixFS, raw leaves), CID version, hash; symlinks are not generated.

import (
	"encoding/json"
	"fmt"
	"os"
	"sort"
	"strings"
	"testing"
	"time"

	cid "github.com/ipfs/go-cid"
	ipld "github.com/ipfs/go-ipld-format"
	merkledag "github.com/ipfs/go-merkledag"
	unixfs "github.com/ipfs/go-unixfs"
	ihelper "github.com/ipfs/go-unixfs/importer/helpers"
)

type vC13TCase struct {
	Kind      string       `json:"kind"`
	Entries   []vC13FEntry `json:"entries"`
	TopFile   bool         `json:"top_file"`
	Wrap      bool         `json:"wrap"`
	Hidden    bool         `json:"hidden"`
	Multipart bool         `json:"multipart"`
	Layout    string       `json:"layout"`
	MaxLinks  int          `json:"maxlinks"`
	Chunk     int          `json:"chunk"`
	RawLeaves bool         `json:"raw_leaves"`
	CidV      int          `json:"cid_version"`
	Shard     bool         `json:"shard"`
}

type vC13TLink struct {
	name string
	tid  int
	size int
}
type vC13TBlock struct {
	id    int
	dir   bool
	links []vC13TLink
	dlen  int
	data  []byte
	bsz   int
}

func vC13TreeBlocks(nodes []ipld.Node) (blocks []vC13TBlock, uni map[string]int, flags []int) {
	uni = map[string]int{}
	flag := func(k int) {
		for _, x := range flags {
			if x == k {
				return
			}
		}
		flags = append(flags, k)
	}
	for _, nd := range nodes {
		k := nd.Cid().KeyString()
		id, ok := uni[k]
		if !ok {
			id = len(uni) + 1
			uni[k] = id
		}
		b := vC13TBlock{id: id, bsz: len(nd.RawData())}
		switch n := nd.(type) {
		case *merkledag.RawNode:
			b.data = n.RawData()
			b.dlen = len(b.data)
		case *merkledag.ProtoNode:
			fsn, err := unixfs.FSNodeFromBytes(n.Data())
			if err != nil {
				flag(45)
				break
			}
			links := n.Links()
			switch fsn.Type() {
			case unixfs.TDirectory:
				b.dir = true
				for i, l := range links {
					tid, ok := uni[l.Cid.KeyString()]
					if !ok {
						tid = 900000 + i
					}
					b.links = append(b.links, vC13TLink{l.Name, tid, int(l.Size)})
				}
			case unixfs.TFile, unixfs.TRaw:
				b.data = fsn.Data()
				b.dlen = len(b.data)
				sizes := fsn.BlockSizes()
				if len(sizes) != len(links) {
					flag(46)
				}
				for i, l := range links {
					tid, ok := uni[l.Cid.KeyString()]
					if !ok {
						tid = 900000 + i
					}
					sz := 0
					if i < len(sizes) {
						sz = int(sizes[i])
					}
					if l.Name != "" {
						flag(45)
					}
					b.links = append(b.links, vC13TLink{"", tid, sz})
				}
			default:
				flag(45) // HAMT shard, symlink, metadata: not expected
			}
		default:
			flag(45)
		}
		blocks = append(blocks, b)
	}
	return
}

func vC13TName(s string) string { return vC13SBytes([]byte(s)) }

func vC13TBlocksTerm(bs []vC13TBlock) string {
	parts := make([]string, len(bs))
	for i, b := range bs {
		ls := make([]string, len(b.links))
		for j, l := range b.links {
			ls[j] = fmt.Sprintf("(%s, %d, %d)", vC13TName(l.name), l.tid, l.size)
		}
		parts[i] = fmt.Sprintf("TB %d %s [%s] %d %s %d", b.id, cqBool(b.dir), strings.Join(ls, "; "), b.dlen, vC13SBytes(b.data), b.bsz)
	}
	return "[" + strings.Join(parts, ";\n   ") + "]"
}

// the tree on disk as a Gallina ftree: directories list their entries sorted by name (ioutil.ReadDir order)
type vC13TNode struct {
	dir  bool
	data []byte
	kids map[string]*vC13TNode
}

func vC13TBuild(c *vC13FCase) *vC13TNode {
	root := &vC13TNode{dir: true, kids: map[string]*vC13TNode{}}
	// replay vC13WriteTree's acceptance rules through its result: walk the entries again with Hidden = true
	cc := *c
	cc.Hidden = true
	base, _ := os.MkdirTemp(".", "vc13tb")
	exp, _, err := vC13WriteTree(base, &cc)
	os.RemoveAll(base)
	if err != nil {
		return root
	}
	put := func(p string, n *vC13TNode) {
		segs := strings.Split(p, "/")
		cur := root
		for i, s := range segs {
			if i == len(segs)-1 {
				if old, ok := cur.kids[s]; ok && old.dir && n.dir {
					return
				}
				cur.kids[s] = n
				return
			}
			nx, ok := cur.kids[s]
			if !ok {
				nx = &vC13TNode{dir: true, kids: map[string]*vC13TNode{}}
				cur.kids[s] = nx
			}
			cur = nx
		}
	}
	dirs := make([]string, 0)
	for d := range exp.dirs {
		dirs = append(dirs, d)
	}
	sort.Strings(dirs)
	for _, d := range dirs {
		put(d, &vC13TNode{dir: true, kids: map[string]*vC13TNode{}})
	}
	for p, data := range exp.files {
		put(p, &vC13TNode{data: data})
	}
	return root
}

func (n *vC13TNode) term() string {
	if !n.dir {
		return "File " + vC13SBytes(n.data)
	}
	names := make([]string, 0, len(n.kids))
	for k := range n.kids {
		names = append(names, k)
	}
	sort.Strings(names)
	parts := make([]string, len(names))
	for i, k := range names {
		parts[i] = fmt.Sprintf("(%s, %s)", vC13TName(k), n.kids[k].term())
	}
	return "Dir [" + strings.Join(parts, "; ") + "]"
}

func vC13TGen(r *vRand, i int) vC13TCase {
	c := vC13TCase{Kind: "tree", Layout: []string{"balanced", "trickle"}[r.intn(2)]}
	c.MaxLinks = []int{2, 3, 174}[r.intn(3)]
	c.Chunk = []int{2, 4, 16, 64}[r.intn(4)]
	c.RawLeaves = r.chance(50)
	c.CidV = r.intn(2)
	c.Shard = r.chance(20)
	c.Wrap = r.chance(40)
	c.Hidden = r.chance(50)
	c.Multipart = r.chance(40)
	size := func() int {
		switch x := r.intn(100); {
		case x < 20:
			return 0
		case x < 50:
			return r.rng(1, c.Chunk)
		default:
			return r.rng(1, 6*c.Chunk)
		}
	}
	names := []string{"a", "b", "c", ".h", "d", "Z", "aa", ".cfg", "e"}
	var gen func(prefix string, depth int)
	gen = func(prefix string, depth int) {
		n := r.rng(0, 5)
		if depth == 0 && n == 0 {
			n = 1
		}
		used := map[string]bool{}
		for k := 0; k < n; k++ {
			nm := names[r.intn(len(names))]
			if used[nm] {
				continue
			}
			used[nm] = true
			if depth < 3 && r.chance(35) {
				c.Entries = append(c.Entries, vC13FEntry{Path: prefix + nm, Dir: true})
				if r.chance(75) {
					gen(prefix+nm+"/", depth+1)
				}
			} else {
				c.Entries = append(c.Entries, vC13FEntry{Path: prefix + nm, Size: size(), Seed: r.rng(0, 3)})
			}
		}
	}
	switch x := r.intn(100); {
	case x < 12:
		c.Kind = "single-file"
		c.TopFile = true
		c.Entries = []vC13FEntry{{Path: "single.dat", Size: size(), Seed: r.rng(0, 3)}}
	case x < 18:
		c.Kind = "empty-dir"
	default:
		gen("", 0)
	}
	return c
}

const vC13THeader = "From V Require Import Base.Common Model.C13_Importer Model.C13_Tree Model.C13_TreeCheck.\nOpen Scope N_scope."
const vC13TFooter = "Definition R := Eval vm_compute in failing cases.\nPrint R."

func TestVerifC13Tree(t *testing.T) {
	out := newVOut("C13_tree", vC13THeader, "tcase", vC13TFooter)
	out.idBase += 800000
	defer out.close()
	var cases []vC13TCase
	if raw := vCasesIn(); raw != nil {
		for _, b := range raw {
			var c vC13TCase
			if err := json.Unmarshal(b, &c); err != nil {
				t.Fatal(err)
			}
			cases = append(cases, c)
		}
	} else {
		r := newVRand(uint64(vEnvInt("VERIF_SEED", 1)) + 777)
		n := vEnvInt("VERIF_N", 100)
		for i := 0; i < n; i++ {
			cases = append(cases, vC13TGen(r.fork(), i))
		}
	}
	shipped := ihelper.DefaultLinksPerBlock
	dump := os.Getenv("VERIF_C13_DUMP") != ""
	for _, c := range cases {
		c := c
		if c.Layout != "trickle" {
			c.Layout = "balanced"
		}
		if c.MaxLinks < 2 {
			c.MaxLinks = 2
		}
		if c.MaxLinks > 400 {
			c.MaxLinks = 400
		}
		if c.Chunk < 1 {
			c.Chunk = 1
		}
		if c.Chunk > 4096 {
			c.Chunk = 4096
		}
		if c.CidV != 1 {
			c.CidV = 0
		}
		for i := range c.Entries {
			if c.Entries[i].Size > 2048 {
				c.Entries[i].Size = 2048
			}
		}
		if len(c.Entries) > 60 {
			c.Entries = c.Entries[:60]
		}
		base, err := os.MkdirTemp(".", "vc13tree")
		if err != nil {
			t.Fatal(err)
		}
		fc := vC13FCase{Kind: "tree-shape", Entries: c.Entries, TopFile: c.TopFile, Chunker: fmt.Sprintf("size-%d", c.Chunk), Layout: c.Layout,
			RawLeaves: c.RawLeaves, CidV: c.CidV, Hash: "sha2-256", Wrap: c.Wrap, Hidden: c.Hidden, Multipart: c.Multipart,
			Rmin: 1, Rmax: 1, Limit: 1 << 28, Allocs: [][]int{{1}}}
		tree, treeRoot, err := vC13WriteTree(base, &fc)
		if err != nil {
			t.Fatal(err)
		}
		ex := &vC13Expect{tree: tree, topName: "tree"}
		full := vC13TBuild(&fc) // the tree on disk, hidden entries included
		input := full
		if c.TopFile {
			// the first top-level file alone (as TestVerifC13Files does)
			names := make([]string, 0)
			for k, n := range full.kids {
				if !n.dir && (c.Hidden || !strings.HasPrefix(k, ".")) {
					names = append(names, k)
				}
			}
			sort.Strings(names)
			if len(names) > 0 {
				ex.topFile = names[0]
				ex.topName = names[0]
				input = full.kids[names[0]]
			}
		}
		ihelper.DefaultLinksPerBlock = c.MaxLinks
		ch := make(chan *vC13FRun, 1)
		go func() { ch <- vC13RunFiles(&fc, c.Shard, treeRoot, ex) }()
		var run *vC13FRun
		hung := false
		select {
		case run = <-ch:
		case <-time.After(vC13SWatchdog):
			hung = true
			run = &vC13FRun{rig: &vC13Rig{}}
		}
		if !hung {
			ihelper.DefaultLinksPerBlock = shipped
			os.RemoveAll(base)
		}
		var blocks []vC13TBlock
		var flags []int
		uni := map[string]int{}
		rootID := 0
		if hung {
			flags = append(flags, 48)
		} else if run.err != nil || run.panic_ || run.rec == nil {
			flags = append(flags, 47)
		} else {
			blocks, uni, flags = vC13TreeBlocks(run.rec.nodes)
			if id, ok := uni[run.root.KeyString()]; ok {
				rootID = id
			} else {
				flags = append(flags, 47)
			}
		}
		for _, d := range run.rig.direct {
			b, _ := json.Marshal(map[string]interface{}{"signature": "c13-rig", "detail": d, "case": map[string]interface{}{"input": c}})
			fmt.Printf("VERIF-DIRECT-VIOLATION %s\n", b)
		}
		// the name under which a top-level file is patched into the MFS root: the string of its CID (not a model quantity: read off)
		mfsName := ""
		if ex.topFile != "" && !c.Wrap && run.root.Defined() {
			mfsName = run.root.String()
		}
		lay := 0
		if c.Layout == "trickle" {
			lay = 1
		}
		term := fmt.Sprintf("(mk_tinput %d %d %d %s %s %s %s (%s), (%s, %d), %s)", lay, c.MaxLinks, c.Chunk, cqBool(c.Wrap), cqBool(c.Hidden),
			vC13TName(ex.topName), vC13TName(mfsName), input.term(), vC13TBlocksTerm(blocks), rootID, cqListN(flags))
		if dump {
			fmt.Printf("DUMP case %+v\n input %s\n", c, input.term())
			for i, b := range blocks {
				fmt.Printf("  %3d id=%d dir=%v links=%v dlen=%d\n", i, b.id, b.dir, b.links, b.dlen)
			}
			fmt.Printf("  root=%d err=%v\n", rootID, run.err)
		}
		ndirs, nfiles := 0, 0
		seen := map[int]bool{}
		for _, b := range blocks {
			if seen[b.id] {
				continue
			}
			seen[b.id] = true
			if b.dir {
				ndirs++
			}
		}
		for range tree.files {
			nfiles++
		}
		out.count("tree:kind:" + c.Kind)
		out.count(fmt.Sprintf("tree:wrap:%v", c.Wrap))
		out.count(fmt.Sprintf("tree:hidden:%v", c.Hidden))
		out.count(fmt.Sprintf("tree:multipart:%v", c.Multipart))
		if c.Shard {
			out.count("tree:sharded")
		}
		dd := ndirs
		if dd > 6 {
			dd = 6
		}
		out.count(fmt.Sprintf("tree:distinct-dir-nodes:%d", dd))
		out.add(term, c, map[string]interface{}{"blocks": len(blocks), "distinct": len(uni), "dirs": ndirs, "files": nfiles, "root": rootID,
			"flags": flags, "err": fmt.Sprint(run.err)}, ndirs >= 1 && nfiles >= 1)
		if hung {
			out.count("tree:watchdog")
			break
		}
	}
}

var _ = cid.Undef
