//go:build verif

package ipfshttp

import (
	"reflect"
	"testing"
)

func TestVerifC15Ipfshttp(t *testing.T) {
	vc15Main(t, &vc15Section{
		Name: "ipfshttp", Index: 6, EnvPrefix: "CLUSTER_IPFSHTTP",
		New:      func() vc15Config { return &Config{} },
		JSONType: reflect.TypeOf(jsonConfig{}),
		Hints: map[string]string{
			"node_multiaddress": "addr", "connect_swarms_delay": "dur", "ipfs_request_timeout": "dur", "pin_timeout": "dur",
			"unpin_timeout": "dur", "repogc_timeout": "dur",
		},
	})
}
