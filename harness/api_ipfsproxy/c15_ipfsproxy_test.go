//go:build verif

package ipfsproxy

import (
	"reflect"
	"testing"
)

func TestVerifC15Ipfsproxy(t *testing.T) {
	vc15Main(t, &vc15Section{
		Name: "ipfsproxy", Index: 5, EnvPrefix: "CLUSTER_IPFSPROXY",
		New:      func() vc15Config { return &Config{} },
		JSONType: reflect.TypeOf(jsonConfig{}),
		Hints: map[string]string{
			"listen_multiaddress": "addr", "node_multiaddress": "addr", "log_file": "str", "read_timeout": "dur",
			"read_header_timeout": "dur", "write_timeout": "dur", "idle_timeout": "dur", "extract_headers_extra": "str",
			"extract_headers_path": "str", "extract_headers_ttl": "dur",
		},
		Direct: func(c vc15Config) map[string]string {
			cfg := c.(*Config)
			return map[string]string{"extract_headers_path": vc15VS(cfg.ExtractHeadersPath), "extract_headers_ttl": vc15VZ(int64(cfg.ExtractHeadersTTL))}
		},
		Extra: map[string][]interface{}{"extract_headers_path": {"/api/v0/version", "/api/v0/id"}},
	})
}
