//go:build verif

package ipfsproxy

// C12 rig: the real ipfsproxy.Server between a recording fake IPFS daemon (httptest) and a
// recording Cluster / IPFSConnector / Consensus RPC service. Never part of /repo.

import (
	"context"
	"errors"
	"fmt"
	"io"
	"net/http"
	"net/http/httptest"
	"strconv"
	"strings"
	"sync"

	"github.com/ipfs/ipfs-cluster/api"

	cid "github.com/ipfs/go-cid"
	peer "github.com/libp2p/go-libp2p-core/peer"
	rpc "github.com/libp2p/go-libp2p-gorpc"
	ma "github.com/multiformats/go-multiaddr"
)

// one recorded RPC call, projected onto what C12 talks about
type vc12Call struct {
	M      string `json:"m"` // Service.Method
	Path   string `json:"path,omitempty"`
	Mode   string `json:"mode,omitempty"`
	Update string `json:"update,omitempty"`
	Cid    string `json:"cid,omitempty"`
	Name   string `json:"name,omitempty"`
	Rmin   int    `json:"rmin,omitempty"`
	Rmax   int    `json:"rmax,omitempty"`
	Failed bool   `json:"failed,omitempty"`
}

type vc12Fail struct {
	M string `json:"m"` // Service.Method
	K int    `json:"k"` // which occurrence (0-based) within the request fails
}

// shared recorder + failure script
type vc12Rec struct {
	mu    sync.Mutex
	calls []vc12Call
	seen  map[string]int
	fails []vc12Fail
	gcErr bool
}

func (r *vc12Rec) reset(fails []vc12Fail) {
	r.mu.Lock()
	defer r.mu.Unlock()
	r.calls = nil
	r.seen = map[string]int{}
	r.fails = fails
}

var vc12ErrScripted = errors.New("verif scripted failure")

// note records the call and tells whether the script makes it fail
func (r *vc12Rec) note(c vc12Call) error {
	r.mu.Lock()
	defer r.mu.Unlock()
	k := r.seen[c.M]
	r.seen[c.M] = k + 1
	for _, f := range r.fails {
		if f.M == c.M && (f.K == k || c.M == "IPFSConnector.BlockPut") { // any scripted BlockPut failure fails the add's block puts
			c.Failed = true
		}
	}
	// consecutive BlockPut calls of one add are collapsed into one entry (their number depends on the chunker, C13's business)
	if c.M == "IPFSConnector.BlockPut" && len(r.calls) > 0 && r.calls[len(r.calls)-1].M == c.M && !r.calls[len(r.calls)-1].Failed {
		if c.Failed {
			r.calls[len(r.calls)-1].Failed = true
			return vc12ErrScripted
		}
		return nil
	}
	r.calls = append(r.calls, c)
	if c.Failed {
		return vc12ErrScripted
	}
	return nil
}

func (r *vc12Rec) snapshot() []vc12Call {
	r.mu.Lock()
	defer r.mu.Unlock()
	return append([]vc12Call{}, r.calls...)
}

type vc12Cluster struct{ rec *vc12Rec }
type vc12IPFS struct{ rec *vc12Rec }
type vc12Consensus struct{ rec *vc12Rec }

var (
	vc12ResolvedCid, _ = cid.Decode("zb2rhiKhUepkTMw7oFfBUnChAN7ABAvg2hXUwmTBtZ6yxuabc")
	vc12PinnedCid, _   = cid.Decode("QmP63DkAFEnDYNjDYBpyNDfttu1fvUw99x1brscPzpqmmq")
	vc12Peer1, _       = peer.Decode("QmXZrtE5jQwXNqCJMfHUTQkvhQ4ZAnqMnmzFMJfLewuabc")
	vc12Peer2, _       = peer.Decode("QmUZ13osndQ5uL4tPWHXe3iBgBgq9gfewcBMSCAuMBsDJ6")
	vc12Peer3, _       = peer.Decode("QmPGDFvBkgWhvzEK9qaTWrWurSwqXNmhnK3hgELPdZZNPa")
)

const vc12RepoSize = 1000
const vc12StorageMax = 7000

func vc12ModeStr(m api.PinMode) string {
	if m == api.PinModeDirect {
		return "direct"
	}
	return "recursive"
}

func vc12CidStr(c cid.Cid) string {
	if !c.Defined() {
		return ""
	}
	return c.String()
}

func (s *vc12Cluster) PinPath(ctx context.Context, in *api.PinPath, out *api.Pin) error {
	if err := s.rec.note(vc12Call{M: "Cluster.PinPath", Path: in.Path, Mode: vc12ModeStr(in.Mode), Update: vc12CidStr(in.PinUpdate)}); err != nil {
		return err
	}
	*out = *api.PinWithOpts(vc12PinnedCid, in.PinOptions)
	return nil
}

func (s *vc12Cluster) UnpinPath(ctx context.Context, in *api.PinPath, out *api.Pin) error {
	if err := s.rec.note(vc12Call{M: "Cluster.UnpinPath", Path: in.Path, Mode: vc12ModeStr(in.Mode), Update: vc12CidStr(in.PinUpdate)}); err != nil {
		return err
	}
	*out = *api.PinWithOpts(vc12PinnedCid, in.PinOptions)
	return nil
}

func (s *vc12Cluster) Pin(ctx context.Context, in *api.Pin, out *api.Pin) error {
	if err := s.rec.note(vc12Call{M: "Cluster.Pin", Cid: vc12CidStr(in.Cid), Name: in.Name, Rmin: in.ReplicationFactorMin,
		Rmax: in.ReplicationFactorMax, Mode: vc12ModeStr(in.Mode)}); err != nil {
		return err
	}
	*out = *in
	return nil
}

func (s *vc12Cluster) Unpin(ctx context.Context, in *api.Pin, out *api.Pin) error {
	if err := s.rec.note(vc12Call{M: "Cluster.Unpin", Cid: vc12CidStr(in.Cid)}); err != nil {
		return err
	}
	*out = *in
	return nil
}

func (s *vc12Cluster) PinGet(ctx context.Context, in cid.Cid, out *api.Pin) error {
	if err := s.rec.note(vc12Call{M: "Cluster.PinGet", Cid: vc12CidStr(in)}); err != nil {
		return err
	}
	*out = *api.PinCid(in)
	return nil
}

func (s *vc12Cluster) Pins(ctx context.Context, in struct{}, out *[]*api.Pin) error {
	if err := s.rec.note(vc12Call{M: "Cluster.Pins"}); err != nil {
		return err
	}
	*out = []*api.Pin{api.PinCid(vc12PinnedCid), api.PinCid(vc12ResolvedCid)}
	return nil
}

func (s *vc12Cluster) BlockAllocate(ctx context.Context, in *api.Pin, out *[]peer.ID) error {
	if err := s.rec.note(vc12Call{M: "Cluster.BlockAllocate"}); err != nil {
		return err
	}
	*out = []peer.ID{vc12Peer1}
	return nil
}

func (s *vc12Cluster) RepoGC(ctx context.Context, in struct{}, out *api.GlobalRepoGC) error {
	if err := s.rec.note(vc12Call{M: "Cluster.RepoGC"}); err != nil {
		return err
	}
	keys := []api.IPFSRepoGC{{Key: vc12PinnedCid}}
	if s.rec.gcErr {
		keys = append(keys, api.IPFSRepoGC{Key: vc12ResolvedCid, Error: "gc-key-error"})
	}
	*out = api.GlobalRepoGC{PeerMap: map[string]*api.RepoGC{peer.Encode(vc12Peer1): {Peer: vc12Peer1, Keys: keys}}}
	return nil
}

func (s *vc12IPFS) Resolve(ctx context.Context, in string, out *cid.Cid) error {
	if err := s.rec.note(vc12Call{M: "IPFSConnector.Resolve", Path: in}); err != nil {
		return err
	}
	*out = vc12ResolvedCid
	return nil
}

func (s *vc12IPFS) RepoStat(ctx context.Context, in struct{}, out *api.IPFSRepoStat) error {
	if err := s.rec.note(vc12Call{M: "IPFSConnector.RepoStat"}); err != nil {
		return err
	}
	*out = api.IPFSRepoStat{RepoSize: vc12RepoSize, StorageMax: vc12StorageMax}
	return nil
}

func (s *vc12IPFS) BlockPut(ctx context.Context, in *api.NodeWithMeta, out *struct{}) error {
	return s.rec.note(vc12Call{M: "IPFSConnector.BlockPut"})
}

func (s *vc12Consensus) Peers(ctx context.Context, in struct{}, out *[]peer.ID) error {
	if err := s.rec.note(vc12Call{M: "Consensus.Peers"}); err != nil {
		return err
	}
	*out = []peer.ID{vc12Peer1, vc12Peer2, vc12Peer3}
	return nil
}

func vc12NewRPC(rec *vc12Rec) *rpc.Client {
	s := rpc.NewServer(nil, "verif")
	c := rpc.NewClientWithServer(nil, "verif", s)
	for name, svc := range map[string]interface{}{"Cluster": &vc12Cluster{rec}, "IPFSConnector": &vc12IPFS{rec}, "Consensus": &vc12Consensus{rec}} {
		if err := s.RegisterName(name, svc); err != nil {
			panic(err)
		}
	}
	return c
}

// ---- fake daemon ----
type vc12DReq struct {
	Method string `json:"method"`
	URI    string `json:"uri"` // RequestURI as received (escaped path ? raw query)
	Body   string `json:"body"`
}

type vc12Daemon struct {
	srv    *httptest.Server
	mu     sync.Mutex
	reqs   []vc12DReq
	status int
	body   string
}

func vc12NewDaemon() *vc12Daemon {
	d := &vc12Daemon{status: 200}
	d.srv = httptest.NewServer(http.HandlerFunc(func(w http.ResponseWriter, r *http.Request) {
		b, _ := io.ReadAll(r.Body)
		d.mu.Lock()
		d.reqs = append(d.reqs, vc12DReq{Method: r.Method, URI: r.RequestURI, Body: string(b)})
		st, body := d.status, d.body
		d.mu.Unlock()
		w.Header().Set("Content-Type", "application/octet-stream")
		w.Header().Set("Content-Length", strconv.Itoa(len(body)))
		w.WriteHeader(st)
		if r.Method != http.MethodHead {
			io.WriteString(w, body)
		}
	}))
	return d
}

func (d *vc12Daemon) reset(status int, body string) {
	d.mu.Lock()
	defer d.mu.Unlock()
	d.reqs = nil
	d.status = status
	d.body = body
}

func (d *vc12Daemon) snapshot() []vc12DReq {
	d.mu.Lock()
	defer d.mu.Unlock()
	return append([]vc12DReq{}, d.reqs...)
}

// ---- the real proxy ----
type vc12Rig struct {
	daemon *vc12Daemon
	rec    *vc12Rec
	rpc    *rpc.Client
	proxy  *Server
	extracted bool // the current proxy instance has extracted the daemon's headers (happens on its first hijacked request)
}

func vc12NewProxy(d *vc12Daemon, c *rpc.Client) *Server {
	cfg := &Config{}
	cfg.Default()
	hp := strings.TrimPrefix(d.srv.URL, "http://")
	i := strings.LastIndex(hp, ":")
	nodeMAddr, err := ma.NewMultiaddr(fmt.Sprintf("/ip4/%s/tcp/%s", hp[:i], hp[i+1:]))
	if err != nil {
		panic(err)
	}
	proxyMAddr, _ := ma.NewMultiaddr("/ip4/127.0.0.1/tcp/0")
	cfg.NodeAddr = nodeMAddr
	cfg.ListenAddr = []ma.Multiaddr{proxyMAddr}
	cfg.ExtractHeadersTTL = 0 // as written: a stored header set never expires
	p, err := New(cfg)
	if err != nil {
		panic(err)
	}
	p.SetClient(c)
	return p
}

func vc12NewRig() *vc12Rig {
	r := &vc12Rig{daemon: vc12NewDaemon(), rec: &vc12Rec{}}
	r.rec.reset(nil)
	r.rpc = vc12NewRPC(r.rec)
	r.proxy = vc12NewProxy(r.daemon, r.rpc)
	return r
}

func (r *vc12Rig) fresh() {
	vc12Client.CloseIdleConnections()
	r.proxy.Shutdown(context.Background())
	r.proxy = vc12NewProxy(r.daemon, r.rpc)
	r.extracted = false
}

func (r *vc12Rig) close() {
	r.proxy.Shutdown(context.Background())
	r.daemon.srv.Close()
}

func (r *vc12Rig) base() string { return "http://" + r.proxy.listeners[0].Addr().String() }
