//go:build verif

package ipfsproxy

// C12 correspondence harness: generated requests are sent through the real proxy; what reached the
// recording Cluster RPC service, what reached the fake daemon and what the client received is written
// as Coq cases (evaluated by Model/C12_Check.v) plus a JSON sidecar.

import (
	"bytes"
	"encoding/json"
	"fmt"
	"io"
	"mime/multipart"
	"net/http"
	"net/url"
	gopathlib "path"
	"sort"
	"strings"
	"testing"
	"time"

	"github.com/ipfs/ipfs-cluster/api"

	cid "github.com/ipfs/go-cid"
	path "github.com/ipfs/go-path"
)

type vc12Case struct {
	Method  string     `json:"method"`
	Path    string     `json:"path"`              // decoded URL path
	RawPath string     `json:"rawpath,omitempty"` // exact escaped form to send (optional)
	Query   [][]string `json:"query"`             // decoded pairs, in order
	RawQ    *string    `json:"rawq,omitempty"`    // when present: the exact raw query (Query ignored)
	Body    string     `json:"body"`
	MP      int        `json:"mp"` // 0: no multipart content type; 1: well-formed multipart with one file; 2: multipart content type, garbage body
	Fails   []vc12Fail `json:"fails"`
	Fresh   bool       `json:"fresh"`
	DStatus int        `json:"dstatus"`
	DBody   string     `json:"dbody"`
	GCErr   bool       `json:"gc_err"` // the RepoGC answer carries a per-key error
	ImpOK   bool       `json:"imp_ok"` // the importer accepts the add options (chunker / hash / cid-version / format), by construction of the generator
	Cmp     bool       `json:"cmp"`    // compare with the model (false: checked against spec_okb only)
}

type vc12Obs struct {
	Calls     []vc12Call `json:"calls"`
	DReqs     []vc12DReq `json:"dreqs"`
	Status    int        `json:"status"`
	StreamErr bool       `json:"stream_err"`
	Body      string     `json:"body"`
	URI       string     `json:"uri"`
	Num       int        `json:"num"`
	Sent      string     `json:"sent"` // the request body as sent
	WasFresh  bool       `json:"was_fresh"` // no hijacked request had been served by this proxy instance before
	NetErr    string     `json:"net_err,omitempty"`
}

// ---------------------------------------------------------------------------------------------
// running one case
// ---------------------------------------------------------------------------------------------
var vc12Client = &http.Client{
	CheckRedirect: func(req *http.Request, via []*http.Request) error { return http.ErrUseLastResponse },
	// connections to the proxy are reused (one new connection per case exhausts the ephemeral ports in the thorough tier);
	// they are dropped whenever the proxy instance is replaced (rig.fresh)
	Transport: &http.Transport{DisableCompression: true, MaxIdleConnsPerHost: 2, IdleConnTimeout: 30 * time.Second},
	Timeout:       60 * time.Second,
}

func vc12RawQuery(c *vc12Case) string {
	if c.RawQ != nil {
		return *c.RawQ
	}
	parts := []string{}
	for _, kv := range c.Query {
		if len(kv) != 2 {
			continue
		}
		parts = append(parts, url.QueryEscape(kv[0])+"="+url.QueryEscape(kv[1]))
	}
	return strings.Join(parts, "&")
}

func vc12Normalise(c *vc12Case) {
	if c.Method == "" {
		c.Method = "POST"
	}
	if c.RawPath != "" {
		if p, err := url.PathUnescape(c.RawPath); err == nil {
			c.Path = p
		} else {
			c.RawPath = ""
		}
	}
	if !strings.HasPrefix(c.Path, "/") {
		c.Path = "/" + c.Path
	}
	if c.DStatus < 200 || c.DStatus > 599 {
		c.DStatus = 200
	}
	if c.Method == "HEAD" {
		c.Body = ""
		c.MP = 0
	}
	if c.MP < 0 || c.MP > 2 {
		c.MP = 0
	}
	q := [][]string{}
	for _, kv := range c.Query {
		if len(kv) == 2 {
			q = append(q, kv)
		}
	}
	c.Query = q
	if c.Fails == nil {
		c.Fails = []vc12Fail{}
	}
}

func vc12Run(rig *vc12Rig, c *vc12Case) vc12Obs {
	if c.Fresh {
		rig.fresh()
	}
	rig.rec.reset(c.Fails)
	rig.rec.gcErr = c.GCErr
	rig.daemon.reset(c.DStatus, c.DBody)
	u := &url.URL{Scheme: "http", Host: rig.proxy.listeners[0].Addr().String(), Path: c.Path, RawPath: c.RawPath, RawQuery: vc12RawQuery(c)}
	var body io.Reader
	ctype := ""
	switch c.MP {
	case 1:
		var buf bytes.Buffer
		mw := multipart.NewWriter(&buf)
		mw.SetBoundary("verifboundary7d3c1a")
		fw, _ := mw.CreateFormFile("file", "vfile.txt")
		fw.Write([]byte(c.Body))
		mw.Close()
		body = &buf
		ctype = mw.FormDataContentType()
	case 2:
		body = strings.NewReader(c.Body)
		ctype = "multipart/form-data; boundary=verifboundary"
	default:
		if c.Body != "" {
			body = strings.NewReader(c.Body)
		}
	}
	obs := vc12Obs{Calls: []vc12Call{}, DReqs: []vc12DReq{}, URI: u.RequestURI(), WasFresh: !rig.extracted}
	if body != nil {
		sent, _ := io.ReadAll(body)
		obs.Sent = string(sent)
		body = bytes.NewReader(sent)
	}
	req, err := http.NewRequest(c.Method, u.String(), body)
	if err != nil {
		obs.NetErr = err.Error()
		return obs
	}
	if ctype != "" {
		req.Header.Set("Content-Type", ctype)
	}
	res, err := vc12Client.Do(req)
	if err != nil {
		obs.NetErr = err.Error()
		return obs
	}
	b, _ := io.ReadAll(res.Body)
	res.Body.Close()
	obs.Status = res.StatusCode
	obs.Body = string(b)
	obs.StreamErr = res.Trailer.Get("X-Stream-Error") != ""
	obs.Calls = rig.rec.snapshot()
	obs.DReqs = rig.daemon.snapshot()
	for _, d := range obs.DReqs {
		// header extraction (setAdditionalIpfsHeaders) happens once per proxy instance
		if d.Method == "POST" && d.URI == rig.proxy.config.ExtractHeadersPath && !(c.Method == "POST" && obs.URI == d.URI) {
			rig.extracted = true
		}
	}
	var st struct{ RepoSize int }
	if json.Unmarshal(b, &st) == nil {
		obs.Num = st.RepoSize
	}
	return obs
}

// ---------------------------------------------------------------------------------------------
// abstract parser outcomes handed to the model (DESIGN 1.7: parsers are inputs of the model)
// ---------------------------------------------------------------------------------------------
func vc12CleanPath(p string) string { // gorilla/mux cleanPath
	if p == "" {
		return "/"
	}
	if p[0] != '/' {
		p = "/" + p
	}
	np := gopathlib.Clean(p)
	if p[len(p)-1] == '/' && np != "/" {
		np += "/"
	}
	return np
}

func vc12Printable(s string) bool {
	for i := 0; i < len(s); i++ {
		if s[i] < 0x20 || s[i] > 0x7e {
			return false
		}
	}
	return true
}

// Coq string: printable ASCII as a literal, anything else through its byte list
func vc12S(s string) string {
	if vc12Printable(s) {
		return cqStr(s)
	}
	xs := make([]string, len(s))
	for i := 0; i < len(s); i++ {
		xs[i] = fmt.Sprintf("%d", s[i])
	}
	return "(bs [" + strings.Join(xs, ";") + "])"
}

func vc12OptS(ok bool, s string) string {
	if !ok {
		return "None"
	}
	return "(Some " + vc12S(s) + ")"
}

func vc12Term(c *vc12Case, o *vc12Obs, extractPath string) string {
	rawq := vc12RawQuery(c)
	vals, _ := url.ParseQuery(rawq)
	keys := []string{}
	for k := range vals {
		keys = append(keys, k)
	}
	sort.Strings(keys)
	qv := []string{}
	argStrs := map[string]bool{}
	for _, k := range keys {
		vs := []string{}
		for _, v := range vals[k] {
			vs = append(vs, vc12S(v))
			if k == "arg" {
				argStrs[v] = true
			}
		}
		qv = append(qv, "("+vc12S(k)+", "+cqList(vs)+")")
	}
	if i := strings.LastIndex(c.Path, "/"); i >= 0 {
		argStrs[c.Path[i+1:]] = true
	}
	argStrs[""] = true
	args := []string{}
	for a := range argStrs {
		args = append(args, a)
	}
	sort.Strings(args)
	pp, pc := []string{}, []string{}
	for _, a := range args {
		p, err := path.ParsePath(a)
		pp = append(pp, "("+vc12S(a)+", "+vc12OptS(err == nil, p.String())+")")
		ci, err := cid.Decode(a)
		cs := ""
		if err == nil {
			cs = ci.String()
		}
		pc = append(pc, "("+vc12S(a)+", "+vc12OptS(err == nil, cs)+")")
	}
	// AddParamsFromQuery outcome (it mutates its argument: use a copy)
	v2, _ := url.ParseQuery(rawq)
	addp := "None"
	impOK := c.ImpOK
	if ap, err := api.AddParamsFromQuery(v2); err == nil {
		addp = fmt.Sprintf("(Some (mk_addp %s %s %s %s))", vc12S(ap.Name), cqZ(int64(ap.ReplicationFactorMin)), cqZ(int64(ap.ReplicationFactorMax)), cqBool(ap.StreamChannels))
		if ap.NoCopy {
			// the go-unixfs importer refuses nocopy for content that is not a file with a path or URL (a multipart upload never is)
			impOK = false
		}
	}
	root := ""
	for _, cl := range o.Calls {
		if cl.M == "Cluster.Pin" {
			root = cl.Cid
		}
	}
	fails := []string{}
	for _, f := range c.Fails {
		fails = append(fails, fmt.Sprintf("(%s, %d)", cqStr(f.M), f.K))
	}
	reqT := fmt.Sprintf("mk_req %s %s %s %s %s %d", vc12S(c.Method), vc12S(c.Path), vc12S(o.URI), cqList(qv), vc12S(o.Sent), c.MP)
	envT := fmt.Sprintf("mk_env %s %s %s %s %s %s %s %s %s %s %d %d %d %s %d %s", cqBool(vc12CleanPath(c.Path) != c.Path), cqList(pp), cqList(pc), addp,
		cqBool(impOK), vc12S(root), cqList(fails), cqBool(o.WasFresh), vc12S(extractPath), vc12S(vc12ResolvedCid.String()),
		3, vc12RepoSize, vc12StorageMax, cqBool(c.GCErr), c.DStatus, vc12S(c.DBody))
	calls := []string{}
	for _, cl := range o.Calls {
		calls = append(calls, vc12CallTerm(cl))
	}
	dreqs := []string{}
	for _, d := range o.DReqs {
		dreqs = append(dreqs, fmt.Sprintf("(%s, %s, %s)", vc12S(d.Method), vc12S(d.URI), vc12S(d.Body)))
	}
	body := o.Body
	obsT := fmt.Sprintf("mk_obs %s %s %d %s %s %d", cqList(calls), cqList(dreqs), o.Status, cqBool(o.StreamErr), vc12S(body), o.Num)
	return fmt.Sprintf("(%s,\n   %s,\n   %s,\n   %s)", reqT, envT, cqBool(c.Cmp), obsT)
}

func vc12CallTerm(c vc12Call) string {
	mode := "Recursive"
	if c.Mode == "direct" {
		mode = "Direct"
	}
	var t string
	switch c.M {
	case "Cluster.PinPath":
		t = fmt.Sprintf("CPinPath %s %s %s", vc12S(c.Path), mode, vc12S(c.Update))
	case "Cluster.UnpinPath":
		t = fmt.Sprintf("CUnpinPath %s %s %s", vc12S(c.Path), mode, vc12S(c.Update))
	case "Cluster.Pin":
		t = fmt.Sprintf("CPin %s %s %s %s %s", vc12S(c.Cid), vc12S(c.Name), cqZ(int64(c.Rmin)), cqZ(int64(c.Rmax)), mode)
	case "Cluster.Unpin":
		t = fmt.Sprintf("CUnpin %s", vc12S(c.Cid))
	case "Cluster.PinGet":
		t = fmt.Sprintf("CPinGet %s", vc12S(c.Cid))
	case "Cluster.Pins":
		t = "CPins"
	case "Cluster.BlockAllocate":
		t = "CBlockAllocate"
	case "Cluster.RepoGC":
		t = "CRepoGC"
	case "IPFSConnector.Resolve":
		t = fmt.Sprintf("CResolve %s", vc12S(c.Path))
	case "IPFSConnector.RepoStat":
		t = "CRepoStat"
	case "IPFSConnector.BlockPut":
		t = "CBlockPut"
	case "Consensus.Peers":
		t = "CPeers"
	default:
		t = fmt.Sprintf("COther %s", vc12S(c.M))
	}
	return fmt.Sprintf("(%s, %s)", t, cqBool(c.Failed))
}

// ---------------------------------------------------------------------------------------------
// generators
// ---------------------------------------------------------------------------------------------
var (
	vc12GoodArgs = []string{
		"QmP63DkAFEnDYNjDYBpyNDfttu1fvUw99x1brscPzpqmmq",
		"QmP63DkAFEnDYNjDYBpyNDfttu1fvUw99x1brscPzpqmma",
		"bafyreiay3jpjk74dkckv2r74eyvf3lfnxujefay2rtuluintasq2zlapv4",
		"/ipfs/QmaNJ5acV31sx8jq626qTpAWW4DXKw34aGhx53dECLvXbY",
		"/ipfs/QmbUNM297ZwxB8CfFAznK7H9YMesDoY6Tt5bPgt5MSCB2u/im.gif",
		"/ipfs/QmbUNM297ZwxB8CfFAznK7H9YMesDoY6Tt5bPgt5MSCB2u/im.gif/",
		"/ipns/QmbmSAQNnfGcBAB8M8AsSPxd1TY7cpT9hZ398kXAScn2Ka",
		"/ipld/QmaNJ5acV31sx8jq626qTpAWW4DXKw34aGhx53dECLvXbY/",
		"QmbUNM297ZwxB8CfFAznK7H9YMesDoY6Tt5bPgt5MSCB2u/a/b",
		"/ipns/example.com",
	}
	vc12BadArgs = []string{"", "invalidhash", "/ipfs/", "/ipfs/invalidhash", "/invalidkeytype/QmaNJ5acV31sx8jq626qTpAWW4DXKw34aGhx53dECLvXbY", "Qm", "/", "//", " ", "QmP63DkAFEnDYNjDYBpyNDfttu1fvUw99x1brscPzpqmm"}
	// single-segment arguments usable in the /x/{arg} form
	vc12SlashArgs = []string{
		"QmP63DkAFEnDYNjDYBpyNDfttu1fvUw99x1brscPzpqmmq", "bafyreiay3jpjk74dkckv2r74eyvf3lfnxujefay2rtuluintasq2zlapv4",
		"invalidhash", "Qm", "x", "a b", "a?b", "a%b", "..."}
	vc12Methods    = []string{"POST", "POST", "POST", "POST", "POST", "POST", "POST", "POST", "POST", "POST", "GET", "GET", "GET", "PUT", "PUT", "PUT", "OPTIONS", "HEAD", "DELETE", "PATCH", "post", "Put", "FOO"}
	vc12HijackBase = []string{"/pin/add", "/pin/add", "/pin/rm", "/pin/rm", "/pin/ls", "/pin/update", "/pin/update", "/add", "/add", "/add", "/add", "/repo/stat", "/repo/gc"}
	vc12Segs       = []string{"api", "v0", "v1", "pin", "add", "rm", "ls", "update", "repo", "stat", "gc", "version", "id", "cat", "block", "get", "swarm", "peers", "x", "a.b", "Qm", "ADD", "Pin", "~", "a b", "a+b", "%", "a%2Fb", "\xc3\xa9", "dag", "put"}
)

func vc12Pick(r *vRand, xs []string) string { return xs[r.intn(len(xs))] }

func vc12Arg(r *vRand) string {
	if r.chance(70) {
		return vc12Pick(r, vc12GoodArgs)
	}
	return vc12Pick(r, vc12BadArgs)
}

func vc12Bytes(r *vRand, n int, binary bool) string {
	b := make([]byte, n)
	for i := range b {
		if binary {
			b[i] = byte(r.intn(256))
		} else {
			b[i] = byte(0x20 + r.intn(0x5f))
		}
	}
	return string(b)
}

func vc12Fails(r *vRand, c *vc12Case, methods []string) {
	if r.chance(25) && len(methods) > 0 {
		n := 1
		if r.chance(20) {
			n = 2
		}
		for i := 0; i < n; i++ {
			c.Fails = append(c.Fails, vc12Fail{M: vc12Pick(r, methods), K: r.intn(100) / 70}) // mostly the first occurrence
		}
	}
}

// extra option pairs unrelated to the route (they must not change anything)
func vc12Noise(r *vRand, c *vc12Case) {
	for r.chance(25) {
		c.Query = append(c.Query, []string{vc12Pick(r, []string{"quiet", "encoding", "stream-errors", "recursive", "progress", "x", "timeout"}), vc12Pick(r, []string{"true", "false", "json", "", "1"})})
	}
}

func vc12GenHijack(r *vRand) vc12Case {
	c := vc12Case{Method: vc12Pick(r, vc12Methods), DStatus: 200, DBody: "daemon-says-hi", Cmp: true, ImpOK: true, Fails: []vc12Fail{}}
	c.Fresh = r.chance(6)
	base := vc12Pick(r, vc12HijackBase)
	c.Path = "/api/v0" + base
	switch base {
	case "/pin/add", "/pin/rm":
		if r.chance(30) {
			c.Path += "/" + vc12Pick(r, vc12SlashArgs)
			if r.chance(30) {
				c.Query = append(c.Query, []string{"arg", vc12Arg(r)})
			}
		} else if r.chance(92) {
			c.Query = append(c.Query, []string{"arg", vc12Arg(r)})
			if r.chance(10) {
				c.Query = append(c.Query, []string{"arg", vc12Arg(r)})
			}
		}
		if r.chance(50) {
			c.Query = append(c.Query, []string{"type", vc12Pick(r, []string{"recursive", "direct", "", "all", "indirect", "Direct"})})
		}
		vc12Fails(r, &c, []string{"Cluster.PinPath", "Cluster.UnpinPath"})
	case "/pin/ls":
		if r.chance(30) {
			c.Path += "/" + vc12Pick(r, vc12SlashArgs)
		} else if r.chance(60) {
			c.Query = append(c.Query, []string{"arg", vc12Arg(r)})
		}
		if r.chance(40) {
			c.Query = append(c.Query, []string{"type", vc12Pick(r, []string{"recursive", "direct", "all"})})
		}
		vc12Fails(r, &c, []string{"Cluster.PinGet", "Cluster.Pins"})
	case "/pin/update":
		n := 2
		switch x := r.intn(100); {
		case x < 8:
			n = 0
		case x < 18:
			n = 1
		case x < 25:
			n = 3
		}
		for i := 0; i < n; i++ {
			c.Query = append(c.Query, []string{"arg", vc12Arg(r)})
		}
		if r.chance(50) {
			c.Query = append(c.Query, []string{"unpin", vc12Pick(r, []string{"true", "false", "", "False", "0"})})
		}
		if r.chance(8) {
			c.Path += "/" + vc12Pick(r, vc12SlashArgs) // no slash form exists for update: relayed
		}
		vc12Fails(r, &c, []string{"IPFSConnector.Resolve", "Cluster.PinPath", "Cluster.Unpin"})
	case "/add":
		c.MP = 1
		if r.chance(10) {
			c.MP = 0
		} else if r.chance(6) {
			c.MP = 2
		}
		c.Body = vc12Bytes(r, r.rng(1, 300), r.chance(30))
		if r.chance(30) {
			c.Query = append(c.Query, []string{"only-hash", vc12Pick(r, []string{"true", "true", "false", "", "1"})})
		}
		if r.chance(35) {
			c.Query = append(c.Query, []string{"pin", vc12Pick(r, []string{"false", "false", "true", "", "0"})})
		}
		if r.chance(30) {
			c.Query = append(c.Query, []string{"trickle", vc12Pick(r, []string{"true", "false"})})
		}
		if r.chance(30) {
			c.Query = append(c.Query, []string{"name", vc12Pick(r, []string{"n1", "a name", ""})})
		}
		if r.chance(30) {
			c.Query = append(c.Query, []string{vc12Pick(r, []string{"replication-min", "replication-max", "replication"}), vc12Pick(r, []string{"1", "2", "-1", "0", "x", "1.5", ""})})
		}
		if r.chance(25) {
			c.Query = append(c.Query, []string{"layout", vc12Pick(r, []string{"trickle", "balanced", "", "weird"})})
		}
		if r.chance(25) {
			// single-chunk for our <= 300 byte files: go-unixfs balanced.Layout drops the error of the first leaf of a multi-chunk file (C13's business)
			ch := vc12Pick(r, []string{"size-1024", "size-262144", "", "nonsense-1"})
			c.Query = append(c.Query, []string{"chunker", ch})
			if ch == "nonsense-1" {
				c.ImpOK = false
			}
		}
		if r.chance(25) {
			c.Query = append(c.Query, []string{"stream-channels", vc12Pick(r, []string{"true", "false", "maybe"})})
		}
		if r.chance(20) {
			c.Query = append(c.Query, []string{vc12Pick(r, []string{"local", "hidden", "wrap-with-directory", "raw-leaves", "progress", "nocopy", "recursive"}), vc12Pick(r, []string{"true", "false", "nope"})})
		}
		if r.chance(15) {
			c.Query = append(c.Query, []string{"cid-version", vc12Pick(r, []string{"0", "1", "x"})})
		}
		if r.chance(10) {
			c.Query = append(c.Query, []string{"shard-size", vc12Pick(r, []string{"1000000", "-1", "x"})})
		}
		if r.chance(10) {
			c.Query = append(c.Query, []string{"expire-in", vc12Pick(r, []string{"1h", "1ms", "x"})})
		}
		if r.chance(10) {
			c.Query = append(c.Query, []string{"user-allocations", vc12Pick(r, []string{"QmXZrtE5jQwXNqCJMfHUTQkvhQ4ZAnqMnmzFMJfLewuabc", "notapeer"})})
		}
		if r.chance(6) {
			c.Query = append(c.Query, []string{"format", vc12Pick(r, []string{"unixfs", "", "zip"})})
		}
		vc12Fails(r, &c, []string{"Cluster.BlockAllocate", "IPFSConnector.BlockPut", "Cluster.Pin", "Cluster.Unpin"})
	case "/repo/stat":
		vc12Fails(r, &c, []string{"Consensus.Peers", "IPFSConnector.RepoStat", "IPFSConnector.RepoStat"})
		if r.chance(30) {
			c.Fails = append(c.Fails, vc12Fail{M: "IPFSConnector.RepoStat", K: r.intn(4)})
		}
	case "/repo/gc":
		c.GCErr = r.chance(50)
		if r.chance(50) {
			c.Query = append(c.Query, []string{"stream-errors", vc12Pick(r, []string{"true", "false"})})
		}
		vc12Fails(r, &c, []string{"Cluster.RepoGC"})
	}
	vc12Noise(r, &c)
	if r.chance(15) && c.MP == 0 && c.Method != "HEAD" {
		c.Body = vc12Bytes(r, r.rng(1, 40), false)
	}
	return c
}

func vc12GenBoundary(r *vRand) vc12Case {
	c := vc12Case{Method: vc12Pick(r, []string{"POST", "POST", "GET", "PUT", "OPTIONS"}), DStatus: 200, DBody: "d", Cmp: true, ImpOK: true, Fails: []vc12Fail{}}
	near := []string{
		"/api/v0/pin/add/", "/api/v0/pin/rm/", "/api/v0/pin/ls/", "/api/v0/pin/add/a/b", "/api/v0/pin/rm/a/", "/api/v0/pin", "/api/v0/pin/",
		"/api/v1/pin/add", "/api/v0/pin/addx", "/api/v0x/pin/add", "/API/V0/pin/add", "/api/v0/PIN/ADD", "/api/v0/pin/update/x", "/api/v0/pin/update/",
		"/api/v0/add/x", "/api/v0/add/", "/api/v0/repo/stat/x", "/api/v0/repo/gc/", "/api/v0/repo", "/api/v0", "/api/v0/", "/pin/add", "/add", "/",
		"/api/v0/pin/verify", "/api/v0/repo/version", "/api/v0/adder", "/api/v0/ad", "/x/api/v0/pin/add", "/api/v0/api/v0/pin/add", "/api/v0/pin/add ",
	}
	c.Path = vc12Pick(r, near)
	if r.chance(20) {
		// encoded slash: the decoded path gains a segment
		c.RawPath = vc12Pick(r, []string{"/api/v0/pin/add%2FQmP63DkAFEnDYNjDYBpyNDfttu1fvUw99x1brscPzpqmmq", "/api/v0/pin/add/a%2Fb", "/api/v0/pin%2Fadd", "/api/v0/pin/ls/%20", "/api%2Fv0/repo/stat", "/api/v0/pin/rm/%2e"})
	}
	if r.chance(60) {
		c.Query = append(c.Query, []string{"arg", vc12Arg(r)})
	}
	if r.chance(20) {
		c.Body = vc12Bytes(r, r.rng(1, 30), false)
	}
	return c
}

func vc12GenRelay(r *vRand) vc12Case {
	c := vc12Case{Method: vc12Pick(r, []string{"POST", "POST", "GET", "GET", "PUT", "DELETE", "OPTIONS", "HEAD", "PATCH", "FOO", "post"}), Cmp: true, ImpOK: true, Fails: []vc12Fail{}}
	n := r.rng(1, 5)
	segs := []string{}
	if r.chance(60) {
		segs = append(segs, "api", "v0")
	}
	for i := 0; i < n; i++ {
		segs = append(segs, vc12Pick(r, vc12Segs))
	}
	c.Path = "/" + strings.Join(segs, "/")
	if r.chance(15) {
		c.Path += "/"
	}
	switch x := r.intn(100); {
	case x < 50:
		for i := r.intn(4); i > 0; i-- {
			c.Query = append(c.Query, []string{vc12Pick(r, []string{"arg", "a", "b c", "type", "stream-channels", "\xc3\xa9", "k&", "="}), vc12Pick(r, []string{"", "1", "x y", "a&b=c", "%", "QmP63DkAFEnDYNjDYBpyNDfttu1fvUw99x1brscPzpqmmq", "\xff\x00", "+"})})
		}
	case x < 75:
		raw := vc12Pick(r, []string{"a=%zz", "a;b=1", "&&", "=", "a=1&a=2&a=3", "a=b=c", "%41=%42", "a=+&b=%20", "x", "arg", "a=1&", "&a=1", "a=%", "?", "a=1?b=2", "a=\xc3\xa9", "q=%E0%A4%A"})
		c.RawQ = &raw
	}
	if c.Method != "HEAD" && r.chance(55) {
		c.Body = vc12Bytes(r, r.rng(1, 200), r.chance(50))
	}
	c.DStatus = []int{200, 200, 200, 201, 400, 403, 404, 500, 502}[r.intn(9)]
	c.DBody = vc12Bytes(r, r.intn(120), r.chance(40))
	return c
}

func vc12GenNonCanon(r *vRand) vc12Case {
	c := vc12Case{Method: vc12Pick(r, []string{"POST", "GET", "PUT", "DELETE"}), DStatus: 200, DBody: "d", Cmp: true, ImpOK: true, Fails: []vc12Fail{}}
	c.Path = vc12Pick(r, []string{"//api/v0/pin/add", "/api/v0//pin/add", "/api/v0/./pin/add", "/api/v0/pin/../pin/add", "/api/v0/pin/add/.", "/api/v0/pin/add/..", "/api/v0/pin/add//x",
		"/x/..", "/a//b", "/api/v0/repo/gc/.", "/./api/v0/add", "/api/v0/pin/rm/../add", "/api/../api/v0/pin/ls", "/api/v0/version/./", "//"})
	if r.chance(50) {
		c.Query = append(c.Query, []string{"arg", vc12Arg(r)})
	}
	return c
}

func vc12Gen(r *vRand) vc12Case {
	switch x := r.intn(100); {
	case x < 64:
		return vc12GenHijack(r)
	case x < 76:
		return vc12GenBoundary(r)
	case x < 96:
		return vc12GenRelay(r)
	default:
		return vc12GenNonCanon(r)
	}
}

// ---------------------------------------------------------------------------------------------
func TestVerifC12(t *testing.T) {
	seed := uint64(vEnvInt("VERIF_SEED", 1))
	n := vEnvInt("VERIF_N", 300)
	out := newVOut("C12", "From V Require Import Base.Common Base.C11_Http Model.C12_Proxy Model.C12_Check.\nOpen Scope N_scope.\nOpen Scope string_scope.",
		"case", "Definition R := Eval vm_compute in failing cases.\nPrint R.")
	defer out.close()
	var cases []vc12Case
	if raw := vCasesIn(); raw != nil {
		for _, b := range raw {
			var c vc12Case
			if err := json.Unmarshal(b, &c); err != nil {
				t.Fatal(err)
			}
			cases = append(cases, c)
		}
	} else {
		r := newVRand(seed)
		for i := 0; i < n; i++ {
			cases = append(cases, vc12Gen(r))
		}
	}
	rig := vc12NewRig()
	defer rig.close()
	for i := range cases {
		c := &cases[i]
		vc12Normalise(c)
		var obs vc12Obs
		func() {
			defer func() {
				if e := recover(); e != nil {
					b, _ := json.Marshal(map[string]interface{}{"signature": "panic", "detail": fmt.Sprint(e), "case": map[string]interface{}{"input": c}})
					fmt.Printf("VERIF-DIRECT-VIOLATION %s\n", b)
				}
			}()
			obs = vc12Run(rig, c)
		}()
		if obs.NetErr != "" {
			// the request could not be sent or no response arrived: not a case of the property; report loudly
			b, _ := json.Marshal(map[string]interface{}{"signature": "no-response", "detail": obs.NetErr, "case": map[string]interface{}{"input": c}})
			fmt.Printf("VERIF-DIRECT-VIOLATION %s\n", b)
			continue
		}
		hij := len(obs.Calls) > 0
		switch {
		case obs.Status == 301:
			out.count("redirect")
		case hij:
			out.count("hijack:" + obs.Calls[0].M)
		case len(obs.DReqs) == 1 && obs.DReqs[0].Method == c.Method:
			out.count("relay")
		default:
			out.count("hijack-rejected")
		}
		if obs.Status >= 400 || obs.StreamErr {
			out.count("error-response")
		}
		nontriv := len(c.Query) > 0 || c.RawQ != nil || c.Body != ""
		out.add(vc12Term(c, &obs, rig.proxy.config.ExtractHeadersPath), c, obs, nontriv)
	}
}
