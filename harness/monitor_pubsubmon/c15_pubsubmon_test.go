//go:build verif

package pubsubmon

import (
	"reflect"
	"testing"
)

func TestVerifC15Pubsubmon(t *testing.T) {
	vc15Main(t, &vc15Section{
		Name: "pubsubmon", Index: 8, EnvPrefix: "CLUSTER_PUBSUBMON",
		New:      func() vc15Config { return &Config{} },
		JSONType: reflect.TypeOf(jsonConfig{}),
		Hints:    map[string]string{"check_interval": "dur"},
	})
}
