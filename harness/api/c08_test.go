//go:build verif

package api

// C08 correspondence harness: values of the API record types are pushed through the real encoders and
// decoders (ProtoMarshal/ProtoUnmarshal, ugorji msgpack, encoding/json, ToQuery/FromQuery, status names,
// Equals); what comes back is rendered by the harness's own printers and compared inside Coq with the
// model (Model/C08_*.v) and with the boolean form of the property (Model/C08_Check.v).

import (
	"encoding/json"
	"fmt"
	"net/url"
	"sort"
	"strconv"
	"strings"
	"testing"
	"time"

	cid "github.com/ipfs/go-cid"
	peer "github.com/libp2p/go-libp2p-core/peer"
	multiaddr "github.com/multiformats/go-multiaddr"

	pb "github.com/ipfs/ipfs-cluster/api/pb"

	proto "google.golang.org/protobuf/proto"
)

type vc08TokIn struct {
	K int `json:"k"` // 0 empty, 1 accepted value (universe index I), 2 junk bytes (index I)
	I int `json:"i"`
}

type vc08MsgIn struct {
	Cid     vc08TokIn   `json:"cid"`
	Type    int32       `json:"type"`
	Allocs  []vc08TokIn `json:"allocs"`
	Depth   int32       `json:"depth"`
	Ref     vc08TokIn   `json:"ref"`
	HasOpts bool        `json:"has_opts"`
	Rmin    int32       `json:"rmin"`
	Rmax    int32       `json:"rmax"`
	Name    []byte      `json:"name"`
	Shard   uint64      `json:"shard"`
	Meta    [][][]byte  `json:"meta"`
	Update  vc08TokIn   `json:"update"`
	Expire  uint64      `json:"expire"`
	Orig    []vc08TokIn `json:"orig"`
	Old     *vc08PinIn  `json:"old,omitempty"` // decode onto this value instead of a fresh one
}

type vc08Case struct {
	Kind  string      `json:"kind"`
	Pin   *vc08PinIn  `json:"pin,omitempty"`
	Msg   *vc08MsgIn  `json:"msg,omitempty"`
	Opts  *vc08OptsIn `json:"opts,omitempty"`  // kind q: options through ToQuery / FromQuery
	Raw   [][][]byte  `json:"raw,omitempty"`   // kind qraw: [key, value] pairs of an arbitrary query
	Old   *vc08OptsIn `json:"old,omitempty"`   // kind qraw: receiver value FromQuery decodes onto
	Num   int64       `json:"num,omitempty"`   // kinds st, pt, md: the status mask / pin type / pin mode
	Text  []byte      `json:"text,omitempty"`  // kind straw: an arbitrary status string
	Type  string      `json:"type,omitempty"`  // kinds mp, js: record type
	Tape  []int       `json:"tape,omitempty"`  // kinds mp, js, mpo, jso: choices the value is built from
	Tape2 []int       `json:"tape2,omitempty"` // kinds mpo, jso: choices the destination's old content is built from
	Pin2  *vc08PinIn  `json:"pin2,omitempty"`  // kind eq: the pin compared with Pin
	Same  bool        `json:"same,omitempty"`  // kind eq: compare the value with itself (same pointer)
	Fuzz  *vc08Fuzz   `json:"fuzz,omitempty"`  // kind fuzz: one recorded malformed input
	Add   *vc08AddIn  `json:"add,omitempty"`   // kind ap: add parameters through ToQueryString / AddParamsFromQuery
}

// which universe a token's valid values come from
const (
	vc08UCid = iota
	vc08UPeer
	vc08UAddr
)

func vc08TokBytes(t vc08TokIn, u int) []byte {
	switch t.K {
	case 1:
		switch u {
		case vc08UCid:
			return vc08Cids[vc08Clamp(t.I, len(vc08Cids))].Bytes()
		case vc08UPeer:
			return []byte(vc08Peers[vc08Clamp(t.I, len(vc08Peers))])
		default:
			return vc08Addrs[vc08Clamp(t.I, len(vc08Addrs))].Bytes()
		}
	case 2:
		return vc08Junk[vc08Clamp(t.I, len(vc08Junk))]
	}
	return nil
}

func vc08GenTok(r *vRand, emptyPct, badPct, n int) vc08TokIn {
	x := r.intn(100)
	switch {
	case x < emptyPct:
		return vc08TokIn{0, 0}
	case x < emptyPct+badPct:
		return vc08TokIn{2, r.intn(len(vc08Junk))}
	}
	return vc08TokIn{1, r.intn(n)}
}

var vc08Enum = []int32{0, 1, 2, 3, 4, 5, 31, 62, 63, 64, 65, -1, 1<<31 - 1, -(1 << 31)}
var vc08I32 = []int32{0, 1, -1, 2, 3, 7, 1<<31 - 1, -(1 << 31), 100}
var vc08U64 = []uint64{0, 1, 2, 1790000000, 1<<63 - 1, 1 << 63, 1<<63 + 1, 1<<64 - 1, 1<<64 - 62135596800, 1<<64 - 62135596801, 253402300800}

func vc08GenMsg(r *vRand) vc08MsgIn {
	m := vc08MsgIn{
		Cid: vc08GenTok(r, 10, 10, len(vc08Cids)), Ref: vc08GenTok(r, 50, 10, len(vc08Cids)),
		Type: vc08Enum[r.intn(len(vc08Enum))], Depth: vc08I32[r.intn(len(vc08I32))],
		HasOpts: r.chance(88), Allocs: []vc08TokIn{}, Orig: []vc08TokIn{},
	}
	if r.chance(60) {
		m.Type = int32(r.intn(5))
		m.Depth = int32(r.rng(-1, 2))
	}
	bad := 0
	if r.chance(25) {
		bad = 12
	}
	for i, n := 0, r.intn(4); i < n; i++ {
		m.Allocs = append(m.Allocs, vc08GenTok(r, bad/2, bad, len(vc08Peers)))
	}
	if m.HasOpts {
		m.Rmin, m.Rmax = vc08I32[r.intn(len(vc08I32))], vc08I32[r.intn(len(vc08I32))]
		m.Name = []byte(vc08Strings[r.intn(len(vc08Strings))])
		m.Shard = vc08U64[r.intn(len(vc08U64))]
		for i, n := 0, r.intn(3); i < n; i++ {
			m.Meta = append(m.Meta, [][]byte{[]byte(vc08Strings[r.intn(len(vc08Strings))]), []byte(vc08Strings[r.intn(len(vc08Strings))])})
		}
		m.Update = vc08GenTok(r, 60, 10, len(vc08Cids))
		m.Expire = vc08U64[r.intn(len(vc08U64))]
		for i, n := 0, r.intn(3); i < n; i++ {
			m.Orig = append(m.Orig, vc08GenTok(r, bad/2, bad, len(vc08Addrs)))
		}
	}
	if r.chance(20) {
		old := vc08GenPin(r, false)
		m.Old = &old
	}
	return m
}

func (m *vc08MsgIn) build() (*pb.Pin, string) {
	p := &pb.Pin{Cid: vc08TokBytes(m.Cid, vc08UCid), Type: pb.Pin_PinType(m.Type), MaxDepth: m.Depth, Reference: vc08TokBytes(m.Ref, vc08UCid)}
	allocs := []string{}
	for _, a := range m.Allocs {
		b := vc08TokBytes(a, vc08UPeer)
		if b == nil {
			b = []byte{}
		}
		p.Allocations = append(p.Allocations, b)
		allocs = append(allocs, vc08TokPeer(b))
	}
	optsTerm := "None"
	if m.HasOpts {
		o := &pb.PinOptions{ReplicationFactorMin: m.Rmin, ReplicationFactorMax: m.Rmax, Name: string(m.Name), ShardSize: m.Shard,
			PinUpdate: vc08TokBytes(m.Update, vc08UCid), ExpireAt: m.Expire}
		meta := map[string]string{}
		for _, kv := range m.Meta {
			if len(kv) >= 2 {
				meta[string(kv[0])] = string(kv[1])
			}
		}
		if len(meta) > 0 {
			o.Metadata = meta
		}
		origs := []string{}
		for _, a := range m.Orig {
			b := vc08TokBytes(a, vc08UAddr)
			if b == nil {
				b = []byte{}
			}
			o.Origins = append(o.Origins, b)
			origs = append(origs, vc08TokAddr(b))
		}
		p.Options = o
		optsTerm = fmt.Sprintf("(Some (mk_pbopts %s %s %s %s %s %s %s %s))", vc08Z(int64(m.Rmin)), vc08Z(int64(m.Rmax)), vc08Str(string(m.Name)),
			vc08N(m.Shard), vc08Meta(meta), vc08TokCid(o.PinUpdate), vc08N(m.Expire), cqList(origs))
	}
	term := fmt.Sprintf("(mk_pbpin %s %s %s %s %s %s)", vc08TokCid(p.Cid), vc08Z(int64(m.Type)), cqList(allocs), vc08Z(int64(m.Depth)),
		vc08TokCid(p.Reference), optsTerm)
	return p, term
}

// ---------------------------------------------------------------- running one case
type vc08Ctx struct {
	out    *vOut
	input  interface{}
	direct func(sig string, detail string)
}

func vc08Guard(c vc08Case, what string, f func()) {
	defer func() {
		if e := recover(); e != nil {
			b, _ := json.Marshal(map[string]interface{}{"signature": "panic-" + what, "detail": fmt.Sprint(e), "case": map[string]interface{}{"input": c}})
			fmt.Printf("VERIF-DIRECT-VIOLATION %s\n", b)
		}
	}()
	f()
}

// ProtoMarshal, then ProtoUnmarshal into a fresh value
func vc08PbCycle(p *Pin) string {
	bs, err := p.ProtoMarshal()
	if err != nil {
		return "ObsEncErr"
	}
	q := &Pin{}
	if err := q.ProtoUnmarshal(bs); err != nil {
		return "ObsDecErr"
	}
	return "(ObsPin " + vc08PinTerm(q) + ")"
}

func vc08RunPb(out *vOut, c vc08Case) {
	p := c.Pin.build()
	in := vc08PinTerm(p)
	obs := vc08PbCycle(p)
	out.count("pb:" + obs[:9])
	interesting := 0
	for _, b := range []bool{len(p.Allocations) > 0, len(p.Origins) > 0, len(p.Metadata) > 0, p.Reference != nil, !p.ExpireAt.IsZero(), p.PinUpdate.Defined()} {
		if b {
			interesting++
		}
	}
	out.add(fmt.Sprintf("CPb %s %s", in, obs), c, obs, interesting >= 2)
}

func vc08RunPbMsg(out *vOut, c vc08Case) {
	msg, term := c.Msg.build()
	bs, err := proto.Marshal(msg)
	if err != nil {
		panic(err) // the generator only builds encodable messages
	}
	q := &Pin{}
	old := "zero_pin"
	if c.Msg.Old != nil {
		q = c.Msg.Old.build()
		old = vc08PinTerm(q)
	}
	obs, obs2 := "ObsDecErr", "ObsDecErr"
	if err := q.ProtoUnmarshal(bs); err == nil {
		obs = "(ObsPin " + vc08PinTerm(q) + ")"
		obs2 = vc08PbCycle(q)
	}
	out.count("pbmsg:" + obs[:9])
	out.add(fmt.Sprintf("CPbMsg %s %s %s %s", old, term, obs, obs2), c, []string{obs, obs2}, true)
}

// ---------------------------------------------------------------- query form
// outcomes of the trusted parsers on the texts of one case
type vc08Oracle struct {
	noncanon    bool // a parser accepted a text that is not the printer's output for the value (the model identifies a value with its canonical text)
	peers, cids []string
	addrs       map[string]bool
	times       map[string]time.Time
	durs        map[string]time.Duration
}

func vc08NewOracle() *vc08Oracle {
	return &vc08Oracle{addrs: map[string]bool{}, times: map[string]time.Time{}, durs: map[string]time.Duration{}}
}

func (o *vc08Oracle) askPeer(s string) {
	if p, err := peer.Decode(s); err == nil {
		o.peers = append(o.peers, s)
		o.noncanon = o.noncanon || peer.Encode(p) != s
	}
}
func (o *vc08Oracle) askCid(s string) {
	if c, err := cid.Decode(s); err == nil {
		o.cids = append(o.cids, s)
		o.noncanon = o.noncanon || c.String() != s
	}
}
func (o *vc08Oracle) askAddr(s string) {
	if m, err := multiaddr.NewMultiaddr(s); err == nil {
		_, e2 := m.ValueForProtocol(multiaddr.P_P2P)
		o.addrs[s] = e2 == nil
		o.noncanon = o.noncanon || m.String() != s
	}
}
func (o *vc08Oracle) askTime(s string) {
	var tm time.Time
	if err := tm.UnmarshalText([]byte(s)); err == nil {
		o.times[s] = tm
	}
}
func (o *vc08Oracle) askDur(s string) {
	if d, err := time.ParseDuration(s); err == nil {
		o.durs[s] = d
	}
}

// the texts ToQuery would produce for this value
func (o *vc08Oracle) askOpts(po *PinOptions) {
	for _, s := range PeersToStrings(po.UserAllocations) {
		o.askPeer(s)
	}
	if po.PinUpdate.Defined() {
		o.askCid(po.PinUpdate.String())
	}
	for _, a := range po.Origins {
		o.askAddr(a.String())
	}
	if !po.ExpireAt.IsZero() {
		if b, err := po.ExpireAt.MarshalText(); err == nil {
			o.askTime(string(b))
		}
	}
}

func vc08Instant(t time.Time) string { return fmt.Sprintf("(%s, %d)", vc08Z(t.Unix()), t.Nanosecond()) }

func (o *vc08Oracle) term() string {
	uniq := func(xs []string) []string {
		sort.Strings(xs)
		out := []string{}
		for i, x := range xs {
			if i == 0 || xs[i-1] != x {
				out = append(out, vc08Str(x))
			}
		}
		return out
	}
	var as, ts, ds []string
	for _, k := range vc08SortedKeys(len(o.addrs), func(f func(string)) {
		for k := range o.addrs {
			f(k)
		}
	}) {
		as = append(as, fmt.Sprintf("(%s, %s)", vc08Str(k), cqBool(o.addrs[k])))
	}
	for _, k := range vc08SortedKeys(len(o.times), func(f func(string)) {
		for k := range o.times {
			f(k)
		}
	}) {
		ts = append(ts, fmt.Sprintf("(%s, %s)", vc08Str(k), vc08Instant(o.times[k])))
	}
	for _, k := range vc08SortedKeys(len(o.durs), func(f func(string)) {
		for k := range o.durs {
			f(k)
		}
	}) {
		ds = append(ds, fmt.Sprintf("(%s, %s)", vc08Str(k), vc08Z(int64(o.durs[k]))))
	}
	return fmt.Sprintf("(mk_orc %s %s %s %s %s)", cqList(uniq(o.peers)), cqList(uniq(o.cids)), cqList(as), cqList(ts), cqList(ds))
}

func vc08SortedKeys(n int, each func(func(string))) []string {
	out := make([]string, 0, n)
	each(func(k string) { out = append(out, k) })
	sort.Strings(out)
	return out
}

// ToQuery, the wire (Encode / ParseQuery), FromQuery into a fresh value
func vc08QCycle(po *PinOptions) string {
	qs, err := po.ToQuery()
	if err != nil {
		return "ObsQEncErr"
	}
	vals, err := url.ParseQuery(qs)
	if err != nil {
		return "ObsQDecErr"
	}
	var back PinOptions
	if err := back.FromQuery(vals); err != nil {
		return "ObsQDecErr"
	}
	return "(ObsQ " + vc08OptsTerm(&back) + ")"
}

func vc08RunQ(out *vOut, c vc08Case) {
	po := c.Opts.build()
	orc := vc08NewOracle()
	orc.askOpts(&po)
	obs := vc08QCycle(&po)
	out.count("q:" + obs[:6])
	nt := len(po.Metadata) > 0 || len(po.Origins) > 0 || len(po.UserAllocations) > 0 || !po.ExpireAt.IsZero()
	out.add(fmt.Sprintf("CQuery %s %s %s", orc.term(), vc08OptsTerm(&po), obs), c, obs, nt)
}

func vc08RunQRaw(out *vOut, c vc08Case) {
	vals := url.Values{}
	for _, kv := range c.Raw {
		if len(kv) >= 2 {
			vals.Set(string(kv[0]), string(kv[1]))
		}
	}
	orc := vc08NewOracle()
	for _, s := range strings.Split(vals.Get("user-allocations"), ",") {
		orc.askPeer(s)
	}
	for _, s := range strings.Split(vals.Get("origins"), ",") {
		orc.askAddr(s)
	}
	orc.askCid(vals.Get("pin-update"))
	orc.askTime(vals.Get("expire-at"))
	orc.askDur(vals.Get("expire-in"))
	keys := vc08SortedKeys(len(vals), func(f func(string)) {
		for k := range vals {
			f(k)
		}
	})
	qt := make([]string, len(keys))
	for i, k := range keys {
		qt[i] = "(" + vc08Str(k) + ", " + vc08Str(vals.Get(k)) + ")"
	}
	if orc.noncanon {
		out.count("qraw:skipped-noncanonical-text")
		return
	}
	var po PinOptions
	old := "zero_opts"
	if c.Old != nil {
		po = c.Old.build()
		old = vc08OptsTerm(&po)
	}
	// wire form, as the REST layer receives it
	wire, err := url.ParseQuery(vals.Encode())
	if err != nil {
		panic(err)
	}
	t0 := time.Now()
	err = po.FromQuery(wire)
	t1 := time.Now()
	obs, obs2 := "ObsQDecErr", "ObsQDecErr"
	if err == nil {
		// expire-in: the clock reading the code took lies between t0 and t1; report it as t0
		if d, ok := orc.durs[vals.Get("expire-in")]; ok && vals.Get("expire-at") == "" {
			taken := po.ExpireAt.Add(-d)
			if !taken.Before(t0) && !taken.After(t1) {
				po.ExpireAt = t0.Add(d)
			}
		}
		obs = "(ObsQ " + vc08OptsTerm(&po) + ")"
		orc.askOpts(&po)
		obs2 = vc08QCycle(&po)
	}
	out.count("qraw:" + obs[:6])
	out.add(fmt.Sprintf("CQRaw %s %s %s %s %s %s", orc.term(), vc08Instant(t0), old, cqList(qt), obs, obs2), c, []string{obs, obs2}, err == nil)
}

var vc08QInts = []string{"", "0", "1", "-1", "+3", "007", " 5", "5 ", "1e3", "0x10", "9223372036854775807", "9223372036854775808",
	"-9223372036854775808", "-9223372036854775809", "--1", "+", "-", "1_000", "٣", "12a", "2", "3", "-2", "18446744073709551615", "18446744073709551616", "-0"}
var vc08QModes = []string{"recursive", "direct", "", "Direct", "junk", "recursive "}
var vc08QTimes = []string{"2026-01-02T03:04:05Z", "2026-01-02T03:04:05.123456789+02:00", "junk", "1970-01-01T00:00:00Z", "0001-01-01T00:00:00Z",
	"2026-01-02T03:04:05.12Z", "9999-12-31T23:59:59.999999999Z", "2026-01-02 03:04:05Z", "1969-12-31T23:59:59.5Z", "10000-01-01T00:00:00Z", "0000-01-01T00:00:00Z"}
var vc08QDurs = []string{"1h", "1s", "999ms", "1.5s", "-1h", "junk", "1000000000ns", "2540400h", "999999999ns", "1h30m", "0", "1"}
var vc08QMetaKeys = []string{"meta-a", "meta-", "meta-meta-x", "Meta-a", "meta", "meta-a b", "meta-ü", "meta-k=v", "meta-b"}
var vc08QOther = []string{"junk", "replication-", "local", "shard", "expire", "origin"}

func vc08GenQRaw(r *vRand) vc08Case {
	c := vc08Case{Kind: "qraw"}
	add := func(k, v string) { c.Raw = append(c.Raw, [][]byte{[]byte(k), []byte(v)}) }
	pick := func(xs []string) string { return xs[r.intn(len(xs))] }
	good := r.chance(55) // mostly-valid queries, so that decoding reaches the later fields
	intv := func() string {
		if good {
			return []string{"0", "1", "-1", "2", "3", "+3", "007"}[r.intn(7)]
		}
		return pick(vc08QInts)
	}
	if r.chance(60) {
		add("replication-min", intv())
	}
	if r.chance(60) {
		add("replication-max", intv())
	}
	if r.chance(25) {
		add("replication", intv())
	}
	if r.chance(60) {
		add("name", pick(vc08Strings))
	}
	if r.chance(60) {
		add("mode", pick(vc08QModes))
	}
	if r.chance(50) {
		if good {
			add("shard-size", []string{"0", "1024", "18446744073709551615", "007"}[r.intn(4)])
		} else {
			add("shard-size", pick(vc08QInts))
		}
	}
	list := func(n int, item func() string) string {
		xs := []string{}
		for i := 0; i < n; i++ {
			xs = append(xs, item())
		}
		return strings.Join(xs, ",")
	}
	if r.chance(50) {
		add("user-allocations", list(r.rng(0, 4), func() string {
			if r.chance(12) {
				return []string{"", "junk", " " + peer.Encode(vc08Peers[0]), "Qm"}[r.intn(4)]
			}
			return peer.Encode(vc08Peers[r.intn(len(vc08Peers))])
		}))
	}
	if r.chance(45) {
		if good {
			add("expire-at", vc08QTimes[[]int{0, 1, 5, 6, 8}[r.intn(5)]])
		} else {
			add("expire-at", pick(vc08QTimes))
		}
	}
	if r.chance(35) {
		if good {
			add("expire-in", []string{"1h", "1s", "1.5s", "1h30m", "1000000000ns"}[r.intn(5)])
		} else {
			add("expire-in", pick(vc08QDurs))
		}
	}
	for i, n := 0, r.intn(4); i < n; i++ {
		add(pick(vc08QMetaKeys), pick(vc08Strings))
	}
	if r.chance(30) {
		add(pick(vc08QOther), pick(vc08Strings))
	}
	if r.chance(40) {
		v := vc08Cids[r.intn(len(vc08Cids))].String()
		if !good && r.chance(30) {
			v = []string{"junk", v + "x", "Qm", " " + v}[r.intn(4)]
		}
		add("pin-update", v)
	}
	if r.chance(45) {
		add("origins", list(r.rng(0, 3), func() string {
			if !good && r.chance(20) {
				return []string{"", "junk", "/ip4/1.2.3.4", "/ip4/999.1.1.1/tcp/1"}[r.intn(4)]
			}
			i := r.intn(len(vc08Addrs))
			if good && i == 5 {
				i = 0
			}
			return vc08Addrs[i].String()
		}))
	}
	if r.chance(20) {
		old := vc08GenOpts(r, false)
		c.Old = &old
	}
	return c
}

// ---------------------------------------------------------------- Equals
func vc08RunEq(out *vOut, c vc08Case) {
	p := c.Pin.build()
	q := p
	if !c.Same {
		if c.Pin2 == nil {
			return
		}
		q = c.Pin2.build()
	}
	b := p.Equals(q)
	bo := p.PinOptions.Equals(&q.PinOptions)
	out.count(fmt.Sprintf("eq:%v", b))
	out.add(fmt.Sprintf("CEquals %s %s %s %s %s", cqBool(c.Same), vc08PinTerm(p), vc08PinTerm(q), cqBool(b), cqBool(bo)), c, []bool{b, bo}, true)
}

func vc08ClonePin(p vc08PinIn) vc08PinIn {
	b, _ := json.Marshal(p)
	var q vc08PinIn
	if err := json.Unmarshal(b, &q); err != nil {
		panic(err)
	}
	return q
}

func vc08ShuffleInts(r *vRand, xs []int) {
	for i := len(xs) - 1; i > 0; i-- {
		j := r.intn(i + 1)
		xs[i], xs[j] = xs[j], xs[i]
	}
}

// one change to one field (or none, or only a reordering)
func vc08MutatePin(r *vRand, p vc08PinIn) vc08PinIn {
	q := vc08ClonePin(p)
	o := &q.Opts
	otherPeer := func(xs []int) int {
		for try := 0; try < 20; try++ {
			c := r.intn(len(vc08Peers))
			dup := false
			for _, x := range xs {
				dup = dup || x == c
			}
			if !dup {
				return c
			}
		}
		return r.intn(len(vc08Peers))
	}
	switch r.intn(34) {
	case 0, 1, 2, 3:
		// identical
	case 4:
		vc08ShuffleInts(r, q.Allocs)
	case 5:
		vc08ShuffleInts(r, o.UA)
	case 6:
		vc08ShuffleInts(r, o.Orig)
	case 7:
		o.Name = append(append([]byte{}, o.Name...), 'x')
	case 8:
		o.Mode = 1 - o.Mode
	case 9:
		o.Rmin++
	case 10:
		o.Rmax--
	case 11:
		o.Shard++
	case 12:
		if len(o.UA) > 0 {
			o.UA[r.intn(len(o.UA))] = otherPeer(o.UA)
		} else {
			o.UA = []int{r.intn(len(vc08Peers))}
		}
	case 13:
		if len(o.UA) > 0 {
			o.UA = o.UA[1:]
		}
	case 14:
		if len(o.Exp) >= 2 {
			o.Exp[1] = (o.Exp[1] + 1) % 1000000000
		} else {
			o.Exp = []int64{1700000000, 0}
		}
	case 15:
		if len(o.Exp) >= 2 {
			o.Exp = []int64{}
		} else {
			o.Exp = []int64{0, 0}
		}
	case 16: // remove one metadata key (the S4 regression)
		if len(o.Meta) > 0 {
			i := r.intn(len(o.Meta))
			o.Meta = append(o.Meta[:i:i], o.Meta[i+1:]...)
		}
	case 17:
		o.Meta = append(o.Meta, [][]byte{[]byte("added-key"), vc08GenStr(r, 0)})
	case 18:
		if len(o.Meta) > 0 {
			i := r.intn(len(o.Meta))
			o.Meta[i] = [][]byte{o.Meta[i][0], append(append([]byte{}, o.Meta[i][1]...), '!')}
		}
	case 19:
		o.Meta = append(o.Meta, [][]byte{[]byte(""), []byte("value under the empty key")})
	case 20: // a key mapped to "" versus the key absent
		if len(o.Meta) > 0 {
			i := r.intn(len(o.Meta))
			o.Meta[i] = [][]byte{o.Meta[i][0], []byte("")}
			p.Opts.Meta[i] = [][]byte{p.Opts.Meta[i][0], []byte("")}
			o.Meta = append(o.Meta[:i:i], o.Meta[i+1:]...)
		}
	case 21:
		o.Update = (o.Update+2)%(len(vc08Cids)+1) - 1 // ignored by Equals
	case 22:
		if len(o.Orig) > 0 {
			o.Orig[r.intn(len(o.Orig))] = r.intn(len(vc08Addrs))
		} else {
			o.Orig = []int{r.intn(len(vc08Addrs))}
		}
	case 23:
		if len(o.Orig) > 1 {
			o.Orig[0] = o.Orig[1] // one origin listed twice
		}
	case 24:
		if len(o.Orig) > 0 {
			o.Orig = o.Orig[1:]
		}
	case 25:
		q.Cid = (q.Cid + 1) % len(vc08Cids)
	case 26:
		q.Type = q.Type*2 + 1
	case 27:
		q.Depth++
	case 28:
		if len(q.Ref) > 0 {
			q.Ref = []int{}
		} else {
			q.Ref = []int{r.intn(len(vc08Cids))}
		}
	case 29:
		if len(q.Ref) > 0 {
			q.Ref = []int{(q.Ref[0] + 1) % len(vc08Cids)}
		}
	case 30:
		if len(q.Allocs) > 0 {
			q.Allocs[r.intn(len(q.Allocs))] = otherPeer(q.Allocs)
		} else {
			q.Allocs = []int{r.intn(len(vc08Peers))}
		}
	case 31:
		if len(q.Allocs) > 0 {
			q.Allocs = q.Allocs[1:]
		}
	case 32:
		if o.Meta == nil {
			o.Meta = [][][]byte{}
		} else if len(o.Meta) == 0 {
			o.Meta = nil
		}
	default:
		if len(q.Allocs) > 1 {
			q.Allocs[0] = q.Allocs[1] // one peer twice, another dropped
		}
	}
	return q
}

func vc08GenEq(r *vRand) vc08Case {
	p := vc08GenPin(r, r.chance(10))
	if r.chance(4) {
		return vc08Case{Kind: "eq", Pin: &p, Same: true}
	}
	q := vc08MutatePin(r, p)
	return vc08Case{Kind: "eq", Pin: &p, Pin2: &q}
}

// ---------------------------------------------------------------- names of statuses, types, modes
func vc08RunNames(out *vOut, c vc08Case) {
	switch c.Kind {
	case "st":
		m := c.Num
		if m < 0 {
			m = -m
		}
		s := TrackerStatus(m).String()
		back := TrackerStatusFromString(s)
		out.count("st")
		out.add(fmt.Sprintf("CStatus %d %s %d", m, vc08Str(s), int64(back)), c, []interface{}{s, int64(back)}, m&(m-1) != 0)
	case "straw":
		back := TrackerStatusFromString(string(c.Text))
		if back < 0 {
			panic("negative status")
		}
		out.count("straw")
		out.add(fmt.Sprintf("CStatusRaw %s %d", vc08Str(string(c.Text)), int64(back)), c, int64(back), true)
	case "pt":
		t := uint64(c.Num)
		s := PinType(t).String()
		back := PinTypeFromString(s)
		out.count("pt")
		out.add(fmt.Sprintf("CPinType %d %s %d", t, vc08Str(s), uint64(back)), c, []interface{}{s, uint64(back)}, true)
	case "md":
		s := PinMode(c.Num).String()
		back := PinModeFromString(s)
		out.count("md")
		out.add(fmt.Sprintf("CModeStr %s %s %s", vc08Z(c.Num), vc08Str(s), vc08Z(int64(back))), c, []interface{}{s, int64(back)}, true)
	}
}

var vc08StNames = []string{"undefined", "cluster_error", "pin_error", "unpin_error", "error", "pinned", "pinning", "unpinning", "unpinned",
	"remote", "pin_queued", "unpin_queued", "queued", "sharded", "unexpectedly_unpinned", "", "Pinned", "pin error", "junk", "pin_", "errors"}

func vc08GenNames(r *vRand) vc08Case {
	switch x := r.intn(100); {
	case x < 55:
		var m int64
		switch y := r.intn(100); {
		case y < 45:
			m = int64(r.intn(4096)) * 2 // masks of defined bits
		case y < 60:
			m = int64(1) << uint(r.rng(1, 12))
		case y < 70:
			m = []int64{14, 1536, 14 | 1536, 14 | 16, 6, 12, 10, 512, 1024, 1536 | 2048, 8190, 0}[r.intn(12)]
		case y < 80:
			m = int64(r.intn(8192)) // bit 0 may be set
		default:
			m = int64(r.next() >> uint(r.rng(2, 50))) // undefined high bits
		}
		return vc08Case{Kind: "st", Num: m}
	case x < 80:
		n := r.rng(0, 4)
		parts := []string{}
		for i := 0; i < n; i++ {
			p := vc08StNames[r.intn(len(vc08StNames))]
			if r.chance(15) {
				p = " " + p
			}
			if r.chance(10) {
				p = p + " "
			}
			parts = append(parts, p)
		}
		sep := ","
		if r.chance(10) {
			sep = ", "
		}
		if r.chance(5) {
			sep = ";"
		}
		return vc08Case{Kind: "straw", Text: []byte(strings.Join(parts, sep))}
	case x < 92:
		t := []int64{1, 2, 4, 8, 16, 30, 0, 3, 32, 6, 31, 1 << 40}[r.intn(12)]
		return vc08Case{Kind: "pt", Num: t}
	default:
		return vc08Case{Kind: "md", Num: int64(r.rng(-1, 3))}
	}
}

func protoMarshalV(m *pb.Pin) ([]byte, error) { return proto.Marshal(m) }

// ---------------------------------------------------------------- byte-level stored form
func vc08Bytes(b []byte) string {
	xs := make([]string, len(b))
	for i, x := range b {
		xs[i] = strconv.Itoa(int(x))
	}
	return "[" + strings.Join(xs, ";") + "]"
}

func vc08RunWire(out *vOut, c vc08Case) {
	c.Msg.Old = nil
	msg, _ := c.Msg.build()
	det, err := proto.MarshalOptions{Deterministic: true}.Marshal(msg)
	if err != nil {
		panic(err)
	}
	real, err := proto.Marshal(msg)
	if err != nil {
		panic(err)
	}
	list := func(bs [][]byte) string {
		xs := make([]string, len(bs))
		for i, b := range bs {
			xs[i] = vc08Bytes(b)
		}
		return cqList(xs)
	}
	opts := "None"
	if o := msg.Options; o != nil {
		keys := make([]string, 0, len(o.Metadata))
		for k := range o.Metadata {
			keys = append(keys, k)
		}
		sort.Strings(keys)
		es := make([]string, len(keys))
		for i, k := range keys {
			es[i] = "(" + vc08Bytes([]byte(k)) + ", " + vc08Bytes([]byte(o.Metadata[k])) + ")"
		}
		opts = fmt.Sprintf("(Some (mk_wopts %s %s %s %s %s %s %s %s))", vc08Z(int64(o.ReplicationFactorMin)), vc08Z(int64(o.ReplicationFactorMax)),
			vc08Bytes([]byte(o.Name)), vc08N(o.ShardSize), cqList(es), vc08Bytes(o.PinUpdate), vc08N(o.ExpireAt), list(o.Origins))
	}
	term := fmt.Sprintf("(mk_wpin %s %s %s %s %s %s)", vc08Bytes(msg.Cid), vc08N(uint64(int64(msg.Type))), list(msg.Allocations),
		vc08Z(int64(msg.MaxDepth)), vc08Bytes(msg.Reference), opts)
	out.count("wire")
	out.add(fmt.Sprintf("CWire %s %s %s", term, vc08Bytes(det), vc08Bytes(real)), c, hexString(real), true)
}

func hexString(b []byte) string { return fmt.Sprintf("%x", b) }

func vc08Gen(r *vRand) vc08Case {
	switch x := r.intn(140); {
	case x >= 133:
		return vc08GenAddRaw(r)
	case x >= 125:
		return vc08GenAdd(r)
	case x >= 100:
		return vc08GenOnto(r)
	case x < 20:
		p := vc08GenPin(r, r.chance(35))
		return vc08Case{Kind: "pb", Pin: &p}
	case x < 32:
		m := vc08GenMsg(r)
		return vc08Case{Kind: "pbmsg", Msg: &m}
	case x < 44:
		o := vc08GenOpts(r, r.chance(30))
		return vc08Case{Kind: "q", Opts: &o}
	case x < 55:
		return vc08GenQRaw(r)
	case x < 66:
		return vc08GenNames(r)
	case x < 86:
		return vc08GenCodec(r)
	case x < 91:
		m := vc08GenMsg(r)
		m.Old = nil
		return vc08Case{Kind: "wire", Msg: &m}
	default:
		return vc08GenEq(r)
	}
}

func vc08Run(out *vOut, c vc08Case) {
	vc08Guard(c, c.Kind, func() {
		switch c.Kind {
		case "pb":
			if c.Pin != nil {
				vc08RunPb(out, c)
			}
		case "pbmsg":
			if c.Msg != nil {
				vc08RunPbMsg(out, c)
			}
		case "q":
			if c.Opts != nil {
				vc08RunQ(out, c)
			}
		case "qraw":
			vc08RunQRaw(out, c)
		case "st", "straw", "pt", "md":
			vc08RunNames(out, c)
		case "mp", "js":
			vc08RunCodec(out, c)
		case "mpo", "jso":
			vc08RunOnto(out, c)
		case "ap":
			if c.Add != nil {
				vc08RunAdd(out, c)
			}
		case "apraw":
			vc08RunAddRaw(out, c)
		case "eq":
			if c.Pin != nil {
				vc08RunEq(out, c)
			}
		case "fuzz":
			if c.Fuzz != nil {
				vc08RunFuzzCase(out, c)
			}
		case "wire":
			if c.Msg != nil {
				vc08RunWire(out, c)
			}
		}
	})
}

func TestVerifC08(t *testing.T) {
	vc08Init()
	seed := uint64(vEnvInt("VERIF_SEED", 1))
	n := vEnvInt("VERIF_N", 300)
	out := newVOut("C08", vc08Header(),
		"case", "Definition R := Eval vm_compute in failing cases.\nPrint R.")
	defer out.close()
	var cases []vc08Case
	if raw := vCasesIn(); raw != nil {
		for _, b := range raw {
			var c vc08Case
			if err := json.Unmarshal(b, &c); err != nil {
				t.Fatal(err)
			}
			cases = append(cases, c)
		}
	} else {
		r := newVRand(seed)
		for i := 0; i < n; i++ {
			cases = append(cases, vc08Gen(r))
		}
	}
	for _, c := range cases {
		vc08Run(out, c)
	}
	if vCasesIn() == nil {
		// malformed-input stream (fuzzing; reported as a test, not as a theorem)
		per := 20000
		if vEnvInt("VERIF_N", 0) > 20000 {
			per = 120000
		}
		per = vEnvInt("VERIF_FUZZ", per)
		vc08FuzzStream(out, seed, per)
	}
}
