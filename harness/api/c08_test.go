//go:build verif

package api

// C08 correspondence harness: values of the API record types are pushed through the real encoders and
// decoders (ProtoMarshal/ProtoUnmarshal, ugorji msgpack, encoding/json, ToQuery/FromQuery, status names,
// Equals); what comes back is rendered by the harness's own printers and compared inside Coq with the
// model (Model/C08_*.v) and with the boolean form of the property (Model/C08_Check.v).

import (
	"encoding/json"
	"fmt"
	"testing"

	pb "github.com/ipfs/ipfs-cluster/api/pb"

	proto "google.golang.org/protobuf/proto"
)

type vc08TokIn struct {
	K int `json:"k"` // 0 empty, 1 accepted value (universe index I), 2 junk bytes (index I)
	I int `json:"i"`
}

type vc08MsgIn struct {
	Cid     vc08TokIn   `json:"cid"`
	Type    int32       `json:"type"`
	Allocs  []vc08TokIn `json:"allocs"`
	Depth   int32       `json:"depth"`
	Ref     vc08TokIn   `json:"ref"`
	HasOpts bool        `json:"has_opts"`
	Rmin    int32       `json:"rmin"`
	Rmax    int32       `json:"rmax"`
	Name    []byte      `json:"name"`
	Shard   uint64      `json:"shard"`
	Meta    [][][]byte  `json:"meta"`
	Update  vc08TokIn   `json:"update"`
	Expire  uint64      `json:"expire"`
	Orig    []vc08TokIn `json:"orig"`
	Old     *vc08PinIn  `json:"old,omitempty"` // decode onto this value instead of a fresh one
}

type vc08Case struct {
	Kind string      `json:"kind"`
	Pin  *vc08PinIn  `json:"pin,omitempty"`
	Msg  *vc08MsgIn  `json:"msg,omitempty"`
}

// which universe a token's valid values come from
const (
	vc08UCid = iota
	vc08UPeer
	vc08UAddr
)

func vc08TokBytes(t vc08TokIn, u int) []byte {
	switch t.K {
	case 1:
		switch u {
		case vc08UCid:
			return vc08Cids[vc08Clamp(t.I, len(vc08Cids))].Bytes()
		case vc08UPeer:
			return []byte(vc08Peers[vc08Clamp(t.I, len(vc08Peers))])
		default:
			return vc08Addrs[vc08Clamp(t.I, len(vc08Addrs))].Bytes()
		}
	case 2:
		return vc08Junk[vc08Clamp(t.I, len(vc08Junk))]
	}
	return nil
}

func vc08GenTok(r *vRand, emptyPct, badPct, n int) vc08TokIn {
	x := r.intn(100)
	switch {
	case x < emptyPct:
		return vc08TokIn{0, 0}
	case x < emptyPct+badPct:
		return vc08TokIn{2, r.intn(len(vc08Junk))}
	}
	return vc08TokIn{1, r.intn(n)}
}

var vc08Enum = []int32{0, 1, 2, 3, 4, 5, 31, 62, 63, 64, 65, -1, 1<<31 - 1, -(1 << 31)}
var vc08I32 = []int32{0, 1, -1, 2, 3, 7, 1<<31 - 1, -(1 << 31), 100}
var vc08U64 = []uint64{0, 1, 2, 1790000000, 1<<63 - 1, 1 << 63, 1<<63 + 1, 1<<64 - 1, 1<<64 - 62135596800, 1<<64 - 62135596801, 253402300800}

func vc08GenMsg(r *vRand) vc08MsgIn {
	m := vc08MsgIn{
		Cid: vc08GenTok(r, 10, 10, len(vc08Cids)), Ref: vc08GenTok(r, 50, 10, len(vc08Cids)),
		Type: vc08Enum[r.intn(len(vc08Enum))], Depth: vc08I32[r.intn(len(vc08I32))],
		HasOpts: r.chance(88), Allocs: []vc08TokIn{}, Orig: []vc08TokIn{},
	}
	if r.chance(60) {
		m.Type = int32(r.intn(5))
		m.Depth = int32(r.rng(-1, 2))
	}
	bad := 0
	if r.chance(25) {
		bad = 12
	}
	for i, n := 0, r.intn(4); i < n; i++ {
		m.Allocs = append(m.Allocs, vc08GenTok(r, bad/2, bad, len(vc08Peers)))
	}
	if m.HasOpts {
		m.Rmin, m.Rmax = vc08I32[r.intn(len(vc08I32))], vc08I32[r.intn(len(vc08I32))]
		m.Name = []byte(vc08Strings[r.intn(len(vc08Strings))])
		m.Shard = vc08U64[r.intn(len(vc08U64))]
		for i, n := 0, r.intn(3); i < n; i++ {
			m.Meta = append(m.Meta, [][]byte{[]byte(vc08Strings[r.intn(len(vc08Strings))]), []byte(vc08Strings[r.intn(len(vc08Strings))])})
		}
		m.Update = vc08GenTok(r, 60, 10, len(vc08Cids))
		m.Expire = vc08U64[r.intn(len(vc08U64))]
		for i, n := 0, r.intn(3); i < n; i++ {
			m.Orig = append(m.Orig, vc08GenTok(r, bad/2, bad, len(vc08Addrs)))
		}
	}
	if r.chance(20) {
		old := vc08GenPin(r, false)
		m.Old = &old
	}
	return m
}

func (m *vc08MsgIn) build() (*pb.Pin, string) {
	p := &pb.Pin{Cid: vc08TokBytes(m.Cid, vc08UCid), Type: pb.Pin_PinType(m.Type), MaxDepth: m.Depth, Reference: vc08TokBytes(m.Ref, vc08UCid)}
	allocs := []string{}
	for _, a := range m.Allocs {
		b := vc08TokBytes(a, vc08UPeer)
		if b == nil {
			b = []byte{}
		}
		p.Allocations = append(p.Allocations, b)
		allocs = append(allocs, vc08TokPeer(b))
	}
	optsTerm := "None"
	if m.HasOpts {
		o := &pb.PinOptions{ReplicationFactorMin: m.Rmin, ReplicationFactorMax: m.Rmax, Name: string(m.Name), ShardSize: m.Shard,
			PinUpdate: vc08TokBytes(m.Update, vc08UCid), ExpireAt: m.Expire}
		meta := map[string]string{}
		for _, kv := range m.Meta {
			if len(kv) >= 2 {
				meta[string(kv[0])] = string(kv[1])
			}
		}
		if len(meta) > 0 {
			o.Metadata = meta
		}
		origs := []string{}
		for _, a := range m.Orig {
			b := vc08TokBytes(a, vc08UAddr)
			if b == nil {
				b = []byte{}
			}
			o.Origins = append(o.Origins, b)
			origs = append(origs, vc08TokAddr(b))
		}
		p.Options = o
		optsTerm = fmt.Sprintf("(Some (mk_pbopts %s %s %s %s %s %s %s %s))", vc08Z(int64(m.Rmin)), vc08Z(int64(m.Rmax)), vc08Str(string(m.Name)),
			vc08N(m.Shard), vc08Meta(meta), vc08TokCid(o.PinUpdate), vc08N(m.Expire), cqList(origs))
	}
	term := fmt.Sprintf("(mk_pbpin %s %s %s %s %s %s)", vc08TokCid(p.Cid), vc08Z(int64(m.Type)), cqList(allocs), vc08Z(int64(m.Depth)),
		vc08TokCid(p.Reference), optsTerm)
	return p, term
}

// ---------------------------------------------------------------- running one case
type vc08Ctx struct {
	out    *vOut
	input  interface{}
	direct func(sig string, detail string)
}

func vc08Guard(c vc08Case, what string, f func()) {
	defer func() {
		if e := recover(); e != nil {
			b, _ := json.Marshal(map[string]interface{}{"signature": "panic-" + what, "detail": fmt.Sprint(e), "case": map[string]interface{}{"input": c}})
			fmt.Printf("VERIF-DIRECT-VIOLATION %s\n", b)
		}
	}()
	f()
}

// ProtoMarshal, then ProtoUnmarshal into a fresh value
func vc08PbCycle(p *Pin) string {
	bs, err := p.ProtoMarshal()
	if err != nil {
		return "ObsEncErr"
	}
	q := &Pin{}
	if err := q.ProtoUnmarshal(bs); err != nil {
		return "ObsDecErr"
	}
	return "(ObsPin " + vc08PinTerm(q) + ")"
}

func vc08RunPb(out *vOut, c vc08Case) {
	p := c.Pin.build()
	in := vc08PinTerm(p)
	obs := vc08PbCycle(p)
	out.count("pb:" + obs[:9])
	interesting := 0
	for _, b := range []bool{len(p.Allocations) > 0, len(p.Origins) > 0, len(p.Metadata) > 0, p.Reference != nil, !p.ExpireAt.IsZero(), p.PinUpdate.Defined()} {
		if b {
			interesting++
		}
	}
	out.add(fmt.Sprintf("CPb %s %s", in, obs), c, obs, interesting >= 2)
}

func vc08RunPbMsg(out *vOut, c vc08Case) {
	msg, term := c.Msg.build()
	bs, err := proto.Marshal(msg)
	if err != nil {
		panic(err) // the generator only builds encodable messages
	}
	q := &Pin{}
	old := "zero_pin"
	if c.Msg.Old != nil {
		q = c.Msg.Old.build()
		old = vc08PinTerm(q)
	}
	obs, obs2 := "ObsDecErr", "ObsDecErr"
	if err := q.ProtoUnmarshal(bs); err == nil {
		obs = "(ObsPin " + vc08PinTerm(q) + ")"
		obs2 = vc08PbCycle(q)
	}
	out.count("pbmsg:" + obs[:9])
	out.add(fmt.Sprintf("CPbMsg %s %s %s %s", old, term, obs, obs2), c, []string{obs, obs2}, true)
}

func vc08Gen(r *vRand) vc08Case {
	switch x := r.intn(100); {
	case x < 60:
		p := vc08GenPin(r, r.chance(35))
		return vc08Case{Kind: "pb", Pin: &p}
	default:
		m := vc08GenMsg(r)
		return vc08Case{Kind: "pbmsg", Msg: &m}
	}
}

func vc08Run(out *vOut, c vc08Case) {
	vc08Guard(c, c.Kind, func() {
		switch c.Kind {
		case "pb":
			if c.Pin != nil {
				vc08RunPb(out, c)
			}
		case "pbmsg":
			if c.Msg != nil {
				vc08RunPbMsg(out, c)
			}
		}
	})
}

func TestVerifC08(t *testing.T) {
	vc08Init()
	seed := uint64(vEnvInt("VERIF_SEED", 1))
	n := vEnvInt("VERIF_N", 300)
	out := newVOut("C08", "From V Require Import Base.Common Base.C08_Str Model.C08_Codec Model.C08_Check.\nOpen Scope string_scope.\nOpen Scope N_scope.",
		"case", "Definition R := Eval vm_compute in failing cases.\nPrint R.")
	defer out.close()
	var cases []vc08Case
	if raw := vCasesIn(); raw != nil {
		for _, b := range raw {
			var c vc08Case
			if err := json.Unmarshal(b, &c); err != nil {
				t.Fatal(err)
			}
			cases = append(cases, c)
		}
	} else {
		r := newVRand(seed)
		for i := 0; i < n; i++ {
			cases = append(cases, vc08Gen(r))
		}
	}
	for _, c := range cases {
		vc08Run(out, c)
	}
}
