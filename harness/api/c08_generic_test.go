//go:build verif

package api

// C08 generic part: values of every API record type are built by reflection from a tape of choices
// (replayable and shrinkable), rendered by reflection as `val` terms of coq/Model/C08_Fmap.v, and pushed through
// the real msgpack (ugorji, default handle as gorpc / dsstate / go-libp2p-raft use it) and encoding/json codecs.

import (
	"encoding/json"
	"fmt"
	"reflect"
	"sort"
	"strings"
	"time"

	cid "github.com/ipfs/go-cid"
	peer "github.com/libp2p/go-libp2p-core/peer"
	multiaddr "github.com/multiformats/go-multiaddr"
	codec "github.com/ugorji/go/codec"
)

// record types under test, by the name used in the generated schema
var vc08Types = map[string]reflect.Type{
	"Pin":           reflect.TypeOf(Pin{}),
	"PinOptions":    reflect.TypeOf(PinOptions{}),
	"PinPath":       reflect.TypeOf(PinPath{}),
	"PinInfo":       reflect.TypeOf(PinInfo{}),
	"PinInfoShort":  reflect.TypeOf(PinInfoShort{}),
	"GlobalPinInfo": reflect.TypeOf(GlobalPinInfo{}),
	"ID":            reflect.TypeOf(ID{}),
	"IPFSID":        reflect.TypeOf(IPFSID{}),
	"Metric":        reflect.TypeOf(Metric{}),
	"Alert":         reflect.TypeOf(Alert{}),
	"AddedOutput":   reflect.TypeOf(AddedOutput{}),
	"RepoGC":        reflect.TypeOf(RepoGC{}),
	"IPFSRepoGC":    reflect.TypeOf(IPFSRepoGC{}),
	"GlobalRepoGC":  reflect.TypeOf(GlobalRepoGC{}),
	"Version":       reflect.TypeOf(Version{}),
	"Error":         reflect.TypeOf(Error{}),
	"ConnectGraph":  reflect.TypeOf(ConnectGraph{}),
	"NodeWithMeta":  reflect.TypeOf(NodeWithMeta{}),
	"IPFSRepoStat":  reflect.TypeOf(IPFSRepoStat{}),
	"AddParams":     reflect.TypeOf(AddParams{}),
	"IPFSAddParams": reflect.TypeOf(IPFSAddParams{}),
}

var vc08TypeNames []string

func vc08TypeList() []string {
	if vc08TypeNames == nil {
		for k := range vc08Types {
			vc08TypeNames = append(vc08TypeNames, k)
		}
		sort.Strings(vc08TypeNames)
	}
	return vc08TypeNames
}

var (
	vc08TTime   = reflect.TypeOf(time.Time{})
	vc08TCid    = reflect.TypeOf(cid.Cid{})
	vc08TPeer   = reflect.TypeOf(peer.ID(""))
	vc08TMaddrW = reflect.TypeOf(Multiaddr{})
	vc08TMaddrI = reflect.TypeOf((*multiaddr.Multiaddr)(nil)).Elem()
	vc08TStatus = reflect.TypeOf(TrackerStatus(0))
	vc08TMode   = reflect.TypeOf(PinMode(0))
	vc08TPType  = reflect.TypeOf(PinType(0))
	vc08TDepth  = reflect.TypeOf(PinDepth(0))
)

// ---------------------------------------------------------------- tape of choices
type vc08Tape struct {
	in    []int
	use   bool
	pos   int
	r     *vRand
	out   []int
	clean bool // mostly well-formed leaves (first choice of the tape)
	// decode-onto stream: an empty collection is always the nil one, addresses are private copies (encoding/json decodes
	// INTO the address an interface already holds), and a generated choice is 0 (the empty / zero alternative) with
	// probability sparse %
	onto   bool
	sparse int
}

func (t *vc08Tape) next(n int) int {
	v := 0
	if t.use {
		if t.pos < len(t.in) {
			v = t.in[t.pos]
		}
	} else if t.sparse > 0 && t.r.chance(t.sparse) {
		v = 0
	} else {
		v = t.r.intn(n)
	}
	t.pos++
	v = vc08Clamp(v, n)
	t.out = append(t.out, v)
	return v
}

var vc08GenInts = []int64{0, 1, -1, 2, 7, 100, 1 << 31, -(1 << 31) - 1, 1<<63 - 1, -(1 << 63), 255, 256, 65536, 1790000000000000000}
var vc08GenUints = []uint64{0, 1, 2, 127, 128, 255, 256, 65535, 65536, 1<<32 - 1, 1 << 32, 1<<63 - 1, 1 << 63, 1<<64 - 1, 104857600}
var vc08GenStrs = []string{"", "a", "name", "with space", "ünï", "日本", "\"q\"", "x/y?z#w", "tab\there", "<html>&amp;", "line\nbreak", "peer-1", "k"}
var vc08GenKeys = []string{"a", "b", "k", "", "key with space", "ü", "12D3", "z"}
var vc08GenStatus = []int{0, 2, 4, 8, 16, 32, 64, 128, 256, 512, 1024, 2048, 4096, 14, 1536, 20, 6, 8190, 1, 8192, 3}

func vc08FillTime(t *vc08Tape) time.Time {
	k := t.next(12)
	if t.clean && (k == 9 || k == 11) {
		k = 5
	}
	switch k {
	case 0, 1, 2:
		return time.Time{}
	case 3:
		return time.Unix(0, 0)
	case 4:
		return time.Unix(1600000000+int64(t.next(400000000)), 0)
	case 5, 6:
		return time.Unix(1600000000+int64(t.next(400000000)), int64(t.next(1000000000)))
	case 7:
		return time.Unix(-int64(t.next(1000000000)), int64(t.next(1000000000)))
	case 8:
		return time.Unix(253402300799, 999999999) // last instant of year 9999
	case 9:
		return time.Unix(253402300800+int64(t.next(1000)), 0) // year 10000
	case 10:
		return time.Unix(1700000000, 5).In(time.FixedZone("x", 3600*(t.next(25)-12)))
	default:
		return time.Unix(-62135596800, int64(1+t.next(999))) // just after the zero time
	}
}

func vc08Fill(v reflect.Value, t *vc08Tape, depth int) {
	ty := v.Type()
	switch ty {
	case vc08TTime:
		v.Set(reflect.ValueOf(vc08FillTime(t)))
		return
	case vc08TCid:
		if x := t.next(10); x < 1 || (x < 3 && !t.clean) {
			v.Set(reflect.ValueOf(cid.Undef))
		} else {
			v.Set(reflect.ValueOf(vc08Cids[t.next(len(vc08Cids))]))
		}
		return
	case vc08TPeer:
		switch x := t.next(20); {
		case x == 0 && !t.clean:
			v.SetString("")
		case x == 1 && !t.clean:
			v.SetString(string(vc08Junk[t.next(len(vc08Junk))]))
		default:
			v.SetString(string(vc08Peers[t.next(len(vc08Peers))]))
		}
		return
	case vc08TMaddrW:
		v.Set(reflect.ValueOf(Multiaddr{Multiaddr: vc08AddrOf(t, vc08Addrs[t.next(len(vc08Addrs))])}))
		return
	case vc08TStatus:
		k := t.next(len(vc08GenStatus))
		if t.clean && k >= len(vc08GenStatus)-3 {
			k = 5
		}
		v.SetInt(int64(vc08GenStatus[k]))
		return
	case vc08TMode:
		k := t.next(7)
		if t.clean {
			k = k % 6
		}
		v.SetInt(int64([]int{0, 1, 0, 1, 0, 1, 2}[k]))
		return
	case vc08TPType:
		v.SetUint([]uint64{2, 4, 8, 16, 1, 2, 2, 30, 0, 1 << 40}[t.next(10)])
		return
	case vc08TDepth:
		v.SetInt(int64(t.next(5) - 2))
		return
	}
	if ty == vc08TMaddrI {
		v.Set(reflect.ValueOf(vc08AddrOf(t, vc08Addrs[t.next(len(vc08Addrs))])))
		return
	}
	switch ty.Kind() {
	case reflect.Int, reflect.Int64, reflect.Int32:
		v.SetInt(vc08GenInts[t.next(len(vc08GenInts))])
	case reflect.Uint64, reflect.Uint32, reflect.Uint:
		v.SetUint(vc08GenUints[t.next(len(vc08GenUints))])
	case reflect.String:
		v.SetString(vc08GenStrs[t.next(len(vc08GenStrs))])
	case reflect.Bool:
		v.SetBool(t.next(2) == 1)
	case reflect.Slice:
		n := t.next(5) - 1 // -1: nil, 0: empty, 1..3 elements
		if n < 0 || (n == 0 && t.onto) {
			return
		}
		if depth > 3 && n > 1 {
			n = 1
		}
		s := reflect.MakeSlice(ty, n, n)
		for i := 0; i < n; i++ {
			if ty.Elem().Kind() == reflect.Uint8 {
				s.Index(i).SetUint(uint64(t.next(256)))
			} else {
				vc08Fill(s.Index(i), t, depth+1)
			}
		}
		v.Set(s)
	case reflect.Map:
		n := t.next(5) - 1
		if n < 0 || (n == 0 && t.onto) {
			return
		}
		m := reflect.MakeMap(ty)
		for i := 0; i < n; i++ {
			k := reflect.New(ty.Key()).Elem()
			nk := len(vc08GenKeys)
			if t.onto {
				nk = 3 // few keys: the destination and the decoded value meet on the same key often
			}
			k.SetString(vc08GenKeys[t.next(nk)])
			e := reflect.New(ty.Elem()).Elem()
			vc08Fill(e, t, depth+1)
			m.SetMapIndex(k, e)
		}
		v.Set(m)
	case reflect.Ptr:
		if t.next(10) < 3 {
			return
		}
		p := reflect.New(ty.Elem())
		vc08Fill(p.Elem(), t, depth+1)
		v.Set(p)
	case reflect.Struct:
		for i := 0; i < ty.NumField(); i++ {
			vc08Fill(v.Field(i), t, depth+1)
		}
	default:
		panic("vc08Fill: unsupported kind " + ty.String())
	}
}

func vc08AddrOf(t *vc08Tape, a multiaddr.Multiaddr) multiaddr.Multiaddr {
	if !t.onto {
		return a
	}
	c, err := multiaddr.NewMultiaddrBytes(a.Bytes())
	vc08Must(err)
	return c
}

// ---------------------------------------------------------------- rendering as a `val` term
func vc08Val(v reflect.Value) string {
	ty := v.Type()
	switch ty {
	case vc08TTime:
		return "(VTime " + vc08Time(v.Interface().(time.Time)) + ")"
	case vc08TCid:
		return "(VCid " + vc08Cid(v.Interface().(cid.Cid)) + ")"
	case vc08TPeer:
		return "(VPeer " + vc08TokPeer([]byte(v.String())) + ")"
	case vc08TMaddrW:
		m := v.Interface().(Multiaddr)
		if m.Multiaddr == nil {
			return "(VAddr None)"
		}
		return "(VAddr (Some " + vc08Str(m.String()) + "))"
	}
	if ty == vc08TMaddrI {
		if v.IsNil() {
			return "(VAddr None)"
		}
		return "(VAddr (Some " + vc08Str(v.Interface().(multiaddr.Multiaddr).String()) + "))"
	}
	switch ty.Kind() {
	case reflect.Int, reflect.Int64, reflect.Int32:
		return "(VInt " + vc08Z(v.Int()) + ")"
	case reflect.Uint64, reflect.Uint32, reflect.Uint:
		return "(VUint " + vc08N(v.Uint()) + ")"
	case reflect.String:
		return "(VStr " + vc08Str(v.String()) + ")"
	case reflect.Bool:
		return "(VBool " + cqBool(v.Bool()) + ")"
	case reflect.Slice:
		if ty.Elem().Kind() == reflect.Uint8 {
			return "(VBytes " + vc08Str(string(v.Bytes())) + ")"
		}
		xs := make([]string, v.Len())
		for i := range xs {
			xs[i] = vc08Val(v.Index(i))
		}
		return "(VList " + cqList(xs) + ")"
	case reflect.Map:
		keys := []string{}
		for _, k := range v.MapKeys() {
			keys = append(keys, k.String())
		}
		sort.Strings(keys)
		xs := make([]string, len(keys))
		for i, k := range keys {
			xs[i] = "(" + vc08Str(k) + ", " + vc08Val(v.MapIndex(reflect.ValueOf(k).Convert(ty.Key()))) + ")"
		}
		return "(VMap " + cqList(xs) + ")"
	case reflect.Ptr:
		if v.IsNil() {
			return "(VPtr None)"
		}
		return "(VPtr (Some " + vc08Val(v.Elem()) + "))"
	case reflect.Struct:
		return "(VRec " + cqList(vc08FieldVals(v)) + ")"
	}
	panic("vc08Val: unsupported kind " + ty.String())
}

// fields in declaration order, embedded structs promoted in place (as both encoders do)
func vc08FieldVals(v reflect.Value) []string {
	ty := v.Type()
	var xs []string
	for i := 0; i < ty.NumField(); i++ {
		f := ty.Field(i)
		if f.Anonymous && f.Type.Kind() == reflect.Struct && f.Type != vc08TTime && f.Type != vc08TCid && f.Type != vc08TMaddrW {
			xs = append(xs, vc08FieldVals(v.Field(i))...)
			continue
		}
		xs = append(xs, vc08Val(v.Field(i)))
	}
	return xs
}

// ---------------------------------------------------------------- the two codecs
func vc08MsgpackCycle(src reflect.Value) (string, []byte) {
	var buf []byte
	h := &codec.MsgpackHandle{}
	if err := codec.NewEncoderBytes(&buf, h).Encode(src.Addr().Interface()); err != nil {
		return "ObsVEncErr", nil
	}
	dst := reflect.New(src.Type())
	if err := codec.NewDecoderBytes(buf, &codec.MsgpackHandle{}).Decode(dst.Interface()); err != nil {
		return "ObsVDecErr", buf
	}
	return "(ObsV " + vc08Val(dst.Elem()) + ")", buf
}

func vc08JSONCycle(src reflect.Value) (string, []byte) {
	buf, err := json.Marshal(src.Addr().Interface())
	if err != nil {
		return "ObsVEncErr", nil
	}
	dst := reflect.New(src.Type())
	if err := json.Unmarshal(buf, dst.Interface()); err != nil {
		return "ObsVDecErr", buf
	}
	return "(ObsV " + vc08Val(dst.Elem()) + ")", buf
}

func vc08BuildValue(typ string, tape []int, r *vRand) (reflect.Value, []int, bool) {
	return vc08BuildValueOpt(typ, tape, r, false, 0)
}

func vc08BuildValueOpt(typ string, tape []int, r *vRand, onto bool, sparse int) (reflect.Value, []int, bool) {
	ty, ok := vc08Types[typ]
	if !ok {
		return reflect.Value{}, nil, false
	}
	t := &vc08Tape{in: tape, use: r == nil, r: r, onto: onto, sparse: sparse}
	t.clean = t.next(10) < 7
	v := reflect.New(ty).Elem()
	vc08Fill(v, t, 0)
	return v, t.out, true
}

func vc08RunCodec(out *vOut, c vc08Case) {
	v, _, ok := vc08BuildValue(c.Type, c.Tape, nil)
	if !ok {
		return
	}
	in := vc08Val(v)
	var obs string
	ctor := "CMsgpack"
	if c.Kind == "js" {
		ctor = "CJson"
		obs, _ = vc08JSONCycle(v)
	} else {
		obs, _ = vc08MsgpackCycle(v)
	}
	out.count(c.Kind + ":" + c.Type + ":" + obs[:strings.IndexAny(obs+" ", " ")])
	out.add(fmt.Sprintf("%s %s %s %s", ctor, vc08Str(c.Type), in, obs), c, obs, true)
}

func vc08GenCodec(r *vRand) vc08Case {
	names := vc08TypeList()
	typ := names[r.intn(len(names))]
	if r.chance(45) {
		typ = []string{"Pin", "PinOptions", "PinInfo", "GlobalPinInfo", "ID", "Metric", "Alert", "AddedOutput", "RepoGC"}[r.intn(9)]
	}
	_, tape, _ := vc08BuildValue(typ, nil, r.fork())
	kind := "mp"
	if r.chance(50) {
		kind = "js"
	}
	return vc08Case{Kind: kind, Type: typ, Tape: tape}
}

// ---------------------------------------------------------------- decoding onto a destination in use
// kinds mpo / jso: value B (Tape) is encoded and decoded INTO a destination of the same type that already holds value A
// (Tape2), with the same decoders and handles the fresh-value streams use; the result is compared with dec_onto.
func vc08RunOnto(out *vOut, c vc08Case) {
	a, _, ok := vc08BuildValueOpt(c.Type, c.Tape2, nil, true, 0)
	if !ok {
		return
	}
	b, _, _ := vc08BuildValueOpt(c.Type, c.Tape, nil, true, 0)
	ta, tb := vc08Val(a), vc08Val(b)
	obs := ""
	cd := "Msgpack"
	if c.Kind == "jso" {
		cd = "Json"
		buf, err := json.Marshal(b.Addr().Interface())
		if err != nil {
			obs = "ObsVEncErr"
		} else if err := json.Unmarshal(buf, a.Addr().Interface()); err != nil {
			obs = "ObsVDecErr"
		}
	} else {
		var buf []byte
		if err := codec.NewEncoderBytes(&buf, &codec.MsgpackHandle{}).Encode(b.Addr().Interface()); err != nil {
			obs = "ObsVEncErr"
		} else if err := codec.NewDecoderBytes(buf, &codec.MsgpackHandle{}).Decode(a.Addr().Interface()); err != nil {
			obs = "ObsVDecErr"
		}
	}
	if obs == "" {
		obs = "(ObsV " + vc08Val(a) + ")"
	}
	out.count(c.Kind + ":" + c.Type + ":" + obs[:strings.IndexAny(obs+" ", " ")])
	out.add(fmt.Sprintf("COnto %s %s %s %s %s", cd, vc08Str(c.Type), ta, tb, obs), c, obs, true)
}

func vc08GenOnto(r *vRand) vc08Case {
	names := vc08TypeList()
	typ := names[r.intn(len(names))]
	if r.chance(45) {
		// maps of pointers to structs, slices of structs, pointers to structs, interface elements
		typ = []string{"GlobalPinInfo", "GlobalRepoGC", "GlobalPinInfo", "GlobalRepoGC", "RepoGC", "ID", "Pin", "PinInfo", "ConnectGraph", "AddParams"}[r.intn(10)]
	}
	// the destination mostly full, the decoded value mostly sparse (empty members, nil pointers, shorter lists, other keys)
	_, ta, _ := vc08BuildValueOpt(typ, nil, r.fork(), true, []int{0, 0, 10, 40}[r.intn(4)])
	_, tb, _ := vc08BuildValueOpt(typ, nil, r.fork(), true, []int{0, 25, 50, 70}[r.intn(4)])
	kind := "mpo"
	if r.chance(50) {
		kind = "jso"
	}
	return vc08Case{Kind: kind, Type: typ, Tape: tb, Tape2: ta}
}
