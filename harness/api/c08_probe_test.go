//go:build verif

package api

import (
	"encoding/json"
	"fmt"
	"testing"
	"time"

	cid "github.com/ipfs/go-cid"
	peer "github.com/libp2p/go-libp2p-core/peer"
	codec "github.com/ugorji/go/codec"
)

func vc08ProbeMP(name string, src, dst interface{}) {
	var buf []byte
	err := codec.NewEncoderBytes(&buf, &codec.MsgpackHandle{}).Encode(src)
	if err != nil {
		fmt.Printf("PROBE mp %s: enc err %v\n", name, err)
		return
	}
	err = codec.NewDecoderBytes(buf, &codec.MsgpackHandle{}).Decode(dst)
	fmt.Printf("PROBE mp %s: wire %q dec err=%v -> %+v\n", name, buf, err, dst)
}
func vc08ProbeJS(name string, src, dst interface{}) {
	buf, err := json.Marshal(src)
	if err != nil {
		fmt.Printf("PROBE js %s: enc err %v\n", name, err)
		return
	}
	err = json.Unmarshal(buf, dst)
	fmt.Printf("PROBE js %s: wire %s dec err=%v -> %+v\n", name, buf, err, dst)
}

func TestVerifC08Probe(t *testing.T) {
	vc08Init()
	type A struct {
		C  cid.Cid   `json:"c" codec:"c"`
		CO cid.Cid   `json:"co,omitempty" codec:"co,omitempty"`
		P  peer.ID   `json:"p" codec:"p"`
		PO peer.ID   `json:"po,omitempty" codec:"po,omitempty"`
		T  time.Time `json:"t" codec:"t"`
		TO time.Time `json:"to,omitempty" codec:"to,omitempty"`
		R  *cid.Cid  `json:"r" codec:"r,omitempty"`
	}
	vc08ProbeMP("zero A", &A{}, &A{})
	vc08ProbeJS("zero A", &A{}, &A{})
	type B struct {
		C cid.Cid `json:"c" codec:"c"`
	}
	vc08ProbeMP("undef cid no-omit", &B{}, &B{})
	vc08ProbeJS("undef cid no-omit", &B{}, &B{})
	vc08ProbeJS("undef cid onto defined", &B{}, &B{C: vc08Cids[0]})
	type Cc struct {
		P peer.ID `json:"p" codec:"p"`
	}
	vc08ProbeMP("empty peer no-omit", &Cc{}, &Cc{})
	vc08ProbeJS("empty peer no-omit", &Cc{}, &Cc{})
	type D struct {
		T time.Time `json:"t" codec:"t"`
	}
	vc08ProbeMP("zero time no-omit", &D{}, &D{})
	vc08ProbeMP("time ns", &D{T: time.Unix(1700000000, 123456789)}, &D{})
	vc08ProbeMP("time neg", &D{T: time.Unix(-5, 7)}, &D{})
	vc08ProbeMP("time y10000", &D{T: time.Unix(253402300800, 0)}, &D{})
	vc08ProbeMP("time zone", &D{T: time.Unix(1700000000, 5).In(time.FixedZone("x", 7200))}, &D{})
	type E struct {
		TO time.Time `json:"to,omitempty" codec:"to,omitempty"`
		U  uint64    `codec:"s, omitempty"`
		X  cid.Cid   `codec:"x,omitempty"`
	}
	vc08ProbeMP("omitempty zero time / spaced tag", &E{}, &E{TO: time.Unix(5, 0), U: 7, X: vc08Cids[1]})
	vc08ProbeMP("omitempty unix-zero time", &E{TO: time.Unix(0, 0)}, &E{})
	ref := cid.Undef
	vc08ProbeMP("ref to undef", &A{C: vc08Cids[0], P: vc08Peers[0], R: &ref}, &A{})
	vc08ProbeJS("ref to undef", &A{C: vc08Cids[0], P: vc08Peers[0], R: &ref}, &A{})
	type F struct {
		M map[string]*PinInfoShort `json:"m" codec:"m,omitempty"`
		S TrackerStatus            `json:"s" codec:"s,omitempty"`
		O PinMode                  `json:"o" codec:"o,omitempty"`
	}
	vc08ProbeMP("nil ptr in map", &F{M: map[string]*PinInfoShort{"a": nil}, S: 20, O: 1}, &F{})
	vc08ProbeJS("nil ptr in map", &F{M: map[string]*PinInfoShort{"a": nil}, S: 20, O: 1}, &F{})
	vc08ProbeJS("status 1, mode 2", &F{S: 1, O: 2}, &F{})
	vc08ProbeMP("status 1, mode 2", &F{S: 1, O: 2}, &F{})
	type G struct {
		A []Multiaddr `json:"a" codec:"a,omitempty"`
		S string      `json:"s" codec:"s,omitempty"`
		B []byte      `json:"b" codec:"b,omitempty"`
	}
	vc08ProbeMP("multiaddr list", &G{A: []Multiaddr{{vc08Addrs[0]}}, S: "\xff", B: []byte{1, 2}}, &G{})
	vc08ProbeJS("multiaddr list", &G{A: []Multiaddr{{vc08Addrs[0]}}, S: "ok", B: []byte{1, 2}}, &G{})
	vc08ProbeJS("empty list vs nil", &G{A: []Multiaddr{}, B: []byte{}}, &G{})
	vc08ProbeMP("empty list vs nil", &G{A: []Multiaddr{}, B: []byte{}}, &G{})
}
