//go:build verif

package api

// C08, query form of the add parameters: generated AddParams values through the real AddParams.ToQueryString, the wire
// (url.ParseQuery) and the real AddParamsFromQuery (kind ap), and arbitrary queries through AddParamsFromQuery alone
// (kind apraw: absent keys, every spelling strconv.ParseBool accepts, unparsable values), against Model/C08_AddParams.v.

import (
	"fmt"
	"net/url"
)

type vc08AddIn struct {
	Opts      vc08OptsIn `json:"opts"`
	Local     bool       `json:"local"`
	Recursive bool       `json:"recursive"`
	Hidden    bool       `json:"hidden"`
	Wrap      bool       `json:"wrap"`
	Shard     bool       `json:"shard"`
	Stream    bool       `json:"stream"`
	Format    []byte     `json:"format"`
	Layout    []byte     `json:"layout"`
	Chunker   []byte     `json:"chunker"`
	RawLeaves bool       `json:"rawleaves"`
	Progress  bool       `json:"progress"`
	CidVer    int64      `json:"cidver"`
	Hash      []byte     `json:"hash"`
	NoCopy    bool       `json:"nocopy"`
}

func (in *vc08AddIn) build() *AddParams {
	return &AddParams{
		PinOptions: in.Opts.build(),
		Local:      in.Local, Recursive: in.Recursive, Hidden: in.Hidden, Wrap: in.Wrap, Shard: in.Shard, StreamChannels: in.Stream,
		Format: string(in.Format),
		IPFSAddParams: IPFSAddParams{Layout: string(in.Layout), Chunker: string(in.Chunker), RawLeaves: in.RawLeaves, Progress: in.Progress,
			CidVersion: int(in.CidVer), HashFun: string(in.Hash), NoCopy: in.NoCopy},
	}
}

func vc08AddTerm(p *AddParams) string {
	return fmt.Sprintf("(mk_addp %s %s %s %s %s %s %s %s %s %s %s %s %s %s %s)", vc08OptsTerm(&p.PinOptions),
		cqBool(p.Local), cqBool(p.Recursive), cqBool(p.Hidden), cqBool(p.Wrap), cqBool(p.Shard), cqBool(p.StreamChannels),
		vc08Str(p.Format), vc08Str(p.Layout), vc08Str(p.Chunker), cqBool(p.RawLeaves), cqBool(p.Progress), vc08Z(int64(p.CidVersion)),
		vc08Str(p.HashFun), cqBool(p.NoCopy))
}

var vc08Layouts = []string{"", "balanced", "trickle", "", "balanced", "Trickle", "junk"}
var vc08Formats = []string{"unixfs", "car", "", "unixfs", "car", "CAR", "tar"}
var vc08Chunkers = []string{"size-262144", "", "rabin-512-1024-2048", "size-1", "size-262144", "a,b", "ünï"}
var vc08Hashes = []string{"sha2-256", "", "blake2b-256", "sha3-512", "sha2-256", "with space", "x&y=z"}
var vc08CidVers = []int64{0, 1, 0, 1, -1, 2, 1<<31 - 1, -(1 << 31), 1<<63 - 1, -(1 << 63)}

func vc08GenAdd(r *vRand) vc08Case {
	wild := r.chance(15)
	pick := func(xs []string) []byte {
		n := len(xs) - 2 // the last two are refused by the decoder / unusual
		if wild {
			n = len(xs)
		}
		return []byte(xs[r.intn(n)])
	}
	a := vc08AddIn{Opts: vc08GenOpts(r, wild && r.chance(40)),
		Local: r.chance(50), Recursive: r.chance(50), Hidden: r.chance(50), Wrap: r.chance(50), Shard: r.chance(50), Stream: r.chance(50),
		Format: pick(vc08Formats), Layout: pick(vc08Layouts), Chunker: pick(vc08Chunkers), RawLeaves: r.chance(50), Progress: r.chance(50),
		CidVer: vc08CidVers[r.intn(len(vc08CidVers))], Hash: pick(vc08Hashes), NoCopy: r.chance(50)}
	// the boundary values of every numeric / text member of the embedded options: 0, the default, something else
	switch r.intn(4) {
	case 0:
		a.Opts.Shard = 0
	case 1:
		a.Opts.Shard = DefaultShardSize
	}
	switch r.intn(5) {
	case 0:
		a.Opts.Rmin, a.Opts.Rmax = 0, 0
	case 1:
		a.Opts.Rmin, a.Opts.Rmax = -1, -1
	}
	if r.chance(30) {
		a.Opts.Name = []byte{}
	}
	if r.chance(25) {
		// everything at its zero value: nothing may be filled in from the defaults
		a = vc08AddIn{Opts: vc08OptsIn{Update: -1, UA: []int{}, Exp: []int64{}, Orig: []int{}}, Format: a.Format, Layout: []byte{}, Chunker: a.Chunker, Hash: a.Hash}
		if r.chance(50) {
			a.Opts.Mode = 1
		}
	}
	if !wild {
		// origins that FromQuery accepts only
		orig := []int{}
		for _, i := range a.Opts.Orig {
			if i != 5 {
				orig = append(orig, i)
			}
		}
		a.Opts.Orig = orig
	}
	return vc08Case{Kind: "ap", Add: &a}
}

func vc08RunAdd(out *vOut, c vc08Case) {
	p := c.Add.build()
	orc := vc08NewOracle()
	orc.askOpts(&p.PinOptions)
	obs := "ObsADecErr"
	qs, err := p.ToQueryString()
	if err != nil {
		obs = "ObsAEncErr"
	} else if vals, err := url.ParseQuery(qs); err == nil {
		if back, err := AddParamsFromQuery(vals); err == nil {
			obs = "(ObsA " + vc08AddTerm(back) + ")"
		}
	}
	out.count("ap:" + obs[:6])
	zeroes := 0
	for _, b := range []bool{p.ShardSize == 0, p.ReplicationFactorMin == 0, p.Name == "", !p.StreamChannels, p.Chunker == "", p.HashFun == "", p.Format == ""} {
		if b {
			zeroes++
		}
	}
	out.add(fmt.Sprintf("CAddP %s %s %s", orc.term(), vc08AddTerm(p), obs), c, obs, zeroes >= 1)
}

var vc08BoolTexts = []string{"true", "false", "1", "0", "t", "f", "T", "F", "TRUE", "FALSE", "True", "False", "", "yes", "tRuE", " true", "2"}
var vc08AddBoolKeys = []string{"shard", "local", "recursive", "raw-leaves", "hidden", "wrap-with-directory", "progress", "stream-channels", "nocopy"}

func vc08GenAddRaw(r *vRand) vc08Case {
	c := vc08Case{Kind: "apraw"}
	add := func(k, v string) { c.Raw = append(c.Raw, [][]byte{[]byte(k), []byte(v)}) }
	good := r.chance(60)
	for _, k := range vc08AddBoolKeys {
		if r.chance(55) {
			n := len(vc08BoolTexts)
			if good {
				n = 13
			}
			add(k, vc08BoolTexts[r.intn(n)])
		}
	}
	if r.chance(60) {
		if good {
			add("cid-version", []string{"0", "1", "", "2", "-1", "+1", "007"}[r.intn(7)])
		} else {
			add("cid-version", vc08QInts[r.intn(len(vc08QInts))])
		}
	}
	pickS := func(xs []string) string {
		n := len(xs)
		if good {
			n -= 2
		}
		return xs[r.intn(n)]
	}
	if r.chance(55) {
		add("layout", pickS(vc08Layouts))
	}
	if r.chance(55) {
		add("format", pickS(vc08Formats))
	}
	if r.chance(55) {
		add("chunker", vc08Chunkers[r.intn(len(vc08Chunkers))])
	}
	if r.chance(55) {
		add("hash", vc08Hashes[r.intn(len(vc08Hashes))])
	}
	// some keys of the embedded options
	if r.chance(50) {
		add("shard-size", []string{"0", "104857600", "1024", "", "18446744073709551615", "-1"}[r.intn(6)])
	}
	if r.chance(40) {
		add("replication-min", []string{"0", "-1", "2", "", "x"}[r.intn(5)])
	}
	if r.chance(40) {
		add("replication-max", []string{"0", "-1", "3", ""}[r.intn(4)])
	}
	if r.chance(20) {
		add("replication", []string{"0", "-1", "2", ""}[r.intn(4)])
	}
	if r.chance(40) {
		add("name", vc08Strings[r.intn(len(vc08Strings))])
	}
	if r.chance(30) {
		add("mode", vc08QModes[r.intn(len(vc08QModes))])
	}
	if r.chance(30) {
		add(vc08QMetaKeys[r.intn(len(vc08QMetaKeys))], vc08Strings[r.intn(len(vc08Strings))])
	}
	if r.chance(25) {
		add("pin-update", vc08Cids[r.intn(len(vc08Cids))].String())
	}
	if r.chance(15) {
		add([]string{"junk", "Shard", "shard-", "cid_version"}[r.intn(4)], "true")
	}
	return c
}

func vc08RunAddRaw(out *vOut, c vc08Case) {
	vals := url.Values{}
	for _, kv := range c.Raw {
		if len(kv) >= 2 && string(kv[0]) != "expire-in" {
			vals.Set(string(kv[0]), string(kv[1]))
		}
	}
	orc := vc08NewOracle()
	orc.askCid(vals.Get("pin-update"))
	keys := vc08SortedKeys(len(vals), func(f func(string)) {
		for k := range vals {
			f(k)
		}
	})
	qt := make([]string, len(keys))
	for i, k := range keys {
		qt[i] = "(" + vc08Str(k) + ", " + vc08Str(vals.Get(k)) + ")"
	}
	wire, err := url.ParseQuery(vals.Encode())
	if err != nil {
		panic(err)
	}
	obs := "ObsADecErr"
	if back, err := AddParamsFromQuery(wire); err == nil {
		obs = "(ObsA " + vc08AddTerm(back) + ")"
	}
	out.count("apraw:" + obs[:6])
	out.add(fmt.Sprintf("CAddRaw %s %s %s", orc.term(), cqList(qt), obs), c, obs, true)
}
